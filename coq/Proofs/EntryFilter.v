(* C02 — the raw-string prefilter is sound and transparent, filter by filter.

   Vocabulary.  b : byte string, r = runes_of b its rune view, rune positions q are nat,
   boundary b q (Utf8Proofs) the byte offset of rune q.
   [enf_fact f r q]  : the compile-time fact the filter f was built from holds at rune position q
                       (what a successful attempt at q implies: C04's predicates).
   [enf_ok f]        : what the constructor guarantees about the needle data (no U+FFFD, ASCII
                       where required, non-negative distance ...).
   [enf_spec f]      : from a start on a rune boundary the filter always answers; if it answers
                       "no candidate" no position at or after the start satisfies the fact; if it
                       answers candidate c, every such position lies at or after byte c. *)
From Verif Require Import Base.Prelude Base.Utf8 Model.Offsets Model.Entry Proofs.Utf8Proofs Proofs.EntryBase.
From Coq Require Import ZifyBool.
Ltac Zify.zify_post_hook ::= Z.div_mod_to_equations.

(* ---------- facts ---------- *)

(* MinRequiredLength: at least minreq runes from q to the end *)
Definition enf_min_fact (minreq : Z) (r : list Z) (q : nat) : Prop :=
  minreq <= Z.of_nat (length r) - Z.of_nat q.

(* a literal (byte string): the UTF-8 encoding of the text from q on starts with it (C04_find_prefix_sound) *)
Definition enf_lit_fact (P : list Z) (r : list Z) (q : nat) : Prop :=
  exists rest, encode_string (skipn q r) = P ++ rest.

(* an ordinal-ignore-case ASCII literal: the runes from q on equal it up to ASCII case *)
Definition enf_ci_fact (P : list Z) (r : list Z) (q : nat) : Prop :=
  en_equal_fold_prefix (skipn q r) P = true.

Definition enf_str_fact (ci : bool) (P r : list Z) (q : nat) : Prop :=
  if ci then enf_ci_fact P r q else enf_lit_fact P r q.

Definition enf_scanner_member (sc : en_scanner) (c : Z) : Prop :=
  if sc_use_range sc then sc_first sc <= c <= sc_last sc else In c (sc_chars sc).

(* the literal after the leading loop stands at rune position j *)
Definition enf_lal_at (l : en_lal) (r : list Z) (j : nat) : Prop :=
  match la_string l with
  | _ :: _ => enf_str_fact (la_string_ci l) (la_string l) r j
  | [] =>
    match la_chars l with
    | _ :: _ => exists c, nth_error r j = Some c /\ In c (la_chars l)
    | [] => nth_error r j = Some (la_char l)
    end
  end.

Definition enf_fact (f : en_filter) (r : list Z) (q : nat) : Prop :=
  match f with
  | FPrefix P ci m => enf_min_fact m r q /\ enf_str_fact ci P r q
  | FPrefixes Ps ci m => enf_min_fact m r q /\ exists P, In P Ps /\ enf_str_fact ci P r q
  | FAsciiSet Ps m => enf_min_fact m r q /\ exists P, In P Ps /\ enf_lit_fact P r q
  | FSet sc m => enf_min_fact m r q /\
                 exists c, nth_error r (q + Z.to_nat (sc_distance sc)) = Some c /\ enf_scanner_member sc c
  | FChar ch d m => enf_min_fact m r q /\ nth_error r (q + Z.to_nat d) = Some ch
  | FString lit d m => enf_min_fact m r q /\ enf_lit_fact lit r (q + Z.to_nat d)
  | FLitLoop l m => enf_min_fact m r q /\ exists j, (q <= j)%nat /\ enf_lal_at l r j
  end.

(* ---------- what the constructor guarantees ---------- *)

Definition enf_ascii (P : list Z) : Prop := Forall (fun x => 0 <= x < 128) P.

Definition enf_str_ok (ci : bool) (P : list Z) : Prop :=
  if ci then enf_ascii P else enb_no_fffd P.

Definition enf_ok (f : en_filter) : Prop :=
  match f with
  | FPrefix P ci _ => enf_str_ok ci P
  | FPrefixes Ps ci _ => Forall (enf_str_ok ci) Ps
  | FAsciiSet Ps _ => Forall (fun P => enf_ascii P /\ P <> []) Ps
  | FSet sc _ => 0 <= sc_distance sc /\
                 (if sc_use_range sc then 0 <= sc_first sc /\ sc_last sc <= 127
                  else enf_ascii (sc_chars sc) /\ sc_chars sc <> [])
  | FChar ch d _ => 0 <= d /\ ch <> rune_error
  | FString lit d _ => 0 <= d /\ enb_no_fffd lit /\ lit <> []
  | FLitLoop l _ => enf_str_ok (la_string_ci l) (la_string l)
  end.

Definition enf_spec (f : en_filter) : Prop :=
  forall (b : list Z) (k0 : nat), (k0 <= length (decode b))%nat ->
    exists c ok, en_run_filter f b (Z.of_nat (boundary b k0)) = Ok (c, ok) /\
      (ok = false -> forall q, (k0 <= q <= length (decode b))%nat -> ~ enf_fact f (runes_of b) q) /\
      (ok = true -> forall q, (k0 <= q <= length (decode b))%nat -> enf_fact f (runes_of b) q ->
                    c <= Z.of_nat (boundary b q)).

(* ---------- the minimum-length test ---------- *)

Lemma enf_min_bytes b k q m :
  (k <= q <= length (decode b))%nat -> enf_min_fact m (runes_of b) q ->
  en_has_min_bytes b (Z.of_nat (boundary b k)) m = true.
Proof.
  intros Hq Hm. unfold enf_min_fact in Hm. rewrite enb_runes_length in Hm.
  unfold en_has_min_bytes, zlen.
  pose proof (boundary_le b k) as H1. pose proof (enb_boundary_mono b k q ltac:(lia)) as H2.
  pose proof (enb_bytes_ge_runes b q ltac:(lia)) as H3. pose proof (boundary_le b q) as H4.
  replace ((Z.of_nat (boundary b k) <? 0) || (Z.of_nat (length b) <? Z.of_nat (boundary b k))) with false by lia.
  lia.
Qed.

(* when the test fails nothing at or after the start has enough input left *)
Lemma enf_min_bytes_false b k m :
  en_has_min_bytes b (Z.of_nat (boundary b k)) m = false ->
  forall q, (k <= q <= length (decode b))%nat -> ~ enf_min_fact m (runes_of b) q.
Proof.
  intros H q Hq Hm. rewrite (enf_min_bytes b k q m Hq Hm) in H. discriminate H.
Qed.

Lemma enf_skipn_boundary b k q : (k <= q)%nat ->
  skipn (boundary b q - boundary b k) (skipn (boundary b k) b) = skipn (boundary b q) b.
Proof.
  intros H. rewrite enb_skipn_skipn. f_equal. pose proof (enb_boundary_mono b k q H). lia.
Qed.

(* ---------- literals: the fact gives an occurrence at the byte offset of q ---------- *)

Lemma enf_skipn_valid s q : Forall (fun x => valid_rune x = true) (skipn q (runes_of s)).
Proof.
  pose proof (enb_runes_valid s) as H. rewrite Forall_forall in *. intros x Hin. apply H.
  rewrite <- (firstn_skipn q (runes_of s)). apply in_or_app. right. exact Hin.
Qed.

Lemma enf_lit_bytes b q P :
  enb_no_fffd P -> enf_lit_fact P (runes_of b) q -> en_has_prefix (skipn (boundary b q) b) P = true.
Proof.
  intros HP [rest H]. destruct (enb_no_fffd_good P HP) as [HPe Hgood].
  rewrite HPe in H. rewrite HPe.
  apply enb_bytes_of_rune_prefix; [exact Hgood|].
  eapply enb_runes_of_encoded_prefix; [exact Hgood|apply enf_skipn_valid|exact H].
Qed.

Lemma enf_lit_occ b k q P :
  (k <= q)%nat -> enb_no_fffd P -> enf_lit_fact P (runes_of b) q ->
  enb_occ (skipn (boundary b k) b) P (boundary b q - boundary b k).
Proof.
  intros Hk HP HF. unfold enb_occ. rewrite enf_skipn_boundary by exact Hk. apply enf_lit_bytes; assumption.
Qed.

(* what a search function must satisfy: a total "first occurrence" search for a position predicate *)
Definition enf_first (occ : nat -> Prop) (j : Z) : Prop :=
  (j = -1 /\ forall k, ~ occ k) \/
  (exists k, j = Z.of_nat k /\ occ k /\ forall k', (k' < k)%nat -> ~ occ k').

Lemma enf_index_first s sub : enf_first (enb_occ s sub) (en_index s sub).
Proof.
  destruct (enb_index_spec s sub) as [H|[k [H1 [_ [H2 H3]]]]]; [left; exact H|right; exists k; auto].
Qed.

Lemma enf_first_range occ j : enf_first occ j -> -1 <= j.
Proof. intros [[-> _]|[k [-> _]]]; lia. Qed.

Lemma enf_first_neg occ j : enf_first occ j -> j < 0 -> forall k, ~ occ k.
Proof. intros [[_ H]|[k [-> _]]] Hj; [exact H|lia]. Qed.

Lemma enf_first_le occ j k : enf_first occ j -> occ k -> 0 <= j <= Z.of_nat k.
Proof.
  intros [[_ H]|[k0 [-> [_ H]]]] Hk; [exfalso; exact (H k Hk)|].
  destruct (Nat.le_gt_cases k0 k) as [|G]; [lia|]. exfalso. exact (H k G Hk).
Qed.

Lemma enf_first_ext (occ occ' : nat -> Prop) j : (forall k, occ k <-> occ' k) -> enf_first occ j -> enf_first occ' j.
Proof.
  intros E [[-> H]|[k [-> [H1 H2]]]].
  - left. split; [reflexivity|]. intros k Hk. apply (H k). apply E. exact Hk.
  - right. exists k. split; [reflexivity|]. split; [apply E; exact H1|].
    intros k' Hk' Ho. apply (H2 k' Hk'). apply E. exact Ho.
Qed.

(* the earlier of two first occurrences: the update of indexAnyPrefixFallback (best, offset) *)
Definition enf_combine (j1 j2 : Z) : Z := if (0 <=? j2) && ((j1 <? 0) || (j2 <? j1)) then j2 else j1.

Lemma enf_first_combine (occ1 occ2 : nat -> Prop) j1 j2 :
  enf_first occ1 j1 -> enf_first occ2 j2 -> enf_first (fun k => occ1 k \/ occ2 k) (enf_combine j1 j2).
Proof.
  unfold enf_combine.
  intros [[-> N1]|[k1 [-> [O1 F1]]]] [[-> N2]|[k2 [-> [O2 F2]]]].
  - left. split; [reflexivity|]. intros k [H|H]; [exact (N1 k H)|exact (N2 k H)].
  - right. exists k2. replace ((0 <=? Z.of_nat k2) && ((-1 <? 0) || (Z.of_nat k2 <? -1))) with true by lia.
    split; [reflexivity|]. split; [right; exact O2|]. intros k' Hk' [H|H]; [exact (N1 k' H)|exact (F2 k' Hk' H)].
  - right. exists k1. replace ((0 <=? -1) && ((Z.of_nat k1 <? 0) || (-1 <? Z.of_nat k1))) with false by lia.
    split; [reflexivity|]. split; [left; exact O1|]. intros k' Hk' [H|H]; [exact (F1 k' Hk' H)|exact (N2 k' H)].
  - destruct (Z.of_nat k2 <? Z.of_nat k1) eqn:E.
    + replace ((0 <=? Z.of_nat k2) && ((Z.of_nat k1 <? 0) || true)) with true by lia.
      right. exists k2. split; [reflexivity|]. split; [right; exact O2|].
      intros k' Hk' [H|H]; [apply (F1 k'); [lia|exact H]|exact (F2 k' Hk' H)].
    + replace ((0 <=? Z.of_nat k2) && ((Z.of_nat k1 <? 0) || false)) with false by lia.
      right. exists k1. split; [reflexivity|]. split; [left; exact O1|].
      intros k' Hk' [H|H]; [exact (F1 k' Hk' H)|apply (F2 k'); [lia|exact H]].
Qed.

(* ---------- IndexByte, indexASCIIByteIgnoreCase ---------- *)

Definition enf_byte_occ (f : Z -> bool) (s : list Z) (k : nat) : Prop := (k < length s)%nat /\ f (nth k s 0) = true.

Lemma enf_find_first_first f s : enf_first (enf_byte_occ f s) (enb_find_first f s 0).
Proof.
  destruct (enb_find_first_spec f s 0 ltac:(lia)) as [[H1 H2]|[k [H1 [H2 [H3 H4]]]]].
  - left. split; [exact H1|]. intros k [Hk Hf]. rewrite (H2 k Hk) in Hf. discriminate Hf.
  - right. exists k. split; [lia|]. split; [split; assumption|].
    intros k' Hk' [_ Hf]. rewrite (H4 k' Hk') in Hf. discriminate Hf.
Qed.

Lemma enf_index_byte_first s c : enf_first (enf_byte_occ (fun b => b =? c) s) (en_index_byte s c).
Proof. unfold en_index_byte. rewrite enb_index_byte_from_find. apply enf_find_first_first. Qed.

Lemma enf_fold_cases x y : en_fold_ascii y = en_fold_ascii x ->
  y = en_fold_ascii x \/ ((97 <= en_fold_ascii x <= 122) /\ y = en_fold_ascii x - 32).
Proof. unfold en_fold_ascii. intros H. repeat break_if; lia. Qed.

Lemma enf_fold_not_upper x : ~ (65 <= en_fold_ascii x <= 90).
Proof. unfold en_fold_ascii. break_if; lia. Qed.

Lemma enf_index_ascii_byte_ci_first t ch :
  enf_first (enf_byte_occ (fun x => en_fold_ascii x =? en_fold_ascii ch) t) (en_index_ascii_byte_ci t ch).
Proof.
  unfold en_index_ascii_byte_ci. set (c := en_fold_ascii ch).
  pose proof (enf_fold_not_upper ch) as NU. fold c in NU.
  pose proof (enf_index_byte_first t c) as L.
  destruct ((c <? 97) || (122 <? c)) eqn:E.
  - eapply enf_first_ext; [|exact L]. intros k. unfold enf_byte_occ. split; intros [Hk H]; (split; [exact Hk|]).
    + assert (nth k t 0 = c) by lia. unfold en_fold_ascii. break_if; lia.
    + assert (Hf : en_fold_ascii (nth k t 0) = c) by lia. unfold en_fold_ascii in Hf. break_if; lia.
  - pose proof (enf_index_byte_first t (c - 32)) as U.
    pose proof (enf_first_combine _ _ _ _ L U) as C. unfold enf_combine in C.
    pose proof (enf_first_range _ _ L) as RL. pose proof (enf_first_range _ _ U) as RU.
    match goal with |- enf_first _ ?j => replace j with
      (if (0 <=? en_index_byte t (c - 32)) && ((en_index_byte t c <? 0) || (en_index_byte t (c - 32) <? en_index_byte t c))
       then en_index_byte t (c - 32) else en_index_byte t c) end.
    + eapply enf_first_ext; [|exact C]. intros k. unfold enf_byte_occ. split.
      * intros [[Hk H]|[Hk H]]; (split; [exact Hk|]); unfold en_fold_ascii; break_if; lia.
      * intros [Hk H]. assert (Hf : en_fold_ascii (nth k t 0) = c) by lia.
        unfold en_fold_ascii in Hf. break_if; [right|left]; (split; [exact Hk|lia]).
    + repeat break_if; lia.
Qed.

(* ---------- IndexStringIgnoreCaseASCII ---------- *)

Definition enf_ci_occ (s P : list Z) (k : nat) : Prop := en_equal_fold_prefix (skipn k s) P = true.

Lemma enf_equal_fold_length s P : en_equal_fold_prefix s P = true -> (length P <= length s)%nat.
Proof.
  revert s. induction P as [|p P IH]; intros s H; [cbn; lia|].
  destruct s as [|y s]; [discriminate H|]. cbn [en_equal_fold_prefix] in H.
  apply andb_true_iff in H. destruct H as [_ H]. specialize (IH s H). cbn [length]. lia.
Qed.

Lemma enf_nth_skipn {A} (l : list A) (d : A) a k : nth k (skipn a l) d = nth (a + k) l d.
Proof.
  revert l. induction a as [|a IH]; intros l; [reflexivity|].
  destruct l as [|x l]; [destruct k; reflexivity|]. cbn [skipn Nat.add nth]. apply IH.
Qed.

Lemma enf_ci_occ_first_byte s p P' k :
  enf_ci_occ s (p :: P') k ->
  (k + length (p :: P') <= length s)%nat /\ en_fold_ascii (nth k s 0) = en_fold_ascii p.
Proof.
  unfold enf_ci_occ. intros H. pose proof (enf_equal_fold_length _ _ H) as L. rewrite skipn_length in L.
  destruct (skipn k s) as [|y s'] eqn:E; [discriminate H|].
  cbn [en_equal_fold_prefix] in H. apply andb_true_iff in H. destruct H as [H _].
  assert (Hy : nth k s 0 = y).
  { pose proof (enf_nth_skipn s 0 k 0%nat) as N. rewrite E, Nat.add_0_r in N. cbn [nth] in N. congruence. }
  cbn [length] in *. split; [lia|]. rewrite Hy. lia.
Qed.

Lemma enf_index_ci_loop_spec p P' : forall fuel s st,
  (st <= length s)%nat -> (length s + 1 <= fuel + st)%nat ->
  (forall k', (k' < st)%nat -> ~ enf_ci_occ s (p :: P') k') ->
  exists j, en_index_ci_loop fuel s (p :: P') (Z.of_nat st) = Ok j /\ enf_first (enf_ci_occ s (p :: P')) j.
Proof.
  induction fuel as [|f IH]; intros s st Hst Hfuel Hinv; [lia|].
  cbn [en_index_ci_loop]. set (P := p :: P') in *.
  assert (HlenP : zlen P = 1 + zlen P') by (unfold zlen, P; cbn [length]; lia).
  pose proof (enb_zlen_nonneg P') as HP'.
  assert (HlP : (1 <= length P)%nat) by (unfold P; cbn [length]; lia).
  destruct (Z.of_nat st <=? zlen s - zlen P) eqn:E.
  - rewrite enb_from_nat. replace (en_at P 0) with p by reflexivity.
    pose proof (enf_index_ascii_byte_ci_first (skipn st s) p) as F.
    set (offset := en_index_ascii_byte_ci (skipn st s) p) in *.
    assert (Hocc : forall k, (st <= k)%nat -> enf_ci_occ s P k ->
                     enf_byte_occ (fun x => en_fold_ascii x =? en_fold_ascii p) (skipn st s) (k - st) /\
                     Z.of_nat k <= zlen s - zlen P).
    { intros k Hk Ho. destruct (enf_ci_occ_first_byte s p P' k Ho) as [H1 H2]. fold P in H1.
      unfold enf_byte_occ. rewrite skipn_length, enf_nth_skipn. replace (st + (k - st))%nat with k by lia.
      unfold zlen. split; [split; lia|lia]. }
    destruct ((offset <? 0) || (zlen s - zlen P <? Z.of_nat st + offset)) eqn:E2.
    + exists (-1). split; [reflexivity|]. left. split; [reflexivity|]. intros k Ho.
      destruct (Nat.lt_ge_cases k st) as [L|G]; [exact (Hinv k L Ho)|].
      destruct (Hocc k G Ho) as [H1 H2].
      pose proof (enf_first_le _ _ _ F H1). lia.
    + destruct F as [[F1 _]|[o [F1 [F2 F3]]]]; [lia|].
      rewrite F1. replace (Z.of_nat st + Z.of_nat o) with (Z.of_nat (st + o)) by lia. rewrite enb_from_nat.
      assert (Hbefore : forall k', (k' < st + o)%nat -> ~ enf_ci_occ s P k').
      { intros k' Hk' Ho. destruct (Nat.lt_ge_cases k' st) as [L|G]; [exact (Hinv k' L Ho)|].
        destruct (Hocc k' G Ho) as [H1 _]. apply (F3 (k' - st)%nat); [lia|exact H1]. }
      destruct (en_equal_fold_prefix (skipn (st + o) s) P) eqn:E3.
      * exists (Z.of_nat (st + o)). split; [reflexivity|]. right. exists (st + o)%nat.
        split; [reflexivity|]. split; [exact E3|exact Hbefore].
      * replace (Z.of_nat (st + o) + 1) with (Z.of_nat (S (st + o))) by lia.
        apply IH.
        -- unfold zlen in *. lia.
        -- lia.
        -- intros k' Hk'. destruct (Nat.eq_dec k' (st + o)) as [->|]; [|apply Hbefore; lia].
           unfold enf_ci_occ. rewrite E3. discriminate.
  - exists (-1). split; [reflexivity|]. left. split; [reflexivity|]. intros k Ho.
    destruct (Nat.lt_ge_cases k st) as [L|G]; [exact (Hinv k L Ho)|].
    destruct (enf_ci_occ_first_byte s p P' k Ho) as [H1 _]. fold P in H1. unfold zlen in *. lia.
Qed.

Lemma enf_index_ci_first s P : exists j, en_index_ci s P = Ok j /\ enf_first (enf_ci_occ s P) j.
Proof.
  destruct P as [|p P'].
  - exists 0. split; [reflexivity|]. right. exists 0%nat. split; [reflexivity|]. split; [|intros; lia].
    unfold enf_ci_occ. cbn [skipn]. destruct s; reflexivity.
  - unfold en_index_ci. apply (enf_index_ci_loop_spec p P' (S (length s)) s 0); [lia|lia|intros; lia].
Qed.

(* strings.Index or IndexStringIgnoreCaseASCII, as the filter selects *)
Definition enf_str_occ (ci : bool) (s P : list Z) (k : nat) : Prop :=
  if ci then enf_ci_occ s P k else enb_occ s P k.

Lemma enf_index_maybe_ci_first ci s P :
  exists j, en_index_maybe_ci ci s P = Ok j /\ enf_first (enf_str_occ ci s P) j.
Proof.
  unfold en_index_maybe_ci, enf_str_occ. destruct ci.
  - apply enf_index_ci_first.
  - exists (en_index s P). split; [reflexivity|apply enf_index_first].
Qed.

(* the ignore-case fact gives a byte-level ignore-case occurrence *)
Lemma enf_ci_bytes b : forall P q,
  enf_ascii P -> enf_ci_fact P (runes_of b) q -> en_equal_fold_prefix (skipn (boundary b q) b) P = true.
Proof.
  induction P as [|p P IH]; intros q HA HF.
  - destruct (skipn (boundary b q) b); reflexivity.
  - unfold enf_ascii in HA. apply Forall_cons_iff in HA. destruct HA as [Hp HA].
    unfold enf_ci_fact in HF.
    destruct (skipn q (runes_of b)) as [|x rs] eqn:Er; [discriminate HF|].
    cbn [en_equal_fold_prefix] in HF. apply andb_true_iff in HF. destruct HF as [Hx Hrs].
    assert (Hn : nth_error (runes_of b) q = Some x).
    { destruct (nth_error (runes_of b) q) as [y|] eqn:En.
      - rewrite (enb_skipn_nth _ _ _ En) in Er. congruence.
      - apply nth_error_None in En. rewrite skipn_all2 in Er by lia. discriminate Er. }
    apply enb_rune_nth in Hn. destruct Hn as [w Hn].
    pose proof (enb_decoded_valid b q x w Hn) as Hv.
    assert (Hx127 : 0 <= x <= 127).
    { unfold valid_rune in Hv. unfold en_fold_ascii in Hx. repeat break_if; lia. }
    assert (Hne : x <> rune_error) by (unfold rune_error; lia).
    destruct (enb_rune_bytes b q x w Hn Hne) as (_ & _ & Hb).
    rewrite Hb. replace (encode x) with [x] by (unfold encode; repeat break_if; try lia; reflexivity).
    cbn [app en_equal_fold_prefix]. rewrite Hx. cbn [andb].
    apply IH; [exact HA|]. unfold enf_ci_fact.
    replace (skipn (S q) (runes_of b)) with rs; [exact Hrs|].
    replace (S q) with (q + 1)%nat by lia. rewrite skipn_add, Er. reflexivity.
Qed.

Lemma enf_str_occ_of_fact ci b k q P :
  (k <= q)%nat -> enf_str_ok ci P -> enf_str_fact ci P (runes_of b) q ->
  enf_str_occ ci (skipn (boundary b k) b) P (boundary b q - boundary b k).
Proof.
  intros Hk Hok HF. unfold enf_str_occ, enf_str_ok, enf_str_fact in *. destruct ci.
  - unfold enf_ci_occ. rewrite enf_skipn_boundary by exact Hk. apply enf_ci_bytes; assumption.
  - apply enf_lit_occ; assumption.
Qed.

(* ---------- stringIndexPrefixFilter ---------- *)

Lemma enf_spec_prefix P ci m : enf_ok (FPrefix P ci m) -> enf_spec (FPrefix P ci m).
Proof.
  intros Hok b k0 Hk0. cbn [enf_ok] in Hok. cbn [en_run_filter].
  destruct (en_has_min_bytes b (Z.of_nat (boundary b k0)) m) eqn:Em; cbn [negb].
  - rewrite enb_from_nat.
    destruct (enf_index_maybe_ci_first ci (skipn (boundary b k0) b) P) as [j [Hj Hf]].
    rewrite Hj. cbn [bind]. destruct (j <? 0) eqn:Ej.
    + exists 0, false. split; [reflexivity|]. split; [|discriminate].
      intros _ q Hq [_ HF]. eapply (enf_first_neg _ _ Hf); [lia|].
      eapply enf_str_occ_of_fact; [|exact Hok|exact HF]. lia.
    + exists (Z.of_nat (boundary b k0) + j), true. split; [reflexivity|]. split; [discriminate|].
      intros _ q Hq [_ HF].
      pose proof (enf_str_occ_of_fact ci b k0 q P ltac:(lia) Hok HF) as Ho.
      pose proof (enf_first_le _ _ _ Hf Ho). pose proof (enb_boundary_mono b k0 q ltac:(lia)). lia.
  - exists 0, false. split; [reflexivity|]. split; [|discriminate].
    intros _ q Hq [HM _]. exact (enf_min_bytes_false b k0 m Em q Hq HM).
Qed.

(* ---------- indexAnyPrefixFallback ---------- *)

Lemma enf_best_offset_spec ci s : forall Ps (occ0 : nat -> Prop) best0,
  enf_first occ0 best0 ->
  exists best, en_best_offset ci s Ps best0 = Ok best /\
               enf_first (fun k => occ0 k \/ exists P, In P Ps /\ enf_str_occ ci s P k) best.
Proof.
  induction Ps as [|P Ps IH]; intros occ0 best0 H0.
  - exists best0. split; [reflexivity|]. eapply enf_first_ext; [|exact H0]. intros k. split; [auto|].
    intros [H|[P [[] _]]]. exact H.
  - cbn [en_best_offset]. destruct (enf_index_maybe_ci_first ci s P) as [j [Hj Hf]]. rewrite Hj. cbn [bind].
    pose proof (enf_first_combine _ _ _ _ H0 Hf) as C. unfold enf_combine in C.
    destruct (IH _ _ C) as [best [Hb Hbf]]. exists best. split; [exact Hb|].
    eapply enf_first_ext; [|exact Hbf]. intros k. split.
    + intros [[H|H]|[P' [Hin H]]]; [left; exact H|right; exists P; split; [left; reflexivity|exact H]|
                                    right; exists P'; split; [right; exact Hin|exact H]].
    + intros [H|[P' [[<-|Hin] H]]]; [left; left; exact H|left; right; exact H|right; exists P'; auto].
Qed.

Lemma enf_spec_prefixes Ps ci m : enf_ok (FPrefixes Ps ci m) -> enf_spec (FPrefixes Ps ci m).
Proof.
  intros Hok b k0 Hk0. cbn [enf_ok] in Hok. rewrite Forall_forall in Hok. cbn [en_run_filter].
  destruct (en_has_min_bytes b (Z.of_nat (boundary b k0)) m) eqn:Em; cbn [negb].
  - rewrite enb_from_nat.
    destruct (enf_best_offset_spec ci (skipn (boundary b k0) b) Ps (fun _ => False) (-1)) as [j [Hj Hf]].
    { left. split; [reflexivity|]. intros k []. }
    rewrite Hj. cbn [bind].
    assert (Hocc : forall q, (k0 <= q <= length (decode b))%nat -> enf_fact (FPrefixes Ps ci m) (runes_of b) q ->
                     False \/ exists P, In P Ps /\ enf_str_occ ci (skipn (boundary b k0) b) P (boundary b q - boundary b k0)).
    { intros q Hq [_ [P [Hin HF]]]. right. exists P. split; [exact Hin|].
      apply enf_str_occ_of_fact; [lia|apply Hok; exact Hin|exact HF]. }
    destruct (j <? 0) eqn:Ej.
    + exists 0, false. split; [reflexivity|]. split; [|discriminate].
      intros _ q Hq HF. eapply (enf_first_neg _ _ Hf); [lia|]. exact (Hocc q Hq HF).
    + exists (Z.of_nat (boundary b k0) + j), true. split; [reflexivity|]. split; [discriminate|].
      intros _ q Hq HF. pose proof (enf_first_le _ _ _ Hf (Hocc q Hq HF)).
      pose proof (enb_boundary_mono b k0 q ltac:(lia)). lia.
  - exists 0, false. split; [reflexivity|]. split; [|discriminate].
    intros _ q Hq [HM _]. exact (enf_min_bytes_false b k0 m Em q Hq HM).
Qed.

(* ---------- bytes that are not continuation bytes start a rune ---------- *)

Lemma enf_decode_rune_cont b0 t i :
  (1 <= i < snd (decode_rune (b0 :: t)))%nat -> is_cont (nth i (b0 :: t) 0) = true.
Proof.
  unfold decode_rune, invalid1.
  destruct t as [|b1 [|b2 [|b3 t]]]; repeat break_if; cbn [snd]; intros Hi; try lia;
    repeat match goal with H : _ && _ = true |- _ => apply andb_true_iff in H; destruct H end;
    destruct i as [|[|[|[|i]]]]; try lia; cbn [nth]; assumption.
Qed.

Lemma enf_noncont_boundary : forall t i,
  (i < length t)%nat -> is_cont (nth i t 0) = false ->
  exists k, (k < length (decode t))%nat /\ i = boundary t k.
Proof.
  induction t as [|b t IH] using decode_ind; intros i Hi Hc; [cbn in Hi; lia|].
  set (w := snd (decode_rune (b :: t))) in *.
  pose proof (decode_rune_width b t) as [Hw Hl]. fold w in Hw, Hl.
  rewrite decode_unfold. fold w. cbn [length].
  destruct (Nat.eq_dec i 0) as [->|Hi0].
  - exists 0%nat. rewrite boundary_0. split; lia.
  - destruct (Nat.lt_ge_cases i w) as [L|G].
    + rewrite (enf_decode_rune_cont b t i) in Hc by (fold w; lia). discriminate Hc.
    + destruct (IH (i - w)%nat) as [k [Hk Hb]].
      * rewrite skipn_length. lia.
      * rewrite enf_nth_skipn. replace (w + (i - w))%nat with i by lia. exact Hc.
      * exists (S k). rewrite boundary_S. fold w. split; lia.
Qed.

Lemma enf_decode_nth t k : (k < length (decode t))%nat ->
  nth_error (decode t) k = Some (decode_rune (skipn (boundary t k) t)).
Proof.
  intros Hk. destruct (nth_error (decode t) k) as [[c w]|] eqn:E.
  - destruct (enb_boundary_step t k c w E) as (_ & _ & Hr & _). rewrite Hr. reflexivity.
  - apply nth_error_None in E. lia.
Qed.

Lemma enf_skipn_cons {A} (l : list A) (d : A) i : (i < length l)%nat -> skipn i l = nth i l d :: skipn (S i) l.
Proof. intros H. apply enb_skipn_nth. apply nth_error_nth'. exact H. Qed.

(* an ASCII byte is a rune of its own *)
Lemma enf_ascii_byte_rune t i :
  (i < length t)%nat -> 0 <= nth i t 0 < 128 ->
  exists k, (k < length (decode t))%nat /\ i = boundary t k /\ nth_error (runes_of t) k = Some (nth i t 0).
Proof.
  intros Hi Hx. destruct (enf_noncont_boundary t i Hi) as [k [Hk Hb]]; [unfold is_cont; lia|].
  exists k. split; [exact Hk|]. split; [exact Hb|].
  apply enb_rune_nth. exists 1%nat. rewrite (enf_decode_nth t k Hk), <- Hb.
  rewrite (enf_skipn_cons t 0 i Hi). f_equal. unfold decode_rune. repeat break_if; try lia; reflexivity.
Qed.

Lemma enf_encode_ascii x : 0 <= x <= 127 -> encode x = [x].
Proof. intros H. unfold encode. repeat break_if; try lia; reflexivity. Qed.

Lemma enf_zmem_In x l : zmem x l = true <-> In x l.
Proof.
  unfold zmem. rewrite existsb_exists. split.
  - intros [y [Hin Hy]]. replace x with y by lia. exact Hin.
  - intros Hin. exists x. split; [exact Hin|lia].
Qed.

Lemma enf_runes_ascii l : enf_ascii l -> runes_of l = l.
Proof.
  unfold runes_of. induction l as [|x l IH]; intros H; [reflexivity|].
  apply Forall_cons_iff in H. destruct H as [Hx H].
  rewrite decode_unfold.
  assert (E : decode_rune (x :: l) = (x, 1%nat)) by (unfold decode_rune; repeat break_if; try lia; reflexivity).
  rewrite E. cbn [snd skipn map fst]. f_equal. apply IH. exact H.
Qed.

(* a rune-level hit of an ASCII rune is a byte-level hit at its boundary, and conversely *)
Lemma enf_rune_byte t k c :
  nth_error (runes_of t) k = Some c -> 0 <= c <= 127 ->
  (boundary t k < length t)%nat /\ nth (boundary t k) t 0 = c.
Proof.
  intros Hn Hc. apply enb_rune_nth in Hn. destruct Hn as [w Hn].
  assert (Hne : c <> rune_error) by (unfold rune_error; lia).
  destruct (enb_rune_bytes t k c w Hn Hne) as (_ & _ & Hb). rewrite (enf_encode_ascii c Hc) in Hb.
  assert (L : (boundary t k < length t)%nat).
  { destruct (Nat.lt_ge_cases (boundary t k) (length t)) as [|G]; [assumption|].
    rewrite skipn_all2 in Hb by lia. discriminate Hb. }
  split; [exact L|]. rewrite (enf_skipn_cons t 0 _ L) in Hb. cbn [app] in Hb. congruence.
Qed.

Lemma enf_index_any_ascii t chars :
  enf_ascii chars -> enf_first (enf_byte_occ (fun x => zmem x chars) t) (en_index_any t chars).
Proof.
  intros HA. unfold en_index_any. destruct chars as [|c0 chars'] eqn:Ec.
  - left. split; [reflexivity|]. intros k [_ H]. discriminate H.
  - rewrite <- Ec in *. clear Ec c0 chars'. rewrite (enf_runes_ascii chars HA). unfold go_range.
    assert (Hmem : forall x, zmem x chars = true -> 0 <= x <= 127).
    { intros x Hx. apply enf_zmem_In in Hx. unfold enf_ascii in HA. rewrite Forall_forall in HA.
      specialize (HA x Hx). lia. }
    destruct (enb_range_find_spec (fun c => zmem c chars) (decode t) 0) as [[H1 H2]|(k & c & w & H1 & H2 & H3 & H4)].
    + left. split; [exact H1|]. intros i [Hi Hx].
      destruct (enf_ascii_byte_rune t i Hi) as (k & Hk & _ & Hn); [specialize (Hmem _ Hx); lia|].
      apply enb_rune_nth in Hn. destruct Hn as [w Hn]. rewrite (H2 k _ w Hn) in Hx. discriminate Hx.
    + right. exists (boundary t k). rewrite H3, enb_off_boundary. split; [lia|].
      assert (Hn : nth_error (runes_of t) k = Some c) by (apply enb_rune_nth; eauto).
      destruct (enf_rune_byte t k c Hn (Hmem c H2)) as [L Hb].
      split; [split; [exact L|rewrite Hb; exact H2]|].
      intros i Hi [Hil Hx].
      destruct (enf_ascii_byte_rune t i Hil) as (k' & Hk' & Hbi & Hn'); [specialize (Hmem _ Hx); lia|].
      apply enb_rune_nth in Hn'. destruct Hn' as [w' Hn'].
      assert (Hkk : (k' < k)%nat).
      { destruct (Nat.lt_ge_cases k' k) as [|G]; [assumption|].
        pose proof (enb_boundary_mono t k k' G). lia. }
      rewrite (H4 k' _ w' Hkk Hn') in Hx. discriminate Hx.
Qed.

(* ---------- the ASCII string-set filter ---------- *)

Lemma enf_iota_In x n : In x (iota n) <-> 0 <= x < Z.of_nat n.
Proof.
  unfold iota. rewrite in_map_iff. split.
  - intros [k [<- Hk]]. apply in_seq in Hk. lia.
  - intros H. exists (Z.to_nat x). split; [lia|]. apply in_seq. lia.
Qed.

Lemma enf_first_chars_mem Ps x :
  zmem x (en_first_chars Ps) = true <-> (0 <= x < 256 /\ exists P, In P Ps /\ en_first_byte P = x).
Proof.
  rewrite enf_zmem_In. unfold en_first_chars. rewrite filter_In, enf_iota_In, existsb_exists.
  change (Z.of_nat 256) with 256. split.
  - intros [H1 [P [Hin HP]]]. split; [exact H1|]. exists P. split; [exact Hin|lia].
  - intros [H1 [P [Hin HP]]]. split; [exact H1|]. exists P. split; [exact Hin|lia].
Qed.

Lemma enf_bucket_hit_iff input i bucket :
  en_bucket_hit input i bucket = true <->
  exists P, In P bucket /\ zlen P <= zlen input - i /\ en_has_prefix (en_from input i) P = true.
Proof.
  induction bucket as [|P ps IH]; cbn [en_bucket_hit].
  - split; [discriminate|]. intros [P [[] _]].
  - destruct ((zlen P <=? zlen input - i) && en_has_prefix (en_from input i) P) eqn:E.
    + split; [|reflexivity]. intros _. apply andb_true_iff in E. exists P. split; [left; reflexivity|].
      destruct E as [E1 E2]. split; [lia|exact E2].
    + rewrite IH. split.
      * intros [P' [Hin H]]. exists P'. split; [right; exact Hin|exact H].
      * intros [P' [[<-|Hin] [H1 H2]]]; [|exists P'; auto].
        rewrite H2 in E. replace (zlen P <=? zlen input - i) with true in E by lia. discriminate E.
Qed.

Definition enf_any_occ (Ps : list (list Z)) (b : list Z) (i : nat) : Prop := exists P, In P Ps /\ enb_occ b P i.

Lemma enf_any_occ_first_byte Ps b i :
  Forall (fun P => enf_ascii P /\ P <> []) Ps -> enf_any_occ Ps b i ->
  (i < length b)%nat /\ zmem (nth i b 0) (en_first_chars Ps) = true /\
  en_bucket_hit b (Z.of_nat i) (en_bucket Ps (nth i b 0)) = true.
Proof.
  intros Hok [P [Hin Ho]]. rewrite Forall_forall in Hok. destruct (Hok P Hin) as [HA Hne].
  unfold enb_occ in Ho. destruct P as [|p P']; [congruence|].
  apply enb_has_prefix_iff in Ho. destruct Ho as [rest Ho].
  assert (L : (i < length b)%nat).
  { destruct (Nat.lt_ge_cases i (length b)) as [|G]; [assumption|]. rewrite skipn_all2 in Ho by lia. discriminate Ho. }
  assert (Hb : nth i b 0 = p).
  { rewrite (enf_skipn_cons b 0 i L) in Ho. cbn [app] in Ho. congruence. }
  unfold enf_ascii in HA. apply Forall_cons_iff in HA. destruct HA as [Hp _].
  split; [exact L|]. split.
  - apply enf_first_chars_mem. split; [lia|]. exists (p :: P'). split; [exact Hin|]. rewrite Hb. reflexivity.
  - apply enf_bucket_hit_iff. exists (p :: P'). split.
    + unfold en_bucket. apply filter_In. split; [exact Hin|]. rewrite Hb. unfold en_first_byte, en_at. cbn. lia.
    + rewrite enb_from_nat. split.
      * pose proof (f_equal (@length Z) Ho) as Hl. rewrite skipn_length, app_length in Hl.
        unfold zlen. lia.
      * apply enb_has_prefix_iff. eauto.
Qed.

Lemma enf_first_chars_ascii Ps :
  Forall (fun P => enf_ascii P /\ P <> []) Ps -> enf_ascii (en_first_chars Ps).
Proof.
  intros Hok. unfold enf_ascii. apply Forall_forall. intros x Hx. apply enf_zmem_In in Hx.
  apply enf_first_chars_mem in Hx. destruct Hx as [_ [P [Hin HP]]].
  rewrite Forall_forall in Hok. destruct (Hok P Hin) as [HA Hne].
  destruct P as [|p P']; [congruence|]. unfold en_first_byte, en_at in HP. cbn in HP. subst x.
  unfold enf_ascii in HA. apply Forall_cons_iff in HA. tauto.
Qed.

Lemma enf_ascii_set_loop_spec Ps b :
  Forall (fun P => enf_ascii P /\ P <> []) Ps ->
  forall fuel sa, (sa <= length b)%nat -> (length b + 1 <= fuel + sa)%nat ->
  exists c ok, en_ascii_set_loop fuel Ps b (Z.of_nat sa) = Ok (c, ok) /\
    (ok = false -> forall i, (sa <= i)%nat -> ~ enf_any_occ Ps b i) /\
    (ok = true -> forall i, (sa <= i)%nat -> enf_any_occ Ps b i -> c <= Z.of_nat i).
Proof.
  intros Hok. induction fuel as [|f IH]; intros sa Hsa Hf; [lia|].
  cbn [en_ascii_set_loop]. unfold zlen.
  destruct (Z.of_nat sa <? Z.of_nat (length b)) eqn:E.
  - rewrite enb_from_nat.
    pose proof (enf_index_any_ascii (skipn sa b) (en_first_chars Ps) (enf_first_chars_ascii Ps Hok)) as F.
    set (offset := en_index_any (skipn sa b) (en_first_chars Ps)) in *.
    (* an occurrence at i >= sa shows up as a first-chars byte at offset i - sa *)
    assert (Hocc : forall i, (sa <= i)%nat -> enf_any_occ Ps b i ->
              enf_byte_occ (fun x => zmem x (en_first_chars Ps)) (skipn sa b) (i - sa) /\
              en_bucket_hit b (Z.of_nat i) (en_bucket Ps (nth i b 0)) = true).
    { intros i Hi Ho. destruct (enf_any_occ_first_byte Ps b i Hok Ho) as (L & H1 & H2).
      split; [|exact H2]. unfold enf_byte_occ. rewrite skipn_length, enf_nth_skipn.
      replace (sa + (i - sa))%nat with i by lia. split; [lia|exact H1]. }
    destruct (offset <? 0) eqn:E2.
    + exists 0, false. split; [reflexivity|]. split; [|discriminate].
      intros _ i Hi Ho. destruct (Hocc i Hi Ho) as [H1 _]. exact (enf_first_neg _ _ F ltac:(lia) _ H1).
    + destruct F as [[F1 _]|[o [F1 [[F2 F2'] F3]]]]; [lia|].
      rewrite F1. replace (Z.of_nat sa + Z.of_nat o) with (Z.of_nat (sa + o)) by lia.
      rewrite enb_at_nat.
      assert (Hge : forall i, (sa <= i)%nat -> enf_any_occ Ps b i -> (sa + o <= i)%nat).
      { intros i Hi Ho. destruct (Hocc i Hi Ho) as [H1 _].
        destruct (Nat.le_gt_cases (sa + o) i) as [|G]; [assumption|].
        exfalso. apply (F3 (i - sa)%nat); [lia|exact H1]. }
      destruct (en_bucket_hit b (Z.of_nat (sa + o)) (en_bucket Ps (nth (sa + o) b 0))) eqn:E3.
      * exists (Z.of_nat (sa + o)), true. split; [reflexivity|]. split; [discriminate|].
        intros _ i Hi Ho. specialize (Hge i Hi Ho). lia.
      * rewrite skipn_length in F2.
        replace (Z.of_nat (sa + o) + 1) with (Z.of_nat (S (sa + o))) by lia.
        destruct (IH (S (sa + o)) ltac:(lia) ltac:(lia)) as (c & ok & Hr & HB & HC).
        exists c, ok. split; [exact Hr|]. split.
        -- intros Hk i Hi Ho. pose proof (Hge i Hi Ho) as G.
           destruct (Nat.eq_dec i (sa + o)) as [->|]; [|apply (HB Hk i); [lia|exact Ho]].
           destruct (Hocc _ Hi Ho) as [_ H2]. congruence.
        -- intros Hk i Hi Ho. pose proof (Hge i Hi Ho) as G.
           destruct (Nat.eq_dec i (sa + o)) as [->|]; [|apply (HC Hk i); [lia|exact Ho]].
           destruct (Hocc _ Hi Ho) as [_ H2]. congruence.
  - exists 0, false. split; [reflexivity|]. split; [|discriminate].
    intros _ i Hi Ho. destruct (enf_any_occ_first_byte Ps b i Hok Ho) as (L & _). lia.
Qed.

Lemma enf_spec_ascii_set Ps m : enf_ok (FAsciiSet Ps m) -> enf_spec (FAsciiSet Ps m).
Proof.
  intros Hok b k0 Hk0. cbn [enf_ok] in Hok. cbn [en_run_filter].
  destruct (en_has_min_bytes b (Z.of_nat (boundary b k0)) m) eqn:Em; cbn [negb].
  - pose proof (boundary_le b k0) as Hle.
    destruct (enf_ascii_set_loop_spec Ps b Hok (S (length b)) (boundary b k0) Hle ltac:(lia)) as (c & ok & Hr & HB & HC).
    exists c, ok. split; [exact Hr|].
    assert (Hocc : forall q, (k0 <= q <= length (decode b))%nat -> enf_fact (FAsciiSet Ps m) (runes_of b) q ->
                     enf_any_occ Ps b (boundary b q)).
    { intros q Hq [_ [P [Hin HF]]]. exists P. split; [exact Hin|]. unfold enb_occ.
      apply enf_lit_bytes; [|exact HF]. rewrite Forall_forall in Hok. destruct (Hok P Hin) as [HA _].
      (* an ASCII string contains no U+FFFD *)
      unfold enb_no_fffd, en_contains_rune, en_index_rune.
      replace ((0 <=? rune_error) && (rune_error <? 128)) with false by reflexivity.
      rewrite Z.eqb_refl. unfold go_range.
      destruct (enb_range_find_spec (fun c => c =? rune_error) (decode P) 0) as [[H1 _]|(k & c1 & w & H1 & H2 & _)].
      - rewrite H1. reflexivity.
      - exfalso. assert (Hn : nth_error (runes_of P) k = Some c1) by (apply enb_rune_nth; eauto).
        rewrite (enf_runes_ascii P HA) in Hn. apply nth_error_In in Hn.
        unfold enf_ascii in HA. rewrite Forall_forall in HA. specialize (HA c1 Hn). unfold rune_error in H2. lia. }
    split.
    + intros Hk q Hq HF. apply (HB Hk (boundary b q)); [apply enb_boundary_mono; lia|exact (Hocc q Hq HF)].
    + intros Hk q Hq HF. apply (HC Hk (boundary b q)); [apply enb_boundary_mono; lia|exact (Hocc q Hq HF)].
  - exists 0, false. split; [reflexivity|]. split; [|discriminate].
    intros _ q Hq [HM _]. exact (enf_min_bytes_false b k0 m Em q Hq HM).
Qed.

(* ---------- stringLiteralAfterLoopFilter ---------- *)

Lemma enf_ascii_no_fffd P : enf_ascii P -> enb_no_fffd P.
Proof.
  intros HA. unfold enb_no_fffd, en_contains_rune, en_index_rune.
  replace ((0 <=? rune_error) && (rune_error <? 128)) with false by reflexivity.
  rewrite Z.eqb_refl. unfold go_range.
  destruct (enb_range_find_spec (fun c => c =? rune_error) (decode P) 0) as [[H1 _]|(k & c1 & w & H1 & H2 & _)].
  - rewrite H1. reflexivity.
  - exfalso. assert (Hn : nth_error (runes_of P) k = Some c1) by (apply enb_rune_nth; eauto).
    rewrite (enf_runes_ascii P HA) in Hn. apply nth_error_In in Hn.
    unfold enf_ascii in HA. rewrite Forall_forall in HA. specialize (HA c1 Hn). unfold rune_error in H2. lia.
Qed.

Lemma enf_nth_error_skipn {A} (l : list A) a k : nth_error (skipn a l) k = nth_error l (a + k).
Proof.
  revert l. induction a as [|a IH]; intros l; [reflexivity|].
  destruct l as [|x l]; [destruct k; reflexivity|]. cbn [skipn Nat.add nth_error]. apply IH.
Qed.

Lemma enf_str_fact_in_range ci P r j : P <> [] -> enf_str_fact ci P r j -> (j < length r)%nat.
Proof.
  intros Hne HF. destruct (Nat.lt_ge_cases j (length r)) as [|G]; [assumption|]. exfalso.
  unfold enf_str_fact, enf_ci_fact, enf_lit_fact in HF. rewrite skipn_all2 in HF by lia. destruct ci.
  - destruct P; [congruence|discriminate HF].
  - destruct HF as [rest HF]. cbn in HF. destruct P; [congruence|discriminate HF].
Qed.

Lemma enf_runes_encode_string rs : runes_of (encode_string rs) = map sanitize rs.
Proof. unfold runes_of. rewrite decode_encode_string, map_map. reflexivity. Qed.

Lemma enf_lal_found b k0 l j :
  (k0 <= j)%nat -> enf_str_ok (la_string_ci l) (la_string l) -> enf_lal_at l (runes_of b) j ->
  en_has_literal_after_loop b (Z.of_nat (boundary b k0)) l = Ok true.
Proof.
  intros Hj Hok HA. unfold en_has_literal_after_loop, enf_lal_at in *. rewrite enb_from_nat.
  set (t := skipn (boundary b k0) b).
  pose proof (enb_boundary_mono b k0 j Hj) as Hmono.
  destruct (la_string l) as [|s0 S'] eqn:ES.
  - destruct (la_chars l) as [|c0 C'] eqn:EC.
    + (* a single rune *)
      assert (Hv : valid_rune (la_char l) = true).
      { pose proof (enb_runes_valid b) as F. rewrite Forall_forall in F. apply F. eapply nth_error_In. exact HA. }
      unfold en_contains_rune, en_index_rune. f_equal.
      destruct ((0 <=? la_char l) && (la_char l <? 128)) eqn:E1.
      * destruct (enf_rune_byte b j _ HA ltac:(lia)) as [L Hb].
        pose proof (enf_index_byte_first t (la_char l)) as F.
        assert (Ho : enf_byte_occ (fun x => x =? la_char l) t (boundary b j - boundary b k0)).
        { unfold enf_byte_occ, t. rewrite skipn_length, enf_nth_skipn.
          replace (boundary b k0 + (boundary b j - boundary b k0))%nat with (boundary b j) by lia. split; lia. }
        pose proof (enf_first_le _ _ _ F Ho). lia.
      * destruct (la_char l =? rune_error) eqn:E2.
        -- unfold go_range, t. rewrite decode_skipn_boundary.
           apply enb_rune_nth in HA. destruct HA as [w HA].
           destruct (enb_range_find_spec (fun c => c =? rune_error) (skipn k0 (decode b)) 0) as [[_ H2]|(k & c & w' & _ & _ & H3 & _)].
           ++ specialize (H2 (j - k0)%nat (la_char l) w). rewrite enf_nth_error_skipn in H2.
              replace (k0 + (j - k0))%nat with j in H2 by lia. specialize (H2 HA). cbn in H2. lia.
           ++ rewrite H3. lia.
        -- rewrite Hv. cbn [negb].
           apply enb_rune_nth in HA. destruct HA as [w HA].
           destruct (enb_rune_bytes b j _ w HA ltac:(lia)) as (_ & _ & Hb).
           pose proof (enf_index_first t (encode (la_char l))) as F.
           assert (Ho : enb_occ t (encode (la_char l)) (boundary b j - boundary b k0)).
           { unfold enb_occ, t. rewrite enf_skipn_boundary by exact Hj. rewrite Hb. apply enb_has_prefix_app. }
           pose proof (enf_first_le _ _ _ F Ho). lia.
    + (* one of a few runes *)
      destruct HA as [c [Hn Hin]]. unfold en_contains_any, en_index_any. f_equal.
      destruct (encode_string (c0 :: C')) as [|e0 E'] eqn:Ee.
      { exfalso. unfold encode_string in Ee. cbn [flat_map] in Ee. apply app_eq_nil in Ee.
        exact (enb_encode_nonempty c0 (proj1 Ee)). }
      rewrite <- Ee, enf_runes_encode_string. unfold go_range, t. rewrite decode_skipn_boundary.
      assert (Hv : valid_rune c = true).
      { pose proof (enb_runes_valid b) as F. rewrite Forall_forall in F. apply F. eapply nth_error_In. exact Hn. }
      apply enb_rune_nth in Hn. destruct Hn as [w Hn].
      destruct (enb_range_find_spec (fun x => zmem x (map sanitize (c0 :: C'))) (skipn k0 (decode b)) 0)
        as [[_ H2]|(k & c' & w' & _ & _ & H3 & _)].
      * specialize (H2 (j - k0)%nat c w). rewrite enf_nth_error_skipn in H2.
        replace (k0 + (j - k0))%nat with j in H2 by lia. specialize (H2 Hn).
        assert (Hm : zmem c (map sanitize (c0 :: C')) = true).
        { apply enf_zmem_In. apply in_map_iff. exists c. split; [|exact Hin]. unfold sanitize. rewrite Hv. reflexivity. }
        congruence.
      * rewrite H3. lia.
  - (* a string *)
    assert (Hne : s0 :: S' <> []) by discriminate.
    pose proof (enf_str_occ_of_fact (la_string_ci l) b k0 j (s0 :: S') Hj Hok HA) as Ho. fold t in Ho.
    unfold enf_str_occ in Ho. destruct (la_string_ci l).
    + destruct (enf_index_ci_first t (s0 :: S')) as [jx [Hjx F]]. rewrite Hjx. cbn [bind]. f_equal.
      pose proof (enf_first_le _ _ _ F Ho). lia.
    + unfold en_contains. f_equal. pose proof (enf_first_le _ _ _ (enf_index_first t (s0 :: S')) Ho). lia.
Qed.

Lemma enf_lal_total b sa l : exists h, en_has_literal_after_loop b sa l = Ok h.
Proof.
  unfold en_has_literal_after_loop. destruct (la_string l) as [|s0 S'].
  - destruct (la_chars l); eauto.
  - destruct (la_string_ci l); [|eauto].
    destruct (enf_index_ci_first (en_from b sa) (s0 :: S')) as [j [Hj _]]. rewrite Hj. cbn [bind]. eauto.
Qed.

Lemma enf_spec_lit_loop l m : enf_ok (FLitLoop l m) -> enf_spec (FLitLoop l m).
Proof.
  intros Hok b k0 Hk0. cbn [enf_ok] in Hok. cbn [en_run_filter].
  destruct (en_has_min_bytes b (Z.of_nat (boundary b k0)) m) eqn:Em; cbn [negb].
  - destruct (enf_lal_total b (Z.of_nat (boundary b k0)) l) as [h Hh]. rewrite Hh. cbn [bind].
    destruct h.
    + exists (Z.of_nat (boundary b k0)), true. split; [reflexivity|]. split; [discriminate|].
      intros _ q Hq _. pose proof (enb_boundary_mono b k0 q ltac:(lia)). lia.
    + exists 0, false. split; [reflexivity|]. split; [|discriminate].
      intros _ q Hq [_ [j [Hj HA]]].
      rewrite (enf_lal_found b k0 l j ltac:(lia) Hok HA) in Hh. discriminate Hh.
  - exists 0, false. split; [reflexivity|]. split; [|discriminate].
    intros _ q Hq [HM _]. exact (enf_min_bytes_false b k0 m Em q Hq HM).
Qed.

(* ---------- walking back from a needle: DecodeLastRuneInString at a boundary ---------- *)

Lemma enf_nth_firstn {A} (l : list A) (d : A) : forall n i, (i < n)%nat -> nth i (firstn n l) d = nth i l d.
Proof.
  induction l as [|x l IH]; intros n i H; [rewrite firstn_nil; reflexivity|].
  destruct n as [|n]; [lia|]. destruct i as [|i]; [reflexivity|]. cbn [firstn nth]. apply IH. lia.
Qed.

Lemma enf_dlr_start_le s e : en_dlr_start s e <= e - 2.
Proof. unfold en_dlr_start. repeat break_if; lia. Qed.

(* a rune decoded with width >= 2 is valid: its bytes are its encoding, whatever follows *)
Lemma enf_decode_rune_wide p c w :
  decode_rune p = (c, w) -> (2 <= w)%nat ->
  valid_rune c = true /\ Z.of_nat w = rune_len c /\ firstn w p = encode c.
Proof.
  intros H Hw. destruct p as [|b0 t]; [cbn in H; injection H as _ <-; lia|].
  destruct (decode_rune_cases b0 t) as [C|C].
  - rewrite H in C. injection C as _ ->. lia.
  - rewrite H in C. exact C.
Qed.

Lemma enf_encode_lead c : valid_rune c = true -> exists x rest, encode c = x :: rest /\ is_cont x = false.
Proof.
  intros Hv. unfold valid_rune, is_surrogate, max_rune in Hv. unfold encode, is_surrogate, max_rune, is_cont.
  repeat break_if; try lia; eexists; eexists; (split; [reflexivity|lia]).
Qed.

Lemma enf_decode_rune_complete t r' size :
  decode_rune (firstn size t) = (r', size) -> (2 <= size)%nat -> decode_rune t = (r', size).
Proof.
  intros H Hs. destruct (enf_decode_rune_wide _ _ _ H Hs) as (Hv & Hl & Hf).
  rewrite firstn_firstn, Nat.min_id in Hf.
  rewrite <- (firstn_skipn size t), Hf, decode_rune_encode by exact Hv. f_equal. lia.
Qed.

Lemma enf_dlr_step b k c w :
  nth_error (decode b) k = Some (c, w) ->
  snd (en_decode_last_rune (firstn (boundary b (S k)) b)) = Z.of_nat w.
Proof.
  intros Hn. destruct (enb_boundary_step b k c w Hn) as (HS & Hw & Hr & Hne).
  assert (Hk : (k < length (decode b))%nat) by (apply nth_error_Some; congruence).
  set (p := boundary b k) in *. set (e := boundary b (S k)) in *.
  pose proof (boundary_le b (S k)) as Hle. fold e in Hle.
  set (s := firstn e b).
  assert (Hlen : length s = e) by (unfold s; apply firstn_length_le; exact Hle).
  assert (Hnth : forall i, (i < e)%nat -> nth i s 0 = nth i b 0) by (intros; apply enf_nth_firstn; assumption).
  assert (Hcont : forall i, (p < i < e)%nat -> is_cont (nth i b 0) = true).
  { intros i Hi. destruct (skipn p b) as [|b0 t] eqn:Es; [congruence|].
    pose proof (enf_decode_rune_cont b0 t (i - p)) as Hc. rewrite Hr in Hc. cbn [snd] in Hc.
    specialize (Hc ltac:(lia)). rewrite <- Es, enf_nth_skipn in Hc.
    replace (p + (i - p))%nat with i in Hc by lia. exact Hc. }
  assert (Hsk : forall st, skipn st s = firstn (e - st) (skipn st b)) by (intros; unfold s; apply skipn_firstn_comm).
  unfold en_decode_last_rune. unfold zlen. rewrite Hlen.
  replace (Z.of_nat e =? 0) with false by lia.
  replace (Z.of_nat e - 1) with (Z.of_nat (e - 1)) by lia. rewrite enb_at_nat, Hnth by lia.
  destruct (nth (e - 1) b 0 <? 128) eqn:Elast.
  - cbn [snd]. destruct (Nat.eq_dec w 1) as [->|Hw1]; [reflexivity|].
    specialize (Hcont (e - 1)%nat ltac:(lia)). unfold is_cont in Hcont. lia.
  - destruct (Nat.eq_dec w 1) as [->|Hw1].
    + (* an invalid byte, or a byte >= 128 forming a rune alone: whatever start is tried, width 1 *)
      pose proof (enf_dlr_start_le s (Z.of_nat e)) as Hst.
      set (start0 := en_dlr_start s (Z.of_nat e)) in *.
      set (start := if start0 <? 0 then 0 else start0).
      assert (Hstart : 0 <= start <= Z.of_nat e - 1) by (unfold start; break_if; lia).
      replace start with (Z.of_nat (Z.to_nat start)) by lia. rewrite enb_from_nat.
      set (st := Z.to_nat start) in *. rewrite Hsk.
      destruct (decode_rune (firstn (e - st) (skipn st b))) as [r' size] eqn:Ed.
      destruct (Z.of_nat st + Z.of_nat size =? Z.of_nat e) eqn:Esum; cbn [negb snd]; [|reflexivity].
      destruct (Nat.le_gt_cases 2 size) as [G|L]; [exfalso|].
      * replace (e - st)%nat with size in Ed by lia.
        pose proof (enf_decode_rune_complete _ _ _ Ed G) as Hfull.
        destruct (enf_decode_rune_wide _ _ _ Hfull G) as (Hv & _ & Hf).
        destruct (enf_encode_lead r' Hv) as (x & rest & Hx & Hxc).
        assert (Lst : (st < length b)%nat) by lia.
        rewrite (enf_skipn_cons b 0 st Lst), Hx in Hf.
        assert (Hb : nth st b 0 = x).
        { destruct size as [|size]; [lia|]. cbn [firstn] in Hf. congruence. }
        destruct (enf_noncont_boundary b st Lst ltac:(rewrite Hb; exact Hxc)) as [k' [Hk' Hbk']].
        pose proof (enf_decode_nth b k' Hk') as Hn'. rewrite <- Hbk', Hfull in Hn'.
        destruct (enb_boundary_step b k' r' size Hn') as (HS' & _).
        assert (Hee : boundary b (S k') = e) by lia.
        assert (k' = k).
        { pose proof (enb_boundary_inj_le b (S k') (S k) ltac:(lia) ltac:(lia) ltac:(fold e; lia)).
          pose proof (enb_boundary_inj_le b (S k) (S k') ltac:(lia) ltac:(lia) ltac:(fold e; lia)). lia. }
        subst k'. fold p in Hbk'. lia.
      * assert (size <> 0)%nat.
        { intros ->. lia. }
        lia.
    + (* a valid multi-byte rune: the backward scan stops at its lead byte *)
      destruct (enf_decode_rune_wide _ _ _ Hr ltac:(lia)) as (Hv & Hl & Hf).
      destruct (enf_encode_lead c Hv) as (x & rest & Hx & Hxc).
      assert (Lp : (p < length b)%nat) by lia.
      assert (Hlead : is_cont (nth p b 0) = false).
      { rewrite (enf_skipn_cons b 0 p Lp), Hx in Hf. destruct w as [|w']; [lia|]. cbn [firstn] in Hf.
        replace (nth p b 0) with x by congruence. exact Hxc. }
      assert (Hstart : en_dlr_start s (Z.of_nat e) = Z.of_nat p).
      { unfold en_dlr_start, en_rune_start. cbv zeta.
        assert (Hw3 : w = 2%nat \/ w = 3%nat \/ w = 4%nat) by lia.
        destruct Hw3 as [ -> | [ -> | -> ] ].
        - replace (Z.of_nat e - 2) with (Z.of_nat p) by lia.
          rewrite enb_at_nat, Hnth, Hlead by lia. cbn [negb]. repeat break_if; lia.
        - replace (Z.of_nat e - 2) with (Z.of_nat (p + 1)) by lia.
          replace (Z.of_nat e - 3) with (Z.of_nat p) by lia.
          rewrite !enb_at_nat, !Hnth, Hlead, (Hcont (p + 1)%nat) by lia. cbn [negb]. repeat break_if; lia.
        - replace (Z.of_nat e - 2) with (Z.of_nat (p + 2)) by lia.
          replace (Z.of_nat e - 3) with (Z.of_nat (p + 1)) by lia.
          replace (Z.of_nat e - 4) with (Z.of_nat p) by lia.
          rewrite !enb_at_nat, !Hnth, Hlead, (Hcont (p + 1)%nat), (Hcont (p + 2)%nat) by lia.
          cbn [negb]. repeat break_if; lia. }
      rewrite Hstart. replace (Z.of_nat p <? 0) with false by lia. rewrite enb_from_nat, Hsk.
      replace (e - p)%nat with w by lia.
      rewrite decode_rune_firstn by (rewrite Hr; cbn [snd]; lia). rewrite Hr.
      replace (Z.of_nat p + Z.of_nat w =? Z.of_nat e) with true by lia. reflexivity.
Qed.

(* stringFixedDistanceCandidateStart from boundary kj back d runes, never below the start boundary k0 *)
Lemma enf_candidate_start_spec b k0 : forall d kj,
  (k0 <= kj <= length (decode b))%nat ->
  en_candidate_start b (Z.of_nat (boundary b k0)) (Z.of_nat (boundary b kj)) d =
  if (k0 + d <=? kj)%nat then Some (Z.of_nat (boundary b (kj - d))) else None.
Proof.
  induction d as [|d IH]; intros kj Hkj.
  - cbn [en_candidate_start]. replace (k0 + 0 <=? kj)%nat with true by (symmetry; apply Nat.leb_le; lia).
    rewrite Nat.sub_0_r. reflexivity.
  - cbn [en_candidate_start].
    destruct (Nat.eq_dec kj k0) as [->|Hne].
    + rewrite Z.leb_refl. replace (k0 + S d <=? k0)%nat with false by (symmetry; apply Nat.leb_gt; lia). reflexivity.
    + pose proof (enb_boundary_lt b k0 kj ltac:(lia) ltac:(lia)) as Hlt.
      replace (Z.of_nat (boundary b kj) <=? Z.of_nat (boundary b k0)) with false by lia.
      destruct kj as [|k']; [lia|].
      destruct (nth_error (decode b) k') as [[c w]|] eqn:En; [|apply nth_error_None in En; lia].
      rewrite enb_upto_nat, (enf_dlr_step b k' c w En).
      destruct (enb_boundary_step b k' c w En) as (HS & Hw & _).
      replace (Z.of_nat w =? 0) with false by lia.
      replace (Z.of_nat (boundary b (S k')) - Z.of_nat w) with (Z.of_nat (boundary b k')) by lia.
      rewrite IH by lia. replace (S k' - S d)%nat with (k' - d)%nat by lia.
      destruct (k0 + d <=? k')%nat eqn:E1; destruct (k0 + S d <=? S k')%nat eqn:E2; try reflexivity;
        apply Nat.leb_le in E1 || apply Nat.leb_gt in E1; apply Nat.leb_le in E2 || apply Nat.leb_gt in E2; lia.
Qed.

(* what the three fixed-distance loops do with a needle found at boundary kj *)
Lemma enf_candidate_some b k0 d kj m c q :
  (k0 <= kj <= length (decode b))%nat -> (k0 <= q <= length (decode b))%nat -> (kj <= q + d)%nat ->
  en_candidate_start b (Z.of_nat (boundary b k0)) (Z.of_nat (boundary b kj)) d = Some c ->
  c <= Z.of_nat (boundary b q) /\
  (enf_min_fact m (runes_of b) q -> en_has_min_bytes b c m = true).
Proof.
  intros Hkj Hq Hle H. rewrite enf_candidate_start_spec in H by exact Hkj.
  destruct (k0 + d <=? kj)%nat eqn:E; [|discriminate H]. apply Nat.leb_le in E. injection H as <-.
  split.
  - pose proof (enb_boundary_mono b (kj - d) q ltac:(lia)). lia.
  - intros HM. apply (enf_min_bytes b (kj - d) q m); [lia|exact HM].
Qed.

Lemma enf_candidate_none b k0 d kj q :
  (k0 <= kj <= length (decode b))%nat -> (k0 <= q)%nat ->
  en_candidate_start b (Z.of_nat (boundary b k0)) (Z.of_nat (boundary b kj)) d = None ->
  (kj < q + d)%nat.
Proof.
  intros Hkj Hq H. rewrite enf_candidate_start_spec in H by exact Hkj.
  destruct (k0 + d <=? kj)%nat eqn:E; [discriminate H|]. apply Nat.leb_gt in E. lia.
Qed.

(* ---------- stringFixedDistanceSetFilter ---------- *)

Definition enf_sc_pred (sc : en_scanner) (x : Z) : bool :=
  if sc_use_range sc then (sc_first sc <=? x) && (x <=? sc_last sc) else zmem x (sc_chars sc).

Definition enf_sc_ok (sc : en_scanner) : Prop :=
  0 <= sc_distance sc /\
  (if sc_use_range sc then 0 <= sc_first sc /\ sc_last sc <= 127
   else enf_ascii (sc_chars sc) /\ sc_chars sc <> []).

Lemma enf_scanner_index_first sc t :
  enf_sc_ok sc -> enf_first (enf_byte_occ (enf_sc_pred sc) t) (en_scanner_index sc t).
Proof.
  intros [_ Hok]. unfold en_scanner_index, enf_sc_pred. destruct (sc_use_range sc); cbn [negb].
  - rewrite enb_index_in_range_find. apply enf_find_first_first.
  - destruct Hok as [HA Hne]. destruct (sc_chars sc) as [|c [|c' cs]] eqn:E; [congruence| |].
    + eapply enf_first_ext; [|apply enf_index_byte_first]. intros k. unfold enf_byte_occ, zmem. cbn [existsb].
      split; intros [H1 H2]; (split; [exact H1|lia]).
    + apply enf_index_any_ascii. exact HA.
Qed.

Lemma enf_sc_pred_ascii sc x : enf_sc_ok sc -> enf_sc_pred sc x = true -> 0 <= x <= 127.
Proof.
  intros [_ Hok] H. unfold enf_sc_pred in H. destruct (sc_use_range sc); [lia|].
  destruct Hok as [HA _]. apply enf_zmem_In in H. unfold enf_ascii in HA. rewrite Forall_forall in HA.
  specialize (HA x H). lia.
Qed.

Lemma enf_sc_member_pred sc c : enf_scanner_member sc c -> enf_sc_pred sc c = true.
Proof.
  unfold enf_scanner_member, enf_sc_pred. destruct (sc_use_range sc); [lia|]. apply enf_zmem_In.
Qed.

Lemma enf_set_loop_spec sc m b k0 :
  enf_sc_ok sc -> (k0 <= length (decode b))%nat ->
  forall fuel sa, (boundary b k0 <= sa <= length b)%nat -> (length b + 1 <= fuel + sa)%nat ->
  exists c ok, en_set_loop fuel sc m b (Z.of_nat (boundary b k0)) (Z.of_nat sa) = Ok (c, ok) /\
    (ok = false -> forall q, (k0 <= q <= length (decode b))%nat ->
                   (sa <= boundary b (q + Z.to_nat (sc_distance sc)))%nat -> ~ enf_fact (FSet sc m) (runes_of b) q) /\
    (ok = true -> forall q, (k0 <= q <= length (decode b))%nat ->
                  (sa <= boundary b (q + Z.to_nat (sc_distance sc)))%nat -> enf_fact (FSet sc m) (runes_of b) q ->
                  c <= Z.of_nat (boundary b q)).
Proof.
  intros Hok Hk0. set (d := Z.to_nat (sc_distance sc)).
  induction fuel as [|f IH]; intros sa Hsa Hf; [lia|].
  cbn [en_set_loop]. fold d. unfold zlen.
  (* the needle of a fact position: an ASCII byte satisfying the scanner at the boundary of q + d *)
  assert (Hneedle : forall q, enf_fact (FSet sc m) (runes_of b) q -> (sa <= boundary b (q + d))%nat ->
            (q + d < length (decode b))%nat /\ (boundary b (q + d) < length b)%nat /\
            enf_byte_occ (enf_sc_pred sc) (skipn sa b) (boundary b (q + d) - sa)).
  { intros q [_ [c [Hn Hmem]]] Hle. fold d in Hn.
    pose proof (enf_sc_member_pred sc c Hmem) as Hp. pose proof (enf_sc_pred_ascii sc c Hok Hp) as Hc.
    destruct (enf_rune_byte b (q + d) c Hn Hc) as [L Hb].
    assert (Hq : (q + d < length (decode b))%nat).
    { rewrite <- enb_runes_length. apply nth_error_Some. congruence. }
    split; [exact Hq|]. split; [exact L|]. unfold enf_byte_occ. rewrite skipn_length, enf_nth_skipn.
    replace (sa + (boundary b (q + d) - sa))%nat with (boundary b (q + d)) by lia. rewrite Hb. split; [lia|exact Hp]. }
  destruct (Z.of_nat sa <? Z.of_nat (length b)) eqn:E.
  - rewrite enb_from_nat. pose proof (enf_scanner_index_first sc (skipn sa b) Hok) as F.
    set (offset := en_scanner_index sc (skipn sa b)) in *.
    destruct (offset <? 0) eqn:E2.
    + exists 0, false. split; [reflexivity|]. split; [|discriminate].
      intros _ q Hq Hle HF. destruct (Hneedle q HF Hle) as (_ & _ & Ho). exact (enf_first_neg _ _ F ltac:(lia) _ Ho).
    + destruct F as [[F1 _]|[o [F1 [[F2 F2'] F3]]]]; [lia|].
      rewrite F1. replace (Z.of_nat sa + Z.of_nat o) with (Z.of_nat (sa + o)) by lia.
      rewrite skipn_length in F2. rewrite enf_nth_skipn in F2'.
      destruct (enf_ascii_byte_rune b (sa + o) ltac:(lia)) as (kj & Hkj & Hbj & _).
      { pose proof (enf_sc_pred_ascii sc _ Hok F2'). lia. }
      assert (Hk0j : (k0 <= kj)%nat) by (apply (enb_boundary_inj_le b); lia).
      assert (Hkq : forall q, enf_fact (FSet sc m) (runes_of b) q -> (sa <= boundary b (q + d))%nat -> (kj <= q + d)%nat).
      { intros q HF Hle. destruct (Hneedle q HF Hle) as (Hq & _ & Ho).
        apply (enb_boundary_inj_le b); [lia|lia|].
        destruct (Nat.le_gt_cases (sa + o) (boundary b (q + d))) as [|G]; [lia|].
        exfalso. apply (F3 (boundary b (q + d) - sa)%nat); [lia|exact Ho]. }
      rewrite Hbj.
      destruct (en_candidate_start b (Z.of_nat (boundary b k0)) (Z.of_nat (boundary b kj)) d) as [c|] eqn:Ec.
      * destruct (en_has_min_bytes b c m) eqn:Em.
        -- exists c, true. split; [reflexivity|]. split; [discriminate|].
           intros _ q Hq Hle HF.
           exact (proj1 (enf_candidate_some b k0 d kj m c q ltac:(lia) Hq (Hkq q HF Hle) Ec)).
        -- exists 0, false. split; [reflexivity|]. split; [|discriminate].
           intros _ q Hq Hle HF.
           pose proof (proj2 (enf_candidate_some b k0 d kj m c q ltac:(lia) Hq (Hkq q HF Hle) Ec) (proj1 HF)). congruence.
      * replace (Z.of_nat (boundary b kj) + 1) with (Z.of_nat (S (sa + o))) by lia.
        destruct (IH (S (sa + o)) ltac:(lia) ltac:(lia)) as (c & ok & Hr & HB & HC).
        exists c, ok. split; [exact Hr|].
        assert (Hnext : forall q, (k0 <= q)%nat -> enf_fact (FSet sc m) (runes_of b) q ->
                          (sa <= boundary b (q + d))%nat -> (S (sa + o) <= boundary b (q + d))%nat).
        { intros q Hq HF Hle. destruct (Hneedle q HF Hle) as (Hqd & _ & _).
          pose proof (enf_candidate_none b k0 d kj q ltac:(lia) Hq Ec) as Hlt.
          pose proof (enb_boundary_lt b kj (q + d) Hlt ltac:(lia)). lia. }
        split.
        -- intros Hk q Hq Hle HF. apply (HB Hk q Hq); [apply Hnext; [lia|exact HF|exact Hle]|exact HF].
        -- intros Hk q Hq Hle HF. apply (HC Hk q Hq); [apply Hnext; [lia|exact HF|exact Hle]|exact HF].
  - exists 0, false. split; [reflexivity|]. split; [|discriminate].
    intros _ q Hq Hle HF. destruct (Hneedle q HF Hle) as (_ & L & _). lia.
Qed.

Lemma enf_spec_set sc m : enf_ok (FSet sc m) -> enf_spec (FSet sc m).
Proof.
  intros Hok b k0 Hk0. cbn [enf_ok] in Hok. cbn [en_run_filter].
  destruct (en_has_min_bytes b (Z.of_nat (boundary b k0)) m) eqn:Em; cbn [negb].
  - pose proof (boundary_le b k0) as Hle.
    destruct (enf_set_loop_spec sc m b k0 Hok Hk0 (S (length b)) (boundary b k0) ltac:(lia) ltac:(lia))
      as (c & ok & Hr & HB & HC).
    exists c, ok. split; [exact Hr|]. split.
    + intros Hk q Hq. apply (HB Hk q Hq). apply enb_boundary_mono. lia.
    + intros Hk q Hq. apply (HC Hk q Hq). apply enb_boundary_mono. lia.
  - exists 0, false. split; [reflexivity|]. split; [|discriminate].
    intros _ q Hq [HM _]. exact (enf_min_bytes_false b k0 m Em q Hq HM).
Qed.

(* ---------- needles that are encoded good runes (fixed-distance char / string) ---------- *)

Lemma enf_encode_string_lead ps :
  Forall enb_good ps -> ps <> [] -> exists x rest, encode_string ps = x :: rest /\ is_cont x = false.
Proof.
  intros Hg Hne. destruct ps as [|p ps]; [congruence|]. apply Forall_cons_iff in Hg. destruct Hg as [[Hv _] _].
  destruct (enf_encode_lead p Hv) as (x & rest & Hx & Hc).
  exists x, (rest ++ encode_string ps). unfold encode_string. cbn [flat_map]. rewrite Hx. split; [reflexivity|exact Hc].
Qed.

(* the first occurrence of such a needle at or after sa starts a rune, and no boundary carrying the
   needle lies before it *)
Lemma enf_needle_iter b k0 lit ps sa o :
  lit = encode_string ps -> Forall enb_good ps -> ps <> [] -> (boundary b k0 <= sa)%nat ->
  (k0 <= length (decode b))%nat ->
  enb_occ (skipn sa b) lit o -> (forall o', (o' < o)%nat -> ~ enb_occ (skipn sa b) lit o') ->
  exists kj, (k0 <= kj < length (decode b))%nat /\ (sa + o)%nat = boundary b kj /\
    (sa + o + length lit <= length b)%nat /\
    forall n, (sa <= boundary b n)%nat -> (n <= length (decode b))%nat -> enb_occ b lit (boundary b n) -> (kj <= n)%nat.
Proof.
  intros Hlit Hg Hne Hsa Hk0 Ho Hfirst.
  destruct (enf_encode_string_lead ps Hg Hne) as (x & rest & Hx & Hc). rewrite <- Hlit in Hx.
  unfold enb_occ in Ho. rewrite enb_skipn_skipn in Ho.
  pose proof (enb_has_prefix_length _ _ Ho) as Hl. rewrite skipn_length in Hl.
  assert (L : (sa + o < length b)%nat).
  { rewrite Hx in Hl. cbn [length] in Hl. lia. }
  assert (Hb : nth (sa + o) b 0 = x).
  { rewrite (enf_skipn_cons b 0 _ L), Hx in Ho. cbn [en_has_prefix] in Ho. apply andb_true_iff in Ho. lia. }
  destruct (enf_noncont_boundary b (sa + o) L ltac:(rewrite Hb; exact Hc)) as [kj [Hkj Hbj]].
  exists kj. split; [split; [apply (enb_boundary_inj_le b); lia|exact Hkj]|]. split; [exact Hbj|]. split; [lia|].
  intros n Hn Hnl Hon. apply (enb_boundary_inj_le b); [lia|exact Hnl|].
  destruct (Nat.le_gt_cases (sa + o) (boundary b n)) as [|G]; [lia|].
  exfalso. apply (Hfirst (boundary b n - sa)%nat); [lia|].
  unfold enb_occ in *. rewrite enb_skipn_skipn. replace (sa + (boundary b n - sa))%nat with (boundary b n) by lia. exact Hon.
Qed.

Lemma enf_occ_shift b lit sa n : (sa <= n)%nat -> enb_occ b lit n -> enb_occ (skipn sa b) lit (n - sa).
Proof.
  intros H Ho. unfold enb_occ in *. rewrite enb_skipn_skipn. replace (sa + (n - sa))%nat with n by lia. exact Ho.
Qed.

(* ---------- stringFixedDistanceStringFilter ---------- *)

Lemma enf_string_loop_spec lit dz m b k0 :
  enb_no_fffd lit -> lit <> [] -> (k0 <= length (decode b))%nat ->
  forall fuel sa, (boundary b k0 <= sa <= length b)%nat -> (length b + 1 <= fuel + sa)%nat ->
  exists c ok, en_string_loop fuel lit dz m b (Z.of_nat (boundary b k0)) (Z.of_nat sa) = Ok (c, ok) /\
    (ok = false -> forall q, (k0 <= q <= length (decode b))%nat ->
                   (sa <= boundary b (q + Z.to_nat dz))%nat -> ~ enf_fact (FString lit dz m) (runes_of b) q) /\
    (ok = true -> forall q, (k0 <= q <= length (decode b))%nat ->
                  (sa <= boundary b (q + Z.to_nat dz))%nat -> enf_fact (FString lit dz m) (runes_of b) q ->
                  c <= Z.of_nat (boundary b q)).
Proof.
  intros Hnf Hne Hk0. set (d := Z.to_nat dz).
  destruct (enb_no_fffd_good lit Hnf) as [Hlit Hg].
  assert (Hpsne : runes_of lit <> []).
  { intros E. rewrite E in Hlit. cbn in Hlit. congruence. }
  induction fuel as [|f IH]; intros sa Hsa Hf; [lia|].
  cbn [en_string_loop]. fold d. unfold zlen.
  assert (Hneedle : forall q, enf_fact (FString lit dz m) (runes_of b) q ->
            (q + d < length (decode b))%nat /\ enb_occ b lit (boundary b (q + d))).
  { intros q [_ HF]. fold d in HF. split.
    - rewrite <- enb_runes_length. apply (enf_str_fact_in_range false lit); [exact Hne|exact HF].
    - unfold enb_occ. apply enf_lit_bytes; assumption. }
  destruct (Z.of_nat sa <=? Z.of_nat (length b) - Z.of_nat (length lit)) eqn:E.
  - rewrite enb_from_nat. pose proof (enf_index_first (skipn sa b) lit) as F.
    set (offset := en_index (skipn sa b) lit) in *.
    destruct (offset <? 0) eqn:E2.
    + exists 0, false. split; [reflexivity|]. split; [|discriminate].
      intros _ q Hq Hle HF. destruct (Hneedle q HF) as (_ & Ho).
      exact (enf_first_neg _ _ F ltac:(lia) _ (enf_occ_shift b lit sa _ Hle Ho)).
    + destruct F as [[F1 _]|[o [F1 [F2 F3]]]]; [lia|].
      rewrite F1. replace (Z.of_nat sa + Z.of_nat o) with (Z.of_nat (sa + o)) by lia.
      destruct (enf_needle_iter b k0 lit (runes_of lit) sa o Hlit Hg Hpsne ltac:(lia) Hk0 F2 F3)
        as (kj & Hkj & Hbj & Hfit & Hmin).
      assert (Hkq : forall q, enf_fact (FString lit dz m) (runes_of b) q -> (sa <= boundary b (q + d))%nat -> (kj <= q + d)%nat).
      { intros q HF Hle. destruct (Hneedle q HF) as (Hq & Ho). apply Hmin; [exact Hle|lia|exact Ho]. }
      rewrite Hbj.
      destruct (en_candidate_start b (Z.of_nat (boundary b k0)) (Z.of_nat (boundary b kj)) d) as [c|] eqn:Ec.
      * destruct (en_has_min_bytes b c m) eqn:Em.
        -- exists c, true. split; [reflexivity|]. split; [discriminate|].
           intros _ q Hq Hle HF.
           exact (proj1 (enf_candidate_some b k0 d kj m c q ltac:(lia) Hq (Hkq q HF Hle) Ec)).
        -- exists 0, false. split; [reflexivity|]. split; [|discriminate].
           intros _ q Hq Hle HF.
           pose proof (proj2 (enf_candidate_some b k0 d kj m c q ltac:(lia) Hq (Hkq q HF Hle) Ec) (proj1 HF)). congruence.
      * replace (Z.of_nat (boundary b kj) + 1) with (Z.of_nat (S (sa + o))) by lia.
        assert (Hlpos : (1 <= length lit)%nat) by (destruct lit; [congruence|cbn; lia]).
        destruct (IH (S (sa + o)) ltac:(lia) ltac:(lia)) as (c & ok & Hr & HB & HC).
        exists c, ok. split; [exact Hr|].
        assert (Hnext : forall q, (k0 <= q)%nat -> enf_fact (FString lit dz m) (runes_of b) q ->
                          (S (sa + o) <= boundary b (q + d))%nat).
        { intros q Hq HF. destruct (Hneedle q HF) as (Hqd & _).
          pose proof (enf_candidate_none b k0 d kj q ltac:(lia) Hq Ec) as Hlt.
          pose proof (enb_boundary_lt b kj (q + d) Hlt ltac:(lia)). lia. }
        split.
        -- intros Hk q Hq Hle HF. apply (HB Hk q Hq); [apply Hnext; [lia|exact HF]|exact HF].
        -- intros Hk q Hq Hle HF. apply (HC Hk q Hq); [apply Hnext; [lia|exact HF]|exact HF].
  - exists 0, false. split; [reflexivity|]. split; [|discriminate].
    intros _ q Hq Hle HF. destruct (Hneedle q HF) as (_ & Ho).
    pose proof (enb_has_prefix_length _ _ Ho) as Hl. rewrite skipn_length in Hl. lia.
Qed.

Lemma enf_spec_string lit dz m : enf_ok (FString lit dz m) -> enf_spec (FString lit dz m).
Proof.
  intros (Hd & Hnf & Hne) b k0 Hk0. cbn [en_run_filter].
  destruct (en_has_min_bytes b (Z.of_nat (boundary b k0)) m) eqn:Em; cbn [negb].
  - pose proof (boundary_le b k0) as Hle.
    destruct (enf_string_loop_spec lit dz m b k0 Hnf Hne Hk0 (S (length b)) (boundary b k0) ltac:(lia) ltac:(lia))
      as (c & ok & Hr & HB & HC).
    exists c, ok. split; [exact Hr|]. split.
    + intros Hk q Hq. apply (HB Hk q Hq). apply enb_boundary_mono. lia.
    + intros Hk q Hq. apply (HC Hk q Hq). apply enb_boundary_mono. lia.
  - exists 0, false. split; [reflexivity|]. split; [|discriminate].
    intros _ q Hq [HM _]. exact (enf_min_bytes_false b k0 m Em q Hq HM).
Qed.

(* ---------- stringFixedDistanceCharFilter ---------- *)

Lemma enf_occ_single t c k : enb_occ t [c] k <-> ((k < length t)%nat /\ nth k t 0 = c).
Proof.
  unfold enb_occ. split.
  - intros H. pose proof (enb_has_prefix_length _ _ H) as Hl. rewrite skipn_length in Hl. cbn [length] in Hl.
    assert (L : (k < length t)%nat) by lia. split; [exact L|].
    rewrite (enf_skipn_cons t 0 k L) in H. cbn [en_has_prefix] in H. apply andb_true_iff in H. lia.
  - intros [L H]. rewrite (enf_skipn_cons t 0 k L). cbn [en_has_prefix]. rewrite H, Z.eqb_refl.
    destruct (skipn (S k) t); reflexivity.
Qed.

Lemma enf_index_rune_first t ch :
  valid_rune ch = true -> ch <> rune_error -> enf_first (enb_occ t (encode ch)) (en_index_rune t ch).
Proof.
  intros Hv Hne. unfold en_index_rune. destruct ((0 <=? ch) && (ch <? 128)) eqn:E.
  - rewrite (enf_encode_ascii ch ltac:(lia)).
    eapply enf_first_ext; [|apply enf_index_byte_first]. intros k. rewrite enf_occ_single. unfold enf_byte_occ.
    split; intros [H1 H2]; (split; [exact H1|lia]).
  - replace (ch =? rune_error) with false by lia. rewrite Hv. cbn [negb]. apply enf_index_first.
Qed.

Lemma enf_char_loop_spec ch dz m b k0 :
  ch <> rune_error -> (k0 <= length (decode b))%nat ->
  forall fuel sa, (boundary b k0 <= sa <= length b)%nat -> (length b + 1 <= fuel + sa)%nat ->
  exists c ok, en_char_loop fuel ch dz m b (Z.of_nat (boundary b k0)) (Z.of_nat sa) = Ok (c, ok) /\
    (ok = false -> forall q, (k0 <= q <= length (decode b))%nat ->
                   (sa <= boundary b (q + Z.to_nat dz))%nat -> ~ enf_fact (FChar ch dz m) (runes_of b) q) /\
    (ok = true -> forall q, (k0 <= q <= length (decode b))%nat ->
                  (sa <= boundary b (q + Z.to_nat dz))%nat -> enf_fact (FChar ch dz m) (runes_of b) q ->
                  c <= Z.of_nat (boundary b q)).
Proof.
  intros Hne Hk0. set (d := Z.to_nat dz).
  destruct (valid_rune ch) eqn:Hv.
  2:{ (* a rune no string decodes to: never found, and never a fact *)
    intros fuel sa Hsa Hf. destruct fuel as [|f]; [lia|]. cbn [en_char_loop].
    assert (E : en_index_rune (en_from b (Z.of_nat sa)) ch = -1).
    { unfold en_index_rune.
      assert (Hrange : (0 <=? ch) && (ch <? 128) = false).
      { pose proof Hv as Hv'. unfold valid_rune, is_surrogate, max_rune in Hv'. lia. }
      rewrite Hrange. replace (ch =? rune_error) with false by lia. rewrite Hv. reflexivity. }
    rewrite E. cbn. exists 0, false. split; [reflexivity|]. split; [|discriminate].
    intros _ q Hq _ [_ HF].
    pose proof (enb_runes_valid b) as F. rewrite Forall_forall in F.
    specialize (F ch (nth_error_In _ _ HF)). congruence. }
  assert (Hg : Forall enb_good [ch]) by (constructor; [split; assumption|constructor]).
  assert (Hlit : encode ch = encode_string [ch]) by (unfold encode_string; cbn [flat_map]; rewrite app_nil_r; reflexivity).
  induction fuel as [|f IH]; intros sa Hsa Hf; [lia|].
  cbn [en_char_loop]. fold d.
  assert (Hneedle : forall q, enf_fact (FChar ch dz m) (runes_of b) q ->
            (q + d < length (decode b))%nat /\ enb_occ b (encode ch) (boundary b (q + d))).
  { intros q [_ HF]. fold d in HF. split.
    - rewrite <- enb_runes_length. apply nth_error_Some. congruence.
    - apply enb_rune_nth in HF. destruct HF as [w HF].
      destruct (enb_rune_bytes b (q + d) ch w HF Hne) as (_ & _ & Hb).
      unfold enb_occ. rewrite Hb. apply enb_has_prefix_app. }
  rewrite enb_from_nat. pose proof (enf_index_rune_first (skipn sa b) ch Hv Hne) as F.
  set (offset := en_index_rune (skipn sa b) ch) in *.
  destruct (offset <? 0) eqn:E2.
  - exists 0, false. split; [reflexivity|]. split; [|discriminate].
    intros _ q Hq Hle HF. destruct (Hneedle q HF) as (_ & Ho).
    exact (enf_first_neg _ _ F ltac:(lia) _ (enf_occ_shift b _ sa _ Hle Ho)).
  - destruct F as [[F1 _]|[o [F1 [F2 F3]]]]; [lia|].
    rewrite F1. replace (Z.of_nat sa + Z.of_nat o) with (Z.of_nat (sa + o)) by lia.
    destruct (enf_needle_iter b k0 (encode ch) [ch] sa o Hlit Hg ltac:(discriminate) ltac:(lia) Hk0 F2 F3)
      as (kj & Hkj & Hbj & Hfit & Hmin).
    assert (Hkq : forall q, enf_fact (FChar ch dz m) (runes_of b) q -> (sa <= boundary b (q + d))%nat -> (kj <= q + d)%nat).
    { intros q HF Hle. destruct (Hneedle q HF) as (Hq & Ho). apply Hmin; [exact Hle|lia|exact Ho]. }
    rewrite Hbj.
    destruct (en_candidate_start b (Z.of_nat (boundary b k0)) (Z.of_nat (boundary b kj)) d) as [c|] eqn:Ec.
    + destruct (en_has_min_bytes b c m) eqn:Em.
      * exists c, true. split; [reflexivity|]. split; [discriminate|].
        intros _ q Hq Hle HF.
        exact (proj1 (enf_candidate_some b k0 d kj m c q ltac:(lia) Hq (Hkq q HF Hle) Ec)).
      * exists 0, false. split; [reflexivity|]. split; [|discriminate].
        intros _ q Hq Hle HF.
        pose proof (proj2 (enf_candidate_some b k0 d kj m c q ltac:(lia) Hq (Hkq q HF Hle) Ec) (proj1 HF)). congruence.
    + rewrite enb_from_nat.
      pose proof (enf_decode_nth b kj ltac:(lia)) as Hn.
      destruct (decode_rune (skipn (boundary b kj) b)) as [c' w'] eqn:Ed.
      destruct (enb_boundary_step b kj c' w' Hn) as (HS & Hw & _). cbn [snd].
      replace (Z.of_nat w' =? 0) with false by lia.
      replace (Z.of_nat (boundary b kj) + Z.of_nat w') with (Z.of_nat (boundary b (S kj))) by lia.
      pose proof (boundary_le b (S kj)) as HleS.
      destruct (IH (boundary b (S kj)) ltac:(lia) ltac:(lia)) as (c & ok & Hr & HB & HC).
      exists c, ok. split; [exact Hr|].
      assert (Hnext : forall q, (k0 <= q)%nat -> enf_fact (FChar ch dz m) (runes_of b) q ->
                        (boundary b (S kj) <= boundary b (q + d))%nat).
      { intros q Hq HF.
        pose proof (enf_candidate_none b k0 d kj q ltac:(lia) Hq Ec) as Hlt. apply enb_boundary_mono. lia. }
      split.
      * intros Hk q Hq Hle HF. apply (HB Hk q Hq); [apply Hnext; [lia|exact HF]|exact HF].
      * intros Hk q Hq Hle HF. apply (HC Hk q Hq); [apply Hnext; [lia|exact HF]|exact HF].
Qed.

Lemma enf_spec_char ch dz m : enf_ok (FChar ch dz m) -> enf_spec (FChar ch dz m).
Proof.
  intros (Hd & Hne) b k0 Hk0. cbn [en_run_filter].
  destruct (en_has_min_bytes b (Z.of_nat (boundary b k0)) m) eqn:Em; cbn [negb].
  - pose proof (boundary_le b k0) as Hle.
    destruct (enf_char_loop_spec ch dz m b k0 Hne Hk0 (S (length b)) (boundary b k0) ltac:(lia) ltac:(lia))
      as (c & ok & Hr & HB & HC).
    exists c, ok. split; [exact Hr|]. split.
    + intros Hk q Hq. apply (HB Hk q Hq). apply enb_boundary_mono. lia.
    + intros Hk q Hq. apply (HC Hk q Hq). apply enb_boundary_mono. lia.
  - exists 0, false. split; [reflexivity|]. split; [|discriminate].
    intros _ q Hq [HM _]. exact (enf_min_bytes_false b k0 m Em q Hq HM).
Qed.

(* ---------- every filter ---------- *)

Theorem enf_filter_sound f : enf_ok f -> enf_spec f.
Proof.
  destruct f.
  - apply enf_spec_prefix.
  - apply enf_spec_prefixes.
  - apply enf_spec_ascii_set.
  - apply enf_spec_set.
  - apply enf_spec_char.
  - apply enf_spec_string.
  - apply enf_spec_lit_loop.
Qed.
