(* What the parser builds for a bracket expression (scan_char_set / elab) denotes exactly the set
   algebra of the expression (sem / denote).  Case-sensitive part. *)
From Verif Require Import Base.Prelude Model.CharClass Proofs.CharClassRanges Proofs.CharClassProofs.
From Coq Require Import ZifyBool.

Section CsynInd.
  Variable P : csyn -> Prop.
  Hypothesis Hnone : forall ng items, P (CSyn ng items None).
  Hypothesis Hsome : forall ng items s, P s -> P (CSyn ng items (Some s)).
  Fixpoint csyn_induction (s : csyn) : P s :=
    match s with
    | CSyn ng items sb =>
      match sb with
      | None => Hnone ng items
      | Some s' => Hsome ng items s' (csyn_induction s')
      end
    end.
End CsynInd.

(* members are inside [0, MaxRune], ranges are not reversed, POSIX names exist *)
Definition wf_item (it : item) : Prop :=
  match it with
  | IRange a b => 0 <= a /\ a <= b /\ b <= max_rune
  | IPosix _ k => 0 <= k <= 13
  | _ => True
  end.
Fixpoint wf_syn (s : csyn) : Prop :=
  match s with
  | CSyn _ items sb => Forall wf_item items /\ match sb with Some s' => wf_syn s' | None => True end
  end.

(* known finding ci_negated_case_category: under IgnoreCase, \P{Ll} \P{Lu} \P{Lt} *)
Definition item_guard (o : opts) (it : item) : Prop :=
  match it with
  | IProp ng name => (o_ci o && ng && is_case_cat name) = false
  | _ => True
  end.
Fixpoint syn_guard (o : opts) (s : csyn) : Prop :=
  match s with
  | CSyn _ items sb => Forall (item_guard o) items /\ match sb with Some s' => syn_guard o s' | None => True end
  end.

Lemma syn_guard_cs o s : o_ci o = false -> syn_guard o s.
Proof.
  intros H. induction s as [ng items | ng items s' IH] using csyn_induction; cbn; (split; [|auto]);
    apply Forall_forall; intros it _; destruct it; cbn; auto; rewrite H; reflexivity.
Qed.

Lemma existsb_flat_map {A B} (f : B -> bool) (g : A -> list B) l :
  existsb f (flat_map g l) = existsb (fun x => existsb f (g x)) l.
Proof. induction l as [|h t IH]; [reflexivity|]. cbn. rewrite existsb_app, IH. reflexivity. Qed.

Lemma existsb_map' {A B} (f : B -> bool) (g : A -> B) l :
  existsb f (map g l) = existsb (fun x => f (g x)) l.
Proof. induction l as [|h t IH]; [reflexivity|]. cbn. rewrite IH. reflexivity. Qed.

Lemma existsb_ext' {A} (f g : A -> bool) l : (forall x, f x = g x) -> existsb f l = existsb g l.
Proof. intros H. induction l as [|h t IH]; [reflexivity|]. cbn. rewrite H, IH. reflexivity. Qed.

Lemma existsb_orb {A} (f g : A -> bool) l :
  existsb (fun x => f x || g x) l = existsb f l || existsb g l.
Proof.
  induction l as [|h t IH]; [reflexivity|]. cbn. rewrite IH.
  destruct (f h), (g h), (existsb f t), (existsb g t); reflexivity.
Qed.

(* ---------------------------------------------------------------- closed facts about the tables *)
Lemma not_ecma_digit_eq : not_ecma_digit_ranges = negative_ranges 0 ecma_digit_ranges.
Proof. reflexivity. Qed.
Lemma not_ecma_word_eq : not_ecma_word_ranges = negative_ranges 0 ecma_word_ranges.
Proof. reflexivity. Qed.
Lemma not_ecma_space_eq : not_ecma_space_ranges = negative_ranges 0 ecma_space_ranges.
Proof. reflexivity. Qed.
Lemma not_re2_space_eq : not_re2_space_ranges = negative_ranges 0 re2_space_ranges.
Proof. reflexivity. Qed.

Ltac solve_ordered := cbn; unfold max_rune; repeat split; lia.
Ltac solve_wf := repeat (constructor; [unfold wf_range, max_rune; cbn; lia|]); constructor.

Lemma ordered_ecma_digit : ordered 0 ecma_digit_ranges. Proof. solve_ordered. Qed.
Lemma ordered_ecma_word : ordered 0 ecma_word_ranges. Proof. solve_ordered. Qed.
Lemma ordered_ecma_space : ordered 0 ecma_space_ranges. Proof. solve_ordered. Qed.
Lemma ordered_re2_space : ordered 0 re2_space_ranges. Proof. solve_ordered. Qed.
Lemma wf_ecma_digit : wf_ranges ecma_digit_ranges. Proof. solve_wf. Qed.
Lemma wf_ecma_word : wf_ranges ecma_word_ranges. Proof. solve_wf. Qed.
Lemma wf_ecma_space : wf_ranges ecma_space_ranges. Proof. solve_wf. Qed.
Lemma wf_re2_space : wf_ranges re2_space_ranges. Proof. solve_wf. Qed.

Lemma posix_ordered k : 0 <= k <= 13 -> ordered 0 (posix_ranges k) /\ wf_ranges (posix_ranges k) /\ posix_ranges k <> [].
Proof.
  intros H.
  assert (Hk : k = 0 \/ k = 1 \/ k = 2 \/ k = 3 \/ k = 4 \/ k = 5 \/ k = 6 \/ k = 7 \/ k = 8 \/ k = 9 \/
               k = 10 \/ k = 11 \/ k = 12 \/ k = 13) by lia.
  repeat (destruct Hk as [->|Hk]); try subst k;
    (split; [solve_ordered|split; [solve_wf|cbn; discriminate]]).
Qed.

Section Elab.
  Variable cat_in : Z -> Z -> bool.
  Variable simple_fold : Z -> Z.
  Variable to_lower : Z -> Z.
  Variable fuel : nat.

  Notation den := (denote cat_in simple_fold fuel).

  Lemma den_ranges_exp rs ch : den (ranges_exp rs) ch = mem rs ch.
  Proof.
    unfold ranges_exp. cbn [denote]. unfold mem. rewrite existsb_map'.
    apply existsb_ext'. intros [a b]. reflexivity.
  Qed.

  Lemma den_neg_if b e ch : den (neg_if b e) ch = xorb b (den e ch).
  Proof. destruct b; cbn; [reflexivity|]. destruct (den e ch); reflexivity. Qed.

  (* the set an item contributes, code-point part and category part *)
  Definition lit_den (o : opts) (it : item) (ch : Z) : bool := existsb (fun e => den e ch) (item_lit_exp o it).
  Definition cat_den (o : opts) (it : item) (ch : Z) : bool := existsb (fun e => den e ch) (item_cat_exp o it).

  (* ---------------------------------------------------------------- while members are added: neg = true *)
  Definition scan_inv (c : cls) : Prop :=
    neg c = true /\ sub c = None /\ ascii c = None /\ wf_ranges (ranges c) /\ canonical_ranges (ranges c) /\ any_inv c.

  Lemma nf_neg c : neg c = true ->
    normal_form_3 cat_in (normal_form_2 (normal_form_1 c)) = c.
  Proof.
    intros Hn. unfold normal_form_1. rewrite Hn. cbn [negb andb].
    unfold normal_form_2. rewrite Hn. cbn [negb andb].
    unfold normal_form_3. rewrite Hn. reflexivity.
  Qed.

  Lemma canonicalize_neg c : neg c = true -> neg (canonicalize cat_in c) = true.
  Proof.
    intros Hn. rewrite canonicalize_unfold. destruct (ranges c); [exact Hn|].
    rewrite nf_neg; cbn; auto.
  Qed.

  Lemma add_categories_loop_neg l : forall c, neg (add_categories_loop c l) = neg c.
  Proof. intros c. apply (add_categories_loop_shape cat_in l c). Qed.

  Lemma body_of_top c c' ch X : neg c = true -> neg c' = true ->
    top_in cat_in c' ch = xorb (neg c) X -> body cat_in c' ch = X.
  Proof.
    intros H1 H2. rewrite top_in_body. rewrite H1, H2.
    destruct (body cat_in c' ch), X; cbn; congruence.
  Qed.

  (* generic step: a mutator that satisfies mut_ok, keeps neg, and adds the set X *)
  Lemma scan_step c c' (X : Z -> bool) :
    scan_inv c -> mut_ok c c' -> neg c' = true ->
    (forall ch, valid_rune ch -> top_in cat_in c' ch = xorb (neg c) (body cat_in c ch || X ch)) ->
    scan_inv c' /\ forall ch, valid_rune ch -> body cat_in c' ch = body cat_in c ch || X ch.
  Proof.
    intros (I1 & I2 & I3 & I4 & I5 & I6) (M1 & M2 & M3 & M4 & M5) Hn Ht. split.
    - unfold scan_inv. split; [exact Hn|split; [congruence|split; [congruence|split; [exact M3|split; [exact M4|exact M5]]]]].
    - intros ch Hv. apply (body_of_top c c' ch _ I1 Hn). apply Ht. exact Hv.
  Qed.

  Lemma add_ranges_neg c rs : neg c = true -> neg (add_ranges cat_in c rs) = true.
  Proof. intros H. unfold add_ranges. destruct (anything c); [exact H|]. apply canonicalize_neg. exact H. Qed.
  Lemma add_negative_ranges_neg c rs : neg c = true -> neg (add_negative_ranges cat_in c rs) = true.
  Proof. intros H. unfold add_negative_ranges. destruct (anything c); [exact H|]. apply canonicalize_neg. exact H. Qed.
  Lemma add_categories_neg c l : neg (add_categories c l) = neg c.
  Proof. apply (add_categories_shape cat_in c l). Qed.

  Lemma add_categories_ok c l : any_inv c -> wf_ranges (ranges c) -> canonical_ranges (ranges c) ->
    canonical_ranges (ranges (add_categories c l)).
  Proof.
    intros Hi Hw Hc. unfold add_categories. destruct (anything c); [exact Hc|].
    revert c Hi Hw Hc. induction l as [|[ng name] t IH]; intros c Hi Hw Hc; cbn [add_categories_loop]; [exact Hc|].
    destruct (find_cat name (cats c)).
    - destruct (Bool.eqb ng b); [apply IH; auto|]. cbn. unfold max_rune. lia.
    - apply IH; cbn; auto.
  Qed.

  Lemma add_categories_mut_ok c l : any_inv c -> wf_ranges (ranges c) -> canonical_ranges (ranges c) ->
    mut_ok c (add_categories c l).
  Proof.
    intros Hi Hw Hc. destruct (add_categories_shape cat_in c l) as (A & B & C & D & E).
    unfold mut_ok. split; [exact A|split; [exact B|split; [exact (D Hw)|split; [apply add_categories_ok; auto|exact (E Hi)]]]].
  Qed.

  (* positive / negated table of code points *)
  Lemma table_step c rs (ng : bool) :
    scan_inv c -> wf_ranges rs -> ordered 0 rs ->
    let c' := if ng then add_negative_ranges cat_in c rs else add_ranges cat_in c rs in
    scan_inv c' /\ forall ch, valid_rune ch -> body cat_in c' ch = body cat_in c ch || xorb ng (mem rs ch).
  Proof.
    intros Hinv Hw Ho. pose proof Hinv as (I1 & I2 & I3 & I4 & I5 & I6). destruct ng; cbn zeta.
    - apply scan_step; auto.
      + apply add_negative_ranges_ok; auto.
      + apply add_negative_ranges_neg; auto.
      + intros ch Hv. rewrite add_negative_ranges_top by auto. reflexivity.
    - apply scan_step; auto.
      + apply add_ranges_ok; auto.
      + apply add_ranges_neg; auto.
      + intros ch Hv. rewrite add_ranges_top by auto. destruct (mem rs ch); reflexivity.
  Qed.

  Lemma cats_step c l :
    scan_inv c ->
    scan_inv (add_categories c l) /\
    forall ch, valid_rune ch -> body cat_in (add_categories c l) ch = body cat_in c ch || cats_in cat_in l ch.
  Proof.
    intros Hinv. pose proof Hinv as (I1 & I2 & I3 & I4 & I5 & I6).
    apply scan_step; auto.
    - apply add_categories_mut_ok; auto.
    - rewrite add_categories_neg. exact I1.
    - intros ch Hv. apply add_categories_top; auto.
  Qed.

  Lemma cats_in_single ng name ch : cats_in cat_in [(ng, name)] ch = xorb ng (cat_in name ch).
  Proof. unfold cats_in, cat_accepts; cbn. apply orb_false_r. Qed.

  Lemma item_step o c it :
    scan_inv c -> wf_item it -> item_guard o it ->
    scan_inv (elab_item cat_in o c it) /\
    forall ch, valid_rune ch ->
      body cat_in (elab_item cat_in o c it) ch = body cat_in c ch || (lit_den o it ch || cat_den o it ch).
  Proof.
    intros Hinv Hwf Hg. pose proof Hinv as (I1 & I2 & I3 & I4 & I5 & I6).
    destruct it as [a b|ng|ng|ng|ng name|ng k]; cbn [elab_item]; unfold lit_den, cat_den; cbn [item_lit_exp item_cat_exp].
    - (* IRange *)
      cbn in Hwf. destruct Hwf as (W1 & W2 & W3).
      destruct (scan_step c (add_range cat_in c a b) (fun ch => (a <=? ch) && (ch <=? b))) as [S1 S2]; auto.
      + apply add_range_ok; auto.
      + apply canonicalize_neg. exact I1.
      + intros ch Hv. apply add_range_top; auto.
      + split; [exact S1|]. intros ch Hv. rewrite S2 by auto. cbn. rewrite !orb_false_r. reflexivity.
    - (* IDigit *)
      unfold add_digit. destruct (o_ecma o || o_re2 o).
      + rewrite not_ecma_digit_eq.
        destruct (table_step c ecma_digit_ranges ng Hinv wf_ecma_digit ordered_ecma_digit) as [S1 S2].
        cbn zeta in S1, S2. unfold add_negative_ranges in *. destruct ng; (split; [exact S1|]); intros ch Hv; rewrite S2 by auto;
          cbn [existsb]; rewrite den_neg_if; cbn [denote]; unfold mem, in_range, ecma_digit_ranges; cbn [existsb fst snd]; rewrite !orb_false_r; reflexivity.
      + destruct (cats_step c [(ng, cat_Nd)] Hinv) as [S1 S2]. split; [exact S1|].
        intros ch Hv. rewrite S2 by auto. rewrite cats_in_single. cbn. rewrite !orb_false_r. reflexivity.
    - (* ISpace *)
      unfold add_space. destruct (o_ecma o) eqn:Ee.
      + rewrite not_ecma_space_eq.
        destruct (table_step c ecma_space_ranges ng Hinv wf_ecma_space ordered_ecma_space) as [S1 S2].
        cbn zeta in S1, S2. unfold add_negative_ranges in *. cbn [orb].
        destruct ng; (split; [exact S1|]); intros ch Hv; rewrite S2 by auto;
          cbn [existsb]; rewrite den_neg_if, den_ranges_exp; rewrite !orb_false_r; reflexivity.
      + destruct (o_re2 o) eqn:Er.
        * rewrite not_re2_space_eq.
          destruct (table_step c re2_space_ranges ng Hinv wf_re2_space ordered_re2_space) as [S1 S2].
          cbn zeta in S1, S2. unfold add_negative_ranges in *. cbn [orb].
          destruct ng; (split; [exact S1|]); intros ch Hv; rewrite S2 by auto;
            cbn [existsb]; rewrite den_neg_if, den_ranges_exp; rewrite !orb_false_r; reflexivity.
        * cbn [orb]. destruct (cats_step c [(ng, cat_space)] Hinv) as [S1 S2]. split; [exact S1|].
          intros ch Hv. rewrite S2 by auto. rewrite cats_in_single. cbn. rewrite !orb_false_r. reflexivity.
    - (* IWord *)
      unfold add_word. destruct (o_ecma o || o_re2 o).
      + rewrite not_ecma_word_eq.
        destruct (table_step c ecma_word_ranges ng Hinv wf_ecma_word ordered_ecma_word) as [S1 S2].
        cbn zeta in S1, S2. unfold add_negative_ranges in *.
        destruct ng; (split; [exact S1|]); intros ch Hv; rewrite S2 by auto;
          cbn [existsb]; rewrite den_neg_if, den_ranges_exp; rewrite !orb_false_r; reflexivity.
      + destruct (cats_step c [(ng, cat_word)] Hinv) as [S1 S2]. split; [exact S1|].
        intros ch Hv. rewrite S2 by auto. rewrite cats_in_single. cbn. rewrite !orb_false_r. reflexivity.
    - (* IProp *)
      cbn in Hg. unfold add_category.
      destruct (o_ci o && is_case_cat name) eqn:Ec.
      + (* IgnoreCase and a cased-letter category: not negated (guard) *)
        assert (ng = false).
        { destruct ng; [|reflexivity]. apply andb_prop in Ec. destruct Ec as [E1 E2]. rewrite E1, E2 in Hg. discriminate. }
        subst ng.
        destruct (cats_step c [(false, cat_Ll); (false, cat_Lu); (false, cat_Lt)] Hinv) as [S1 S2].
        destruct (cats_step _ [(false, name)] S1) as [T1 T2]. split; [exact T1|].
        intros ch Hv. rewrite T2, S2 by auto. rewrite cats_in_single. cbn [existsb]. rewrite den_neg_if.
        cbn [denote existsb xorb]. unfold cats_in, cat_accepts; cbn [existsb fst snd xorb].
        apply andb_prop in Ec. destruct Ec as [_ Ec]. unfold is_case_cat in Ec.
        assert (Hname : name = cat_Ll \/ name = cat_Lu \/ name = cat_Lt) by lia.
        destruct Hname as [ -> | [ -> | -> ] ];
          destruct (cat_in cat_Ll ch), (cat_in cat_Lu ch), (cat_in cat_Lt ch), (body cat_in c ch); reflexivity.
      + destruct (cats_step c [(ng, name)] Hinv) as [S1 S2]. split; [exact S1|].
        intros ch Hv. rewrite S2 by auto. rewrite cats_in_single. cbn. rewrite !orb_false_r. reflexivity.
    - (* IPosix *)
      cbn in Hwf. destruct (posix_ordered k Hwf) as (Po & Pw & Pn).
      unfold add_named_ascii.
      destruct (k =? 5) eqn:E5.
      + assert (k = 5) by lia. subst k. unfold add_digit. rewrite not_ecma_digit_eq.
        destruct (table_step c ecma_digit_ranges ng Hinv wf_ecma_digit ordered_ecma_digit) as [S1 S2].
        cbn zeta in S1, S2. unfold add_negative_ranges in *.
        destruct ng; (split; [exact S1|]); intros ch Hv; rewrite S2 by auto;
          cbn [existsb]; rewrite den_neg_if, den_ranges_exp; rewrite !orb_false_r; reflexivity.
      + destruct (k =? 12) eqn:E12.
        * assert (k = 12) by lia. subst k. unfold add_word. rewrite not_ecma_word_eq.
          destruct (table_step c ecma_word_ranges ng Hinv wf_ecma_word ordered_ecma_word) as [S1 S2].
          cbn zeta in S1, S2. unfold add_negative_ranges in *.
          destruct ng; (split; [exact S1|]); intros ch Hv; rewrite S2 by auto;
            cbn [existsb]; rewrite den_neg_if, den_ranges_exp; rewrite !orb_false_r; reflexivity.
        * destruct (posix_ranges k) as [|r t] eqn:Ep; [congruence|]. rewrite <- Ep in *.
          destruct (table_step c (posix_ranges k) ng Hinv Pw Po) as [S1 S2]. cbn zeta in S1, S2.
          destruct ng; (split; [exact S1|]); intros ch Hv; rewrite S2 by auto;
            cbn [existsb]; rewrite den_neg_if, den_ranges_exp; rewrite !orb_false_r; reflexivity.
  Qed.

  Lemma items_step o items : forall c,
    scan_inv c -> Forall wf_item items -> Forall (item_guard o) items ->
    scan_inv (fold_left (elab_item cat_in o) items c) /\
    forall ch, valid_rune ch ->
      body cat_in (fold_left (elab_item cat_in o) items c) ch =
      body cat_in c ch || (existsb (fun it => lit_den o it ch) items || existsb (fun it => cat_den o it ch) items).
  Proof.
    induction items as [|it t IH]; intros c Hinv Hw Hg.
    - cbn. split; [exact Hinv|]. intros. rewrite orb_false_r. reflexivity.
    - inversion Hw as [|? ? W1 W2]; subst. inversion Hg as [|? ? G1 G2]; subst.
      destruct (item_step o c it Hinv W1 G1) as [S1 S2].
      destruct (IH _ S1 W2 G2) as [T1 T2]. cbn [fold_left]. split; [exact T1|].
      intros ch Hv. rewrite T2, S2 by auto. cbn [existsb].
      destruct (body cat_in c ch), (lit_den o it ch), (cat_den o it ch),
        (existsb (fun it0 => lit_den o it0 ch) t), (existsb (fun it0 => cat_den o it0 ch) t); reflexivity.
  Qed.

  Lemma scan_inv_init : scan_inv (Cls [] [] None true false None).
  Proof. unfold scan_inv; cbn. repeat split; auto; [constructor|intros H; discriminate]. Qed.

  (* ---------------------------------------------------------------- the whole bracket expression, case-sensitive *)
  Fixpoint no_bitmaps (c : cls) : Prop :=
    match c with
    | Cls _ _ sb _ _ asc => asc = None /\ match sb with Some s => no_bitmaps s | None => True end
    end.

  Lemma no_bitmaps_ok c : no_bitmaps c -> bitmaps_ok cat_in c.
  Proof.
    induction c as [rs cs ng an asc | rs cs s ng an asc IH] using cls_induction; cbn; intros [-> H]; auto.
  Qed.

  (* what a finished class satisfies *)
  Definition scanned (o : opts) (s : csyn) (c : cls) : Prop :=
    canonical c /\ no_bitmaps c /\ wf_ranges (ranges c) /\ any_inv c /\
    forall ch, valid_rune ch -> plain_in cat_in c ch = den (sem o s) ch.

  Lemma canonical_intro c : canonical_ranges (ranges c) -> match sub c with Some s => canonical s | None => True end -> canonical c.
  Proof. destruct c; cbn; auto. Qed.
  Lemma no_bitmaps_intro c : ascii c = None -> match sub c with Some s => no_bitmaps s | None => True end -> no_bitmaps c.
  Proof. destruct c; cbn; auto. Qed.

  Lemma sem_unfold o ng items sb :
    sem o (CSyn ng items sb) =
    let lits := CUnion (flat_map (item_lit_exp o) items) in
    let body := CUnion ((if o_ci o then CFold lits else lits) :: flat_map (item_cat_exp o) items) in
    let e := neg_if ng body in
    match sb with Some s' => CDiff e (sem o s') | None => e end.
  Proof. reflexivity. Qed.

  Lemma scan_nonci o s : o_ci o = false -> wf_syn s -> syn_guard o s ->
    exists c, scan_char_set cat_in simple_fold to_lower fuel o s = Ok c /\ scanned o s c.
  Proof.
    intros Hci. induction s as [ng items | ng items s' IH] using csyn_induction; intros Hw Hg;
      cbn in Hw, Hg; destruct Hw as [Hw Hw']; destruct Hg as [Hg Hg'].
    - destruct (items_step o items _ scan_inv_init Hw Hg) as [(I1 & I2 & I3 & I4 & I5 & I6) T].
      cbn [scan_char_set]. rewrite Hci. cbn [bind].
      set (c := fold_left (elab_item cat_in o) items (Cls [] [] None true false None)) in *.
      eexists. split; [reflexivity|].
      assert (Hw1 : wf_ranges (ranges (set_neg c ng))) by exact I4.
      destruct (canonicalize_same_set cat_in _ Hw1) as (S1 & S2 & S3 & S4 & S5).
      cbn [sub ascii set_neg] in S1, S2.
      unfold scanned. split; [|split; [|split; [|split]]].
      + apply canonical_intro; [exact S4|]. rewrite S1, I2. exact I.
      + apply no_bitmaps_intro; [congruence|]. rewrite S1, I2. exact I.
      + exact S3.
      + apply canonicalize_any_inv; [|exact Hw1]. apply (any_inv_sem cat_in). exact I6.
      + intros ch Hv. rewrite plain_in_top. rewrite S5 by auto. unfold sub_in. rewrite S1, I2. rewrite andb_true_r.
        rewrite top_in_body. cbn [neg set_neg]. change (body cat_in (set_neg c ng) ch) with (body cat_in c ch).
        rewrite T by auto. cbn [body ranges cats mem cats_in existsb orb].
        rewrite sem_unfold. cbn zeta. rewrite Hci. rewrite den_neg_if. f_equal.
        cbn [denote existsb]. rewrite !existsb_flat_map. reflexivity.
    - specialize (IH Hw' Hg'). destruct IH as (sc & Hsc & C1 & C2 & C3 & C4 & C5).
      destruct (items_step o items _ scan_inv_init Hw Hg) as [(I1 & I2 & I3 & I4 & I5 & I6) T].
      cbn [scan_char_set]. rewrite Hci. rewrite Hsc. cbn [bind].
      set (c := fold_left (elab_item cat_in o) items (Cls [] [] None true false None)) in *.
      eexists. split; [reflexivity|].
      assert (Hw1 : wf_ranges (ranges (set_neg (add_subtraction c sc) ng))) by exact I4.
      destruct (canonicalize_same_set cat_in _ Hw1) as (S1 & S2 & S3 & S4 & S5).
      cbn [sub ascii set_neg add_subtraction set_sub] in S1, S2.
      unfold scanned. split; [|split; [|split; [|split]]].
      + apply canonical_intro; [exact S4|]. rewrite S1. exact C1.
      + apply no_bitmaps_intro; [congruence|]. rewrite S1. exact C2.
      + exact S3.
      + apply canonicalize_any_inv; [|exact Hw1]. apply (any_inv_sem cat_in). exact I6.
      + intros ch Hv. rewrite plain_in_top. rewrite S5 by auto. unfold sub_in. rewrite S1.
        rewrite top_in_body. cbn [neg set_neg add_subtraction set_sub].
        change (body cat_in (set_neg (add_subtraction c sc) ng) ch) with (body cat_in c ch).
        rewrite T by auto. cbn [body ranges cats mem cats_in existsb orb].
        rewrite C5 by auto.
        rewrite sem_unfold. cbn zeta. rewrite Hci. cbn [denote]. rewrite den_neg_if. f_equal. f_equal.
        cbn [denote existsb]. rewrite !existsb_flat_map. reflexivity.
  Qed.

  (* char_in_denote, case-sensitive modes (none / ECMAScript / RE2), valid runes *)
  Theorem char_in_denote_cs o s c ch :
    o_ci o = false -> wf_syn s -> valid_rune ch ->
    elab cat_in simple_fold to_lower fuel s o = Ok c ->
    char_in cat_in c ch = den (sem o s) ch.
  Proof.
    intros Hci Hw Hv He. pose proof (syn_guard_cs o s Hci) as Hg. unfold elab in He.
    destruct (scan_nonci o s Hci Hw Hg) as (c' & Hc' & C1 & C2 & _ & _ & C5).
    rewrite Hc' in He. cbn [bind] in He. rewrite Hci in He. injection He as <-.
    destruct (lookup_agree cat_in _ C1 (no_bitmaps_ok _ C2) ch) as [_ L]. rewrite L. apply C5. exact Hv.
  Qed.

  (* the class the parser builds is canonical at every level and carries no stale bitmap *)
  Theorem elab_canonical_cs o s c :
    o_ci o = false -> wf_syn s ->
    elab cat_in simple_fold to_lower fuel s o = Ok c -> canonical c /\ no_bitmaps c.
  Proof.
    intros Hci Hw He. unfold elab in He.
    destruct (scan_nonci o s Hci Hw (syn_guard_cs o s Hci)) as (c' & Hc' & C1 & C2 & _).
    rewrite Hc' in He. cbn [bind] in He. rewrite Hci in He. injection He as <-. auto.
  Qed.

End Elab.
