(* Per-opcode lemmas for the BALANCING Capturemark (second operand <> -1): transferCapture forward,
   the "group to pop is unset" failure, and the two Back variants (one or two uncaptures), by symbolic
   evaluation of VM.step; root-slot liftings. *)
From Verif Require Import Base.Prelude Model.Tree Model.Spec Model.VM Model.Writer Gen.RunnerGen
  Proofs.VMU Proofs.VMUOps Proofs.VMUOps2 Proofs.VMUOps6 Proofs.CompileBalDen.
From Coq Require Import Relations ZifyBool.

Lemma bo_do_transfer s g u x t s2 l2 M1 :
  vm_match_index u (mcaps s) = Some s2 -> vm_match_length u (mcaps s) = Some l2 ->
  balance_match u (mcaps s) = Some M1 ->
  do_transfer s g u x t =
  (let iv := balance_span x t (s2, l2) in
   if g =? -1 then Ok (set_caps s (u :: crawl s) M1)
   else match add_match g (fst iv) (snd iv) M1 with
        | None => Crash C_cap
        | Some m2 => Ok (set_caps s (g :: u :: crawl s) m2)
        end).
Proof.
  intros Hi Hl Hb. unfold do_transfer. rewrite Hi, Hl, Hb. cbv zeta. rewrite <- bd_transfer_span.
  destruct (t <? x); cbv zeta beta iota;
    repeat match goal with |- context [if ?b then (_, _) else _] => destruct b end; reflexivity.
Qed.

Section OpsBal.
Variable e : env.
Variable p : program.
Hypothesis tc_nonneg : 0 <= trackcount p.

Notation ustep := (VMU.ustep e p).
Notation mk := VMU.mk.

Ltac start H0 :=
  unfold VMU.ustep, step; cbn [repad VMU.mk pc mode tp track stack crawl mcaps tcap scap]; rewrite H0.
Ltac fin := cbn [bind cont norm VMU.mk repad set_pc set_tp set_track set_stack set_caps set_tcap set_scap pc mode tp track stack crawl mcaps tcap scap app];
            try reflexivity.
Ltac pcs := cbn [repad VMU.mk set_pc set_tp set_track set_stack set_caps pc]; lia.
Ltac adv n H := erewrite (advance_at p _ _ n) by (first [exact H | pcs]).
Ltac opn a H := erewrite (opnd_at p _ _ a) by (first [exact H | pcs]).
Ltac tpu := rewrite tpush_ok by room; cbn [bind].
Ltac spu := rewrite spush_ok by room; cbn [bind].
Ltac fail_to H3 := (erewrite brk_ok; [| cbn [repad VMU.mk set_pc set_tp set_track set_stack set_caps track]; reflexivity | exact H3 | room | room]).

(* the group to pop is unset: fail, nothing popped *)
Lemma ustep_capturemark_bal_unset pc0 t np T S C M g u w3 :
  code_at p pc0 = Some Capturemark -> code_at p (pc0 + 1) = Some g -> code_at p (pc0 + 2) = Some u ->
  u <> -1 -> code_at p (Z.abs np) = Some w3 -> vm_is_matched u M = Some false ->
  ustep (mk pc0 0 t (np :: T) S C M) = Ok (Next (bk np t T S C M)).
Proof.
  intros H0 H1 H2 Hu H3 Hm. start H0. change (Z.land Capturemark 63) with 32.
  cbn -[opnd do_capture do_transfer tpush advance vm_is_matched brk].
  opn (pc0 + 1) H1. cbn [bind]. opn (pc0 + 2) H2. cbn -[opnd do_capture do_transfer tpush advance vm_is_matched brk].
  replace (u =? -1) with false by lia. rewrite Hm. cbn [bind negb].
  fail_to H3; fin.
Qed.

(* (?<g-u>...) : pop u, push g *)
Lemma ustep_capturemark_bal pc0 t x T S C M g u s2 l2 M1 M2 w2 :
  code_at p pc0 = Some Capturemark -> code_at p (pc0 + 1) = Some g -> code_at p (pc0 + 2) = Some u ->
  u <> -1 -> g <> -1 -> code_at p (pc0 + 3) = Some w2 ->
  vm_is_matched u M = Some true -> vm_match_index u M = Some s2 -> vm_match_length u M = Some l2 ->
  balance_match u M = Some M1 ->
  add_match g (fst (balance_span x t (s2, l2))) (snd (balance_span x t (s2, l2))) M1 = Some M2 ->
  ustep (mk pc0 0 t T (x :: S) C M) = Ok (Next (mk (pc0 + 3) 0 t (pc0 :: x :: T) S (g :: u :: C) M2)).
Proof.
  intros H0 H1 H2 Hu Hg H3 Hm Hi Hl Hb Ha. start H0. change (Z.land Capturemark 63) with 32.
  cbn -[opnd do_capture do_transfer tpush advance vm_is_matched].
  opn (pc0 + 1) H1. cbn [bind]. opn (pc0 + 2) H2. cbn -[opnd do_capture do_transfer tpush advance vm_is_matched].
  replace (u =? -1) with false by lia. rewrite Hm. cbn [bind negb].
  erewrite bo_do_transfer by (cbn [mcaps set_stack repad VMU.mk]; eassumption).
  cbv zeta. replace (g =? -1) with false by lia. rewrite Ha. cbn [bind].
  tpu. adv (pc0 + 3) H3. fin.
Qed.

(* (?<-u>...) : pop u only *)
Lemma ustep_capturemark_bal_pop pc0 t x T S C M u s2 l2 M1 w2 :
  code_at p pc0 = Some Capturemark -> code_at p (pc0 + 1) = Some (-1) -> code_at p (pc0 + 2) = Some u ->
  u <> -1 -> code_at p (pc0 + 3) = Some w2 ->
  vm_is_matched u M = Some true -> vm_match_index u M = Some s2 -> vm_match_length u M = Some l2 ->
  balance_match u M = Some M1 ->
  ustep (mk pc0 0 t T (x :: S) C M) = Ok (Next (mk (pc0 + 3) 0 t (pc0 :: x :: T) S (u :: C) M1)).
Proof.
  intros H0 H1 H2 Hu H3 Hm Hi Hl Hb. start H0. change (Z.land Capturemark 63) with 32.
  cbn -[opnd do_capture do_transfer tpush advance vm_is_matched].
  opn (pc0 + 1) H1. cbn [bind]. opn (pc0 + 2) H2. cbn -[opnd do_capture do_transfer tpush advance vm_is_matched].
  replace (u =? -1) with false by lia. rewrite Hm. cbn [bind negb].
  erewrite bo_do_transfer by (cbn [mcaps set_stack repad VMU.mk]; eassumption).
  cbv zeta. change (-1 =? -1) with true. cbv iota. cbn [bind].
  tpu. adv (pc0 + 3) H3. fin.
Qed.

Lemma ustep_capturemark_bal_back pc0 t x np T S g u C M2 M1 M w3 :
  code_at p pc0 = Some Capturemark -> code_at p (pc0 + 1) = Some g -> code_at p (pc0 + 2) = Some u ->
  u <> -1 -> g <> -1 -> code_at p (Z.abs np) = Some w3 ->
  remove_match g M2 = Some M1 -> remove_match u M1 = Some M ->
  ustep (mk pc0 BackBit t (x :: np :: T) S (g :: u :: C) M2) = Ok (Next (bk np t T (x :: S) C M)).
Proof.
  intros H0 H1 H2 Hu Hg H3 Hr1 Hr2. start H0. change (Z.land Capturemark 63) with 32.
  cbn -[opnd uncapture spush brk].
  opn (pc0 + 1) H1. cbn [bind]. opn (pc0 + 2) H2. cbn [bind]. spu.
  unfold uncapture at 1. cbn [crawl mcaps set_stack set_track repad VMU.mk]. rewrite Hr1. cbn [bind].
  replace (negb (g =? -1) && negb (u =? -1)) with true by lia.
  unfold uncapture. cbn [crawl mcaps set_caps]. rewrite Hr2. cbn [bind].
  fail_to H3; fin.
Qed.

Lemma ustep_capturemark_bal_pop_back pc0 t x np T S u C M1 M w3 :
  code_at p pc0 = Some Capturemark -> code_at p (pc0 + 1) = Some (-1) -> code_at p (pc0 + 2) = Some u ->
  code_at p (Z.abs np) = Some w3 -> remove_match u M1 = Some M ->
  ustep (mk pc0 BackBit t (x :: np :: T) S (u :: C) M1) = Ok (Next (bk np t T (x :: S) C M)).
Proof.
  intros H0 H1 H2 H3 Hr. start H0. change (Z.land Capturemark 63) with 32.
  cbn -[opnd uncapture spush brk].
  opn (pc0 + 1) H1. cbn [bind]. opn (pc0 + 2) H2. cbn [bind]. spu.
  unfold uncapture. cbn [crawl mcaps set_stack set_track repad VMU.mk]. rewrite Hr. cbn [bind].
  change (negb (-1 =? -1)) with false. cbn [andb bind].
  fail_to H3; fin.
Qed.

(* ---------- root-slot liftings ---------- *)
Notation rsteps := (VMUOps2.rsteps e p).
Ltac lift L := intros; apply rsteps_one; intro r; unfold bkr, mkr; cbn [app]; eapply L; eassumption.

Lemma rs_capturemark_bal_unset pc0 t np T S C M g u w3 :
  code_at p pc0 = Some Capturemark -> code_at p (pc0 + 1) = Some g -> code_at p (pc0 + 2) = Some u ->
  u <> -1 -> code_at p (Z.abs np) = Some w3 -> vm_is_matched u M = Some false ->
  rsteps (mkr pc0 0 t (np :: T) S C M) (bkr np t T S C M).
Proof. lift ustep_capturemark_bal_unset. Qed.

Lemma rs_capturemark_bal pc0 t x T S C M g u s2 l2 M1 M2 w2 :
  code_at p pc0 = Some Capturemark -> code_at p (pc0 + 1) = Some g -> code_at p (pc0 + 2) = Some u ->
  u <> -1 -> g <> -1 -> code_at p (pc0 + 3) = Some w2 ->
  vm_is_matched u M = Some true -> vm_match_index u M = Some s2 -> vm_match_length u M = Some l2 ->
  balance_match u M = Some M1 ->
  add_match g (fst (balance_span x t (s2, l2))) (snd (balance_span x t (s2, l2))) M1 = Some M2 ->
  rsteps (mkr pc0 0 t T (x :: S) C M) (mkr (pc0 + 3) 0 t (pc0 :: x :: T) S (g :: u :: C) M2).
Proof. lift ustep_capturemark_bal. Qed.

Lemma rs_capturemark_bal_pop pc0 t x T S C M u s2 l2 M1 w2 :
  code_at p pc0 = Some Capturemark -> code_at p (pc0 + 1) = Some (-1) -> code_at p (pc0 + 2) = Some u ->
  u <> -1 -> code_at p (pc0 + 3) = Some w2 ->
  vm_is_matched u M = Some true -> vm_match_index u M = Some s2 -> vm_match_length u M = Some l2 ->
  balance_match u M = Some M1 ->
  rsteps (mkr pc0 0 t T (x :: S) C M) (mkr (pc0 + 3) 0 t (pc0 :: x :: T) S (u :: C) M1).
Proof. lift ustep_capturemark_bal_pop. Qed.

Lemma rs_capturemark_bal_back pc0 t x np T S g u C M2 M1 M w3 :
  code_at p pc0 = Some Capturemark -> code_at p (pc0 + 1) = Some g -> code_at p (pc0 + 2) = Some u ->
  u <> -1 -> g <> -1 -> code_at p (Z.abs np) = Some w3 ->
  remove_match g M2 = Some M1 -> remove_match u M1 = Some M ->
  rsteps (mkr pc0 BackBit t (x :: np :: T) S (g :: u :: C) M2) (bkr np t T (x :: S) C M).
Proof. lift ustep_capturemark_bal_back. Qed.

Lemma rs_capturemark_bal_pop_back pc0 t x np T S u C M1 M w3 :
  code_at p pc0 = Some Capturemark -> code_at p (pc0 + 1) = Some (-1) -> code_at p (pc0 + 2) = Some u ->
  code_at p (Z.abs np) = Some w3 -> remove_match u M1 = Some M ->
  rsteps (mkr pc0 BackBit t (x :: np :: T) S (u :: C) M1) (bkr np t T (x :: S) C M).
Proof. lift ustep_capturemark_bal_pop_back. Qed.

End OpsBal.
