(* C03: the optimized candidate finders of runner.go (Model/Finder.v) satisfy hypothesis (H1) of the
   scan-loop theorem (Proofs/ScanProofs.v), each from the compile-time fact it relies on.

   Vocabulary (Section FinderSound): [exec] is one run of the matcher as in Model/Scan.v,
   [fd_succeeds exec q] = the run at q produces a match.  A FACT is a statement about the positions
   where the matcher succeeds (what the analysis publishes: "the text at q starts with P", "the text
   at q+d is in S", ...); a finder F is SOUND ([fd_sound]) when at every position p of the text it
   answers Ok (found, q) with p <= q <= n, no successful attempt in [p, q), and - when it gives up -
   no successful attempt anywhere in [p, n].  [fd_sound_H1]: a sound finder (made total by
   [fd_total]) satisfies sc_H1_true and sc_H1_false for the left-to-right scan. *)
From Verif Require Import Base.Prelude Model.Scan Model.Finder Proofs.ScanProofs.
From Coq Require Import ZifyBool.

(* ====================================================================================
   lists indexed by Z
   ==================================================================================== *)

Lemma fd_zlen_nonneg : forall {A} (l : list A), 0 <= zlen l.
Proof. intros. unfold zlen. lia. Qed.

Lemma fd_zlen_cons : forall {A} (a : A) l, zlen (a :: l) = zlen l + 1.
Proof. intros. unfold zlen. cbn [length]. lia. Qed.

Lemma fd_nth_cons_pos : forall (c : Z) l i, 0 < i -> nth (Z.to_nat i) (c :: l) 0 = nth (Z.to_nat (i - 1)) l 0.
Proof.
  intros c l i Hi. replace (Z.to_nat i) with (S (Z.to_nat (i - 1))) by lia. reflexivity.
Qed.

Lemma fd_zlen_skipn : forall (l : list Z) s, 0 <= s <= zlen l -> zlen (skipn (Z.to_nat s) l) = zlen l - s.
Proof. intros l s Hs. unfold zlen in *. rewrite skipn_length. lia. Qed.

Lemma fd_nth_skipn : forall (l : list Z) (s i : nat), nth i (skipn s l) 0 = nth (s + i) l 0.
Proof.
  intros l s. revert l. induction s as [|s IH]; intros l i; [reflexivity|].
  destruct l as [|c l]; [destruct i; reflexivity|]. cbn [skipn plus nth]. apply IH.
Qed.

Lemma fd_nth_skipn_Z : forall (l : list Z) s i, 0 <= s -> 0 <= i ->
  nth (Z.to_nat i) (skipn (Z.to_nat s) l) 0 = nth (Z.to_nat (s + i)) l 0.
Proof. intros l s i Hs Hi. rewrite fd_nth_skipn. f_equal. lia. Qed.

Lemma fd_skipn_skipn : forall (l : list Z) (a b : nat), skipn a (skipn b l) = skipn (b + a) l.
Proof.
  intros l a b. revert l. induction b as [|b IH]; intros l; [reflexivity|].
  destruct l as [|c l]; [rewrite !skipn_nil; reflexivity|]. cbn [skipn plus]. apply IH.
Qed.

Lemma fd_skipn_skipn_Z : forall (l : list Z) s i, 0 <= s -> 0 <= i ->
  skipn (Z.to_nat i) (skipn (Z.to_nat s) l) = skipn (Z.to_nat (s + i)) l.
Proof. intros l s i Hs Hi. rewrite fd_skipn_skipn. f_equal. lia. Qed.

Lemma fd_skipn_all : forall (l : list Z), skipn (Z.to_nat (zlen l)) l = [].
Proof. intros l. unfold zlen. rewrite Nat2Z.id. apply skipn_all. Qed.

Lemma fd_nth_firstn : forall (l : list Z) (k i : nat), (i < k)%nat -> nth i (firstn k l) 0 = nth i l 0.
Proof.
  intros l k. revert l. induction k as [|k IH]; intros l i Hi; [lia|].
  destruct l as [|c l]; [destruct i; reflexivity|].
  destruct i as [|i]; [reflexivity|]. cbn [firstn nth]. apply IH. lia.
Qed.

Lemma fd_zlen_firstn : forall (l : list Z) k, 0 <= k <= zlen l -> zlen (firstn (Z.to_nat k) l) = k.
Proof. intros l k Hk. unfold zlen in *. rewrite firstn_length. lia. Qed.

(* ====================================================================================
   helpers/indexof.go
   ==================================================================================== *)

Lemma fd_index_where_range : forall f l, -1 <= fd_index_where f l < zlen l.
Proof.
  intros f l. induction l as [|c l IH]; cbn [fd_index_where].
  - unfold zlen. cbn. lia.
  - rewrite fd_zlen_cons. destruct (f c); [pose proof (fd_zlen_nonneg l); lia|].
    destruct (fd_index_where f l <? 0) eqn:E; lia.
Qed.

Lemma fd_index_where_none : forall f l, fd_index_where f l < 0 ->
  forall i, 0 <= i < zlen l -> f (nth (Z.to_nat i) l 0) = false.
Proof.
  intros f l. induction l as [|c l IH]; intros H i Hi.
  - unfold zlen in Hi. cbn in Hi. lia.
  - cbn [fd_index_where] in H. rewrite fd_zlen_cons in Hi.
    destruct (f c) eqn:Ec; [lia|].
    destruct (fd_index_where f l <? 0) eqn:E; [|pose proof (fd_index_where_range f l); lia].
    assert (Hc : i = 0 \/ 0 < i) by lia. destruct Hc as [->|Hc]; [exact Ec|].
    rewrite fd_nth_cons_pos by exact Hc. apply IH; lia.
Qed.

Lemma fd_index_where_some : forall f l, 0 <= fd_index_where f l ->
  f (nth (Z.to_nat (fd_index_where f l)) l 0) = true /\
  forall i, 0 <= i < fd_index_where f l -> f (nth (Z.to_nat i) l 0) = false.
Proof.
  intros f l. induction l as [|c l IH]; intros H.
  - cbn in H. lia.
  - cbn [fd_index_where] in *. destruct (f c) eqn:Ec.
    + split; [exact Ec | intros; lia].
    + destruct (fd_index_where f l <? 0) eqn:E; [lia|].
      destruct IH as [IH1 IH2]; [lia|]. split.
      * rewrite fd_nth_cons_pos by lia. replace (fd_index_where f l + 1 - 1) with (fd_index_where f l) by lia.
        exact IH1.
      * intros i Hi. assert (Hc : i = 0 \/ 0 < i) by lia. destruct Hc as [->|Hc]; [exact Ec|].
        rewrite fd_nth_cons_pos by exact Hc. apply IH2. lia.
Qed.

Lemma fd_index_where_ext : forall f g l, (forall c, f c = g c) -> fd_index_where f l = fd_index_where g l.
Proof.
  intros f g l H. induction l as [|c l IH]; [reflexivity|].
  cbn [fd_index_where]. rewrite H, IH. reflexivity.
Qed.

Lemma fd_index_where_false : forall l, fd_index_where (fun _ => false) l = -1.
Proof. induction l as [|c l IH]; [reflexivity|]. cbn [fd_index_where]. rewrite IH. reflexivity. Qed.

(* indexOfAnyRunes: whatever the arity, the first rune that is a member of [find] *)
Lemma fd_index_of_any_runes_eq : forall l find,
  fd_index_of_any_runes l find = fd_index_where (fun c => zmem c find) l.
Proof.
  intros l find. unfold fd_index_of_any_runes.
  destruct find as [|a [|b [|d [|e find]]]].
  - symmetry. apply fd_index_where_false.
  - unfold fd_index_of_any1. apply fd_index_where_ext. intros c. cbn. rewrite orb_false_r. reflexivity.
  - unfold fd_index_of_any2. apply fd_index_where_ext. intros c. cbn. rewrite orb_false_r. reflexivity.
  - unfold fd_index_of_any3. apply fd_index_where_ext. intros c. cbn. rewrite orb_false_r, orb_assoc. reflexivity.
  - reflexivity.
Qed.

(* [fd_prefix_match]: pointwise characterisation *)
Lemma fd_prefix_match_short : forall eqc find l, zlen l < zlen find -> fd_prefix_match eqc find l = false.
Proof.
  intros eqc find. induction find as [|c find IH]; intros l H.
  - pose proof (fd_zlen_nonneg l). unfold zlen in *. cbn in *. lia.
  - destruct l as [|x l]; [reflexivity|]. cbn [fd_prefix_match]. rewrite !fd_zlen_cons in H.
    rewrite IH by lia. apply andb_false_r.
Qed.

Lemma fd_prefix_match_true : forall eqc find l, fd_prefix_match eqc find l = true ->
  zlen find <= zlen l /\
  forall j, 0 <= j < zlen find -> eqc (nth (Z.to_nat j) l 0) (nth (Z.to_nat j) find 0) = true.
Proof.
  intros eqc find. induction find as [|c find IH]; intros l H.
  - split; [pose proof (fd_zlen_nonneg l); unfold zlen in *; cbn; lia|].
    intros j Hj. unfold zlen in Hj. cbn in Hj. lia.
  - destruct l as [|x l]; [discriminate|]. cbn [fd_prefix_match] in H.
    apply andb_prop in H. destruct H as [H1 H2]. destruct (IH l H2) as [IHa IHb].
    rewrite !fd_zlen_cons. split; [lia|].
    intros j Hj. assert (Hc : j = 0 \/ 0 < j) by lia. destruct Hc as [->|Hc]; [exact H1|].
    rewrite !fd_nth_cons_pos by exact Hc. apply IHb. lia.
Qed.

Lemma fd_prefix_match_intro : forall eqc find l, zlen find <= zlen l ->
  (forall j, 0 <= j < zlen find -> eqc (nth (Z.to_nat j) l 0) (nth (Z.to_nat j) find 0) = true) ->
  fd_prefix_match eqc find l = true.
Proof.
  intros eqc find. induction find as [|c find IH]; intros l Hlen H; [reflexivity|].
  destruct l as [|x l]; [rewrite fd_zlen_cons in Hlen; pose proof (fd_zlen_nonneg find); unfold zlen in Hlen at 2; cbn in Hlen; lia|].
  cbn [fd_prefix_match]. rewrite !fd_zlen_cons in *. apply andb_true_intro. split.
  - apply (H 0). pose proof (fd_zlen_nonneg find). lia.
  - apply IH; [lia|]. intros j Hj. specialize (H (j + 1)).
    rewrite !fd_nth_cons_pos in H by lia. replace (j + 1 - 1) with j in H by lia. apply H. lia.
Qed.

(* [fd_index_of_gen]: first offset at which [find] matches *)
Lemma fd_index_of_gen_range : forall eqc find l, -1 <= fd_index_of_gen eqc find l < zlen l.
Proof.
  intros eqc find l. induction l as [|c l IH]; cbn [fd_index_of_gen].
  - unfold zlen. cbn. lia.
  - rewrite fd_zlen_cons. destruct (fd_prefix_match eqc find (c :: l)); [pose proof (fd_zlen_nonneg l); lia|].
    destruct (fd_index_of_gen eqc find l <? 0) eqn:E; lia.
Qed.

Lemma fd_index_of_gen_none : forall eqc find l, fd_index_of_gen eqc find l < 0 ->
  forall i, 0 <= i < zlen l -> fd_prefix_match eqc find (skipn (Z.to_nat i) l) = false.
Proof.
  intros eqc find l. induction l as [|c l IH]; intros H i Hi.
  - unfold zlen in Hi. cbn in Hi. lia.
  - cbn [fd_index_of_gen] in H. rewrite fd_zlen_cons in Hi.
    destruct (fd_prefix_match eqc find (c :: l)) eqn:Ec; [lia|].
    destruct (fd_index_of_gen eqc find l <? 0) eqn:E; [|pose proof (fd_index_of_gen_range eqc find l); lia].
    assert (Hc : i = 0 \/ 0 < i) by lia. destruct Hc as [->|Hc]; [exact Ec|].
    replace (Z.to_nat i) with (S (Z.to_nat (i - 1))) by lia. cbn [skipn]. apply IH; lia.
Qed.

Lemma fd_index_of_gen_some : forall eqc find l, 0 <= fd_index_of_gen eqc find l ->
  fd_prefix_match eqc find (skipn (Z.to_nat (fd_index_of_gen eqc find l)) l) = true /\
  forall i, 0 <= i < fd_index_of_gen eqc find l -> fd_prefix_match eqc find (skipn (Z.to_nat i) l) = false.
Proof.
  intros eqc find l. induction l as [|c l IH]; intros H.
  - cbn in H. lia.
  - cbn [fd_index_of_gen] in *. destruct (fd_prefix_match eqc find (c :: l)) eqn:Ec.
    + split; [exact Ec | intros; lia].
    + destruct (fd_index_of_gen eqc find l <? 0) eqn:E; [lia|].
      destruct IH as [IH1 IH2]; [lia|]. split.
      * replace (Z.to_nat (fd_index_of_gen eqc find l + 1)) with (S (Z.to_nat (fd_index_of_gen eqc find l))) by lia.
        exact IH1.
      * intros i Hi. assert (Hc : i = 0 \/ 0 < i) by lia. destruct Hc as [->|Hc]; [exact Ec|].
        replace (Z.to_nat i) with (S (Z.to_nat (i - 1))) by lia. cbn [skipn]. apply IH2. lia.
Qed.

(* ====================================================================================
   soundness of a finder; link to (H1)
   ==================================================================================== *)
Section FinderSound.
Variable R : Type.
Variable text : list Z.
Variable exec : Z -> option R * Z.

Local Notation n := (zlen text).

Definition fd_succeeds (q : Z) : Prop := fst (exec q) <> None.

Lemma fd_fails_dec : forall x, sc_fails R exec x \/ fd_succeeds x.
Proof. intros x. unfold sc_fails, fd_succeeds. destruct (fst (exec x)); [right; discriminate | left; reflexivity]. Qed.

Lemma fd_not_succeeds_fails : forall x, (fd_succeeds x -> False) -> sc_fails R exec x.
Proof. intros x H. destruct (fd_fails_dec x) as [F|S]; [exact F | contradiction]. Qed.

Definition fd_ok_at (p : Z) (r : res (bool * Z)) : Prop :=
  exists found q, r = Ok (found, q) /\ p <= q <= n /\
    (forall x, p <= x -> x < q -> sc_fails R exec x) /\
    (found = false -> forall x, p <= x <= n -> sc_fails R exec x).

Definition fd_sound (F : Z -> res (bool * Z)) : Prop :=
  forall p, 0 <= p <= n -> fd_ok_at p (F p).

Theorem fd_sound_H1 : forall F, fd_sound F ->
  sc_H1_true R n false (fd_total F) exec /\ sc_H1_false R n false (fd_total F) exec.
Proof.
  intros F HF. split; intros p q Hp Hf; unfold sc_in_text in Hp;
    destruct (HF p Hp) as (found & q' & Hr & Hq & Hskip & Hgive);
    unfold fd_total in Hf; rewrite Hr in Hf; inversion Hf; subst found q';
    unfold sc_ord, sc_before, sc_in_text; (split; [lia|split; [lia|]]).
  - intros x Hx1 Hx2. apply Hskip; lia.
  - intros x Hx1 Hx2. apply (Hgive eq_refl). lia.
Qed.

(* the finder that gave up at the far end, and the finder that found q *)
Lemma fd_ok_far : forall p, 0 <= p <= n ->
  (forall x, p <= x <= n -> fd_succeeds x -> False) -> fd_ok_at p (Ok (false, zlen text)).
Proof.
  intros p Hp H. exists false, (zlen text). split; [reflexivity|]. split; [lia|]. split.
  - intros x Hx1 Hx2. apply fd_not_succeeds_fails. apply H. lia.
  - intros _ x Hx. apply fd_not_succeeds_fails. apply H. exact Hx.
Qed.

Lemma fd_ok_found : forall p q, p <= q <= n ->
  (forall x, p <= x -> x < q -> fd_succeeds x -> False) -> fd_ok_at p (Ok (true, q)).
Proof.
  intros p q Hq H. exists true, q. split; [reflexivity|]. split; [exact Hq|]. split.
  - intros x Hx1 Hx2. apply fd_not_succeeds_fails. apply H; assumption.
  - discriminate.
Qed.

(* ---- the facts ---- *)

(* MinRequiredLength: a successful attempt needs that many runes ahead (C04_min_len_sound) *)
Definition fd_minlen_fact (minreq : Z) : Prop :=
  forall q, 0 <= q <= n -> fd_succeeds q -> minreq <= n - q.

Lemma fd_minlen_latest : forall minreq q, fd_minlen_fact minreq -> 0 <= q <= n -> fd_succeeds q ->
  q <= fd_latest_possible_start text minreq.
Proof.
  intros minreq q Hm Hq Hs. specialize (Hm q Hq Hs). unfold fd_latest_possible_start, fd_n.
  destruct (minreq <=? 0) eqn:E; lia.
Qed.

Lemma fd_latest_le_n : forall minreq, fd_latest_possible_start text minreq <= n.
Proof. intros minreq. unfold fd_latest_possible_start, fd_n. destruct (minreq <=? 0) eqn:E; lia. Qed.

(* TrailingAnchor_FixedLength_LeftToRight_End: every match starts exactly L runes before the end
   (C04_trailing_fixed_length_sound) *)
Definition fd_trailing_end_fact (L : Z) : Prop :=
  forall q, 0 <= q <= n -> fd_succeeds q -> q = n - L.

(* LeadingString: the text at a successful attempt starts with the prefix, runes compared by [eqc] *)
Definition fd_prefix_fact (eqc : Z -> Z -> bool) (P : list Z) : Prop :=
  forall q, 0 <= q <= n -> fd_succeeds q -> fd_prefix_match eqc P (skipn (Z.to_nat q) text) = true.

(* LeadingStrings: ... starts with one of the prefixes *)
Definition fd_prefixes_fact (eqc : Z -> Z -> bool) (Ps : list (list Z)) : Prop :=
  forall q, 0 <= q <= n -> fd_succeeds q ->
    exists P, In P Ps /\ fd_prefix_match eqc P (skipn (Z.to_nat q) text) = true.

(* FixedDistanceChar: the rune d positions after a successful attempt is ch *)
Definition fd_fdchar_fact (ch d : Z) : Prop :=
  forall q, 0 <= q <= n -> fd_succeeds q -> q + d < n /\ nth (Z.to_nat (q + d)) text 0 = ch.

(* FixedDistanceString: the literal stands d positions after a successful attempt *)
Definition fd_fdstring_fact (lit : list Z) (d : Z) : Prop :=
  forall q, 0 <= q <= n -> fd_succeeds q ->
    fd_prefix_match fd_eq_exact lit (skipn (Z.to_nat (q + d)) text) = true.

(* FixedDistanceSets / LeadingSet: for every published set, the rune at its distance is in it
   (membership as charInFixedDistanceSet computes it: Chars, else Range, else Set) *)
Definition fd_fds_fact (set_in : Z -> Z -> bool) (sets : list fdset) : Prop :=
  forall q, 0 <= q <= n -> fd_succeeds q -> forall s, In s sets ->
    0 <= q + fs_distance s < n /\ fd_char_in_fds set_in s (nth (Z.to_nat (q + fs_distance s)) text 0) = true.

(* ---- slices ---- *)
Lemma fd_slice_from_ok : forall i, 0 <= i <= n -> fd_slice_from text i = Ok (skipn (Z.to_nat i) text).
Proof.
  intros i Hi. unfold fd_slice_from, fd_n.
  destruct ((i <? 0) || (n <? i)) eqn:E; [lia | reflexivity].
Qed.

Lemma fd_rune_at_ok : forall i, 0 <= i < n -> fd_rune_at text i = Ok (nth (Z.to_nat i) text 0).
Proof.
  intros i Hi. unfold fd_rune_at, znth. destruct (i <? 0) eqn:E; [lia|].
  destruct (nth_error text (Z.to_nat i)) as [c|] eqn:En.
  - rewrite (nth_error_nth _ _ _ En). reflexivity.
  - apply nth_error_None in En. unfold zlen in Hi. lia.
Qed.

(* ====================================================================================
   findTrailingFixedLengthEnd
   ==================================================================================== *)
Theorem fd_trailing_end_sound : forall L, 0 <= L ->
  fd_trailing_end_fact L -> fd_sound (fun p => fd_find_trailing_fixed_length_end text p L).
Proof.
  intros L HL HF p Hp. unfold fd_find_trailing_fixed_length_end, fd_far, fd_n.
  destruct ((n - L <? p) || (n - L <? 0)) eqn:E.
  - apply fd_ok_far; [exact Hp|]. intros x Hx Hs. specialize (HF x ltac:(lia) Hs). lia.
  - apply fd_ok_found; [lia|]. intros x Hx1 Hx2 Hs. specialize (HF x ltac:(lia) Hs). lia.
Qed.

(* ====================================================================================
   findLeadingStringLeftToRight
   ==================================================================================== *)
Variable lower : Z -> Z.
Variable minreq : Z.
Hypothesis Hmin : fd_minlen_fact minreq.

(* how the finder compares a rune of the text with a rune of the prefix *)
Definition fd_leading_eqc (ignore_case : bool) (P : list Z) : Z -> Z -> bool :=
  if ignore_case then (if fd_is_ascii_runes P then fd_eq_fold_ascii else fd_eq_lower lower) else fd_eq_exact.

Lemma fd_leading_index : forall (ic : bool) (P l : list Z), P <> [] ->
  @eq (res Z)
    (if ic return res Z then
       (if fd_is_ascii_runes P return res Z then fd_index_of_ic_ascii l P else fd_index_of_ic lower l P)
     else fd_index_of l P)
    (Ok (fd_index_of_gen (fd_leading_eqc ic P) P l)).
Proof.
  intros ic P l HP. unfold fd_leading_eqc, fd_index_of_ic_ascii, fd_index_of_ic, fd_index_of.
  destruct P as [|c P]; [contradiction|]. destruct ic; [destruct (fd_is_ascii_runes (c :: P))|]; reflexivity.
Qed.

Theorem fd_leading_string_sound : forall P ic,
  fd_prefix_fact (fd_leading_eqc ic P) P ->
  fd_sound (fun p => fd_find_leading_string text lower minreq p P ic).
Proof.
  intros P ic HF p Hp. unfold fd_find_leading_string.
  destruct P as [|c0 P0] eqn:EP.
  { apply fd_ok_found; [lia|]. intros x Hx1 Hx2. lia. }
  rewrite <- EP in *. assert (HP : P <> []) by (rewrite EP; discriminate).
  rewrite (fd_slice_from_ok p Hp). cbn [bind].
  rewrite (fd_leading_index ic P _ HP). cbn [bind].
  set (eqc := fd_leading_eqc ic P) in *.
  set (sl := skipn (Z.to_nat p) text).
  assert (Hlen : zlen sl = n - p) by (apply fd_zlen_skipn; exact Hp).
  pose proof (fd_index_of_gen_range eqc P sl) as Hrange.
  (* no occurrence at x means no success at x *)
  assert (Hno : forall x, p <= x <= n ->
            fd_prefix_match eqc P (skipn (Z.to_nat (x - p)) sl) = false -> fd_succeeds x -> False).
  { intros x Hx Hm Hs. specialize (HF x ltac:(lia) Hs). unfold sl in Hm.
    rewrite fd_skipn_skipn_Z in Hm by lia. replace (p + (x - p)) with x in Hm by lia. congruence. }
  assert (Hend : fd_succeeds n -> False).
  { intros Hs. pose proof (fd_zlen_nonneg text). specialize (HF n ltac:(lia) Hs).
    rewrite fd_skipn_all in HF. rewrite EP in HF. discriminate. }
  destruct (fd_index_of_gen eqc P sl <? 0) eqn:Eoff.
  - apply fd_ok_far; [exact Hp|]. intros x Hx Hs.
    assert (Hc : x = n \/ x < n) by lia. destruct Hc as [->|Hc]; [exact (Hend Hs)|].
    apply (Hno x Hx); [|exact Hs]. apply fd_index_of_gen_none; lia.
  - destruct (fd_index_of_gen_some eqc P sl ltac:(lia)) as [Hhit Hbefore].
    set (off := fd_index_of_gen eqc P sl) in *.
    assert (Hskip : forall x, p <= x -> x < p + off -> fd_succeeds x -> False).
    { intros x Hx1 Hx2 Hs. apply (Hno x ltac:(lia)); [|exact Hs]. apply Hbefore. lia. }
    destruct (negb (fd_has_required_length_at text minreq (p + off))) eqn:Ereq.
    + apply fd_ok_far; [exact Hp|]. intros x Hx Hs.
      assert (Hc : x < p + off \/ p + off <= x) by lia. destruct Hc as [Hc|Hc]; [exact (Hskip x ltac:(lia) Hc Hs)|].
      pose proof (fd_minlen_latest minreq x Hmin ltac:(lia) Hs) as Hl.
      unfold fd_has_required_length_at in Ereq. lia.
    + apply fd_ok_found; [lia | exact Hskip].
Qed.

(* ====================================================================================
   findFixedDistanceCharLeftToRight
   ==================================================================================== *)
Lemma fd_has_req_unfold : forall start,
  fd_has_required_length_at text minreq start = (0 <=? start) && (start <=? fd_latest_possible_start text minreq).
Proof. reflexivity. Qed.

Lemma fd_fdchar_loop_ok : forall ch d, 0 <= d -> fd_fdchar_fact ch d ->
  forall fuel p s, 0 <= p <= n -> p + d <= s -> (Z.to_nat (n - s) < fuel)%nat ->
  (forall q, p <= q <= n -> q + d < s -> fd_succeeds q -> False) ->
  fd_ok_at p (fd_fdchar_loop text minreq fuel p ch d s).
Proof.
  intros ch d Hd HF. induction fuel as [|f IH]; intros p s Hp Hs Hfuel Hinv; [lia|].
  cbn [fd_fdchar_loop]. unfold fd_far, fd_n.
  destruct (negb (s <? n)) eqn:Es.
  { apply fd_ok_far; [exact Hp|]. intros x Hx Hsx. destruct (HF x ltac:(lia) Hsx) as [H1 H2].
    apply (Hinv x); [lia | lia | exact Hsx]. }
  rewrite (fd_slice_from_ok s) by lia. cbn [bind]. unfold fd_index_of_any1. cbv zeta.
  set (sl := skipn (Z.to_nat s) text). set (test := fun c : Z => c =? ch).
  assert (Hlen : zlen sl = n - s) by (apply fd_zlen_skipn; lia).
  pose proof (fd_index_where_range test sl) as Hrange.
  assert (Hat : forall x, p <= x <= n -> fd_succeeds x -> s <= x + d ->
            x + d < n /\ test (nth (Z.to_nat (x + d - s)) sl 0) = true).
  { intros x Hx Hsx Hge. destruct (HF x ltac:(lia) Hsx) as [H1 H2]. split; [lia|].
    unfold sl, test. rewrite fd_nth_skipn_Z by lia. replace (s + (x + d - s)) with (x + d) by lia. lia. }
  destruct (fd_index_where test sl <? 0) eqn:Eoff.
  { apply fd_ok_far; [exact Hp|]. intros x Hx Hsx.
    assert (Hc : x + d < s \/ s <= x + d) by lia. destruct Hc as [Hc|Hc]; [exact (Hinv x Hx Hc Hsx)|].
    destruct (Hat x Hx Hsx Hc) as [H1 H2].
    rewrite (fd_index_where_none test sl) in H2 by lia. discriminate. }
  destruct (fd_index_where_some test sl ltac:(lia)) as [Hhit Hbefore].
  set (off := fd_index_where test sl) in *.
  assert (Hskip : forall x, p <= x <= n -> x + d < s + off -> fd_succeeds x -> False).
  { intros x Hx Hlt Hsx.
    assert (Hc : x + d < s \/ s <= x + d) by lia. destruct Hc as [Hc|Hc]; [exact (Hinv x Hx Hc Hsx)|].
    destruct (Hat x Hx Hsx Hc) as [H1 H2]. rewrite Hbefore in H2 by lia. discriminate. }
  rewrite fd_has_req_unfold.
  pose proof (fd_latest_le_n minreq) as Hlat.
  destruct ((p <=? s + off - d) && ((0 <=? s + off - d) && (s + off - d <=? fd_latest_possible_start text minreq))) eqn:E1.
  { apply fd_ok_found; [lia|]. intros x Hx1 Hx2 Hsx. apply (Hskip x); [lia | lia | exact Hsx]. }
  destruct (fd_latest_possible_start text minreq <? s + off - d) eqn:E2; [|exfalso; lia].
  apply fd_ok_far; [exact Hp|]. intros x Hx Hsx.
  assert (Hc : x + d < s + off \/ s + off <= x + d) by lia. destruct Hc as [Hc|Hc]; [exact (Hskip x Hx Hc Hsx)|].
  pose proof (fd_minlen_latest minreq x Hmin ltac:(lia) Hsx). lia.
Qed.

Theorem fd_fixed_distance_char_sound : forall ch d, 0 <= d -> fd_fdchar_fact ch d ->
  fd_sound (fun p => fd_find_fixed_distance_char text minreq p ch d).
Proof.
  intros ch d Hd HF p Hp. unfold fd_find_fixed_distance_char.
  apply fd_fdchar_loop_ok; try assumption; try lia; try (unfold fd_fuel, zlen in *; lia).
Qed.

(* ====================================================================================
   findFixedDistanceStringLeftToRight
   ==================================================================================== *)
Lemma fd_prefix_match_skipn_bound : forall eqc lit i, lit <> [] -> 0 <= i ->
  fd_prefix_match eqc lit (skipn (Z.to_nat i) text) = true -> i + zlen lit <= n.
Proof.
  intros eqc lit i Hl Hi Hm.
  assert (Hc : i <= n \/ n < i) by lia. destruct Hc as [Hc|Hc].
  - destruct (fd_prefix_match_true _ _ _ Hm) as [H1 _]. rewrite fd_zlen_skipn in H1 by lia. lia.
  - rewrite skipn_all2 in Hm by (unfold zlen in Hc; lia).
    destruct lit; [contradiction | discriminate].
Qed.

Lemma fd_fdstring_loop_ok : forall lit d, lit <> [] -> 0 <= d -> fd_fdstring_fact lit d ->
  forall fuel p s, 0 <= p <= n -> p + d <= s -> (Z.to_nat (n - s) < fuel)%nat ->
  (forall q, p <= q <= n -> q + d < s -> fd_succeeds q -> False) ->
  fd_ok_at p (fd_fdstring_loop text minreq fuel p lit d s).
Proof.
  intros lit d Hlit Hd HF. induction fuel as [|f IH]; intros p s Hp Hs Hfuel Hinv; [lia|].
  cbn [fd_fdstring_loop]. unfold fd_far, fd_n.
  pose proof (fd_zlen_nonneg lit) as Hl0.
  destruct (negb (s <=? n - zlen lit)) eqn:Es.
  { apply fd_ok_far; [exact Hp|]. intros x Hx Hsx.
    pose proof (fd_prefix_match_skipn_bound _ lit (x + d) Hlit ltac:(lia) (HF x ltac:(lia) Hsx)).
    apply (Hinv x); [lia | lia | exact Hsx]. }
  rewrite (fd_slice_from_ok s) by lia. cbn [bind].
  assert (Hio : forall l, fd_index_of l lit = Ok (fd_index_of_gen fd_eq_exact lit l)).
  { intros l. unfold fd_index_of. destruct lit; [contradiction | reflexivity]. }
  rewrite Hio. cbn [bind]. cbv zeta.
  set (sl := skipn (Z.to_nat s) text).
  assert (Hlen : zlen sl = n - s) by (apply fd_zlen_skipn; lia).
  pose proof (fd_index_of_gen_range fd_eq_exact lit sl) as Hrange.
  assert (Hat : forall x, p <= x <= n -> fd_succeeds x -> s <= x + d ->
            x + d < n /\ fd_prefix_match fd_eq_exact lit (skipn (Z.to_nat (x + d - s)) sl) = true).
  { intros x Hx Hsx Hge. pose proof (HF x ltac:(lia) Hsx) as H1.
    pose proof (fd_prefix_match_skipn_bound _ lit (x + d) Hlit ltac:(lia) H1) as H2.
    assert (0 < zlen lit) by (destruct lit; [contradiction | rewrite fd_zlen_cons; pose proof (fd_zlen_nonneg lit); lia]).
    split; [lia|]. unfold sl. rewrite fd_skipn_skipn_Z by lia. replace (s + (x + d - s)) with (x + d) by lia. exact H1. }
  destruct (fd_index_of_gen fd_eq_exact lit sl <? 0) eqn:Eoff.
  { apply fd_ok_far; [exact Hp|]. intros x Hx Hsx.
    assert (Hc : x + d < s \/ s <= x + d) by lia. destruct Hc as [Hc|Hc]; [exact (Hinv x Hx Hc Hsx)|].
    destruct (Hat x Hx Hsx Hc) as [H1 H2].
    rewrite (fd_index_of_gen_none fd_eq_exact lit sl) in H2 by lia. discriminate. }
  destruct (fd_index_of_gen_some fd_eq_exact lit sl ltac:(lia)) as [Hhit Hbefore].
  set (off := fd_index_of_gen fd_eq_exact lit sl) in *.
  assert (Hskip : forall x, p <= x <= n -> x + d < s + off -> fd_succeeds x -> False).
  { intros x Hx Hlt Hsx.
    assert (Hc : x + d < s \/ s <= x + d) by lia. destruct Hc as [Hc|Hc]; [exact (Hinv x Hx Hc Hsx)|].
    destruct (Hat x Hx Hsx Hc) as [H1 H2]. rewrite Hbefore in H2 by lia. discriminate. }
  rewrite fd_has_req_unfold.
  pose proof (fd_latest_le_n minreq) as Hlat.
  destruct ((p <=? s + off - d) && ((0 <=? s + off - d) && (s + off - d <=? fd_latest_possible_start text minreq))) eqn:E1.
  { apply fd_ok_found; [lia|]. intros x Hx1 Hx2 Hsx. apply (Hskip x); [lia | lia | exact Hsx]. }
  destruct (fd_latest_possible_start text minreq <? s + off - d) eqn:E2; [|exfalso; lia].
  apply fd_ok_far; [exact Hp|]. intros x Hx Hsx.
  assert (Hc : x + d < s + off \/ s + off <= x + d) by lia. destruct Hc as [Hc|Hc]; [exact (Hskip x Hx Hc Hsx)|].
  pose proof (fd_minlen_latest minreq x Hmin ltac:(lia) Hsx). lia.
Qed.

Theorem fd_fixed_distance_string_sound : forall lit d, 0 <= d -> fd_fdstring_fact lit d ->
  fd_sound (fun p => fd_find_fixed_distance_string text minreq p lit d).
Proof.
  intros lit d Hd HF p Hp. unfold fd_find_fixed_distance_string.
  destruct lit as [|c lit0] eqn:El.
  { apply fd_ok_found; [lia|]. intros x Hx1 Hx2. lia. }
  rewrite <- El in *. apply fd_fdstring_loop_ok; try assumption; try lia; try (unfold fd_fuel, zlen in *; lia).
  rewrite El. discriminate.
Qed.

(* ====================================================================================
   findFixedDistanceSetsLeftToRight (also serves LeadingSet_LeftToRight)
   ==================================================================================== *)
Variable set_in : Z -> Z -> bool.

Lemma fd_index_of_set_eq : forall l s,
  fd_index_of_set set_in l s = fd_index_where (fd_char_in_fds set_in s) l.
Proof.
  intros l s. unfold fd_index_of_set, fd_char_in_fds.
  destruct (fs_chars s) as [|c cs] eqn:Ec.
  - destruct (fs_range s) as [[first last]|] eqn:Er.
    + destruct (fs_negated s).
      * unfold fd_index_of_any_except_in_range. apply fd_index_where_ext. intros x.
        destruct ((first <=? x) && (x <=? last)) eqn:E; destruct ((last <? x) || (x <? first)) eqn:E'; cbn [negb]; try reflexivity; lia.
      * reflexivity.
    + unfold fd_index_func. reflexivity.
  - destruct (fs_negated s); cbn [negb]; reflexivity.
Qed.

Lemma fd_sets_match_at_intro : forall sets start,
  (forall s, In s sets -> 0 <= start + fs_distance s < n /\
      fd_char_in_fds set_in s (nth (Z.to_nat (start + fs_distance s)) text 0) = true) ->
  fd_sets_match_at text set_in sets start = true.
Proof.
  induction sets as [|s sets IH]; intros start H; [reflexivity|].
  cbn [fd_sets_match_at]. unfold fd_n. cbv zeta.
  destruct (H s (or_introl eq_refl)) as [H1 H2].
  destruct ((start + fs_distance s <? 0) || (n <=? start + fs_distance s)) eqn:E; [lia|].
  rewrite H2. cbn [negb]. apply IH. intros s' Hs'. apply H. right. exact Hs'.
Qed.

Lemma fd_fdsets_loop_ok : forall sets primary, In primary sets -> 0 <= fs_distance primary ->
  fd_fds_fact set_in sets ->
  forall fuel p s, 0 <= p <= n -> p + fs_distance primary <= s -> (Z.to_nat (n - s) < fuel)%nat ->
  (forall q, p <= q <= n -> q + fs_distance primary < s -> fd_succeeds q -> False) ->
  fd_ok_at p (fd_fdsets_loop text set_in minreq fuel p sets primary s).
Proof.
  intros sets primary Hin Hd HF. set (d := fs_distance primary) in *.
  induction fuel as [|f IH]; intros p s Hp Hs Hfuel Hinv; [lia|].
  cbn [fd_fdsets_loop]. unfold fd_far, fd_n.
  destruct (negb (s <? n)) eqn:Es.
  { apply fd_ok_far; [exact Hp|]. intros x Hx Hsx. destruct (HF x ltac:(lia) Hsx primary Hin) as [H1 H2].
    apply (Hinv x); [lia | fold d in H1; lia | exact Hsx]. }
  rewrite (fd_slice_from_ok s) by lia. cbn [bind]. rewrite fd_index_of_set_eq. cbv zeta. fold d.
  set (sl := skipn (Z.to_nat s) text). set (test := fd_char_in_fds set_in primary).
  assert (Hlen : zlen sl = n - s) by (apply fd_zlen_skipn; lia).
  pose proof (fd_index_where_range test sl) as Hrange.
  assert (Hat : forall x, p <= x <= n -> fd_succeeds x -> s <= x + d ->
            x + d < n /\ test (nth (Z.to_nat (x + d - s)) sl 0) = true).
  { intros x Hx Hsx Hge. destruct (HF x ltac:(lia) Hsx primary Hin) as [H1 H2]. fold d in H1, H2. split; [lia|].
    unfold sl, test. rewrite fd_nth_skipn_Z by lia. replace (s + (x + d - s)) with (x + d) by lia. exact H2. }
  destruct (fd_index_where test sl <? 0) eqn:Eoff.
  { apply fd_ok_far; [exact Hp|]. intros x Hx Hsx.
    assert (Hc : x + d < s \/ s <= x + d) by lia. destruct Hc as [Hc|Hc]; [exact (Hinv x Hx Hc Hsx)|].
    destruct (Hat x Hx Hsx Hc) as [H1 H2].
    rewrite (fd_index_where_none test sl) in H2 by lia. discriminate. }
  destruct (fd_index_where_some test sl ltac:(lia)) as [Hhit Hbefore].
  set (off := fd_index_where test sl) in *.
  assert (Hskip : forall x, p <= x <= n -> x + d < s + off -> fd_succeeds x -> False).
  { intros x Hx Hlt Hsx.
    assert (Hc : x + d < s \/ s <= x + d) by lia. destruct Hc as [Hc|Hc]; [exact (Hinv x Hx Hc Hsx)|].
    destruct (Hat x Hx Hsx Hc) as [H1 H2]. rewrite Hbefore in H2 by lia. discriminate. }
  pose proof (fd_latest_le_n minreq) as Hlat.
  destruct (fd_latest_possible_start text minreq <? s + off - d) eqn:E2.
  { apply fd_ok_far; [exact Hp|]. intros x Hx Hsx.
    assert (Hc : x + d < s + off \/ s + off <= x + d) by lia. destruct Hc as [Hc|Hc]; [exact (Hskip x Hx Hc Hsx)|].
    pose proof (fd_minlen_latest minreq x Hmin ltac:(lia) Hsx). lia. }
  rewrite fd_has_req_unfold.
  destruct ((p <=? s + off - d) && ((0 <=? s + off - d) && (s + off - d <=? fd_latest_possible_start text minreq))
            && fd_sets_match_at text set_in sets (s + off - d)) eqn:E1.
  { apply fd_ok_found; [lia|]. intros x Hx1 Hx2 Hsx. apply (Hskip x); [lia | lia | exact Hsx]. }
  apply IH; [exact Hp | lia | lia |].
  intros q Hq Hlt Hsq.
  assert (Hc : q + d < s + off \/ q + d = s + off) by lia. destruct Hc as [Hc|Hc]; [exact (Hskip q Hq Hc Hsq)|].
  assert (Hqe : q = s + off - d) by lia.
  rewrite (fd_sets_match_at_intro sets (s + off - d)) in E1.
  - lia.
  - intros s0 Hs0. rewrite <- Hqe. exact (HF q ltac:(lia) Hsq s0 Hs0).
Qed.

Theorem fd_fixed_distance_sets_sound : forall sets primary rest id,
  sets = primary :: rest -> fs_set primary = Some id -> 0 <= fs_distance primary ->
  fd_fds_fact set_in sets ->
  fd_sound (fun p => fd_find_fixed_distance_sets text set_in minreq p sets).
Proof.
  intros sets primary rest id Hsets Hset Hd HF p Hp. unfold fd_find_fixed_distance_sets.
  rewrite Hsets, Hset. rewrite <- Hsets.
  apply fd_fdsets_loop_ok; try assumption; try lia; try (unfold fd_fuel, zlen in *; lia).
  rewrite Hsets. left. reflexivity.
Qed.

(* ====================================================================================
   findLeadingStringsLeftToRight
   ==================================================================================== *)
Definition fd_strings_eqc (ignore_case : bool) : Z -> Z -> bool :=
  if ignore_case then fd_eq_lower lower else fd_eq_exact.

(* LeadingPrefixFirstRunes covers the first rune of every prefix *)
Definition fd_first_runes_ok (Ps : list (list Z)) (firsts : list Z) : Prop :=
  forall c rest, In (c :: rest) Ps -> zmem c firsts = true.

Lemma fd_starts_with_ok : forall l P, P <> [] -> fd_starts_with l P = Ok (fd_prefix_match fd_eq_exact P l).
Proof.
  intros l P HP. unfold fd_starts_with. destruct (zlen l <? zlen P) eqn:E.
  - rewrite fd_prefix_match_short by lia. reflexivity.
  - destruct P; [contradiction | reflexivity].
Qed.

Lemma fd_starts_with_ic_eq : forall l P, fd_starts_with_ic lower l P = fd_prefix_match (fd_eq_lower lower) P l.
Proof.
  intros l P. unfold fd_starts_with_ic. destruct (zlen l <? zlen P) eqn:E; [|reflexivity].
  rewrite fd_prefix_match_short by lia. reflexivity.
Qed.

Lemma fd_any_prefix_at_ok : forall ic l Ps, Forall (fun P => P <> []) Ps ->
  exists b, fd_any_prefix_at lower ic l Ps = Ok b /\
    (b = false -> forall P, In P Ps -> fd_prefix_match (fd_strings_eqc ic) P l = false).
Proof.
  intros ic l Ps. induction Ps as [|P Ps IH]; intros Hne.
  - exists false. split; [reflexivity|]. intros _ P [].
  - inversion Hne as [|? ? HP Hne']; subst. destruct (IH Hne') as (b & Hb & Hall).
    cbn [fd_any_prefix_at]. unfold fd_strings_eqc in *. destruct ic.
    + rewrite fd_starts_with_ic_eq. destruct (fd_prefix_match (fd_eq_lower lower) P l) eqn:E.
      * exists true. split; [reflexivity | discriminate].
      * exists b. split; [exact Hb|]. intros Hf P' [<-|Hin]; [exact E | apply Hall; assumption].
    + rewrite (fd_starts_with_ok l P HP). cbn [bind]. destruct (fd_prefix_match fd_eq_exact P l) eqn:E.
      * exists true. split; [reflexivity | discriminate].
      * exists b. split; [exact Hb|]. intros Hf P' [<-|Hin]; [exact E | apply Hall; assumption].
Qed.

Lemma fd_leading_strings_slow_ok : forall ic Ps, Forall (fun P => P <> []) Ps ->
  fd_prefixes_fact (fd_strings_eqc ic) Ps ->
  forall fuel p s, 0 <= p <= s -> p <= n -> (Z.to_nat (n + 1 - s) < fuel)%nat ->
  (forall q, p <= q -> q < s -> q <= n -> fd_succeeds q -> False) ->
  fd_ok_at p (fd_leading_strings_slow text lower minreq fuel ic Ps s).
Proof.
  intros ic Ps Hne HF. induction fuel as [|f IH]; intros p s Hp Hpn Hfuel Hinv; [lia|].
  cbn [fd_leading_strings_slow]. unfold fd_far, fd_n.
  pose proof (fd_latest_le_n minreq) as Hlat.
  destruct (negb (s <=? fd_latest_possible_start text minreq)) eqn:Es.
  { apply fd_ok_far; [lia|]. intros x Hx Hsx.
    assert (Hc : x < s \/ s <= x) by lia. destruct Hc as [Hc|Hc]; [apply (Hinv x); try lia; exact Hsx|].
    pose proof (fd_minlen_latest minreq x Hmin ltac:(lia) Hsx). lia. }
  rewrite (fd_slice_from_ok s) by lia. cbn [bind].
  destruct (fd_any_prefix_at_ok ic (skipn (Z.to_nat s) text) Ps Hne) as (b & Hb & Hall).
  rewrite Hb. cbn [bind]. destruct b.
  { apply fd_ok_found; [lia|]. intros x Hx1 Hx2 Hsx. apply (Hinv x); try lia; exact Hsx. }
  apply IH; try lia.
  intros q Hq1 Hq2 Hq3 Hsq.
  assert (Hc : q < s \/ q = s) by lia. destruct Hc as [Hc|Hc]; [apply (Hinv q); try lia; exact Hsq|]. subst q.
  destruct (HF s ltac:(lia) Hsq) as (P & HPin & HPm). rewrite (Hall eq_refl P HPin) in HPm. discriminate.
Qed.

Lemma fd_any_prefix_first_at_ok : forall first rest Ps, Forall (fun P => P <> []) Ps ->
  exists b, fd_any_prefix_first_at first (first :: rest) Ps = Ok b /\
    (b = false -> forall P, In P Ps -> fd_prefix_match fd_eq_exact P (first :: rest) = false).
Proof.
  intros first rest Ps. induction Ps as [|P Ps IH]; intros Hne.
  - exists false. split; [reflexivity|]. intros _ P [].
  - inversion Hne as [|? ? HP Hne']; subst. destruct (IH Hne') as (b & Hb & Hall).
    cbn [fd_any_prefix_first_at]. destruct P as [|c P]; [contradiction|].
    destruct (c =? first) eqn:Ec.
    + rewrite (fd_starts_with_ok (first :: rest) (c :: P) HP). cbn [bind].
      destruct (fd_prefix_match fd_eq_exact (c :: P) (first :: rest)) eqn:E.
      * exists true. split; [reflexivity | discriminate].
      * exists b. split; [exact Hb|]. intros Hf P' [<-|Hin]; [exact E | apply Hall; assumption].
    + exists b. split; [exact Hb|]. intros Hf P' [<-|Hin]; [|apply Hall; assumption].
      cbn [fd_prefix_match]. unfold fd_eq_exact at 1.
      replace (first =? c) with false by lia. reflexivity.
Qed.

Lemma fd_skipn_cons_nth : forall (l : list Z) i, 0 <= i < zlen l ->
  skipn (Z.to_nat i) l = nth (Z.to_nat i) l 0 :: skipn (Z.to_nat (i + 1)) l.
Proof.
  intros l i Hi. replace (Z.to_nat (i + 1)) with (S (Z.to_nat i)) by lia.
  assert (Hn : (Z.to_nat i < length l)%nat) by (unfold zlen in Hi; lia).
  revert Hn. generalize (Z.to_nat i) as k. clear Hi. induction l as [|c l IH]; intros k Hk; [cbn in Hk; lia|].
  destruct k as [|k]; [reflexivity|]. cbn [skipn nth]. apply IH. cbn in Hk. lia.
Qed.

(* a successful attempt at x starts with a rune of the first-rune list *)
Lemma fd_success_first_rune : forall Ps firsts x, Forall (fun P => P <> []) Ps ->
  fd_first_runes_ok Ps firsts -> fd_prefixes_fact fd_eq_exact Ps ->
  0 <= x <= n -> fd_succeeds x -> x < n /\ zmem (nth (Z.to_nat x) text 0) firsts = true.
Proof.
  intros Ps firsts x Hne Hfirst HF Hx Hsx.
  destruct (HF x Hx Hsx) as (P & HPin & HPm).
  destruct P as [|c P]; [rewrite Forall_forall in Hne; exfalso; exact (Hne _ HPin eq_refl)|].
  pose proof (fd_prefix_match_skipn_bound _ (c :: P) x ltac:(discriminate) ltac:(lia) HPm) as Hb.
  rewrite fd_zlen_cons in Hb. pose proof (fd_zlen_nonneg P). split; [lia|].
  rewrite fd_skipn_cons_nth in HPm by lia. cbn [fd_prefix_match] in HPm.
  apply andb_prop in HPm. destruct HPm as [H1 _]. unfold fd_eq_exact in H1.
  replace (nth (Z.to_nat x) text 0) with c by lia. exact (Hfirst c P HPin).
Qed.

Lemma fd_leading_strings_fast_ok : forall Ps firsts, Forall (fun P => P <> []) Ps ->
  fd_first_runes_ok Ps firsts -> fd_prefixes_fact fd_eq_exact Ps ->
  forall fuel p s, 0 <= p <= s -> p <= n -> (Z.to_nat (n - s) < fuel)%nat ->
  (forall q, p <= q -> q < s -> q <= n -> fd_succeeds q -> False) ->
  fd_ok_at p (fd_leading_strings_fast text fuel Ps firsts (Z.min (fd_latest_possible_start text minreq) (n - 1)) s).
Proof.
  intros Ps firsts Hne Hfirst HF.
  set (latest := Z.min (fd_latest_possible_start text minreq) (n - 1)).
  pose proof (fd_latest_le_n minreq) as Hlat.
  assert (Hbeyond : forall x, 0 <= x -> latest < x <= n -> fd_succeeds x -> False).
  { intros x Hx0 Hx Hsx. destruct (fd_success_first_rune Ps firsts x Hne Hfirst HF ltac:(lia) Hsx) as [H1 _].
    pose proof (fd_minlen_latest minreq x Hmin ltac:(lia) Hsx). lia. }
  induction fuel as [|f IH]; intros p s Hp Hpn Hfuel Hinv; [lia|].
  cbn [fd_leading_strings_fast]. unfold fd_far, fd_n.
  destruct (negb (s <=? latest)) eqn:Es.
  { apply fd_ok_far; [lia|]. intros x Hx Hsx.
    assert (Hc : x < s \/ s <= x) by lia. destruct Hc as [Hc|Hc]; [apply (Hinv x); try lia; exact Hsx|].
    apply (Hbeyond x); [lia | lia | exact Hsx]. }
  assert (Hsl : fd_slice text s (latest + 1) = Ok (firstn (Z.to_nat (latest + 1 - s)) (skipn (Z.to_nat s) text))).
  { unfold fd_slice, fd_n. destruct ((s <? 0) || (latest + 1 <? s) || (n <? latest + 1)) eqn:E; [lia | reflexivity]. }
  rewrite Hsl. cbn [bind]. rewrite fd_index_of_any_runes_eq. cbv zeta.
  set (win := firstn (Z.to_nat (latest + 1 - s)) (skipn (Z.to_nat s) text)).
  set (test := fun c : Z => zmem c firsts).
  assert (Hlen : zlen win = latest + 1 - s).
  { unfold win. apply fd_zlen_firstn. rewrite fd_zlen_skipn by lia. lia. }
  assert (Hnth : forall i, 0 <= i < latest + 1 - s -> nth (Z.to_nat i) win 0 = nth (Z.to_nat (s + i)) text 0).
  { intros i Hi. unfold win. rewrite fd_nth_firstn by lia. apply fd_nth_skipn_Z; lia. }
  pose proof (fd_index_where_range test win) as Hrange.
  destruct (fd_index_where test win <? 0) eqn:Eoff.
  { apply fd_ok_far; [lia|]. intros x Hx Hsx.
    assert (Hc : x < s \/ latest < x \/ s <= x <= latest) by lia.
    destruct Hc as [Hc|[Hc|Hc]]; [apply (Hinv x); try lia; exact Hsx | apply (Hbeyond x); [lia | lia | exact Hsx] |].
    destruct (fd_success_first_rune Ps firsts x Hne Hfirst HF ltac:(lia) Hsx) as [_ H2].
    pose proof (fd_index_where_none test win ltac:(lia) (x - s) ltac:(lia)) as H3.
    rewrite Hnth in H3 by lia. replace (s + (x - s)) with x in H3 by lia. unfold test in H3. congruence. }
  destruct (fd_index_where_some test win ltac:(lia)) as [Hhit Hbefore].
  set (off := fd_index_where test win) in *.
  assert (Hskip : forall x, p <= x -> x < s + off -> fd_succeeds x -> False).
  { intros x Hx1 Hx2 Hsx.
    assert (Hc : x < s \/ s <= x) by lia. destruct Hc as [Hc|Hc]; [apply (Hinv x); try lia; exact Hsx|].
    destruct (fd_success_first_rune Ps firsts x Hne Hfirst HF ltac:(lia) Hsx) as [_ H2].
    pose proof (Hbefore (x - s) ltac:(lia)) as H3.
    rewrite Hnth in H3 by lia. replace (s + (x - s)) with x in H3 by lia. unfold test in H3. congruence. }
  rewrite (fd_rune_at_ok (s + off)) by lia. cbn [bind].
  rewrite (fd_slice_from_ok (s + off)) by lia. cbn [bind].
  rewrite (fd_skipn_cons_nth text (s + off)) by lia.
  destruct (fd_any_prefix_first_at_ok (nth (Z.to_nat (s + off)) text 0) (skipn (Z.to_nat (s + off + 1)) text) Ps Hne)
    as (b & Hb & Hall).
  rewrite Hb. cbn [bind]. destruct b.
  { apply fd_ok_found; [lia | exact Hskip]. }
  apply IH; try lia.
  intros q Hq1 Hq2 Hq3 Hsq.
  assert (Hc : q < s + off \/ q = s + off) by lia. destruct Hc as [Hc|Hc]; [exact (Hskip q Hq1 Hc Hsq)|]. subst q.
  destruct (HF (s + off) ltac:(lia) Hsq) as (P & HPin & HPm).
  rewrite (fd_skipn_cons_nth text (s + off)) in HPm by lia.
  rewrite (Hall eq_refl P HPin) in HPm. discriminate.
Qed.

Theorem fd_leading_strings_sound : forall Ps firsts ic, Ps <> [] -> Forall (fun P => P <> []) Ps ->
  (ic = false -> fd_first_runes_ok Ps firsts) ->
  fd_prefixes_fact (fd_strings_eqc ic) Ps ->
  fd_sound (fun p => fd_find_leading_strings text lower minreq p Ps firsts ic).
Proof.
  intros Ps firsts ic HPs Hne Hfirst HF p Hp. unfold fd_find_leading_strings.
  destruct Ps as [|P0 Ps0] eqn:EPs; [contradiction|]. rewrite <- EPs in *.
  destruct (ic || match firsts with [] => true | _ :: _ => false end) eqn:Eslow.
  - apply fd_leading_strings_slow_ok; try assumption; try lia; try (unfold fd_fuel, zlen in *; lia).
  - destruct ic; [discriminate|]. unfold fd_n.
    apply fd_leading_strings_fast_ok; try assumption; try lia; try (unfold fd_fuel, zlen in *; lia).
    apply Hfirst. reflexivity.
Qed.

(* ====================================================================================
   findLiteralAfterLoopLeftToRight
   ==================================================================================== *)
Notation fd_char i := (nth (Z.to_nat i) text 0).

(* the literal published with the loop stands at k (as indexOfLiteralAfterLoop looks for it) *)
Definition fd_lal_literal_at (l : fdlal) (k : Z) : Prop :=
  match lal_string l with
  | _ :: _ => fd_prefix_match (fd_leading_eqc (lal_string_ic l) (lal_string l)) (lal_string l)
                              (skipn (Z.to_nat k) text) = true
  | [] => match lal_chars l with
          | _ :: _ => k < n /\ zmem (fd_char k) (lal_chars l) = true
          | [] => k < n /\ fd_char k = lal_char l
          end
  end.

(* LiteralAfterLoop: a successful attempt at q runs over loop-set runes up to some k where the literal stands *)
Definition fd_lal_fact (l : fdlal) (loop_set : Z) : Prop :=
  forall q, 0 <= q <= n -> fd_succeeds q ->
    exists k, q <= k <= n /\ (forall i, q <= i < k -> set_in loop_set (fd_char i) = true) /\ fd_lal_literal_at l k.

Lemma fd_lal_literal_lt : forall l k, 0 <= k -> fd_lal_literal_at l k -> k < n.
Proof.
  intros l k Hk H. unfold fd_lal_literal_at in H.
  destruct (lal_string l) as [|c str] eqn:Es.
  - destruct (lal_chars l); lia.
  - pose proof (fd_prefix_match_skipn_bound _ (c :: str) k ltac:(discriminate) Hk H) as Hb.
    rewrite fd_zlen_cons in Hb. pose proof (fd_zlen_nonneg str). lia.
Qed.

Lemma fd_index_of_lal_ok : forall l s, 0 <= s <= n ->
  exists r, fd_index_of_literal_after_loop text lower l s = Ok r /\
    ((r = -1 /\ forall k, s <= k <= n -> fd_lal_literal_at l k -> False) \/
     (s <= r < n /\ forall k, s <= k < r -> fd_lal_literal_at l k -> False)).
Proof.
  intros l s Hs. unfold fd_index_of_literal_after_loop, fd_lal_literal_at.
  rewrite (fd_slice_from_ok s Hs). cbn [bind].
  set (sl := skipn (Z.to_nat s) text).
  assert (Hlen : zlen sl = n - s) by (apply fd_zlen_skipn; exact Hs).
  destruct (lal_string l) as [|c0 str0] eqn:Estr.
  - (* a rune or one of a few runes *)
    assert (Hgen : forall test : Z -> bool,
              exists r, (if 0 <=? fd_index_where test sl then Ok (s + fd_index_where test sl) else Ok (-1)) = Ok r /\
                ((r = -1 /\ forall k, s <= k <= n -> (k < n /\ test (fd_char k) = true) -> False) \/
                 (s <= r < n /\ forall k, s <= k < r -> (k < n /\ test (fd_char k) = true) -> False))).
    { intros test. pose proof (fd_index_where_range test sl) as Hr.
      destruct (0 <=? fd_index_where test sl) eqn:E.
      - exists (s + fd_index_where test sl). split; [reflexivity|]. right. split; [lia|].
        intros k Hk [_ Ht]. destruct (fd_index_where_some test sl ltac:(lia)) as [_ Hb].
        specialize (Hb (k - s) ltac:(lia)). unfold sl in Hb. rewrite fd_nth_skipn_Z in Hb by lia.
        replace (s + (k - s)) with k in Hb by lia. congruence.
      - exists (-1). split; [reflexivity|]. left. split; [reflexivity|].
        intros k Hk [Hkn Ht]. pose proof (fd_index_where_none test sl ltac:(lia) (k - s) ltac:(lia)) as Hb.
        unfold sl in Hb. rewrite fd_nth_skipn_Z in Hb by lia.
        replace (s + (k - s)) with k in Hb by lia. congruence. }
    destruct (lal_chars l) as [|c1 cs] eqn:Ecs.
    + unfold fd_index_of_any1. destruct (Hgen (fun c => c =? lal_char l)) as (r & Hr & Hcases).
      exists r. split; [exact Hr|]. destruct Hcases as [[H1 H2]|[H1 H2]]; [left|right]; (split; [exact H1|]);
        intros k Hk [Hkn He]; apply (H2 k Hk); (split; [exact Hkn | lia]).
    + unfold fd_index_of_any. destruct (Hgen (fun c => zmem c (c1 :: cs))) as (r & Hr & Hcases).
      exists r. split; [exact Hr|]. exact Hcases.
  - (* a string *)
    rewrite <- Estr. assert (Hne : lal_string l <> []) by (rewrite Estr; discriminate).
    rewrite (fd_leading_index (lal_string_ic l) (lal_string l) sl Hne). cbn [bind].
    set (eqc := fd_leading_eqc (lal_string_ic l) (lal_string l)).
    pose proof (fd_index_of_gen_range eqc (lal_string l) sl) as Hr.
    destruct (0 <=? fd_index_of_gen eqc (lal_string l) sl) eqn:E.
    + exists (s + fd_index_of_gen eqc (lal_string l) sl). split; [reflexivity|]. right. split; [lia|].
      intros k Hk Hm. destruct (fd_index_of_gen_some eqc (lal_string l) sl ltac:(lia)) as [_ Hb].
      specialize (Hb (k - s) ltac:(lia)). unfold sl in Hb. rewrite fd_skipn_skipn_Z in Hb by lia.
      replace (s + (k - s)) with k in Hb by lia. congruence.
    + exists (-1). split; [reflexivity|]. left. split; [reflexivity|].
      intros k Hk Hm.
      pose proof (fd_prefix_match_skipn_bound _ (lal_string l) k Hne ltac:(lia) Hm) as Hbd.
      assert (0 < zlen (lal_string l)) by (rewrite Estr, fd_zlen_cons; pose proof (fd_zlen_nonneg str0); lia).
      pose proof (fd_index_of_gen_none eqc (lal_string l) sl ltac:(lia) (k - s) ltac:(lia)) as Hb.
      unfold sl in Hb. rewrite fd_skipn_skipn_Z in Hb by lia.
      replace (s + (k - s)) with k in Hb by lia. congruence.
Qed.

Lemma fd_walk_back_spec : forall (f : Z -> bool) low k start, low <= start -> (Z.to_nat (start - low) <= k)%nat ->
  let w := fd_walk_back text k f low start in
  low <= w <= start /\ (forall i, w <= i < start -> f (fd_char i) = true) /\ (w = low \/ f (fd_char (w - 1)) = false).
Proof.
  intros f low. induction k as [|k IH]; intros start Hls Hk; cbn [fd_walk_back].
  - assert (start = low) by lia. subst. cbv zeta. split; [lia|]. split; [intros i Hi; lia | left; reflexivity].
  - destruct ((low <? start) && f (fd_char (start - 1))) eqn:E.
    + apply andb_prop in E. destruct E as [E1 E2].
      destruct (IH (start - 1) ltac:(lia) ltac:(lia)) as (H1 & H2 & H3). cbv zeta in *.
      split; [lia|]. split; [|exact H3].
      intros i Hi. assert (Hc : i < start - 1 \/ i = start - 1) by lia.
      destruct Hc as [Hc|Hc]; [apply H2; lia | subst i; exact E2].
    + cbv zeta. split; [lia|]. split; [intros i Hi; lia|].
      apply andb_false_iff in E. destruct E as [E|E]; [left; lia | right; exact E].
Qed.

Lemma fd_lal_loop_ok : forall l ls, fd_lal_fact l ls ->
  forall fuel p s, 0 <= p <= s -> p <= n -> (Z.to_nat (n - s) < fuel)%nat ->
  (s = p \/ forall q, p <= q <= n -> fd_succeeds q -> False) ->
  fd_ok_at p (fd_lal_loop text set_in lower minreq fuel p l ls s).
Proof.
  intros l ls HF. induction fuel as [|f IH]; intros p s Hp Hpn Hfuel Hinv; [lia|].
  cbn [fd_lal_loop]. unfold fd_far, fd_n.
  (* every successful q >= p has its literal at some k >= q, with loop-set runes in between *)
  destruct (negb (s <? n)) eqn:Es.
  { apply fd_ok_far; [lia|]. intros x Hx Hsx. destruct Hinv as [->|Hinv]; [|exact (Hinv x Hx Hsx)].
    destruct (HF x ltac:(lia) Hsx) as (k & Hk & _ & Hlit). pose proof (fd_lal_literal_lt l k ltac:(lia) Hlit). lia. }
  destruct (fd_index_of_lal_ok l s ltac:(lia)) as (r & Hr & Hcases). rewrite Hr. cbn [bind].
  destruct Hcases as [[-> Hnone]|[Hrr Hbefore]].
  { cbn. apply fd_ok_far; [lia|]. intros x Hx Hsx. destruct Hinv as [->|Hinv]; [|exact (Hinv x Hx Hsx)].
    destruct (HF x ltac:(lia) Hsx) as (k & Hk & _ & Hlit). exact (Hnone k ltac:(lia) Hlit). }
  destruct (r <? 0) eqn:Er; [lia|]. cbv zeta.
  destruct (fd_walk_back_spec (set_in ls) p (Z.to_nat (r - p)) r ltac:(lia) ltac:(lia)) as (Hw1 & Hw2 & Hw3).
  cbv zeta in Hw1, Hw2, Hw3.
  set (start := fd_walk_back text (Z.to_nat (r - p)) (set_in ls) p r) in *.
  assert (Hskip : forall x, p <= x -> x < start -> fd_succeeds x -> False).
  { intros x Hx1 Hx2 Hsx. destruct Hinv as [->|Hinv]; [|exact (Hinv x ltac:(lia) Hsx)].
    destruct (HF x ltac:(lia) Hsx) as (k & Hk & Hrun & Hlit).
    assert (Hkr : r <= k).
    { assert (Hc : k < r \/ r <= k) by lia. destruct Hc as [Hc|Hc]; [|exact Hc].
      exfalso. exact (Hbefore k ltac:(lia) Hlit). }
    destruct Hw3 as [Hw3|Hw3]; [lia|].
    rewrite Hrun in Hw3 by lia. discriminate. }
  destruct (fd_has_required_length_at text minreq start) eqn:Ereq.
  { apply fd_ok_found; [lia | exact Hskip]. }
  apply IH; try lia. right.
  intros q Hq Hsq.
  assert (Hc : q < start \/ start <= q) by lia. destruct Hc as [Hc|Hc]; [exact (Hskip q ltac:(lia) Hc Hsq)|].
  pose proof (fd_minlen_latest minreq q Hmin ltac:(lia) Hsq). rewrite fd_has_req_unfold in Ereq. lia.
Qed.

Theorem fd_literal_after_loop_sound : forall l ls, lal_loop_set l = Some ls -> fd_lal_fact l ls ->
  fd_sound (fun p => fd_find_literal_after_loop text set_in lower minreq p (Some l)).
Proof.
  intros l ls Hls HF p Hp. unfold fd_find_literal_after_loop. rewrite Hls.
  apply fd_lal_loop_ok; try assumption; try lia; try (unfold fd_fuel, zlen in *; lia).
Qed.

(* ====================================================================================
   findRequiredLandmarkChainLeftToRight (as repaired by 573b074, 563c473, 5218d84)
   ==================================================================================== *)

(* effective upper bound of a set alternative (runner.go:1850-1853) *)
Definition fd_alt_emax (a : fdalt) : Z := if la_max a <=? 0 then la_min a else la_max a.

(* alternative a stands at c with its core ending at e: required whitespace just before, the literal or
   between MinRepeat and MaxRepeat set runes, required whitespace just after *)
Definition fd_alt_match_at (a : fdalt) (c e : Z) : Prop :=
  (la_req_before a = true ->
     0 < c /\ exists ws, la_lead_ws a = Some ws /\ set_in ws (fd_char (c - 1)) = true) /\
  ((la_literal a <> [] /\ e = c + zlen (la_literal a) /\
    fd_prefix_match fd_eq_exact (la_literal a) (skipn (Z.to_nat c) text) = true)
   \/ (la_literal a = [] /\ exists sid, la_set a = Some sid /\ 0 < la_min a /\
       la_min a <= e - c <= fd_alt_emax a /\ e <= n /\
       forall i, c <= i < e -> set_in sid (fd_char i) = true)) /\
  (la_req_after a = true ->
     e < n /\ exists ws, la_trail_ws a = Some ws /\ set_in ws (fd_char e) = true).

(* the remaining landmarks stand, in order, at or after [from] *)
Fixpoint fd_chain_rest (lms : list (list fdalt)) (from : Z) : Prop :=
  match lms with
  | [] => True
  | alts :: rest => exists a c e, In a alts /\ from <= c /\ 0 <= c /\ fd_alt_match_at a c e /\ fd_chain_rest rest e
  end.

(* RequiredLandmarkChain: a successful attempt at q runs over loop-set runes up to s, then over leading
   whitespace of an alternative a of the first landmark up to c, where a stands; the other landmarks follow *)
Definition fd_chain_fact (loop_set : Z) (first_alts : list fdalt) (rest : list (list fdalt)) : Prop :=
  forall q, 0 <= q <= n -> fd_succeeds q ->
    exists a s c e, In a first_alts /\ q <= s <= c /\
      (forall i, q <= i < s -> set_in loop_set (fd_char i) = true) /\
      (forall i, s <= i < c -> fd_opt_set_in set_in (la_lead_ws a) (fd_char i) = true) /\
      fd_alt_match_at a c e /\ fd_chain_rest rest e.

(* published data: repeat counts are not negative *)
Definition fd_alts_wf (alts : list fdalt) : Prop := forall a, In a alts -> 0 <= la_min a.

Lemma fd_alt_match_lt : forall a c e, 0 <= c -> fd_alt_match_at a c e -> c < e <= n.
Proof.
  intros a c e Hc (_ & Hcore & _). destruct Hcore as [(Hl & -> & Hm)|(Hl & sid & _ & Hmn & Hb & Hen & _)].
  - pose proof (fd_prefix_match_skipn_bound _ _ c Hl Hc Hm).
    assert (0 < zlen (la_literal a)).
    { destruct (la_literal a); [contradiction|]. rewrite fd_zlen_cons. pose proof (fd_zlen_nonneg l). lia. }
    lia.
  - lia.
Qed.

Lemma fd_run_fwd_spec : forall (f : Z -> bool) start end_at maxrep k e0,
  start <= e0 -> (Z.to_nat (end_at - e0) <= k)%nat ->
  let r := fd_run_fwd text k f start end_at maxrep e0 in
  e0 <= r /\ (forall i, e0 <= i < r -> f (fd_char i) = true) /\
  (end_at <= r \/ maxrep <= r - start \/ f (fd_char r) = false).
Proof.
  intros f start end_at maxrep. induction k as [|k IH]; intros e0 Hs Hk; cbn [fd_run_fwd]; cbv zeta.
  - split; [lia|]. split; [intros i Hi; lia | left; lia].
  - destruct ((e0 <? end_at) && (e0 - start <? maxrep) && f (fd_char e0)) eqn:E.
    + apply andb_prop in E. destruct E as [E E3]. apply andb_prop in E. destruct E as [E1 E2].
      destruct (IH (e0 + 1) ltac:(lia) ltac:(lia)) as (H1 & H2 & H3). cbv zeta in H1, H2, H3.
      split; [lia|]. split; [|exact H3].
      intros i Hi. assert (Hc : i = e0 \/ e0 + 1 <= i) by lia. destruct Hc as [->|Hc]; [exact E3 | apply H2; lia].
    + split; [lia|]. split; [intros i Hi; lia|].
      apply andb_false_iff in E. destruct E as [E|E]; [|right; right; exact E].
      apply andb_false_iff in E. destruct E as [E|E]; [left; lia | right; left; lia].
Qed.

Lemma fd_ws_after_true : forall (f : Z -> bool) e_max end_at k e0,
  (Z.to_nat (e_max - e0 + 1) <= k)%nat ->
  (exists x, e0 <= x <= e_max /\ x < end_at /\ f (fd_char x) = true) ->
  fd_ws_after text k f e_max end_at e0 = true.
Proof.
  intros f e_max end_at. induction k as [|k IH]; intros e0 Hk (x & Hx1 & Hx2 & Hx3); cbn [fd_ws_after]; [lia|].
  destruct ((e0 <=? e_max) && (e0 <? end_at)) eqn:E; [|lia].
  destruct (f (fd_char e0)) eqn:Ef; [reflexivity|].
  apply IH; [lia|]. exists x. assert (x <> e0) by (intros ->; congruence). split; [lia|]. split; assumption.
Qed.

(* requiredLandmarkAlternativeMatch never faults inside the text and reports the position it was asked about *)
Lemma fd_alt_before_total : forall a c, 0 <= c <= n -> exists b, fd_alt_before_bad text set_in c a = Ok b.
Proof.
  intros a c Hc. unfold fd_alt_before_bad.
  destruct (la_req_before a); [|eauto]. destruct (c =? 0) eqn:E; [eauto|].
  destruct (la_lead_ws a); [|eauto]. rewrite (fd_rune_at_ok (c - 1)) by lia. cbn [bind]. eauto.
Qed.

Lemma fd_alt_core_total : forall a c, 0 <= c <= n -> exists o, fd_alt_core text set_in c n a = Ok o.
Proof.
  intros a c Hc. unfold fd_alt_core.
  destruct (la_literal a) as [|l0 lit] eqn:El.
  - destruct (la_set a); [|eauto]. destruct (0 <? la_min a); [|eauto]. cbv zeta.
    destruct (_ <? la_min a); eauto.
  - destruct (n <? c + zlen (l0 :: lit)); [eauto|].
    rewrite (fd_slice_from_ok c Hc). cbn [bind].
    rewrite (fd_starts_with_ok _ (l0 :: lit)) by discriminate. cbn [bind].
    destruct (fd_prefix_match _ _ _); eauto.
Qed.

Lemma fd_alt_match_total : forall a c, 0 <= c <= n ->
  exists r, fd_landmark_alt_match text set_in c n a = Ok r /\ forall m, r = Some m -> lm_core_start m = c.
Proof.
  intros a c Hc. unfold fd_landmark_alt_match.
  destruct (fd_alt_before_total a c Hc) as [b ->]. cbn [bind].
  destruct b; [exists None; split; [reflexivity | discriminate]|].
  destruct (fd_alt_core_total a c Hc) as [o ->]. cbn [bind].
  destruct o as [e|]; [|exists None; split; [reflexivity | discriminate]].
  destruct (fd_alt_after_bad text set_in c n e a).
  - exists None. split; [reflexivity | discriminate].
  - cbv zeta. eexists. split; [reflexivity|]. intros m Hm. inversion Hm. reflexivity.
Qed.

(* ... and accepts an alternative that stands there *)
Lemma fd_alt_match_complete : forall a c e, 0 <= c -> fd_alt_match_at a c e ->
  exists m, fd_landmark_alt_match text set_in c n a = Ok (Some m) /\ lm_core_start m = c.
Proof.
  intros a c e Hc Hm. pose proof (fd_alt_match_lt a c e Hc Hm) as Hlt.
  destruct Hm as (Hbef & Hcore & Haft). unfold fd_landmark_alt_match.
  (* whitespace before *)
  assert (Hb : fd_alt_before_bad text set_in c a = Ok false).
  { unfold fd_alt_before_bad.
    destruct (la_req_before a); [|reflexivity]. destruct (Hbef eq_refl) as (H0 & ws & Hws & Hin).
    destruct (c =? 0) eqn:E; [lia|]. rewrite Hws. rewrite (fd_rune_at_ok (c - 1)) by lia. cbn [bind].
    rewrite Hin. reflexivity. }
  rewrite Hb. cbn [bind].
  (* the core, and the whitespace after it *)
  assert (Hc2 : exists r, fd_alt_core text set_in c n a = Ok (Some r) /\ fd_alt_after_bad text set_in c n r a = false).
  { unfold fd_alt_core, fd_alt_after_bad.
    destruct Hcore as [(Hl & He & Hpm)|(Hl & sid & Hsid & Hmn & Hb2 & Hen & Hall)].
    - (* literal *)
      destruct (la_literal a) as [|l0 lit] eqn:El; [contradiction|].
      destruct (n <? c + zlen (l0 :: lit)) eqn:E1; [lia|].
      rewrite (fd_slice_from_ok c ltac:(lia)). cbn [bind].
      rewrite (fd_starts_with_ok _ (l0 :: lit)) by discriminate. cbn [bind]. rewrite Hpm.
      eexists. split; [reflexivity|]. cbv zeta.
      destruct (la_req_after a); [|reflexivity]. destruct (Haft eq_refl) as (H0 & ws & Hws & Hin). rewrite Hws.
      rewrite fd_ws_after_true; [reflexivity | lia|]. exists e. subst e. repeat split; try lia; try exact Hin.
    - (* set *)
      rewrite Hl, Hsid. destruct (0 <? la_min a) eqn:E0; [|lia]. cbv zeta.
      fold (fd_alt_emax a).
      destruct (fd_run_fwd_spec (set_in sid) c n (fd_alt_emax a) (Z.to_nat (n - c)) c ltac:(lia) ltac:(lia)) as (R1 & R2 & R3).
      cbv zeta in R1, R2, R3. set (r := fd_run_fwd text (Z.to_nat (n - c)) (set_in sid) c n (fd_alt_emax a) c) in *.
      assert (Her : e <= r).
      { assert (Hc2 : e <= r \/ r < e) by lia. destruct Hc2 as [Hc2|Hc2]; [exact Hc2|].
        destruct R3 as [R3|[R3|R3]]; [lia | lia |]. rewrite Hall in R3 by lia. discriminate. }
      destruct (r - c <? la_min a) eqn:E1; [lia|].
      eexists. split; [reflexivity|].
      destruct (la_req_after a); [|reflexivity]. destruct (Haft eq_refl) as (H0 & ws & Hws & Hin). rewrite Hws.
      rewrite fd_ws_after_true; [reflexivity | lia|]. exists e. repeat split; try lia; try exact Hin. }
  destruct Hc2 as (r & Hr1 & Hr2). rewrite Hr1. cbn [bind]. rewrite Hr2. cbv zeta.
  eexists. split; reflexivity.
Qed.

Lemma fd_first_alt_total : forall alts i, 0 <= i <= n ->
  exists r, fd_first_alt_at text set_in i n alts = Ok r /\ forall m, r = Some m -> lm_core_start m = i.
Proof.
  induction alts as [|a alts IH]; intros i Hi; cbn [fd_first_alt_at].
  - exists None. split; [reflexivity | discriminate].
  - destruct (fd_alt_match_total a i Hi) as (r & Hr & Hcs). rewrite Hr. cbn [bind].
    destruct r as [m|]; [exists (Some m); split; [reflexivity | exact Hcs] | apply IH; exact Hi].
Qed.

Lemma fd_first_alt_complete : forall alts a i e, 0 <= i -> In a alts -> fd_alt_match_at a i e ->
  exists m, fd_first_alt_at text set_in i n alts = Ok (Some m) /\ lm_core_start m = i.
Proof.
  induction alts as [|a0 alts IH]; intros a i e Hi Hin Hm; [destruct Hin|].
  pose proof (fd_alt_match_lt a i e Hi Hm) as Hlt.
  cbn [fd_first_alt_at]. destruct (fd_alt_match_total a0 i ltac:(lia)) as (r & Hr & Hcs). rewrite Hr. cbn [bind].
  destruct r as [m|]; [exists m; split; [reflexivity | apply Hcs; reflexivity]|].
  destruct Hin as [->|Hin]; [|exact (IH a i e Hi Hin Hm)].
  destruct (fd_alt_match_complete a i e Hi Hm) as (m & Hm' & _). congruence.
Qed.

(* findNextRequiredLandmarkRunes: total; a result lies in [i, n); a landmark standing at c >= i is found at or before c *)
Lemma fd_find_next_total : forall alts k i, 0 <= i ->
  exists r, fd_find_next_landmark text set_in k i n alts = Ok r /\
            forall m, r = Some m -> i <= lm_core_start m < n.
Proof.
  intros alts. induction k as [|k IH]; intros i Hi; cbn [fd_find_next_landmark].
  - exists None. split; [reflexivity | discriminate].
  - destruct (negb (i <? n)) eqn:E; [exists None; split; [reflexivity | discriminate]|].
    destruct (fd_first_alt_total alts i ltac:(lia)) as (r & Hr & Hcs). rewrite Hr. cbn [bind].
    destruct r as [m|].
    + exists (Some m). split; [reflexivity|]. intros m' Hm'. inversion Hm'; subst m'. rewrite (Hcs m eq_refl). lia.
    + destruct (IH (i + 1) ltac:(lia)) as (r & Hr' & Hb). exists r. split; [exact Hr'|].
      intros m Hm. specialize (Hb m Hm). lia.
Qed.

Lemma fd_find_next_complete : forall alts a c e, In a alts -> 0 <= c -> fd_alt_match_at a c e ->
  forall k i, 0 <= i <= c -> (Z.to_nat (n - i) <= k)%nat ->
  exists m, fd_find_next_landmark text set_in k i n alts = Ok (Some m) /\ i <= lm_core_start m <= c.
Proof.
  intros alts a c e Hin Hc Hm. pose proof (fd_alt_match_lt a c e Hc Hm) as Hlt.
  induction k as [|k IH]; intros i Hi Hk; [lia|]. cbn [fd_find_next_landmark].
  destruct (negb (i <? n)) eqn:E; [lia|].
  destruct (fd_first_alt_total alts i ltac:(lia)) as (r & Hr & Hcs). rewrite Hr. cbn [bind].
  destruct r as [m|].
  - exists m. split; [reflexivity|]. rewrite (Hcs m eq_refl). lia.
  - assert (Hc2 : i = c \/ i < c) by lia. destruct Hc2 as [->|Hc2].
    + destruct (fd_first_alt_complete alts a c e Hc Hin Hm) as (m & Hm' & _). congruence.
    + destruct (IH (i + 1) ltac:(lia) ltac:(lia)) as (m & Hm' & Hb). exists m. split; [exact Hm' | lia].
Qed.

(* requiredLandmarkMinWidth is at most the width of any alternative that stands somewhere *)
Lemma fd_min_width_acc_le : forall alts width, fd_alts_wf alts -> -1 <= width ->
  let R := fd_min_width_acc alts width in
  -1 <= R /\ (0 <= width -> 0 <= R <= width) /\
  (forall a, In a alts -> 0 <= R <= (match la_literal a with [] => la_min a | _ => zlen (la_literal a) end)).
Proof.
  induction alts as [|a0 alts IH]; intros width Hwf Hw; cbn [fd_min_width_acc]; cbv zeta.
  - split; [lia|]. split; [lia | intros a []].
  - set (w := match la_literal a0 with [] => la_min a0 | _ :: _ => zlen (la_literal a0) end).
    assert (Hw0 : 0 <= w).
    { unfold w. destruct (la_literal a0) eqn:El; [apply Hwf; left; reflexivity | apply fd_zlen_nonneg]. }
    assert (Hwf' : fd_alts_wf alts) by (intros a Ha; apply Hwf; right; exact Ha).
    set (nw := if (width <? 0) || (w <? width) then w else width).
    assert (Hnw : 0 <= nw <= w /\ (0 <= width -> nw <= width)) by (unfold nw; destruct ((width <? 0) || (w <? width)) eqn:E; lia).
    destruct (IH nw Hwf' ltac:(lia)) as (I1 & I2 & I3). cbv zeta in I1, I2, I3.
    split; [lia|]. split; [intros H0; specialize (I2 ltac:(lia)); lia|].
    intros a [<-|Ha]; [specialize (I2 ltac:(lia)); fold w; lia | exact (I3 a Ha)].
Qed.

Lemma fd_min_width_le : forall alts a c e, fd_alts_wf alts -> In a alts -> 0 <= c -> fd_alt_match_at a c e ->
  0 <= fd_landmark_min_width alts <= e - c.
Proof.
  intros alts a c e Hwf Hin Hc Hm. unfold fd_landmark_min_width. cbv zeta.
  destruct (fd_min_width_acc_le alts (-1) Hwf ltac:(lia)) as (_ & _ & H3). cbv zeta in H3. specialize (H3 a Hin).
  destruct (fd_min_width_acc alts (-1) <? 0) eqn:E; [lia|].
  destruct Hm as (_ & Hcore & _). destruct Hcore as [(Hl & -> & _)|(Hl & sid & _ & _ & Hb & _)].
  - destruct (la_literal a); [contradiction | lia].
  - rewrite Hl in H3. lia.
Qed.

Fixpoint fd_chain_wf (lms : list (list fdalt)) : Prop :=
  match lms with [] => True | alts :: rest => fd_alts_wf alts /\ fd_chain_wf rest end.

Lemma fd_rest_landmarks_total : forall rest ns, 0 <= ns -> exists b, fd_rest_landmarks text set_in ns rest = Ok b.
Proof.
  induction rest as [|alts rest IH]; intros ns Hns; cbn [fd_rest_landmarks]; [eauto|].
  unfold fd_next_landmark, fd_n.
  destruct (fd_find_next_total alts (Z.to_nat (n - ns)) ns Hns) as (r & Hr & Hb). rewrite Hr. cbn [bind].
  destruct r as [m|]; [|eauto]. specialize (Hb m eq_refl).
  apply IH. unfold fd_landmark_min_width. cbv zeta. destruct (_ <? 0) eqn:E; lia.
Qed.

Lemma fd_rest_landmarks_complete : forall rest from ns, fd_chain_wf rest -> fd_chain_rest rest from ->
  0 <= ns <= from -> fd_rest_landmarks text set_in ns rest = Ok true.
Proof.
  induction rest as [|alts rest IH]; intros from ns Hwf Hch Hns; cbn [fd_rest_landmarks]; [reflexivity|].
  destruct Hwf as [Hwf1 Hwf2]. destruct Hch as (a & c & e & Hin & Hfc & Hc0 & Hm & Hrest).
  unfold fd_next_landmark, fd_n.
  destruct (fd_find_next_complete alts a c e Hin Hc0 Hm (Z.to_nat (n - ns)) ns ltac:(lia) ltac:(lia)) as (m & Hr & Hb).
  rewrite Hr. cbn [bind].
  pose proof (fd_min_width_le alts a c e Hwf1 Hin Hc0 Hm).
  apply (IH e); [exact Hwf2 | exact Hrest | lia].
Qed.

Lemma fd_chain_loop_ok : forall ls first_alts rest, fd_alts_wf first_alts -> fd_chain_wf rest ->
  fd_chain_fact ls first_alts rest ->
  forall fuel p s, 0 <= p <= s -> p <= n -> (Z.to_nat (n + 1 - s) < fuel)%nat ->
  (s = p \/ forall q, p <= q <= n -> fd_succeeds q -> False) ->
  fd_ok_at p (fd_chain_loop text set_in minreq fuel p ls first_alts rest s).
Proof.
  intros ls first_alts rest Hwf1 Hwf2 HF. induction fuel as [|f IH]; intros p s Hp Hpn Hfuel Hinv; [lia|].
  cbn [fd_chain_loop]. unfold fd_far, fd_n.
  pose proof (fd_latest_le_n minreq) as Hlat.
  destruct (negb (s <=? fd_latest_possible_start text minreq)) eqn:Es.
  { apply fd_ok_far; [lia|]. intros x Hx Hsx. destruct Hinv as [->|Hinv]; [|exact (Hinv x Hx Hsx)].
    pose proof (fd_minlen_latest minreq x Hmin ltac:(lia) Hsx). lia. }
  unfold fd_next_landmark at 1. unfold fd_n.
  destruct (fd_find_next_total first_alts (Z.to_nat (n - s)) s ltac:(lia)) as (r & Hr & Hb). rewrite Hr. cbn [bind].
  destruct r as [first|].
  2:{ apply fd_ok_far; [lia|]. intros x Hx Hsx. destruct Hinv as [->|Hinv]; [|exact (Hinv x Hx Hsx)].
      destruct (HF x ltac:(lia) Hsx) as (a & s1 & c & e & Hin & Hsc & _ & _ & Hm & _).
      destruct (fd_find_next_complete first_alts a c e Hin ltac:(lia) Hm (Z.to_nat (n - p)) p ltac:(lia) ltac:(lia))
        as (m & Hm' & _). congruence. }
  specialize (Hb first eq_refl). set (F := lm_core_start first) in *.
  pose proof (fd_min_width_acc_le first_alts (-1) Hwf1 ltac:(lia)) as (_ & _ & Hmw).
  assert (Hmw0 : 0 <= fd_landmark_min_width first_alts)
    by (unfold fd_landmark_min_width; cbv zeta; destruct (_ <? 0) eqn:E; lia).
  destruct (fd_rest_landmarks_total rest (F + fd_landmark_min_width first_alts) ltac:(lia)) as (b & Hrest).
  rewrite Hrest. cbn [bind].
  (* what a successful attempt from p on looks like while s = p *)
  assert (Hwit : s = p -> forall x, p <= x <= n -> fd_succeeds x ->
            exists a s1 c, In a first_alts /\ x <= s1 <= c /\ F <= c /\
              (forall i, x <= i < s1 -> set_in ls (fd_char i) = true) /\
              (forall i, s1 <= i < c -> fd_landmark_leading_ws set_in first_alts (fd_char i) = true) /\
              fd_rest_landmarks text set_in (F + fd_landmark_min_width first_alts) rest = Ok true).
  { intros -> x Hx Hsx.
    destruct (HF x ltac:(lia) Hsx) as (a & s1 & c & e & Hin & Hsc & Hloop & Hws & Hm & Hch).
    exists a, s1, c. split; [exact Hin|]. split; [exact Hsc|].
    destruct (fd_find_next_complete first_alts a c e Hin ltac:(lia) Hm (Z.to_nat (n - p)) p ltac:(lia) ltac:(lia))
      as (m & Hm' & Hmb).
    assert (m = first) by congruence. subst m. fold F in Hmb.
    split; [lia|]. split; [exact Hloop|]. split.
    - intros i Hi. unfold fd_landmark_leading_ws. apply existsb_exists. exists a. split; [exact Hin | apply Hws; exact Hi].
    - pose proof (fd_min_width_le first_alts a c e Hwf1 Hin ltac:(lia) Hm).
      apply (fd_rest_landmarks_complete rest e); [exact Hwf2 | exact Hch | lia]. }
  destruct (negb b) eqn:Eb.
  { apply fd_ok_far; [lia|]. intros x Hx Hsx. destruct Hinv as [Hsp|Hinv]; [|exact (Hinv x Hx Hsx)].
    destruct (Hwit Hsp x Hx Hsx) as (a & s1 & c & _ & _ & _ & _ & _ & Hall). destruct b; [discriminate | congruence]. }
  cbv zeta.
  destruct (F <? p) eqn:EFp; [lia|].
  destruct (fd_walk_back_spec (fd_landmark_leading_ws set_in first_alts) p (Z.to_nat (F - p)) F ltac:(lia) ltac:(lia))
    as (W1 & W2 & W3). cbv zeta in W1, W2, W3.
  set (w1 := fd_walk_back text (Z.to_nat (F - p)) (fd_landmark_leading_ws set_in first_alts) p F) in *.
  destruct (fd_walk_back_spec (set_in ls) p (Z.to_nat (w1 - p)) w1 ltac:(lia) ltac:(lia)) as (V1 & V2 & V3).
  cbv zeta in V1, V2, V3.
  set (cand := fd_walk_back text (Z.to_nat (w1 - p)) (set_in ls) p w1) in *.
  assert (Hskip : forall x, p <= x -> x < cand -> fd_succeeds x -> False).
  { intros x Hx1 Hx2 Hsx. destruct Hinv as [Hsp|Hinv]; [|exact (Hinv x ltac:(lia) Hsx)].
    destruct (Hwit Hsp x ltac:(lia) Hsx) as (a & s1 & c & _ & Hsc & HFc & Hloop & Hws & _).
    destruct V3 as [V3|V3]; [lia|].
    (* cand - 1 is not a loop-set rune, so it lies in the whitespace span [s1, c) *)
    assert (Hs1 : s1 <= cand - 1).
    { assert (Hc2 : s1 <= cand - 1 \/ cand - 1 < s1) by lia. destruct Hc2 as [Hc2|Hc2]; [exact Hc2|].
      rewrite Hloop in V3 by lia. discriminate. }
    destruct W3 as [W3|W3]; [lia|].
    rewrite Hws in W3 by lia. discriminate. }
  destruct (fd_has_required_length_at text minreq cand) eqn:Ereq.
  { apply fd_ok_found; [lia | exact Hskip]. }
  apply IH; try lia. right.
  intros q Hq Hsq.
  assert (Hc : q < cand \/ cand <= q) by lia. destruct Hc as [Hc|Hc]; [exact (Hskip q ltac:(lia) Hc Hsq)|].
  pose proof (fd_minlen_latest minreq q Hmin ltac:(lia) Hsq). rewrite fd_has_req_unfold in Ereq. lia.
Qed.

Theorem fd_landmark_chain_sound : forall c ls first_alts rest,
  lc_loop_set c = Some ls -> lc_landmarks c = first_alts :: rest ->
  fd_alts_wf first_alts -> fd_chain_wf rest ->
  fd_chain_fact ls first_alts rest ->
  fd_sound (fun p => fd_find_landmark_chain text set_in minreq p (Some c)).
Proof.
  intros c ls first_alts rest Hls Hlm Hwf1 Hwf2 HF p Hp. unfold fd_find_landmark_chain. rewrite Hls, Hlm.
  apply fd_chain_loop_ok; try assumption; try lia; try (unfold fd_fuel, zlen in *; lia).
Qed.

End FinderSound.

(* ====================================================================================
   findFirstCharOptimized: the dispatch on FindMode
   ==================================================================================== *)
Section Dispatch.
Variable R : Type.
Variable text : list Z.
Variable exec : Z -> option R * Z.
Variable set_in : Z -> Z -> bool.
Variable lower : Z -> Z.

(* the fact (and the side conditions on the published data) that the mode of [o] relies on *)
Definition fd_mode_fact (o : fdopts) : Prop :=
  let m := fo_mode o in
  if m =? FM_TrailingAnchor_FixedLength_LeftToRight_End then
    0 <= fo_minreq o /\ fd_trailing_end_fact R text exec (fo_minreq o)
  else if m =? FM_LeadingString_LeftToRight then
    fd_prefix_fact R text exec (fd_leading_eqc lower false (fo_prefix o)) (fo_prefix o)
  else if m =? FM_LeadingString_OrdinalIgnoreCase_LeftToRight then
    fd_prefix_fact R text exec (fd_leading_eqc lower true (fo_prefix o)) (fo_prefix o)
  else if m =? FM_LeadingStrings_LeftToRight then
    fo_prefixes o <> [] /\ Forall (fun P => P <> []) (fo_prefixes o) /\
    fd_first_runes_ok (fo_prefixes o) (fo_first_runes o) /\
    fd_prefixes_fact R text exec (fd_strings_eqc lower false) (fo_prefixes o)
  else if m =? FM_LeadingStrings_OrdinalIgnoreCase_LeftToRight then
    fo_prefixes o <> [] /\ Forall (fun P => P <> []) (fo_prefixes o) /\
    fd_prefixes_fact R text exec (fd_strings_eqc lower true) (fo_prefixes o)
  else if (m =? FM_LeadingSet_LeftToRight) || (m =? FM_FixedDistanceSets_LeftToRight) then
    exists primary rest id, fo_sets o = primary :: rest /\ fs_set primary = Some id /\
      0 <= fs_distance primary /\ fd_fds_fact R text exec set_in (fo_sets o)
  else if m =? FM_FixedDistanceChar_LeftToRight then
    0 <= fo_fdl_distance o /\ fd_fdchar_fact R text exec (fo_fdl_c o) (fo_fdl_distance o)
  else if m =? FM_FixedDistanceString_LeftToRight then
    0 <= fo_fdl_distance o /\ fd_fdstring_fact R text exec (fo_fdl_s o) (fo_fdl_distance o)
  else if m =? FM_LiteralAfterLoop_LeftToRight then
    exists l ls, fo_lal o = Some l /\ lal_loop_set l = Some ls /\ fd_lal_fact R text exec lower set_in l ls
  else if m =? FM_RequiredLandmarkChain_LeftToRight then
    exists c ls first_alts rest, fo_chain o = Some c /\ lc_loop_set c = Some ls /\
      lc_landmarks c = first_alts :: rest /\ fd_alts_wf first_alts /\ fd_chain_wf rest /\
      fd_chain_fact R text exec set_in ls first_alts rest
  else True.

(* the modes findFirstCharOptimized serves *)
Definition fd_mode_handled (o : fdopts) : bool :=
  let m := fo_mode o in
  (m =? FM_TrailingAnchor_FixedLength_LeftToRight_End) || (m =? FM_LeadingString_LeftToRight)
  || (m =? FM_LeadingString_OrdinalIgnoreCase_LeftToRight) || (m =? FM_LeadingStrings_LeftToRight)
  || (m =? FM_LeadingStrings_OrdinalIgnoreCase_LeftToRight) || (m =? FM_LeadingSet_LeftToRight)
  || (m =? FM_FixedDistanceSets_LeftToRight) || (m =? FM_FixedDistanceChar_LeftToRight)
  || (m =? FM_FixedDistanceString_LeftToRight) || (m =? FM_LiteralAfterLoop_LeftToRight)
  || (m =? FM_RequiredLandmarkChain_LeftToRight).

Lemma fd_should_use_handled : forall o, fd_should_use_optimized o = true -> fd_mode_handled o = true.
Proof.
  intros o H. unfold fd_should_use_optimized, fd_mode_handled in *. cbv zeta in *.
  unfold FM_TrailingAnchor_FixedLength_LeftToRight_End, FM_LeadingString_LeftToRight,
    FM_LeadingString_OrdinalIgnoreCase_LeftToRight, FM_LeadingStrings_LeftToRight,
    FM_LeadingStrings_OrdinalIgnoreCase_LeftToRight, FM_LeadingSet_LeftToRight, FM_FixedDistanceSets_LeftToRight,
    FM_FixedDistanceChar_LeftToRight, FM_FixedDistanceString_LeftToRight, FM_LiteralAfterLoop_LeftToRight,
    FM_RequiredLandmarkChain_LeftToRight in *.
  destruct (_ || _) eqn:E in H; [lia|].
  destruct (fo_mode o =? 16) eqn:E16; [lia | discriminate].
Qed.

(* (found, Runtextpos) of findFirstCharOptimized *)
Definition fd_optimized_finder (o : fdopts) (p : Z) : res (bool * Z) :=
  do r <- fd_find_first_char_optimized text set_in lower o p ; Ok (snd (fst r), snd r).

Lemma fd_sound_ext : forall F G, (forall p, F p = G p) -> fd_sound R text exec F -> fd_sound R text exec G.
Proof. intros F G H HF p Hp. rewrite <- H. apply HF. exact Hp. Qed.

Lemma fd_handled_bind : forall (r : res (bool * Z)),
  (do x <- (do y <- r ; Ok (true, fst y, snd y)) ; Ok (snd (fst x), snd x)) = r.
Proof. intros [[f q]| | |]; reflexivity. Qed.

Theorem fd_optimized_sound : forall o,
  fd_mode_handled o = true -> fd_minlen_fact R text exec (fo_minreq o) -> fd_mode_fact o ->
  fd_sound R text exec (fd_optimized_finder o) /\
  (forall p r, fd_find_first_char_optimized text set_in lower o p = Ok r -> fst (fst r) = true).
Proof.
  intros o Hh Hmin HF. unfold fd_mode_fact, fd_mode_handled in *. cbv zeta in *.
  unfold fd_optimized_finder, fd_find_first_char_optimized. cbv zeta.
  unfold FM_NoSearch, FM_TrailingAnchor_FixedLength_LeftToRight_End, FM_LeadingString_LeftToRight,
    FM_LeadingString_OrdinalIgnoreCase_LeftToRight, FM_LeadingStrings_LeftToRight,
    FM_LeadingStrings_OrdinalIgnoreCase_LeftToRight, FM_LeadingSet_LeftToRight, FM_FixedDistanceSets_LeftToRight,
    FM_FixedDistanceChar_LeftToRight, FM_FixedDistanceString_LeftToRight, FM_LiteralAfterLoop_LeftToRight,
    FM_RequiredLandmarkChain_LeftToRight in *.
  assert (Hhandled : forall (F : Z -> res (bool * Z)), fd_sound R text exec F ->
            fd_sound R text exec (fun p => do r <- (do x <- F p ; Ok (true, fst x, snd x)) ; Ok (snd (fst r), snd r)) /\
            (forall p r, (do x <- F p ; Ok (true, fst x, snd x)) = Ok r -> fst (fst r) = true)).
  { intros F HS. split.
    - apply (fd_sound_ext F); [|exact HS]. intros p. symmetry. apply fd_handled_bind.
    - intros p r H. destruct (F p) as [[f q]| | |]; inversion H. reflexivity. }
  destruct (fo_mode o =? 0) eqn:E0; [lia|].
  destruct (fo_mode o =? 9) eqn:E9.
  { destruct HF as [H0 HF]. apply Hhandled. apply fd_trailing_end_sound; assumption. }
  destruct (fo_mode o =? 11) eqn:E11.
  { apply Hhandled. apply fd_leading_string_sound; assumption. }
  destruct (fo_mode o =? 13) eqn:E13.
  { apply Hhandled. apply fd_leading_string_sound; assumption. }
  destruct (fo_mode o =? 14) eqn:E14.
  { destruct HF as (H1 & H2 & H3 & H4). apply Hhandled. apply fd_leading_strings_sound; try assumption. intros _. exact H3. }
  destruct (fo_mode o =? 15) eqn:E15.
  { destruct HF as (H1 & H2 & H4). apply Hhandled. apply fd_leading_strings_sound; try assumption. discriminate. }
  destruct ((fo_mode o =? 16) || (fo_mode o =? 21)) eqn:E16.
  { destruct HF as (primary & rest & id & H1 & H2 & H3 & H4). apply Hhandled.
    apply (fd_fixed_distance_sets_sound R text exec (fo_minreq o) Hmin set_in (fo_sets o) primary rest id); assumption. }
  destruct (fo_mode o =? 19) eqn:E19.
  { destruct HF as [H0 HF]. apply Hhandled. apply fd_fixed_distance_char_sound; assumption. }
  destruct (fo_mode o =? 20) eqn:E20.
  { destruct HF as [H0 HF]. apply Hhandled. apply fd_fixed_distance_string_sound; assumption. }
  destruct (fo_mode o =? 22) eqn:E22.
  { destruct HF as (l & ls & H1 & H2 & H3). rewrite H1. apply Hhandled.
    apply (fd_literal_after_loop_sound R text exec lower (fo_minreq o) Hmin set_in l ls); assumption. }
  destruct (fo_mode o =? 23) eqn:E23.
  { destruct HF as (c & ls & fa & rest & H1 & H2 & H3 & H4 & H5 & H6). rewrite H1. apply Hhandled.
    apply (fd_landmark_chain_sound R text exec (fo_minreq o) Hmin set_in c ls fa rest); assumption. }
  lia.
Qed.

End Dispatch.

(* ====================================================================================
   the first-character loop of findFirstCharDefault (both directions) and the whole default finder
   ==================================================================================== *)
Section DefaultFinder.
Variable R : Type.
Variable text : list Z.
Variable exec : Z -> option R * Z.
Variable set_in : Z -> Z -> bool.
Variable lower : Z -> Z.
Variable rtl : bool.

Local Notation n := (zlen text).
Local Notation fd_char i := (nth (Z.to_nat i) text 0).

(* FcPrefix: a successful attempt has a next rune (in scan direction) that passes the test *)
Definition fd_fc_fact (test : Z -> bool) : Prop :=
  forall q, 0 <= q <= n -> fd_succeeds R exec q ->
    if rtl then 0 < q /\ test (fd_char (q - 1)) = true else q < n /\ test (fd_char q) = true.

Definition fd_fc_test (fc : fdfc) : Z -> bool :=
  match fc_singleton fc with Some ch => fun c => ch =? c | None => set_in (fc_set fc) end.

Lemma fd_fc_loop_spec : forall test i pos,
  (if rtl then pos = Z.of_nat i else pos + Z.of_nat i = n) -> 0 <= pos <= n ->
  exists found q, fd_fc_loop text rtl i test pos = Ok (found, q) /\
    (if rtl then 0 <= q <= pos /\ (forall x, q < x <= pos -> test (fd_char (x - 1)) = false) /\ (found = false -> q = 0)
     else pos <= q <= n /\ (forall x, pos <= x < q -> test (fd_char x) = false) /\ (found = false -> q = n)).
Proof.
  intros test. induction i as [|i IH]; intros pos Hi Hpos; cbn [fd_fc_loop].
  - exists false, pos. split; [reflexivity|]. destruct rtl; (split; [lia|]); (split; [intros x Hx; lia | intros _; lia]).
  - destruct rtl eqn:Ertl.
    + rewrite (fd_rune_at_ok text (pos - 1)) by lia. cbn [bind].
      destruct (test (fd_char (pos - 1))) eqn:Et.
      * exists true, pos. split; [reflexivity|]. split; [lia|]. split; [intros x Hx; lia | discriminate].
      * destruct (IH (pos - 1) ltac:(lia) ltac:(lia)) as (found & q & Hr & H1 & H2 & H3).
        exists found, q. split; [exact Hr|]. split; [lia|]. split; [|exact H3].
        intros x Hx. assert (Hc : x = pos \/ x <= pos - 1) by lia. destruct Hc as [->|Hc]; [exact Et | apply H2; lia].
    + rewrite (fd_rune_at_ok text pos) by lia. cbn [bind].
      destruct (test (fd_char pos)) eqn:Et.
      * exists true, pos. split; [reflexivity|]. split; [lia|]. split; [intros x Hx; lia | discriminate].
      * destruct (IH (pos + 1) ltac:(lia) ltac:(lia)) as (found & q & Hr & H1 & H2 & H3).
        exists found, q. split; [exact Hr|]. split; [lia|]. split; [|exact H3].
        intros x Hx. assert (Hc : x = pos \/ pos + 1 <= x) by lia. destruct Hc as [->|Hc]; [exact Et | apply H2; lia].
Qed.

Theorem fd_first_char_loop_H1 : forall fc,
  (forall f, fc = Some f -> fd_fc_fact (fd_fc_test f)) ->
  sc_H1_true R n rtl (fd_total (fd_first_char_loop text set_in rtl fc)) exec /\
  sc_H1_false R n rtl (fd_total (fd_first_char_loop text set_in rtl fc)) exec.
Proof.
  intros fc HF.
  assert (Hspec : forall p, 0 <= p <= n ->
            exists found q, fd_first_char_loop text set_in rtl fc p = Ok (found, q) /\
              sc_ord rtl p q /\ sc_in_text n q /\
              (forall x, sc_ord rtl p x -> sc_before rtl x q -> sc_fails R exec x) /\
              (found = false -> forall x, sc_ord rtl p x -> sc_in_text n x -> sc_fails R exec x)).
  { intros p Hp. unfold fd_first_char_loop. destruct fc as [f|].
    2:{ exists true, p. split; [reflexivity|]. unfold sc_ord, sc_in_text, sc_before.
        split; [destruct rtl; lia|]. split; [lia|]. split; [intros x H1 H2; destruct rtl; lia | discriminate]. }
    specialize (HF f eq_refl). unfold fd_fc_fact in HF. fold (fd_fc_test f). unfold fd_n.
    destruct (fd_fc_loop_spec (fd_fc_test f) (Z.to_nat (if rtl then p else n - p)) p) as (found & q & Hr & Hq);
      [destruct rtl; lia | exact Hp |].
    exists found, q. split; [exact Hr|]. unfold sc_ord, sc_in_text, sc_before.
    destruct rtl.
    - destruct Hq as (H1 & H2 & H3). split; [lia|]. split; [lia|]. split.
      + intros x Hx1 Hx2. apply fd_not_succeeds_fails. intros Hs.
        destruct (HF x ltac:(lia) Hs) as [Ha Hb]. rewrite H2 in Hb by lia. discriminate.
      + intros Hf x Hx1 Hx2. apply fd_not_succeeds_fails. intros Hs.
        destruct (HF x ltac:(lia) Hs) as [Ha Hb]. rewrite H2 in Hb by (specialize (H3 Hf); lia). discriminate.
    - destruct Hq as (H1 & H2 & H3). split; [lia|]. split; [lia|]. split.
      + intros x Hx1 Hx2. apply fd_not_succeeds_fails. intros Hs.
        destruct (HF x ltac:(lia) Hs) as [Ha Hb]. rewrite H2 in Hb by lia. discriminate.
      + intros Hf x Hx1 Hx2. apply fd_not_succeeds_fails. intros Hs.
        destruct (HF x ltac:(lia) Hs) as [Ha Hb]. rewrite H2 in Hb by (specialize (H3 Hf); lia). discriminate. }
  split; intros p q Hp Hfq; unfold sc_in_text in Hp; destruct (Hspec p Hp) as (found & q' & Hr & Ho & Hi & Hskip & Hgive);
    unfold fd_total in Hfq; rewrite Hr in Hfq; inversion Hfq; subst found q'; (split; [exact Ho|split; [exact Hi|]]).
  - exact Hskip.
  - intros x Hx1 Hx2. apply (Hgive eq_refl x Hx1). unfold sc_ord, sc_in_text in *. destruct rtl; lia.
Qed.

(* findFirstCharDefault below the Boyer-Moore branch (runner.go:1432-1465): the optimized finder when
   shouldUseFindFirstCharOptimized says so (left-to-right only), the first-character loop otherwise *)
Theorem fd_ffc_nobm_H1 : forall (o : option fdopts) (fc : option fdfc),
  (forall o', o = Some o' -> fd_should_use_optimized o' = true ->
     rtl = false /\ fd_minlen_fact R text exec (fo_minreq o') /\ fd_mode_fact R text exec set_in lower o') ->
  ((forall o', o = Some o' -> fd_should_use_optimized o' = false) ->
     forall f, fc = Some f -> fd_fc_fact (fd_fc_test f)) ->
  sc_H1_true R n rtl (fd_total (fd_ffc_nobm text set_in lower rtl o fc)) exec /\
  sc_H1_false R n rtl (fd_total (fd_ffc_nobm text set_in lower rtl o fc)) exec.
Proof.
  intros o fc Hopt Hfc.
  assert (Hloop : (forall o', o = Some o' -> fd_should_use_optimized o' = false) ->
            sc_H1_true R n rtl (fd_total (fd_first_char_loop text set_in rtl fc)) exec /\
            sc_H1_false R n rtl (fd_total (fd_first_char_loop text set_in rtl fc)) exec).
  { intros H. apply fd_first_char_loop_H1. exact (Hfc H). }
  destruct o as [o'|].
  2:{ apply Hloop. intros o' H. discriminate. }
  destruct (fd_should_use_optimized o') eqn:Es.
  2:{ assert (Heq : forall p, fd_total (fd_ffc_nobm text set_in lower rtl (Some o') fc) p
                              = fd_total (fd_first_char_loop text set_in rtl fc) p).
      { intros p. unfold fd_total, fd_ffc_nobm. rewrite Es. reflexivity. }
      destruct (Hloop ltac:(intros o2 H2; inversion H2; subst; exact Es)) as [L1 L2].
      split; intros p q Hp Hf; rewrite Heq in Hf; [exact (L1 p q Hp Hf) | exact (L2 p q Hp Hf)]. }
  destruct (Hopt o' eq_refl Es) as (Hrtl & Hmin & Hmf). clear Hfc Hloop Hopt. subst rtl.
  destruct (fd_optimized_sound R text exec set_in lower o' (fd_should_use_handled o' Es) Hmin Hmf) as [Hsound Hh].
  destruct (fd_sound_H1 R text exec _ Hsound) as [S1 S2].
  assert (Heq : forall p, 0 <= p <= n -> fd_total (fd_ffc_nobm text set_in lower false (Some o') fc) p
                          = fd_total (fd_optimized_finder text set_in lower o') p).
  { intros p Hp. unfold fd_total, fd_ffc_nobm, fd_optimized_finder. rewrite Es.
    destruct (Hsound p Hp) as (found & q & Hr & _). unfold fd_optimized_finder in Hr.
    destruct (fd_find_first_char_optimized text set_in lower o' p) as [[[h f] q']| | |] eqn:E; try discriminate.
    pose proof (Hh p _ E) as Hht. cbn in Hht. subst h. cbn [bind fst snd]. reflexivity. }
  split; intros p q Hp Hf; rewrite Heq in Hf by exact Hp; [exact (S1 p q Hp Hf) | exact (S2 p q Hp Hf)].
Qed.

(* all of findFirstCharDefault (runner.go:1386-1466).  The Boyer-Moore machine is NOT modelled:
   [bm] / [bm_scan] are its answers, and what is assumed of them is stated here:
     - IsMatch holds wherever an attempt succeeds (as in C03_default_anchor_jump);
     - Scan from p returns -1 only when no attempt from p on (in scan order) succeeds, and otherwise a
       position at-or-beyond p in the text with no successful attempt before it. *)
Definition fd_bm_scan_fact (scan : Z -> Z) : Prop :=
  forall p, 0 <= p <= n ->
    (scan p = -1 /\ forall x, sc_ord rtl p x -> sc_in_text n x -> sc_fails R exec x) \/
    (scan p <> -1 /\ sc_ord rtl p (scan p) /\ sc_in_text n (scan p) /\
     forall x, sc_ord rtl p x -> sc_before rtl x (scan p) -> sc_fails R exec x).

Theorem fd_default_H1 : forall (anchors ts : Z) (bm : option (Z -> bool)) (bm_scan : option (Z -> Z))
                               (o : option fdopts) (fc : option fdfc),
  let succeeds := fun x => fst (exec x) <> None in
  (abit anchors ANCH_BEGINNING = true -> forall x, sc_in_text n x -> succeeds x -> x = 0) ->
  (abit anchors ANCH_START = true -> forall x, sc_in_text n x -> succeeds x -> x = ts) ->
  (abit anchors ANCH_ENDZ = true -> forall x, sc_in_text n x -> succeeds x ->
     x = n \/ (x = n - 1 /\ nth (Z.to_nat x) text 0 = 10)) ->
  (abit anchors ANCH_END = true -> forall x, sc_in_text n x -> succeeds x -> x = n) ->
  (forall is_match, bm = Some is_match -> forall x, sc_in_text n x -> succeeds x -> is_match x = true) ->
  (forall scan, bm_scan = Some scan -> fd_bm_scan_fact scan) ->
  (bm_scan = None ->
     sc_H1_true R n rtl (fd_total (fd_ffc_nobm text set_in lower rtl o fc)) exec /\
     sc_H1_false R n rtl (fd_total (fd_ffc_nobm text set_in lower rtl o fc)) exec) ->
  sc_H1_true R n rtl (fd_total (fd_find_first_char_default text set_in lower rtl anchors ts bm bm_scan o fc)) exec /\
  sc_H1_false R n rtl (fd_total (fd_find_first_char_default text set_in lower rtl anchors ts bm bm_scan o fc)) exec.
Proof.
  intros anchors ts bm bm_scan o fc succeeds Fbeg Fstart Fendz Fend Fbm Fscan Fnobm.
  set (below := fun p => match bm_scan with
                         | Some scan => let q := scan p in
                                        if q =? -1 then Ok (false, if rtl then 0 else fd_n text) else Ok (true, q)
                         | None => fd_ffc_nobm text set_in lower rtl o fc p
                         end).
  assert (Hbelow : sc_H1_true R n rtl (fd_total below) exec /\ sc_H1_false R n rtl (fd_total below) exec).
  { unfold below. destruct bm_scan as [scan|]; [|exact (Fnobm eq_refl)].
    specialize (Fscan scan eq_refl).
    split; intros p q Hp Hf; unfold sc_in_text in Hp; unfold fd_total in Hf; cbv zeta in Hf;
      destruct (Fscan p Hp) as [[E Hall]|(E & Ho & Hi & Hskip)].
    - rewrite E in Hf. cbn in Hf. discriminate.
    - destruct (scan p =? -1) eqn:E1; [lia|]. inversion Hf; subst q. split; [exact Ho|]. split; [exact Hi | exact Hskip].
    - rewrite E in Hf. cbn [Z.eqb] in Hf. replace (-1 =? -1) with true in Hf by reflexivity.
      inversion Hf; subst q. unfold sc_ord, sc_in_text, fd_n in *.
      split; [destruct rtl; lia|]. split; [destruct rtl; pose proof (fd_zlen_nonneg text); lia|].
      intros x Hx1 Hx2. apply Hall; [exact Hx1 | destruct rtl; lia].
    - destruct (scan p =? -1) eqn:E1; [lia | discriminate]. }
  assert (Heq : forall p, fd_total (fd_find_first_char_default text set_in lower rtl anchors ts bm bm_scan o fc) p
                          = ffc_default text rtl anchors ts bm (fd_total below) p).
  { intros p. unfold fd_total at 1. unfold fd_find_first_char_default, ffc_default.
    destruct (abit anchors (ANCH_BEGINNING + ANCH_START + ANCH_ENDZ + ANCH_END)); [reflexivity|].
    unfold fd_total, below. destruct bm_scan as [scan|]; [|reflexivity].
    cbv zeta. destruct (scan p =? -1); reflexivity. }
  destruct Hbelow as [B1 B2].
  destruct (sc_anchor_H1 R text rtl anchors ts bm (fd_total below) exec Fbeg Fstart Fendz Fend Fbm B1 B2) as [A1 A2].
  split; intros p q Hp Hf; rewrite Heq in Hf; [exact (A1 p q Hp Hf) | exact (A2 p q Hp Hf)].
Qed.

End DefaultFinder.

(* ====================================================================================
   leadingPrefixFirstRunes (optimizations.go:593) covers the first rune of every prefix
   ==================================================================================== *)
Lemma fd_zmem_app : forall c l1 l2, zmem c (l1 ++ l2) = zmem c l1 || zmem c l2.
Proof. intros c l1 l2. unfold zmem. apply existsb_app. Qed.

Lemma fd_first_runes_acc_spec : forall Ps acc,
  (forall c, zmem c acc = true -> zmem c (fd_leading_prefix_first_runes_acc Ps acc) = true) /\
  (forall c rest, In (c :: rest) Ps -> zmem c (fd_leading_prefix_first_runes_acc Ps acc) = true).
Proof.
  induction Ps as [|P Ps IH]; intros acc.
  - split; [intros c H; exact H | intros c rest []].
  - cbn [fd_leading_prefix_first_runes_acc]. destruct P as [|c0 P].
    + destruct (IH acc) as [IH1 IH2]. split; [exact IH1|].
      intros c rest [Heq|Hin]; [discriminate | exact (IH2 c rest Hin)].
    + destruct (zmem c0 acc) eqn:E.
      * destruct (IH acc) as [IH1 IH2]. split; [exact IH1|].
        intros c rest [Heq|Hin]; [inversion Heq; subst; apply IH1; exact E | exact (IH2 c rest Hin)].
      * destruct (IH (acc ++ [c0])) as [IH1 IH2]. split.
        -- intros c H. apply IH1. rewrite fd_zmem_app, H. reflexivity.
        -- intros c rest [Heq|Hin]; [|exact (IH2 c rest Hin)].
           inversion Heq; subst. apply IH1. rewrite fd_zmem_app. cbn. rewrite Z.eqb_refl. apply orb_true_r.
Qed.

Theorem fd_leading_prefix_first_runes_ok : forall Ps,
  forall c rest, In (c :: rest) Ps -> zmem c (fd_leading_prefix_first_runes Ps) = true.
Proof. intros Ps. exact (proj2 (fd_first_runes_acc_spec Ps [])). Qed.

(* ====================================================================================
   a sound finder + the minimum-length fact + (H3): the accelerated scan is the naive scan
   ==================================================================================== *)
Theorem fd_scan_sound : forall (R : Type) (text : list Z) (exec : Z -> option R * Z) (minreq : Z)
                               (F : Z -> res (bool * Z)),
  fd_sound R text exec F ->
  fd_minlen_fact R text exec minreq ->
  sc_H3 R (zlen text) false exec ->
  forall start prevlen, 0 <= start <= zlen text ->
  exists r, scan (zlen text) false minreq (fd_total F) exec start prevlen = Ok r
         /\ naive_scan (zlen text) false exec start prevlen = Ok r.
Proof.
  intros R text exec minreq F HF Hmin H3 start prevlen Hs.
  destruct (fd_sound_H1 R text exec F HF) as [H1t H1f].
  apply sc_scan_finder_sound; try assumption.
  intros x Hx Ha. unfold sc_in_text, sc_ahead in *.
  apply fd_not_succeeds_fails. intros Hsx. specialize (Hmin x Hx Hsx). lia.
Qed.

(* ====================================================================================
   plugging facts in: pointwise forms, and the whole default finder in the scan loop
   ==================================================================================== *)

(* "the text at q starts with P" stated rune by rune *)
Lemma fd_prefix_fact_pointwise : forall (R : Type) (text : list Z) (exec : Z -> option R * Z) eqc P,
  (forall q, 0 <= q <= zlen text -> fd_succeeds R exec q ->
     q + zlen P <= zlen text /\
     forall j, 0 <= j < zlen P -> eqc (nth (Z.to_nat (q + j)) text 0) (nth (Z.to_nat j) P 0) = true) ->
  fd_prefix_fact R text exec eqc P.
Proof.
  intros R text exec eqc P H q Hq Hs. destruct (H q Hq Hs) as [Hlen Hall].
  apply fd_prefix_match_intro.
  - rewrite fd_zlen_skipn by lia. lia.
  - intros j Hj. rewrite fd_nth_skipn_Z by lia. apply Hall. exact Hj.
Qed.

(* the fixed-distance-set fact from plain Set membership, when Chars / Range abbreviate the Set exactly *)
Definition fd_fds_abbrev_ok (set_in : Z -> Z -> bool) (s : fdset) : Prop :=
  exists id, fs_set s = Some id /\ forall c, fd_char_in_fds set_in s c = set_in id c.

Lemma fd_fds_fact_of_sets : forall (R : Type) (text : list Z) (exec : Z -> option R * Z) set_in sets,
  (forall s, In s sets -> fd_fds_abbrev_ok set_in s) ->
  (forall q, 0 <= q <= zlen text -> fd_succeeds R exec q -> forall s id, In s sets -> fs_set s = Some id ->
     0 <= q + fs_distance s < zlen text /\ set_in id (nth (Z.to_nat (q + fs_distance s)) text 0) = true) ->
  fd_fds_fact R text exec set_in sets.
Proof.
  intros R text exec set_in sets Hab H q Hq Hs s Hin.
  destruct (Hab s Hin) as (id & Hid & Heq). destruct (H q Hq Hs s id Hin Hid) as [H1 H2].
  split; [exact H1|]. rewrite Heq. exact H2.
Qed.

(* the whole findFirstCharDefault in the scan loop *)
Theorem fd_default_scan_sound : forall (R : Type) (text : list Z) (exec : Z -> option R * Z)
    (set_in : Z -> Z -> bool) (lower : Z -> Z) (rtl : bool) (anchors ts : Z)
    (bm : option (Z -> bool)) (bm_scan : option (Z -> Z)) (o : option fdopts) (fc : option fdfc) (minreq : Z),
  let n := zlen text in
  let F := fd_total (fd_find_first_char_default text set_in lower rtl anchors ts bm bm_scan o fc) in
  sc_H1_true R n rtl F exec -> sc_H1_false R n rtl F exec ->
  sc_H2 R n rtl minreq exec -> sc_H3 R n rtl exec ->
  forall start prevlen, 0 <= start <= n ->
  exists r, scan n rtl minreq F exec start prevlen = Ok r /\ naive_scan n rtl exec start prevlen = Ok r.
Proof.
  intros R text exec set_in lower rtl anchors ts bm bm_scan o fc minreq n F H1t H1f H2 H3 start prevlen Hs.
  apply sc_scan_finder_sound; assumption.
Qed.
