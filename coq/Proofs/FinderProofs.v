(* C03: the optimized candidate finders of runner.go (Model/Finder.v) satisfy hypothesis (H1) of the
   scan-loop theorem (Proofs/ScanProofs.v), each from the compile-time fact it relies on.

   Vocabulary (Section FinderSound): [exec] is one run of the matcher as in Model/Scan.v,
   [fd_succeeds exec q] = the run at q produces a match.  A FACT is a statement about the positions
   where the matcher succeeds (what the analysis publishes: "the text at q starts with P", "the text
   at q+d is in S", ...); a finder F is SOUND ([fd_sound]) when at every position p of the text it
   answers Ok (found, q) with p <= q <= n, no successful attempt in [p, q), and - when it gives up -
   no successful attempt anywhere in [p, n].  [fd_sound_H1]: a sound finder (made total by
   [fd_total]) satisfies sc_H1_true and sc_H1_false for the left-to-right scan. *)
From Verif Require Import Base.Prelude Model.Scan Model.Finder Proofs.ScanProofs.
From Coq Require Import ZifyBool.

(* ====================================================================================
   lists indexed by Z
   ==================================================================================== *)

Lemma fd_zlen_nonneg : forall {A} (l : list A), 0 <= zlen l.
Proof. intros. unfold zlen. lia. Qed.

Lemma fd_zlen_cons : forall {A} (a : A) l, zlen (a :: l) = zlen l + 1.
Proof. intros. unfold zlen. cbn [length]. lia. Qed.

Lemma fd_nth_cons_pos : forall (c : Z) l i, 0 < i -> nth (Z.to_nat i) (c :: l) 0 = nth (Z.to_nat (i - 1)) l 0.
Proof.
  intros c l i Hi. replace (Z.to_nat i) with (S (Z.to_nat (i - 1))) by lia. reflexivity.
Qed.

Lemma fd_zlen_skipn : forall (l : list Z) s, 0 <= s <= zlen l -> zlen (skipn (Z.to_nat s) l) = zlen l - s.
Proof. intros l s Hs. unfold zlen in *. rewrite skipn_length. lia. Qed.

Lemma fd_nth_skipn : forall (l : list Z) (s i : nat), nth i (skipn s l) 0 = nth (s + i) l 0.
Proof.
  intros l s. revert l. induction s as [|s IH]; intros l i; [reflexivity|].
  destruct l as [|c l]; [destruct i; reflexivity|]. cbn [skipn plus nth]. apply IH.
Qed.

Lemma fd_nth_skipn_Z : forall (l : list Z) s i, 0 <= s -> 0 <= i ->
  nth (Z.to_nat i) (skipn (Z.to_nat s) l) 0 = nth (Z.to_nat (s + i)) l 0.
Proof. intros l s i Hs Hi. rewrite fd_nth_skipn. f_equal. lia. Qed.

Lemma fd_skipn_skipn : forall (l : list Z) (a b : nat), skipn a (skipn b l) = skipn (b + a) l.
Proof.
  intros l a b. revert l. induction b as [|b IH]; intros l; [reflexivity|].
  destruct l as [|c l]; [rewrite !skipn_nil; reflexivity|]. cbn [skipn plus]. apply IH.
Qed.

Lemma fd_skipn_skipn_Z : forall (l : list Z) s i, 0 <= s -> 0 <= i ->
  skipn (Z.to_nat i) (skipn (Z.to_nat s) l) = skipn (Z.to_nat (s + i)) l.
Proof. intros l s i Hs Hi. rewrite fd_skipn_skipn. f_equal. lia. Qed.

Lemma fd_skipn_all : forall (l : list Z), skipn (Z.to_nat (zlen l)) l = [].
Proof. intros l. unfold zlen. rewrite Nat2Z.id. apply skipn_all. Qed.

Lemma fd_nth_firstn : forall (l : list Z) (k i : nat), (i < k)%nat -> nth i (firstn k l) 0 = nth i l 0.
Proof.
  intros l k. revert l. induction k as [|k IH]; intros l i Hi; [lia|].
  destruct l as [|c l]; [destruct i; reflexivity|].
  destruct i as [|i]; [reflexivity|]. cbn [firstn nth]. apply IH. lia.
Qed.

Lemma fd_zlen_firstn : forall (l : list Z) k, 0 <= k <= zlen l -> zlen (firstn (Z.to_nat k) l) = k.
Proof. intros l k Hk. unfold zlen in *. rewrite firstn_length. lia. Qed.

(* ====================================================================================
   helpers/indexof.go
   ==================================================================================== *)

Lemma fd_index_where_range : forall f l, -1 <= fd_index_where f l < zlen l.
Proof.
  intros f l. induction l as [|c l IH]; cbn [fd_index_where].
  - unfold zlen. cbn. lia.
  - rewrite fd_zlen_cons. destruct (f c); [pose proof (fd_zlen_nonneg l); lia|].
    destruct (fd_index_where f l <? 0) eqn:E; lia.
Qed.

Lemma fd_index_where_none : forall f l, fd_index_where f l < 0 ->
  forall i, 0 <= i < zlen l -> f (nth (Z.to_nat i) l 0) = false.
Proof.
  intros f l. induction l as [|c l IH]; intros H i Hi.
  - unfold zlen in Hi. cbn in Hi. lia.
  - cbn [fd_index_where] in H. rewrite fd_zlen_cons in Hi.
    destruct (f c) eqn:Ec; [lia|].
    destruct (fd_index_where f l <? 0) eqn:E; [|pose proof (fd_index_where_range f l); lia].
    assert (Hc : i = 0 \/ 0 < i) by lia. destruct Hc as [->|Hc]; [exact Ec|].
    rewrite fd_nth_cons_pos by exact Hc. apply IH; lia.
Qed.

Lemma fd_index_where_some : forall f l, 0 <= fd_index_where f l ->
  f (nth (Z.to_nat (fd_index_where f l)) l 0) = true /\
  forall i, 0 <= i < fd_index_where f l -> f (nth (Z.to_nat i) l 0) = false.
Proof.
  intros f l. induction l as [|c l IH]; intros H.
  - cbn in H. lia.
  - cbn [fd_index_where] in *. destruct (f c) eqn:Ec.
    + split; [exact Ec | intros; lia].
    + destruct (fd_index_where f l <? 0) eqn:E; [lia|].
      destruct IH as [IH1 IH2]; [lia|]. split.
      * rewrite fd_nth_cons_pos by lia. replace (fd_index_where f l + 1 - 1) with (fd_index_where f l) by lia.
        exact IH1.
      * intros i Hi. assert (Hc : i = 0 \/ 0 < i) by lia. destruct Hc as [->|Hc]; [exact Ec|].
        rewrite fd_nth_cons_pos by exact Hc. apply IH2. lia.
Qed.

Lemma fd_index_where_ext : forall f g l, (forall c, f c = g c) -> fd_index_where f l = fd_index_where g l.
Proof.
  intros f g l H. induction l as [|c l IH]; [reflexivity|].
  cbn [fd_index_where]. rewrite H, IH. reflexivity.
Qed.

Lemma fd_index_where_false : forall l, fd_index_where (fun _ => false) l = -1.
Proof. induction l as [|c l IH]; [reflexivity|]. cbn [fd_index_where]. rewrite IH. reflexivity. Qed.

(* indexOfAnyRunes: whatever the arity, the first rune that is a member of [find] *)
Lemma fd_index_of_any_runes_eq : forall l find,
  fd_index_of_any_runes l find = fd_index_where (fun c => zmem c find) l.
Proof.
  intros l find. unfold fd_index_of_any_runes.
  destruct find as [|a [|b [|d [|e find]]]].
  - symmetry. apply fd_index_where_false.
  - unfold fd_index_of_any1. apply fd_index_where_ext. intros c. cbn. rewrite orb_false_r. reflexivity.
  - unfold fd_index_of_any2. apply fd_index_where_ext. intros c. cbn. rewrite orb_false_r. reflexivity.
  - unfold fd_index_of_any3. apply fd_index_where_ext. intros c. cbn. rewrite orb_false_r, orb_assoc. reflexivity.
  - reflexivity.
Qed.

(* [fd_prefix_match]: pointwise characterisation *)
Lemma fd_prefix_match_short : forall eqc find l, zlen l < zlen find -> fd_prefix_match eqc find l = false.
Proof.
  intros eqc find. induction find as [|c find IH]; intros l H.
  - pose proof (fd_zlen_nonneg l). unfold zlen in *. cbn in *. lia.
  - destruct l as [|x l]; [reflexivity|]. cbn [fd_prefix_match]. rewrite !fd_zlen_cons in H.
    rewrite IH by lia. apply andb_false_r.
Qed.

Lemma fd_prefix_match_true : forall eqc find l, fd_prefix_match eqc find l = true ->
  zlen find <= zlen l /\
  forall j, 0 <= j < zlen find -> eqc (nth (Z.to_nat j) l 0) (nth (Z.to_nat j) find 0) = true.
Proof.
  intros eqc find. induction find as [|c find IH]; intros l H.
  - split; [pose proof (fd_zlen_nonneg l); unfold zlen in *; cbn; lia|].
    intros j Hj. unfold zlen in Hj. cbn in Hj. lia.
  - destruct l as [|x l]; [discriminate|]. cbn [fd_prefix_match] in H.
    apply andb_prop in H. destruct H as [H1 H2]. destruct (IH l H2) as [IHa IHb].
    rewrite !fd_zlen_cons. split; [lia|].
    intros j Hj. assert (Hc : j = 0 \/ 0 < j) by lia. destruct Hc as [->|Hc]; [exact H1|].
    rewrite !fd_nth_cons_pos by exact Hc. apply IHb. lia.
Qed.

Lemma fd_prefix_match_intro : forall eqc find l, zlen find <= zlen l ->
  (forall j, 0 <= j < zlen find -> eqc (nth (Z.to_nat j) l 0) (nth (Z.to_nat j) find 0) = true) ->
  fd_prefix_match eqc find l = true.
Proof.
  intros eqc find. induction find as [|c find IH]; intros l Hlen H; [reflexivity|].
  destruct l as [|x l]; [rewrite fd_zlen_cons in Hlen; pose proof (fd_zlen_nonneg find); unfold zlen in Hlen at 2; cbn in Hlen; lia|].
  cbn [fd_prefix_match]. rewrite !fd_zlen_cons in *. apply andb_true_intro. split.
  - apply (H 0). pose proof (fd_zlen_nonneg find). lia.
  - apply IH; [lia|]. intros j Hj. specialize (H (j + 1)).
    rewrite !fd_nth_cons_pos in H by lia. replace (j + 1 - 1) with j in H by lia. apply H. lia.
Qed.

(* [fd_index_of_gen]: first offset at which [find] matches *)
Lemma fd_index_of_gen_range : forall eqc find l, -1 <= fd_index_of_gen eqc find l < zlen l.
Proof.
  intros eqc find l. induction l as [|c l IH]; cbn [fd_index_of_gen].
  - unfold zlen. cbn. lia.
  - rewrite fd_zlen_cons. destruct (fd_prefix_match eqc find (c :: l)); [pose proof (fd_zlen_nonneg l); lia|].
    destruct (fd_index_of_gen eqc find l <? 0) eqn:E; lia.
Qed.

Lemma fd_index_of_gen_none : forall eqc find l, fd_index_of_gen eqc find l < 0 ->
  forall i, 0 <= i < zlen l -> fd_prefix_match eqc find (skipn (Z.to_nat i) l) = false.
Proof.
  intros eqc find l. induction l as [|c l IH]; intros H i Hi.
  - unfold zlen in Hi. cbn in Hi. lia.
  - cbn [fd_index_of_gen] in H. rewrite fd_zlen_cons in Hi.
    destruct (fd_prefix_match eqc find (c :: l)) eqn:Ec; [lia|].
    destruct (fd_index_of_gen eqc find l <? 0) eqn:E; [|pose proof (fd_index_of_gen_range eqc find l); lia].
    assert (Hc : i = 0 \/ 0 < i) by lia. destruct Hc as [->|Hc]; [exact Ec|].
    replace (Z.to_nat i) with (S (Z.to_nat (i - 1))) by lia. cbn [skipn]. apply IH; lia.
Qed.

Lemma fd_index_of_gen_some : forall eqc find l, 0 <= fd_index_of_gen eqc find l ->
  fd_prefix_match eqc find (skipn (Z.to_nat (fd_index_of_gen eqc find l)) l) = true /\
  forall i, 0 <= i < fd_index_of_gen eqc find l -> fd_prefix_match eqc find (skipn (Z.to_nat i) l) = false.
Proof.
  intros eqc find l. induction l as [|c l IH]; intros H.
  - cbn in H. lia.
  - cbn [fd_index_of_gen] in *. destruct (fd_prefix_match eqc find (c :: l)) eqn:Ec.
    + split; [exact Ec | intros; lia].
    + destruct (fd_index_of_gen eqc find l <? 0) eqn:E; [lia|].
      destruct IH as [IH1 IH2]; [lia|]. split.
      * replace (Z.to_nat (fd_index_of_gen eqc find l + 1)) with (S (Z.to_nat (fd_index_of_gen eqc find l))) by lia.
        exact IH1.
      * intros i Hi. assert (Hc : i = 0 \/ 0 < i) by lia. destruct Hc as [->|Hc]; [exact Ec|].
        replace (Z.to_nat i) with (S (Z.to_nat (i - 1))) by lia. cbn [skipn]. apply IH2. lia.
Qed.

(* ====================================================================================
   soundness of a finder; link to (H1)
   ==================================================================================== *)
Section FinderSound.
Variable R : Type.
Variable text : list Z.
Variable exec : Z -> option R * Z.

Local Notation n := (zlen text).

Definition fd_succeeds (q : Z) : Prop := fst (exec q) <> None.

Lemma fd_fails_dec : forall x, sc_fails R exec x \/ fd_succeeds x.
Proof. intros x. unfold sc_fails, fd_succeeds. destruct (fst (exec x)); [right; discriminate | left; reflexivity]. Qed.

Lemma fd_not_succeeds_fails : forall x, (fd_succeeds x -> False) -> sc_fails R exec x.
Proof. intros x H. destruct (fd_fails_dec x) as [F|S]; [exact F | contradiction]. Qed.

Definition fd_ok_at (p : Z) (r : res (bool * Z)) : Prop :=
  exists found q, r = Ok (found, q) /\ p <= q <= n /\
    (forall x, p <= x -> x < q -> sc_fails R exec x) /\
    (found = false -> forall x, p <= x <= n -> sc_fails R exec x).

Definition fd_sound (F : Z -> res (bool * Z)) : Prop :=
  forall p, 0 <= p <= n -> fd_ok_at p (F p).

Theorem fd_sound_H1 : forall F, fd_sound F ->
  sc_H1_true R n false (fd_total F) exec /\ sc_H1_false R n false (fd_total F) exec.
Proof.
  intros F HF. split; intros p q Hp Hf; unfold sc_in_text in Hp;
    destruct (HF p Hp) as (found & q' & Hr & Hq & Hskip & Hgive);
    unfold fd_total in Hf; rewrite Hr in Hf; inversion Hf; subst found q';
    unfold sc_ord, sc_before, sc_in_text; (split; [lia|split; [lia|]]).
  - intros x Hx1 Hx2. apply Hskip; lia.
  - intros x Hx1 Hx2. apply (Hgive eq_refl). lia.
Qed.

(* the finder that gave up at the far end, and the finder that found q *)
Lemma fd_ok_far : forall p, 0 <= p <= n ->
  (forall x, p <= x <= n -> fd_succeeds x -> False) -> fd_ok_at p (Ok (false, zlen text)).
Proof.
  intros p Hp H. exists false, (zlen text). split; [reflexivity|]. split; [lia|]. split.
  - intros x Hx1 Hx2. apply fd_not_succeeds_fails. apply H. lia.
  - intros _ x Hx. apply fd_not_succeeds_fails. apply H. exact Hx.
Qed.

Lemma fd_ok_found : forall p q, p <= q <= n ->
  (forall x, p <= x -> x < q -> fd_succeeds x -> False) -> fd_ok_at p (Ok (true, q)).
Proof.
  intros p q Hq H. exists true, q. split; [reflexivity|]. split; [exact Hq|]. split.
  - intros x Hx1 Hx2. apply fd_not_succeeds_fails. apply H; assumption.
  - discriminate.
Qed.

(* ---- the facts ---- *)

(* MinRequiredLength: a successful attempt needs that many runes ahead (C04_min_len_sound) *)
Definition fd_minlen_fact (minreq : Z) : Prop :=
  forall q, 0 <= q <= n -> fd_succeeds q -> minreq <= n - q.

Lemma fd_minlen_latest : forall minreq q, fd_minlen_fact minreq -> 0 <= q <= n -> fd_succeeds q ->
  q <= fd_latest_possible_start text minreq.
Proof.
  intros minreq q Hm Hq Hs. specialize (Hm q Hq Hs). unfold fd_latest_possible_start, fd_n.
  destruct (minreq <=? 0) eqn:E; lia.
Qed.

Lemma fd_latest_le_n : forall minreq, fd_latest_possible_start text minreq <= n.
Proof. intros minreq. unfold fd_latest_possible_start, fd_n. destruct (minreq <=? 0) eqn:E; lia. Qed.

(* TrailingAnchor_FixedLength_LeftToRight_End: every match starts exactly L runes before the end
   (C04_trailing_fixed_length_sound) *)
Definition fd_trailing_end_fact (L : Z) : Prop :=
  forall q, 0 <= q <= n -> fd_succeeds q -> q = n - L.

(* LeadingString: the text at a successful attempt starts with the prefix, runes compared by [eqc] *)
Definition fd_prefix_fact (eqc : Z -> Z -> bool) (P : list Z) : Prop :=
  forall q, 0 <= q <= n -> fd_succeeds q -> fd_prefix_match eqc P (skipn (Z.to_nat q) text) = true.

(* LeadingStrings: ... starts with one of the prefixes *)
Definition fd_prefixes_fact (eqc : Z -> Z -> bool) (Ps : list (list Z)) : Prop :=
  forall q, 0 <= q <= n -> fd_succeeds q ->
    exists P, In P Ps /\ fd_prefix_match eqc P (skipn (Z.to_nat q) text) = true.

(* FixedDistanceChar: the rune d positions after a successful attempt is ch *)
Definition fd_fdchar_fact (ch d : Z) : Prop :=
  forall q, 0 <= q <= n -> fd_succeeds q -> q + d < n /\ nth (Z.to_nat (q + d)) text 0 = ch.

(* FixedDistanceString: the literal stands d positions after a successful attempt *)
Definition fd_fdstring_fact (lit : list Z) (d : Z) : Prop :=
  forall q, 0 <= q <= n -> fd_succeeds q ->
    fd_prefix_match fd_eq_exact lit (skipn (Z.to_nat (q + d)) text) = true.

(* FixedDistanceSets / LeadingSet: for every published set, the rune at its distance is in it
   (membership as charInFixedDistanceSet computes it: Chars, else Range, else Set) *)
Definition fd_fds_fact (set_in : Z -> Z -> bool) (sets : list fdset) : Prop :=
  forall q, 0 <= q <= n -> fd_succeeds q -> forall s, In s sets ->
    0 <= q + fs_distance s < n /\ fd_char_in_fds set_in s (nth (Z.to_nat (q + fs_distance s)) text 0) = true.

(* ---- slices ---- *)
Lemma fd_slice_from_ok : forall i, 0 <= i <= n -> fd_slice_from text i = Ok (skipn (Z.to_nat i) text).
Proof.
  intros i Hi. unfold fd_slice_from, fd_n.
  destruct ((i <? 0) || (n <? i)) eqn:E; [lia | reflexivity].
Qed.

Lemma fd_rune_at_ok : forall i, 0 <= i < n -> fd_rune_at text i = Ok (nth (Z.to_nat i) text 0).
Proof.
  intros i Hi. unfold fd_rune_at, znth. destruct (i <? 0) eqn:E; [lia|].
  destruct (nth_error text (Z.to_nat i)) as [c|] eqn:En.
  - rewrite (nth_error_nth _ _ _ En). reflexivity.
  - apply nth_error_None in En. unfold zlen in Hi. lia.
Qed.

(* ====================================================================================
   findTrailingFixedLengthEnd
   ==================================================================================== *)
Theorem fd_trailing_end_sound : forall L, 0 <= L ->
  fd_trailing_end_fact L -> fd_sound (fun p => fd_find_trailing_fixed_length_end text p L).
Proof.
  intros L HL HF p Hp. unfold fd_find_trailing_fixed_length_end, fd_far, fd_n.
  destruct ((n - L <? p) || (n - L <? 0)) eqn:E.
  - apply fd_ok_far; [exact Hp|]. intros x Hx Hs. specialize (HF x ltac:(lia) Hs). lia.
  - apply fd_ok_found; [lia|]. intros x Hx1 Hx2 Hs. specialize (HF x ltac:(lia) Hs). lia.
Qed.

(* ====================================================================================
   findLeadingStringLeftToRight
   ==================================================================================== *)
Variable lower : Z -> Z.
Variable minreq : Z.
Hypothesis Hmin : fd_minlen_fact minreq.

(* how the finder compares a rune of the text with a rune of the prefix *)
Definition fd_leading_eqc (ignore_case : bool) (P : list Z) : Z -> Z -> bool :=
  if ignore_case then (if fd_is_ascii_runes P then fd_eq_fold_ascii else fd_eq_lower lower) else fd_eq_exact.

Lemma fd_leading_index : forall (ic : bool) (P l : list Z), P <> [] ->
  @eq (res Z)
    (if ic return res Z then
       (if fd_is_ascii_runes P return res Z then fd_index_of_ic_ascii l P else fd_index_of_ic lower l P)
     else fd_index_of l P)
    (Ok (fd_index_of_gen (fd_leading_eqc ic P) P l)).
Proof.
  intros ic P l HP. unfold fd_leading_eqc, fd_index_of_ic_ascii, fd_index_of_ic, fd_index_of.
  destruct P as [|c P]; [contradiction|]. destruct ic; [destruct (fd_is_ascii_runes (c :: P))|]; reflexivity.
Qed.

Theorem fd_leading_string_sound : forall P ic,
  fd_prefix_fact (fd_leading_eqc ic P) P ->
  fd_sound (fun p => fd_find_leading_string text lower minreq p P ic).
Proof.
  intros P ic HF p Hp. unfold fd_find_leading_string.
  destruct P as [|c0 P0] eqn:EP.
  { apply fd_ok_found; [lia|]. intros x Hx1 Hx2. lia. }
  rewrite <- EP in *. assert (HP : P <> []) by (rewrite EP; discriminate).
  rewrite (fd_slice_from_ok p Hp). cbn [bind].
  rewrite (fd_leading_index ic P _ HP). cbn [bind].
  set (eqc := fd_leading_eqc ic P) in *.
  set (sl := skipn (Z.to_nat p) text).
  assert (Hlen : zlen sl = n - p) by (apply fd_zlen_skipn; exact Hp).
  pose proof (fd_index_of_gen_range eqc P sl) as Hrange.
  (* no occurrence at x means no success at x *)
  assert (Hno : forall x, p <= x <= n ->
            fd_prefix_match eqc P (skipn (Z.to_nat (x - p)) sl) = false -> fd_succeeds x -> False).
  { intros x Hx Hm Hs. specialize (HF x ltac:(lia) Hs). unfold sl in Hm.
    rewrite fd_skipn_skipn_Z in Hm by lia. replace (p + (x - p)) with x in Hm by lia. congruence. }
  assert (Hend : fd_succeeds n -> False).
  { intros Hs. pose proof (fd_zlen_nonneg text). specialize (HF n ltac:(lia) Hs).
    rewrite fd_skipn_all in HF. rewrite EP in HF. discriminate. }
  destruct (fd_index_of_gen eqc P sl <? 0) eqn:Eoff.
  - apply fd_ok_far; [exact Hp|]. intros x Hx Hs.
    assert (Hc : x = n \/ x < n) by lia. destruct Hc as [->|Hc]; [exact (Hend Hs)|].
    apply (Hno x Hx); [|exact Hs]. apply fd_index_of_gen_none; lia.
  - destruct (fd_index_of_gen_some eqc P sl ltac:(lia)) as [Hhit Hbefore].
    set (off := fd_index_of_gen eqc P sl) in *.
    assert (Hskip : forall x, p <= x -> x < p + off -> fd_succeeds x -> False).
    { intros x Hx1 Hx2 Hs. apply (Hno x ltac:(lia)); [|exact Hs]. apply Hbefore. lia. }
    destruct (negb (fd_has_required_length_at text minreq (p + off))) eqn:Ereq.
    + apply fd_ok_far; [exact Hp|]. intros x Hx Hs.
      assert (Hc : x < p + off \/ p + off <= x) by lia. destruct Hc as [Hc|Hc]; [exact (Hskip x ltac:(lia) Hc Hs)|].
      pose proof (fd_minlen_latest minreq x Hmin ltac:(lia) Hs) as Hl.
      unfold fd_has_required_length_at in Ereq. lia.
    + apply fd_ok_found; [lia | exact Hskip].
Qed.

(* ====================================================================================
   findFixedDistanceCharLeftToRight
   ==================================================================================== *)
Lemma fd_has_req_unfold : forall start,
  fd_has_required_length_at text minreq start = (0 <=? start) && (start <=? fd_latest_possible_start text minreq).
Proof. reflexivity. Qed.

Lemma fd_fdchar_loop_ok : forall ch d, 0 <= d -> fd_fdchar_fact ch d ->
  forall fuel p s, 0 <= p <= n -> p + d <= s -> (Z.to_nat (n - s) < fuel)%nat ->
  (forall q, p <= q <= n -> q + d < s -> fd_succeeds q -> False) ->
  fd_ok_at p (fd_fdchar_loop text minreq fuel p ch d s).
Proof.
  intros ch d Hd HF. induction fuel as [|f IH]; intros p s Hp Hs Hfuel Hinv; [lia|].
  cbn [fd_fdchar_loop]. unfold fd_far, fd_n.
  destruct (negb (s <? n)) eqn:Es.
  { apply fd_ok_far; [exact Hp|]. intros x Hx Hsx. destruct (HF x ltac:(lia) Hsx) as [H1 H2].
    apply (Hinv x); [lia | lia | exact Hsx]. }
  rewrite (fd_slice_from_ok s) by lia. cbn [bind]. unfold fd_index_of_any1. cbv zeta.
  set (sl := skipn (Z.to_nat s) text). set (test := fun c : Z => c =? ch).
  assert (Hlen : zlen sl = n - s) by (apply fd_zlen_skipn; lia).
  pose proof (fd_index_where_range test sl) as Hrange.
  assert (Hat : forall x, p <= x <= n -> fd_succeeds x -> s <= x + d ->
            x + d < n /\ test (nth (Z.to_nat (x + d - s)) sl 0) = true).
  { intros x Hx Hsx Hge. destruct (HF x ltac:(lia) Hsx) as [H1 H2]. split; [lia|].
    unfold sl, test. rewrite fd_nth_skipn_Z by lia. replace (s + (x + d - s)) with (x + d) by lia. lia. }
  destruct (fd_index_where test sl <? 0) eqn:Eoff.
  { apply fd_ok_far; [exact Hp|]. intros x Hx Hsx.
    assert (Hc : x + d < s \/ s <= x + d) by lia. destruct Hc as [Hc|Hc]; [exact (Hinv x Hx Hc Hsx)|].
    destruct (Hat x Hx Hsx Hc) as [H1 H2].
    rewrite (fd_index_where_none test sl) in H2 by lia. discriminate. }
  destruct (fd_index_where_some test sl ltac:(lia)) as [Hhit Hbefore].
  set (off := fd_index_where test sl) in *.
  assert (Hskip : forall x, p <= x <= n -> x + d < s + off -> fd_succeeds x -> False).
  { intros x Hx Hlt Hsx.
    assert (Hc : x + d < s \/ s <= x + d) by lia. destruct Hc as [Hc|Hc]; [exact (Hinv x Hx Hc Hsx)|].
    destruct (Hat x Hx Hsx Hc) as [H1 H2]. rewrite Hbefore in H2 by lia. discriminate. }
  rewrite fd_has_req_unfold.
  pose proof (fd_latest_le_n minreq) as Hlat.
  destruct ((p <=? s + off - d) && ((0 <=? s + off - d) && (s + off - d <=? fd_latest_possible_start text minreq))) eqn:E1.
  { apply fd_ok_found; [lia|]. intros x Hx1 Hx2 Hsx. apply (Hskip x); [lia | lia | exact Hsx]. }
  destruct (fd_latest_possible_start text minreq <? s + off - d) eqn:E2; [|exfalso; lia].
  apply fd_ok_far; [exact Hp|]. intros x Hx Hsx.
  assert (Hc : x + d < s + off \/ s + off <= x + d) by lia. destruct Hc as [Hc|Hc]; [exact (Hskip x Hx Hc Hsx)|].
  pose proof (fd_minlen_latest minreq x Hmin ltac:(lia) Hsx). lia.
Qed.

Theorem fd_fixed_distance_char_sound : forall ch d, 0 <= d -> fd_fdchar_fact ch d ->
  fd_sound (fun p => fd_find_fixed_distance_char text minreq p ch d).
Proof.
  intros ch d Hd HF p Hp. unfold fd_find_fixed_distance_char.
  apply fd_fdchar_loop_ok; try assumption; try lia; try (unfold fd_fuel, zlen in *; lia).
Qed.

(* ====================================================================================
   findFixedDistanceStringLeftToRight
   ==================================================================================== *)
Lemma fd_prefix_match_skipn_bound : forall eqc lit i, lit <> [] -> 0 <= i ->
  fd_prefix_match eqc lit (skipn (Z.to_nat i) text) = true -> i + zlen lit <= n.
Proof.
  intros eqc lit i Hl Hi Hm.
  assert (Hc : i <= n \/ n < i) by lia. destruct Hc as [Hc|Hc].
  - destruct (fd_prefix_match_true _ _ _ Hm) as [H1 _]. rewrite fd_zlen_skipn in H1 by lia. lia.
  - rewrite skipn_all2 in Hm by (unfold zlen in Hc; lia).
    destruct lit; [contradiction | discriminate].
Qed.

Lemma fd_fdstring_loop_ok : forall lit d, lit <> [] -> 0 <= d -> fd_fdstring_fact lit d ->
  forall fuel p s, 0 <= p <= n -> p + d <= s -> (Z.to_nat (n - s) < fuel)%nat ->
  (forall q, p <= q <= n -> q + d < s -> fd_succeeds q -> False) ->
  fd_ok_at p (fd_fdstring_loop text minreq fuel p lit d s).
Proof.
  intros lit d Hlit Hd HF. induction fuel as [|f IH]; intros p s Hp Hs Hfuel Hinv; [lia|].
  cbn [fd_fdstring_loop]. unfold fd_far, fd_n.
  pose proof (fd_zlen_nonneg lit) as Hl0.
  destruct (negb (s <=? n - zlen lit)) eqn:Es.
  { apply fd_ok_far; [exact Hp|]. intros x Hx Hsx.
    pose proof (fd_prefix_match_skipn_bound _ lit (x + d) Hlit ltac:(lia) (HF x ltac:(lia) Hsx)).
    apply (Hinv x); [lia | lia | exact Hsx]. }
  rewrite (fd_slice_from_ok s) by lia. cbn [bind].
  assert (Hio : forall l, fd_index_of l lit = Ok (fd_index_of_gen fd_eq_exact lit l)).
  { intros l. unfold fd_index_of. destruct lit; [contradiction | reflexivity]. }
  rewrite Hio. cbn [bind]. cbv zeta.
  set (sl := skipn (Z.to_nat s) text).
  assert (Hlen : zlen sl = n - s) by (apply fd_zlen_skipn; lia).
  pose proof (fd_index_of_gen_range fd_eq_exact lit sl) as Hrange.
  assert (Hat : forall x, p <= x <= n -> fd_succeeds x -> s <= x + d ->
            x + d < n /\ fd_prefix_match fd_eq_exact lit (skipn (Z.to_nat (x + d - s)) sl) = true).
  { intros x Hx Hsx Hge. pose proof (HF x ltac:(lia) Hsx) as H1.
    pose proof (fd_prefix_match_skipn_bound _ lit (x + d) Hlit ltac:(lia) H1) as H2.
    assert (0 < zlen lit) by (destruct lit; [contradiction | rewrite fd_zlen_cons; pose proof (fd_zlen_nonneg lit); lia]).
    split; [lia|]. unfold sl. rewrite fd_skipn_skipn_Z by lia. replace (s + (x + d - s)) with (x + d) by lia. exact H1. }
  destruct (fd_index_of_gen fd_eq_exact lit sl <? 0) eqn:Eoff.
  { apply fd_ok_far; [exact Hp|]. intros x Hx Hsx.
    assert (Hc : x + d < s \/ s <= x + d) by lia. destruct Hc as [Hc|Hc]; [exact (Hinv x Hx Hc Hsx)|].
    destruct (Hat x Hx Hsx Hc) as [H1 H2].
    rewrite (fd_index_of_gen_none fd_eq_exact lit sl) in H2 by lia. discriminate. }
  destruct (fd_index_of_gen_some fd_eq_exact lit sl ltac:(lia)) as [Hhit Hbefore].
  set (off := fd_index_of_gen fd_eq_exact lit sl) in *.
  assert (Hskip : forall x, p <= x <= n -> x + d < s + off -> fd_succeeds x -> False).
  { intros x Hx Hlt Hsx.
    assert (Hc : x + d < s \/ s <= x + d) by lia. destruct Hc as [Hc|Hc]; [exact (Hinv x Hx Hc Hsx)|].
    destruct (Hat x Hx Hsx Hc) as [H1 H2]. rewrite Hbefore in H2 by lia. discriminate. }
  rewrite fd_has_req_unfold.
  pose proof (fd_latest_le_n minreq) as Hlat.
  destruct ((p <=? s + off - d) && ((0 <=? s + off - d) && (s + off - d <=? fd_latest_possible_start text minreq))) eqn:E1.
  { apply fd_ok_found; [lia|]. intros x Hx1 Hx2 Hsx. apply (Hskip x); [lia | lia | exact Hsx]. }
  destruct (fd_latest_possible_start text minreq <? s + off - d) eqn:E2; [|exfalso; lia].
  apply fd_ok_far; [exact Hp|]. intros x Hx Hsx.
  assert (Hc : x + d < s + off \/ s + off <= x + d) by lia. destruct Hc as [Hc|Hc]; [exact (Hskip x Hx Hc Hsx)|].
  pose proof (fd_minlen_latest minreq x Hmin ltac:(lia) Hsx). lia.
Qed.

Theorem fd_fixed_distance_string_sound : forall lit d, 0 <= d -> fd_fdstring_fact lit d ->
  fd_sound (fun p => fd_find_fixed_distance_string text minreq p lit d).
Proof.
  intros lit d Hd HF p Hp. unfold fd_find_fixed_distance_string.
  destruct lit as [|c lit0] eqn:El.
  { apply fd_ok_found; [lia|]. intros x Hx1 Hx2. lia. }
  rewrite <- El in *. apply fd_fdstring_loop_ok; try assumption; try lia; try (unfold fd_fuel, zlen in *; lia).
  rewrite El. discriminate.
Qed.

(* ====================================================================================
   findFixedDistanceSetsLeftToRight (also serves LeadingSet_LeftToRight)
   ==================================================================================== *)
Variable set_in : Z -> Z -> bool.

Lemma fd_index_of_set_eq : forall l s,
  fd_index_of_set set_in l s = fd_index_where (fd_char_in_fds set_in s) l.
Proof.
  intros l s. unfold fd_index_of_set, fd_char_in_fds.
  destruct (fs_chars s) as [|c cs] eqn:Ec.
  - destruct (fs_range s) as [[first last]|] eqn:Er.
    + destruct (fs_negated s).
      * unfold fd_index_of_any_except_in_range. apply fd_index_where_ext. intros x.
        destruct ((first <=? x) && (x <=? last)) eqn:E; destruct ((last <? x) || (x <? first)) eqn:E'; cbn [negb]; try reflexivity; lia.
      * reflexivity.
    + unfold fd_index_func. reflexivity.
  - destruct (fs_negated s); cbn [negb]; reflexivity.
Qed.

Lemma fd_sets_match_at_intro : forall sets start,
  (forall s, In s sets -> 0 <= start + fs_distance s < n /\
      fd_char_in_fds set_in s (nth (Z.to_nat (start + fs_distance s)) text 0) = true) ->
  fd_sets_match_at text set_in sets start = true.
Proof.
  induction sets as [|s sets IH]; intros start H; [reflexivity|].
  cbn [fd_sets_match_at]. unfold fd_n. cbv zeta.
  destruct (H s (or_introl eq_refl)) as [H1 H2].
  destruct ((start + fs_distance s <? 0) || (n <=? start + fs_distance s)) eqn:E; [lia|].
  rewrite H2. cbn [negb]. apply IH. intros s' Hs'. apply H. right. exact Hs'.
Qed.

Lemma fd_fdsets_loop_ok : forall sets primary, In primary sets -> 0 <= fs_distance primary ->
  fd_fds_fact set_in sets ->
  forall fuel p s, 0 <= p <= n -> p + fs_distance primary <= s -> (Z.to_nat (n - s) < fuel)%nat ->
  (forall q, p <= q <= n -> q + fs_distance primary < s -> fd_succeeds q -> False) ->
  fd_ok_at p (fd_fdsets_loop text set_in minreq fuel p sets primary s).
Proof.
  intros sets primary Hin Hd HF. set (d := fs_distance primary) in *.
  induction fuel as [|f IH]; intros p s Hp Hs Hfuel Hinv; [lia|].
  cbn [fd_fdsets_loop]. unfold fd_far, fd_n.
  destruct (negb (s <? n)) eqn:Es.
  { apply fd_ok_far; [exact Hp|]. intros x Hx Hsx. destruct (HF x ltac:(lia) Hsx primary Hin) as [H1 H2].
    apply (Hinv x); [lia | fold d in H1; lia | exact Hsx]. }
  rewrite (fd_slice_from_ok s) by lia. cbn [bind]. rewrite fd_index_of_set_eq. cbv zeta. fold d.
  set (sl := skipn (Z.to_nat s) text). set (test := fd_char_in_fds set_in primary).
  assert (Hlen : zlen sl = n - s) by (apply fd_zlen_skipn; lia).
  pose proof (fd_index_where_range test sl) as Hrange.
  assert (Hat : forall x, p <= x <= n -> fd_succeeds x -> s <= x + d ->
            x + d < n /\ test (nth (Z.to_nat (x + d - s)) sl 0) = true).
  { intros x Hx Hsx Hge. destruct (HF x ltac:(lia) Hsx primary Hin) as [H1 H2]. fold d in H1, H2. split; [lia|].
    unfold sl, test. rewrite fd_nth_skipn_Z by lia. replace (s + (x + d - s)) with (x + d) by lia. exact H2. }
  destruct (fd_index_where test sl <? 0) eqn:Eoff.
  { apply fd_ok_far; [exact Hp|]. intros x Hx Hsx.
    assert (Hc : x + d < s \/ s <= x + d) by lia. destruct Hc as [Hc|Hc]; [exact (Hinv x Hx Hc Hsx)|].
    destruct (Hat x Hx Hsx Hc) as [H1 H2].
    rewrite (fd_index_where_none test sl) in H2 by lia. discriminate. }
  destruct (fd_index_where_some test sl ltac:(lia)) as [Hhit Hbefore].
  set (off := fd_index_where test sl) in *.
  assert (Hskip : forall x, p <= x <= n -> x + d < s + off -> fd_succeeds x -> False).
  { intros x Hx Hlt Hsx.
    assert (Hc : x + d < s \/ s <= x + d) by lia. destruct Hc as [Hc|Hc]; [exact (Hinv x Hx Hc Hsx)|].
    destruct (Hat x Hx Hsx Hc) as [H1 H2]. rewrite Hbefore in H2 by lia. discriminate. }
  pose proof (fd_latest_le_n minreq) as Hlat.
  destruct (fd_latest_possible_start text minreq <? s + off - d) eqn:E2.
  { apply fd_ok_far; [exact Hp|]. intros x Hx Hsx.
    assert (Hc : x + d < s + off \/ s + off <= x + d) by lia. destruct Hc as [Hc|Hc]; [exact (Hskip x Hx Hc Hsx)|].
    pose proof (fd_minlen_latest minreq x Hmin ltac:(lia) Hsx). lia. }
  rewrite fd_has_req_unfold.
  destruct ((p <=? s + off - d) && ((0 <=? s + off - d) && (s + off - d <=? fd_latest_possible_start text minreq))
            && fd_sets_match_at text set_in sets (s + off - d)) eqn:E1.
  { apply fd_ok_found; [lia|]. intros x Hx1 Hx2 Hsx. apply (Hskip x); [lia | lia | exact Hsx]. }
  apply IH; [exact Hp | lia | lia |].
  intros q Hq Hlt Hsq.
  assert (Hc : q + d < s + off \/ q + d = s + off) by lia. destruct Hc as [Hc|Hc]; [exact (Hskip q Hq Hc Hsq)|].
  assert (Hqe : q = s + off - d) by lia.
  rewrite (fd_sets_match_at_intro sets (s + off - d)) in E1.
  - lia.
  - intros s0 Hs0. rewrite <- Hqe. exact (HF q ltac:(lia) Hsq s0 Hs0).
Qed.

Theorem fd_fixed_distance_sets_sound : forall sets primary rest id,
  sets = primary :: rest -> fs_set primary = Some id -> 0 <= fs_distance primary ->
  fd_fds_fact set_in sets ->
  fd_sound (fun p => fd_find_fixed_distance_sets text set_in minreq p sets).
Proof.
  intros sets primary rest id Hsets Hset Hd HF p Hp. unfold fd_find_fixed_distance_sets.
  rewrite Hsets, Hset. rewrite <- Hsets.
  apply fd_fdsets_loop_ok; try assumption; try lia; try (unfold fd_fuel, zlen in *; lia).
  rewrite Hsets. left. reflexivity.
Qed.

(* ====================================================================================
   findLeadingStringsLeftToRight
   ==================================================================================== *)
Definition fd_strings_eqc (ignore_case : bool) : Z -> Z -> bool :=
  if ignore_case then fd_eq_lower lower else fd_eq_exact.

(* LeadingPrefixFirstRunes covers the first rune of every prefix *)
Definition fd_first_runes_ok (Ps : list (list Z)) (firsts : list Z) : Prop :=
  forall c rest, In (c :: rest) Ps -> zmem c firsts = true.

Lemma fd_starts_with_ok : forall l P, P <> [] -> fd_starts_with l P = Ok (fd_prefix_match fd_eq_exact P l).
Proof.
  intros l P HP. unfold fd_starts_with. destruct (zlen l <? zlen P) eqn:E.
  - rewrite fd_prefix_match_short by lia. reflexivity.
  - destruct P; [contradiction | reflexivity].
Qed.

Lemma fd_starts_with_ic_eq : forall l P, fd_starts_with_ic lower l P = fd_prefix_match (fd_eq_lower lower) P l.
Proof.
  intros l P. unfold fd_starts_with_ic. destruct (zlen l <? zlen P) eqn:E; [|reflexivity].
  rewrite fd_prefix_match_short by lia. reflexivity.
Qed.

Lemma fd_any_prefix_at_ok : forall ic l Ps, Forall (fun P => P <> []) Ps ->
  exists b, fd_any_prefix_at lower ic l Ps = Ok b /\
    (b = false -> forall P, In P Ps -> fd_prefix_match (fd_strings_eqc ic) P l = false).
Proof.
  intros ic l Ps. induction Ps as [|P Ps IH]; intros Hne.
  - exists false. split; [reflexivity|]. intros _ P [].
  - inversion Hne as [|? ? HP Hne']; subst. destruct (IH Hne') as (b & Hb & Hall).
    cbn [fd_any_prefix_at]. unfold fd_strings_eqc in *. destruct ic.
    + rewrite fd_starts_with_ic_eq. destruct (fd_prefix_match (fd_eq_lower lower) P l) eqn:E.
      * exists true. split; [reflexivity | discriminate].
      * exists b. split; [exact Hb|]. intros Hf P' [<-|Hin]; [exact E | apply Hall; assumption].
    + rewrite (fd_starts_with_ok l P HP). cbn [bind]. destruct (fd_prefix_match fd_eq_exact P l) eqn:E.
      * exists true. split; [reflexivity | discriminate].
      * exists b. split; [exact Hb|]. intros Hf P' [<-|Hin]; [exact E | apply Hall; assumption].
Qed.

Lemma fd_leading_strings_slow_ok : forall ic Ps, Forall (fun P => P <> []) Ps ->
  fd_prefixes_fact (fd_strings_eqc ic) Ps ->
  forall fuel p s, 0 <= p <= s -> p <= n -> (Z.to_nat (n + 1 - s) < fuel)%nat ->
  (forall q, p <= q -> q < s -> q <= n -> fd_succeeds q -> False) ->
  fd_ok_at p (fd_leading_strings_slow text lower minreq fuel ic Ps s).
Proof.
  intros ic Ps Hne HF. induction fuel as [|f IH]; intros p s Hp Hpn Hfuel Hinv; [lia|].
  cbn [fd_leading_strings_slow]. unfold fd_far, fd_n.
  pose proof (fd_latest_le_n minreq) as Hlat.
  destruct (negb (s <=? fd_latest_possible_start text minreq)) eqn:Es.
  { apply fd_ok_far; [lia|]. intros x Hx Hsx.
    assert (Hc : x < s \/ s <= x) by lia. destruct Hc as [Hc|Hc]; [apply (Hinv x); try lia; exact Hsx|].
    pose proof (fd_minlen_latest minreq x Hmin ltac:(lia) Hsx). lia. }
  rewrite (fd_slice_from_ok s) by lia. cbn [bind].
  destruct (fd_any_prefix_at_ok ic (skipn (Z.to_nat s) text) Ps Hne) as (b & Hb & Hall).
  rewrite Hb. cbn [bind]. destruct b.
  { apply fd_ok_found; [lia|]. intros x Hx1 Hx2 Hsx. apply (Hinv x); try lia; exact Hsx. }
  apply IH; try lia.
  intros q Hq1 Hq2 Hq3 Hsq.
  assert (Hc : q < s \/ q = s) by lia. destruct Hc as [Hc|Hc]; [apply (Hinv q); try lia; exact Hsq|]. subst q.
  destruct (HF s ltac:(lia) Hsq) as (P & HPin & HPm). rewrite (Hall eq_refl P HPin) in HPm. discriminate.
Qed.

Lemma fd_any_prefix_first_at_ok : forall first rest Ps, Forall (fun P => P <> []) Ps ->
  exists b, fd_any_prefix_first_at first (first :: rest) Ps = Ok b /\
    (b = false -> forall P, In P Ps -> fd_prefix_match fd_eq_exact P (first :: rest) = false).
Proof.
  intros first rest Ps. induction Ps as [|P Ps IH]; intros Hne.
  - exists false. split; [reflexivity|]. intros _ P [].
  - inversion Hne as [|? ? HP Hne']; subst. destruct (IH Hne') as (b & Hb & Hall).
    cbn [fd_any_prefix_first_at]. destruct P as [|c P]; [contradiction|].
    destruct (c =? first) eqn:Ec.
    + rewrite (fd_starts_with_ok (first :: rest) (c :: P) HP). cbn [bind].
      destruct (fd_prefix_match fd_eq_exact (c :: P) (first :: rest)) eqn:E.
      * exists true. split; [reflexivity | discriminate].
      * exists b. split; [exact Hb|]. intros Hf P' [<-|Hin]; [exact E | apply Hall; assumption].
    + exists b. split; [exact Hb|]. intros Hf P' [<-|Hin]; [|apply Hall; assumption].
      cbn [fd_prefix_match]. unfold fd_eq_exact at 1.
      replace (first =? c) with false by lia. reflexivity.
Qed.

Lemma fd_skipn_cons_nth : forall (l : list Z) i, 0 <= i < zlen l ->
  skipn (Z.to_nat i) l = nth (Z.to_nat i) l 0 :: skipn (Z.to_nat (i + 1)) l.
Proof.
  intros l i Hi. replace (Z.to_nat (i + 1)) with (S (Z.to_nat i)) by lia.
  assert (Hn : (Z.to_nat i < length l)%nat) by (unfold zlen in Hi; lia).
  revert Hn. generalize (Z.to_nat i) as k. clear Hi. induction l as [|c l IH]; intros k Hk; [cbn in Hk; lia|].
  destruct k as [|k]; [reflexivity|]. cbn [skipn nth]. apply IH. cbn in Hk. lia.
Qed.

(* a successful attempt at x starts with a rune of the first-rune list *)
Lemma fd_success_first_rune : forall Ps firsts x, Forall (fun P => P <> []) Ps ->
  fd_first_runes_ok Ps firsts -> fd_prefixes_fact fd_eq_exact Ps ->
  0 <= x <= n -> fd_succeeds x -> x < n /\ zmem (nth (Z.to_nat x) text 0) firsts = true.
Proof.
  intros Ps firsts x Hne Hfirst HF Hx Hsx.
  destruct (HF x Hx Hsx) as (P & HPin & HPm).
  destruct P as [|c P]; [rewrite Forall_forall in Hne; exfalso; exact (Hne _ HPin eq_refl)|].
  pose proof (fd_prefix_match_skipn_bound _ (c :: P) x ltac:(discriminate) ltac:(lia) HPm) as Hb.
  rewrite fd_zlen_cons in Hb. pose proof (fd_zlen_nonneg P). split; [lia|].
  rewrite fd_skipn_cons_nth in HPm by lia. cbn [fd_prefix_match] in HPm.
  apply andb_prop in HPm. destruct HPm as [H1 _]. unfold fd_eq_exact in H1.
  replace (nth (Z.to_nat x) text 0) with c by lia. exact (Hfirst c P HPin).
Qed.

Lemma fd_leading_strings_fast_ok : forall Ps firsts, Forall (fun P => P <> []) Ps ->
  fd_first_runes_ok Ps firsts -> fd_prefixes_fact fd_eq_exact Ps ->
  forall fuel p s, 0 <= p <= s -> p <= n -> (Z.to_nat (n - s) < fuel)%nat ->
  (forall q, p <= q -> q < s -> q <= n -> fd_succeeds q -> False) ->
  fd_ok_at p (fd_leading_strings_fast text fuel Ps firsts (Z.min (fd_latest_possible_start text minreq) (n - 1)) s).
Proof.
  intros Ps firsts Hne Hfirst HF.
  set (latest := Z.min (fd_latest_possible_start text minreq) (n - 1)).
  pose proof (fd_latest_le_n minreq) as Hlat.
  assert (Hbeyond : forall x, 0 <= x -> latest < x <= n -> fd_succeeds x -> False).
  { intros x Hx0 Hx Hsx. destruct (fd_success_first_rune Ps firsts x Hne Hfirst HF ltac:(lia) Hsx) as [H1 _].
    pose proof (fd_minlen_latest minreq x Hmin ltac:(lia) Hsx). lia. }
  induction fuel as [|f IH]; intros p s Hp Hpn Hfuel Hinv; [lia|].
  cbn [fd_leading_strings_fast]. unfold fd_far, fd_n.
  destruct (negb (s <=? latest)) eqn:Es.
  { apply fd_ok_far; [lia|]. intros x Hx Hsx.
    assert (Hc : x < s \/ s <= x) by lia. destruct Hc as [Hc|Hc]; [apply (Hinv x); try lia; exact Hsx|].
    apply (Hbeyond x); [lia | lia | exact Hsx]. }
  assert (Hsl : fd_slice text s (latest + 1) = Ok (firstn (Z.to_nat (latest + 1 - s)) (skipn (Z.to_nat s) text))).
  { unfold fd_slice, fd_n. destruct ((s <? 0) || (latest + 1 <? s) || (n <? latest + 1)) eqn:E; [lia | reflexivity]. }
  rewrite Hsl. cbn [bind]. rewrite fd_index_of_any_runes_eq. cbv zeta.
  set (win := firstn (Z.to_nat (latest + 1 - s)) (skipn (Z.to_nat s) text)).
  set (test := fun c : Z => zmem c firsts).
  assert (Hlen : zlen win = latest + 1 - s).
  { unfold win. apply fd_zlen_firstn. rewrite fd_zlen_skipn by lia. lia. }
  assert (Hnth : forall i, 0 <= i < latest + 1 - s -> nth (Z.to_nat i) win 0 = nth (Z.to_nat (s + i)) text 0).
  { intros i Hi. unfold win. rewrite fd_nth_firstn by lia. apply fd_nth_skipn_Z; lia. }
  pose proof (fd_index_where_range test win) as Hrange.
  destruct (fd_index_where test win <? 0) eqn:Eoff.
  { apply fd_ok_far; [lia|]. intros x Hx Hsx.
    assert (Hc : x < s \/ latest < x \/ s <= x <= latest) by lia.
    destruct Hc as [Hc|[Hc|Hc]]; [apply (Hinv x); try lia; exact Hsx | apply (Hbeyond x); [lia | lia | exact Hsx] |].
    destruct (fd_success_first_rune Ps firsts x Hne Hfirst HF ltac:(lia) Hsx) as [_ H2].
    pose proof (fd_index_where_none test win ltac:(lia) (x - s) ltac:(lia)) as H3.
    rewrite Hnth in H3 by lia. replace (s + (x - s)) with x in H3 by lia. unfold test in H3. congruence. }
  destruct (fd_index_where_some test win ltac:(lia)) as [Hhit Hbefore].
  set (off := fd_index_where test win) in *.
  assert (Hskip : forall x, p <= x -> x < s + off -> fd_succeeds x -> False).
  { intros x Hx1 Hx2 Hsx.
    assert (Hc : x < s \/ s <= x) by lia. destruct Hc as [Hc|Hc]; [apply (Hinv x); try lia; exact Hsx|].
    destruct (fd_success_first_rune Ps firsts x Hne Hfirst HF ltac:(lia) Hsx) as [_ H2].
    pose proof (Hbefore (x - s) ltac:(lia)) as H3.
    rewrite Hnth in H3 by lia. replace (s + (x - s)) with x in H3 by lia. unfold test in H3. congruence. }
  rewrite (fd_rune_at_ok (s + off)) by lia. cbn [bind].
  rewrite (fd_slice_from_ok (s + off)) by lia. cbn [bind].
  rewrite (fd_skipn_cons_nth text (s + off)) by lia.
  destruct (fd_any_prefix_first_at_ok (nth (Z.to_nat (s + off)) text 0) (skipn (Z.to_nat (s + off + 1)) text) Ps Hne)
    as (b & Hb & Hall).
  rewrite Hb. cbn [bind]. destruct b.
  { apply fd_ok_found; [lia | exact Hskip]. }
  apply IH; try lia.
  intros q Hq1 Hq2 Hq3 Hsq.
  assert (Hc : q < s + off \/ q = s + off) by lia. destruct Hc as [Hc|Hc]; [exact (Hskip q Hq1 Hc Hsq)|]. subst q.
  destruct (HF (s + off) ltac:(lia) Hsq) as (P & HPin & HPm).
  rewrite (fd_skipn_cons_nth text (s + off)) in HPm by lia.
  rewrite (Hall eq_refl P HPin) in HPm. discriminate.
Qed.

Theorem fd_leading_strings_sound : forall Ps firsts ic, Ps <> [] -> Forall (fun P => P <> []) Ps ->
  (ic = false -> fd_first_runes_ok Ps firsts) ->
  fd_prefixes_fact (fd_strings_eqc ic) Ps ->
  fd_sound (fun p => fd_find_leading_strings text lower minreq p Ps firsts ic).
Proof.
  intros Ps firsts ic HPs Hne Hfirst HF p Hp. unfold fd_find_leading_strings.
  destruct Ps as [|P0 Ps0] eqn:EPs; [contradiction|]. rewrite <- EPs in *.
  destruct (ic || match firsts with [] => true | _ :: _ => false end) eqn:Eslow.
  - apply fd_leading_strings_slow_ok; try assumption; try lia; try (unfold fd_fuel, zlen in *; lia).
  - destruct ic; [discriminate|]. unfold fd_n.
    apply fd_leading_strings_fast_ok; try assumption; try lia; try (unfold fd_fuel, zlen in *; lia).
    apply Hfirst. reflexivity.
Qed.

End FinderSound.

(* ====================================================================================
   leadingPrefixFirstRunes (optimizations.go:593) covers the first rune of every prefix
   ==================================================================================== *)
Lemma fd_zmem_app : forall c l1 l2, zmem c (l1 ++ l2) = zmem c l1 || zmem c l2.
Proof. intros c l1 l2. unfold zmem. apply existsb_app. Qed.

Lemma fd_first_runes_acc_spec : forall Ps acc,
  (forall c, zmem c acc = true -> zmem c (fd_leading_prefix_first_runes_acc Ps acc) = true) /\
  (forall c rest, In (c :: rest) Ps -> zmem c (fd_leading_prefix_first_runes_acc Ps acc) = true).
Proof.
  induction Ps as [|P Ps IH]; intros acc.
  - split; [intros c H; exact H | intros c rest []].
  - cbn [fd_leading_prefix_first_runes_acc]. destruct P as [|c0 P].
    + destruct (IH acc) as [IH1 IH2]. split; [exact IH1|].
      intros c rest [Heq|Hin]; [discriminate | exact (IH2 c rest Hin)].
    + destruct (zmem c0 acc) eqn:E.
      * destruct (IH acc) as [IH1 IH2]. split; [exact IH1|].
        intros c rest [Heq|Hin]; [inversion Heq; subst; apply IH1; exact E | exact (IH2 c rest Hin)].
      * destruct (IH (acc ++ [c0])) as [IH1 IH2]. split.
        -- intros c H. apply IH1. rewrite fd_zmem_app, H. reflexivity.
        -- intros c rest [Heq|Hin]; [|exact (IH2 c rest Hin)].
           inversion Heq; subst. apply IH1. rewrite fd_zmem_app. cbn. rewrite Z.eqb_refl. apply orb_true_r.
Qed.

Theorem fd_leading_prefix_first_runes_ok : forall Ps,
  forall c rest, In (c :: rest) Ps -> zmem c (fd_leading_prefix_first_runes Ps) = true.
Proof. intros Ps. exact (proj2 (fd_first_runes_acc_spec Ps [])). Qed.

(* ====================================================================================
   a sound finder + the minimum-length fact + (H3): the accelerated scan is the naive scan
   ==================================================================================== *)
Theorem fd_scan_sound : forall (R : Type) (text : list Z) (exec : Z -> option R * Z) (minreq : Z)
                               (F : Z -> res (bool * Z)),
  fd_sound R text exec F ->
  fd_minlen_fact R text exec minreq ->
  sc_H3 R (zlen text) false exec ->
  forall start prevlen, 0 <= start <= zlen text ->
  exists r, scan (zlen text) false minreq (fd_total F) exec start prevlen = Ok r
         /\ naive_scan (zlen text) false exec start prevlen = Ok r.
Proof.
  intros R text exec minreq F HF Hmin H3 start prevlen Hs.
  destruct (fd_sound_H1 R text exec F HF) as [H1t H1f].
  apply sc_scan_finder_sound; try assumption.
  intros x Hx Ha. unfold sc_in_text, sc_ahead in *.
  apply fd_not_succeeds_fails. intros Hsx. specialize (Hmin x Hx Hsx). lia.
Qed.
