(* The public lookups on a well-formed capture table (C17, second half):
   what Parse hands on ([wf_tree]) is enough for every lookup to designate the same group. *)
From Verif Require Import Base.Prelude Model.GroupMap Proofs.GMBase.
From Coq Require Import Sorting.Sorted DecimalPos Decimal.

(* ---------- the decimal parser of GroupNumberFromName reads back strconv.Itoa ---------- *)

Definition dstep (a ch : Z) : Z := a * 10 + (ch - 48).
Definition dfold (s : name) (acc : Z) : Z := fold_left dstep s acc.

Lemma dfold_mono : forall s acc, forallb is_digit s = true -> 0 <= acc -> acc <= dfold s acc.
Proof.
  induction s as [|c s IH]; intros acc Hd Ha.
  - cbn. lia.
  - cbn [forallb] in Hd. apply andb_true_iff in Hd. destruct Hd as [Hc Hd]. unfold is_digit in Hc.
    apply andb_true_iff in Hc. destruct Hc as [H1 H2]. apply Z.leb_le in H1, H2.
    change (dfold (c :: s) acc) with (dfold s (dstep acc c)).
    assert (Hge : 0 <= dstep acc c) by (unfold dstep; lia).
    specialize (IH (dstep acc c) Hd Hge). unfold dstep in *. lia.
Qed.

Lemma parse_decimal_dfold : forall s cap acc, forallb is_digit s = true -> 0 <= acc ->
  dfold s acc < cap -> parse_decimal cap s acc = dfold s acc.
Proof.
  induction s as [|c s IH]; intros cap acc Hd Ha Hlt.
  - cbn in *. destruct (0 <=? acc) eqn:E1; [|apply Z.leb_gt in E1; lia].
    destruct (acc <? cap) eqn:E2; [reflexivity|apply Z.ltb_ge in E2; lia].
  - cbn [forallb] in Hd. apply andb_true_iff in Hd. destruct Hd as [Hc Hd]. unfold is_digit in Hc.
    apply andb_true_iff in Hc. destruct Hc as [H1 H2]. apply Z.leb_le in H1, H2.
    change (dfold (c :: s) acc) with (dfold s (dstep acc c)) in *.
    cbn [parse_decimal].
    destruct (57 <? c) eqn:E1; [apply Z.ltb_lt in E1; lia|].
    destruct (c <? 48) eqn:E2; [apply Z.ltb_lt in E2; lia|]. cbn [orb].
    change (acc * 10 + (c - 48)) with (dstep acc c).
    assert (Hge : 0 <= dstep acc c) by (unfold dstep; lia).
    pose proof (dfold_mono s (dstep acc c) Hd Hge) as Hm.
    destruct (cap <=? dstep acc c) eqn:E3; [apply Z.leb_le in E3; lia|].
    apply IH; assumption.
Qed.

Lemma dfold_of_uint_acc : forall u p, dfold (uint_digits u) (Z.pos p) = Z.pos (Pos.of_uint_acc u p).
Proof.
  induction u; intros p; cbn [uint_digits Pos.of_uint_acc dfold fold_left]; try reflexivity;
    unfold dfold in *; rewrite <- IHu; f_equal; unfold dstep; lia.
Qed.

Lemma dfold_of_uint : forall u, dfold (uint_digits u) 0 = Z.of_N (Pos.of_uint u).
Proof.
  induction u; cbn [uint_digits Pos.of_uint]; try reflexivity.
  - (* D0 *) unfold dfold in *. cbn [fold_left]. change (dstep 0 48) with 0. assumption.
  - change (dfold (49 :: uint_digits u) 0) with (dfold (uint_digits u) (Z.pos 1)). now rewrite dfold_of_uint_acc.
  - change (dfold (50 :: uint_digits u) 0) with (dfold (uint_digits u) (Z.pos 2)). now rewrite dfold_of_uint_acc.
  - change (dfold (51 :: uint_digits u) 0) with (dfold (uint_digits u) (Z.pos 3)). now rewrite dfold_of_uint_acc.
  - change (dfold (52 :: uint_digits u) 0) with (dfold (uint_digits u) (Z.pos 4)). now rewrite dfold_of_uint_acc.
  - change (dfold (53 :: uint_digits u) 0) with (dfold (uint_digits u) (Z.pos 5)). now rewrite dfold_of_uint_acc.
  - change (dfold (54 :: uint_digits u) 0) with (dfold (uint_digits u) (Z.pos 6)). now rewrite dfold_of_uint_acc.
  - change (dfold (55 :: uint_digits u) 0) with (dfold (uint_digits u) (Z.pos 7)). now rewrite dfold_of_uint_acc.
  - change (dfold (56 :: uint_digits u) 0) with (dfold (uint_digits u) (Z.pos 8)). now rewrite dfold_of_uint_acc.
  - change (dfold (57 :: uint_digits u) 0) with (dfold (uint_digits u) (Z.pos 9)). now rewrite dfold_of_uint_acc.
Qed.

Lemma dfold_itoa : forall k, 0 <= k -> dfold (itoa k) 0 = k.
Proof.
  intros k Hk. destruct k as [|p|p]; try lia; cbn [itoa]; [reflexivity|].
  rewrite dfold_of_uint, Unsigned.of_to. reflexivity.
Qed.

Lemma parse_decimal_itoa : forall cap k, 0 <= k < cap -> parse_decimal cap (itoa k) 0 = k.
Proof.
  intros cap k Hk. rewrite parse_decimal_dfold; [apply dfold_itoa; lia| | |].
  - apply itoa_nonneg_digits. lia.
  - lia.
  - rewrite dfold_itoa; lia.
Qed.

(* ---------- what the parser hands on ---------- *)

(* the entry of Caplist at a group's index names that group: it is the key under which
   Capnames holds the group's number; in ECMAScript mode unnamed groups have the empty name *)
Definition names_entry (ecma : bool) (m : nmap) (s : name) (j : Z) : Prop :=
  (ecma = true /\ s = []) \/ (s <> [] /\ aget s m = Some j).

Record wf_tree (ecma : bool) (t : ptree) : Prop := {
  wt_sorted : ssorted (t_caps t);
  wt_zero : exists r, t_caps t = 0 :: r;
  wt_dense : t_capnumlist t = None -> t_caps t = zrange (t_captop t);
  wt_sparse : forall nl, t_capnumlist t = Some nl -> nl = t_caps t /\ t_captop t <> zlen nl;
  wt_names :
    match t_caplist t, t_capnames t with
    | Some l, Some m =>
        Forall2 (names_entry ecma m) l (t_caps t)
        /\ (ecma = true -> aget [] m = None)
        /\ (exists r, l = (if ecma then [] else itoa 0) :: r)
    | None, None => t_capnumlist t = None /\ ecma = false
    | _, _ => False
    end
}.

(* the part of [wf_tree] that is about the group NUMBERS only: enough for number -> slot *)
Record wf_caps (t : ptree) : Prop := {
  wc_sorted : ssorted (t_caps t);
  wc_zero : exists r, t_caps t = 0 :: r;
  wc_dense : t_capnumlist t = None -> t_caps t = zrange (t_captop t);
  wc_sparse : forall nl, t_capnumlist t = Some nl -> nl = t_caps t /\ t_captop t <> zlen nl
}.

Lemma wf_tree_caps : forall ecma t, wf_tree ecma t -> wf_caps t.
Proof. intros ecma t [H1 H2 H3 H4 _]. constructor; assumption. Qed.

(* The weaker entry that holds without any guard: the name listed for group j is a key of Capnames;
   it holds j, OR the name is the numeral of j — an unnamed group, called by its number — while the
   same numeral is already the NAME of another group (MaintainCaptureOrder files "(?<2>" under the
   name "2": known finding mco_digit_names). *)
Definition names_entry_weak (ecma : bool) (m : nmap) (s : name) (j : Z) : Prop :=
  (ecma = true /\ s = []) \/ (s <> [] /\ exists v, aget s m = Some v /\ (v = j \/ s = itoa j)).

Lemma names_entry_weaken : forall ecma m s j, names_entry ecma m s j -> names_entry_weak ecma m s j.
Proof. intros ecma m s j [H|[H1 H2]]; [now left|right]. split; [assumption|]. exists j. auto. Qed.

Record wf_weak (ecma : bool) (t : ptree) : Prop := {
  ww_caps : wf_caps t;
  ww_names :
    match t_caplist t, t_capnames t with
    | Some l, Some m =>
        Forall2 (names_entry_weak ecma m) l (t_caps t)
        /\ (ecma = true -> aget [] m = None)
        /\ (exists r, l = (if ecma then [] else itoa 0) :: r)
    | None, None => t_capnumlist t = None /\ ecma = false
    | _, _ => False
    end
}.

Lemma Forall2_impl_gm : forall {A B} (R R' : A -> B -> Prop) l l',
  (forall a b, R a b -> R' a b) -> Forall2 R l l' -> Forall2 R' l l'.
Proof. intros A B R R' l l' HI H. induction H; constructor; auto. Qed.

Lemma wf_tree_weak : forall ecma t, wf_tree ecma t -> wf_weak ecma t.
Proof.
  intros ecma t WF. constructor; [exact (wf_tree_caps ecma t WF)|].
  pose proof (wt_names _ _ WF) as W.
  destruct (t_caplist t) as [l|]; destruct (t_capnames t) as [m|]; try contradiction; [|assumption].
  destruct W as [F [H1 H2]]. split; [|split; assumption].
  eapply Forall2_impl_gm; [|exact F]. intros a b. apply names_entry_weaken.
Qed.

(* what the lookups by position need of the name list: its length and its head *)
Definition names_shape (ecma : bool) (t : ptree) : Prop :=
  match t_caplist t, t_capnames t with
  | Some l, Some m => length l = length (t_caps t) /\ (exists r, l = (if ecma then [] else itoa 0) :: r)
                      /\ (ecma = false -> forall s, In s l -> s <> [])
  | None, None => t_capnumlist t = None /\ ecma = false
  | _, _ => False
  end.

Lemma Forall2_len_gm : forall {A B} (R : A -> B -> Prop) l l', Forall2 R l l' -> length l = length l'.
Proof. intros A B R l l' H. induction H; cbn; congruence. Qed.

Lemma wf_weak_shape : forall ecma t, wf_weak ecma t -> names_shape ecma t.
Proof.
  intros ecma t [_ W]. unfold names_shape.
  destruct (t_caplist t) as [l|]; destruct (t_capnames t) as [m|]; try contradiction; [|assumption].
  destruct W as [F [_ H2]]. split; [apply (Forall2_len_gm _ _ _ F)|]. split; [assumption|].
  intros He s Hs. clear H2. induction F as [|a b l' c' Hab F IH]; [destruct Hs|].
  destruct Hs as [<-|Hs]; [|auto]. destruct Hab as [[E _]|[Hne _]]; [congruence|assumption].
Qed.

(* ---------- number -> slot: needs the numbers only ---------- *)
Section CapsLookups.
  Variable t : ptree.
  Hypothesis WF : wf_caps t.
  Let r := compile_maps t.
  Let caps := t_caps t.

  Lemma caps_nodup : NoDup caps.
  Proof. apply ssorted_NoDup, (wc_sorted _ WF). Qed.

  Lemma caps_nonneg : forall k, In k caps -> 0 <= k.
  Proof.
    intros k Hk. destruct (wc_zero _ WF) as [rest E]. pose proof (wc_sorted _ WF) as Hs.
    unfold caps in *. rewrite E in *. inversion Hs as [|? ? _ Hf]; subst.
    destruct Hk as [<-|Hk]; [lia|]. rewrite Forall_forall in Hf. specialize (Hf _ Hk). lia.
  Qed.

  (* the two shapes of the compiled maps *)
  Lemma maps_shape :
    (t_capnumlist t = None /\ r_caps r = None /\ r_capsize r = t_captop t /\ caps = zrange (t_captop t))
    \/ (t_capnumlist t = Some caps /\ r_caps r = Some (combine caps (zrange (zlen caps))) /\ r_capsize r = zlen caps).
  Proof.
    unfold r, compile_maps, caps. destruct (t_capnumlist t) as [nl|] eqn:E.
    - right. destruct (wc_sparse _ WF nl E) as [-> Hne].
      destruct (t_captop t =? zlen (t_caps t)) eqn:E2; [apply Z.eqb_eq in E2; contradiction|].
      cbn. auto.
    - left. cbn. repeat split; auto. apply (wc_dense _ WF E).
  Qed.

  Lemma capsize_len : r_capsize r = zlen caps.
  Proof.
    destruct maps_shape as [[_ [_ [H1 H2]]]|[_ [_ H]]]; [|assumption].
    rewrite H1. unfold zlen. rewrite H2, zrange_length.
    assert (0 <= t_captop t).
    { destruct (Z_le_gt_dec 0 (t_captop t)); [assumption|]. exfalso.
      destruct (wc_zero _ WF) as [rest E]. fold caps in E. rewrite H2 in E.
      unfold zrange in E. replace (Z.to_nat (t_captop t)) with 0%nat in E by lia. discriminate. }
    lia.
  Qed.

  Lemma r_names : r_capnames r = t_capnames t /\ r_capslist r = t_caplist t.
  Proof.
    unfold r, compile_maps. destruct (t_capnumlist t) as [nl|]; [destruct (t_captop t =? zlen nl)|]; auto.
  Qed.

  (* ---- GroupByNumber: number -> slot is the position in the increasing list of numbers ---- *)
  Lemma group_by_number_spec : forall i k, nth_error caps i = Some k -> group_by_number r k = Some (Z.of_nat i).
  Proof.
    intros i k Hn. unfold group_by_number.
    assert (Hi : (i < length caps)%nat) by (apply nth_error_Some; congruence).
    destruct maps_shape as [[_ [Hc [Hs Hz]]]|[_ [Hc Hs]]]; rewrite Hc, Hs.
    - rewrite Hz in Hn. rewrite zrange_nth in Hn by (rewrite Hz, zrange_length in Hi; assumption).
      injection Hn as <-. rewrite Hz, zrange_length in Hi.
      destruct (t_captop t <=? Z.of_nat i) eqn:E1; [apply Z.leb_le in E1; lia|].
      destruct (Z.of_nat i <? 0) eqn:E2; [apply Z.ltb_lt in E2; lia|]. reflexivity.
    - rewrite (zget_combine_nth caps (zrange (zlen caps)) k i caps_nodup).
      + rewrite zrange_nth by (unfold zlen; lia).
        destruct (zlen caps <=? Z.of_nat i) eqn:E1; [apply Z.leb_le in E1; unfold zlen in E1; lia|].
        destruct (Z.of_nat i <? 0) eqn:E2; [apply Z.ltb_lt in E2; lia|]. reflexivity.
      + rewrite zrange_length. unfold zlen. lia.
      + assumption.
  Qed.

  Lemma group_by_number_absent : forall k, ~ In k caps -> group_by_number r k = None.
  Proof.
    intros k Hn. unfold group_by_number.
    destruct maps_shape as [[_ [Hc [Hs Hz]]]|[_ [Hc Hs]]]; rewrite Hc.
    - rewrite Hs. rewrite Hz in Hn. rewrite zrange_In in Hn.
      destruct (t_captop t <=? k) eqn:E1; [reflexivity|]. apply Z.leb_gt in E1.
      destruct (k <? 0) eqn:E2; [reflexivity|]. apply Z.ltb_ge in E2. lia.
    - now rewrite zget_combine_none.
  Qed.

  Lemma group_by_number_range : forall k i, group_by_number r k = Some i -> 0 <= i < r_capsize r.
  Proof.
    intros k i H. unfold group_by_number in H.
    destruct (match r_caps r with Some m => zget k m | None => Some k end) as [n|]; [|discriminate].
    destruct (r_capsize r <=? n) eqn:E1; [discriminate|]. destruct (n <? 0) eqn:E2; [discriminate|].
    cbn in H. injection H as <-. apply Z.leb_gt in E1. apply Z.ltb_ge in E2. lia.
  Qed.

  (* ---- GetGroupNumbers ---- *)
  Lemma fill_numbers_combine : forall (ks : list Z) (pre post : list Z),
    length post = length ks ->
    fill_numbers (combine ks (map (fun i => Z.of_nat (length pre + i)) (seq 0 (length ks)))) (pre ++ post) = Ok (pre ++ ks).
  Proof.
    induction ks as [|k ks IH]; intros pre post Hl.
    - destruct post; [|discriminate]. reflexivity.
    - destruct post as [|p post]; [discriminate|]. cbn in Hl. injection Hl as Hl.
      cbn [length seq map combine fill_numbers].
      replace (length pre + 0)%nat with (length pre) by lia.
      unfold zset_nth. destruct (Z.of_nat (length pre) <? 0) eqn:E; [apply Z.ltb_lt in E; lia|].
      rewrite Nat2Z.id.
      assert (Hset : set_nth (length pre) k (pre ++ p :: post) = Some (pre ++ k :: post)).
      { clear. induction pre as [|x pre IHp]; cbn; [reflexivity|]. now rewrite IHp. }
      rewrite Hset.
      rewrite <- seq_shift, map_map.
      specialize (IH (pre ++ [k]) post Hl).
      rewrite app_length in IH. cbn [length] in IH.
      rewrite <- !app_assoc in IH. cbn [app] in IH.
      erewrite map_ext; [exact IH|]. intros a. cbn. f_equal. lia.
  Qed.

  Lemma get_group_numbers_spec : get_group_numbers r = Ok caps.
  Proof.
    unfold get_group_numbers.
    destruct maps_shape as [[_ [Hc [Hs Hz]]]|[_ [Hc Hs]]]; rewrite Hc.
    - now rewrite Hs, Hz.
    - pose proof (fill_numbers_combine caps [] (repeat 0 (length caps))) as F.
      rewrite repeat_length in F. specialize (F eq_refl). cbn [app length] in F.
      unfold zrange, zlen. rewrite Nat2Z.id.
      rewrite combine_length, map_length, seq_length, Nat.min_id.
      exact F.
  Qed.

  Definition names := get_group_names r.

End CapsLookups.

(* ---------- lookups by position: need the numbers and the shape of the name list ---------- *)
Section ShapeLookups.
  Variable ecma : bool.
  Variable t : ptree.
  Hypothesis WC : wf_caps t.
  Hypothesis WS : names_shape ecma t.
  Let r := compile_maps t.
  Let caps := t_caps t.

  Lemma names_length : length (names t) = length caps.
  Proof.
    unfold names, get_group_names. destruct (r_names t) as [_ ->].
    pose proof WS as W. unfold names_shape in W.
    destruct (t_caplist t) as [l|]; destruct (t_capnames t) as [m|]; try contradiction.
    - now destruct W as [F _].
    - rewrite map_length, zrange_length, (capsize_len t WC). unfold zlen. fold caps. lia.
  Qed.

  (* the name listed at index i is the name of the number listed at index i *)
  Lemma name_from_number_spec : forall i k, nth_error caps i = Some k ->
    group_name_from_number r k = nth i (names t) [].
  Proof.
    intros i k Hn. unfold group_name_from_number, names, get_group_names. fold r.
    assert (Hi : (i < length caps)%nat) by (apply nth_error_Some; congruence).
    pose proof names_length as NL. unfold names, get_group_names in NL. fold r in NL.
    destruct (r_names t) as [_ Hl]. fold r in Hl. rewrite Hl in *.
    destruct (t_caplist t) as [l|] eqn:El.
    - assert (Hidx : match r_caps r with Some m => zget k m | None => Some k end = Some (Z.of_nat i)).
      { destruct (maps_shape t WC) as [[_ [Hc [Hs Hz]]]|[_ [Hc Hs]]]; fold r in Hc, Hs; fold caps in Hc; rewrite Hc.
        - fold caps in Hz. rewrite Hz in Hn. rewrite zrange_nth in Hn by (rewrite Hz, zrange_length in Hi; assumption). congruence.
        - rewrite (zget_combine_nth caps (zrange (zlen caps)) k i (caps_nodup t WC)); [|rewrite zrange_length; unfold zlen; lia|assumption].
          apply zrange_nth. unfold zlen. lia. }
      rewrite Hidx.
      destruct (0 <=? Z.of_nat i) eqn:E1; [|apply Z.leb_gt in E1; lia].
      destruct (Z.of_nat i <? zlen l) eqn:E2; [|apply Z.ltb_ge in E2; unfold zlen in E2; lia].
      cbn. now rewrite Nat2Z.id.
    - (* dense, no table *)
      pose proof WS as W. unfold names_shape in W. rewrite El in W. destruct (t_capnames t); [contradiction|].
      destruct W as [Hnone _].
      destruct (maps_shape t WC) as [[_ [Hc [Hs Hz]]]|[Hsome _]]; [|congruence]. fold r in Hc, Hs. fold caps in Hz.
      rewrite Hz in Hn, Hi. rewrite zrange_length in Hi. rewrite zrange_nth in Hn by assumption. injection Hn as <-.
      rewrite Hs.
      destruct (0 <=? Z.of_nat i) eqn:E1; [|apply Z.leb_gt in E1; lia].
      destruct (Z.of_nat i <? t_captop t) eqn:E2; [|apply Z.ltb_ge in E2; lia].
      cbn. rewrite (nth_indep _ [] (itoa 0)) by (rewrite map_length, zrange_length; assumption).
      rewrite map_nth. f_equal. unfold zrange. rewrite (nth_indep _ 0 (Z.of_nat 0)) by (rewrite map_length, seq_length; assumption).
      rewrite map_nth, seq_nth by assumption. reflexivity.
  Qed.

  (* Match.Groups(): element i carries the name listed at index i *)
  Lemma groups_names_spec : groups_names ecma r = names t.
  Proof.
    unfold groups_names, names, get_group_names, group_name_from_slot. fold r.
    destruct (r_names t) as [_ Hl]. fold r in Hl. rewrite Hl.
    pose proof WS as W. unfold names_shape in W.
    pose proof names_length as NL. unfold names, get_group_names in NL. fold r in NL. rewrite Hl in NL.
    destruct (t_caplist t) as [l|] eqn:El; destruct (t_capnames t) as [m|] eqn:Em; try contradiction.
    - destruct W as [_ [[rest Hhd] _]].
      unfold r. rewrite (capsize_len t WC). unfold zlen. fold caps. rewrite <- NL.
      apply nth_error_ext_eq. intros n. rewrite nth_error_map.
      destruct (Nat.lt_ge_cases n (length l)) as [Hn|Hn].
      + rewrite zrange_nth by (now rewrite Nat2Z.id). cbn [option_map].
        destruct n as [|n].
        * cbn. rewrite Hhd. reflexivity.
        * destruct (Z.of_nat (S n) =? 0) eqn:E0; [apply Z.eqb_eq in E0; lia|].
          destruct (0 <=? Z.of_nat (S n)) eqn:E1; [|apply Z.leb_gt in E1; lia].
          unfold zlen.
          destruct (Z.of_nat (S n) <? Z.of_nat (length l)) eqn:E2; [|apply Z.ltb_ge in E2; lia].
          cbn [andb]. rewrite Nat2Z.id. symmetry. now apply nth_error_nth'.
      + rewrite zrange_nth_none by (now rewrite Nat2Z.id). cbn. symmetry. now apply nth_error_None.
    - destruct W as [_ He]. subst ecma.
      apply map_ext_in. intros i Hi. destruct (i =? 0) eqn:E; [apply Z.eqb_eq in E; now subst|reflexivity].
  Qed.

  (* outside ECMAScript every group has a non-empty name *)
  Lemma names_nonempty : ecma = false -> forall s, In s (names t) -> s <> [].
  Proof.
    intros He s Hs. unfold names, get_group_names in Hs. fold r in Hs. destruct (r_names t) as [_ Hl]. fold r in Hl. rewrite Hl in Hs.
    pose proof WS as W. unfold names_shape in W.
    destruct (t_caplist t) as [l|]; destruct (t_capnames t) as [m|]; try contradiction.
    - destruct W as [_ [_ H3]]. now apply H3.
    - apply in_map_iff in Hs. destruct Hs as [i [<- Hi]]. apply zrange_In in Hi. apply itoa_nonempty. lia.
  Qed.

End ShapeLookups.

(* ---------- the name <-> number round trips: need every entry of the name list ---------- *)
Section Lookups.
  Variable ecma : bool.
  Variable t : ptree.
  Hypothesis WF : wf_tree ecma t.
  Let WC : wf_caps t := wf_tree_caps ecma t WF.
  Let WS : names_shape ecma t := wf_weak_shape ecma t (wf_tree_weak ecma t WF).
  Let r := compile_maps t.
  Let caps := t_caps t.

  Lemma number_from_name_spec : forall i k s, nth_error caps i = Some k -> nth_error (names t) i = Some s ->
    (ecma = true /\ s = []) \/ (s <> [] /\ group_number_from_name r s = k).
  Proof.
    intros i k s Hn Hs. unfold group_number_from_name. unfold names, get_group_names in Hs. fold r in Hs.
    destruct (r_names t) as [Hm Hl]. fold r in Hm, Hl. rewrite Hm. rewrite Hl in Hs.
    pose proof (wt_names _ _ WF) as W.
    destruct (t_caplist t) as [l|] eqn:El; destruct (t_capnames t) as [m|] eqn:Em; try contradiction.
    - destruct W as [F _].
      assert (Hent : names_entry ecma m s k).
      { clear -F Hn Hs. fold caps in F. revert i Hn Hs. induction F as [|a b l' c' Hab F IH]; intros i Hn Hs.
        - destruct i; discriminate.
        - destruct i; cbn in *; [congruence|eauto]. }
      destruct Hent as [He|[Hne Hg]]; [now left|right]. split; [assumption|]. now rewrite Hg.
    - right.
      destruct (maps_shape t WC) as [[_ [Hc [Hsz Hz]]]|[Hsome _]]; [|destruct W; congruence]. fold r in Hc, Hsz. fold caps in Hz.
      assert (Hi : (i < length caps)%nat) by (apply nth_error_Some; congruence).
      rewrite Hz in Hn, Hi. rewrite zrange_length in Hi. rewrite zrange_nth in Hn by assumption. injection Hn as <-.
      rewrite nth_error_map in Hs. rewrite Hsz in Hs. rewrite zrange_nth in Hs by assumption. cbn in Hs. injection Hs as <-.
      assert (Hne : itoa (Z.of_nat i) <> []) by (apply itoa_nonempty; lia).
      split; [assumption|].
      destruct (itoa (Z.of_nat i)) eqn:E; [contradiction|]. rewrite <- E.
      rewrite Hsz. apply parse_decimal_itoa. lia.
  Qed.

  (* number -> name -> number *)
  Lemma number_name_number : forall k, In k caps ->
    let s := group_name_from_number r k in
    (ecma = true /\ s = []) \/ (s <> [] /\ group_number_from_name r s = k).
  Proof.
    intros k Hk. cbn zeta. destruct (In_nth_error _ _ Hk) as [i Hi].
    unfold r. rewrite (name_from_number_spec ecma t WC WS i k Hi).
    assert (Hlt : (i < length (names t))%nat) by (rewrite (names_length ecma t WC WS); apply nth_error_Some; fold caps; congruence).
    apply (number_from_name_spec i k _ Hi). now apply nth_error_nth'.
  Qed.

  (* name -> number -> name, for every listed name *)
  Lemma name_number_name : forall s, In s (names t) -> s <> [] ->
    In (group_number_from_name r s) caps /\ group_name_from_number r (group_number_from_name r s) = s.
  Proof.
    intros s Hs Hne. destruct (In_nth_error _ _ Hs) as [i Hi].
    assert (Hlt : (i < length caps)%nat) by (unfold caps; rewrite <- (names_length ecma t WC WS); apply nth_error_Some; congruence).
    destruct (nth_error caps i) as [k|] eqn:Hk; [|apply nth_error_None in Hk; lia].
    destruct (number_from_name_spec i k s Hk Hi) as [[_ He]|[_ Hg]]; [contradiction|].
    rewrite Hg. split; [eapply nth_error_In; eauto|].
    unfold r. rewrite (name_from_number_spec ecma t WC WS i k Hk). now apply nth_error_nth.
  Qed.

  (* GroupByName is GroupByNumber of the looked-up number (and nil when there is no such name) *)
  Lemma group_by_name_spec : forall s,
    group_by_name r s = if group_number_from_name r s <? 0 then None else group_by_number r (group_number_from_name r s).
  Proof. reflexivity. Qed.

  Lemma group_by_name_listed : forall i k s, nth_error caps i = Some k -> nth_error (names t) i = Some s -> s <> [] ->
    group_by_name r s = Some (Z.of_nat i) /\ group_by_number r k = Some (Z.of_nat i).
  Proof.
    intros i k s Hk Hs Hne.
    destruct (number_from_name_spec i k s Hk Hs) as [[_ He]|[_ Hg]]; [contradiction|].
    pose proof (group_by_number_spec t WC i k Hk) as Hb. fold r in Hb. split; [|assumption].
    rewrite group_by_name_spec, Hg.
    pose proof (caps_nonneg t WC k (nth_error_In _ _ Hk)).
    destruct (k <? 0) eqn:E; [apply Z.ltb_lt in E; lia|assumption].
  Qed.

End Lookups.
