(* Totality, the missing half of compile_correct_exec: the interpreter with its REAL finite stacks and no
   limit (L = -1) follows the unbounded-stack path of compile_correct_top step for step -- it never faults
   (no Crash of any kind, no error) and, given interpreter fuel for the length of that path, returns.

   The bridge of Proofs/VMUBridge.v goes from a real step that succeeds to a [ustep].  Here the converse:
       tot_step :  at an instruction boundary, with the capacity invariant [tinv]
                   (free backtracking-stack slots >= need(pc), free grouping-stack slots >= need(pc),
                    both capacities >= 4*TrackCount), if the step on the re-padded state succeeds then the
                    real step succeeds with the same result, and [tinv] holds again.
   [need] is VMCapacityProofs.cp_need (the weight of the code from pc on): DESIGN Appendix A's capacity argument
   for the backtracking stack.  For the GROUPING stack that potential argument does not go through (a Back
   handler that re-pushes a mark and then backtracks into a frame of the same instruction is not covered by
   ensureStorage), so its bound is taken from the path: [path_ok] below.

   HYPOTHESIS that is not discharged in this file ([path_ok], a property of the UNBOUNDED path only):
     (a) every state of the path is at an instruction boundary of the program (control-flow safety in the
         sense of C13 / VMCapacityProofs.cp_boundary), and
     (b) its grouping stack is at least two words below the size initMatch allocates
         (max (8*TrackCount) 32; nesting depth of marks/counters/jumps, two words each).
   "Every pc reached has code and every pop finds its frame" does follow from compile_correct_top's path (each
   of its steps is a successful ustep); (a) and (b) are facts about the SHAPE of the frames, which the
   statement of compile_correct_top does not expose.  Both are decidable on a concrete run: [mon_run] below
   checks them while running (CompileLimit.mon_steps / mon_sound).  DISCHARGED for every program the writer emits:
   Proofs/CompileCfSafe.v (a verified static verifier implies path_ok) + Proofs/CompileTyEmit.v (every emitted
   program is accepted) = Proofs/CompileSafe.v compiled_path_ok. *)
From Verif Require Import Base.Prelude Model.Tree Model.Spec Model.VM Model.Writer Gen.RunnerGen
  Proofs.VMLimitProofs Proofs.VMLimitSimProofs Proofs.VMCapacityProofs Proofs.VMU Proofs.VMUBridge.
From Coq Require Import Relations ZifyBool.
Ltac Zify.zify_post_hook ::= Z.div_mod_to_equations.

Section Tot.
Variable e : env.
Variable p : program.
Hypothesis tc_nonneg : 0 <= trackcount p.
Hypothesis Hw : cp_need (codes p) 0 <= trackcount p * G_ensure_factor.
(* the real side runs with any negative limit ("no limit"); the padded side of [ustep] uses -1 *)
Variable L0 : Z.
Hypothesis HL0 : L0 < 0.

Notation need := (VMUBridge.need p).
Definition tfree (s : vm) : Z := tcap s - zlen (track s).

Definition sinit : Z := Z.max (trackcount p * G_stacksize_mul) G_stacksize_min.
Definition tinv (s : vm) : Prop :=
  cp_need (codes p) (pc s) <= tfree s /\ need <= tcap s /\ sinit <= scap s.

(* the real side succeeds whenever the padded side does, with the same result *)
Definition relT (r1 r2 : res outcome) : Prop :=
  match r2 with
  | Ok (Next b) => exists a, r1 = Ok (Next a) /\ same a b /\ tinv a
  | Ok (Done b) => exists a, r1 = Ok (Done a) /\ same a b /\ tinv a
  | _ => True
  end.

Lemma t_ensure s1 s2 : same s1 s2 -> roomy p 0 s2 ->
  zlen (track s1) <= tcap s1 -> need <= tcap s1 -> 0 <= scap s1 ->
  exists a, ensure_storage p L0 s1 = Ok a /\ ensure_storage p (-1) s2 = Ok s2 /\ same a s2 /\
            need <= tfree a /\ need <= tcap a /\ scap s1 <= scap a.
Proof.
  intros HS [HT HK] Ht Hnt Hns.
  unfold same in HS. destruct HS as (Hpc & Hmd & Htp & Htr & Hst & Hcr & Hmc).
  assert (E2 : ensure_storage p (-1) s2 = Ok s2).
  { unfold ensure_storage. fold need.
    replace (scap s2 - zlen (stack s2) <? need) with false by lia.
    replace (tcap s2 - zlen (track s2) <? need) with false by lia. reflexivity. }
  unfold ensure_storage at 1. fold need. unfold tfree, same.
  pose proof (vml_zlen_nonneg (track s1)).
  assert (Hn0 : 0 <= need) by (unfold VMUBridge.need, G_ensure_factor; lia).
  destruct (scap s1 - zlen (stack s1) <? need) eqn:E1.
  - vm_cbn. destruct (tcap s1 - zlen (track s1) <? need) eqn:E3.
    + replace (tcap s1 * 2 =? 0) with false by lia.
      replace ((0 <=? L0) && (L0 <? tcap s1 * 2)) with false by lia.
      replace (tcap s1 * 2 <=? tcap s1) with false by lia.
      replace (tcap s1 * 2 - zlen (track s1) <? need) with false by lia.
      eexists. split; [reflexivity|]. split; [exact E2|]. vm_cbn. repeat split; try assumption; lia.
    + eexists. split; [reflexivity|]. split; [exact E2|]. vm_cbn. repeat split; try assumption; lia.
  - destruct (tcap s1 - zlen (track s1) <? need) eqn:E3.
    + replace (tcap s1 * 2 =? 0) with false by lia.
      replace ((0 <=? L0) && (L0 <? tcap s1 * 2)) with false by lia.
      replace (tcap s1 * 2 <=? tcap s1) with false by lia.
      replace (tcap s1 * 2 - zlen (track s1) <? need) with false by lia.
      eexists. split; [reflexivity|]. split; [exact E2|]. vm_cbn. repeat split; try assumption; lia.
    + eexists. split; [reflexivity|]. split; [exact E2|]. repeat split; try assumption; lia.
Qed.

Lemma sinit_nonneg : 0 <= sinit.
Proof. unfold sinit, G_stacksize_min. lia. Qed.

Lemma t_goto s1 s2 a : same s1 s2 -> roomy p 0 s2 ->
  cp_need (codes p) (pc s1 + 1) <= tfree s1 -> need <= tcap s1 -> sinit <= scap s1 ->
  relT (cont (goto p L0 s1 a)) (cont (goto p (-1) s2 a)).
Proof.
  intros HS HR Ht Hnt Hns.
  pose proof (cp_need_nonneg (codes p) (pc s1 + 1)) as Hnn. pose proof sinit_nonneg as Hs0.
  assert (Hpc : pc s1 = pc s2) by (unfold same in HS; tauto).
  unfold cont, goto. rewrite <- Hpc.
  destruct (a <=? pc s1) eqn:Ea.
  - destruct (t_ensure s1 s2 HS HR) as (x & E1 & E2 & Hx & F1 & F3 & F4); try (unfold tfree in *; lia).
    rewrite E1, E2. cbn [bind]. destruct (code_at p a) as [w|]; cbn [bind relT]; [|exact I].
    eexists. split; [reflexivity|]. split.
    + unfold same in *. vm_cbn. tauto.
    + unfold tinv, tfree, VMUBridge.need in *. vm_cbn. pose proof (cp_need_le_total (codes p) a). repeat split; lia.
  - cbn [bind]. destruct (code_at p a) as [w|]; cbn [bind relT]; [|exact I].
    eexists. split; [reflexivity|]. split.
    + unfold same in *. vm_cbn. tauto.
    + unfold tinv, tfree, VMUBridge.need in *. vm_cbn.
      pose proof (cp_need_mono (codes p) (pc s1 + 1) a ltac:(lia)). repeat split; lia.
Qed.

Lemma t_adv s1 s2 i : same s1 s2 -> 0 <= i ->
  cp_need (codes p) (pc s1 + 1) <= tfree s1 -> need <= tcap s1 -> sinit <= scap s1 ->
  relT (cont (advance p s1 i)) (cont (advance p s2 i)).
Proof.
  intros HS Hi Ht Hnt Hns.
  assert (Hpc : pc s1 = pc s2) by (unfold same in HS; tauto).
  unfold cont, advance. rewrite <- Hpc.
  destruct (code_at p (pc s1 + i + 1)) as [w|]; cbn [bind relT]; [|exact I].
  eexists. split; [reflexivity|]. split.
  - unfold same in *. vm_cbn. tauto.
  - unfold tinv, tfree, VMUBridge.need in *. vm_cbn.
    pose proof (cp_need_mono (codes p) (pc s1 + 1) (pc s1 + i + 1) ltac:(lia)). repeat split; lia.
Qed.

Lemma t_brk s1 s2 : same s1 s2 -> roomy p 0 s2 ->
  cp_need (codes p) (pc s1) <= tfree s1 + 1 ->
  zlen (track s1) <= tcap s1 -> need <= tcap s1 -> sinit <= scap s1 ->
  relT (brk p L0 s1) (brk p (-1) s2).
Proof.
  intros HS [HT HK] Ht Hlt Hnt Hns.
  pose proof (cp_need_nonneg (codes p) (pc s1)) as Hnn. pose proof sinit_nonneg as Hs0.
  unfold tfree in Ht. revert Ht Hlt.
  unfold brk, backtrack. pose proof HS as HS0.
  unfold same in HS. destruct HS as (Hpc & Hmd & Htp & Htr & Hst & Hcr & Hmc).
  rewrite <- Htr, <- Hpc.
  destruct (track s1) as [|np t] eqn:Et; [intros; exact I|]. intros Ht Hlt.
  destruct (if np <? 0 then (- np, Back2Bit) else (np, BackBit)) as [newpos m].
  destruct (code_at p newpos) as [w|]; [|exact I].
  assert (HS1 : same (set_track s1 t) (set_track s2 t)) by (unfold same; vm_cbn; tauto).
  rewrite vml_zlen_cons in *. pose proof (vml_zlen_nonneg t) as Hzt.
  destruct (newpos <? pc s1) eqn:En.
  - destruct (t_ensure (set_track s1 t) (set_track s2 t) HS1) as (x & E1 & E2 & Hx & F1 & F3 & F4);
      try (unfold roomy, tfree in *; vm_cbn; rewrite <- ?Htr, ?Et, ?vml_zlen_cons in *; lia).
    rewrite E1, E2. cbn [bind relT]. eexists. split; [reflexivity|]. split.
    + unfold same in *. vm_cbn. tauto.
    + unfold tinv, tfree, VMUBridge.need in *. vm_cbn. vm_cbn_in F4. pose proof (cp_need_le_total (codes p) newpos). repeat split; lia.
  - cbn [bind relT]. eexists. split; [reflexivity|]. split; [unfold same in *; vm_cbn; tauto|].
    unfold tinv, tfree, VMUBridge.need in *. vm_cbn.
    pose proof (cp_need_mono (codes p) (pc s1) newpos ltac:(lia)). repeat split; lia.
Qed.

(* ---------- one step: symbolic evaluation of VM.step on both sides ---------- *)
Ltac t_cbv :=
  cbv beta iota zeta delta
      [pc mode tp track tcap stack scap crawl mcaps
       set_pc set_tp set_track set_stack set_caps set_tcap set_scap bind].

Ltac t_case :=
  match goal with
  | |- context [match ?x with _ => _ end] =>
      lazymatch x with
      | context [match _ with _ => _ end] => fail
      | context [bind _ _] => fail
      | _ => destruct x eqn:?
      end
  | |- context [bind ?x _] =>
      lazymatch x with
      | context [match _ with _ => _ end] => fail
      | context [bind _ _] => fail
      | _ => destruct x eqn:?
      end
  end.

Ltac t_weigh Hsplit :=
  repeat match goal with
         | H : (Z.land _ _ =? _) = false |- _ => clear H
         | H : (_ || _) = false |- _ =>
             lazymatch type of H with context [Z.land _ _] => clear H end
         end;
  repeat match goal with
         | H : (_ || _) = true |- _ => apply orb_true_iff in H; destruct H as [H|H]
         end;
  try match goal with
      | H : (Z.land ?w 63 =? ?X) = true |- _ =>
          apply Z.eqb_eq in H; rewrite (cp_weight_land w), H in Hsplit;
          let v := eval vm_compute in (cp_weight X) in change (cp_weight X) with v in Hsplit;
          try rewrite H in *; try unfold X in *
      end;
  repeat match goal with H : context [Z.land _ _] |- _ => clear H end.

Ltac t_norm :=
  repeat match goal with
         | H : Some _ = Some _ |- _ => injection H as H; try subst
         | H1 : ?x = Some ?a, H2 : ?x = Some ?b |- _ =>
             assert (a = b) by congruence; try subst b; clear H2
         end.

Ltac t_lens :=
  vml_lens;
  repeat match goal with
         | |- context [zlen (skipn ?k ?l)] =>
             lazymatch goal with
             | _ : zlen (skipn k l) <= zlen l |- _ => fail
             | _ => pose proof (vml_zlen_skipn_le k l)
             end
         | _ : context [zlen (skipn ?k ?l)] |- _ =>
             lazymatch goal with
             | _ : zlen (skipn k l) <= zlen l |- _ => fail
             | _ => pose proof (vml_zlen_skipn_le k l)
             end
         end;
  repeat match goal with
         | |- context [zlen ?l] =>
             lazymatch goal with H' : 0 <= zlen l |- _ => fail | _ => pose proof (vml_zlen_nonneg l) end
         | _ : context [zlen ?l] |- _ =>
             lazymatch goal with H' : 0 <= zlen l |- _ => fail | _ => pose proof (vml_zlen_nonneg l) end
         end.

Ltac t_arith :=
  unfold same, roomy, tinv, tfree, VMUBridge.need, G_ensure_factor in *;
  cbn [pc mode tp track tcap stack scap crawl mcaps
       set_pc set_tp set_track set_stack set_caps set_tcap set_scap] in *;
  t_lens; repeat split; try reflexivity; lia.

Ltac t_leaf Hsplit :=
  first
    [ exact I
    | t_weigh Hsplit; t_norm;
      first
        [ exact I
        | apply t_adv; [t_arith|lia|t_arith|t_arith|t_arith]
        | apply t_goto; [t_arith|t_arith|t_arith|t_arith|t_arith]
        | apply t_brk; [t_arith|t_arith|t_arith|t_arith|t_arith|t_arith]
        | cbn [relT]; eexists; split; [reflexivity|]; t_arith
        | exfalso; congruence
        | exfalso; t_arith ] ].

Lemma tot_step s1 s2 w :
  cp_boundary (codes p) (pc s1) w -> tinv s1 -> zlen (stack s1) + 2 <= sinit -> same s1 s2 -> roomy p 16 s2 ->
  relT (step e p L0 s1) (step e p (-1) s2).
Proof.
  intros Hb Hinv Hroom. pose proof sinit_nonneg as Hs0.
  pose proof (cp_need_split _ _ _ Hb) as Hsplit.
  pose proof (cp_weight_range w) as Hwr.
  pose proof (cp_need_nonneg (codes p) (pc s1 + 1)) as Hnn.
  apply cp_boundary_word in Hb.
  destruct s1 as [pc1 md1 tp1 tr1 tc1 st1 sc1 cr1 mc1].
  destruct s2 as [pc2 md2 tp2 tr2 tc2 st2 sc2 cr2 mc2].
  unfold same, roomy. vm_cbn. vm_cbn_in Hb. vm_cbn_in Hsplit. vm_cbn_in Hnn. vm_cbn_in Hroom.
  intros (-> & -> & -> & -> & -> & -> & ->) [HT HK].
  unfold tinv, tfree in Hinv. vm_cbn_in Hinv. destruct Hinv as (I1 & I3 & I4).
  unfold step. unfold code_at. vm_cbn. rewrite Hb. fold (code_at p).
  unfold tpush, spush, opnd, trackto, uncapture, do_capture, do_transfer, fwdchars.
  repeat (t_cbv; rewrite ?uncapture_to_pure; t_cbv; t_case).
  all: t_cbv.
  all: t_leaf Hsplit.
Qed.

(* ---------- counted paths ---------- *)
Inductive ustepsN : nat -> vm -> vm -> Prop :=
| usN_0 s : ustepsN 0 s s
| usN_S n a b c : ustep e p a = Ok (Next b) -> ustepsN n b c -> ustepsN (S n) a c.

Lemma usteps_counted a b : usteps e p a b -> exists n, ustepsN n a b.
Proof.
  intros H. apply clos_rt_rt1n in H. induction H as [a|a b c Hab _ [n IH]].
  - exists 0%nat. constructor.
  - exists (S n). econstructor; [exact Hab|exact IH].
Qed.

Lemma ustepsN_usteps n a b : ustepsN n a b -> usteps e p a b.
Proof. induction 1; [apply usteps_refl|eapply usteps_step; eassumption]. Qed.

Definition bnd (c : Z) : Prop := exists w, cp_boundary (codes p) c w.
(* the two facts about the unbounded path from [a] that are taken as hypothesis *)
Definition st_good (s : vm) : Prop := bnd (pc s) /\ zlen (stack s) + 2 <= sinit.
Definition path_ok (a : vm) : Prop := forall s, usteps e p a s -> st_good s.

Lemma path_ok_step a b : path_ok a -> ustep e p a = Ok (Next b) -> path_ok b.
Proof. intros H Hab s Hs. apply H. eapply usteps_step; eassumption. Qed.

(* a real step from a state with the invariant, along a ustep *)
Lemma tot_real_step s : tinv s -> st_good (norm s) ->
  (forall b, ustep e p (norm s) = Ok (Next b) -> exists a, step e p L0 s = Ok (Next a) /\ norm a = b /\ tinv a) /\
  (forall b, ustep e p (norm s) = Ok (Done b) -> exists a, step e p L0 s = Ok (Done a) /\ norm a = b /\ tinv a).
Proof.
  intros Hi [[w Hb] Hroom]. cbn [norm VMU.mk pc stack] in Hb, Hroom.
  pose proof (tot_step s (repad p (norm s)) w Hb Hi Hroom (same_repad p s) (roomy_repad p s)) as G.
  unfold ustep. split; intros b H.
  - destruct (step e p (-1) (repad p (norm s))) as [[b0|b0|c|w0]| | |] eqn:E; try discriminate.
    injection H as <-. cbn [relT] in G. destruct G as (a & Ea & Hs & Hia).
    exists a. split; [exact Ea|]. split; [apply same_norm; exact Hs|exact Hia].
  - destruct (step e p (-1) (repad p (norm s))) as [[b0|b0|c|w0]| | |] eqn:E; try discriminate.
    injection H as <-. cbn [relT] in G. destruct G as (a & Ea & Hs & Hia).
    exists a. split; [exact Ea|]. split; [apply same_norm; exact Hs|exact Hia].
Qed.

Lemma run_steps_total : forall n s sd sd',
  tinv s -> path_ok (norm s) -> ustepsN n (norm s) sd -> ustep e p sd = Ok (Done sd') ->
  forall k,
    ((n < k)%nat -> exists s', run_steps e p L0 k s = Ok (s', true) /\ norm s' = sd' /\ tinv s') /\
    ((k <= n)%nat -> exists s'', run_steps e p L0 k s = Ok (s'', false) /\ tinv s'' /\
                                  path_ok (norm s'') /\ ustepsN (n - k) (norm s'') sd).
Proof.
  induction n as [|n IH]; intros s sd sd' Hi Hp Hn Hd k.
  - inversion Hn; subst. split.
    + intros Hk. destruct k as [|k]; [lia|]. cbn [run_steps].
      destruct (tot_real_step s Hi (Hp _ (usteps_refl e p _))) as [_ G].
      destruct (G sd' Hd) as (a & Ea & Ha & Hia). rewrite Ea. exists a. split; [reflexivity|]. split; [exact Ha|exact Hia].
    + intros Hk. assert (k = 0%nat) by lia. subst k. cbn [run_steps]. exists s.
      split; [reflexivity|]. split; [exact Hi|]. split; [exact Hp|]. constructor.
  - inversion Hn as [|n0 a b c Hab Hbc]; subst.
    destruct (tot_real_step s Hi (Hp _ (usteps_refl e p _))) as [G _].
    destruct (G b Hab) as (a & Ea & Ha & Hia). subst b.
    pose proof (path_ok_step _ _ Hp Hab) as Hp'.
    destruct k as [|k].
    + split; [lia|]. intros _. cbn [run_steps]. exists s.
      split; [reflexivity|]. split; [exact Hi|]. split; [exact Hp|]. exact Hn.
    + cbn [run_steps]. rewrite Ea.
      destruct (IH a sd sd' Hia Hp' Hbc Hd k) as [I1 I2]. split.
      * intros Hk. apply I1. lia.
      * intros Hk. replace (S n - S k)%nat with (n - k)%nat by lia. apply I2. lia.
Qed.

Lemma run_total : forall fuel n s sd sd',
  tinv s -> path_ok (norm s) -> ustepsN n (norm s) sd -> ustep e p sd = Ok (Done sd') ->
  ((n < 1000 * fuel)%nat -> exists s', run e p L0 fuel s = Ok s' /\ norm s' = sd' /\ tinv s') /\
  ((1000 * fuel <= n)%nat -> run e p L0 fuel s = Fuel).
Proof.
  induction fuel as [|f IH]; intros n s sd sd' Hi Hp Hn Hd.
  - split; [lia|]. intros _. reflexivity.
  - cbn [run]. destruct (run_steps_total n s sd sd' Hi Hp Hn Hd 1000) as [R1 R2].
    destruct (Nat.lt_ge_cases n 1000) as [Hlt|Hge].
    + destruct (R1 Hlt) as (s' & Es & Hs'). rewrite Es. cbn [bind snd fst]. split.
      * intros _. exists s'. split; [reflexivity|exact Hs'].
      * intros Hc. lia.
    + destruct (R2 Hge) as (s'' & Es & Hi'' & Hp'' & Hn''). rewrite Es. cbn [bind snd fst].
      destruct (IH (n - 1000)%nat s'' sd sd' Hi'' Hp'' Hn'' Hd) as [J1 J2]. split.
      * intros Hc. apply J1. lia.
      * intros Hc. apply J2. lia.
Qed.

(* initMatch + goTo(0) on a fresh runner: the invariant holds at the start *)
Lemma tot_start t w0 : code_at p 0 = Some w0 ->
  exists s0, goto p L0 (init_vm p L0 t) 0 = Ok s0 /\ tinv s0 /\
             norm s0 = VMU.mk 0 0 t [] [] [] (repeat [] (Z.to_nat (capsize p))).
Proof.
  intros H0. set (i0 := init_vm p L0 t).
  assert (Htc : tcap i0 = Z.max (trackcount p * 8) 64).
  { unfold i0, init_vm. cbn [tcap]. unfold G_tracksize_mul, G_tracksize_min.
    replace ((0 <=? L0) && (L0 <? Z.max (trackcount p * 8) 64)) with false by lia. reflexivity. }
  assert (Hsc : scap i0 = Z.max (trackcount p * 8) 32) by reflexivity.
  assert (Htr : track i0 = []) by reflexivity. assert (Hst : stack i0 = []) by reflexivity.
  assert (Hn : need = trackcount p * 4) by reflexivity.
  assert (E : ensure_storage p L0 i0 = Ok i0).
  { unfold ensure_storage. fold need. rewrite Hsc, Hst. change (zlen (@nil Z)) with 0.
    replace (Z.max (trackcount p * 8) 32 - 0 <? need) with false by lia.
    rewrite Htc, Htr. change (zlen (@nil Z)) with 0.
    replace (Z.max (trackcount p * 8) 64 - 0 <? need) with false by lia. reflexivity. }
  unfold goto. change (pc i0) with 0. change (0 <=? 0) with true. cbv iota. rewrite E. cbn [bind]. rewrite H0.
  eexists. split; [reflexivity|]. split; [|reflexivity].
  unfold tinv, tfree, sinit, G_stacksize_mul, G_stacksize_min. vm_cbn. rewrite Htc, Hsc, Htr.
  change (zlen (@nil Z)) with 0. fold need in Hw. repeat split; lia.
Qed.

(* the real interpreter, no limit: Ok with enough fuel, otherwise Fuel -- never a fault *)
Theorem exec_total t n sd sd' w0 :
  code_at p 0 = Some w0 ->
  let a0 := VMU.mk 0 0 t [] [] [] (repeat [] (Z.to_nat (capsize p))) in
  path_ok a0 -> ustepsN n a0 sd -> ustep e p sd = Ok (Done sd') ->
  forall vfuel,
    ((n < 1000 * vfuel)%nat -> exists s', exec_at e p L0 vfuel t = Ok s' /\ norm s' = sd' /\ tinv s') /\
    ((1000 * vfuel <= n)%nat -> exec_at e p L0 vfuel t = Fuel).
Proof.
  intros H0 a0 Hp Hn Hd vfuel. unfold exec_at.
  destruct (tot_start t w0 H0) as (s0 & Eg & Hi & Hs0). rewrite Eg. cbn [bind].
  fold a0 in Hs0. rewrite <- Hs0 in Hp, Hn.
  exact (run_total vfuel n s0 sd sd' Hi Hp Hn Hd).
Qed.

End Tot.
