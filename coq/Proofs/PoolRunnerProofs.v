(* C12, part B: the invariant of a pooled runner, its preservation by scan/putRunner, and independence of a
   scan's result from the runner it runs on. *)
From Verif Require Import Base.Prelude Model.Pool Proofs.PoolStackProofs.

(* facts about a compiled Regexp: makeQuickCode copies the Code struct, so both programs share TrackCount *)
Definition cfg_wf (cfg : re_cfg) : Prop :=
  0 <= cfg_tc cfg Full /\ cfg_tc cfg Quick = cfg_tc cfg Full /\ 0 <= cfg_capsize cfg.

Definition stacks_ok (cfg : re_cfg) (r : runner) : Prop :=
  match r_track r, r_stack r, r_crawl r with
  | None, None, None => True
  | Some tk, Some st, Some cr =>
    track_len_ok (cfg_limit cfg) (cfg_tc cfg Full) (sk_len tk) /\
    stack_len_ok (cfg_tc cfg Full) (sk_len st) /\
    r_trackcount r = cfg_tc cfg Full
  | _, _, _ => False
  end.
Definition match_ok (cfg : re_cfg) (r : runner) : Prop :=
  match r_match r with
  | None => True
  | Some m => length (mo_matchcount m) = Z.to_nat (cfg_capsize cfg)
  end.
(* holds at every moment of a runner's life *)
Definition runner_inv (cfg : re_cfg) (r : runner) : Prop := stacks_ok cfg r /\ match_ok cfg r.
(* holds of every runner in the pool: everything else in the record is arbitrary *)
Definition runner_ok (cfg : re_cfg) (r : runner) : Prop :=
  runner_inv cfg r /\ r_code r = Full /\ r_text r = None /\
  match r_match r with None => True | Some m => mo_text m = false end.

Lemma fresh_runner_ok : forall cfg id, runner_ok cfg (fresh_runner id).
Proof. intros; repeat split; cbn; auto. Qed.

Lemma put_reset_ok : forall cfg r, runner_inv cfg r -> runner_ok cfg (put_reset r).
Proof.
  intros cfg r [Hs Hm]. unfold runner_ok, runner_inv, stacks_ok, match_ok in *.
  destruct r as [id code text ts tp te tk st cr tcn m ig to dl db misc]; cbn in *.
  destruct m; cbn; auto.
Qed.
Lemma put_reset_id : forall r, r_id (put_reset r) = r_id r.
Proof. reflexivity. Qed.

Lemma set_code_inv : forall cfg r c, runner_inv cfg r -> runner_inv cfg (set_code r c).
Proof. intros cfg r c H; exact H. Qed.

Lemma map_const_repeat : forall (l : list Z), map (fun _ => 0) l = repeat 0 (length l).
Proof. induction l; cbn; congruence. Qed.

Lemma fit_length : forall n l, length (fit n l) = n.
Proof.
  intros; unfold fit. rewrite firstn_length, app_length, repeat_length. lia.
Qed.

(* the view a computation gets on ANY runner satisfying the invariant *)
Definition canonical_view (cfg : re_cfg) (code : code_sel) (a : sargs) (pos : Z) : view :=
  {| v_code := code; v_text := sa_text a; v_textstart := sa_start a; v_textpos := pos;
     v_textend := zlen (sa_text a); v_ignore := (cfg_timeout cfg =? max_int64); v_timeout := cfg_timeout cfg;
     v_debug := cfg_debug cfg; v_tc := cfg_tc cfg Full; v_tdepth := 0; v_sdepth := 0; v_cdepth := 0;
     v_info := sa_info a; v_mtextstart := sa_start a;
     v_matchcount := repeat 0 (Z.to_nat (cfg_capsize cfg)); v_balancing := false; v_quick := sa_quick a |}.

(* init_match_resets: scan's header followed by initMatch puts every field of the view into a state that
   depends only on the configuration, the arguments and r.code *)
Lemma prepared : forall cfg r a,
  cfg_wf cfg -> runner_inv cfg r ->
  let r2 := init_match cfg (sa_info a) (scan_header cfg r a) in
  runner_inv cfg r2 /\ r_id r2 = r_id r /\ r_code r2 = r_code r /\ r_textpos r2 = sa_start a /\
  r_textend r2 = zlen (sa_text a) /\
  (exists tk st, r_track r2 = Some tk /\ r_stack r2 = Some st /\
     track_len_ok (cfg_limit cfg) (cfg_tc cfg Full) (sk_len tk) /\ stack_len_ok (cfg_tc cfg Full) (sk_len st)) /\
  forall dl pos, view_of (start_watch dl (set_textpos r2 pos)) (sa_quick a) = Some (canonical_view cfg (r_code r) a pos).
Proof.
  intros cfg r a (W1 & W2 & W3) [Hs Hm].
  assert (Wtc : forall c, cfg_tc cfg c = cfg_tc cfg Full) by (intros []; auto).
  unfold runner_inv, stacks_ok, match_ok in *.
  destruct r as [id code text ts tp te tk st cr tcn m ig to dl0 db misc]; cbn in *.
  unfold init_match, scan_header; cbn.
  destruct tk as [tk|], st as [st|], cr as [cr|]; try contradiction; cbn.
  - destruct Hs as (H1 & H2 & H3). subst tcn.
    assert (ML : length (mo_matchcount match m with
                                       | Some m0 => reset_match m0 (sa_info a) (sa_start a)
                                       | None => new_match cfg (sa_info a) (sa_start a) end)
                 = Z.to_nat (cfg_capsize cfg)).
    { destruct m; cbn; [rewrite map_length; auto | apply repeat_length]. }
    split. { split; cbn; [auto | exact ML]. }
    split; [reflexivity|]. split; [reflexivity|]. split; [reflexivity|]. split; [reflexivity|].
    split. { exists (top tk), (top st). cbn. auto. }
    intros dl pos. unfold start_watch, canonical_view; cbn.
    destruct (cfg_timeout cfg =? max_int64); cbn; unfold depth; cbn;
      rewrite ?Z.sub_diag;
      (destruct m; cbn; [rewrite map_const_repeat, Hm|]; reflexivity).
  - assert (ML : length (mo_matchcount match m with
                                       | Some m0 => reset_match m0 (sa_info a) (sa_start a)
                                       | None => new_match cfg (sa_info a) (sa_start a) end)
                 = Z.to_nat (cfg_capsize cfg)).
    { destruct m; cbn; [rewrite map_length; auto | apply repeat_length]. }
    pose proof (init_track_ok (cfg_limit cfg) (cfg_tc cfg Full)) as IT.
    pose proof (init_stack_ok (cfg_tc cfg Full)) as IS.
    split. { split; cbn; [rewrite (Wtc code); auto | exact ML]. }
    split; [reflexivity|]. split; [reflexivity|]. split; [reflexivity|]. split; [reflexivity|].
    split. { eexists _, _. split; [reflexivity|]. split; [reflexivity|]. cbn. rewrite (Wtc code). auto. }
    intros dl pos. unfold start_watch, canonical_view; cbn.
    destruct (cfg_timeout cfg =? max_int64); cbn; unfold depth; cbn;
      rewrite ?Z.sub_diag, ?(Wtc code);
      (destruct m; cbn; [rewrite map_const_repeat, Hm|]; reflexivity).
Qed.

Lemma set_textpos_same : forall r, set_textpos r (r_textpos r) = r.
Proof. intros []; reflexivity. Qed.

Lemma tidy_keep_inv : forall cfg r i l, runner_inv cfg r -> runner_inv cfg (tidy_keep r i l).
Proof.
  intros cfg r i l [Hs Hm]. split; [exact Hs|].
  unfold match_ok, tidy_keep in *. destruct r as [id code text ts tp te tk st cr tcn m ig to dl0 db misc]; cbn in *.
  destruct m; cbn; auto.
Qed.

Lemma start_watch_inv : forall cfg dl r, runner_inv cfg r -> runner_inv cfg (start_watch dl r).
Proof. intros cfg dl r H. unfold start_watch. destruct (r_ignore r); exact H. Qed.
Lemma set_textpos_inv : forall cfg r p, runner_inv cfg r -> runner_inv cfg (set_textpos r p).
Proof. intros cfg r p H; exact H. Qed.

Lemma post_exec_inv : forall cfg r tl sl j tk st,
  runner_inv cfg r -> r_track r = Some tk -> r_stack r = Some st ->
  track_len_ok (cfg_limit cfg) (cfg_tc cfg Full) tl -> stack_len_ok (cfg_tc cfg Full) sl ->
  runner_inv cfg (post_exec r tl sl j).
Proof.
  intros cfg r tl sl j tk st [Hs Hm] Ht Hst Htl Hsl.
  unfold runner_inv, stacks_ok, match_ok, post_exec in *.
  destruct r as [id code text ts tp te tk0 st0 cr tcn m ig to dl0 db misc]; cbn in *. subst.
  destruct cr as [cr|]; try contradiction. cbn. split.
  - destruct Hs as (_ & _ & H3); auto.
  - destruct m; cbn; auto. rewrite fit_length; auto.
Qed.

(* the four pieces scan is made of, on a runner satisfying the invariant *)
Definition scan_parts (cfg : re_cfg) (interp : view -> trace) (dl : Z -> Z) (r : runner) (a : sargs) :=
  scan cfg interp dl r a.

Lemma scan_facts : forall cfg interp dl r a,
  cfg_wf cfg -> runner_inv cfg r ->
  runner_inv cfg (fst (scan cfg interp dl r a)) /\
  r_id (fst (scan cfg interp dl r a)) = r_id r /\
  r_code (fst (scan cfg interp dl r a)) = r_code r.
Proof.
  intros cfg interp dl r a W Hinv.
  pose proof (prepared cfg r a W Hinv) as P. cbn zeta in P.
  destruct P as (Pinv & Pid & Pcode & Ppos & Pend & (tk & st & Ptk & Pst & Ptl & Psl) & Pview).
  unfold scan.
  set (r2 := init_match cfg (sa_info a) (scan_header cfg r a)) in *.
  destruct ((sa_prevlen a =? 0) && (r_textpos r2 =? (if cfg_rtl cfg then 0 else r_textend (scan_header cfg r a)))).
  { cbn [fst]. split; [apply tidy_keep_inv; auto|]. split; [exact Pid|exact Pcode]. }
  set (r3 := if sa_prevlen a =? 0 then set_textpos r2 (r_textpos r2 + (if cfg_rtl cfg then -1 else 1)) else r2).
  assert (E3 : exists pos, r3 = set_textpos r2 pos).
  { unfold r3. destruct (sa_prevlen a =? 0); eexists; [reflexivity|symmetry; apply set_textpos_same]. }
  destruct E3 as [pos E3]. rewrite E3.
  rewrite (Pview dl pos).
  assert (T4 : r_track (start_watch dl (set_textpos r2 pos)) = Some tk).
  { unfold start_watch. destruct (r_ignore _); cbn; exact Ptk. }
  assert (S4 : r_stack (start_watch dl (set_textpos r2 pos)) = Some st).
  { unfold start_watch. destruct (r_ignore _); cbn; exact Pst. }
  assert (I4 : runner_inv cfg (start_watch dl (set_textpos r2 pos))).
  { apply start_watch_inv, set_textpos_inv, Pinv. }
  assert (ID4 : r_id (start_watch dl (set_textpos r2 pos)) = r_id r).
  { unfold start_watch. destruct (r_ignore _); cbn; exact Pid. }
  assert (C4 : r_code (start_watch dl (set_textpos r2 pos)) = r_code r).
  { unfold start_watch. destruct (r_ignore _); cbn; exact Pcode. }
  rewrite T4, S4.
  set (r4 := start_watch dl (set_textpos r2 pos)) in *.
  cbn [v_tc canonical_view].
  pose proof (run_segs_lens (cfg_limit cfg) (cfg_tc cfg Full) (tr_segs (interp (canonical_view cfg (r_code r) a pos)))
                (sk_len tk) (sk_len st) Ptl Psl) as L.
  destruct (run_segs (cfg_limit cfg) (cfg_tc cfg Full) (sk_len tk) (sk_len st)
              (tr_segs (interp (canonical_view cfg (r_code r) a pos)))) as [[tl sl] status].
  destruct L as [L1 L2].
  pose proof (post_exec_inv cfg r4 tl sl (tr_junk (interp (canonical_view cfg (r_code r) a pos))) tk st I4 T4 S4 L1 L2) as I5.
  destruct status; [|cbn [fst]; auto|cbn [fst]; auto].
  destruct (tr_term (interp (canonical_view cfg (r_code r) a pos))) as [md| |]; cbn [fst].
  - unfold tidy_match. destruct (sa_quick a); cbn [fst].
    + split; [apply tidy_keep_inv; auto|]. split; [exact ID4|exact C4].
    + split; [|split; [exact ID4|exact C4]].
      destruct I5 as [X Y]. split; [exact X|]. unfold match_ok; cbn. exact I.
  - split; [apply tidy_keep_inv; auto|]. split; [exact ID4|exact C4].
  - auto.
Qed.

(* the result of a scan as a function of configuration, arguments and r.code only *)
Definition scan_value (cfg : re_cfg) (interp : view -> trace) (code : code_sel) (a : sargs) : sres :=
  let stoppos := if cfg_rtl cfg then 0 else zlen (sa_text a) in
  let bump := if cfg_rtl cfg then -1 else 1 in
  if (sa_prevlen a =? 0) && (sa_start a =? stoppos) then SNone
  else
    let pos := if sa_prevlen a =? 0 then sa_start a + bump else sa_start a in
    let tr := interp (canonical_view cfg code a pos) in
    match ideal_status (cfg_limit cfg) (cfg_tc cfg Full) (tr_segs tr) with
    | SegErr => SErrLimit
    | SegCrash => SCrash
    | SegOk => match tr_term tr with TTimeout => SErrTimeout | TNone => SNone | TMatch md => SMatch md end
    end.

Definition interp_wf (cfg : re_cfg) (interp : view -> trace) : Prop :=
  forall v, v_tc v = cfg_tc cfg Full -> segs_wf (v_tc v) 0 0 (tr_segs (interp v)).

Lemma scan_result : forall cfg interp dl r a,
  cfg_wf cfg -> interp_wf cfg interp -> runner_inv cfg r ->
  snd (scan cfg interp dl r a) = scan_value cfg interp (r_code r) a.
Proof.
  intros cfg interp dl r a W IW Hinv.
  pose proof (prepared cfg r a W Hinv) as P. cbn zeta in P.
  destruct P as (Pinv & Pid & Pcode & Ppos & Pend & (tk & st & Ptk & Pst & Ptl & Psl) & Pview).
  unfold scan, scan_value.
  set (r2 := init_match cfg (sa_info a) (scan_header cfg r a)) in *.
  rewrite Ppos.
  replace (r_textend (scan_header cfg r a)) with (zlen (sa_text a)) by reflexivity.
  destruct ((sa_prevlen a =? 0) && (sa_start a =? (if cfg_rtl cfg then 0 else zlen (sa_text a)))); [reflexivity|].
  set (pos := if sa_prevlen a =? 0 then sa_start a + (if cfg_rtl cfg then -1 else 1) else sa_start a).
  assert (E3 : (if sa_prevlen a =? 0 then set_textpos r2 (sa_start a + (if cfg_rtl cfg then -1 else 1)) else r2)
               = set_textpos r2 pos).
  { unfold pos. destruct (sa_prevlen a =? 0); [reflexivity|]. rewrite <- Ppos. symmetry; apply set_textpos_same. }
  rewrite E3, (Pview dl pos).
  assert (T4 : r_track (start_watch dl (set_textpos r2 pos)) = Some tk).
  { unfold start_watch. destruct (r_ignore _); cbn; exact Ptk. }
  assert (S4 : r_stack (start_watch dl (set_textpos r2 pos)) = Some st).
  { unfold start_watch. destruct (r_ignore _); cbn; exact Pst. }
  rewrite T4, S4. cbn [v_tc canonical_view].
  set (tr := interp (canonical_view cfg (r_code r) a pos)).
  destruct W as (W1 & W2 & W3).
  pose proof (run_segs_ideal (cfg_limit cfg) (cfg_tc cfg Full) (tr_segs tr) (sk_len tk) (sk_len st) 0 0 W1 Ptl Psl) as RI.
  assert (P0 : 0 <= sk_len tk).
  { destruct Ptl as [X Y]. unfold init_tracksize in X. cbn zeta in X. bdestr; lia. }
  assert (Q0 : 0 <= sk_len st).
  { unfold stack_len_ok in Psl. pose proof (init_stack_pos (cfg_tc cfg Full)). lia. }
  specialize (RI P0 Q0 (IW (canonical_view cfg (r_code r) a pos) eq_refl)).
  destruct (run_segs (cfg_limit cfg) (cfg_tc cfg Full) (sk_len tk) (sk_len st) (tr_segs tr)) as [[tl sl] status].
  cbn [snd] in RI. rewrite <- RI.
  destruct status; [|reflexivity|reflexivity].
  destruct (tr_term tr); [|reflexivity|reflexivity].
  unfold tidy_match. destruct (sa_quick a); reflexivity.
Qed.

(* call_independent_of_runner at the level of one scan *)
Corollary scan_independent : forall cfg interp dl1 dl2 r1 r2 a,
  cfg_wf cfg -> interp_wf cfg interp -> runner_inv cfg r1 -> runner_inv cfg r2 -> r_code r1 = r_code r2 ->
  snd (scan cfg interp dl1 r1 a) = snd (scan cfg interp dl2 r2 a).
Proof.
  intros. rewrite !scan_result by auto. congruence.
Qed.
