(* compile_correct2_top + totality + the stack limit, for programs the writer emits for supported2 trees
   (writer configuration cfg0):

   compile_exec_total_partial   one execute() call under any limit L: with n = the number of interpreter steps of
       the attempt (it exists and does not depend on L or the fuel),
         exec_at = Err ErrBacktrackingStackLimit  (only if 0 <= L), or
         exec_at = Ok s'   (then s' is the final Stop state with Spec.attempt's answer: compile_correct2_exec_partial;
                            and n < 1000 * vfuel), or
         exec_at = Fuel    (only if 1000 * vfuel <= n);
       never a fault; with no limit (L < 0) and n < 1000 * vfuel it IS Ok.
   compile_find_dichotomy_partial  the same for the whole scan VM.vm_find against the unlimited scan
       (C13's first sentence; its control-flow hypothesis is replaced by [path_ok] on the unbounded paths).

   Still hypotheses ([_partial]): path_ok at each start position (Proofs/CompileTotal.v: every state of the
   UNBOUNDED path is at an instruction boundary and its grouping stack is two words below max (8*TrackCount) 32)
   -- decidable per instance by CompileLimit.mon_steps (compile_exec_total_checked); TrackCount as counted on
   the code (track_count (codes p) <= trackcount p: what syntax.Write stores); and, for the scan, enough
   reference fuel at every start position.
   The path_ok hypothesis is discharged in Proofs/CompileSafe.v (compile_exec_total, compile_find_dichotomy). *)
From Verif Require Import Base.Prelude Model.Tree Model.Spec Model.VM Model.Writer Gen.RunnerGen
  Proofs.SpecBoundsProofs Proofs.VMLimitProofs Proofs.VMLimitSimProofs Proofs.VMCapacityProofs
  Proofs.VMU Proofs.VMUOps2 Proofs.VMUBridge Proofs.CompileBase Proofs.CompileDefs Proofs.CompileProofs
  Proofs.CompileBalDen Proofs.CompileBalDefs Proofs.CompileBal Proofs.CompileTotal Proofs.CompileLimit Proofs.CompileCfSafe.
From Coq Require Import Relations ZifyBool.

Lemma clt_weight c root p : codes p = fst (compile c root) -> track_count (codes p) <= trackcount p ->
  cp_need (codes p) 0 <= trackcount p * G_ensure_factor.
Proof.
  intros Hc Ht. pose proof (cp_compile_weight c root) as H. cbv zeta in H. rewrite <- Hc in H.
  unfold G_ensure_factor. lia.
Qed.

Lemma clt_code0 root p : codes p = fst (compile cfg0 root) -> code_at p 0 = Some Lazybranch.
Proof.
  intros Hc. unfold code_at. rewrite Hc. unfold compile. destruct (emit cfg0 root 2 []) as [cr tbl]. reflexivity.
Qed.

(* the unbounded path of one attempt, from compile_correct2_top *)
Lemma clt_path e p : 0 <= trackcount p -> tlen e <= INF ->
  forall fuel o body t0 r,
  let root := NCapture o 0 (-1) body in
  codes p = fst (compile cfg0 root) -> strings p = snd (compile cfg0 root) ->
  supported2 root = true -> groups_ok2 (capsize p) root -> 0 <= t0 <= tlen e -> Z.of_nat fuel <= INF ->
  attempt e fuel root t0 = Ok r -> path_ok e p (a0 p t0) ->
  exists n sd sd', attempt_path e p (a0 p t0) n sd sd'.
Proof.
  intros Htc Htl fuel o body t0 r root Hcodes Hstr Hs Hg Ht0 Hf Hatt Hp.
  destruct (compile_correct2_top_partial e p Htc Htl fuel o body t0 r Hcodes Hstr Hs Hg Ht0 Hf Hatt)
    as (_ & t & T & S & C & M & Hpath & Hdone & _).
  destruct (usteps_counted e p _ _ Hpath) as [n Hn].
  exists n, (VMU.mk (2 + csize cfg0 root) 0 t T S C M), (VMU.mk (2 + csize cfg0 root) 0 t T S C M).
  split; [exact Hp|]. split; [exact Hn|exact Hdone].
Qed.

Theorem compile_exec_total_partial :
  forall (e : env) (p : program), 0 <= trackcount p -> track_count (codes p) <= trackcount p -> tlen e <= INF ->
  forall fuel o body t0 r,
  let root := NCapture o 0 (-1) body in
  codes p = fst (compile cfg0 root) -> strings p = snd (compile cfg0 root) ->
  supported2 root = true -> groups_ok2 (capsize p) root -> 0 <= t0 <= tlen e -> Z.of_nat fuel <= INF ->
  attempt e fuel root t0 = Ok r ->
  path_ok e p (a0 p t0) ->
  exists n : nat, forall L vfuel,
    let x := exec_at e p L vfuel t0 in
    ((x = Err E_StackLimit /\ 0 <= L) \/
     ((n < 1000 * vfuel)%nat /\ exists s', x = Ok s') \/
     ((1000 * vfuel <= n)%nat /\ x = Fuel)) /\
    (L < 0 -> (n < 1000 * vfuel)%nat -> exists s', x = Ok s').
Proof.
  intros e p Htc Htk Htl fuel o body t0 r root Hcodes Hstr Hs Hg Ht0 Hf Hatt Hp.
  pose proof (clt_weight cfg0 root p Hcodes Htk) as Hw.
  pose proof (clt_code0 root p Hcodes) as H0.
  destruct (clt_path e p Htc Htl fuel o body t0 r Hcodes Hstr Hs Hg Ht0 Hf Hatt Hp) as (n & sd & sd' & Hap).
  exists n. intros L vfuel x.
  assert (Hmain : (x = Err E_StackLimit /\ 0 <= L) \/
                  ((n < 1000 * vfuel)%nat /\ exists s', x = Ok s') \/ ((1000 * vfuel <= n)%nat /\ x = Fuel)).
  { destruct (lim_exec e p Htc Hw L t0 Lazybranch n sd sd' H0 Hap vfuel) as [E|[J1 J2]]; [left; exact E|]. right.
    destruct (Nat.lt_ge_cases n (1000 * vfuel)) as [Hlt|Hge].
    - left. split; [exact Hlt|]. destruct (J1 Hlt) as (s1 & s2 & E1 & _). exists s1. exact E1.
    - right. split; [exact Hge|]. exact (proj1 (J2 Hge)). }
  split; [exact Hmain|].
  intros HL Hlt. destruct Hmain as [[_ H]|[[_ H]|[H _]]]; [lia|exact H|lia].
Qed.

Print Assumptions compile_exec_total_partial.

(* the same with the path hypothesis discharged by the monitor on the concrete instance *)
Theorem compile_exec_total_checked :
  forall (e : env) (p : program), 0 <= trackcount p -> track_count (codes p) <= trackcount p -> tlen e <= INF ->
  forall fuel o body t0 r k n,
  let root := NCapture o 0 (-1) body in
  codes p = fst (compile cfg0 root) -> strings p = snd (compile cfg0 root) ->
  supported2 root = true -> groups_ok2 (capsize p) root -> 0 <= t0 <= tlen e -> Z.of_nat fuel <= INF ->
  attempt e fuel root t0 = Ok r ->
  mon_steps e p k (a0 p t0) = Some n ->
  forall L vfuel,
    let x := exec_at e p L vfuel t0 in
    (x = Err E_StackLimit /\ 0 <= L) \/
    ((n < 1000 * vfuel)%nat /\ exists s', x = Ok s') \/
    ((1000 * vfuel <= n)%nat /\ x = Fuel).
Proof.
  intros e p Htc Htk Htl fuel o body t0 r k n root Hcodes Hstr Hs Hg Ht0 Hf Hatt Hm L vfuel x.
  pose proof (clt_weight cfg0 root p Hcodes Htk) as Hw.
  pose proof (clt_code0 root p Hcodes) as H0.
  destruct (mon_sound e p k _ n Hm) as (sd & sd' & Hap).
  destruct (lim_exec e p Htc Hw L t0 Lazybranch n sd sd' H0 Hap vfuel) as [E|[J1 J2]]; [left; exact E|]. right.
  destruct (Nat.lt_ge_cases n (1000 * vfuel)) as [Hlt|Hge].
  - left. split; [exact Hlt|]. destruct (J1 Hlt) as (s1 & s2 & E1 & _). exists s1. exact E1.
  - right. split; [exact Hge|]. exact (proj1 (J2 Hge)).
Qed.

Print Assumptions compile_exec_total_checked.

(* the whole scan: C13's dichotomy with its control-flow hypothesis replaced by path_ok on the unbounded paths *)
Theorem compile_find_dichotomy_partial :
  forall (e : env) (p : program), 0 <= trackcount p -> track_count (codes p) <= trackcount p -> tlen e <= INF ->
  forall fuel o body,
  let root := NCapture o 0 (-1) body in
  codes p = fst (compile cfg0 root) -> strings p = snd (compile cfg0 root) ->
  supported2 root = true -> groups_ok2 (capsize p) root -> Z.of_nat fuel <= INF ->
  (forall t, 0 <= t <= tlen e -> exists r, attempt e fuel root t = Ok r) ->
  (forall t, 0 <= t <= tlen e -> path_ok e p (a0 p t)) ->
  forall L vfuel rtl start prevlen, 0 <= start <= tlen e ->
    let r1 := vm_find e p L vfuel rtl start prevlen in
    let r2 := vm_find e p (-1) vfuel rtl start prevlen in
    (r1 = Err E_StackLimit /\ 0 <= L) \/
    match r1, r2 with
    | Ok a, Ok b => same_result a b
    | Fuel, Fuel => True
    | _, _ => False
    end.
Proof.
  intros e p Htc Htk Htl fuel o body root Hcodes Hstr Hs Hg Hf Hatt Hp L vfuel rtl start prevlen Hst r1 r2.
  pose proof (clt_weight cfg0 root p Hcodes Htk) as Hw.
  pose proof (clt_code0 root p Hcodes) as H0.
  assert (Hall : all_paths e p).
  { intros t Ht. destruct (Hatt t Ht) as [r Hr].
    exact (clt_path e p Htc Htl fuel o body t r Hcodes Hstr Hs Hg Ht Hf Hr (Hp t Ht)). }
  destruct (lim_find e p Htc Hw L Lazybranch vfuel rtl start prevlen H0 Hall Hst) as [E|H]; [left; exact E|]. right.
  fold r1 r2 in H. destruct r1 as [a| | |], r2 as [b| | |]; try exact H.
  eapply opt_rel_weaken. exact H.
Qed.

Print Assumptions compile_find_dichotomy_partial.

(* ---------- with the STATIC check of Proofs/CompileCfSafe.v instead of path_ok ----------
   tyck_auto p = true is a decidable property of the program alone (no input, no run): the frame-shape
   verifier accepts it.  cf_sound turns it into path_ok for every input and start position. *)
Theorem compile_exec_total_typed :
  forall (e : env) (p : program), 0 <= trackcount p -> track_count (codes p) <= trackcount p -> tlen e <= INF ->
  forall fuel o body t0 r,
  let root := NCapture o 0 (-1) body in
  codes p = fst (compile cfg0 root) -> strings p = snd (compile cfg0 root) ->
  supported2 root = true -> groups_ok2 (capsize p) root -> 0 <= t0 <= tlen e -> Z.of_nat fuel <= INF ->
  attempt e fuel root t0 = Ok r ->
  tyck_auto p = true ->
  exists n : nat, forall L vfuel,
    let x := exec_at e p L vfuel t0 in
    ((x = Err E_StackLimit /\ 0 <= L) \/
     ((n < 1000 * vfuel)%nat /\ exists s', x = Ok s') \/
     ((1000 * vfuel <= n)%nat /\ x = Fuel)) /\
    (L < 0 -> (n < 1000 * vfuel)%nat -> exists s', x = Ok s').
Proof.
  intros e p Htc Htk Htl fuel o body t0 r root Hcodes Hstr Hs Hg Ht0 Hf Hatt Hty.
  exact (compile_exec_total_partial e p Htc Htk Htl fuel o body t0 r Hcodes Hstr Hs Hg Ht0 Hf Hatt (cf_sound e p Hty t0)).
Qed.

Print Assumptions compile_exec_total_typed.

Theorem compile_find_dichotomy_typed :
  forall (e : env) (p : program), 0 <= trackcount p -> track_count (codes p) <= trackcount p -> tlen e <= INF ->
  forall fuel o body,
  let root := NCapture o 0 (-1) body in
  codes p = fst (compile cfg0 root) -> strings p = snd (compile cfg0 root) ->
  supported2 root = true -> groups_ok2 (capsize p) root -> Z.of_nat fuel <= INF ->
  (forall t, 0 <= t <= tlen e -> exists r, attempt e fuel root t = Ok r) ->
  tyck_auto p = true ->
  forall L vfuel rtl start prevlen, 0 <= start <= tlen e ->
    let r1 := vm_find e p L vfuel rtl start prevlen in
    let r2 := vm_find e p (-1) vfuel rtl start prevlen in
    (r1 = Err E_StackLimit /\ 0 <= L) \/
    match r1, r2 with
    | Ok a, Ok b => same_result a b
    | Fuel, Fuel => True
    | _, _ => False
    end.
Proof.
  intros e p Htc Htk Htl fuel o body root Hcodes Hstr Hs Hg Hf Hatt Hty.
  exact (compile_find_dichotomy_partial e p Htc Htk Htl fuel o body Hcodes Hstr Hs Hg Hf Hatt (fun t _ => cf_sound e p Hty t)).
Qed.

Print Assumptions compile_find_dichotomy_typed.

Example clt_demo_typed : tyck_auto c2_demo_prog = true /\ tyck_auto cc_demo_prog = true.
Proof. split; vm_compute; reflexivity. Qed.

(* ---------- instances: the hypotheses hold on the demos (monitor, by computation) ---------- *)
Example clt_demo :
  let e := cc_demo_env2 [97;97;98;98] in
  let p := c2_demo_prog in
  mon_steps e p 200 (a0 p 0) = Some 37%nat /\
  (forall L vfuel, let x := exec_at e p L vfuel 0 in
     (x = Err E_StackLimit /\ 0 <= L) \/ ((37 < 1000 * vfuel)%nat /\ exists s', x = Ok s') \/
     ((1000 * vfuel <= 37)%nat /\ x = Fuel)) /\
  exec_at e p 100 5 0 = Err E_StackLimit /\
  (exists s', exec_at e p 120 5 0 = Ok s' /\ tp s' = 4 /\ tcap s' = 120) /\
  exec_at e p (-1) 0 0 = Fuel.
Proof.
  cbv zeta. assert (Hm : mon_steps (cc_demo_env2 [97;97;98;98]) c2_demo_prog 200 (a0 c2_demo_prog 0) = Some 37%nat)
    by (vm_compute; reflexivity).
  split; [exact Hm|]. split.
  - intros L vfuel.
    assert (Hg : groups_ok2 (capsize c2_demo_prog) (NCapture 0 0 (-1) c2_demo_body)).
    { cbn. repeat split; try exact I; try (left; reflexivity); try (right; split); cbv; congruence. }
    apply (compile_exec_total_checked (cc_demo_env2 [97;97;98;98]) c2_demo_prog ltac:(vm_compute; congruence)
             ltac:(vm_compute; congruence) ltac:(cbv; congruence) 40 0 c2_demo_body 0 _ 200 37
             eq_refl eq_refl eq_refl Hg ltac:(cbv; split; congruence) ltac:(cbv; congruence)
             ltac:(vm_compute; reflexivity) Hm).
  - split; [vm_compute; reflexivity|]. split; [eexists; split; [vm_compute; reflexivity|split; reflexivity]|].
    vm_compute. reflexivity.
Qed.
