(* Facts about Spec.run_len / sem_charloop and the interpreter's character loops
   (VM.rep_chars, VM.loop_chars), used by the NCharLoop case of compile_correct. *)
From Verif Require Import Base.Prelude Model.Tree Model.Spec Model.VM Model.Writer
  Proofs.SpecBoundsProofs.
From Coq Require Import ZifyBool.

Section CL.
Variable e : env.
Variable k : ckind.
Variable c : Z.
Variable o : Z.

Notation rl := (run_len e k c o).
Notation A := (avail e o).
Notation d := (dir o).
Definition good (p : Z) : bool := (0 <? avail e o p) && char_test e k c (next_char e o p).

Lemma clf_dir_cases : (is_rtl o = true /\ d = -1) \/ (is_rtl o = false /\ d = 1).
Proof. unfold dir. destruct (is_rtl o); [left|right]; split; reflexivity. Qed.

Lemma clf_avail_shift p i : 0 <= p <= tlen e -> 0 <= i <= A p ->
  A (p + d * i) = A p - i /\ 0 <= p + d * i <= tlen e.
Proof.
  intros Hp Hi. unfold avail, dir in *. destruct (is_rtl o); lia.
Qed.

Lemma clf_avail_nonneg p : 0 <= p <= tlen e -> 0 <= A p.
Proof. intros Hp. unfold avail. destruct (is_rtl o); lia. Qed.

Lemma clf_rl_unfold N p : rl (S N) p = if good p then 1 + rl N (p + d) else 0.
Proof. reflexivity. Qed.

Lemma clf_rl_bounds N p : 0 <= rl N p <= Z.of_nat N.
Proof. apply sb_run_len_bounds. Qed.

Lemma clf_rl_le_avail : forall N p, 0 <= p <= tlen e -> rl N p <= A p.
Proof.
  induction N as [|N IH]; intros p Hp.
  - cbn [run_len]. apply clf_avail_nonneg. exact Hp.
  - rewrite clf_rl_unfold. unfold good. destruct (0 <? A p) eqn:Ea; cbn [andb].
    + destruct (char_test e k c (next_char e o p)); [|lia].
      destruct (clf_avail_shift p 1 Hp ltac:(lia)) as [H1 H2]. rewrite Z.mul_1_r in *.
      specialize (IH (p + d) H2). lia.
    + pose proof (clf_avail_nonneg p Hp). lia.
Qed.

Lemma clf_rl_add : forall a b p,
  rl (a + b) p = if rl a p =? Z.of_nat a then Z.of_nat a + rl b (p + d * Z.of_nat a) else rl a p.
Proof.
  induction a as [|a IH]; intros b p.
  - cbn [Nat.add run_len]. change (Z.of_nat 0) with 0. rewrite Z.mul_0_r, Z.add_0_r. reflexivity.
  - change (S a + b)%nat with (S (a + b)). rewrite !clf_rl_unfold. destruct (good p).
    + rewrite IH. pose proof (clf_rl_bounds a (p + d)).
      destruct (rl a (p + d) =? Z.of_nat a) eqn:E.
      * replace (1 + rl a (p + d) =? Z.of_nat (S a)) with true by lia.
        replace (p + d * Z.of_nat (S a)) with (p + d + d * Z.of_nat a) by lia. lia.
      * replace (1 + rl a (p + d) =? Z.of_nat (S a)) with false by lia. reflexivity.
    + replace (0 =? Z.of_nat (S a)) with false by lia. reflexivity.
Qed.

Lemma clf_rl_zero_avail N p : A p <= 0 -> rl N p = 0.
Proof.
  intros H. destruct N; [reflexivity|]. rewrite clf_rl_unfold. unfold good.
  replace (0 <? A p) with false by lia. reflexivity.
Qed.

(* a budget beyond the available characters changes nothing *)
Lemma clf_rl_stable N p : 0 <= p <= tlen e -> A p <= Z.of_nat N -> rl N p = rl (Z.to_nat (A p)) p.
Proof.
  intros Hp HN. pose proof (clf_avail_nonneg p Hp) as Ha.
  replace N with (Z.to_nat (A p) + (N - Z.to_nat (A p)))%nat at 1 by lia.
  rewrite clf_rl_add. destruct (rl (Z.to_nat (A p)) p =? Z.of_nat (Z.to_nat (A p))) eqn:E; [|reflexivity].
  rewrite clf_rl_zero_avail.
  - lia.
  - destruct (clf_avail_shift p (A p) Hp ltac:(lia)) as [H1 _]. rewrite Z2Nat.id by lia. lia.
Qed.

Lemma clf_rl_good : forall N p i, 0 <= i < rl N p -> good (p + d * i) = true.
Proof.
  induction N as [|N IH]; intros p i Hi.
  - cbn [run_len] in Hi. lia.
  - rewrite clf_rl_unfold in Hi. destruct (good p) eqn:G; [|lia].
    destruct (Z.eq_dec i 0) as [->|Hne].
    + rewrite Z.mul_0_r, Z.add_0_r. exact G.
    + replace (p + d * i) with (p + d + d * (i - 1)) by lia. apply IH. lia.
Qed.

Lemma clf_rl_bad : forall N p, rl N p < Z.of_nat N -> good (p + d * rl N p) = false.
Proof.
  induction N as [|N IH]; intros p Hlt.
  - cbn [run_len] in Hlt. lia.
  - rewrite clf_rl_unfold in *. destruct (good p) eqn:G.
    + replace (p + d * (1 + rl N (p + d))) with (p + d + d * rl N (p + d)) by lia. apply IH. lia.
    + rewrite Z.mul_0_r, Z.add_0_r. exact G.
Qed.

(* ---------- the interpreter's loops ---------- *)
Variable w : Z.
Hypothesis Hw : rtl_of w = is_rtl o.

Lemma clf_fwdnext p : 0 <= p <= tlen e -> 0 < A p -> fwdnext e w p = Some (next_char e o p, p + d).
Proof.
  intros Hp Ha. unfold fwdnext, next_char, avail, dir in *. rewrite Hw. destruct (is_rtl o).
  - replace ((1 <=? p) && (p <=? tlen e)) with true by lia. reflexivity.
  - replace ((0 <=? p) && (p <? tlen e)) with true by lia. reflexivity.
Qed.

Lemma clf_rep_chars : forall N p, 0 <= p <= tlen e -> Z.of_nat N <= A p ->
  rep_chars e w (char_test e k c) N p =
  Some (if rl N p =? Z.of_nat N then Some (p + d * Z.of_nat N) else None).
Proof.
  induction N as [|N IH]; intros p Hp HN.
  - cbn [rep_chars run_len]. change (Z.of_nat 0) with 0. rewrite Z.mul_0_r, Z.add_0_r. reflexivity.
  - cbn [rep_chars]. rewrite clf_fwdnext by lia. rewrite clf_rl_unfold. unfold good.
    replace (0 <? A p) with true by lia. cbn [andb].
    destruct (char_test e k c (next_char e o p)).
    + destruct (clf_avail_shift p 1 Hp ltac:(lia)) as [H1 H2]. rewrite Z.mul_1_r in *.
      rewrite IH by lia. pose proof (clf_rl_bounds N (p + d)).
      destruct (rl N (p + d) =? Z.of_nat N) eqn:E.
      * replace (1 + rl N (p + d) =? Z.of_nat (S N)) with true by lia.
        replace (p + d + d * Z.of_nat N) with (p + d * Z.of_nat (S N)) by lia. reflexivity.
      * replace (1 + rl N (p + d) =? Z.of_nat (S N)) with false by lia. reflexivity.
    + replace (0 =? Z.of_nat (S N)) with false by lia. reflexivity.
Qed.

Lemma clf_loop_chars : forall N p, 0 <= p <= tlen e -> Z.of_nat N <= A p ->
  loop_chars e w (char_test e k c) N p = Some (Z.of_nat N - rl N p, p + d * rl N p).
Proof.
  induction N as [|N IH]; intros p Hp HN.
  - cbn [loop_chars run_len]. rewrite Z.mul_0_r, Z.add_0_r. reflexivity.
  - cbn [loop_chars]. rewrite clf_fwdnext by lia. rewrite clf_rl_unfold. unfold good.
    replace (0 <? A p) with true by lia. cbn [andb].
    destruct (char_test e k c (next_char e o p)).
    + destruct (clf_avail_shift p 1 Hp ltac:(lia)) as [H1 H2]. rewrite Z.mul_1_r in *.
      rewrite IH by lia. f_equal. f_equal; lia.
    + rewrite Z.mul_0_r, Z.add_0_r, Z.sub_0_r. reflexivity.
Qed.

End CL.

(* ---------- sem_charloop = (exactly m characters) then (up to n - m more, with backtracking) ---------- *)
Definition loop_res (e : env) (k : ckind) (l : lkind) (o c : Z) (s1 : st) (c0 : Z) : list st :=
  let p1 := pos s1 in
  let j := run_len e k c o (Z.to_nat (Z.min c0 (avail e o p1))) p1 in
  let mk := fun i => with_pos s1 (p1 + dir o * i) in
  match l with
  | LGreedy => map mk (count_down j 0)
  | LLazy => map mk (count_up 0 j)
  | LAtomic => [mk j]
  end.

Lemma clf_count_down_aux_shift {B} (f : Z -> B) m : forall n a,
  map f (count_down_aux n (m + a)) = map (fun i => f (m + i)) (count_down_aux n a).
Proof.
  induction n as [|n IH]; intros a; cbn [count_down_aux map]; [reflexivity|].
  f_equal. replace (m + a - 1) with (m + (a - 1)) by lia. apply IH.
Qed.
Lemma clf_count_up_aux_shift {B} (f : Z -> B) m : forall n a,
  map f (count_up_aux n (m + a)) = map (fun i => f (m + i)) (count_up_aux n a).
Proof.
  induction n as [|n IH]; intros a; cbn [count_up_aux map]; [reflexivity|].
  f_equal. replace (m + a + 1) with (m + (a + 1)) by lia. apply IH.
Qed.

Lemma clf_charloop_split e k l o c m n s :
  0 <= m <= n -> n <= INF -> 0 <= pos s <= tlen e -> tlen e <= INF ->
  sem_charloop e k l o c m n s =
  if (m <=? avail e o (pos s)) && (run_len e k c o (Z.to_nat m) (pos s) =? m)
  then (if m <? n then loop_res e k l o c (with_pos s (pos s + dir o * m)) (if n =? INF then INF else n - m)
        else [with_pos s (pos s + dir o * m)])
  else [].
Proof.
  intros Hm Hn Hp Ht. unfold sem_charloop. cbv zeta.
  set (p := pos s) in *. pose proof (clf_avail_nonneg e o p Hp) as HA0.
  assert (HAt : avail e o p <= tlen e) by (unfold avail; destruct (is_rtl o); lia).
  set (Av := avail e o p) in *.
  assert (Hcap : (if n =? INF then Av else Z.min n Av) = Z.min n Av) by (destruct (n =? INF) eqn:E; lia).
  rewrite Hcap. set (cap := Z.min n Av).
  destruct (m <=? Av) eqn:EmA; cbn [andb].
  2:{ pose proof (clf_rl_bounds e k c o (Z.to_nat cap) p).
      replace (run_len e k c o (Z.to_nat cap) p <? m) with true by lia. reflexivity. }
  assert (Hcm : m <= cap) by lia.
  replace (Z.to_nat cap) with (Z.to_nat m + Z.to_nat (cap - m))%nat by lia.
  rewrite clf_rl_add. rewrite !Z2Nat.id by lia.
  pose proof (clf_rl_bounds e k c o (Z.to_nat m) p) as Hb.
  destruct (run_len e k c o (Z.to_nat m) p =? m) eqn:Erm.
  2:{ replace (run_len e k c o (Z.to_nat m) p <? m) with true by lia. reflexivity. }
  set (p1 := p + dir o * m).
  pose proof (clf_rl_bounds e k c o (Z.to_nat (cap - m)) p1) as Hb1.
  set (j := run_len e k c o (Z.to_nat (cap - m)) p1) in *.
  replace (m + j <? m) with false by lia.
  destruct (clf_avail_shift e o p m Hp ltac:(lia)) as [HA1 Hp1]. fold Av p1 in HA1, Hp1.
  destruct (m <? n) eqn:Emn.
  - unfold loop_res. cbv zeta. cbn [pos with_pos].
    replace (Z.min (if n =? INF then INF else n - m) (avail e o p1)) with (cap - m)
      by (rewrite HA1; unfold cap; destruct (n =? INF) eqn:E; lia).
    fold j.
    destruct l.
    + unfold count_down. replace (m + j <? m) with false by lia. replace (j <? 0) with false by lia.
      replace (m + j - m + 1) with (j - 0 + 1) by lia.
      rewrite clf_count_down_aux_shift. apply map_ext. intros i. unfold with_pos. cbn [caps]. f_equal. unfold p1. lia.
    + unfold count_up. replace (m + j <? m) with false by lia. replace (j <? 0) with false by lia.
      replace (m + j - m + 1) with (j - 0 + 1) by lia.
      rewrite <- (Z.add_0_r m) at 1. rewrite clf_count_up_aux_shift. apply map_ext. intros i. unfold with_pos. cbn [caps]. f_equal. unfold p1. lia.
    + unfold with_pos. cbn [caps]. f_equal. f_equal. unfold p1. lia.
  - assert (Hj : j = 0).
    { unfold j. replace (cap - m) with 0 by lia. reflexivity. }
    rewrite Hj, Z.add_0_r.
    destruct l.
    + unfold count_down. replace (m <? m) with false by lia. replace (m - m + 1) with 1 by lia. reflexivity.
    + unfold count_up. replace (m <? m) with false by lia. replace (m - m + 1) with 1 by lia. reflexivity.
    + reflexivity.
Qed.
