(* Proofs about Model/Parser.v, part 8: what the capture pre-scan (countCaptures + assignNameSlots) hands to
   the main pass and to the writer.
   - a generic invariant lemma for the pre-scan loop (any property of the capture tables kept by
     noteCaptureSlot / consumeAutocap / noteCaptureName is kept by countCaptures);
   - [cw]: the key list is strictly increasing, holds 0, its length is capcount, every key is below captop
     (unless captop has hit MaxInt32), every name of the name table is in the name list;
   - the finished table: Caps sorted / has 0 / below Captop, Capnumlist = Caps when sparse, every number held by
     Capnames is a key (what isCaptureName / captureSlotFromName hand to the main pass);
   - the pre-scan only adds keys. *)
From Coq Require Import ZifyBool.
From Verif Require Import Base.Prelude Gen.ParseLitGen Model.Escape Model.ParseLit Model.GroupMap Model.CharClass
  Model.Parser Proofs.ParseLitProofs Proofs.GMBase Proofs.ParserScan Proofs.ParserTree Proofs.ParserMain Proofs.ParserPre
  Proofs.ParserProofs.

Section PreGen.
Variable is_word_char : Z -> bool.
Variable to_lower : Z -> Z.
Variable simple_fold : Z -> Z.
Variable cat_in : Z -> Z -> bool.
Variable cat_name : list Z -> Z.

Local Notation prescan_named := (prescan_named is_word_char).
Local Notation prescan_pyname := (prescan_pyname is_word_char).
Local Notation prescan_open := (prescan_open is_word_char).
Local Notation prescan_step := (prescan_step is_word_char to_lower simple_fold cat_in cat_name).
Local Notation prescan_loop := (prescan_loop is_word_char to_lower simple_fold cat_in cat_name).

Variable mco : bool.
Variable J : cstate -> Prop.
Hypothesis J_auto : forall c, J c -> J (note_auto c).
Hypothesis J_slot : mco = false -> forall c i, J c -> 0 <= i <= 2147483647 -> J (note_slot i c).
Hypothesis J_name : forall o s c c', J c -> note_name_pr mco o s c = POk c' -> J c'.

Lemma prescan_named_gen st1 p3 st' q : J (cs_c st1) -> prescan_named mco st1 p3 = POk (st', q) -> J (cs_c st').
Proof.
  intros Hc E. unfold Parser.prescan_named in E. destruct p3 as [|ch2 p4]; [discriminate|].
  destruct (useE (cs_o st1)).
  { destruct ((ch2 =? 61) || (ch2 =? 33) || (ch2 =? 48)); [inversion E; subst; exact Hc | discriminate]. }
  destruct (negb (ch2 =? 48) && is_word_char ch2); [|inversion E; subst; exact Hc].
  destruct ((49 <=? ch2) && (ch2 <=? 57)).
  - destruct (decimal (ch2 :: p4)) as [[dec q0]|e q0| | |] eqn:D; cbn [pbind] in E; try discriminate.
    pose proof (decimal_nonneg _ _ _ D) as NN.
    assert (LE : dec <= 2147483647).
    { unfold decimal, of_res in D. destruct (scan_decimal 0 (ch2 :: p4)) as [[v' r']|c|w|] eqn:SD; try discriminate.
      inversion D; subst. clear D.
      assert (G : forall p i v r, i <= 2147483647 -> scan_decimal i p = Ok (v, r) -> v <= 2147483647).
      { induction p as [|c p IH]; intros i v r Hi H; cbn [scan_decimal] in H; [inversion H; lia|].
        destruct ((c - 48 <? 0) || (9 <? c - 48)) eqn:E1; [inversion H; lia|].
        destruct ((214748364 <? i) || ((i =? 214748364) && (7 <? c - 48))) eqn:E2; [discriminate|].
        eapply IH; [|exact H]. lia. }
      eapply G; [|exact SD]. lia. }
    destruct mco eqn:Em.
    + destruct (note_name_pr true (cs_o st1) (itoa dec) (cs_c st1)) as [c'| | | |] eqn:N; cbn [pbind] in E; try discriminate.
      inversion E; subst. cbn. eapply J_name; [exact Hc | exact N].
    + inversion E; subst. cbn. apply J_slot; [first [exact Em | reflexivity | assumption] | exact Hc | lia].
  - destruct (scan_word is_word_char (ch2 :: p4)) as [nm q0].
    destruct (note_name_pr mco (cs_o st1) nm (cs_c st1)) as [c'| | | |] eqn:N; cbn [pbind] in E; try discriminate.
    inversion E; subst. cbn. eapply J_name; [exact Hc | exact N].
Qed.

Lemma prescan_pyname_gen st1 p3 st' q : J (cs_c st1) -> prescan_pyname mco st1 p3 = POk (st', q) -> J (cs_c st').
Proof.
  intros Hc E. unfold Parser.prescan_pyname in E. destruct p3 as [|ch2 p4]; [discriminate|].
  destruct (is_word_char ch2); [|inversion E; subst; exact Hc].
  destruct (useE (cs_o st1)); [discriminate|].
  destruct (scan_word is_word_char (ch2 :: p4)) as [nm q0].
  destruct (note_name_pr mco (cs_o st1) nm (cs_c st1)) as [c'| | | |] eqn:N; cbn [pbind] in E; try discriminate.
  inversion E; subst. cbn. eapply J_name; [exact Hc | exact N].
Qed.

Lemma prescan_open_gen st p p1 st' q : J (cs_c st) -> prescan_open mco st p p1 = POk (st', q) -> J (cs_c st').
Proof.
  intros Hc E. unfold Parser.prescan_open in E. cbv zeta in E. cbn [cs_c cs_o cs_os cs_ign] in E.
  destruct (starts_qhash p1).
  { destruct (ignore_err0 (scan_blank_full (cs_o st) p)) as [q0|e q0| | |]; cbn [pbind] in E; try discriminate.
    inversion E; subst. exact Hc. }
  destruct (hd_is p1 63).
  2:{ destruct (negb (useN (cs_o st)) && negb (cs_ign st)); inversion E; subst; cbn; [apply J_auto; exact Hc | exact Hc]. }
  destruct (longer (tl p1) 1 && (hd_is (tl p1) 60 || hd_is (tl p1) 39)).
  { eapply prescan_named_gen; [|exact E]. exact Hc. }
  destruct (useRE2 (cs_o st) && longer (tl p1) 2 && hd_is (tl p1) 80 && nth_is 1 (tl p1) 60).
  { eapply prescan_pyname_gen; [|exact E]. exact Hc. }
  destruct (scan_options_text (cs_o st) (tl p1)) as [o2 q0].
  cbn [cs_c cs_os cs_o cs_ign] in E.
  destruct (hd_is q0 41); [inversion E; subst; exact Hc|].
  destruct (hd_is q0 40); inversion E; subst; exact Hc.
Qed.

Lemma prescan_step_gen st ch p1 st' q : J (cs_c st) -> prescan_step mco st ch p1 = POk (st', q) -> J (cs_c st').
Proof.
  intros Hc E. unfold Parser.prescan_step in E.
  destruct (ch =? 92).
  { destruct p1 as [|c p2]; [inversion E; subst; exact Hc|].
    match type of E with pbind ?a _ = _ => destruct a as [q0|e q0| | |] end; cbn [pbind] in E; try discriminate.
    inversion E; subst. exact Hc. }
  destruct (ch =? 35).
  { destruct (useX (cs_o st)); [|inversion E; subst; exact Hc].
    match type of E with pbind ?a _ = _ => destruct a as [q0|e q0| | |] end; cbn [pbind] in E; try discriminate.
    inversion E; subst. exact Hc. }
  destruct (ch =? 91).
  { match type of E with pbind ?a _ = _ => destruct a as [q0|e q0| | |] end; cbn [pbind] in E; try discriminate.
    inversion E; subst. exact Hc. }
  destruct (ch =? 41).
  { destruct (cs_os st); inversion E; subst; exact Hc. }
  destruct (ch =? 40); [eapply prescan_open_gen; [exact Hc | exact E]|].
  inversion E; subst. exact Hc.
Qed.

Lemma prescan_loop_gen fuel : forall st p st', J (cs_c st) -> prescan_loop fuel mco st p = POk st' -> J (cs_c st').
Proof.
  induction fuel as [|f IH]; intros st p st' Hc E; cbn [Parser.prescan_loop] in E; [discriminate|].
  destruct p as [|ch p1]; [inversion E; subst; exact Hc|].
  destruct (prescan_step mco st ch p1) as [[st1 q]|e q| | |] eqn:S; cbn [pbind] in E; try discriminate.
  eapply IH; [|exact E]. eapply prescan_step_gen; [exact Hc | exact S].
Qed.

End PreGen.

(* ---------------------------------------------------------------- the capture tables stay well formed *)
From Verif Require Import Proofs.GMPrescan.

Record cw (c : cstate) : Prop := mkCW {
  cw_sorted : ssorted (c_caps c);
  cw_zero : In 0 (c_caps c);
  cw_count : c_capcount c = zlen (c_caps c);
  cw_range : forall k, In k (c_caps c) -> 0 <= k /\ (c_captop c < maxint32 -> k < c_captop c);
  cw_keys : forall s, aget s (names_of c) <> None -> In s (c_capnamelist c);
  cw_auto : 1 <= c_autocap c;
  cw_low : forall j, 0 <= j < c_autocap c -> In j (c_caps c) }.

Lemma cw_init : cw c_init.
Proof.
  constructor; cbn.
  - constructor; constructor.
  - left; reflexivity.
  - reflexivity.
  - intros k [<-|[]]. unfold maxint32. lia.
  - intros s H. congruence.
  - lia.
  - intros j Hj. left. lia.
Qed.

Lemma note_slot_captop i c : c_captop c <= c_captop (note_slot i c) /\
  (c_captop (note_slot i c) < maxint32 -> i < c_captop (note_slot i c) \/ zmem i (c_caps c) = true).
Proof.
  unfold note_slot. destruct (zmem i (c_caps c)) eqn:E; cbn; [split; [lia | auto]|].
  destruct (c_captop c <=? i) eqn:E1; [|split; [lia | intros; left; lia]].
  destruct (i =? maxint32) eqn:E2; split; try lia; intros; left; lia.
Qed.

Lemma note_slot_cw i c : cw c -> 0 <= i -> cw (note_slot i c).
Proof.
  intros [S Z C R K A L] Hi.
  destruct (note_slot_fields i c) as [F1 [F2 F3]].
  constructor.
  - unfold note_slot. destruct (zmem i (c_caps c)); cbn; [exact S | apply caps_insert_sorted; exact S].
  - apply note_slot_caps. right. exact Z.
  - rewrite note_slot_count. unfold note_slot. destruct (zmem i (c_caps c)) eqn:E; cbn; [exact C|].
    unfold zlen in *. rewrite caps_insert_length; [lia|]. apply zmem_false. exact E.
  - intros k Hk. apply note_slot_caps in Hk. destruct (note_slot_captop i c) as [T1 T2].
    destruct Hk as [-> | Hk].
    + split; [exact Hi|]. intros HT. destruct (T2 HT) as [H|H]; [exact H|].
      apply zmem_In in H. destruct (R _ H) as [_ R2]. specialize (R2 ltac:(lia)). lia.
    + destruct (R _ Hk) as [R1 R2]. split; [exact R1|]. intros HT. specialize (R2 ltac:(lia)). lia.
  - unfold names_of in *. rewrite F2, F3. exact K.
  - rewrite F1. exact A.
  - rewrite F1. intros j Hj. apply note_slot_caps. right. apply L. exact Hj.
Qed.

Lemma note_slot_same_tables i c c' :
  c_caps c' = c_caps c -> c_captop c' = c_captop c -> c_capcount c' = c_capcount c ->
  c_caps (note_slot i c') = c_caps (note_slot i c) /\ c_captop (note_slot i c') = c_captop (note_slot i c) /\
  c_capcount (note_slot i c') = c_capcount (note_slot i c).
Proof.
  intros H1 H2 H3. unfold note_slot. rewrite H1. destruct (zmem i (c_caps c)); cbn; rewrite ?H1, ?H2, ?H3; auto.
Qed.

(* a state with the tables of [note_slot k c] and other autocap / names *)
Lemma cw_transport c c' :
  cw c -> c_caps c' = c_caps c -> c_captop c' = c_captop c -> c_capcount c' = c_capcount c ->
  (forall s, aget s (names_of c') <> None -> In s (c_capnamelist c')) ->
  1 <= c_autocap c' -> (forall j, 0 <= j < c_autocap c' -> In j (c_caps c')) -> cw c'.
Proof.
  intros [S Z C R K A L] H1 H2 H3 K' A' L'. constructor; rewrite ?H1, ?H2, ?H3; auto. rewrite <- H1. exact L'.
Qed.

Lemma note_auto_cw c : cw c -> cw (note_auto c).
Proof.
  intros W. pose proof W as [S Z C R K A L]. unfold note_auto.
  set (k := c_autocap c).
  set (c1 := mkC (k + 1) (c_caps c) (c_capcount c) (c_captop c) (c_capnames c) (c_capnamelist c)).
  destruct (note_slot_fields k c1) as [F1 [F2 F3]].
  destruct (note_slot_same_tables k c c1 eq_refl eq_refl eq_refl) as [T1 [T2 T3]].
  assert (W2 : cw (note_slot k c)) by (apply note_slot_cw; [exact W | subst k; lia]).
  apply (cw_transport (note_slot k c)); auto.
  - unfold names_of. rewrite F2, F3. exact K.
  - rewrite F1. cbn. subst k. lia.
  - rewrite F1. cbn. intros j Hj. apply note_slot_caps. destruct (Z.eq_dec j k) as [-> | Hne]; [left; reflexivity | right; apply L; subst k; lia].
Qed.

Lemma aget_aset_nonnone x s v m : aget x (aset s v m) <> None -> x = s \/ aget x m <> None.
Proof.
  intros H. destruct (aget x (aset s v m)) as [w|] eqn:E; [|congruence].
  apply aget_aset_cases in E. destruct E as [[-> _]|E]; [left; reflexivity | right; congruence].
Qed.

Lemma note_name_cw mco ecma s c c' : cw c -> note_name mco ecma s c = Ok c' -> cw c'.
Proof.
  intros W E. pose proof W as [S Z C R K A L]. unfold note_name in E.
  destruct (aget s (names_of c)) as [v|] eqn:Eg.
  - destruct ecma; [discriminate|]. inversion E; subst. constructor; cbn; auto;
      intros s0 H; apply K; unfold names_of in *; destruct (c_capnames c); exact H.
  - destruct mco.
    + inversion E; subst; clear E.
      set (k := c_autocap c).
      set (c1 := mkC (k + 1) (c_caps c) (c_capcount c) (c_captop c) (Some (aset s k (names_of c))) (c_capnamelist c)).
      assert (W2 : cw (note_slot k c)) by (apply note_slot_cw; [exact W | subst k; lia]).
      destruct (note_slot_fields k c1) as [F1 [F2 F3]].
      destruct (note_slot_same_tables k c c1 eq_refl eq_refl eq_refl) as [T1 [T2 T3]].
      apply (cw_transport (note_slot k c)); cbn; auto.
      * unfold names_of. cbn. rewrite F2, F3. cbn. intros s0 H. apply aget_aset_nonnone in H.
        apply in_or_app. destruct H as [-> | H]; [right; left; reflexivity | left; apply K; exact H].
      * rewrite F1. cbn. subst k. lia.
      * rewrite F1. cbn. intros j Hj. apply note_slot_caps. destruct (Z.eq_dec j k) as [-> | Hne]; [left; reflexivity | right; apply L; subst k; lia].
    + inversion E; subst. constructor; cbn; auto.
      unfold names_of. cbn. intros s0 H. apply aget_aset_nonnone in H.
      apply in_or_app. destruct H as [-> | H]; [right; left; reflexivity | left; apply K; exact H].
Qed.

Lemma note_name_pr_cw mco o s c c' : cw c -> note_name_pr mco o s c = POk c' -> cw c'.
Proof.
  intros W E. unfold note_name_pr in E. destruct (note_name mco (useE o) s c) as [c2| | |] eqn:N; try discriminate.
  inversion E; subst. eapply note_name_cw; eassumption.
Qed.

(* assignNameSlots, first loop *)
Lemma assign_names_cw names : forall c, cw c -> incl names (c_capnamelist c) ->
  cw (assign_names names c) /\ incl (c_caps c) (c_caps (assign_names names c)) /\
  c_capnamelist (assign_names names c) = c_capnamelist c /\
  (forall x v, aget x (names_of (assign_names names c)) = Some v ->
     In v (c_caps (assign_names names c)) \/ (~ In x names /\ aget x (names_of c) = Some v)).
Proof.
  induction names as [|s r IH]; intros c W I; cbn [assign_names].
  - split; [exact W|]. split; [apply incl_refl|]. split; [reflexivity|]. intros x v H. right. split; [intros []| exact H].
  - lazy zeta.
    destruct (next_free_spec (S (length (c_caps c))) (c_caps c) (c_autocap c)) as [N1 [N2 _]]. cbv zeta in N1, N2.
    set (a := next_free (S (length (c_caps c))) (c_caps c) (c_autocap c)) in *.
    pose proof W as [S Z C R K A L].
    set (c1 := mkC a (c_caps c) (c_capcount c) (c_captop c) (Some (aset s a (names_of c))) (c_capnamelist c)).
    destruct (note_slot_fields a c1) as [F1 [F2 F3]].
    assert (W2 : cw (note_slot a c)) by (apply note_slot_cw; [exact W | lia]).
    set (c2 := note_slot a c1) in *.
    set (c3 := mkC (a + 1) (c_caps c2) (c_capcount c2) (c_captop c2) (c_capnames c2) (c_capnamelist c2)).
    destruct (note_slot_same_tables a c c1 eq_refl eq_refl eq_refl) as [T1 [T2 T3]].
    assert (W3 : cw c3).
    { apply (cw_transport (note_slot a c)); cbn [c3 c_caps c_captop c_capcount c_autocap c_capnames c_capnamelist]; auto.
      - unfold names_of. cbn [c3 c_capnames c_capnamelist]. rewrite F2, F3. cbn [c1 c_capnames c_capnamelist]. intros s0 H. apply aget_aset_nonnone in H.
        destruct H as [-> | H]; [apply I; left; reflexivity | apply K; exact H].
      - lia.
      - intros j Hj. apply note_slot_caps. cbn [c1 c_caps].
        destruct (Z.eq_dec j a) as [-> | Hne]; [left; reflexivity | right].
        destruct (Z_lt_le_dec j (c_autocap c)); [apply L; lia | apply N2; lia]. }
    destruct (IH c3 W3) as [R1 [R2 [R3 R4]]].
    { cbn. rewrite F3. cbn. intros x Hx. apply I. right. exact Hx. }
    split; [exact R1|]. split.
    { intros x Hx. apply R2. cbn. apply note_slot_caps. right. exact Hx. }
    split; [rewrite R3; cbn; rewrite F3; reflexivity|].
    intros x v Hx. destruct (R4 x v Hx) as [H|[H1 H2]]; [left; exact H|].
    unfold names_of in H2. cbn in H2. rewrite F2 in H2. cbn in H2.
    destruct (list_eq_dec Z.eq_dec x s) as [-> | Hne].
    + rewrite aget_aset_same in H2. inversion H2; subst v. left. apply R2. cbn. apply note_slot_caps. left. reflexivity.
    + rewrite aget_aset_other in H2 by exact Hne. right. split; [|exact H2]. intros [<- | Hin]; [congruence | contradiction].
Qed.

(* ---------------------------------------------------------------- the finished table *)
Record tbl_ok (tb : ptree) : Prop := mkTK {
  tk_sorted : ssorted (t_caps tb);
  tk_zero : In 0 (t_caps tb);
  tk_nonneg : forall k, In k (t_caps tb) -> 0 <= k;
  tk_below : t_captop tb < maxint32 -> forall k, In k (t_caps tb) -> k < t_captop tb;
  tk_numlist : t_capnumlist tb = if zlen (t_caps tb) <? t_captop tb then Some (t_caps tb) else None;
  tk_vals : t_captop tb < maxint32 -> vals_ok tb }.

Lemma capnumlist_cw c : cw c -> capnumlist_of c = if zlen (c_caps c) <? c_captop c then Some (c_caps c) else None.
Proof. intros W. unfold capnumlist_of. rewrite (cw_count _ W). reflexivity. Qed.

(* no gap below captop when the table counts as dense *)
Lemma cw_dense c : cw c -> c_captop c < maxint32 -> capnumlist_of c = None -> c_caps c = zrange (c_capcount c).
Proof.
  intros W HT HN. pose proof W as [S Z C R K A L]. unfold capnumlist_of in HN.
  destruct (c_capcount c <? c_captop c) eqn:E; [discriminate|].
  assert (B : forall x, In x (c_caps c) -> 0 <= x < c_captop c) by (intros x Hx; destruct (R x Hx) as [R1 R2]; specialize (R2 HT); lia).
  pose proof (ssorted_length_bound (c_caps c) 0 (c_captop c) S B) as LB.
  pose proof (B 0 Z) as B0. unfold zlen in C. assert (c_capcount c = c_captop c) by lia.
  apply ssorted_dense; [exact S | intros x Hx; rewrite H; apply B; exact Hx | lia].
Qed.

Lemma cw_table c : cw c ->
  forall nl names lst, nl = capnumlist_of c ->
  (c_captop c < maxint32 -> match names with Some m => forall s k, aget s m = Some k -> In k (c_caps c) | None => True end) ->
  tbl_ok (mkT (c_caps c) nl (c_captop c) names lst).
Proof.
  intros W nl names lst -> V. pose proof W as [S Z C R K A L].
  constructor; cbn; auto.
  - intros k Hk. apply R. exact Hk.
  - intros HT k Hk. apply R; assumption.
  - apply capnumlist_cw. exact W.
Qed.

Lemma fill_ordered_keeps ecma js : forall l m l2 m2, fill_ordered ecma js l m = (l2, m2) ->
  forall s v, aget s m = Some v -> aget s m2 = Some v.
Proof.
  induction js as [|j js IH]; intros l m l2 m2 H s v Hs; cbn [fill_ordered] in H; [inversion H; subst; exact Hs|].
  destruct l as [|s0 l']; [inversion H; subst; exact Hs|].
  destruct ecma.
  - destruct (fill_ordered true js l' m) as [r m'] eqn:E. inversion H; subst. eapply IH; eassumption.
  - set (s' := match s0 with [] => itoa j | _ => s0 end) in *.
    destruct (fill_ordered false js l' (if amem s' m then m else aset s' j m)) as [r m'] eqn:E. inversion H; subst.
    eapply IH; [exact E|]. destruct (amem s' m) eqn:A; [exact Hs|].
    rewrite aget_aset_other; [exact Hs|]. intros ->. apply amem_false in A. congruence.
Qed.

Section Table.
Variable is_word_char : Z -> bool.
Variable to_lower : Z -> Z.
Variable simple_fold : Z -> Z.
Variable participates : Z -> bool.
Variable cat_in : Z -> Z -> bool.
Variable cat_name : list Z -> Z.

Local Notation prescan_loop := (prescan_loop is_word_char to_lower simple_fold cat_in cat_name).
Local Notation count_captures := (count_captures is_word_char to_lower simple_fold cat_in cat_name).

Lemma prescan_loop_cw mco fuel st p st' : cw (cs_c st) -> prescan_loop fuel mco st p = POk st' -> cw (cs_c st').
Proof.
  apply (prescan_loop_gen is_word_char to_lower simple_fold cat_in cat_name mco cw).
  - apply note_auto_cw.
  - intros _ c i W Hi. apply note_slot_cw; [exact W | lia].
  - intros o s c c'. apply note_name_pr_cw.
Qed.

Theorem count_captures_table mco o p tb : count_captures mco o p = POk tb ->
  tbl_ok tb /\
  exists stF, prescan_loop (S (length p)) mco (mkCS c_init o [] false) p = POk stF /\
              incl (c_caps (cs_c stF)) (t_caps tb) /\ cw (cs_c stF) /\
              (mco = true -> forall s v, aget s (names_of (cs_c stF)) = Some v ->
                 exists m, t_capnames tb = Some m /\ aget s m = Some v).
Proof.
  unfold Parser.count_captures. intros E.
  destruct (prescan_loop (S (length p)) mco (mkCS c_init o [] false) p) as [st| | | |] eqn:EL; cbn [pbind] in E; try discriminate.
  pose proof (prescan_loop_cw mco (S (length p)) (mkCS c_init o [] false) p st cw_init EL) as W.
  pose proof (prescan_loop_ok is_word_char to_lower simple_fold participates cat_in cat_name mco (S (length p)) (mkCS c_init o [] false) p (cinv_init mco) ltac:(lia)) as CI.
  rewrite EL in CI. set (c := cs_c st) in *.
  assert (GOAL : tbl_ok tb /\ incl (c_caps c) (t_caps tb) /\
                 (mco = true -> forall s v, aget s (names_of c) = Some v -> exists m, t_capnames tb = Some m /\ aget s m = Some v));
    [|destruct GOAL as [G1 [G2 G3]]; split; [exact G1 | exists st; auto]].
  destruct mco.
  - (* assignOrderedNameSlots: the key list is 0 .. autocap-1 *)
    destruct CI as [A N M D]. destruct (D eq_refl) as [D1 [D2 [D3 D4]]].
    assert (NL : capnumlist_of c = None).
    { unfold capnumlist_of. destruct (c_capcount c <? c_captop c) eqn:E1; [lia | reflexivity]. }
    assert (JS : forall v, In v (zrange (c_capcount c)) -> In v (c_caps c)).
    { intros v Hv. apply zrange_In in Hv. apply D3. lia. }
    unfold of_res, assign_ordered in E. rewrite NL in E.
    destruct (c_capnames c) as [m|] eqn:Em.
    + destruct (place_names (c_capnamelist c) None m (repeat [] (Z.to_nat (c_capcount c)))) as [l1| | |]; cbn [bind] in E; try discriminate.
      destruct (fill_ordered (useE o) (zrange (c_capcount c)) l1 m) as [l2 m2] eqn:Ef. inversion E; subst tb.
      split; [|split; [cbn; apply incl_refl|]].
      2:{ intros _ s v Hs. exists m2. split; [reflexivity|]. eapply fill_ordered_keeps; [exact Ef|]. unfold names_of in Hs. rewrite Em in Hs. exact Hs. }
      apply cw_table; [exact W | symmetry; exact NL|].
      intros _ s k Hk. destruct (fill_ordered_vals _ _ _ _ _ _ Ef s k Hk) as [H1|H1]; [|apply JS; exact H1].
      apply D3. assert (H : aget s (names_of c) = Some k) by (unfold names_of; rewrite Em; exact H1). specialize (D4 _ _ H). lia.
    + destruct (negb (useE o) && (c_capcount c =? c_captop c)).
      { inversion E; subst tb. split; [|split; [cbn; apply incl_refl|]]; [apply cw_table; [exact W | symmetry; exact NL | auto]|].
        intros _ s v Hs. unfold names_of in Hs. rewrite Em in Hs. discriminate. }
      destruct (place_names (c_capnamelist c) None [] (repeat [] (Z.to_nat (c_capcount c)))) as [l1| | |]; cbn [bind] in E; try discriminate.
      destruct (fill_ordered (useE o) (zrange (c_capcount c)) l1 []) as [l2 m2] eqn:Ef. inversion E; subst tb.
      split; [|split; [cbn; apply incl_refl|]].
      2:{ intros _ s v Hs. unfold names_of in Hs. rewrite Em in Hs. discriminate. }
      apply cw_table; [exact W | symmetry; exact NL|].
      intros _ s k Hk. destruct (fill_ordered_vals _ _ _ _ _ _ Ef s k Hk) as [H1|H1]; [discriminate | apply JS; exact H1].
  - (* assignNameSlots *)
    unfold of_res, assign_default in E.
    set (c1 := match c_capnames c with Some _ => assign_names (c_capnamelist c) c | None => c end) in *.
    assert (W1 : cw c1 /\ incl (c_caps c) (c_caps c1) /\
                 (forall x v, aget x (names_of c1) = Some v -> In v (c_caps c1))).
    { subst c1. destruct (c_capnames c) as [m0|] eqn:Em0.
      - destruct (assign_names_cw (c_capnamelist c) c W (incl_refl _)) as [R1 [R2 [R3 R4]]].
        split; [exact R1|]. split; [exact R2|]. intros x v Hx. destruct (R4 x v Hx) as [H|[H1 H2]]; [exact H|].
        exfalso. apply H1. apply (cw_keys _ W). congruence.
      - split; [exact W|]. split; [apply incl_refl|]. intros x v Hx. unfold names_of in Hx. rewrite Em0 in Hx. discriminate. }
    destruct W1 as [W1 [I1 V1]].
    assert (JS : c_captop c1 < maxint32 -> forall v,
              In v (match capnumlist_of c1 with Some l => l | None => zrange (c_capcount c1) end) -> In v (c_caps c1)).
    { intros HT v Hv. destruct (capnumlist_of c1) as [l|] eqn:En.
      - unfold capnumlist_of in En. destruct (c_capcount c1 <? c_captop c1); [|discriminate]. inversion En; subst l. exact Hv.
      - rewrite (cw_dense c1 W1 HT En). exact Hv. }
    assert (FIN : forall names lst, (c_captop c1 < maxint32 -> match names with Some m => forall s k, aget s m = Some k -> In k (c_caps c1) | None => True end) ->
              tbl_ok (mkT (c_caps c1) (capnumlist_of c1) (c_captop c1) names lst) /\ incl (c_caps c) (t_caps (mkT (c_caps c1) (capnumlist_of c1) (c_captop c1) names lst)) /\
              (false = true -> forall s v, aget s (names_of c) = Some v ->
                 exists m, t_capnames (mkT (c_caps c1) (capnumlist_of c1) (c_captop c1) names lst) = Some m /\ aget s m = Some v)).
    { intros names lst V. split; [apply cw_table; auto | split; [exact I1 | intros HH; discriminate]]. }
    destruct (c_capnames c1) as [m1|] eqn:Em1.
    + assert (V1' : forall s v, aget s m1 = Some v -> In v (c_caps c1)).
      { intros s v Hv. apply (V1 s v). unfold names_of. rewrite Em1. exact Hv. }
      destruct (capnumlist_of c1) as [nl|] eqn:Enl.
      * destruct (c_capnamelist c1) as [|s0 r0]; cbn [bind] in E; [discriminate|].
        destruct (merge_names nl (s0 :: r0) (aget0 s0 m1) m1) as [[l m']| | |] eqn:Emg; cbn [bind] in E; try discriminate.
        inversion E; subst tb. apply FIN. intros HT s k Hk.
        destruct (merge_vals _ _ _ _ _ _ Emg s k Hk) as [H1|H1]; [eauto | apply (JS HT); exact H1].
      * destruct (c_capnamelist c1) as [|s0 r0]; cbn [bind] in E; [discriminate|].
        destruct (merge_names (zrange (c_capcount c1)) (s0 :: r0) (aget0 s0 m1) m1) as [[l m']| | |] eqn:Emg; cbn [bind] in E; try discriminate.
        inversion E; subst tb. apply FIN. intros HT s k Hk.
        destruct (merge_vals _ _ _ _ _ _ Emg s k Hk) as [H1|H1]; [eauto | apply (JS HT); exact H1].
    + destruct (capnumlist_of c1) as [nl|] eqn:Enl.
      * cbn [bind] in E. destruct (merge_names nl [] (-1) []) as [[l m']| | |] eqn:Emg; cbn [bind] in E; try discriminate.
        inversion E; subst tb. apply FIN. intros HT s k Hk.
        destruct (merge_vals _ _ _ _ _ _ Emg s k Hk) as [H1|H1]; [discriminate | apply (JS HT); exact H1].
      * inversion E; subst tb. apply FIN. auto.
Qed.

End Table.

(* ---------------------------------------------------------------- ECMAScript: no group names in the fragment *)
Section NoNames.
Variable is_word_char : Z -> bool.
Variable to_lower : Z -> Z.
Variable simple_fold : Z -> Z.
Variable cat_in : Z -> Z -> bool.
Variable cat_name : list Z -> Z.

Local Notation prescan_step := (prescan_step is_word_char to_lower simple_fold cat_in cat_name).
Local Notation prescan_loop := (prescan_loop is_word_char to_lower simple_fold cat_in cat_name).
Local Notation count_captures := (count_captures is_word_char to_lower simple_fold cat_in cat_name).

(* the ECMAScript bit is set in the current option word and in every stacked one *)
Definition Eall (cs : cst) : Prop := useE (cs_o cs) = true /\ Forall (fun o => useE o = true) (cs_os cs).

(* no names, and the group numbers are exactly 0 .. autocap-1 *)
Definition EN (c : cstate) : Prop :=
  c_capnames c = None /\ c_capcount c = c_autocap c /\ c_captop c <= c_autocap c /\ (forall j, In j (c_caps c) -> j < c_autocap c).

Lemma note_auto_EN c : EN c -> EN (note_auto c).
Proof.
  intros [N [C [T L]]]. unfold note_auto.
  set (k := c_autocap c).
  set (c1 := mkC (k + 1) (c_caps c) (c_capcount c) (c_captop c) (c_capnames c) (c_capnamelist c)).
  destruct (note_slot_fields k c1) as [F1 [F2 F3]].
  assert (Z : zmem k (c_caps c1) = false).
  { destruct (zmem k (c_caps c1)) eqn:E; [|reflexivity]. apply zmem_In in E. apply L in E. subst k. lia. }
  unfold EN. rewrite F1, F2. split; [exact N|].
  split; [|split].
  - unfold note_slot. rewrite Z. cbn. subst k. lia.
  - unfold note_slot. rewrite Z. cbn. fold k. destruct (c_captop c <=? k) eqn:E; [destruct (k =? maxint32); lia | lia].
  - intros j Hj. apply note_slot_caps in Hj. cbn. destruct Hj as [-> | Hj]; [lia | apply L in Hj; fold k in Hj; lia].
Qed.

Lemma prescan_step_E mco cs ch p1 cs' q : Eall cs -> EN (cs_c cs) ->
  prescan_step mco cs ch p1 = POk (cs', q) -> Eall cs' /\ EN (cs_c cs').
Proof.
  intros [E1 E2] N H. unfold Parser.prescan_step in H.
  assert (SAME : forall q0, POk (cs, q0) = POk (cs', q) -> Eall cs' /\ EN (cs_c cs')).
  { intros q0 HH. inversion HH; subst. split; [split; assumption | exact N]. }
  destruct (ch =? 92).
  { destruct p1 as [|c p2]; [eapply SAME; exact H|].
    match type of H with pbind ?a _ = _ => destruct a as [q0|e q0| | |] end; cbn [pbind] in H; try discriminate. eapply SAME; exact H. }
  destruct (ch =? 35).
  { destruct (useX (cs_o cs)); [|eapply SAME; exact H].
    match type of H with pbind ?a _ = _ => destruct a as [q0|e q0| | |] end; cbn [pbind] in H; try discriminate. eapply SAME; exact H. }
  destruct (ch =? 91).
  { match type of H with pbind ?a _ = _ => destruct a as [q0|e q0| | |] end; cbn [pbind] in H; try discriminate. eapply SAME; exact H. }
  destruct (ch =? 41).
  { destruct (cs_os cs) as [|o' r] eqn:EO; [eapply SAME; exact H|]. inversion H; subst. cbn.
    inversion E2; subst. split; [split; assumption | exact N]. }
  destruct (ch =? 40); [|eapply SAME; exact H].
  unfold Parser.prescan_open in H. cbv zeta in H. cbn [cs_c cs_o cs_os cs_ign] in H.
  assert (PUSH : Forall (fun o => useE o = true) (cs_o cs :: cs_os cs)) by (constructor; assumption).
  destruct (starts_qhash p1).
  { destruct (ignore_err0 (scan_blank_full (cs_o cs) (ch :: p1))) as [q0|e q0| | |]; cbn [pbind] in H; try discriminate.
    inversion H; subst. cbn. split; [split; assumption | exact N]. }
  destruct (hd_is p1 63).
  2:{ destruct (negb (useN (cs_o cs)) && negb (cs_ign cs)); inversion H; subst; cbn [cs_c cs_o cs_os]; (split; [split; assumption|]); [apply note_auto_EN; exact N | exact N]. }
  destruct (longer (tl p1) 1 && (hd_is (tl p1) 60 || hd_is (tl p1) 39)).
  { unfold Parser.prescan_named in H. destruct (tl (tl p1)) as [|ch2 p4]; [discriminate|]. cbn [cs_o] in H. rewrite E1 in H.
    destruct ((ch2 =? 61) || (ch2 =? 33) || (ch2 =? 48)); [|discriminate]. inversion H; subst. cbn. split; [split; assumption | exact N]. }
  destruct (useRE2 (cs_o cs) && longer (tl p1) 2 && hd_is (tl p1) 80 && nth_is 1 (tl p1) 60).
  { unfold Parser.prescan_pyname in H. destruct (skipn 2 (tl p1)) as [|ch2 p4]; [discriminate|].
    destruct (is_word_char ch2); [cbn [cs_o] in H; rewrite E1 in H; discriminate|]. inversion H; subst. cbn. split; [split; assumption | exact N]. }
  destruct (scan_options_text (cs_o cs) (tl p1)) as [o2 q0] eqn:EO.
  destruct (inline_options_keep_top_bits _ _ _ _ EO) as [_ [KE _]].
  cbn [cs_c cs_os cs_o cs_ign] in H.
  assert (E1' : useE o2 = true) by congruence.
  destruct (hd_is q0 41); [inversion H; subst; cbn [cs_c cs_o cs_os]; split; [split; assumption | exact N]|].
  destruct (hd_is q0 40); inversion H; subst; cbn [cs_c cs_o cs_os]; (split; [split; assumption | exact N]).
Qed.

Lemma prescan_loop_E mco fuel : forall cs p cs', Eall cs -> EN (cs_c cs) ->
  prescan_loop fuel mco cs p = POk cs' -> EN (cs_c cs').
Proof.
  induction fuel as [|f IH]; intros cs p cs' E N H; cbn [Parser.prescan_loop] in H; [discriminate|].
  destruct p as [|ch p1]; [inversion H; subst; exact N|].
  destruct (prescan_step mco cs ch p1) as [[st1 q]|e q| | |] eqn:S; cbn [pbind] in H; try discriminate.
  destruct (prescan_step_E mco cs ch p1 st1 q E N S) as [E' N']. eapply IH; eassumption.
Qed.

Lemma EN_init : EN c_init.
Proof. unfold EN, c_init. cbn. split; [reflexivity|]. split; [reflexivity|]. split; [lia|]. intros j [<- | []]. lia. Qed.

Lemma fill_ordered_ecma_map js : forall l m, snd (fill_ordered true js l m) = m.
Proof.
  induction js as [|j js IH]; intros l m; cbn [fill_ordered]; [reflexivity|].
  destruct l as [|s l']; [reflexivity|]. specialize (IH l' m). destruct (fill_ordered true js l' m). cbn [snd] in *. exact IH.
Qed.

Theorem count_captures_nonames mco o p tb : useE o = true ->
  count_captures mco o p = POk tb -> no_names tb = true.
Proof.
  intros HE E. unfold Parser.count_captures in E.
  destruct (prescan_loop (S (length p)) mco (mkCS c_init o [] false) p) as [st| | | |] eqn:EL; cbn [pbind] in E; try discriminate.
  pose proof (prescan_loop_E mco (S (length p)) (mkCS c_init o [] false) p st ltac:(split; [exact HE | constructor]) EN_init EL) as [N [C [T L]]].
  destruct mco.
  - unfold of_res, assign_ordered in E. rewrite N, HE in E. cbn [negb andb] in E.
    destruct (place_names (c_capnamelist (cs_c st)) (capnumlist_of (cs_c st)) [] (repeat [] (Z.to_nat (c_capcount (cs_c st))))) as [l1| | |]; cbn [bind] in E; try discriminate.
    pose proof (fill_ordered_ecma_map (match capnumlist_of (cs_c st) with Some l => l | None => zrange (c_capcount (cs_c st)) end) l1 []) as FM.
    destruct (fill_ordered true (match capnumlist_of (cs_c st) with Some l => l | None => zrange (c_capcount (cs_c st)) end) l1 []) as [l2 m2].
    cbn [snd] in FM. subst m2. inversion E; subst. reflexivity.
  - unfold of_res, assign_default in E. rewrite N in E. cbv zeta in E. rewrite N in E.
    unfold capnumlist_of in E. replace (c_capcount (cs_c st) <? c_captop (cs_c st)) with false in E by (symmetry; apply Z.ltb_ge; lia).
    inversion E; subst. reflexivity.
Qed.

End NoNames.
