(* C08 (reference-semantics half): every state the reference semantics [Spec.sem] produces keeps
   the text position and every capture of every group inside the input, balancing groups
   included; and group 0 of a successful attempt has exactly one capture, equal to the match.

   Both facts are instances of one generic lemma ([sb_sem_rel]): a relation R between the start
   state and every result state that is reflexive, transitive, respected by the leaves, by
   re-positioning (lookarounds / conditionals) and by the two capture forms, holds for all
   results of all trees. *)
From Verif Require Import Base.Prelude Model.Tree Model.Spec Proofs.SpecProofs.
From Coq Require Import ZifyBool.

(* ---------- a predicate holding at every node of a tree ---------- *)
Fixpoint sb_all (P : node -> Prop) (t : node) : Prop :=
  P t /\
  match t with
  | NConcat _ l | NAlternate _ l =>
      (fix go (l : list node) : Prop :=
         match l with [] => True | x :: l' => sb_all P x /\ go l' end) l
  | NLoop _ _ _ _ r | NCapture _ _ _ r | NGroup r | NPosLook _ r | NNegLook _ r | NAtomic r => sb_all P r
  | NBackRefCond _ _ y no => sb_all P y /\ match no with Some n => sb_all P n | None => True end
  | NExprCond _ c y no =>
      sb_all P c /\ sb_all P y /\ match no with Some n => sb_all P n | None => True end
  | _ => True
  end.

Definition sb_all_list (P : node -> Prop) (l : list node) : Prop :=
  (fix go (l : list node) : Prop :=
     match l with [] => True | x :: l' => sb_all P x /\ go l' end) l.

Lemma sb_all_here P t : sb_all P t -> P t.
Proof. destruct t; cbn [sb_all]; tauto. Qed.

Definition sb_leaf (t : node) : bool :=
  match t with
  | NChar _ _ _ | NCharLoop _ _ _ _ _ _ | NMulti _ _ | NRef _ _ | NAnchor _ | NNothing | NEmpty | NBump => true
  | _ => false
  end.

(* ---------- result-list combinators ---------- *)
Lemma sb_bindl_forall {A B} (Q : B -> Prop) (f : A -> res (list B)) : forall la l,
  (forall a l', In a la -> f a = Ok l' -> Forall Q l') -> bindl la f = Ok l -> Forall Q l.
Proof.
  induction la as [|a la IH]; intros l Hf H; cbn [bindl] in H.
  - injection H as <-. constructor.
  - apply sp_bind_ok in H. destruct H as [x [Hx H]].
    apply sp_bind_ok in H. destruct H as [y [Hy H]]. injection H as <-.
    apply Forall_app. split.
    + apply (Hf a x); [left; reflexivity|exact Hx].
    + apply IH; [|exact Hy]. intros a' l' Hin. apply Hf. right. exact Hin.
Qed.

Lemma sb_bindl_singleton {A B} (g : A -> B) : forall la l,
  bindl la (fun a => Ok [g a]) = Ok l -> l = map g la.
Proof.
  induction la as [|a la IH]; intros l H; cbn [bindl] in H.
  - injection H as <-. reflexivity.
  - cbn [bind] in H. apply sp_bind_ok in H. destruct H as [y [Hy H]]. injection H as <-.
    cbn [map app]. f_equal. apply IH. exact Hy.
Qed.

Section SemRel.
Variable e : env.
Variable P : node -> Prop.
Variable R : st -> st -> Prop.
Hypothesis R_refl : forall s, R s s.
Hypothesis R_trans : forall a b c, R a b -> R b c -> R a c.
Hypothesis R_leaf : forall f t s l, P t -> sb_leaf t = true -> sem e (S f) t s = Ok l -> Forall (R s) l.
Hypothesis R_repos : forall s s', R s s' -> R s (with_pos s' (pos s)).
Hypothesis R_capture : forall o g r s s',
  P (NCapture o g (-1) r) -> R s s' ->
  R s {| pos := pos s'; caps := cap_push g (span (pos s) (pos s')) (caps s') |}.
Hypothesis R_balance : forall o g u r s s' top rest,
  P (NCapture o g u r) -> R s s' -> cap_get u (caps s') = top :: rest ->
  R s {| pos := pos s';
         caps := if g =? -1 then cap_pop u (caps s')
                 else cap_push g (balance_span (pos s) (pos s') top) (cap_pop u (caps s')) |}.

Lemma sb_forall_trans s a l : R s a -> Forall (R a) l -> Forall (R s) l.
Proof. intros Hsa Hl. eapply Forall_impl; [|exact Hl]. intros c Hc. eapply R_trans; eassumption. Qed.

Lemma sb_bindr_rel (r : res (list st)) (f : st -> res (list st)) s l :
  (forall la, r = Ok la -> Forall (R s) la) ->
  (forall a l', f a = Ok l' -> Forall (R a) l') ->
  bindr r f = Ok l -> Forall (R s) l.
Proof.
  intros Hr Hf H. apply sp_bindr_ok in H. destruct H as [la [Hla H]].
  pose proof (Hr la Hla) as Fla.
  eapply sb_bindl_forall; [|exact H].
  intros a l' Hin Ha. apply sb_forall_trans with (a := a).
  - rewrite Forall_forall in Fla. apply Fla. exact Hin.
  - apply Hf. exact Ha.
Qed.

Lemma sb_appr_rel (a b : res (list st)) s l :
  (forall x, a = Ok x -> Forall (R s) x) -> (forall y, b = Ok y -> Forall (R s) y) ->
  appr a b = Ok l -> Forall (R s) l.
Proof.
  intros Ha Hb H. apply sp_appr_ok in H. destruct H as (x & y & Hx & Hy & ->).
  apply Forall_app. split; [apply Ha; exact Hx|apply Hb; exact Hy].
Qed.

Lemma sb_first_only_rel (r : res (list st)) s l :
  (forall x, r = Ok x -> Forall (R s) x) -> first_only r = Ok l -> Forall (R s) l.
Proof.
  intros Hr H. apply sp_first_only_ok in H. destruct H as (l0 & Hl0 & ->).
  pose proof (Hr l0 Hl0) as F. destruct l0 as [|a l0]; [constructor|].
  inversion F; subst. constructor; [assumption|constructor].
Qed.

Lemma sb_iter_rel (body : st -> res (list st)) :
  (forall s l, body s = Ok l -> Forall (R s) l) ->
  forall fuel lazy limit s mark count l,
    iter fuel body lazy limit s mark count = Ok l -> Forall (R s) l.
Proof.
  intros Hb. induction fuel as [|f IH]; intros lazy limit s mark count l H; [discriminate H|].
  cbn [iter] in H.
  assert (Hagain : forall la,
    bindr (body s) (fun s' => iter f body lazy limit s' (pos s) (count + 1)) = Ok la -> Forall (R s) la).
  { intros la. apply sb_bindr_rel; [apply Hb|]. intros a l'. apply IH. }
  assert (Hself : Forall (R s) [s]) by (constructor; [apply R_refl|constructor]).
  destruct lazy.
  - destruct (count <? 0); [exact (Hagain l H)|].
    revert H. apply sb_appr_rel.
    + intros x Hx. injection Hx as <-. exact Hself.
    + destruct ((count <? limit) && negb (pos s =? mark)); [exact Hagain|].
      intros y Hy. injection Hy as <-. constructor.
  - destruct ((limit <=? count) || ((pos s =? mark) && (0 <=? count))).
    + injection H as <-. exact Hself.
    + revert H. apply sb_appr_rel; [exact Hagain|].
      intros y Hy. injection Hy as <-. destruct (0 <=? count); [exact Hself|constructor].
Qed.

Theorem sb_sem_rel : forall fuel t s l,
  sb_all P t -> sem e fuel t s = Ok l -> Forall (R s) l.
Proof.
  induction fuel as [|f IH]; intros t s l HP H; [discriminate H|].
  pose proof (sb_all_here P t HP) as Ht.
  destruct t as [kd o c|kd lk o c m n|o str|o g|a| | | |o cl|o cl|lazy o m n r|o g u r|r|o r|o r|r
                |o g yes no|o c yes no];
    try (apply (R_leaf f _ s l Ht eq_refl H)); cbn [sem] in H; cbn [sb_all] in HP.
  - (* NConcat *)
    destruct HP as [_ HP]. clear Ht. revert s l H. induction cl as [|x cl IHl]; intros s l H.
    + injection H as <-. constructor; [apply R_refl|constructor].
    + destruct HP as [Hx Hcl]. revert H. apply sb_bindr_rel.
      * intros la. apply IH. exact Hx.
      * intros a l'. apply IHl. exact Hcl.
  - (* NAlternate *)
    destruct HP as [_ HP]. clear Ht. revert l H. induction cl as [|x cl IHl]; intros l H.
    + injection H as <-. constructor.
    + destruct HP as [Hx Hcl]. revert H. apply sb_appr_rel.
      * intros la. apply IH. exact Hx.
      * intros y. apply IHl. exact Hcl.
  - (* NLoop *)
    destruct HP as [_ HP].
    assert (HI : forall lazy limit s mark count l,
               iter f (sem e f r) lazy limit s mark count = Ok l -> Forall (R s) l).
    { apply sb_iter_rel. intros s0 l0. apply IH. exact HP. }
    destruct (m =? 0); [exact (HI _ _ _ _ _ _ H)|].
    revert H. apply sb_bindr_rel; [intros la; apply IH; exact HP|].
    intros a l'. apply HI.
  - (* NCapture *)
    destruct HP as [_ HP].
    destruct (u =? -1) eqn:Eu.
    + apply sp_bindr_ok in H. destruct H as [la [Hla H]].
      pose proof (IH _ _ _ HP Hla) as Fla.
      eapply sb_bindl_forall; [|exact H].
      intros a l' Hin Ha. injection Ha as <-. constructor; [|constructor].
      assert (u = -1) by lia. subst u.
      eapply R_capture; [exact Ht|]. rewrite Forall_forall in Fla. apply Fla. exact Hin.
    + apply sp_bindr_ok in H. destruct H as [la [Hla H]].
      pose proof (IH _ _ _ HP Hla) as Fla.
      eapply sb_bindl_forall; [|exact H].
      intros a l' Hin Ha. cbv beta in Ha. destruct (cap_get u (caps a)) as [|top rest] eqn:Eg.
      * injection Ha as <-. constructor.
      * injection Ha as <-. constructor; [|constructor].
        eapply R_balance; [exact Ht| |exact Eg]. rewrite Forall_forall in Fla. apply Fla. exact Hin.
  - (* NGroup *) destruct HP as [_ HP]. exact (IH _ _ _ HP H).
  - (* NPosLook *)
    destruct HP as [_ HP]. apply sp_bind_ok in H. destruct H as [l1 [H1 H]]. injection H as <-.
    assert (F1 : Forall (R s) l1).
    { revert H1. apply sb_first_only_rel. intros x. apply IH. exact HP. }
    rewrite Forall_forall in *. intros x Hx. apply in_map_iff in Hx. destruct Hx as (y & <- & Hy).
    apply R_repos. apply F1. exact Hy.
  - (* NNegLook *)
    apply sp_bind_ok in H. destruct H as [l1 [H1 H]]. injection H as <-.
    destruct l1; constructor; [apply R_refl|constructor].
  - (* NAtomic *)
    destruct HP as [_ HP]. revert H. apply sb_first_only_rel. intros x. apply IH. exact HP.
  - (* NBackRefCond *)
    destruct HP as [_ [Hy Hn]].
    destruct (is_matched g (caps s)); [exact (IH _ _ _ Hy H)|].
    destruct no as [n|]; [exact (IH _ _ _ Hn H)|].
    injection H as <-. constructor; [apply R_refl|constructor].
  - (* NExprCond *)
    destruct HP as [_ [Hc [Hy Hn]]].
    apply sp_bind_ok in H. destruct H as [l1 [H1 H]].
    assert (F1 : Forall (R s) l1).
    { revert H1. apply sb_first_only_rel. intros x. apply IH. exact Hc. }
    destruct l1 as [|s' l1].
    + destruct no as [n|]; [exact (IH _ _ _ Hn H)|].
      injection H as <-. constructor; [apply R_refl|constructor].
    + inversion F1; subst. apply sb_forall_trans with (a := with_pos s' (pos s)).
      * apply R_repos. assumption.
      * exact (IH _ _ _ Hy H).
Qed.

End SemRel.

(* ---------- facts about the leaves ---------- *)
Lemma sb_count_down_aux_in n : forall a j, In j (count_down_aux n a) -> a - Z.of_nat n < j <= a.
Proof.
  induction n as [|n IH]; intros a j H; cbn [count_down_aux] in H; [contradiction|].
  destruct H as [<-|H]; [lia|]. apply IH in H. lia.
Qed.
Lemma sb_count_down_in a b j : In j (count_down a b) -> b <= j <= a.
Proof.
  unfold count_down. destruct (a <? b) eqn:E; [contradiction|]. intros H.
  apply sb_count_down_aux_in in H. lia.
Qed.
Lemma sb_count_up_aux_in n : forall a j, In j (count_up_aux n a) -> a <= j < a + Z.of_nat n.
Proof.
  induction n as [|n IH]; intros a j H; cbn [count_up_aux] in H; [contradiction|].
  destruct H as [<-|H]; [lia|]. apply IH in H. lia.
Qed.
Lemma sb_count_up_in a b j : In j (count_up a b) -> a <= j <= b.
Proof.
  unfold count_up. destruct (b <? a) eqn:E; [contradiction|]. intros H.
  apply sb_count_up_aux_in in H. lia.
Qed.

Lemma sb_run_len_bounds e k c o : forall n p, 0 <= run_len e k c o n p <= Z.of_nat n.
Proof.
  induction n as [|n IH]; intros p; cbn [run_len]; [lia|].
  destruct ((0 <? avail e o p) && char_test e k c (next_char e o p)); [|lia].
  specialize (IH (p + dir o)). lia.
Qed.

(* every result of a leaf is the start state moved to another position *)
Lemma sb_leaf_shape e f t s l :
  sb_leaf t = true -> sem e (S f) t s = Ok l -> Forall (fun s' => exists q, s' = with_pos s q) l.
Proof.
  assert (Hs : s = with_pos s (pos s)) by (destruct s; reflexivity).
  destruct t; cbn [sb_leaf]; try discriminate; intros _ H; cbn [sem] in H; injection H as <-.
  - destruct ((0 <? avail e o (pos s)) && char_test e k c (next_char e o (pos s))); repeat constructor.
    eexists; reflexivity.
  - unfold sem_charloop. destruct (_ <? m); [constructor|].
    destruct l0; [| |repeat constructor; eexists; reflexivity];
      apply Forall_forall; intros x Hx; apply in_map_iff in Hx; destruct Hx as (j & <- & _);
      eexists; reflexivity.
  - unfold sem_multi. destruct (_ <? _); [constructor|]. destruct (str_match_at _ _ _ _); repeat constructor.
    eexists; reflexivity.
  - unfold sem_ref. destruct (cap_get g (caps s)) as [|[i len] rest].
    + destruct (ecma e); repeat constructor. exists (pos s). exact Hs.
    + destruct (_ <? _); [constructor|]. destruct (ref_match_at _ _ _ _ _); repeat constructor.
      eexists; reflexivity.
  - destruct (anchor_ok e a (pos s)); repeat constructor. exists (pos s). exact Hs.
  - constructor.
  - repeat constructor. exists (pos s). exact Hs.
  - repeat constructor. exists (pos s). exact Hs.
Qed.

(* ---------- capture tables ---------- *)
Lemma sb_cap_get_set_same g l c : cap_get g (cap_set g l c) = l.
Proof.
  induction c as [|[g' l'] c IH]; cbn [cap_set cap_get].
  - rewrite Z.eqb_refl. reflexivity.
  - destruct (g =? g') eqn:E; cbn [cap_get]; rewrite ?Z.eqb_refl, ?E; [reflexivity|exact IH].
Qed.
Lemma sb_cap_get_set_other g g' l c : g <> g' -> cap_get g (cap_set g' l c) = cap_get g c.
Proof.
  intros Hne. induction c as [|[g2 l2] c IH]; cbn [cap_set cap_get].
  - replace (g =? g') with false by lia. reflexivity.
  - destruct (g' =? g2) eqn:E; cbn [cap_get].
    + assert (g' = g2) by lia. subst g2. replace (g =? g') with false by lia. reflexivity.
    + destruct (g =? g2); [reflexivity|exact IH].
Qed.

(* ================= C08: everything stays inside the input ================= *)
Definition sb_iv_ok (e : env) (iv : Z * Z) : Prop := 0 <= fst iv /\ 0 <= snd iv /\ fst iv + snd iv <= tlen e.
Definition sb_caps_ok (e : env) (c : caps_t) : Prop := Forall (fun gl => Forall (sb_iv_ok e) (snd gl)) c.
Definition st_ok (e : env) (s : st) : Prop := 0 <= pos s <= tlen e /\ sb_caps_ok e (caps s).

(* the only side condition: a single-character loop has a non-negative minimum count
   (the parser never produces another one; with m < 0 the reference semantics itself would
   step in front of the start position) *)
Definition sb_min_ok (t : node) : Prop :=
  match t with NCharLoop _ _ _ _ m _ => 0 <= m | _ => True end.
Definition loops_min_ok (t : node) : Prop := sb_all sb_min_ok t.

Lemma sb_caps_ok_get e g c : sb_caps_ok e c -> Forall (sb_iv_ok e) (cap_get g c).
Proof.
  unfold sb_caps_ok. induction c as [|[g' l'] c IH]; intros H; cbn [cap_get]; [constructor|].
  inversion H; subst. destruct (g =? g'); [assumption|apply IH; assumption].
Qed.
Lemma sb_caps_ok_set e g l c : sb_caps_ok e c -> Forall (sb_iv_ok e) l -> sb_caps_ok e (cap_set g l c).
Proof.
  unfold sb_caps_ok. induction c as [|[g' l'] c IH]; intros H Hl; cbn [cap_set].
  - constructor; [exact Hl|constructor].
  - inversion H; subst. destruct (g =? g'); constructor; cbn [snd]; try assumption.
    apply IH; assumption.
Qed.
Lemma sb_caps_ok_push e g iv c : sb_caps_ok e c -> sb_iv_ok e iv -> sb_caps_ok e (cap_push g iv c).
Proof.
  intros H Hiv. unfold cap_push. apply sb_caps_ok_set; [exact H|].
  constructor; [exact Hiv|apply sb_caps_ok_get; exact H].
Qed.
Lemma sb_caps_ok_pop e g c : sb_caps_ok e c -> sb_caps_ok e (cap_pop g c).
Proof.
  intros H. unfold cap_pop. apply sb_caps_ok_set; [exact H|].
  pose proof (sb_caps_ok_get e g c H) as F. destruct (cap_get g c); [constructor|].
  inversion F; assumption.
Qed.

Lemma sb_span_ok e a b : 0 <= a <= tlen e -> 0 <= b <= tlen e -> sb_iv_ok e (span a b).
Proof. unfold sb_iv_ok, span. cbn [fst snd]. lia. Qed.

(* the three cases of transferCapture: before, after, overlapping *)
Lemma sb_balance_span_ok e a b u :
  0 <= a <= tlen e -> 0 <= b <= tlen e -> sb_iv_ok e u -> sb_iv_ok e (balance_span a b u).
Proof.
  unfold sb_iv_ok, balance_span, span. destruct u as [s2 l2]. cbn [fst snd]. intros Ha Hb Hu.
  destruct (s2 + l2 <=? Z.min a b) eqn:E1; cbn [fst snd]; [lia|].
  destruct (Z.min a b + Z.abs (b - a) <=? s2) eqn:E2; cbn [fst snd]; lia.
Qed.

Lemma sb_leaf_ok e f t s l :
  sb_min_ok t -> sb_leaf t = true -> sem e (S f) t s = Ok l -> st_ok e s -> Forall (st_ok e) l.
Proof.
  intros Hm Hl H [Hp Hc].
  assert (Hself : st_ok e s) by (split; assumption).
  assert (Hmv : forall q, 0 <= q <= tlen e -> st_ok e (with_pos s q)).
  { intros q Hq. split; [exact Hq|exact Hc]. }
  assert (Hone : forall x, st_ok e x -> Forall (st_ok e) [x]).
  { intros x Hx. constructor; [exact Hx|constructor]. }
  destruct t; cbn [sb_leaf] in Hl; try discriminate; cbn [sem] in H; injection H as <-.
  - (* NChar *)
    destruct ((0 <? avail e o (pos s)) && char_test e k c (next_char e o (pos s))) eqn:E; [|constructor].
    apply Hone, Hmv. unfold avail, dir in *. destruct (is_rtl o); lia.
  - (* NCharLoop *)
    cbn [sb_min_ok] in Hm. unfold sem_charloop.
    set (cap := if n =? INF then avail e o (pos s) else Z.min n (avail e o (pos s))).
    pose proof (sb_run_len_bounds e k c o (Z.to_nat cap) (pos s)) as Hr.
    set (r := run_len e k c o (Z.to_nat cap) (pos s)) in *.
    assert (Hav : 0 <= avail e o (pos s)) by (unfold avail; destruct (is_rtl o); lia).
    assert (Hcap : cap <= avail e o (pos s)) by (subst cap; destruct (n =? INF); lia).
    assert (Hj : forall j, m <= j <= r -> st_ok e (with_pos s (pos s + dir o * j))).
    { intros j Hjr. apply Hmv. unfold avail, dir in *. destruct (is_rtl o); lia. }
    destruct (r <? m) eqn:Erm; [constructor|].
    destruct l0.
    + apply Forall_forall. intros x Hx. apply in_map_iff in Hx. destruct Hx as (j & <- & Hin).
      apply sb_count_down_in in Hin. apply Hj. lia.
    + apply Forall_forall. intros x Hx. apply in_map_iff in Hx. destruct Hx as (j & <- & Hin).
      apply sb_count_up_in in Hin. apply Hj. lia.
    + apply Hone, Hj. lia.
  - (* NMulti *)
    unfold sem_multi. destruct (avail e o (pos s) <? zlen s0) eqn:E; [constructor|].
    destruct (str_match_at _ _ _ _); [|constructor].
    apply Hone, Hmv. pose proof (Zle_0_nat (length s0)). unfold zlen, avail, dir in *. destruct (is_rtl o); lia.
  - (* NRef *)
    unfold sem_ref. pose proof (sb_caps_ok_get e g (caps s) Hc) as Fg.
    destruct (cap_get g (caps s)) as [|[i len] rest].
    + destruct (ecma e); [apply Hone; exact Hself|constructor].
    + inversion Fg as [|? ? Hiv _]; subst. unfold sb_iv_ok in Hiv. cbn [fst snd] in Hiv.
      destruct (avail e o (pos s) <? len) eqn:E; [constructor|].
      destruct (ref_match_at _ _ _ _ _); [|constructor].
      apply Hone, Hmv. unfold avail, dir in *. destruct (is_rtl o); lia.
  - destruct (anchor_ok e a (pos s)); [apply Hone; exact Hself|constructor].
  - constructor.
  - apply Hone; exact Hself.
  - apply Hone; exact Hself.
Qed.

Theorem sb_sem_in_bounds e fuel t s l :
  loops_min_ok t -> sem e fuel t s = Ok l -> st_ok e s -> Forall (st_ok e) l.
Proof.
  intros HP H Hs.
  pose proof (sb_sem_rel e sb_min_ok (fun a b => st_ok e a -> st_ok e b)) as G.
  assert (F : Forall (fun b => st_ok e s -> st_ok e b) l).
  { apply (G) with (fuel := fuel) (t := t); try assumption.
    - intros a Ha. exact Ha.
    - intros a b c Hab Hbc Ha. apply Hbc. apply Hab. exact Ha.
    - intros f t0 s0 l0 Hm Hl H0. apply Forall_forall. intros x Hx Hs0.
      pose proof (sb_leaf_ok e f t0 s0 l0 Hm Hl H0 Hs0) as F0. rewrite Forall_forall in F0. apply F0. exact Hx.
    - intros s0 s' Hss Hs0. specialize (Hss Hs0). destruct Hs0 as [Hp0 _], Hss as [_ Hc'].
      split; [exact Hp0|exact Hc'].
    - intros o g r s0 s' _ Hss Hs0. specialize (Hss Hs0). destruct Hs0 as [Hp0 _], Hss as [Hp' Hc'].
      split; cbn [pos caps]; [exact Hp'|]. apply sb_caps_ok_push; [exact Hc'|]. apply sb_span_ok; assumption.
    - intros o g u r s0 s' top rest _ Hss Eg Hs0. specialize (Hss Hs0).
      destruct Hs0 as [Hp0 _], Hss as [Hp' Hc'].
      split; cbn [pos caps]; [exact Hp'|].
      destruct (g =? -1); [apply sb_caps_ok_pop; exact Hc'|].
      apply sb_caps_ok_push; [apply sb_caps_ok_pop; exact Hc'|].
      apply sb_balance_span_ok; try assumption.
      pose proof (sb_caps_ok_get e u (caps s') Hc') as Fu. rewrite Eg in Fu. inversion Fu; assumption. }
  eapply Forall_impl; [|exact F]. intros b Hb. apply Hb. exact Hs.
Qed.

Lemma sb_init_ok e p : 0 <= p <= tlen e -> st_ok e {| pos := p; caps := [] |}.
Proof. intros Hp. split; [exact Hp|constructor]. Qed.

Corollary sb_attempt_in_bounds e fuel root p s :
  loops_min_ok root -> 0 <= p <= tlen e -> attempt e fuel root p = Ok (Some s) -> st_ok e s.
Proof.
  intros HP Hp H. unfold attempt in H. apply sp_bind_ok in H. destruct H as [l [Hl H]].
  pose proof (sb_sem_in_bounds e fuel root _ l HP Hl (sb_init_ok e p Hp)) as F.
  destruct l as [|s0 l]; [discriminate|]. injection H as <-. inversion F; assumption.
Qed.

Lemma sb_scan_in_bounds e fuel root rtl : forall n p s,
  loops_min_ok root -> 0 <= p <= tlen e -> scan_from e fuel n root rtl p = Ok (Some s) -> st_ok e s.
Proof.
  induction n as [|n IH]; intros p s HP Hp H; cbn [scan_from] in H; [discriminate|].
  apply sp_bind_ok in H. destruct H as [r [Hr H]]. destruct r as [s0|].
  - injection H as <-. eapply sb_attempt_in_bounds; eassumption.
  - destruct (if rtl then p <=? 0 else tlen e <=? p) eqn:E; [discriminate|].
    eapply IH; [exact HP| |exact H]. destruct rtl; lia.
Qed.

Corollary sb_find_in_bounds e fuel root rtl start prevlen s :
  loops_min_ok root -> 0 <= start <= tlen e ->
  find e fuel root rtl start prevlen = Ok (Some s) -> st_ok e s.
Proof.
  intros HP Hs. unfold find.
  destruct ((prevlen =? 0) && (start =? (if rtl then 0 else tlen e))) eqn:E; [discriminate|].
  apply sb_scan_in_bounds; [exact HP|]. destruct (prevlen =? 0), rtl; cbn [andb] in E; lia.
Qed.

(* the reading of [st_ok] asked for by C08: every capture of every group *)
Lemma sb_st_ok_capture e s g i len :
  st_ok e s -> In (i, len) (cap_get g (caps s)) -> 0 <= i /\ 0 <= len /\ i + len <= tlen e.
Proof.
  intros [_ Hc] Hin. pose proof (sb_caps_ok_get e g (caps s) Hc) as F.
  rewrite Forall_forall in F. exact (F _ Hin).
Qed.

(* ================= C08: group 0 has exactly one capture, the match ================= *)
Definition sb_not0 (t : node) : Prop :=
  match t with NCapture _ g u _ => g <> 0 /\ u <> 0 | _ => True end.
(* no node of the body writes or balances group 0 *)
Definition no_group0 (body : node) : Prop := sb_all sb_not0 body.

Lemma sb_group0_unchanged e fuel body s l :
  no_group0 body -> sem e fuel body s = Ok l ->
  Forall (fun s' => cap_get 0 (caps s') = cap_get 0 (caps s)) l.
Proof.
  intros HP H.
  apply (sb_sem_rel e sb_not0 (fun a b => cap_get 0 (caps b) = cap_get 0 (caps a))) with (fuel := fuel) (t := body);
    try assumption.
  - reflexivity.
  - intros a b c Hab Hbc. congruence.
  - intros f t s0 l0 _ Hl H0. pose proof (sb_leaf_shape e f t s0 l0 Hl H0) as F.
    eapply Forall_impl; [|exact F]. intros x [q ->]. reflexivity.
  - intros s0 s' Hss. exact Hss.
  - intros o g r s0 s' [Hg _] Hss. cbn [caps]. unfold cap_push.
    rewrite sb_cap_get_set_other by lia. exact Hss.
  - intros o g u r s0 s' top rest [Hg Hu] Hss _. cbn [caps].
    destruct (g =? -1); unfold cap_push, cap_pop; rewrite !sb_cap_get_set_other by lia; exact Hss.
Qed.

Theorem sb_group0_single e fuel o body p s' :
  no_group0 body ->
  attempt e fuel (NCapture o 0 (-1) body) p = Ok (Some s') ->
  cap_get 0 (caps s') = [(Z.min p (pos s'), Z.abs (pos s' - p))].
Proof.
  intros HP H. unfold attempt in H. apply sp_bind_ok in H. destruct H as [l [Hl H]].
  destruct fuel as [|f]; [discriminate|]. cbn [sem] in Hl.
  change (-1 =? -1) with true in Hl. cbv iota in Hl.
  apply sp_bindr_ok in Hl. destruct Hl as [la [Hla Hl]].
  apply sb_bindl_singleton in Hl. subst l.
  pose proof (sb_group0_unchanged e f body _ la HP Hla) as F.
  destruct la as [|a la]; [discriminate|]. cbn [map] in H. injection H as <-.
  inversion F as [|? ? Ha _]; subst. cbn [pos caps] in *.
  unfold cap_push. rewrite sb_cap_get_set_same. rewrite Ha. reflexivity.
Qed.

(* ---------- names used by the property file ---------- *)
Theorem C08_spec_captures_in_bounds :
  forall e fuel root rtl start prevlen s,
    loops_min_ok root -> 0 <= start <= tlen e ->
    find e fuel root rtl start prevlen = Ok (Some s) ->
    0 <= pos s <= tlen e /\
    forall g i len, In (i, len) (cap_get g (caps s)) -> 0 <= i /\ 0 <= len /\ i + len <= tlen e.
Proof.
  intros e fuel root rtl start prevlen s HP Hs H.
  pose proof (sb_find_in_bounds e fuel root rtl start prevlen s HP Hs H) as Hok.
  split; [exact (proj1 Hok)|]. intros g i len. apply sb_st_ok_capture. exact Hok.
Qed.

Theorem C08_spec_group0_single :
  forall e fuel o body p s',
    no_group0 body ->
    attempt e fuel (NCapture o 0 (-1) body) p = Ok (Some s') ->
    cap_get 0 (caps s') = [(Z.min p (pos s'), Z.abs (pos s' - p))].
Proof. exact sb_group0_single. Qed.

(* ---------- non-vacuity and the reason for the side condition ---------- *)
Definition sb_demo_env (t : list Z) : env :=
  {| txt := t; tstart := 0; ecma := false; endz_strict := false; set_in := fun _ _ => false;
     lower := fun x => x; is_word := fun _ => false; is_eword := fun _ => false |}.

(* (?<1>a)(?<2-1>b) under the root capture, on "ab": hypotheses hold, the attempt succeeds, group 2
   receives the balanced interval and group 0 is the whole match *)
Example sb_witness_balancing :
  let root_body := NConcat 0 [NCapture 0 1 (-1) (NChar COne 0 97); NCapture 0 2 1 (NChar COne 0 98)] in
  loops_min_ok (NCapture 0 0 (-1) root_body) /\ no_group0 root_body /\
  attempt (sb_demo_env [97; 98]) 10 (NCapture 0 0 (-1) root_body) 0 =
    Ok (Some {| pos := 2; caps := [(1, []); (2, [(1, 0)]); (0, [(0, 2)])] |}).
Proof. cbv zeta. split; [|split]; [cbn; tauto| |vm_compute; reflexivity].
  unfold no_group0. cbn. repeat split; discriminate. Qed.

(* a single-character loop with a negative minimum (never produced by the parser) makes the
   reference semantics itself step in front of position 0: the side condition is needed *)
Example sb_witness_min_needed :
  sem (sb_demo_env [98]) 1 (NCharLoop COne LGreedy 0 97 (-1) 1) {| pos := 0; caps := [] |} =
  Ok [{| pos := 0; caps := [] |}; {| pos := -1; caps := [] |}].
Proof. vm_compute. reflexivity. Qed.
