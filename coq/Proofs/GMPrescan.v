(* The capture pre-scan keeps a well-formed table (first half of C17): invariants of
   noteCaptureSlot / noteCaptureName / countCaptures, then assignNameSlots and
   assignOrderedNameSlots produce a [wf_tree]. *)
From Verif Require Import Base.Prelude Model.GroupMap Proofs.GMBase Proofs.OptionsProofs Proofs.GMLookups.
From Coq Require Import Sorting.Sorted.

(* ---------- hypotheses on the token list (the lexical conventions of Model/Options.v) ---------- *)

(* a name that starts with a digit is scanned as a number, so a TNamed name never does; the number of a
   TNumbered token is read off a digit string, so it is not negative.
   Modelling limit: [TNumbered n] stands for the CANONICAL decimal spelling of n.  Since /repo 5afce6b a
   spelling with a leading zero ("(?<02>") is rejected under MaintainCaptureOrder (where the digits are a
   name, and "02" and "2" would be two names for one number); such spellings are outside the token language. *)
Definition tok_lex (t : gtok) : Prop :=
  match t with TNamed s => lexname s = true | TNumbered n => 0 <= n | _ => True end.
(* the former guard (known finding mco_digit_names): no explicit numbers.  Since /repo 2b27550 it is only
   needed for what is about the NAME of an unnamed group (wf_tree, the name <-> number round trips). *)
Definition tok_unnumbered (t : gtok) : Prop := match t with TNumbered _ => False | _ => True end.

(* the names the pre-scan can file: a lexical name, or — when numbers are kept in pattern order, where
   "(?<2>" opens a group NAMED "2" (parser.go:426-438) — the numeral of a positive number *)
Definition name_ok (mco : bool) (s : name) : Prop :=
  lexname s = true \/ (mco = true /\ exists n, 0 < n /\ s = itoa n).

Lemma name_ok_nonempty : forall mco s, name_ok mco s -> s <> [].
Proof.
  intros mco s [H|[_ [n [Hn ->]]]]; [now apply lexname_nonempty|apply itoa_nonempty; lia].
Qed.

Lemma name_ok_default : forall s, name_ok false s -> lexname s = true.
Proof. intros s [H|[H _]]; [assumption|discriminate]. Qed.

Lemma name_ok_lex : forall mco s, lexname s = true -> name_ok mco s.
Proof. intros. now left. Qed.

(* ---------- noteCaptureSlot ---------- *)

Record capsinv (c : cstate) : Prop := {
  ci_sorted : ssorted (c_caps c);
  ci_zero : In 0 (c_caps c);
  ci_count : c_capcount c = zlen (c_caps c);
  ci_range : forall k, In k (c_caps c) -> 0 <= k < c_captop c;
  ci_top : In (c_captop c - 1) (c_caps c);
  ci_topsmall : c_captop c <= maxint32
}.

Lemma note_slot_fields : forall i c,
  c_autocap (note_slot i c) = c_autocap c /\ c_capnames (note_slot i c) = c_capnames c
  /\ c_capnamelist (note_slot i c) = c_capnamelist c.
Proof. intros. unfold note_slot. destruct (zmem i (c_caps c)); auto. Qed.

Lemma note_slot_caps : forall i c k, In k (c_caps (note_slot i c)) <-> k = i \/ In k (c_caps c).
Proof.
  intros. unfold note_slot. destruct (zmem i (c_caps c)) eqn:E.
  - apply zmem_In in E. split; [tauto|]. intros [->|H]; assumption.
  - cbn. apply caps_insert_In.
Qed.

Lemma note_slot_count : forall i c,
  c_capcount (note_slot i c) = if zmem i (c_caps c) then c_capcount c else c_capcount c + 1.
Proof. intros. unfold note_slot. destruct (zmem i (c_caps c)); reflexivity. Qed.

Lemma note_slot_top : forall i c, c_captop (note_slot i c) <= Z.max (c_captop c) (i + 1).
Proof.
  intros. unfold note_slot. destruct (zmem i (c_caps c)); [lia|]. cbn.
  destruct (c_captop c <=? i); [destruct (i =? maxint32)|]; lia.
Qed.

Lemma note_slot_capsinv : forall i c, capsinv c -> 0 <= i < maxint32 -> capsinv (note_slot i c).
Proof.
  intros i c [Hs Hz Hc Hr Ht Hm] Hi. unfold note_slot.
  destruct (zmem i (c_caps c)) eqn:E; [constructor; assumption|].
  apply zmem_false in E.
  assert (Hne : (i =? maxint32) = false) by (apply Z.eqb_neq; lia).
  constructor; cbn [c_caps c_capcount c_captop]; rewrite ?Hne.
  - now apply caps_insert_sorted.
  - apply caps_insert_In. now right.
  - unfold zlen in *. rewrite caps_insert_length by assumption. lia.
  - intros k Hk. apply caps_insert_In in Hk.
    destruct (c_captop c <=? i) eqn:E2; [apply Z.leb_le in E2|apply Z.leb_gt in E2];
      (destruct Hk as [->|Hk]; [lia|specialize (Hr _ Hk); lia]).
  - apply caps_insert_In.
    destruct (c_captop c <=? i) eqn:E2; [left; lia|right; assumption].
  - destruct (c_captop c <=? i); lia.
Qed.

(* ---------- association-list keys under aset ---------- *)

Lemma akeys_aset_new : forall s v m, aget s m = None -> akeys (aset s v m) = akeys m ++ [s].
Proof.
  induction m as [|[k w] m IH]; intros H; cbn in *; [reflexivity|].
  destruct (zlist_eqb s k) eqn:E; [discriminate|]. cbn. f_equal. now apply IH.
Qed.

Lemma akeys_aset_old : forall s v m, aget s m <> None -> akeys (aset s v m) = akeys m.
Proof.
  induction m as [|[k w] m IH]; intros H; cbn in *; [congruence|].
  destruct (zlist_eqb s k) eqn:E; cbn; [reflexivity|]. f_equal. now apply IH.
Qed.

Lemma aget_some_key : forall s m v, aget s m = Some v -> In s (akeys m).
Proof.
  intros s m v H. destruct (in_dec (list_eq_dec Z.eq_dec) s (akeys m)) as [Hi|Hn]; [assumption|].
  apply aget_none_keys in Hn. congruence.
Qed.

(* ---------- the pre-scan invariant ---------- *)

Section WithLim.
(* [lim]: a bound on the explicit group numbers.  noteCaptureSlot saturates captop at 2^31-1
   (parser.go:209-215), so the statements below are about patterns whose numbers stay away from it. *)
Variable lim : Z.
Hypothesis Hlim : lim <= maxint32.

Definition tok_small (t : gtok) : Prop := match t with TNumbered n => n < lim | _ => True end.

Record pinv (mco : bool) (c : cstate) : Prop := {
  pi_caps : capsinv c;
  pi_auto : 1 <= c_autocap c;
  pi_unnamed : forall k, 0 <= k < c_autocap c -> In k (c_caps c);
  pi_keys : akeys (names_of c) = c_capnamelist c;
  pi_nodup : NoDup (c_capnamelist c);
  pi_lex : Forall (name_ok mco) (c_capnamelist c);
  pi_some : forall m, c_capnames c = Some m -> m <> [];
  pi_topb : c_captop c <= Z.max lim (c_autocap c);
  pi_mco : mco = true ->
           (forall k, In k (c_caps c) -> k < c_autocap c)
           /\ c_capcount c = c_autocap c
           /\ (forall s v, aget s (names_of c) = Some v -> 1 <= v < c_autocap c)
}.

Lemma capsinv_init : capsinv c_init.
Proof.
  constructor.
  - cbn. repeat constructor.
  - cbn. now left.
  - reflexivity.
  - cbn. intros k [<-|[]]. lia.
  - cbn. now left.
  - cbn. unfold maxint32. lia.
Qed.

Lemma pinv_init : forall mco, pinv mco c_init.
Proof.
  intros mco. constructor.
  - apply capsinv_init.
  - cbn. lia.
  - cbn. intros k Hk. left. lia.
  - reflexivity.
  - cbn. constructor.
  - cbn. constructor.
  - cbn. discriminate.
  - cbn. lia.
  - intros _. cbn. split; [|split].
    + intros k [<-|[]]. lia.
    + reflexivity.
    + intros s v H. discriminate.
Qed.

Lemma names_of_some : forall c s v, aget s (names_of c) = Some v -> c_capnames c = Some (names_of c).
Proof. intros c s v H. unfold names_of in *. destruct (c_capnames c); [reflexivity|discriminate]. Qed.

(* noteCaptureName *)
Lemma note_name_known : forall (mco : bool) s c v,
  aget s (names_of c) = Some v ->
  mkC (c_autocap c) (c_caps c) (c_capcount c) (c_captop c) (Some (names_of c)) (c_capnamelist c) = c.
Proof.
  intros mco s c v H. pose proof (names_of_some _ _ _ H) as Hn.
  destruct c as [a cp cnt top nm nl]. cbn in *. now rewrite <- Hn.
Qed.

Lemma note_name_inv : forall mco ecma s c c',
  pinv mco c -> name_ok mco s -> c_autocap c < maxint32 ->
  note_name mco ecma s c = Ok c' ->
  pinv mco c'
  /\ c_autocap c <= c_autocap c' <= c_autocap c + 1
  /\ (forall k, In k (c_caps c) -> In k (c_caps c'))
  /\ (exists v, aget s (names_of c') = Some v)
  /\ (mco = true -> forall s' v, aget s' (names_of c) = Some v -> aget s' (names_of c') = Some v)
  /\ (mco = true -> aget s (names_of c) = None ->
        aget s (names_of c') = Some (c_autocap c) /\ c_autocap c' = c_autocap c + 1)
  /\ (mco = true -> aget s (names_of c) <> None -> c_autocap c' = c_autocap c)
  /\ (mco = false -> c_autocap c' = c_autocap c /\ c_caps c' = c_caps c /\ c_capcount c' = c_capcount c /\ c_captop c' = c_captop c).
Proof.
  intros mco ecma s c c' Hinv Hs Hlt H.
  unfold note_name in H.
  destruct (aget s (names_of c)) as [v|] eqn:Eg.
  - (* known name *)
    destruct ecma; [discriminate|]. injection H as <-.
    rewrite (note_name_known mco s c v Eg).
    split; [assumption|]. split; [lia|]. split; [auto|]. split; [eauto|].
    split; [auto|]. split; [intros _ Hx; discriminate|]. split; [auto|]. auto.
  - (* new name *)
    destruct Hinv as [Hcaps Hauto Hun Hkeys Hnd Hlex Hsome Htopb Hmco].
    assert (Hnk : ~ In s (c_capnamelist c)) by (rewrite <- Hkeys; now apply aget_none_keys).
    destruct mco.
    + destruct (Hmco eq_refl) as [Hlt' [Hcnt Hslots]].
      set (c1 := mkC (c_autocap c + 1) (c_caps c) (c_capcount c) (c_captop c)
                     (Some (aset s (c_autocap c) (names_of c))) (c_capnamelist c)) in *.
      destruct (note_slot_fields (c_autocap c) c1) as [Fa [Fn Fl]].
      injection H as <-.
      assert (Hfresh : ~ In (c_autocap c) (c_caps c)) by (intros Hi; specialize (Hlt' _ Hi); lia).
      assert (Hc1 : capsinv c1) by (destruct Hcaps; constructor; auto).
      pose proof (note_slot_capsinv (c_autocap c) c1 Hc1 ltac:(lia)) as Hc2.
      assert (Hnames : names_of (mkC (c_autocap (note_slot (c_autocap c) c1)) (c_caps (note_slot (c_autocap c) c1))
                          (c_capcount (note_slot (c_autocap c) c1)) (c_captop (note_slot (c_autocap c) c1))
                          (c_capnames (note_slot (c_autocap c) c1)) (c_capnamelist (note_slot (c_autocap c) c1) ++ [s]))
                       = aset s (c_autocap c) (names_of c)).
      { unfold names_of at 1. cbn [c_capnames]. rewrite Fn. reflexivity. }
      split.
      { constructor.
        - destruct Hc2; constructor; auto.
        - cbn [c_autocap]. rewrite Fa. cbn. lia.
        - cbn [c_autocap c_caps]. rewrite Fa. cbn [c1 c_autocap]. intros k Hk. apply note_slot_caps. cbn [c1 c_caps].
          destruct (Z.eq_dec k (c_autocap c)); [now left|right; apply Hun; lia].
        - rewrite Hnames. cbn [c_capnamelist]. rewrite Fl. cbn [c1 c_capnamelist].
          rewrite akeys_aset_new by assumption. now rewrite Hkeys.
        - cbn [c_capnamelist]. rewrite Fl. cbn [c1 c_capnamelist]. now apply NoDup_app_singleton.
        - cbn [c_capnamelist]. rewrite Fl. cbn [c1 c_capnamelist].
          apply Forall_app. split; [assumption|]. constructor; [assumption|constructor].
        - cbn [c_capnames]. rewrite Fn. cbn [c1 c_capnames]. intros m Hm. injection Hm as <-. intros E.
          pose proof (aget_aset_same s (c_autocap c) (names_of c)) as G. rewrite E in G. discriminate.
        - cbn [c_captop c_autocap]. rewrite Fa. cbn [c1 c_autocap].
          pose proof (note_slot_top (c_autocap c) c1) as T. cbn [c1 c_captop] in T. lia.
        - intros _. rewrite Hnames. cbn [c_autocap c_caps c_capcount]. rewrite Fa. cbn [c1 c_autocap].
          split; [|split].
          + intros k Hk. apply note_slot_caps in Hk. cbn [c1 c_caps] in Hk.
            destruct Hk as [->|Hk]; [lia|specialize (Hlt' _ Hk); lia].
          + rewrite note_slot_count. cbn [c1 c_caps c_capcount].
            destruct (zmem (c_autocap c) (c_caps c)) eqn:E; [apply zmem_In in E; contradiction|lia].
          + intros s0 v0 Hv. destruct (list_eq_dec Z.eq_dec s0 s) as [->|Hne].
            * rewrite aget_aset_same in Hv. injection Hv as <-. lia.
            * rewrite aget_aset_other in Hv by assumption. specialize (Hslots _ _ Hv). lia. }
      split. { cbn [c_autocap]. rewrite Fa. cbn. lia. }
      split. { cbn [c_caps]. intros k Hk. apply note_slot_caps. now right. }
      split. { exists (c_autocap c). rewrite Hnames. apply aget_aset_same. }
      split. { intros _ s' v Hv. rewrite Hnames. rewrite aget_aset_other; [assumption|]. intros ->. congruence. }
      split. { intros _ _. rewrite Hnames. cbn [c_autocap]. rewrite Fa. cbn. split; [apply aget_aset_same|reflexivity]. }
      split. { intros _ Hx. congruence. }
      discriminate.
    + injection H as <-.
      assert (Hnames : names_of (mkC (c_autocap c) (c_caps c) (c_capcount c) (c_captop c)
                                     (Some (aset s (-1) (names_of c))) (c_capnamelist c ++ [s]))
                       = aset s (-1) (names_of c)) by reflexivity.
      split.
      { constructor.
        - destruct Hcaps; constructor; auto.
        - assumption.
        - assumption.
        - rewrite Hnames. cbn [c_capnamelist]. rewrite akeys_aset_new by assumption. now rewrite Hkeys.
        - cbn [c_capnamelist]. now apply NoDup_app_singleton.
        - cbn [c_capnamelist]. apply Forall_app. split; [assumption|]. constructor; [assumption|constructor].
        - cbn [c_capnames]. intros m Hm. injection Hm as <-. intros E.
          pose proof (aget_aset_same s (-1) (names_of c)) as G. rewrite E in G. discriminate.
        - assumption.
        - discriminate. }
      split. { cbn. lia. }
      split. { cbn. auto. }
      split. { exists (-1). rewrite Hnames. apply aget_aset_same. }
      split. { discriminate. }
      split. { discriminate. }
      split. { discriminate. }
      intros _. cbn. auto.
Qed.

(* a plain "(" that captures: noteCaptureSlot(consumeAutocap()) *)
Lemma auto_slot_inv : forall mco c,
  pinv mco c -> c_autocap c < maxint32 ->
  let c' := note_slot (c_autocap c)
              (mkC (c_autocap c + 1) (c_caps c) (c_capcount c) (c_captop c) (c_capnames c) (c_capnamelist c)) in
  pinv mco c' /\ c_autocap c' = c_autocap c + 1 /\ (forall k, In k (c_caps c) -> In k (c_caps c'))
  /\ names_of c' = names_of c /\ In (c_autocap c) (c_caps c').
Proof.
  intros mco c [Hcaps Hauto Hun Hkeys Hnd Hlex Hsome Htopb Hmco] Hlt.
  set (c1 := mkC (c_autocap c + 1) (c_caps c) (c_capcount c) (c_captop c) (c_capnames c) (c_capnamelist c)).
  cbn zeta. destruct (note_slot_fields (c_autocap c) c1) as [Fa [Fn Fl]].
  assert (Hc1 : capsinv c1) by (destruct Hcaps; constructor; auto).
  pose proof (note_slot_capsinv (c_autocap c) c1 Hc1 ltac:(lia)) as Hc2.
  assert (Hnm : names_of (note_slot (c_autocap c) c1) = names_of c) by (unfold names_of; now rewrite Fn).
  split.
  { constructor.
    - assumption.
    - rewrite Fa. cbn. lia.
    - rewrite Fa. cbn [c1 c_autocap]. intros k Hk. apply note_slot_caps. cbn [c1 c_caps].
      destruct (Z.eq_dec k (c_autocap c)); [now left|right; apply Hun; lia].
    - rewrite Hnm, Fl. assumption.
    - now rewrite Fl.
    - now rewrite Fl.
    - rewrite Fn. assumption.
    - rewrite Fa. cbn [c1 c_autocap].
      pose proof (note_slot_top (c_autocap c) c1) as T. cbn [c1 c_captop] in T. lia.
    - intros Hm. destruct (Hmco Hm) as [Hlt' [Hcnt Hslots]]. rewrite Hnm, Fa. cbn [c1 c_autocap].
      split; [|split].
      + intros k Hk. apply note_slot_caps in Hk. cbn [c1 c_caps] in Hk.
        destruct Hk as [->|Hk]; [lia|specialize (Hlt' _ Hk); lia].
      + rewrite note_slot_count. cbn [c1 c_caps c_capcount].
        destruct (zmem (c_autocap c) (c_caps c)) eqn:E; [|lia].
        apply zmem_In in E. specialize (Hlt' _ E). lia.
      + intros s v Hv. specialize (Hslots _ _ Hv). lia. }
  split; [rewrite Fa; reflexivity|].
  split; [intros k Hk; apply note_slot_caps; now right|].
  split; [assumption|]. apply note_slot_caps. now left.
Qed.

Lemma explicit_slot_inv : forall c n,
  pinv false c -> 0 < n < lim ->
  pinv false (note_slot n c) /\ c_autocap (note_slot n c) = c_autocap c
  /\ (forall k, In k (c_caps c) -> In k (c_caps (note_slot n c))) /\ names_of (note_slot n c) = names_of c.
Proof.
  intros c n [Hcaps Hauto Hun Hkeys Hnd Hlex Hsome Htopb Hmco] Hn.
  destruct (note_slot_fields n c) as [Fa [Fn Fl]].
  assert (Hnm : names_of (note_slot n c) = names_of c) by (unfold names_of; now rewrite Fn).
  split.
  { constructor.
    - apply note_slot_capsinv; [assumption|lia].
    - now rewrite Fa.
    - rewrite Fa. intros k Hk. apply note_slot_caps. right. now apply Hun.
    - now rewrite Hnm, Fl.
    - now rewrite Fl.
    - now rewrite Fl.
    - now rewrite Fn.
    - rewrite Fa. pose proof (note_slot_top n c) as T. lia.
    - discriminate. }
  split; [assumption|]. split; [intros k Hk; apply note_slot_caps; now right|assumption].
Qed.

(* one token *)
Lemma pstep_inv : forall mco ecma st t st' mk,
  pinv mco (p_c st) -> tok_lex t -> tok_small t ->
  c_autocap (p_c st) < maxint32 ->
  pstep mco ecma st t = Ok (st', mk) ->
  pinv mco (p_c st')
  /\ c_autocap (p_c st) <= c_autocap (p_c st') <= c_autocap (p_c st) + 1
  /\ (forall k, In k (c_caps (p_c st)) -> In k (c_caps (p_c st')))
  /\ (mco = true -> forall s v, aget s (names_of (p_c st)) = Some v -> aget s (names_of (p_c st')) = Some v).
Proof.
  intros mco ecma st t st' mk Hinv Hlex Hsmall Hlt H.
  unfold pstep in H.
  destruct (ostep_prescan_ok (p_o st) t) as [o' Ho]. rewrite Ho in H. cbn [bind] in H.
  assert (Hsame : forall ign, st' = mkP o' ign (p_c st) ->
     pinv mco (p_c st') /\ c_autocap (p_c st) <= c_autocap (p_c st') <= c_autocap (p_c st) + 1
     /\ (forall k, In k (c_caps (p_c st)) -> In k (c_caps (p_c st')))
     /\ (mco = true -> forall s v, aget s (names_of (p_c st)) = Some v -> aget s (names_of (p_c st')) = Some v)).
  { intros ign ->. cbn [p_c]. split; [exact Hinv|]. split; [lia|]. split; auto. }
  destruct (o_skip (p_o st)); [injection H as <- <-; eapply Hsame; reflexivity|].
  destruct t; try (injection H as <- <-; eapply Hsame; reflexivity).
  - (* TOpen *)
    destruct (negb (has (o_opts (p_o st)) opt_n) && negb (p_ign st)); [|injection H as <- <-; eapply Hsame; reflexivity].
    injection H as <- <-. cbn [p_c].
    destruct (auto_slot_inv mco (p_c st) Hinv Hlt) as [H1 [H2 [H3 [H4 _]]]].
    split; [assumption|]. split; [lia|]. split; [assumption|]. intros _ s v Hv. now rewrite H4.
  - (* TNamed *)
    destruct (note_name mco ecma s (p_c st)) as [c'| | |] eqn:En; try discriminate. cbn [bind] in H.
    injection H as <- <-. cbn [p_c].
    destruct (note_name_inv mco ecma s (p_c st) c' Hinv (name_ok_lex mco s Hlex) Hlt En) as [H1 [H2 [H3 [_ [H5 _]]]]].
    auto.
  - (* TNumbered *)
    destruct ecma; [injection H as <- <-; eapply Hsame; reflexivity|].
    destruct (n <=? 0) eqn:E0; [injection H as <- <-; eapply Hsame; reflexivity|].
    destruct (maxint32 <? n); [discriminate|].
    destruct mco.
    + (* the digits are a name *)
      destruct (note_name true false (itoa n) (p_c st)) as [c'| | |] eqn:En; try discriminate. cbn [bind] in H.
      injection H as <- <-. cbn [p_c]. apply Z.leb_gt in E0.
      assert (Hok : name_ok true (itoa n)) by (right; split; [reflexivity|exists n; split; [lia|reflexivity]]).
      destruct (note_name_inv true false (itoa n) (p_c st) c' Hinv Hok Hlt En) as [H1 [H2 [H3 [_ [H5 _]]]]].
      auto.
    + injection H as <- <-. cbn [p_c]. apply Z.leb_gt in E0. cbn in Hsmall.
      destruct (explicit_slot_inv (p_c st) n Hinv ltac:(lia)) as [H1 [H2 [H3 H4]]].
      split; [assumption|]. split; [lia|]. split; [assumption|discriminate].
Qed.

(* the whole loop of countCaptures *)
Lemma prun_inv : forall mco ecma ts st st' mks,
  pinv mco (p_c st) -> Forall tok_lex ts -> Forall tok_small ts ->
  c_autocap (p_c st) + Z.of_nat (length ts) < maxint32 ->
  prun mco ecma st ts = Ok (st', mks) ->
  pinv mco (p_c st')
  /\ c_autocap (p_c st) <= c_autocap (p_c st') <= c_autocap (p_c st) + Z.of_nat (length ts)
  /\ (forall k, In k (c_caps (p_c st)) -> In k (c_caps (p_c st')))
  /\ (mco = true -> forall s v, aget s (names_of (p_c st)) = Some v -> aget s (names_of (p_c st')) = Some v)
  /\ length mks = length ts.
Proof.
  intros mco ecma ts. induction ts as [|t ts IH]; intros st st' mks Hinv Hlex Hsmall Hlt H.
  - cbn in H. injection H as <- <-. cbn [length]. split; [exact Hinv|]. split; [lia|]. split; auto.
  - cbn [prun] in H.
    destruct (pstep mco ecma st t) as [[st1 mk]| | |] eqn:E1; try discriminate. cbn [bind] in H.
    destruct (prun mco ecma st1 ts) as [[st2 mks2]| | |] eqn:E2; try discriminate. cbn [bind] in H.
    injection H as <- <-.
    inversion Hlex as [|? ? Hl1 Hl2]; subst. inversion Hsmall as [|? ? Hs1 Hs2]; subst.
    cbn [length] in Hlt.
    destruct (pstep_inv mco ecma st t st1 mk Hinv Hl1 Hs1 ltac:(lia) E1) as [P1 [P2 [P3 P4]]].
    destruct (IH st1 st2 mks2 P1 Hl2 Hs2 ltac:(lia) E2) as [Q1 [Q2 [Q3 [Q4 Q5]]]].
    split; [assumption|]. split; [cbn [length]; lia|]. split; [auto|]. split; [auto|]. cbn. now rewrite Q5.
Qed.

(* with the guard (no explicit numbers where the digits would be a name) every filed name is lexical *)
Lemma note_name_list : forall mco ecma s c c', note_name mco ecma s c = Ok c' ->
  c_capnamelist c' = c_capnamelist c \/ c_capnamelist c' = c_capnamelist c ++ [s].
Proof.
  intros mco ecma s c c' H. unfold note_name in H.
  destruct (aget s (names_of c)).
  - destruct ecma; [discriminate|]. injection H as <-. now left.
  - destruct mco; injection H as <-; cbn [c_capnamelist]; right; [|reflexivity].
    destruct (note_slot_fields (c_autocap c)
      (mkC (c_autocap c + 1) (c_caps c) (c_capcount c) (c_captop c) (Some (aset s (c_autocap c) (names_of c))) (c_capnamelist c))) as [_ [_ ->]].
    reflexivity.
Qed.

Lemma pstep_lexnames : forall mco ecma st t st' mk,
  tok_lex t -> (mco = true -> ecma = false -> tok_unnumbered t) ->
  Forall (fun s => lexname s = true) (c_capnamelist (p_c st)) ->
  pstep mco ecma st t = Ok (st', mk) ->
  Forall (fun s => lexname s = true) (c_capnamelist (p_c st')).
Proof.
  intros mco ecma st t st' mk Hlex Hun HF H. unfold pstep in H.
  destruct (ostep PreScan (p_o st) t) as [o'| | |]; try discriminate. cbn [bind] in H.
  destruct (o_skip (p_o st)); [injection H as <- _; exact HF|].
  destruct t; try (injection H as <- _; exact HF).
  - destruct (negb (has (o_opts (p_o st)) opt_n) && negb (p_ign st)); injection H as <- _; cbn [p_c]; [|exact HF].
    destruct (note_slot_fields (c_autocap (p_c st))
      (mkC (c_autocap (p_c st) + 1) (c_caps (p_c st)) (c_capcount (p_c st)) (c_captop (p_c st)) (c_capnames (p_c st)) (c_capnamelist (p_c st)))) as [_ [_ ->]].
    exact HF.
  - destruct (note_name mco ecma s (p_c st)) as [c'| | |] eqn:E; try discriminate. cbn [bind] in H.
    injection H as <- _. cbn [p_c].
    destruct (note_name_list _ _ _ _ _ E) as [->| ->]; [exact HF|].
    apply Forall_app. split; [exact HF|]. constructor; [exact Hlex|constructor].
  - destruct ecma; [injection H as <- _; exact HF|].
    destruct (n <=? 0); [injection H as <- _; exact HF|].
    destruct (maxint32 <? n); [discriminate|].
    destruct mco; [exfalso; exact (Hun eq_refl eq_refl)|].
    injection H as <- _. cbn [p_c]. destruct (note_slot_fields n (p_c st)) as [_ [_ ->]]. exact HF.
Qed.

Lemma prun_lexnames : forall mco ecma ts st st' mks,
  Forall tok_lex ts -> (mco = true -> ecma = false -> Forall tok_unnumbered ts) ->
  Forall (fun s => lexname s = true) (c_capnamelist (p_c st)) ->
  prun mco ecma st ts = Ok (st', mks) ->
  Forall (fun s => lexname s = true) (c_capnamelist (p_c st')).
Proof.
  intros mco ecma ts. induction ts as [|t ts IH]; intros st st' mks Hlex Hun HF H.
  - cbn in H. injection H as <- _. exact HF.
  - cbn [prun] in H.
    destruct (pstep mco ecma st t) as [[st1 mk]| | |] eqn:E1; try discriminate. cbn [bind] in H.
    destruct (prun mco ecma st1 ts) as [[st2 mks2]| | |] eqn:E2; try discriminate. cbn [bind] in H.
    injection H as <- _.
    inversion Hlex as [|? ? Hl1 Hl2]; subst.
    assert (Hu1 : mco = true -> ecma = false -> tok_unnumbered t).
    { intros A B. specialize (Hun A B). now inversion Hun. }
    assert (Hu2 : mco = true -> ecma = false -> Forall tok_unnumbered ts).
    { intros A B. specialize (Hun A B). now inversion Hun. }
    apply (IH st1 st2 mks2 Hl2 Hu2); [|exact E2].
    apply (pstep_lexnames mco ecma st t st1 mk Hl1 Hu1 HF E1).
Qed.

(* ================= assignOrderedNameSlots ================= *)

Lemma mco_dense : forall c, pinv true c ->
  c_caps c = zrange (c_autocap c) /\ c_captop c = c_autocap c /\ c_capcount c = c_autocap c.
Proof.
  intros c [Hcaps Hauto Hun _ _ _ _ _ Hmco]. destruct (Hmco eq_refl) as [Hlt [Hcnt _]].
  destruct Hcaps as [Hs Hz Hc Hr Ht Hm].
  split; [|split; [|assumption]].
  - apply ssorted_dense; [assumption| |].
    + intros k Hk. specialize (Hr _ Hk). specialize (Hlt _ Hk). lia.
    + unfold zlen in Hc. lia.
  - specialize (Hlt _ Ht). specialize (Hun (c_autocap c - 1) ltac:(lia)). specialize (Hr _ Hun). lia.
Qed.

(* first loop: every name lands at the index that is its slot *)
Lemma place_names_spec : forall names m l,
  (forall s, In s names -> exists v, aget s m = Some v /\ 0 <= v < Z.of_nat (length l)) ->
  exists l', place_names names None m l = Ok l' /\ length l' = length l
    /\ forall i s', nth_error l' i = Some s' ->
         nth_error l i = Some s' \/ (In s' names /\ aget s' m = Some (Z.of_nat i)).
Proof.
  induction names as [|s names IH]; intros m l H.
  - exists l. cbn. split; [reflexivity|]. split; [reflexivity|]. auto.
  - destruct (H s (or_introl eq_refl)) as [v [Hv Hr]].
    cbn [place_names]. rewrite (aget0_some _ _ _ Hv). unfold zset_nth.
    destruct (v <? 0) eqn:E; [apply Z.ltb_lt in E; lia|].
    destruct (set_nth_some l (Z.to_nat v) s ltac:(lia)) as [l1 Hl1]. rewrite Hl1.
    destruct (set_nth_spec _ _ _ _ Hl1) as [Hlen Hnth].
    destruct (IH m l1) as [l' [Hp [Hl' Hn']]].
    { intros s0 Hs0. rewrite Hlen. apply H. now right. }
    exists l'. split; [assumption|]. split; [congruence|].
    intros i s' Hi. destruct (Hn' i s' Hi) as [Hold|[Hin Hg]].
    + rewrite Hnth in Hold. destruct (Nat.eqb i (Z.to_nat v)) eqn:Ei.
      * apply Nat.eqb_eq in Ei. injection Hold as <-. right. split; [now left|]. rewrite Hv. f_equal. lia.
      * now left.
    + right. split; [now right|assumption].
Qed.

(* second loop, outside ECMAScript *)
Lemma fill_ordered_spec : forall js l m,
  length js = length l -> (forall j, In j js -> 0 <= j) -> NoDup js ->
  (forall i s j, nth_error l i = Some s -> nth_error js i = Some j -> s = [] \/ (lexname s = true /\ aget s m = Some j)) ->
  (forall j, In j js -> aget (itoa j) m = None) ->
  exists l2 m2, fill_ordered false js l m = (l2, m2)
    /\ Forall2 (names_entry false m2) l2 js
    /\ (forall s, (forall j, In j js -> s <> itoa j) -> aget s m2 = aget s m)
    /\ (forall i j, nth_error l i = Some [] -> nth_error js i = Some j -> nth_error l2 i = Some (itoa j)).
Proof.
  induction js as [|j js IH]; intros l m Hlen Hnn Hnd Hent Hnone.
  - destruct l; [|discriminate]. exists [], m. cbn. split; [reflexivity|]. split; [constructor|].
    split; [reflexivity|]. intros i j H. destruct i; discriminate.
  - destruct l as [|s l]; [discriminate|]. cbn in Hlen. injection Hlen as Hlen.
    inversion Hnd as [|? ? Hj Hnd']; subst.
    cbn [fill_ordered].
    set (s' := match s with [] => itoa j | _ => s end).
    set (m1 := if amem s' m then m else aset s' j m).
    assert (Hj0 : 0 <= j) by (apply Hnn; now left).
    assert (Hs' : s' <> [] /\ aget s' m1 = Some j /\ (forall j', In j' js -> s' <> itoa j')
                  /\ (forall x, x <> itoa j -> aget x m1 = aget x m)).
    { destruct (Hent 0%nat s j eq_refl eq_refl) as [->|[Hlex Hg]].
      - assert (Ea : amem (itoa j) m = false) by (apply amem_false; apply Hnone; now left).
        subst s' m1. cbv beta iota. rewrite Ea.
        split; [now apply itoa_nonempty|]. split; [apply aget_aset_same|]. split.
        + intros j' Hj' E. apply itoa_inj in E; [subst; contradiction|assumption|apply Hnn; now right].
        + intros x Hx. now apply aget_aset_other.
      - assert (Es : s' = s) by (subst s'; destruct s; [discriminate|reflexivity]).
        assert (Ea : amem s m = true) by (apply amem_aget; eauto).
        subst m1. rewrite Es, Ea.
        split; [now apply lexname_nonempty|]. split; [assumption|]. split; [|reflexivity].
        intros j' Hj'. apply lexname_not_itoa; [assumption|apply Hnn; now right]. }
    destruct Hs' as [Hne [Hg1 [Hnot Hsame]]].
    destruct (IH l m1) as [l2 [m2 [Hf [HF [Hkeep Hempty]]]]]; try assumption.
    { intros j' Hj'. apply Hnn. now right. }
    { intros i s0 j0 Hi Hj0'. destruct (Hent (S i) s0 j0 Hi Hj0') as [->|[Hlex Hg]]; [now left|right].
      split; [assumption|]. rewrite Hsame; [assumption|].
      apply lexname_not_itoa; assumption. }
    { intros j' Hj'. rewrite Hsame; [apply Hnone; now right|].
      intros E. apply itoa_inj in E; [subst; contradiction|apply Hnn; now right|assumption]. }
    rewrite Hf. exists (s' :: l2), m2. split; [reflexivity|]. split.
    { constructor; [|assumption]. right. split; [assumption|]. rewrite Hkeep; assumption. }
    split.
    { intros x Hx. rewrite Hkeep by (intros j' Hj'; apply Hx; now right).
      apply Hsame. apply Hx. now left. }
    intros i j0 Hi Hj0'. destruct i as [|i]; cbn in *.
    + injection Hi as ->. injection Hj0' as ->. reflexivity.
    + now apply Hempty.
Qed.

Lemma fill_ordered_ecma : forall js l m, length js = length l -> fill_ordered true js l m = (l, m).
Proof.
  induction js as [|j js IH]; intros l m H; destruct l as [|s l]; try discriminate; [reflexivity|].
  cbn in *. injection H as H. now rewrite IH.
Qed.

Lemma repeat_nth_error : forall {A} (x : A) n i y, nth_error (repeat x n) i = Some y -> y = x.
Proof.
  intros A x n i y H. apply nth_error_In in H. now apply repeat_spec in H.
Qed.

(* with lexical names only (no "(?<2>"): the table is well formed in the strong sense *)
Theorem assign_ordered_wf : forall ecma c t,
  pinv true c -> Forall (fun s => lexname s = true) (c_capnamelist c) ->
  assign_ordered ecma c = Ok t -> wf_tree ecma t /\ t_caps t = c_caps c
  /\ (forall s v, aget s (names_of c) = Some v -> exists m, t_capnames t = Some m /\ aget s m = Some v).
Proof.
  intros ecma c t Hinv Hlex H.
  destruct (mco_dense c Hinv) as [Hcaps [Htop Hcnt]].
  pose proof Hinv as [Hci Hauto Hun Hkeys Hnd _ Hsome Htopb Hmco].
  destruct (Hmco eq_refl) as [_ [_ Hslots]].
  assert (Hnl : capnumlist_of c = None).
  { unfold capnumlist_of. rewrite Hcnt, Htop. now rewrite Z.ltb_irrefl. }
  assert (Hz : exists r, c_caps c = 0 :: r).
  { rewrite Hcaps. unfold zrange. destruct (Z.to_nat (c_autocap c)) eqn:E; [lia|]. cbn. eexists; reflexivity. }
  assert (Hlen0 : length (repeat ([] : name) (Z.to_nat (c_capcount c))) = length (zrange (c_capcount c)))
    by (now rewrite repeat_length, zrange_length).
  unfold assign_ordered in H. rewrite Hnl in H.
  destruct (c_capnames c) as [m|] eqn:Em.
  - (* some names *)
    assert (Hm : names_of c = m) by (unfold names_of; now rewrite Em).
    destruct (place_names_spec (c_capnamelist c) m (repeat [] (Z.to_nat (c_capcount c)))) as [l1 [Hp [Hl1 Hn1]]].
    { intros s Hs. rewrite <- Hkeys, Hm in Hs.
      destruct (aget s m) as [v|] eqn:Eg; [|apply aget_none_keys in Eg; contradiction].
      exists v. split; [reflexivity|]. rewrite <- Hm in Eg. specialize (Hslots _ _ Eg).
      rewrite repeat_length. lia. }
    rewrite Hp in H. cbn [bind] in H.
    assert (Hent : forall i s j, nth_error l1 i = Some s -> nth_error (zrange (c_capcount c)) i = Some j ->
                     s = [] \/ (lexname s = true /\ aget s m = Some j)).
    { intros i s j Hi Hj. destruct (Hn1 i s Hi) as [Hold|[Hin Hg]].
      - left. now apply repeat_nth_error in Hold.
      - right. split; [rewrite Forall_forall in Hlex; now apply Hlex|].
        assert (Hlt : (i < Z.to_nat (c_capcount c))%nat).
        { rewrite <- zrange_length. apply nth_error_Some. congruence. }
        rewrite zrange_nth in Hj by assumption. congruence. }
    assert (Hfirst : nth_error l1 0 = Some []).
    { destruct (nth_error l1 0) as [s|] eqn:E0.
      - destruct (Hn1 0%nat s E0) as [Hold|[Hin Hg]]; [apply repeat_nth_error in Hold; now subst|].
        rewrite <- Hm in Hg. specialize (Hslots _ _ Hg). lia.
      - apply nth_error_None in E0. rewrite Hl1, repeat_length in E0. lia. }
    assert (Hl1z : length (zrange (c_capcount c)) = length l1) by (now rewrite Hl1, repeat_length, zrange_length).
    destruct ecma.
    + rewrite fill_ordered_ecma in H by assumption. injection H as <-.
      split; [|split; [reflexivity|]].
      * constructor; cbn; try assumption.
        -- apply Hci.
        -- intros _. now rewrite Hcaps, Htop.
        -- discriminate.
        -- split; [|split].
           ++ rewrite Hcaps, <- Hcnt. apply Forall2_nth_intro; [now symmetry|].
              intros i s j Hi Hj. destruct (Hent i s j Hi Hj) as [->|[Hl Hg]]; [now left|right].
              split; [now apply lexname_nonempty|assumption].
           ++ intros _. destruct (aget [] m) eqn:Eg; [|reflexivity].
              rewrite <- Hm in Eg. apply aget_some_key in Eg. rewrite Hkeys in Eg.
              rewrite Forall_forall in Hlex. specialize (Hlex _ Eg). discriminate.
           ++ destruct l1; [discriminate|]. cbn in Hfirst. injection Hfirst as ->. eexists; reflexivity.
      * intros s v Hv. exists m. split; [reflexivity|]. now rewrite <- Hm.
    + destruct (fill_ordered_spec (zrange (c_capcount c)) l1 m) as [l2 [m2 [Hf [HF [Hkeep Hempty]]]]]; try assumption.
      { intros j Hj. apply zrange_In in Hj. lia. }
      { unfold zrange. apply FinFun.Injective_map_NoDup; [intros x y Hxy; lia|apply seq_NoDup]. }
      { intros j Hj. destruct (aget (itoa j) m) eqn:Eg; [|reflexivity].
        rewrite <- Hm in Eg. apply aget_some_key in Eg. rewrite Hkeys in Eg.
        rewrite Forall_forall in Hlex. specialize (Hlex _ Eg). apply zrange_In in Hj.
        exfalso. eapply lexname_not_itoa; [exact Hlex| |reflexivity]. lia. }
      rewrite Hf in H. injection H as <-.
      split; [|split; [reflexivity|]].
      * constructor; cbn; try assumption.
        -- apply Hci.
        -- intros _. now rewrite Hcaps, Htop.
        -- discriminate.
        -- split; [|split].
           ++ now rewrite Hcaps, <- Hcnt.
           ++ discriminate.
           ++ assert (H0 : nth_error l2 0 = Some (itoa 0)).
              { apply Hempty; [assumption|]. apply (zrange_nth (c_capcount c) 0). lia. }
              destruct l2; [discriminate|]. cbn in H0. injection H0 as ->. eexists; reflexivity.
      * intros s v Hv. exists m2. split; [reflexivity|]. rewrite Hkeep; [now rewrite <- Hm|].
        intros j Hj. apply zrange_In in Hj. apply lexname_not_itoa; [|lia].
        apply aget_some_key in Hv. rewrite Hkeys in Hv. rewrite Forall_forall in Hlex. now apply Hlex.
  - (* no names at all *)
    assert (Hl : c_capnamelist c = []).
    { rewrite <- Hkeys. unfold names_of. now rewrite Em. }
    assert (Hnone : forall s v, aget s (names_of c) = Some v -> False).
    { intros s v Hv. unfold names_of in Hv. rewrite Em in Hv. discriminate. }
    destruct ecma; cbn [negb andb] in H.
    + rewrite Hl in H. cbn [place_names bind] in H.
      rewrite fill_ordered_ecma in H by (symmetry; exact Hlen0). injection H as <-.
      split; [|split; [reflexivity|intros s v Hv; exfalso; eauto]].
      constructor; cbn; try assumption.
      * apply Hci.
      * intros _. now rewrite Hcaps, Htop.
      * discriminate.
      * split; [|split].
        -- rewrite Hcaps, <- Hcnt. apply Forall2_nth_intro; [assumption|].
           intros i s j Hi Hj. left. split; [reflexivity|]. now apply repeat_nth_error in Hi.
        -- reflexivity.
        -- destruct (Z.to_nat (c_capcount c)) eqn:E; [lia|]. cbn. eexists; reflexivity.
    + rewrite Hcnt, Htop, Z.eqb_refl in H. injection H as <-.
      split; [|split; [reflexivity|intros s v Hv; exfalso; eauto]].
      constructor; cbn; try assumption.
      * apply Hci.
      * intros _. exact Hcaps.
      * discriminate.
      * auto.
Qed.


(* ---- without the guard: digit names ---- *)

(* the second loop only ADDS keys *)
Lemma fill_ordered_mono : forall js l m l2 m2, fill_ordered false js l m = (l2, m2) ->
  forall s v, aget s m = Some v -> aget s m2 = Some v.
Proof.
  induction js as [|j js IH]; intros l m l2 m2 H s v Hv.
  - cbn in H. now injection H as _ <-.
  - destruct l as [|x l]; [cbn in H; now injection H as _ <-|].
    cbn [fill_ordered] in H.
    set (s' := match x with [] => itoa j | _ => x end) in *.
    set (m1 := if amem s' m then m else aset s' j m) in *.
    destruct (fill_ordered false js l m1) as [r m'] eqn:E. injection H as _ <-.
    apply (IH _ _ _ _ E). subst m1. destruct (amem s' m) eqn:Ea; [assumption|].
    rewrite aget_aset_other; [assumption|]. intros ->. apply amem_false in Ea. congruence.
Qed.

Lemma fill_ordered_weak : forall js l m,
  length js = length l -> (forall j, In j js -> 0 <= j) ->
  (forall i s j, nth_error l i = Some s -> nth_error js i = Some j -> s = [] \/ (s <> [] /\ aget s m = Some j)) ->
  exists l2 m2, fill_ordered false js l m = (l2, m2)
    /\ Forall2 (names_entry_weak false m2) l2 js
    /\ (forall i j, nth_error l i = Some [] -> nth_error js i = Some j -> nth_error l2 i = Some (itoa j)).
Proof.
  induction js as [|j js IH]; intros l m Hlen Hnn Hent.
  - destruct l; [|discriminate]. exists [], m. cbn. split; [reflexivity|]. split; [constructor|].
    intros i j H. destruct i; discriminate.
  - destruct l as [|s l]; [discriminate|]. cbn in Hlen. injection Hlen as Hlen.
    cbn [fill_ordered].
    set (s' := match s with [] => itoa j | _ => s end).
    set (m1 := if amem s' m then m else aset s' j m).
    assert (Hj0 : 0 <= j) by (apply Hnn; now left).
    assert (Hmono1 : forall x w, aget x m = Some w -> aget x m1 = Some w).
    { intros x w Hx. subst m1. destruct (amem s' m) eqn:Ea; [assumption|].
      rewrite aget_aset_other; [assumption|]. intros ->. apply amem_false in Ea. congruence. }
    assert (Hs' : s' <> [] /\ exists v, aget s' m1 = Some v /\ (v = j \/ s' = itoa j)).
    { destruct (Hent 0%nat s j eq_refl eq_refl) as [->|[Hne Hg]].
      - subst s' m1. cbv beta iota. split; [now apply itoa_nonempty|].
        destruct (amem (itoa j) m) eqn:Ea.
        + apply amem_aget in Ea. destruct Ea as [v Hv]. exists v. auto.
        + exists j. split; [apply aget_aset_same|now left].
      - assert (Es : s' = s) by (subst s'; destruct s; [contradiction|reflexivity]).
        rewrite Es. split; [assumption|]. exists j. split; [now apply Hmono1|now left]. }
    destruct Hs' as [Hne [v [Hv Hor]]].
    destruct (IH l m1) as [l2 [m2 [Hf [HF Hempty]]]]; try assumption.
    { intros j' Hj'. apply Hnn. now right. }
    { intros i s0 j0 Hi Hj0'. destruct (Hent (S i) s0 j0 Hi Hj0') as [->|[Hne0 Hg]]; [now left|right].
      split; [assumption|now apply Hmono1]. }
    rewrite Hf. exists (s' :: l2), m2. split; [reflexivity|]. split.
    { constructor; [|assumption]. right. split; [assumption|]. exists v.
      split; [apply (fill_ordered_mono _ _ _ _ _ Hf); assumption|assumption]. }
    intros i j0 Hi Hj0'. destruct i as [|i]; cbn in *.
    + injection Hi as ->. injection Hj0' as ->. reflexivity.
    + now apply Hempty.
Qed.

(* no hypothesis on the names: the table is well formed in the weak sense, and the names the pre-scan
   filed keep their numbers *)
Theorem assign_ordered_weak : forall ecma c t,
  pinv true c -> assign_ordered ecma c = Ok t -> wf_weak ecma t /\ t_caps t = c_caps c
  /\ (forall s v, aget s (names_of c) = Some v -> exists m, t_capnames t = Some m /\ aget s m = Some v).
Proof.
  intros ecma c t Hinv H.
  destruct (c_capnames c) as [m|] eqn:Em.
  2:{ (* no names at all: the strong statement *)
    assert (Hl : c_capnamelist c = []).
    { rewrite <- (pi_keys _ _ Hinv). unfold names_of. now rewrite Em. }
    destruct (assign_ordered_wf ecma c t Hinv ltac:(rewrite Hl; constructor) H) as [WF [H2 H3]].
    split; [now apply wf_tree_weak|]. split; assumption. }
  destruct (mco_dense c Hinv) as [Hcaps [Htop Hcnt]].
  pose proof Hinv as [Hci Hauto Hun Hkeys Hnd Hok Hsome Htopb Hmco].
  destruct (Hmco eq_refl) as [_ [_ Hslots]].
  assert (Hnl : capnumlist_of c = None).
  { unfold capnumlist_of. rewrite Hcnt, Htop. now rewrite Z.ltb_irrefl. }
  assert (Hz : exists r, c_caps c = 0 :: r).
  { rewrite Hcaps. unfold zrange. destruct (Z.to_nat (c_autocap c)) eqn:E; [lia|]. cbn. eexists; reflexivity. }
  assert (Hlen0 : length (repeat ([] : name) (Z.to_nat (c_capcount c))) = length (zrange (c_capcount c)))
    by (now rewrite repeat_length, zrange_length).
  assert (Hwc : forall nm l, wf_caps (mkT (c_caps c) None (c_captop c) nm l)).
  { intros nm l. constructor; cbn.
    - apply Hci.
    - assumption.
    - intros _. now rewrite Hcaps, Htop.
    - discriminate. }
  unfold assign_ordered in H. rewrite Em, Hnl in H.
  assert (Hm : names_of c = m) by (unfold names_of; now rewrite Em).
  destruct (place_names_spec (c_capnamelist c) m (repeat [] (Z.to_nat (c_capcount c)))) as [l1 [Hp [Hl1 Hn1]]].
  { intros s Hs. rewrite <- Hkeys, Hm in Hs.
    destruct (aget s m) as [v|] eqn:Eg; [|apply aget_none_keys in Eg; contradiction].
    exists v. split; [reflexivity|]. rewrite <- Hm in Eg. specialize (Hslots _ _ Eg).
    rewrite repeat_length. lia. }
  rewrite Hp in H. cbn [bind] in H.
  assert (Hent : forall i s j, nth_error l1 i = Some s -> nth_error (zrange (c_capcount c)) i = Some j ->
                   s = [] \/ (s <> [] /\ aget s m = Some j)).
  { intros i s j Hi Hj. destruct (Hn1 i s Hi) as [Hold|[Hin Hg]].
    - left. now apply repeat_nth_error in Hold.
    - right. split; [rewrite Forall_forall in Hok; apply (name_ok_nonempty true); now apply Hok|].
      assert (Hlt : (i < Z.to_nat (c_capcount c))%nat).
      { rewrite <- zrange_length. apply nth_error_Some. congruence. }
      rewrite zrange_nth in Hj by assumption. congruence. }
  assert (Hfirst : nth_error l1 0 = Some []).
  { destruct (nth_error l1 0) as [s|] eqn:E0.
    - destruct (Hn1 0%nat s E0) as [Hold|[Hin Hg]]; [apply repeat_nth_error in Hold; now subst|].
      rewrite <- Hm in Hg. specialize (Hslots _ _ Hg). lia.
    - apply nth_error_None in E0. rewrite Hl1, repeat_length in E0. lia. }
  assert (Hl1z : length (zrange (c_capcount c)) = length l1) by (now rewrite Hl1, repeat_length, zrange_length).
  destruct ecma.
  - rewrite fill_ordered_ecma in H by assumption. injection H as <-.
    split; [|split; [reflexivity|]].
    + constructor; [apply Hwc|]. cbn. split; [|split].
      * rewrite Hcaps, <- Hcnt. apply Forall2_nth_intro; [now symmetry|].
        intros i s j Hi Hj. destruct (Hent i s j Hi Hj) as [->|[Hne Hg]]; [now left|right].
        split; [assumption|]. exists j. auto.
      * intros _. destruct (aget [] m) eqn:Eg; [|reflexivity].
        rewrite <- Hm in Eg. apply aget_some_key in Eg. rewrite Hkeys in Eg.
        rewrite Forall_forall in Hok. specialize (Hok _ Eg). now apply name_ok_nonempty in Hok.
      * destruct l1; [discriminate|]. cbn in Hfirst. injection Hfirst as ->. eexists; reflexivity.
    + intros s v Hv. exists m. split; [reflexivity|]. now rewrite <- Hm.
  - destruct (fill_ordered_weak (zrange (c_capcount c)) l1 m) as [l2 [m2 [Hf [HF Hempty]]]]; try assumption.
    { intros j Hj. apply zrange_In in Hj. lia. }
    rewrite Hf in H. injection H as <-.
    split; [|split; [reflexivity|]].
    + constructor; [apply Hwc|]. cbn. split; [|split].
      * now rewrite Hcaps, <- Hcnt.
      * discriminate.
      * assert (H0 : nth_error l2 0 = Some (itoa 0)).
        { apply Hempty; [assumption|]. apply (zrange_nth (c_capcount c) 0). lia. }
        destruct l2; [discriminate|]. cbn in H0. injection H0 as ->. eexists; reflexivity.
    + intros s v Hv. exists m2. split; [reflexivity|].
      apply (fill_ordered_mono _ _ _ _ _ Hf). now rewrite <- Hm.
Qed.


(* ================= assignNameSlots (numbers not maintained in pattern order) ================= *)

(* the numbers handed to the names: each is the next number from [a] on that is not in [caps] *)
Fixpoint chain (caps : list Z) (a : Z) (ks : list Z) : Prop :=
  match ks with
  | [] => True
  | k :: ks' => a <= k /\ ~ In k caps /\ (forall n, a <= n < k -> In n caps) /\ chain caps (k + 1) ks'
  end.

Lemma chain_ext : forall caps caps' ks a,
  (forall n, a <= n -> (In n caps <-> In n caps')) -> chain caps a ks -> chain caps' a ks.
Proof.
  intros caps caps' ks. induction ks as [|k ks IH]; intros a Hext H; [exact I|].
  destruct H as [H1 [H2 [H3 H4]]]. cbn. split; [assumption|]. split; [rewrite <- Hext; assumption|].
  split; [intros n Hn; apply Hext; [lia|auto]|]. apply IH; [|assumption]. intros n Hn. apply Hext. lia.
Qed.

Lemma chain_sorted : forall caps ks a, chain caps a ks -> ssorted ks /\ (forall k, In k ks -> a <= k /\ ~ In k caps).
Proof.
  intros caps ks. induction ks as [|k ks IH]; intros a H; [split; [constructor|intros k []]|].
  destruct H as [H1 [H2 [H3 H4]]]. destruct (IH _ H4) as [Hs Hb]. split.
  - constructor; [assumption|]. apply Forall_forall. intros x Hx. destruct (Hb _ Hx). lia.
  - intros x [<-|Hx]; [auto|]. destruct (Hb _ Hx). split; [lia|assumption].
Qed.

Lemma next_free_bound : forall c, capsinv c ->
  let a := next_free (S (length (c_caps c))) (c_caps c) (c_autocap c) in
  c_autocap c <= a <= Z.max (c_autocap c) (c_captop c) /\ ~ In a (c_caps c)
  /\ (forall n, c_autocap c <= n < a -> In n (c_caps c)).
Proof.
  intros c Hc a. destruct (next_free_spec (S (length (c_caps c))) (c_caps c) (c_autocap c)) as [H1 [H2 _]].
  fold a in H1, H2. pose proof (next_free_not_in (c_caps c) (c_autocap c) (ci_sorted _ Hc)) as H3. fold a in H3.
  split; [|split; assumption]. split; [assumption|].
  destruct (Z.eq_dec a (c_autocap c)) as [->|Hne]; [lia|].
  specialize (H2 (a - 1) ltac:(lia)). pose proof (ci_range _ Hc _ H2). lia.
Qed.

Lemma assign_names_spec : forall names c,
  capsinv c -> 1 <= c_autocap c -> (forall k, 0 <= k < c_autocap c -> In k (c_caps c)) ->
  NoDup names -> (forall s, In s names -> In s (akeys (names_of c))) ->
  Z.max (c_autocap c) (c_captop c) + Z.of_nat (length names) < maxint32 ->
  let c' := assign_names names c in
  capsinv c'
  /\ c_capnamelist c' = c_capnamelist c
  /\ akeys (names_of c') = akeys (names_of c)
  /\ (forall s, ~ In s names -> aget s (names_of c') = aget s (names_of c))
  /\ (names <> [] -> c_capnames c' = Some (names_of c'))
  /\ (names = [] -> c' = c)
  /\ exists ks, Forall2 (fun s k => aget s (names_of c') = Some k) names ks
        /\ chain (c_caps c) (c_autocap c) ks
        /\ (forall k, In k (c_caps c') <-> In k (c_caps c) \/ In k ks).
Proof.
  induction names as [|s names IH]; intros c Hc Hauto Hun Hnd Hkeys Hb.
  - cbn. split; [assumption|]. split; [reflexivity|]. split; [reflexivity|]. split; [reflexivity|].
    split; [congruence|]. split; [reflexivity|].
    exists []. split; [constructor|]. split; [exact I|]. intros k. split; [auto|intros [H|[]]; exact H].
  - cbn [assign_names]. cbn zeta.
    destruct (next_free_bound c Hc) as [[Ha1 Ha2] [Ha3 Ha4]].
    set (a := next_free (S (length (c_caps c))) (c_caps c) (c_autocap c)) in *.
    set (c1 := mkC a (c_caps c) (c_capcount c) (c_captop c) (Some (aset s a (names_of c))) (c_capnamelist c)).
    destruct (note_slot_fields a c1) as [Fa [Fn Fl]].
    set (c3 := mkC (a + 1) (c_caps (note_slot a c1)) (c_capcount (note_slot a c1)) (c_captop (note_slot a c1))
                   (c_capnames (note_slot a c1)) (c_capnamelist (note_slot a c1))).
    cbn [length] in Hb.
    assert (Hc1 : capsinv c1) by (destruct Hc; constructor; auto).
    assert (Hc3 : capsinv c3).
    { pose proof (note_slot_capsinv a c1 Hc1 ltac:(lia)) as X. destruct X; constructor; auto. }
    assert (Hn3 : names_of c3 = aset s a (names_of c)).
    { unfold names_of, c3. cbn [c_capnames]. rewrite Fn. reflexivity. }
    assert (Hcaps3 : forall k, In k (c_caps c3) <-> k = a \/ In k (c_caps c)).
    { intros k. unfold c3. cbn [c_caps]. rewrite note_slot_caps. reflexivity. }
    inversion Hnd as [|? ? Hs Hnd']; subst.
    assert (Hskey : aget s (names_of c) <> None).
    { intros E. apply aget_none_keys in E. apply E, Hkeys. now left. }
    destruct (IH c3) as [I1 [I2 [I3 [I4 [I5 [I6 [ks [I7 [I8 I9]]]]]]]]]; try assumption.
    { unfold c3. cbn [c_autocap]. lia. }
    { intros k Hk. unfold c3 in Hk. cbn [c_autocap] in Hk. apply Hcaps3.
      destruct (Z.eq_dec k a); [now left|right].
      destruct (Z_lt_ge_dec k (c_autocap c)); [apply Hun; lia|apply Ha4; lia]. }
    { intros s0 Hs0. rewrite Hn3, akeys_aset_old by assumption. apply Hkeys. now right. }
    { unfold c3. cbn [c_autocap c_captop]. pose proof (note_slot_top a c1) as T. unfold c1 in T at 2. cbn [c_captop] in T. lia. }
    fold c3.
    split; [assumption|].
    split; [rewrite I2; unfold c3; cbn [c_capnamelist]; now rewrite Fl|].
    split; [rewrite I3, Hn3; now apply akeys_aset_old|].
    split.
    { intros s0 Hs0. rewrite I4 by (intros X; apply Hs0; now right). rewrite Hn3.
      apply aget_aset_other. intros ->. apply Hs0. now left. }
    split.
    { intros _. destruct names as [|s1 names1].
      - rewrite (I6 eq_refl). unfold c3 at 1. cbn [c_capnames]. rewrite Fn. cbn [c1 c_capnames]. now rewrite Hn3.
      - apply I5. discriminate. }
    split; [discriminate|].
    exists (a :: ks). split; [|split].
    + constructor; [|assumption]. rewrite I4 by assumption. rewrite Hn3. apply aget_aset_same.
    + cbn [chain]. split; [assumption|]. split; [assumption|]. split; [assumption|].
      apply (chain_ext (c_caps c3)); [|exact I8]. intros n Hn. rewrite Hcaps3. split; [intros [->|X]; [lia|assumption]|now right].
    + intros k. rewrite I9, Hcaps3. cbn [In]. split; intros H; intuition.
Qed.

(* the merge loop *)
Lemma merge_spec : forall js rest ks next m,
  ssorted js -> (forall j, In j js -> 0 <= j) ->
  Forall2 (fun s k => aget s m = Some k) rest ks -> ssorted ks -> incl ks js ->
  Forall (fun s => lexname s = true) rest ->
  next = match ks with [] => -1 | k :: _ => k end ->
  exists l m', merge_names js rest next m = Ok (l, m')
    /\ Forall2 (names_entry false m') l js
    /\ (forall s, (forall j, In j js -> s <> itoa j) -> aget s m' = aget s m)
    /\ (forall j r, js = j :: r -> ~ In j ks -> exists l', l = itoa j :: l').
Proof.
  induction js as [|j js IH]; intros rest ks next m Hs Hnn HF Hks Hincl Hlex Hnext.
  - exists [], m. cbn. split; [reflexivity|]. split; [constructor|]. split; [reflexivity|]. intros; discriminate.
  - assert (Hsf : ssorted js /\ Forall (Z.lt j) js) by (inversion Hs; auto).
    destruct Hsf as [Hs' Hf].
    assert (Hj0 : 0 <= j) by (apply Hnn; now left).
    assert (Hnn' : forall x, In x js -> 0 <= x) by (intros x Hx; apply Hnn; now right).
    cbn [merge_names].
    destruct (next =? j) eqn:En.
    + (* the next name has number j *)
      apply Z.eqb_eq in En.
      destruct ks as [|k ks]; [subst next; lia|]. subst next. subst k.
      inversion HF as [|s ? rest' ? Hg HF']; subst.
      inversion Hks as [|? ? Hks' Hkf]; subst.
      inversion Hlex as [|? ? Hl Hlex']; subst.
      assert (Hincl' : incl ks js).
      { intros x Hx. destruct (Hincl x (or_intror Hx)) as [->|H]; [|assumption].
        rewrite Forall_forall in Hkf. specialize (Hkf _ Hx). lia. }
      set (next' := match rest' with [] => -1 | s' :: _ => aget0 s' m end).
      assert (Hn' : next' = match ks with [] => -1 | k :: _ => k end).
      { unfold next'. inversion HF'; subst; [reflexivity|]. now apply aget0_some. }
      destruct (IH rest' ks next' m Hs' Hnn' HF' Hks' Hincl' Hlex' Hn') as [l [m' [Hm [HF2 [Hkeep _]]]]].
      rewrite Hm. cbn [bind]. exists (s :: l), m'. split; [reflexivity|]. split.
      { constructor; [|assumption]. right. split; [now apply lexname_nonempty|].
        rewrite Hkeep; [assumption|]. intros j' Hj'. apply lexname_not_itoa; [assumption|auto]. }
      split.
      { intros x Hx. apply Hkeep. intros j' Hj'. apply Hx. now right. }
      intros j' r E Hn. injection E as <- <-. exfalso. apply Hn. now left.
    + (* number j has no name: it is called itoa j *)
      apply Z.eqb_neq in En.
      assert (Hnotin : ~ In j ks).
      { intros Hi. destruct ks as [|k ks]; [destruct Hi|]. subst next.
        inversion Hks as [|? ? _ Hkf]; subst. destruct Hi as [->|Hi]; [congruence|].
        rewrite Forall_forall in Hkf. specialize (Hkf _ Hi).
        destruct (Hincl k (or_introl eq_refl)) as [->|Hk]; [congruence|].
        rewrite Forall_forall in Hf. specialize (Hf _ Hk). lia. }
      assert (Hincl' : incl ks js).
      { intros x Hx. destruct (Hincl x Hx) as [->|H]; [contradiction|assumption]. }
      assert (HF1 : Forall2 (fun s k => aget s (aset (itoa j) j m) = Some k) rest ks).
      { clear -HF Hlex Hj0. induction HF as [|s k rest ks Hg HF IHF]; [constructor|].
        inversion Hlex; subst. constructor; [|auto].
        rewrite aget_aset_other; [assumption|]. now apply lexname_not_itoa. }
      destruct (IH rest ks next (aset (itoa j) j m) Hs' Hnn' HF1 Hks Hincl' Hlex Hnext) as [l [m' [Hm [HF2 [Hkeep _]]]]].
      rewrite Hm. cbn [bind]. exists (itoa j :: l), m'. split; [reflexivity|]. split.
      { constructor; [|assumption]. right. split; [now apply itoa_nonempty|].
        rewrite Hkeep; [apply aget_aset_same|].
        intros j' Hj' E. apply itoa_inj in E; [|assumption|auto]. subst j'.
        rewrite Forall_forall in Hf. specialize (Hf _ Hj'). lia. }
      split.
      { intros x Hx. rewrite Hkeep by (intros j' Hj'; apply Hx; now right).
        apply aget_aset_other. apply Hx. now left. }
      intros j' r E _. injection E as <- <-. eexists; reflexivity.
Qed.

Lemma capcount_le_captop : forall c, capsinv c -> c_capcount c <= c_captop c.
Proof.
  intros c Hc. rewrite (ci_count _ Hc). unfold zlen.
  pose proof (ssorted_length_bound (c_caps c) 0 (c_captop c) (ci_sorted _ Hc) (ci_range _ Hc)).
  pose proof (ci_range _ Hc _ (ci_zero _ Hc)). lia.
Qed.

Lemma dense_caps : forall c, capsinv c -> capnumlist_of c = None -> c_caps c = zrange (c_capcount c) /\ c_capcount c = c_captop c.
Proof.
  intros c Hc H. unfold capnumlist_of in H. destruct (c_capcount c <? c_captop c) eqn:E; [discriminate|].
  apply Z.ltb_ge in E. pose proof (capcount_le_captop c Hc) as Hle.
  assert (Heq : c_capcount c = c_captop c) by lia. split; [|assumption].
  apply ssorted_dense; [apply Hc| |].
  - intros k Hk. pose proof (ci_range _ Hc _ Hk). lia.
  - rewrite (ci_count _ Hc). reflexivity.
Qed.

Theorem assign_default_wf : forall c t,
  pinv false c -> Z.max (c_autocap c) (c_captop c) + Z.of_nat (length (c_capnamelist c)) < maxint32 ->
  assign_default c = Ok t ->
  wf_tree false t
  /\ (forall k, In k (t_caps t) -> In k (c_caps c) \/ c_autocap c <= k)
  /\ (forall k, In k (c_caps c) -> In k (t_caps t))
  /\ exists ks, chain (c_caps c) (c_autocap c) ks
       /\ (forall k, In k (t_caps t) <-> In k (c_caps c) \/ In k ks)
       /\ match t_capnames t with
          | Some m => Forall2 (fun s k => aget s m = Some k) (c_capnamelist c) ks
          | None => c_capnamelist c = []
          end.
Proof.
  intros c t Hinv Hb H.
  pose proof Hinv as [Hci Hauto Hun Hkeys Hnd Hlex0 Hsome Htopb _].
  assert (Hlex : Forall (fun s => lexname s = true) (c_capnamelist c)).
  { eapply Forall_impl; [|exact Hlex0]. intros a Ha. now apply name_ok_default. }
  unfold assign_default in H.
  set (c1 := match c_capnames c with Some _ => assign_names (c_capnamelist c) c | None => c end) in *.
  destruct (assign_names_spec (c_capnamelist c) c Hci Hauto Hun Hnd) as [A1 [A2 [A3 [A4 [A5 [A6 [ks [A7 [A8 A9]]]]]]]]].
  { intros s Hs. now rewrite Hkeys. }
  { assumption. }
  cbn zeta in *.
  destruct (chain_sorted _ _ _ A8) as [Hkss Hksb].
  (* two cases: names or not *)
  destruct (c_capnames c) as [m0|] eqn:Em0.
  - (* there are names *)
    assert (Hne : c_capnamelist c <> []).
    { intros E. rewrite <- Hkeys in E. unfold names_of in E. rewrite Em0 in E.
      destruct m0; [exact (Hsome _ eq_refl eq_refl)|discriminate]. }
    specialize (A5 Hne). subst c1. set (c1 := assign_names (c_capnamelist c) c) in *.
    rewrite A5 in H.
    assert (Hjs : match capnumlist_of c1 with Some l => l | None => zrange (c_capcount c1) end = c_caps c1).
    { destruct (capnumlist_of c1) eqn:E; [unfold capnumlist_of in E; destruct (c_capcount c1 <? c_captop c1); congruence|].
      symmetry. apply (dense_caps c1 A1 E). }
    destruct (capnumlist_of c1) as [nl|] eqn:Enl.
    + (* sparse *)
      rewrite A2 in H. destruct (c_capnamelist c) as [|s0 rest0] eqn:El; [contradiction|]. cbn [bind] in H.
      rewrite <- El in *.
      destruct (merge_spec nl (c_capnamelist c) ks (aget0 s0 (names_of c1)) (names_of c1)) as [l [m' [Hm [HF [Hkeep Hhead]]]]].
      { rewrite Hjs. apply A1. }
      { rewrite Hjs. intros j Hj. pose proof (ci_range _ A1 _ Hj). lia. }
      { assumption. }
      { assumption. }
      { rewrite Hjs. intros k Hk. apply A9. now right. }
      { assumption. }
      { rewrite El in A7. inversion A7; subst. now apply aget0_some. }
      rewrite El in Hm at 1. rewrite <- El in Hm. rewrite Hm in H. cbn [bind] in H. injection H as <-.
      assert (Hcaps0 : exists r, c_caps c1 = 0 :: r).
      { apply sorted_head_zero; [apply A1|apply A1|]. intros k Hk. pose proof (ci_range _ A1 _ Hk). lia. }
      split; [|split; [|split]].
      * constructor; cbn [t_caps t_capnumlist t_captop t_capnames t_caplist].
        -- apply A1.
        -- assumption.
        -- discriminate.
        -- intros nl' E. injection E as <-. split; [assumption|].
           unfold capnumlist_of in Enl. destruct (c_capcount c1 <? c_captop c1) eqn:E; [|discriminate].
           injection Enl as <-. apply Z.ltb_lt in E. rewrite (ci_count _ A1) in E. unfold zlen in *. lia.
        -- split; [now rewrite <- Hjs|]. split; [discriminate|].
           destruct Hcaps0 as [r0 Hr0]. apply (Hhead 0 r0); [congruence|].
           intros Hi. destruct (Hksb _ Hi). lia.
      * cbn [t_caps t_capnumlist t_captop t_capnames t_caplist]. intros k Hk. apply A9 in Hk. destruct Hk as [Hk|Hk]; [now left|right]. now destruct (Hksb _ Hk).
      * cbn [t_caps t_capnumlist t_captop t_capnames t_caplist]. intros k Hk. apply A9. now left.
      * exists ks. split; [assumption|]. split; [cbn [t_caps t_capnumlist t_captop t_capnames t_caplist]; apply A9|]. cbn [t_caps t_capnumlist t_captop t_capnames t_caplist].
        eapply Forall2_impl; [|exact A7]. cbv beta. intros s k Hg. rewrite Hkeep; [assumption|].
        intros j Hj. apply lexname_not_itoa.
        -- apply aget_some_key in Hg. rewrite A3, Hkeys in Hg. rewrite Forall_forall in Hlex. now apply Hlex.
        -- rewrite Hjs in Hj. pose proof (ci_range _ A1 _ Hj). lia.
    + (* dense with names *)
      rewrite A2 in H. destruct (c_capnamelist c) as [|s0 rest0] eqn:El; [contradiction|]. cbn [bind] in H.
      rewrite <- El in *.
      destruct (merge_spec (zrange (c_capcount c1)) (c_capnamelist c) ks (aget0 s0 (names_of c1)) (names_of c1)) as [l [m' [Hm [HF [Hkeep Hhead]]]]].
      { rewrite Hjs. apply A1. }
      { rewrite Hjs. intros j Hj. pose proof (ci_range _ A1 _ Hj). lia. }
      { assumption. }
      { assumption. }
      { rewrite Hjs. intros k Hk. apply A9. now right. }
      { assumption. }
      { rewrite El in A7. inversion A7; subst. now apply aget0_some. }
      rewrite El in Hm at 1. rewrite <- El in Hm. rewrite Hm in H. cbn [bind] in H. injection H as <-.
      assert (Hcaps0 : exists r, c_caps c1 = 0 :: r).
      { apply sorted_head_zero; [apply A1|apply A1|]. intros k Hk. pose proof (ci_range _ A1 _ Hk). lia. }
      destruct (dense_caps c1 A1 Enl) as [Hd1 Hd2].
      split; [|split; [|split]].
      * constructor; cbn [t_caps t_capnumlist t_captop t_capnames t_caplist].
        -- apply A1.
        -- assumption.
        -- intros _. now rewrite Hd1, Hd2.
        -- discriminate.
        -- split; [now rewrite <- Hjs|]. split; [discriminate|].
           destruct Hcaps0 as [r0 Hr0]. apply (Hhead 0 r0); [congruence|].
           intros Hi. destruct (Hksb _ Hi). lia.
      * cbn [t_caps t_capnumlist t_captop t_capnames t_caplist]. intros k Hk. apply A9 in Hk. destruct Hk as [Hk|Hk]; [now left|right]. now destruct (Hksb _ Hk).
      * cbn [t_caps t_capnumlist t_captop t_capnames t_caplist]. intros k Hk. apply A9. now left.
      * exists ks. split; [assumption|]. split; [cbn [t_caps t_capnumlist t_captop t_capnames t_caplist]; apply A9|]. cbn [t_caps t_capnumlist t_captop t_capnames t_caplist].
        eapply Forall2_impl; [|exact A7]. cbv beta. intros s k Hg. rewrite Hkeep; [assumption|].
        intros j Hj. apply lexname_not_itoa.
        -- apply aget_some_key in Hg. rewrite A3, Hkeys in Hg. rewrite Forall_forall in Hlex. now apply Hlex.
        -- rewrite Hjs in Hj. pose proof (ci_range _ A1 _ Hj). lia.
  - (* no names *)
    subst c1.
    assert (Hl : c_capnamelist c = []).
    { rewrite <- Hkeys. unfold names_of. now rewrite Em0. }
    rewrite Hl in A7. inversion A7; subst ks.
    rewrite Em0 in H.
    assert (Hcaps0 : exists r, c_caps c = 0 :: r).
    { apply sorted_head_zero; [apply Hci|apply Hci|]. intros k Hk. pose proof (ci_range _ Hci _ Hk). lia. }
    destruct (capnumlist_of c) as [nl|] eqn:Enl.
    + (* sparse, no names: every number is called by its decimal numeral *)
      assert (Hnl : nl = c_caps c).
      { unfold capnumlist_of in Enl. destruct (c_capcount c <? c_captop c); congruence. }
      cbn [bind] in H.
      destruct (merge_spec nl [] [] (-1) []) as [l [m' [Hm [HF [Hkeep Hhead]]]]].
      { rewrite Hnl. apply Hci. }
      { rewrite Hnl. intros j Hj. pose proof (ci_range _ Hci _ Hj). lia. }
      { constructor. }
      { constructor. }
      { intros x []. }
      { constructor. }
      { reflexivity. }
      rewrite Hm in H. cbn [bind] in H. injection H as <-.
      split; [|split; [|split]].
      * constructor; cbn [t_caps t_capnumlist t_captop t_capnames t_caplist].
        -- apply Hci.
        -- assumption.
        -- discriminate.
        -- intros nl' E. injection E as <-. split; [assumption|].
           unfold capnumlist_of in Enl. destruct (c_capcount c <? c_captop c) eqn:E; [|discriminate].
           injection Enl as <-. apply Z.ltb_lt in E. rewrite (ci_count _ Hci) in E. unfold zlen in *. lia.
        -- split; [now rewrite <- Hnl|]. split; [discriminate|].
           destruct Hcaps0 as [r0 Hr0]. apply (Hhead 0 r0); [congruence|intros []].
      * cbn [t_caps t_capnumlist t_captop t_capnames t_caplist]. auto.
      * cbn [t_caps t_capnumlist t_captop t_capnames t_caplist]. auto.
      * exists []. split; [exact I|]. split; [cbn [t_caps t_capnumlist t_captop t_capnames t_caplist]; intros k; split; [auto|intros [Hx|[]]; exact Hx]|]. cbn [t_caps t_capnumlist t_captop t_capnames t_caplist]. rewrite Hl. constructor.
    + injection H as <-.
      destruct (dense_caps c Hci Enl) as [Hd1 Hd2].
      split; [|split; [|split]].
      * constructor; cbn [t_caps t_capnumlist t_captop t_capnames t_caplist]; auto.
        -- apply Hci.
        -- intros _. now rewrite Hd1, Hd2.
        -- discriminate.
      * cbn [t_caps t_capnumlist t_captop t_capnames t_caplist]. auto.
      * cbn [t_caps t_capnumlist t_captop t_capnames t_caplist]. auto.
      * exists []. split; [exact I|]. split; [cbn [t_caps t_capnumlist t_captop t_capnames t_caplist]; intros k; split; [auto|intros [Hx|[]]; exact Hx]|]. cbn [t_caps t_capnumlist t_captop t_capnames t_caplist]. assumption.
Qed.


(* ================= every number held by Capnames is a group number ================= *)

Definition vals_ok (t : ptree) : Prop :=
  match t_capnames t with
  | Some m => forall s k, aget s m = Some k -> In k (t_caps t)
  | None => True
  end.

Lemma aget_aset_cases : forall x s v m w, aget x (aset s v m) = Some w -> (x = s /\ w = v) \/ aget x m = Some w.
Proof.
  intros x s v m w H. destruct (list_eq_dec Z.eq_dec x s) as [->|Hne].
  - rewrite aget_aset_same in H. injection H as <-. now left.
  - rewrite aget_aset_other in H by assumption. now right.
Qed.

Lemma fill_ordered_vals : forall ecma js l m l2 m2, fill_ordered ecma js l m = (l2, m2) ->
  forall s v, aget s m2 = Some v -> aget s m = Some v \/ In v js.
Proof.
  intros ecma js. induction js as [|j js IH]; intros l m l2 m2 H s v Hv.
  - cbn in H. injection H as <- <-. now left.
  - destruct l as [|x l]; [cbn in H; injection H as <- <-; now left|].
    cbn [fill_ordered] in H. destruct ecma.
    + destruct (fill_ordered true js l m) as [r m'] eqn:E. injection H as <- <-.
      destruct (IH _ _ _ _ E s v Hv); [now left|right; now right].
    + set (s' := match x with [] => itoa j | _ => x end) in *.
      set (m1 := if amem s' m then m else aset s' j m) in *.
      destruct (fill_ordered false js l m1) as [r m'] eqn:E. injection H as <- <-.
      destruct (IH _ _ _ _ E s v Hv) as [H1|H1]; [|right; now right].
      subst m1. destruct (amem s' m); [now left|].
      destruct (aget_aset_cases _ _ _ _ _ H1) as [[_ ->]|H2]; [right; now left|now left].
Qed.

Lemma merge_vals : forall js rest next m l m', merge_names js rest next m = Ok (l, m') ->
  forall s v, aget s m' = Some v -> aget s m = Some v \/ In v js.
Proof.
  induction js as [|j js IH]; intros rest next m l m' H s v Hv.
  - cbn in H. injection H as <- <-. now left.
  - cbn [merge_names] in H. destruct (next =? j).
    + destruct rest as [|x rest']; [discriminate|].
      destruct (merge_names js rest' _ m) as [[l1 m1]| | |] eqn:E; try discriminate. cbn [bind] in H.
      injection H as <- <-. destruct (IH _ _ _ _ _ E s v Hv); [now left|right; now right].
    + destruct (merge_names js rest next (aset (itoa j) j m)) as [[l1 m1]| | |] eqn:E; try discriminate. cbn [bind] in H.
      injection H as <- <-. destruct (IH _ _ _ _ _ E s v Hv) as [H1|H1]; [|right; now right].
      destruct (aget_aset_cases _ _ _ _ _ H1) as [[_ ->]|H2]; [right; now left|now left].
Qed.

Lemma Forall2_aget_in : forall (names : list name) ks m s v,
  Forall2 (fun s k => aget s m = Some k) names ks -> In s names -> aget s m = Some v -> In v ks.
Proof.
  intros names ks m s v HF. induction HF as [|x k names ks Hx HF IH]; intros Hi Hv; [destruct Hi|].
  destruct Hi as [->|Hi]; [left; congruence|right; auto].
Qed.

Theorem assign_ordered_vals : forall ecma c t, pinv true c -> assign_ordered ecma c = Ok t -> vals_ok t.
Proof.
  intros ecma c t Hinv H.
  destruct (mco_dense c Hinv) as [Hcaps [Htop Hcnt]].
  destruct (pi_mco _ _ Hinv eq_refl) as [_ [_ Hslots]].
  assert (Hnl : capnumlist_of c = None).
  { unfold capnumlist_of. rewrite Hcnt, Htop. now rewrite Z.ltb_irrefl. }
  assert (Hold : forall s v, aget s (names_of c) = Some v -> In v (c_caps c)).
  { intros s v Hv. specialize (Hslots _ _ Hv). rewrite Hcaps. apply zrange_In. lia. }
  assert (Hjs : forall v, In v (zrange (c_capcount c)) -> In v (c_caps c)) by (intros v Hv; now rewrite Hcaps, <- Hcnt).
  unfold assign_ordered in H. rewrite Hnl in H.
  destruct (c_capnames c) as [m|] eqn:Em.
  - assert (Hm : names_of c = m) by (unfold names_of; now rewrite Em).
    destruct (place_names (c_capnamelist c) None m _) as [l1| | |]; try discriminate. cbn [bind] in H.
    destruct (fill_ordered ecma (zrange (c_capcount c)) l1 m) as [l2 m2] eqn:Ef. injection H as <-.
    unfold vals_ok. cbn. intros s k Hk.
    destruct (fill_ordered_vals _ _ _ _ _ _ Ef s k Hk) as [H1|H1]; [apply (Hold s); now rewrite Hm|auto].
  - destruct (negb ecma && (c_capcount c =? c_captop c)); [injection H as <-; exact I|].
    destruct (place_names (c_capnamelist c) None [] _) as [l1| | |]; try discriminate. cbn [bind] in H.
    destruct (fill_ordered ecma (zrange (c_capcount c)) l1 []) as [l2 m2] eqn:Ef. injection H as <-.
    unfold vals_ok. cbn. intros s k Hk.
    destruct (fill_ordered_vals _ _ _ _ _ _ Ef s k Hk) as [H1|H1]; [discriminate|auto].
Qed.

Theorem assign_default_vals : forall c t,
  pinv false c -> Z.max (c_autocap c) (c_captop c) + Z.of_nat (length (c_capnamelist c)) < maxint32 ->
  assign_default c = Ok t -> vals_ok t.
Proof.
  intros c t Hinv Hb H.
  pose proof Hinv as [Hci Hauto Hun Hkeys Hnd Hlex Hsome Htopb _].
  destruct (assign_names_spec (c_capnamelist c) c Hci Hauto Hun Hnd) as [A1 [A2 [A3 [A4 [A5 [A6 [ks [A7 [A8 A9]]]]]]]]].
  { intros s Hs. now rewrite Hkeys. }
  { assumption. }
  cbn zeta in *.
  unfold assign_default in H.
  set (c1 := match c_capnames c with Some _ => assign_names (c_capnamelist c) c | None => c end) in *.
  assert (Hjs : match capnumlist_of c1 with Some l => l | None => zrange (c_capcount c1) end = c_caps c1 /\ capsinv c1).
  { assert (Hc1 : capsinv c1) by (subst c1; destruct (c_capnames c); assumption).
    split; [|assumption].
    destruct (capnumlist_of c1) eqn:E; [unfold capnumlist_of in E; destruct (c_capcount c1 <? c_captop c1); congruence|].
    symmetry. apply (dense_caps c1 Hc1 E). }
  destruct Hjs as [Hjs Hc1].
  destruct (c_capnames c1) as [m1|] eqn:Em1.
  - (* a names table: Capnames = merge of names_of c1 *)
    assert (Hvals1 : forall s v, aget s m1 = Some v -> In v (c_caps c1)).
    { intros s v Hv. destruct (c_capnames c) as [m0|] eqn:Em0.
      - subst c1. assert (Hn1 : names_of (assign_names (c_capnamelist c) c) = m1) by (unfold names_of; now rewrite Em1).
        rewrite <- Hn1 in Hv. apply A9. right.
        apply (Forall2_aget_in _ _ _ s v A7); [|assumption].
        apply aget_some_key in Hv. rewrite A3, Hkeys in Hv. assumption.
      - subst c1. congruence. }
    destruct (capnumlist_of c1) as [nl|] eqn:Enl.
    + destruct (c_capnamelist c1) as [|s0 r0]; [discriminate|]. cbn [bind] in H.
      destruct (merge_names nl (s0 :: r0) _ m1) as [[l m']| | |] eqn:Emg; try discriminate. cbn [bind] in H.
      injection H as <-. unfold vals_ok. cbn. intros s k Hk.
      destruct (merge_vals _ _ _ _ _ _ Emg s k Hk) as [H1|H1]; [eauto|now rewrite <- Hjs].
    + destruct (c_capnamelist c1) as [|s0 r0]; [discriminate|]. cbn [bind] in H.
      destruct (merge_names (zrange (c_capcount c1)) (s0 :: r0) _ m1) as [[l m']| | |] eqn:Emg; try discriminate. cbn [bind] in H.
      injection H as <-. unfold vals_ok. cbn. intros s k Hk.
      destruct (merge_vals _ _ _ _ _ _ Emg s k Hk) as [H1|H1]; [eauto|now rewrite <- Hjs].
  - destruct (capnumlist_of c1) as [nl|] eqn:Enl.
    + cbn [bind] in H. destruct (merge_names nl [] (-1) []) as [[l m']| | |] eqn:Emg; try discriminate. cbn [bind] in H.
      injection H as <-. unfold vals_ok. cbn. intros s k Hk.
      destruct (merge_vals _ _ _ _ _ _ Emg s k Hk) as [H1|H1]; [discriminate|now rewrite <- Hjs].
    + injection H as <-. exact I.
Qed.

End WithLim.
