(* C12, part D: every entry point is a program whose result does not depend on which (legal) runner, buffer or
   cache answer the shared state hands it, and which only ever returns legal objects to the shared state. *)
From Verif Require Import Base.Prelude Model.Pool Proofs.PoolStackProofs Proofs.PoolRunnerProofs Proofs.PoolStateProofs.

Section Sim.
Variable E : env.
Hypothesis WF : env_wf E.

(* [sim p q]: p and q perform the same Gets in the same order, return only legal objects, and end with the same
   value however the Gets are answered (independently on the two sides).  Puts of buffers and cache insertions
   may occur on one side only (they cannot influence a value). *)
Inductive sim {A : Type} : prog A -> prog A -> Prop :=
| sim_ret : forall a, sim (Ret a) (Ret a)
| sim_getr : forall re k1 k2,
    (forall r1 r2, runner_ok (e_cfg E re) r1 -> runner_ok (e_cfg E re) r2 -> sim (k1 r1) (k2 r2)) ->
    sim (GetRunner re k1) (GetRunner re k2)
| sim_putr : forall re r1 r2 k1 k2,
    runner_ok (e_cfg E re) r1 -> runner_ok (e_cfg E re) r2 -> sim k1 k2 ->
    sim (PutRunner re r1 k1) (PutRunner re r2 k2)
| sim_getb : forall bk n m k1 k2,
    (forall b1 b2 p1 p2, n <= b_cap b1 -> n <= b_cap b2 -> sim (k1 b1 p1) (k2 b2 p2)) ->
    sim (GetBuf bk n m k1) (GetBuf bk n m k2)
| sim_putb_l : forall bk b k q, sim k q -> sim (PutBuf bk b k) q
| sim_putb_r : forall bk b p k, sim p k -> sim p (PutBuf bk b k)
| sim_cget : forall re key k1 k2,
    (forall o1 o2, coh E re key o1 -> coh E re key o2 -> sim (k1 o1) (k2 o2)) ->
    sim (CacheGet re key k1) (CacheGet re key k2)
| sim_cadd_l : forall re key d k q, e_parse_repl E re key = Ok d -> sim k q -> sim (CacheAdd re key d k) q
| sim_cadd_r : forall re key d p k, e_parse_repl E re key = Ok d -> sim p k -> sim p (CacheAdd re key d k).

Lemma sim_bind : forall {A B} (p q : prog A) (f g : A -> prog B),
  sim p q -> (forall a, sim (f a) (g a)) -> sim (pbind p f) (pbind q g).
Proof.
  intros A B p q f g H FG. induction H; cbn [pbind].
  - apply FG.
  - apply sim_getr; auto.
  - apply sim_putr; auto.
  - apply sim_getb; auto.
  - apply sim_putb_l; auto.
  - apply sim_putb_r; auto.
  - apply sim_cget; auto.
  - eapply sim_cadd_l; eauto.
  - eapply sim_cadd_r; eauto.
Qed.

Lemma fresh_buf_fits : forall n, n <= b_cap {| b_id := O; b_cap := n; b_data := [] |}.
Proof. intros; cbn; lia. Qed.

Lemma sim_ideal : forall {A} (p q : prog A), sim p q -> ideal p = ideal q.
Proof.
  intros A p q H. induction H; cbn [ideal]; auto.
  - apply H0; apply fresh_runner_ok.
  - apply H0; apply fresh_buf_fits.
  - apply H0; exact I.
Qed.

(* whatever the shared state (legal) and whatever the pools answer, a program related to q returns q's value on
   fresh state, and leaves the shared state legal *)
Lemma sim_run_ideal : forall {A} (p q : prog A), sim p q ->
  forall g ch, gstate_ok E g ->
  snd (run_prog E p g ch) = ideal q /\ gstate_ok E (fst (run_prog E p g ch)).
Proof.
  intros A p q H. induction H; intros g ch G; cbn [run_prog ideal].
  - cbn; auto.
  - pose proof (act_get_runner_ok E g re (hd None ch) G) as [G1 R1].
    destruct (act_get_runner g re (hd None ch)) as [g1 r]; cbn [fst snd] in *.
    apply H0; auto. apply fresh_runner_ok.
  - apply IHsim. apply act_put_runner_ok; auto.
  - pose proof (act_get_buf_ok E g bk n m (hd None ch) G) as GB.
    destruct (act_get_buf g bk n m (hd None ch)) as [[g1 b] pooled]. destruct GB as [G1 B1].
    apply H0; auto. apply fresh_buf_fits.
  - apply IHsim. apply act_put_buf_ok; auto.
  - apply IHsim; auto.
  - pose proof (act_cache_get_ok E g re key G) as [G1 C1].
    destruct (act_cache_get g re key) as [g1 o]; cbn [fst snd] in *.
    apply H0; auto. exact I.
  - apply IHsim. apply act_cache_add_ok; auto.
  - apply IHsim; auto.
Qed.

(* ---------- scans on an owned runner ---------- *)

Lemma do_scan_facts : forall re r a r' sr,
  runner_inv (e_cfg E re) r -> do_scan E re r a = (r', sr) ->
  runner_inv (e_cfg E re) r' /\ r_id r' = r_id r /\ r_code r' = r_code r /\
  sr = scan_value (e_cfg E re) (e_interp E re) (r_code r) a.
Proof.
  intros re r a r' sr Hinv S. destruct WF as (W1 & W2 & W3). unfold do_scan in S.
  pose proof (scan_facts (e_cfg E re) (e_interp E re) (e_deadline E) r a (W1 re) Hinv) as F.
  pose proof (scan_result (e_cfg E re) (e_interp E re) (e_deadline E) r a (W1 re) (W2 re) Hinv) as V.
  rewrite S in F, V. cbn [fst snd] in *. tauto.
Qed.

Lemma switch_code : forall cfg r1 r2 (c : bool),
  runner_ok cfg r1 -> runner_ok cfg r2 ->
  runner_inv cfg (if c then set_code r1 Quick else r1) /\ runner_inv cfg (if c then set_code r2 Quick else r2) /\
  r_code (if c then set_code r1 Quick else r1) = r_code (if c then set_code r2 Quick else r2).
Proof.
  intros cfg r1 r2 c (I1 & C1 & _) (I2 & C2 & _). destruct c; cbn; repeat split; try apply I1; try apply I2; congruence.
Qed.

Lemma ok_inv : forall cfg r, runner_ok cfg r -> runner_inv cfg r.
Proof. intros cfg r H; apply H. Qed.

(* regexp.go:80-98 *)
Lemma p_run_sim : forall re quick ts prevlen text info,
  sim (p_run E re quick ts prevlen text info) (p_run E re quick ts prevlen text info).
Proof.
  intros. unfold p_run. apply sim_getr. intros r1 r2 O1 O2.
  destruct (switch_code (e_cfg E re) r1 r2 (quick && negb info && cfg_has_quick (e_cfg E re)) O1 O2) as (I1 & I2 & C).
  match goal with |- context [do_scan E re _ ?a] => set (args := a) end.
  destruct (do_scan E re (if quick && negb info && cfg_has_quick (e_cfg E re) then set_code r1 Quick else r1) args)
    as [r1' s1] eqn:S1.
  destruct (do_scan E re (if quick && negb info && cfg_has_quick (e_cfg E re) then set_code r2 Quick else r2) args)
    as [r2' s2] eqn:S2.
  destruct (do_scan_facts _ _ _ _ _ I1 S1) as (J1 & _ & _ & V1).
  destruct (do_scan_facts _ _ _ _ _ I2 S2) as (J2 & _ & _ & V2).
  rewrite C in V1. rewrite <- V2 in V1. subst s2.
  apply sim_putr; try (apply put_reset_ok; assumption). apply sim_ret.
Qed.

(* regexp.go:350-383 *)
Lemma find_all_loop_spec : forall fuel re r1 r2 text startAt prevlen n prevEnd acc,
  runner_inv (e_cfg E re) r1 -> runner_inv (e_cfg E re) r2 -> r_code r1 = r_code r2 ->
  snd (find_all_loop E fuel re r1 text startAt prevlen n prevEnd acc)
  = snd (find_all_loop E fuel re r2 text startAt prevlen n prevEnd acc) /\
  runner_inv (e_cfg E re) (fst (find_all_loop E fuel re r1 text startAt prevlen n prevEnd acc)) /\
  runner_inv (e_cfg E re) (fst (find_all_loop E fuel re r2 text startAt prevlen n prevEnd acc)).
Proof.
  induction fuel as [|f IH]; intros re r1 r2 text startAt prevlen n prevEnd acc I1 I2 C; cbn [find_all_loop].
  - cbn; auto.
  - destruct (n =? 0); [cbn; auto|].
    match goal with |- context [do_scan E re r1 ?a] => set (args := a) end.
    destruct (do_scan E re r1 args) as [r1' s1] eqn:S1.
    destruct (do_scan E re r2 args) as [r2' s2] eqn:S2.
    destruct (do_scan_facts _ _ _ _ _ I1 S1) as (J1 & _ & C1 & V1).
    destruct (do_scan_facts _ _ _ _ _ I2 S2) as (J2 & _ & C2 & V2).
    rewrite C in V1. rewrite <- V2 in V1. subst s2.
    assert (C' : r_code r1' = r_code r2') by congruence.
    destruct s1 as [m| | | |]; [|cbn; auto|cbn; auto|cbn; auto|cbn; auto].
    destruct (e_fa_emit E prevEnd m); apply IH; auto.
Qed.

(* replace.go:181-202 / 244-267 *)
Lemma replace_loop_spec : forall fuel re r1 r2 text m count acc,
  runner_inv (e_cfg E re) r1 -> runner_inv (e_cfg E re) r2 -> r_code r1 = r_code r2 ->
  snd (fst (replace_loop E fuel re r1 text m count acc)) = snd (fst (replace_loop E fuel re r2 text m count acc)) /\
  snd (replace_loop E fuel re r1 text m count acc) = snd (replace_loop E fuel re r2 text m count acc) /\
  runner_inv (e_cfg E re) (fst (fst (replace_loop E fuel re r1 text m count acc))) /\
  runner_inv (e_cfg E re) (fst (fst (replace_loop E fuel re r2 text m count acc))).
Proof.
  induction fuel as [|f IH]; intros re r1 r2 text m count acc I1 I2 C; cbn [replace_loop].
  - cbn; auto.
  - destruct (count - 1 =? 0); [cbn; auto|].
    match goal with |- context [do_scan E re r1 ?a] => set (args := a) end.
    destruct (do_scan E re r1 args) as [r1' s1] eqn:S1.
    destruct (do_scan E re r2 args) as [r2' s2] eqn:S2.
    destruct (do_scan_facts _ _ _ _ _ I1 S1) as (J1 & _ & C1 & V1).
    destruct (do_scan_facts _ _ _ _ _ I2 S2) as (J2 & _ & C2 & V2).
    rewrite C in V1. rewrite <- V2 in V1. subst s2.
    assert (C' : r_code r1' = r_code r2') by congruence.
    destruct s1 as [m1| | | |]; [|cbn; auto|cbn; auto|cbn; auto|cbn; auto].
    apply IH; auto.
Qed.

Lemma sim_put_buf_if : forall {A} p1 p2 bk b1 b2 (k1 k2 : prog A),
  sim k1 k2 -> sim (put_buf_if p1 bk b1 k1) (put_buf_if p2 bk b2 k2).
Proof.
  intros A p1 p2 bk b1 b2 k1 k2 H. unfold put_buf_if.
  destruct p1, p2; auto using sim_putb_l, sim_putb_r.
Qed.

(* regexp.go:450-482 *)
Lemma p_match_string_at_sim : forall re s startAt,
  sim (p_match_string_at E re s startAt) (p_match_string_at E re s startAt).
Proof.
  intros. unfold p_match_string_at. apply sim_getr. intros r1 r2 O1 O2.
  apply sim_getb. intros b1 b2 p1 p2 B1 B2.
  destruct (decode_into_spec E b1 s WF B1) as (b1' & D1 & _).
  destruct (decode_into_spec E b2 s WF B2) as (b2' & D2 & _).
  rewrite D1, D2.
  destruct (switch_code (e_cfg E re) r1 r2 (cfg_has_quick (e_cfg E re)) O1 O2) as (I1 & I2 & C).
  match goal with |- context [do_scan E re _ ?a] => set (args := a) end.
  destruct (do_scan E re (if cfg_has_quick (e_cfg E re) then set_code r1 Quick else r1) args) as [r1' s1] eqn:S1.
  destruct (do_scan E re (if cfg_has_quick (e_cfg E re) then set_code r2 Quick else r2) args) as [r2' s2] eqn:S2.
  destruct (do_scan_facts _ _ _ _ _ I1 S1) as (J1 & _ & _ & V1).
  destruct (do_scan_facts _ _ _ _ _ I2 S2) as (J2 & _ & _ & V2).
  rewrite C in V1. rewrite <- V2 in V1. subst s2.
  apply sim_putr; try (apply put_reset_ok; assumption).
  apply sim_put_buf_if. apply sim_ret.
Qed.

Lemma p_match_string_sim : forall re s, sim (p_match_string E re s) (p_match_string E re s).
Proof.
  intros. unfold p_match_string. destruct (e_ms_cand E re s); [apply p_match_string_at_sim|apply sim_ret].
Qed.

Lemma p_find_string_sim : forall re s a v, sim (p_find_string E re s a v) (p_find_string E re s a v).
Proof.
  intros. unfold p_find_string. destruct (e_str_start E re s a v) as [[x|]| | |]; try apply sim_ret. apply p_run_sim.
Qed.

(* regexp.go:282-326 *)
Lemma p_find_all_string_sim : forall fuel re s n,
  sim (p_find_all_string E fuel re s n) (p_find_all_string E fuel re s n).
Proof.
  intros. unfold p_find_all_string. destruct (n =? 0); [apply sim_ret|].
  destruct (e_fa_start E re s) as [[startAt|]| | |]; try apply sim_ret.
  apply sim_getr. intros r1 r2 O1 O2.
  apply sim_getb. intros b1 b2 p1 p2 B1 B2.
  destruct (decode_into_spec E b1 s WF B1) as (b1' & D1 & _).
  destruct (decode_into_spec E b2 s WF B2) as (b2' & D2 & _).
  rewrite D1, D2.
  destruct (switch_code (e_cfg E re) r1 r2 (cfg_has_quick (e_cfg E re)) O1 O2) as (I1 & I2 & C).
  match goal with |- context [find_all_loop E fuel re _ ?t ?a ?b ?c ?d ?e] =>
    pose proof (find_all_loop_spec fuel re _ _ t a b c d e I1 I2 C) as (L1 & L2 & L3) end.
  match goal with |- context [find_all_loop E fuel re (if _ then set_code r1 Quick else r1) ?t ?a ?b ?c ?d ?e] =>
    destruct (find_all_loop E fuel re (if cfg_has_quick (e_cfg E re) then set_code r1 Quick else r1) t a b c d e)
      as [r1' o1];
    destruct (find_all_loop E fuel re (if cfg_has_quick (e_cfg E re) then set_code r2 Quick else r2) t a b c d e)
      as [r2' o2] end.
  cbn [fst snd] in *. subst o2.
  apply sim_putr; try (apply put_reset_ok; assumption).
  apply sim_put_buf_if. apply sim_ret.
Qed.

(* regexp.go:330-348 *)
Lemma p_find_all_runes_sim : forall fuel re t n,
  sim (p_find_all_runes E fuel re t n) (p_find_all_runes E fuel re t n).
Proof.
  intros. unfold p_find_all_runes. destruct (n =? 0); [apply sim_ret|].
  apply sim_getr. intros r1 r2 O1 O2.
  destruct (switch_code (e_cfg E re) r1 r2 (cfg_has_quick (e_cfg E re)) O1 O2) as (I1 & I2 & C).
  match goal with |- context [find_all_loop E fuel re _ ?t ?a ?b ?c ?d ?e] =>
    pose proof (find_all_loop_spec fuel re _ _ t a b c d e I1 I2 C) as (L1 & L2 & L3) end.
  match goal with |- context [find_all_loop E fuel re (if _ then set_code r1 Quick else r1) ?t ?a ?b ?c ?d ?e] =>
    destruct (find_all_loop E fuel re (if cfg_has_quick (e_cfg E re) then set_code r1 Quick else r1) t a b c d e)
      as [r1' o1];
    destruct (find_all_loop E fuel re (if cfg_has_quick (e_cfg E re) then set_code r2 Quick else r2) t a b c d e)
      as [r2' o2] end.
  cbn [fst snd] in *. subst o2.
  apply sim_putr; try (apply put_reset_ok; assumption). apply sim_ret.
Qed.

(* regexp.go:208-224: whether the cache hits, misses, or holds the entry only on one side *)
Lemma p_replacer_data_sim : forall {A} re repl (k : res rdata -> prog A),
  (forall x, sim (k x) (k x)) -> sim (p_replacer_data E re repl k) (p_replacer_data E re repl k).
Proof.
  intros A re repl k K. unfold p_replacer_data. destruct (should_cache (e_cfg E re) repl); [|apply K].
  apply sim_cget. intros o1 o2 C1 C2.
  destruct o1 as [d1|], o2 as [d2|]; cbn in C1, C2.
  - rewrite C1 in C2. inversion C2; subst. apply K.
  - rewrite C1. eapply sim_cadd_r; eauto.
  - rewrite C2. eapply sim_cadd_l; eauto.
  - destruct (e_parse_repl E re repl) eqn:P; try apply K.
    eapply sim_cadd_l; eauto. eapply sim_cadd_r; eauto.
Qed.

(* replace.go:147-276 *)
Lemma p_replace_runner_sim : forall fuel re data s startAt count,
  sim (p_replace_runner E fuel re data s startAt count) (p_replace_runner E fuel re data s startAt count).
Proof.
  intros. unfold p_replace_runner. destruct (zlen s <? startAt); [apply sim_ret|].
  apply sim_getr. intros r1 r2 O1 O2.
  apply sim_getb. intros b1 b2 p1 p2 B1 B2.
  destruct (decode_into_spec E b1 s WF B1) as (b1' & D1 & _).
  destruct (decode_into_spec E b2 s WF B2) as (b2' & D2 & _).
  rewrite D1, D2.
  assert (DONE : forall r1' r2' (v : result), runner_inv (e_cfg E re) r1' -> runner_inv (e_cfg E re) r2' ->
            sim (PutRunner re (put_reset r1') (put_buf_if p1 RuneBuf b1' (Ret v)))
                (PutRunner re (put_reset r2') (put_buf_if p2 RuneBuf b2' (Ret v)))).
  { intros r1' r2' v J1 J2. apply sim_putr; try (apply put_reset_ok; assumption).
    apply sim_put_buf_if. apply sim_ret. }
  destruct ((0 <=? startAt) && (e_rune_start E s startAt <? 0)).
  { apply DONE; apply ok_inv; assumption. }
  match goal with |- context [do_scan E re r1 ?a] => set (args := a) end.
  destruct (do_scan E re r1 args) as [r1' s1] eqn:S1.
  destruct (do_scan E re r2 args) as [r2' s2] eqn:S2.
  destruct (do_scan_facts _ _ _ _ _ (ok_inv _ _ O1) S1) as (J1 & _ & C1 & V1).
  destruct (do_scan_facts _ _ _ _ _ (ok_inv _ _ O2) S2) as (J2 & _ & C2 & V2).
  assert (C : r_code r1 = r_code r2) by (destruct O1 as (_ & X & _), O2 as (_ & Y & _); congruence).
  rewrite C in V1. rewrite <- V2 in V1. subst s2.
  assert (C' : r_code r1' = r_code r2') by congruence.
  destruct s1 as [m| | | |]; try (apply DONE; assumption).
  apply sim_getb. intros ob1 ob2 op1 op2 _ _.
  pose proof (replace_loop_spec fuel re r1' r2' (e_decode E s) m count [] J1 J2 C') as (L1 & L2 & L3 & L4).
  destruct (replace_loop E fuel re r1' (e_decode E s) m count []) as [[r1'' ms1] st1].
  destruct (replace_loop E fuel re r2' (e_decode E s) m count []) as [[r2'' ms2] st2].
  cbn [fst snd] in *. subst ms2 st2.
  apply sim_put_buf_if. apply DONE; assumption.
Qed.

Lemma sim_refl_res : forall {A B} (x : res A) (f : A -> prog (res B)),
  (forall a, sim (f a) (f a)) ->
  sim (match x with Ok a => f a | Err c => Ret (Err c) | Crash w => Ret (Crash w) | Fuel => Ret Fuel end)
      (match x with Ok a => f a | Err c => Ret (Err c) | Crash w => Ret (Crash w) | Fuel => Ret Fuel end).
Proof. intros A B [a|c|w|] f H; auto using sim_ret. Qed.

Lemma next_loop_replf_sim : forall fuel re text m count acc,
  sim (next_loop_replf E fuel re text m count acc) (next_loop_replf E fuel re text m count acc).
Proof.
  induction fuel as [|f IH]; intros; cbn [next_loop_replf]; [apply sim_ret|].
  destruct (count - 1 =? 0); [apply sim_ret|].
  apply sim_bind; [apply p_run_sim|]. intros [[m1|]|c|w|]; auto using sim_ret.
Qed.

Lemma split_loop_sim : forall fuel re text m count acc,
  sim (split_loop E fuel re text m count acc) (split_loop E fuel re text m count acc).
Proof.
  induction fuel as [|f IH]; intros; cbn [split_loop]; [apply sim_ret|].
  apply sim_bind; [apply p_run_sim|]. intros [[m1|]|c|w|]; auto using sim_ret.
  destruct (0 <? count - 1); auto using sim_ret.
Qed.

Lemma p_replace_tail_sim : forall fuel re data ev s startAt count,
  sim (p_replace_tail E fuel re data ev s startAt count) (p_replace_tail E fuel re data ev s startAt count).
Proof.
  intros. unfold p_replace_tail. destruct (count <? -1); [apply sim_ret|]. destruct (count =? 0); [apply sim_ret|].
  destruct data as [d|]; [apply p_replace_runner_sim|].
  apply sim_bind; [apply p_find_string_sim|]. intros [[m|]|c|w|]; auto using sim_ret.
  apply sim_bind; [apply next_loop_replf_sim|]. intros [ms|c|w|]; auto using sim_ret.
Qed.

Lemma p_replace_sim : forall fuel re s repl a c, sim (p_replace E fuel re s repl a c) (p_replace E fuel re s repl a c).
Proof.
  intros. unfold p_replace. apply p_replacer_data_sim. intros [d|x|w|]; auto using sim_ret, p_replace_tail_sim.
Qed.

Lemma p_split_sim : forall fuel re s count, sim (p_split E fuel re s count) (p_split E fuel re s count).
Proof.
  intros. unfold p_split. destruct (count <? -1); [apply sim_ret|]. destruct (count =? 0); [apply sim_ret|].
  destruct (count =? 1); [apply sim_ret|].
  apply sim_bind; [apply p_find_string_sim|]. intros [[m|]|c|w|]; auto using sim_ret.
  apply sim_bind; [apply split_loop_sim|]. intros [ms|c|w|]; auto using sim_ret.
Qed.

(* every public entry point *)
Theorem entry_sim : forall fuel o, sim (entry E fuel o) (entry E fuel o).
Proof.
  intros fuel o. destruct o; cbn [entry].
  - apply p_match_string_sim.
  - apply sim_bind; [apply p_run_sim|intros; apply sim_ret].
  - apply sim_bind; [apply p_find_string_sim|intros; apply sim_ret].
  - apply sim_bind; [apply p_find_string_sim|intros; apply sim_ret].
  - apply sim_bind; [apply p_run_sim|intros; apply sim_ret].
  - apply sim_bind; [apply p_run_sim|intros; apply sim_ret].
  - destruct prev as [[[t pos] len]|]; [|apply sim_ret].
    apply sim_bind; [apply p_run_sim|intros; apply sim_ret].
  - apply p_find_all_string_sim.
  - apply p_find_all_runes_sim.
  - apply p_replace_sim.
  - apply p_replace_tail_sim.
  - apply p_split_sim.
Qed.

End Sim.
