(* C02, string entry points — library lemmas for Proofs/EntryFilter.v and Proofs/EntryProofs.v:
   the string-search functions of Model/Entry.v return the FIRST occurrence; rune boundaries of a
   byte string (Utf8Proofs.boundary) are increasing, end at the length, and are exactly what
   isStringRuneBoundary / getRunesAndStart / decodeStringWithStart compute; a decoded rune other
   than U+FFFD is present in the string as its UTF-8 encoding (self-synchronisation). *)
From Verif Require Import Base.Prelude Base.Utf8 Model.Offsets Model.Entry Proofs.Utf8Proofs.
From Coq Require Import ZifyBool.
Ltac Zify.zify_post_hook ::= Z.div_mod_to_equations.

(* ---------- small list facts ---------- *)

Lemma enb_skipn_skipn {A} (l : list A) a b : skipn a (skipn b l) = skipn (b + a) l.
Proof. symmetry. apply skipn_add. Qed.

Lemma enb_zlen_skipn {A} (l : list A) k : (k <= length l)%nat -> zlen (skipn k l) = zlen l - Z.of_nat k.
Proof. intros H. unfold zlen. rewrite skipn_length. lia. Qed.

Lemma enb_zlen_nonneg {A} (l : list A) : 0 <= zlen l.
Proof. unfold zlen. lia. Qed.

Lemma enb_zlen_app {A} (a b : list A) : zlen (a ++ b) = zlen a + zlen b.
Proof. unfold zlen. rewrite app_length. lia. Qed.

Lemma enb_from_nat s k : en_from s (Z.of_nat k) = skipn k s.
Proof. unfold en_from. rewrite Nat2Z.id. reflexivity. Qed.

Lemma enb_upto_nat s k : en_upto s (Z.of_nat k) = firstn k s.
Proof. unfold en_upto. rewrite Nat2Z.id. reflexivity. Qed.

Lemma enb_at_nat s k : en_at s (Z.of_nat k) = nth k s 0.
Proof. unfold en_at. rewrite Nat2Z.id. reflexivity. Qed.

Lemma enb_skipn_nth {A} (l : list A) : forall k x, nth_error l k = Some x -> skipn k l = x :: skipn (S k) l.
Proof.
  induction l as [|y l IH]; intros [|k] x H; try discriminate H.
  - injection H as ->. reflexivity.
  - cbn [nth_error] in H. change (skipn (S k) (y :: l)) with (skipn k l). rewrite (IH k x H). reflexivity.
Qed.

(* ---------- HasPrefix / Index ---------- *)

Lemma enb_has_prefix_iff s p : en_has_prefix s p = true <-> exists rest, s = p ++ rest.
Proof.
  revert s. induction p as [|x p IH]; intros s.
  - destruct s; cbn; split; eauto.
  - destruct s as [|y s]; cbn [en_has_prefix].
    + split; [discriminate|]. intros [rest H]. discriminate H.
    + rewrite andb_true_iff, IH. split.
      * intros [Hxy [rest ->]]. exists rest. cbn. f_equal. lia.
      * intros [rest H]. cbn in H. injection H as -> ->. split; [lia|eauto].
Qed.

Lemma enb_has_prefix_app s p : en_has_prefix (p ++ s) p = true.
Proof. apply enb_has_prefix_iff. eauto. Qed.

Lemma enb_has_prefix_app_same a s p : en_has_prefix (a ++ s) (a ++ p) = en_has_prefix s p.
Proof.
  induction a as [|x a IH]; [reflexivity|]. cbn [app en_has_prefix]. rewrite Z.eqb_refl. exact IH.
Qed.

Lemma enb_has_prefix_nil p : en_has_prefix [] p = true -> p = [].
Proof. destruct p; [reflexivity|discriminate]. Qed.

Lemma enb_has_prefix_length s p : en_has_prefix s p = true -> (length p <= length s)%nat.
Proof. intros H. apply enb_has_prefix_iff in H. destruct H as [rest ->]. rewrite app_length. lia. Qed.

(* occurrence of sub at byte offset k of s *)
Definition enb_occ (s sub : list Z) (k : nat) : Prop := en_has_prefix (skipn k s) sub = true.

(* the search functions are only ever called with a non-negative running index *)
Lemma enb_index_from_spec sub : forall s i, 0 <= i ->
  (en_index_from s sub i = -1 /\ forall k, ~ enb_occ s sub k) \/
  (exists k, en_index_from s sub i = i + Z.of_nat k /\ (k <= length s)%nat /\ enb_occ s sub k /\
             forall k', (k' < k)%nat -> ~ enb_occ s sub k').
Proof.
  induction s as [|b t IH]; intros i Hi.
  - cbn [en_index_from]. destruct (en_has_prefix [] sub) eqn:E.
    + right. exists 0%nat. unfold enb_occ. cbn [skipn length]. repeat split; try lia. exact E.
    + left. split; [reflexivity|]. intros k. unfold enb_occ. rewrite skipn_nil. congruence.
  - cbn [en_index_from]. destruct (en_has_prefix (b :: t) sub) eqn:E.
    + right. exists 0%nat. unfold enb_occ. cbn [skipn length]. repeat split; try lia. exact E.
    + destruct (IH (i + 1) ltac:(lia)) as [[H1 H2]|[k [H1 [H2 [H3 H4]]]]].
      * left. split; [exact H1|]. intros [|k]; unfold enb_occ; cbn [skipn]; [congruence|apply H2].
      * right. exists (S k). unfold enb_occ in *. cbn [skipn length]. repeat split; try lia; try exact H3.
        intros [|k'] Hk'; cbn [skipn]; [congruence|]. apply H4. lia.
Qed.

Lemma enb_index_spec s sub :
  (en_index s sub = -1 /\ forall k, ~ enb_occ s sub k) \/
  (exists k, en_index s sub = Z.of_nat k /\ (k <= length s)%nat /\ enb_occ s sub k /\
             forall k', (k' < k)%nat -> ~ enb_occ s sub k').
Proof. unfold en_index. destruct (enb_index_from_spec sub s 0 ltac:(lia)) as [H|[k H]]; [left; exact H|right; exists k; exact H]. Qed.

(* first byte satisfying a test: IndexByte and the range scan of the ASCII set scanner *)
Fixpoint enb_find_first (f : Z -> bool) (s : list Z) (i : Z) : Z :=
  match s with
  | [] => -1
  | b :: t => if f b then i else enb_find_first f t (i + 1)
  end.

Lemma enb_index_byte_from_find s c : forall i, en_index_byte_from s c i = enb_find_first (fun b => b =? c) s i.
Proof. induction s as [|b t IH]; intros i; cbn; [reflexivity|]. rewrite IH. reflexivity. Qed.

Lemma enb_index_in_range_find s first last : forall i,
  en_index_in_range s first last i = enb_find_first (fun b => (first <=? b) && (b <=? last)) s i.
Proof. induction s as [|b t IH]; intros i; cbn; [reflexivity|]. rewrite IH. reflexivity. Qed.

Lemma enb_find_first_spec f : forall s i, 0 <= i ->
  (enb_find_first f s i = -1 /\ forall k, (k < length s)%nat -> f (nth k s 0) = false) \/
  (exists k, enb_find_first f s i = i + Z.of_nat k /\ (k < length s)%nat /\ f (nth k s 0) = true /\
             forall k', (k' < k)%nat -> f (nth k' s 0) = false).
Proof.
  induction s as [|b t IH]; intros i Hi; cbn [enb_find_first].
  - left. split; [reflexivity|]. cbn. intros; lia.
  - destruct (f b) eqn:E.
    + right. exists 0%nat. cbn [nth length]. repeat split; try lia. exact E.
    + destruct (IH (i + 1) ltac:(lia)) as [[H1 H2]|[k [H1 [H2 [H3 H4]]]]].
      * left. split; [exact H1|]. intros [|k] Hk; cbn [nth]; [exact E|]. apply H2. cbn [length] in Hk. lia.
      * right. exists (S k). cbn [nth length]. repeat split; try lia; try exact H3.
        intros [|k'] Hk'; cbn [nth]; [exact E|]. apply H4. lia.
Qed.

(* ---------- rune boundaries ---------- *)

Lemma enb_boundary_len s : boundary s (length (decode s)) = length s.
Proof.
  pose proof (decode_total s) as H. unfold widths_of, zlen in H.
  unfold boundary. rewrite <- map_length with (f := snd), firstn_all.
  assert (G : forall d : list (Z * nat), zsum (map (fun p => Z.of_nat (snd p)) d) = Z.of_nat (nsum (map snd d))).
  { induction d as [|[r w] d IH]; [reflexivity|]. cbn [map zsum nsum fold_right snd].
    fold (zsum (map (fun p => Z.of_nat (snd p)) d)). fold (nsum (map snd d)). rewrite IH. lia. }
  rewrite G in H. lia.
Qed.

Lemma enb_boundary_ge s k : (length (decode s) <= k)%nat -> boundary s k = length s.
Proof.
  intros H. rewrite <- enb_boundary_len. unfold boundary.
  rewrite !firstn_all2; try (rewrite map_length; lia). reflexivity.
Qed.

(* one step: the k-th decoded pair (c, w) occupies bytes [boundary k, boundary k + w) *)
Lemma enb_boundary_step s k c w :
  nth_error (decode s) k = Some (c, w) ->
  boundary s (S k) = (boundary s k + w)%nat /\ (1 <= w <= 4)%nat /\
  decode_rune (skipn (boundary s k) s) = (c, w) /\ skipn (boundary s k) s <> [].
Proof.
  intros H.
  assert (Hd : decode (skipn (boundary s k) s) = (c, w) :: skipn (S k) (decode s)).
  { rewrite decode_skipn_boundary. apply enb_skipn_nth. exact H. }
  destruct (skipn (boundary s k) s) as [|b0 t] eqn:Es; [discriminate Hd|].
  rewrite decode_unfold in Hd.
  assert (Hr : decode_rune (b0 :: t) = (c, w)).
  { apply (f_equal (hd (0, 0%nat))) in Hd. cbn [hd] in Hd. exact Hd. }
  clear Hd.
  pose proof (decode_rune_width b0 t) as [Hw _]. rewrite Hr in Hw. cbn [snd] in Hw.
  repeat split; try lia; try exact Hr; try discriminate.
  replace (S k) with (k + 1)%nat by lia. rewrite boundary_add. f_equal.
  rewrite Es. rewrite boundary_S, boundary_0, Hr. cbn [snd]. lia.
Qed.

Lemma enb_boundary_S_lt s k : (k < length (decode s))%nat -> (boundary s k < boundary s (S k))%nat.
Proof.
  intros H. destruct (nth_error (decode s) k) as [[c w]|] eqn:E.
  - destruct (enb_boundary_step s k c w E) as [H1 [H2 _]]. lia.
  - apply nth_error_None in E. lia.
Qed.

(* bytes between two boundaries are at least as many as the runes *)
Lemma enb_boundary_gap s : forall j k, (k + j <= length (decode s))%nat -> (boundary s k + j <= boundary s (k + j))%nat.
Proof.
  induction j as [|j IH]; intros k H; [rewrite !Nat.add_0_r; lia|].
  assert (H1 : (k + j < length (decode s))%nat) by lia.
  assert (H2 : (k + j <= length (decode s))%nat) by lia.
  pose proof (enb_boundary_S_lt s (k + j) H1) as H3. pose proof (IH k H2) as H4.
  replace (k + S j)%nat with (S (k + j)) by lia. lia.
Qed.

Lemma enb_boundary_mono s k k' : (k <= k')%nat -> (boundary s k <= boundary s k')%nat.
Proof.
  intros H. destruct (Nat.le_gt_cases k' (length (decode s))) as [L|L].
  - pose proof (enb_boundary_gap s (k' - k) k ltac:(lia)). replace (k + (k' - k))%nat with k' in * by lia. lia.
  - rewrite (enb_boundary_ge s k') by lia. apply boundary_le.
Qed.

Lemma enb_boundary_lt s k k' : (k < k')%nat -> (k' <= length (decode s))%nat -> (boundary s k < boundary s k')%nat.
Proof.
  intros H L. pose proof (enb_boundary_gap s (k' - k) k ltac:(lia)).
  replace (k + (k' - k))%nat with k' in * by lia. lia.
Qed.

Lemma enb_boundary_inj_le s k k' :
  (k <= length (decode s))%nat -> (k' <= length (decode s))%nat ->
  (boundary s k <= boundary s k')%nat -> (k <= k')%nat.
Proof.
  intros L L' H. destruct (Nat.le_gt_cases k k') as [|G]; [assumption|].
  pose proof (enb_boundary_lt s k' k G L). lia.
Qed.

(* remaining bytes >= remaining runes *)
Lemma enb_bytes_ge_runes s k : (k <= length (decode s))%nat ->
  (length (decode s) - k <= length s - boundary s k)%nat.
Proof.
  intros H. pose proof (enb_boundary_gap s (length (decode s) - k) k ltac:(lia)) as G.
  replace (k + (length (decode s) - k))%nat with (length (decode s)) in G by lia.
  rewrite enb_boundary_len in G. lia.
Qed.

(* boundaries of a suffix that starts at a boundary *)
Lemma enb_boundary_suffix s k j :
  boundary (skipn (boundary s k) s) j = (boundary s (k + j) - boundary s k)%nat.
Proof. rewrite boundary_add. lia. Qed.

Lemma enb_runes_skipn s k : runes_of (skipn (boundary s k) s) = skipn k (runes_of s).
Proof. unfold runes_of. rewrite decode_skipn_boundary, skipn_map. reflexivity. Qed.

Lemma enb_runes_length s : length (runes_of s) = length (decode s).
Proof. unfold runes_of. apply map_length. Qed.

Lemma enb_rune_nth s k c : nth_error (runes_of s) k = Some c <-> exists w, nth_error (decode s) k = Some (c, w).
Proof.
  unfold runes_of. rewrite nth_error_map. destruct (nth_error (decode s) k) as [[c' w']|]; cbn; split.
  - intros H. injection H as ->. eauto.
  - intros [w H]. injection H as -> _. reflexivity.
  - discriminate.
  - intros [w H]. discriminate.
Qed.

(* ---------- the range loop ---------- *)

Definition enb_off (d : list (Z * nat)) (k : nat) : nat := nsum (firstn k (map snd d)).

Lemma enb_off_boundary s k : enb_off (decode s) k = boundary s k.
Proof. reflexivity. Qed.

Lemma enb_off_S c w d k : enb_off ((c, w) :: d) (S k) = (w + enb_off d k)%nat.
Proof. reflexivity. Qed.

Definition enb_widths_pos (d : list (Z * nat)) : Prop := Forall (fun p => (1 <= snd p)%nat) d.

Lemma enb_decode_widths_pos s : enb_widths_pos (decode s).
Proof.
  unfold enb_widths_pos. pose proof (decode_widths_range s) as H. unfold widths_of in H.
  rewrite Forall_map in H. eapply Forall_impl; [|exact H]. cbn. intros a Ha. lia.
Qed.

Lemma enb_range_find_spec f : forall d a,
  (en_range_find f (range_items a d) = -1 /\ forall k c w, nth_error d k = Some (c, w) -> f c = false) \/
  (exists k c w, nth_error d k = Some (c, w) /\ f c = true /\
     en_range_find f (range_items a d) = a + Z.of_nat (enb_off d k) /\
     forall k' c' w', (k' < k)%nat -> nth_error d k' = Some (c', w') -> f c' = false).
Proof.
  induction d as [|[c0 w0] d IH]; intros a.
  - left. split; [reflexivity|]. intros [|k] c w H; discriminate H.
  - cbn [range_items en_range_find]. destruct (f c0) eqn:E.
    + right. exists 0%nat, c0, w0. cbn [nth_error]. repeat split; try assumption.
      * unfold enb_off. cbn. lia.
      * intros k' c' w' Hk. lia.
    + destruct (IH (a + Z.of_nat w0)) as [[H1 H2]|(k & c & w & H1 & H2 & H3 & H4)].
      * left. split; [exact H1|]. intros [|k] c w H; cbn [nth_error] in H.
        -- injection H as -> _. exact E.
        -- eapply H2. exact H.
      * right. exists (S k), c, w. cbn [nth_error]. repeat split; try assumption.
        -- rewrite H3, enb_off_S. lia.
        -- intros [|k'] c' w' Hk H; cbn [nth_error] in H.
           ++ injection H as -> _. exact E.
           ++ eapply H4; [|exact H]. lia.
Qed.

Lemma enb_boundary_scan_iff : forall d a index, enb_widths_pos d ->
  (en_boundary_scan (range_items a d) index = true <->
   exists k, (k < length d)%nat /\ index = a + Z.of_nat (enb_off d k)).
Proof.
  induction d as [|[c0 w0] d IH]; intros a index Hw.
  - cbn. split; [discriminate|]. intros [k [H _]]. lia.
  - inversion Hw as [|? ? Hw0 Hw']; subst. cbn [snd] in Hw0.
    cbn [range_items en_boundary_scan length].
    destruct (a =? index) eqn:E1.
    + split; [|reflexivity]. intros _. exists 0%nat. unfold enb_off. cbn. lia.
    + destruct (index <? a) eqn:E2.
      * split; [discriminate|]. intros [k [_ H]]. lia.
      * rewrite (IH (a + Z.of_nat w0) index Hw'). split.
        -- intros [k [H1 H2]]. exists (S k). rewrite enb_off_S. split; lia.
        -- intros [[|k] [H1 H2]].
           ++ unfold enb_off in H2. cbn in H2. lia.
           ++ exists k. rewrite enb_off_S in H2. split; lia.
Qed.

(* isStringRuneBoundary answers true exactly at the byte offsets of runes and at the end *)
Lemma enb_is_boundary_iff s i :
  en_is_boundary s i = true <-> exists k, (k <= length (decode s))%nat /\ i = Z.of_nat (boundary s k).
Proof.
  unfold en_is_boundary.
  destruct ((i =? 0) || (i =? zlen s)) eqn:E0.
  - split; [|reflexivity]. intros _. apply orb_true_iff in E0. destruct E0 as [E|E].
    + exists 0%nat. rewrite boundary_0. split; lia.
    + exists (length (decode s)). rewrite enb_boundary_len. unfold zlen in E. split; lia.
  - apply orb_false_iff in E0. destruct E0 as [E1 E2].
    destruct ((i <? 0) || (zlen s <? i)) eqn:E3.
    + split; [discriminate|]. intros [k [Hk ->]]. pose proof (boundary_le s k). unfold zlen in E3. lia.
    + unfold go_range. rewrite (enb_boundary_scan_iff (decode s) 0 i (enb_decode_widths_pos s)). split.
      * intros [k [H1 H2]]. exists k. rewrite enb_off_boundary in H2. split; lia.
      * intros [k [H1 H2]]. exists k. rewrite enb_off_boundary. split; [|lia].
        destruct (Nat.eq_dec k (length (decode s))) as [->|]; [|lia].
        rewrite enb_boundary_len in H2. unfold zlen in E2. lia.
Qed.

Lemma enb_is_boundary_at s k : en_is_boundary s (Z.of_nat (boundary s k)) = true.
Proof.
  apply enb_is_boundary_iff. destruct (Nat.le_gt_cases k (length (decode s))) as [L|L].
  - exists k. split; [exact L|reflexivity].
  - exists (length (decode s)). split; [lia|]. rewrite enb_boundary_ge by lia. rewrite enb_boundary_len. reflexivity.
Qed.

(* the loop shared by getRunesAndStart and decodeStringWithStart *)
Definition enb_ri_step (startAt : Z) (st : Z * Z) (it : Z * Z) : Z * Z :=
  let '(n, idx) := st in (n + 1, if fst it =? startAt then n else idx).

Lemma enb_ri_fold_miss startAt : forall d a n0 idx0,
  (forall k, (k < length d)%nat -> startAt <> a + Z.of_nat (enb_off d k)) ->
  fold_left (enb_ri_step startAt) (range_items a d) (n0, idx0) = (n0 + Z.of_nat (length d), idx0).
Proof.
  induction d as [|[c0 w0] d IH]; intros a n0 idx0 H.
  - cbn. f_equal. lia.
  - cbn [range_items fold_left enb_ri_step fst length].
    assert (E : (a =? startAt) = false).
    { specialize (H 0%nat ltac:(cbn; lia)). unfold enb_off in H. cbn in H. lia. }
    rewrite E. rewrite IH.
    + f_equal. lia.
    + intros k Hk. specialize (H (S k) ltac:(cbn; lia)). rewrite enb_off_S in H. lia.
Qed.

Lemma enb_ri_fold_hit startAt : forall d a n0 idx0 k, enb_widths_pos d ->
  (k < length d)%nat -> startAt = a + Z.of_nat (enb_off d k) ->
  fold_left (enb_ri_step startAt) (range_items a d) (n0, idx0) = (n0 + Z.of_nat (length d), n0 + Z.of_nat k).
Proof.
  induction d as [|[c0 w0] d IH]; intros a n0 idx0 k Hw Hk H; [cbn in Hk; lia|].
  apply Forall_cons_iff in Hw. destruct Hw as [Hw0 Hw']. cbn [snd] in Hw0.
  cbn [range_items fold_left enb_ri_step fst length].
  destruct k as [|k].
  - assert (E : (a =? startAt) = true) by (unfold enb_off in H; cbn in H; lia). rewrite E.
    rewrite enb_ri_fold_miss.
    + f_equal; lia.
    + intros k Hk'. unfold enb_off in H; cbn in H. lia.
  - rewrite enb_off_S in H.
    assert (E : (a =? startAt) = false) by lia. rewrite E.
    rewrite (IH (a + Z.of_nat w0) (n0 + 1) idx0 k Hw').
    + f_equal; lia.
    + cbn [length] in Hk. lia.
    + lia.
Qed.

Lemma enb_runes_and_index_eq s startAt :
  en_runes_and_index s startAt =
  (let '(n, idx) := fold_left (enb_ri_step startAt) (go_range s) (0, -1) in
   (runes_of s, if startAt =? zlen s then n else idx)).
Proof. reflexivity. Qed.

Lemma enb_runes_and_index_boundary s k : (k <= length (decode s))%nat ->
  en_runes_and_index s (Z.of_nat (boundary s k)) = (runes_of s, Z.of_nat k).
Proof.
  intros Hk. rewrite enb_runes_and_index_eq. unfold go_range.
  destruct (Nat.eq_dec k (length (decode s))) as [->|Hne].
  - rewrite enb_boundary_len. rewrite enb_ri_fold_miss.
    + unfold zlen. rewrite Z.eqb_refl. f_equal.
    + intros k Hk'. rewrite enb_off_boundary.
      pose proof (enb_boundary_lt s k (length (decode s)) Hk' (Nat.le_refl _)) as H.
      rewrite enb_boundary_len in H. lia.
  - rewrite (enb_ri_fold_hit _ (decode s) 0 0 (-1) k (enb_decode_widths_pos s)); [|lia|rewrite enb_off_boundary; lia].
    assert (H : (boundary s k < length s)%nat).
    { pose proof (enb_boundary_lt s k (length (decode s)) ltac:(lia) (Nat.le_refl _)) as H.
      rewrite enb_boundary_len in H. exact H. }
    unfold zlen. replace (Z.of_nat (boundary s k) =? Z.of_nat (length s)) with false by lia.
    f_equal.
Qed.

Lemma enb_runes_and_index_off s i : en_is_boundary s i = false ->
  en_runes_and_index s i = (runes_of s, -1).
Proof.
  intros H. rewrite enb_runes_and_index_eq. unfold go_range.
  assert (Hnb : forall k, (k <= length (decode s))%nat -> i <> Z.of_nat (boundary s k)).
  { intros k Hk ->. rewrite enb_is_boundary_at in H. discriminate H. }
  rewrite enb_ri_fold_miss.
  - assert (E : (i =? zlen s) = false).
    { specialize (Hnb (length (decode s)) (Nat.le_refl _)). rewrite enb_boundary_len in Hnb. unfold zlen. lia. }
    rewrite E. reflexivity.
  - intros k Hk. rewrite enb_off_boundary. specialize (Hnb k ltac:(lia)). lia.
Qed.

(* ---------- runes and their bytes ---------- *)

Lemma enb_decoded_valid s k c w : nth_error (decode s) k = Some (c, w) -> valid_rune c = true.
Proof.
  intros H. pose proof (decode_elements s) as F. rewrite Forall_forall in F.
  specialize (F (c, w) (nth_error_In _ _ H)). cbn [fst snd] in F.
  destruct F as [F|[F _]]; [|exact F]. injection F as -> _. reflexivity.
Qed.

(* self-synchronisation, decoder side: a decoded rune other than U+FFFD stands in the string as its encoding *)
Lemma enb_rune_bytes s k c w :
  nth_error (decode s) k = Some (c, w) -> c <> rune_error ->
  valid_rune c = true /\ Z.of_nat w = rune_len c /\
  skipn (boundary s k) s = encode c ++ skipn (boundary s (S k)) s.
Proof.
  intros H Hc. destruct (enb_boundary_step s k c w H) as (HS & Hw & Hr & Hne).
  destruct (skipn (boundary s k) s) as [|b0 t] eqn:Es; [congruence|].
  destruct (decode_rune_cases b0 t) as [C|C].
  - rewrite Hr in C. injection C as -> _. congruence.
  - rewrite Hr in C. destruct C as (Hv & Hl & Hf). repeat split; try assumption.
    rewrite <- (firstn_skipn w (b0 :: t)) at 1. rewrite Hf. f_equal.
    rewrite <- Es, enb_skipn_skipn, HS. reflexivity.
Qed.

Definition enb_good (c : Z) : Prop := valid_rune c = true /\ c <> rune_error.

(* encoder side: the encodings of valid runes are prefix-free *)
Lemma enb_encode_inj x p a b :
  valid_rune x = true -> valid_rune p = true -> encode x ++ a = encode p ++ b -> x = p /\ a = b.
Proof.
  intros Hx Hp H. pose proof (decode_rune_encode x a Hx) as D1. pose proof (decode_rune_encode p b Hp) as D2.
  rewrite H in D1. rewrite D1 in D2. injection D2 as -> _. split; [reflexivity|].
  eapply app_inv_head. exact H.
Qed.

Lemma enb_encode_nonempty c : encode c <> [].
Proof.
  pose proof (encode_length c) as H. pose proof (encode_len_range c) as R.
  intros E. rewrite E in H. unfold zlen in H. cbn in H. lia.
Qed.

(* step 1: if the re-encoded runes start with the encoding of good runes ps, the runes start with ps *)
Lemma enb_runes_of_encoded_prefix : forall ps rs rest,
  Forall enb_good ps -> Forall (fun x => valid_rune x = true) rs ->
  encode_string rs = encode_string ps ++ rest -> firstn (length ps) rs = ps.
Proof.
  induction ps as [|p ps IH]; intros rs rest Hps Hrs H; [reflexivity|].
  inversion Hps as [|? ? [Hpv Hpe] Hps']; subst.
  destruct rs as [|x rs].
  - exfalso. unfold encode_string in H. cbn [flat_map] in H.
    destruct (encode p) eqn:E; [exact (enb_encode_nonempty p E)|discriminate H].
  - inversion Hrs as [|? ? Hxv Hrs']; subst.
    unfold encode_string in H. cbn [flat_map] in H. rewrite <- app_assoc in H.
    destruct (enb_encode_inj x p _ _ Hxv Hpv H) as [-> H'].
    cbn [length firstn]. f_equal. eapply IH; eauto.
Qed.

Lemma enb_runes_valid s : Forall (fun x => valid_rune x = true) (runes_of s).
Proof.
  apply Forall_forall. intros x Hin. apply In_nth_error in Hin. destruct Hin as [k Hk].
  apply enb_rune_nth in Hk. destruct Hk as [w Hk]. eapply enb_decoded_valid. exact Hk.
Qed.

(* step 2: good runes at rune position k stand as their encoding at byte position boundary k *)
Lemma enb_bytes_of_rune_prefix : forall ps s k,
  Forall enb_good ps -> firstn (length ps) (skipn k (runes_of s)) = ps ->
  en_has_prefix (skipn (boundary s k) s) (encode_string ps) = true.
Proof.
  induction ps as [|p ps IH]; intros s k Hps H.
  - destruct (skipn (boundary s k) s); reflexivity.
  - inversion Hps as [|? ? [Hpv Hpe] Hps']; subst.
    cbn [length firstn] in H.
    destruct (skipn k (runes_of s)) as [|x rs] eqn:Er; [discriminate H|].
    injection H as -> Hrest.
    assert (Hn : nth_error (runes_of s) k = Some p).
    { rewrite <- (firstn_skipn k (runes_of s)), Er.
      assert (Hl : length (firstn k (runes_of s)) = k).
      { apply firstn_length_le. destruct (Nat.le_gt_cases k (length (runes_of s))) as [|G]; [assumption|].
        rewrite skipn_all2 in Er by lia. discriminate Er. }
      rewrite nth_error_app2 by lia. rewrite Hl, Nat.sub_diag. reflexivity. }
    apply enb_rune_nth in Hn. destruct Hn as [w Hn].
    destruct (enb_rune_bytes s k p w Hn Hpe) as (_ & _ & Hb).
    rewrite Hb. unfold encode_string. cbn [flat_map]. rewrite enb_has_prefix_app_same.
    apply IH; [exact Hps'|].
    replace (skipn (S k) (runes_of s)) with rs; [exact Hrest|].
    replace (S k) with (k + 1)%nat by lia. rewrite skipn_add, Er. reflexivity.
Qed.

(* a byte string in which no rune decodes to U+FFFD is the encoding of good runes *)
Definition enb_no_fffd (p : list Z) : Prop := en_contains_rune p rune_error = false.

Lemma enb_no_fffd_good p : enb_no_fffd p -> p = encode_string (runes_of p) /\ Forall enb_good (runes_of p).
Proof.
  unfold enb_no_fffd, en_contains_rune, en_index_rune. intros H.
  replace ((0 <=? rune_error) && (rune_error <? 128)) with false in H by reflexivity.
  rewrite Z.eqb_refl in H. unfold go_range in H.
  destruct (enb_range_find_spec (fun c => c =? rune_error) (decode p) 0) as [[H1 H2]|(k & c & w & H1 & H2 & H3 & H4)].
  - assert (G : Forall enb_good (runes_of p)).
    { apply Forall_forall. intros x Hin. apply In_nth_error in Hin. destruct Hin as [k Hk].
      apply enb_rune_nth in Hk. destruct Hk as [w Hk]. split; [eapply enb_decoded_valid; exact Hk|].
      specialize (H2 k x w Hk). cbn in H2. lia. }
    split; [|exact G]. symmetry. apply encode_decode. unfold valid_utf8. apply forallb_forall.
    intros [c w] Hin. pose proof (decode_elements p) as F. rewrite Forall_forall in F.
    specialize (F (c, w) Hin). unfold valid_pair. cbn [fst snd] in *.
    destruct F as [F|[_ F]]; [|lia].
    injection F as -> ->. exfalso. apply In_nth_error in Hin. destruct Hin as [k Hk].
    specialize (H2 k _ _ Hk). cbn in H2. discriminate H2.
  - rewrite H3 in H. lia.
Qed.
