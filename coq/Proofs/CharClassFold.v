(* IgnoreCase on the finite generated domain of Model/FoldD.v: closed statements, checked by
   vm_compute over the table (SimpleFold / ToLower of the Go toolchain on U+0000-U+024F, the plain
   upper/lower pairs of ASCII, Latin-1, Greek and Cyrillic, and their closure). *)
From Coq Require Import FMapPositive.
From Verif Require Import Base.Prelude Model.CharClass Model.FoldD Proofs.CharClassRanges.

Definition tkey (r : Z) : positive := Z.to_pos (r + 2).
Definition fold_map : PositiveMap.t (Z * Z) :=
  fold_left (fun m p => PositiveMap.add (tkey (fst p)) (snd p) m) fold_tbl (PositiveMap.empty (Z * Z)).

(* the table as functions; outside the table: no case (identity) *)
Definition fold_t (x : Z) : Z :=
  if x <? 0 then x else match PositiveMap.find (tkey x) fold_map with Some p => fst p | None => x end.
Definition lower_t (x : Z) : Z :=
  if x <? 0 then x else match PositiveMap.find (tkey x) fold_map with Some p => snd p | None => x end.

Definition dom_t : list Z := map fst fold_tbl.
Definition ascii_dom : list Z := map Z.of_nat (seq 0 128).

Definition no_cat (_ _ : Z) : bool := false.
Definition orbit_fuel : nat := 8.

(* the class IgnoreCase builds from the single range [a, b]: addLowercase, then addCaseEquivalences *)
Definition ci_class (a b : Z) : res cls :=
  add_case_equivalences no_cat fold_t orbit_fuel (add_lowercase no_cat lower_t (ranges_cls [(a, b)])).

(* ch is in the result iff some member of its SimpleFold orbit is in [a, b]; and the result is
   closed under SimpleFold.  Checked for every ch of [dom]. *)
Definition ci_range_ok_on (dom : list Z) (a b : Z) : bool :=
  match ci_class a b with
  | Ok c =>
    forallb (fun ch =>
               Bool.eqb (mem (ranges c) ch) (existsb (fun x => in_range (a, b) x) (orbit fold_t orbit_fuel ch)) &&
               implb (mem (ranges c) ch) (mem (ranges c) (fold_t ch))) dom &&
    negb (neg c) && match cats c with [] => true | _ => false end
  | _ => false
  end.
Definition ci_range_ok := ci_range_ok_on dom_t.

(* every single member of the table, except U+0130 (see dotted_I_lost) *)
Lemma ci_singles_ok : forallb (fun x => (x =? 304) || ci_range_ok x x) dom_t = true.
Proof. vm_compute. reflexivity. Qed.

(* (?i)[\u0130]: addLowercase REPLACES a single member by unicode.ToLower of it (U+0130 -> 'i'), and
   U+0130 has no SimpleFold partner, so the class no longer contains its own member.
   Outside the domain of C16 (U+0130 is not a plain upper/lower pair); reported as an observation. *)
Lemma dotted_I_lost :
  exists c, ci_class 304 304 = Ok c /\ mem (ranges c) 304 = false /\ mem (ranges c) 105 = true.
Proof. eexists. split; [vm_compute; reflexivity|]. split; vm_compute; reflexivity. Qed.

(* ASCII ranges.  The runes of the table whose orbit meets ASCII (ASCII itself, U+017F, U+212A) are
   checked one by one; for the rest of the table it is enough that the class built from an ASCII
   range stays inside that small set. *)
Definition ascii_related (ch : Z) : bool := existsb (fun x => x <? 128) (orbit fold_t orbit_fuel ch).
Definition small_dom : list Z := filter ascii_related dom_t.

Definition stays_small (c : cls) : bool :=
  forallb (fun r => (snd r <? 128) || ((fst r =? snd r) && zmem (fst r) small_dom)) (ranges c).

Definition ci_ascii_ok (a b : Z) : bool :=
  ci_range_ok_on small_dom a b && match ci_class a b with Ok c => stays_small c | _ => false end.

Lemma ci_ascii_ranges_ok :
  forallb (fun a => forallb (fun b => (b <? a) || ci_ascii_ok a b) ascii_dom) ascii_dom = true.
Proof. vm_compute. reflexivity. Qed.

(* the table is closed under both functions and every orbit in it is a cycle of at most 4 runes *)
Definition table_closed_ok : bool :=
  forallb (fun x => zmem (fold_t x) dom_t && zmem (lower_t x) dom_t &&
                    match case_equivalences fold_t orbit_fuel x with
                    | Ok l => (length l <=? 3)%nat && forallb (fun y => zmem x (orbit fold_t orbit_fuel y)) l
                    | _ => false
                    end) dom_t.
Lemma table_closed : table_closed_ok = true.
Proof. vm_compute. reflexivity. Qed.

(* every member of pair_dom is in the table, its orbit has exactly two members and ToLower picks one of them *)
Definition pair_dom_ok : bool :=
  forallb (fun x => zmem x dom_t &&
                    match case_equivalences fold_t orbit_fuel x with
                    | Ok [y] => negb (y =? x) && ((lower_t x =? x) || (lower_t x =? y)) && (lower_t y =? lower_t x)
                    | _ => false
                    end) pair_dom.
Lemma pair_dom_pairs : pair_dom_ok = true.
Proof. vm_compute. reflexivity. Qed.

Lemma in_ascii_dom x : 0 <= x < 128 -> In x ascii_dom.
Proof.
  intros H. unfold ascii_dom. apply in_map_iff. exists (Z.to_nat x). split; [lia|].
  apply in_seq. lia.
Qed.


(* outside the table fold_t is the identity *)
Lemma fold_t_outside x : ~ In x dom_t -> fold_t x = x.
Proof.
  intros Hn. unfold fold_t. destruct (x <? 0) eqn:E; [reflexivity|].
  destruct (PositiveMap.find (tkey x) fold_map) as [p|] eqn:Ef; [|reflexivity]. exfalso. apply Hn.
  unfold fold_map, dom_t in *.
  assert (G : forall l m, PositiveMap.find (tkey x) (fold_left (fun m p => PositiveMap.add (tkey (fst p)) (snd p) m) l m) = Some p ->
                          PositiveMap.find (tkey x) m = Some p \/ In x (map fst l)).
  { induction l as [|[k v] l IH]; intros m H; [left; exact H|]. cbn [fold_left fst snd] in H.
    destruct (IH _ H) as [H1|H1]; [|right; right; exact H1].
    destruct (Pos.eq_dec (tkey x) (tkey k)) as [Ek|Ek].
    - right. left. cbn [fst]. unfold tkey in Ek.
      destruct (k <? -1) eqn:E2.
      + (* keys below -1 collapse to key 1, which a non-negative rune never has *)
        assert (Z.to_pos (k + 2) = 1%positive) by (destruct (k + 2) eqn:E3; try reflexivity; lia).
        assert (Z.pos (Z.to_pos (x + 2)) = x + 2) by (apply Z2Pos.id; lia). lia.
      + assert (Z.pos (Z.to_pos (x + 2)) = x + 2) by (apply Z2Pos.id; lia).
        assert (Z.pos (Z.to_pos (k + 2)) = k + 2) by (apply Z2Pos.id; lia). lia.
    - left. rewrite PositiveMap.gso in H1 by exact Ek. exact H1. }
  destruct (G _ _ Ef) as [H|H]; [rewrite PositiveMap.gempty in H; discriminate|exact H].
Qed.

