(* The tree the parser builds for \A Escape(s) \z (Proofs/ParseLitProofs.v: anchored_body), read by
   the reference semantics of Model/Spec.v, matches a text exactly when the text is s. *)
From Verif Require Import Base.Prelude Model.Tree Model.Spec Gen.ParseLitGen Model.ParseLit Proofs.ParseLitProofs.
From Coq Require Import ZifyBool.

(* the fragment's trees as Model/Tree.v nodes (the same reading as Tree.build of the exported tree) *)
Definition node_of_pnode (n : pnode) : node :=
  match n with
  | PnOne o c => NChar COne o c
  | PnMulti o s => NMulti o s
  | PnSet o id => NChar CSet o id
  | PnSetLoop o id k => NCharLoop CSet LGreedy o id k k
  | PnType t _ => match anchor_of_code t with Some a => NAnchor a | None => NNothing end
  | PnRef o g => NRef o g
  end.
Definition node_of_pbody (b : pbody) : node :=
  match b with
  | BEmpty _ => NEmpty
  | BSingle n => node_of_pnode n
  | BConcat o l => NConcat o (map node_of_pnode l)
  end.
Definition node_of_ptree (t : ptree) : node :=
  match t with PRoot o b => NCapture o 0 (-1) (node_of_pbody b) end.

(* ---- option bits ---- *)
Lemma clear_I_not_ci o : is_ci (clear_I o) = false.
Proof.
  unfold is_ci, has_bit, clear_I, OPT_CI, PL_IgnoreCase.
  apply negb_false_iff. apply Z.eqb_eq.
  apply Z.bits_inj'. intros n Hn. rewrite Z.land_spec, Z.ldiff_spec, Z.bits_0.
  destruct (Z.testbit o n), (Z.testbit 1 n); reflexivity.
Qed.

Lemma clear_I_not_rtl o : useRTL o = false -> is_rtl (clear_I o) = false.
Proof.
  unfold useRTL, pl_bit, is_rtl, has_bit, clear_I, OPT_RTL, PL_RightToLeft, PL_IgnoreCase.
  intros H. apply negb_false_iff in H. apply Z.eqb_eq in H.
  apply negb_false_iff. apply Z.eqb_eq.
  apply Z.bits_inj'. intros n Hn. rewrite Z.land_spec, Z.ldiff_spec, Z.bits_0.
  assert (Hb : Z.testbit (Z.land o 64) n = false) by (rewrite H; apply Z.bits_0).
  rewrite Z.land_spec in Hb.
  destruct (Z.testbit o n), (Z.testbit 64 n), (Z.testbit 1 n); cbn in *; congruence.
Qed.

(* ---- text facts ---- *)
Lemma nth_hd_skipn {A} (d : A) : forall n l, nth n l d = hd d (skipn n l).
Proof. induction n as [|n IH]; intros [|a l]; cbn; auto. Qed.

Lemma skipn_succ {A} : forall n (l : list A) a t, skipn n l = a :: t -> skipn (S n) l = t.
Proof.
  induction n as [|n IH]; intros l a t H.
  - cbn in H. subst. reflexivity.
  - destruct l as [|b l]; [discriminate|]. cbn [skipn] in *. exact (IH l a t H).
Qed.

Section Sem.
Variable e : env.

(* the literal s sits in the text at position p *)
Lemma str_match_prefix : forall s p t, 0 <= p -> skipn (Z.to_nat p) (txt e) = t ->
  (str_match_at e false s p = true /\ (length s <= length t)%nat) <-> exists t', t = s ++ t'.
Proof.
  induction s as [|c s IH]; intros p t Hp Ht.
  - cbn. split; [intros _; exists t; reflexivity | intros _; split; [reflexivity | lia]].
  - cbn [str_match_at length app].
    assert (Hc : char_at e p = hd 0 t) by (unfold char_at; rewrite nth_hd_skipn, Ht; reflexivity).
    rewrite Hc. destruct t as [|a t1].
    + split; [intros [_ H]; cbn in H; lia | intros [t' H]; discriminate].
    + cbn [hd length].
      assert (Ht1 : skipn (Z.to_nat (p + 1)) (txt e) = t1).
      { replace (Z.to_nat (p + 1)) with (S (Z.to_nat p)) by lia. eapply skipn_succ. exact Ht. }
      specialize (IH (p + 1) t1 ltac:(lia) Ht1).
      split.
      * intros [H L]. apply andb_prop in H. destruct H as [H1 H2].
        assert (L' : (length s <= length t1)%nat) by lia.
        destruct (proj1 IH (conj H2 L')) as [t' E]. exists t'. assert (c = a) by lia. subst c. rewrite E. reflexivity.
      * intros [t' E]. inversion E as [[Ea Et]]. subst a.
        destruct (proj2 IH (ex_intro _ t' Et)) as [H2 L]. split. 2:{ rewrite <- Et. lia. }
        rewrite H2. rewrite Z.eqb_refl. reflexivity.
Qed.

(* ---- evaluation of the node kinds involved ---- *)
Lemma bindr_nil {A B} (g : A -> res (list B)) : bindr (Ok []) g = Ok [].
Proof. reflexivity. Qed.
Lemma bindr_single {A B} (a : A) (g : A -> res (list B)) : bindr (Ok [a]) g = g a.
Proof. cbn. destruct (g a); cbn; try reflexivity. rewrite app_nil_r. reflexivity. Qed.

Definition seqf (f : nat) : list node -> st -> res (list st) :=
  fix seq (l : list node) (s : st) : res (list st) :=
    match l with
    | [] => Ok [s]
    | x :: l' => bindr (sem e (S f) x s) (seq l')
    end.

Lemma sem_concat f o l s : sem e (S (S f)) (NConcat o l) s = seqf f l s.
Proof. reflexivity. Qed.
Lemma seqf_nil f s : seqf f [] s = Ok [s].
Proof. reflexivity. Qed.
Lemma seqf_cons f x l s : seqf f (x :: l) s = bindr (sem e (S f) x s) (seqf f l).
Proof. reflexivity. Qed.

Lemma sem_capture0 f o r s :
  sem e (S f) (NCapture o 0 (-1) r) s =
  bindr (sem e f r s) (fun s' => Ok [{| pos := pos s'; caps := cap_push 0 (span (pos s) (pos s')) (caps s') |}]).
Proof. reflexivity. Qed.

Lemma sem_anchor f a s : sem e (S f) (NAnchor a) s = Ok (if anchor_ok e a (pos s) then [s] else []).
Proof. reflexivity. Qed.

Variable o' : Z.
Hypothesis Hci : is_ci o' = false.
Hypothesis Hrtl : is_rtl o' = false.

Lemma sem_one f c s :
  sem e (S f) (NChar COne o' c) s =
  Ok (if (0 <? tlen e - pos s) && (char_at e (pos s) =? c) then [with_pos s (pos s + 1)] else []).
Proof. cbn [sem]. unfold avail, next_char, dir, char_test. rewrite Hrtl. reflexivity. Qed.

Lemma sem_multi_lit f str s :
  sem e (S f) (NMulti o' str) s =
  Ok (if tlen e - pos s <? zlen str then []
      else if str_match_at e false str (pos s) then [with_pos s (pos s + zlen str)] else []).
Proof.
  cbn [sem]. unfold sem_multi, avail, dir. rewrite Hrtl, Hci.
  replace (pos s + 1 * zlen str) with (pos s + zlen str) by lia. reflexivity.
Qed.

(* the literal s stands in the text at position p *)
Definition lit_here (s : list Z) (p : Z) : bool :=
  (zlen s <=? tlen e - p) && str_match_at e false s p.

(* the three node shapes of a literal all behave as "s is here" *)
Lemma seqf_lit f s l st : pos st <= tlen e ->
  seqf f (map node_of_pnode (lit_nodes o' s) ++ l) st =
  if lit_here s (pos st) then seqf f l (with_pos st (pos st + zlen s)) else Ok [].
Proof.
  intros Hp. unfold lit_here. destruct s as [|c [|c2 s2]].
  - cbn [lit_nodes map app zlen length Z.of_nat str_match_at]. rewrite andb_true_r.
    replace (0 <=? tlen e - pos st) with true by lia.
    destruct st as [p0 c0]. cbn [pos with_pos caps]. rewrite Z.add_0_r. reflexivity.
  - cbn [lit_nodes map app node_of_pnode]. rewrite seqf_cons, sem_one.
    change (zlen [c]) with 1. cbn [str_match_at]. rewrite andb_true_r.
    replace (1 <=? tlen e - pos st) with (0 <? tlen e - pos st) by lia.
    replace (c =? char_at e (pos st)) with (char_at e (pos st) =? c) by lia.
    destruct ((0 <? tlen e - pos st) && (char_at e (pos st) =? c)); [apply bindr_single | apply bindr_nil].
  - rewrite lit_nodes_long by (cbn [length]; lia).
    cbn [map app node_of_pnode]. rewrite seqf_cons, sem_multi_lit.
    replace (tlen e - pos st <? zlen (c :: c2 :: s2)) with (negb (zlen (c :: c2 :: s2) <=? tlen e - pos st)) by lia.
    destruct (zlen (c :: c2 :: s2) <=? tlen e - pos st); cbn [negb andb]; [|apply bindr_nil].
    destruct (str_match_at e false (c :: c2 :: s2) (pos st)); [apply bindr_single | apply bindr_nil].
Qed.

(* \A s \z under the root capture: one attempt *)
Theorem anchored_attempt f o s p : 0 <= p <= tlen e ->
  attempt e (S (S (S f))) (node_of_ptree (PRoot o (anchored_body o' s))) p =
  Ok (if (p =? 0) && lit_here s 0 && (tlen e <=? zlen s)
      then Some {| pos := zlen s; caps := cap_push 0 (span 0 (zlen s)) [] |}
      else None).
Proof.
  intros Hp. unfold attempt, node_of_ptree, anchored_body, node_of_pbody.
  rewrite sem_capture0, sem_concat. cbn [map node_of_pnode anchor_of_code NT_Beginning].
  change (anchor_of_code NT_Beginning) with (Some ABeginning). cbv iota.
  rewrite seqf_cons, sem_anchor. cbn [anchor_ok pos].
  destruct (p =? 0) eqn:E0.
  - assert (p = 0) by lia. subst p. change (0 <=? 0) with true. cbv iota. rewrite bindr_single.
    rewrite map_app. cbn [map node_of_pnode]. change (anchor_of_code NT_End) with (Some AEnd). cbv iota.
    rewrite seqf_lit by (cbn [pos]; lia). cbn [pos andb].
    destruct (lit_here s 0); cbn [andb]; [|reflexivity].
    rewrite seqf_cons, sem_anchor. cbn [anchor_ok pos with_pos]. rewrite Z.add_0_l.
    destruct (tlen e <=? zlen s); cbn [bindr bind bindl app]; reflexivity.
  - replace (p <=? 0) with false by lia. reflexivity.
Qed.

(* s is the whole text <-> the literal stands at 0 and the text ends right after it *)
Lemma lit_whole_text s : (lit_here s 0 && (tlen e <=? zlen s) = true) <-> txt e = s.
Proof.
  unfold lit_here, tlen, zlen.
  pose proof (str_match_prefix s 0 (txt e) ltac:(lia) eq_refl) as P.
  split.
  - intros H. apply andb_prop in H. destruct H as [H H3]. apply andb_prop in H. destruct H as [H1 H2].
    assert (L0 : (length s <= length (txt e))%nat) by lia.
    destruct (proj1 P (conj H2 L0)) as [t' E].
    assert (length t' = 0)%nat.
    { assert (L : length (txt e) = (length s + length t')%nat) by (rewrite E, app_length; reflexivity). lia. }
    destruct t'; [|discriminate]. rewrite app_nil_r in E. exact E.
  - intros E. assert (E' : txt e = s ++ []) by (rewrite app_nil_r; exact E).
    destruct (proj2 P (ex_intro _ [] E')) as [H2 L].
    rewrite H2, E. rewrite Z.sub_0_r. lia.
Qed.

(* the search from the start of the text finds a match iff the text is s *)
Theorem anchored_find f o s :
  let root := node_of_ptree (PRoot o (anchored_body o' s)) in
  (txt e = s ->
     find e (S (S (S f))) root false 0 (-1) =
     Ok (Some {| pos := zlen s; caps := cap_push 0 (span 0 (zlen s)) [] |})) /\
  (txt e <> s -> find e (S (S (S f))) root false 0 (-1) = Ok None).
Proof.
  intros root.
  assert (Hnone : forall n p, 1 <= p <= tlen e -> scan_from e (S (S (S f))) n root false p = Ok None).
  { induction n as [|n IH]; intros p Hp; [reflexivity|]. cbn [scan_from].
    unfold root. rewrite anchored_attempt by lia. replace (p =? 0) with false by lia. cbn [andb bind].
    destruct (tlen e <=? p) eqn:E; [reflexivity|]. apply IH. lia. }
  assert (Hlen : 0 <= tlen e) by (unfold tlen, zlen; lia).
  unfold find. cbn [andb]. change (-1 =? 0) with false. cbn [andb]. cbv iota.
  cbn [scan_from]. unfold root. rewrite anchored_attempt by lia. change (0 =? 0) with true. cbn [andb].
  split.
  - intros E. rewrite (proj2 (lit_whole_text s) E). reflexivity.
  - intros NE. destruct (lit_here s 0 && (tlen e <=? zlen s)) eqn:B.
    + exfalso. apply NE. apply lit_whole_text. exact B.
    + cbn [bind]. destruct (tlen e <=? 0) eqn:E0; [reflexivity|]. apply Hnone. lia.
Qed.

End Sem.
