(* C02 — witnesses for the theorems of Proofs/EntryProofs.v.

   A concrete engine: [enx_scan p] tries rune positions from the start onwards and reports the first
   position q with p r q = true (M = Z: the match is its index).  It satisfies both engine hypotheses
   for every p.  With p = "abc stands at q" it is the engine of the pattern abc; all hypotheses of
   the headline theorem hold and the prefilter really moves the start.

   Negative witnesses: each named hypothesis is needed.
   * no \G (enp_start_indep): the engine of (?=\G)abc, which matches only AT the start, satisfies the
     leading-prefix fact "abc"; with the prefix filter the string entry point finds a match in "xabc"
     that the rune entry point does not (the defect fixed by c3c8f21, stringprefixfilter.go:33-37).
   * no U+FFFD in a literal (enf_ok): the engine of \x{fffd} satisfies the fact "the text at q starts
     with EF BF BD (re-encoded)"; an Index search for those bytes misses the invalid byte 0xff that
     decodes to U+FFFD (the defect fixed by 6372b22, stringprefixfilter.go:38-42). *)
From Verif Require Import Base.Prelude Base.Utf8 Gen.CodeGen Model.Offsets Model.Entry
  Proofs.Utf8Proofs Proofs.EntryBase Proofs.EntryFilter Proofs.EntryProofs.
From Coq Require Import ZifyBool.
Ltac Zify.zify_post_hook ::= Z.div_mod_to_equations.

Fixpoint enx_scan_from (p : list Z -> nat -> bool) (r : list Z) (fuel q : nat) : option nat :=
  match fuel with
  | O => None
  | S f => if p r q then Some q else enx_scan_from p r f (S q)
  end.

Definition enx_scan (p : list Z -> nat -> bool) (r : list Z) (s : Z) : option Z :=
  option_map Z.of_nat (enx_scan_from p r (S (length r) - Z.to_nat s) (Z.to_nat s)).

Definition enx_index (m : Z) : Z := m.

Lemma enx_scan_from_some p r : forall fuel q x,
  enx_scan_from p r fuel q = Some x ->
  (q <= x < q + fuel)%nat /\ p r x = true /\ forall y, (q <= y < x)%nat -> p r y = false.
Proof.
  induction fuel as [|f IH]; intros q x H; [discriminate H|].
  cbn [enx_scan_from] in H. destruct (p r q) eqn:E.
  - injection H as <-. split; [lia|]. split; [exact E|]. intros y Hy. lia.
  - destruct (IH (S q) x H) as (H1 & H2 & H3). split; [lia|]. split; [exact H2|].
    intros y Hy. destruct (Nat.eq_dec y q) as [->|]; [exact E|]. apply H3. lia.
Qed.

Lemma enx_scan_from_none p r : forall fuel q,
  enx_scan_from p r fuel q = None -> forall y, (q <= y < q + fuel)%nat -> p r y = false.
Proof.
  induction fuel as [|f IH]; intros q H y Hy; [lia|].
  cbn [enx_scan_from] in H. destruct (p r q) eqn:E; [discriminate H|].
  destruct (Nat.eq_dec y q) as [->|]; [exact E|]. apply (IH (S q) H). lia.
Qed.

Lemma enx_scan_from_first p r : forall fuel q x,
  (q <= x < q + fuel)%nat -> p r x = true -> (forall y, (q <= y < x)%nat -> p r y = false) ->
  enx_scan_from p r fuel q = Some x.
Proof.
  induction fuel as [|f IH]; intros q x Hx Hp Hn; [lia|].
  cbn [enx_scan_from]. destruct (Nat.eq_dec x q) as [->|Hne]; [rewrite Hp; reflexivity|].
  rewrite (Hn q ltac:(lia)). apply IH; [lia|exact Hp|]. intros y Hy. apply Hn. lia.
Qed.

Lemma enx_scan_from_all_false p r : forall fuel q,
  (forall y, (q <= y < q + fuel)%nat -> p r y = false) -> enx_scan_from p r fuel q = None.
Proof.
  induction fuel as [|f IH]; intros q H; [reflexivity|].
  cbn [enx_scan_from]. rewrite (H q ltac:(lia)). apply IH. intros y Hy. apply H. lia.
Qed.

Lemma enx_in_range p : enp_in_range Z enx_index (enx_scan p).
Proof.
  intros r s m Hs H. unfold enx_scan in H. unfold zlen in *.
  destruct (enx_scan_from p r (S (length r) - Z.to_nat s) (Z.to_nat s)) as [x|] eqn:E; [|discriminate H].
  injection H as <-. destruct (enx_scan_from_some p r _ _ _ E) as (H1 & _). unfold enx_index. lia.
Qed.

Lemma enx_start_indep p : enp_start_indep Z enx_index (enx_scan p).
Proof.
  intros r s s' Hs Hs' Hm. unfold enx_scan in *. unfold zlen in *.
  destruct (enx_scan_from p r (S (length r) - Z.to_nat s) (Z.to_nat s)) as [x|] eqn:E.
  - specialize (Hm (Z.of_nat x) eq_refl). unfold enx_index in Hm.
    destruct (enx_scan_from_some p r _ _ _ E) as (H1 & H2 & H3).
    rewrite (enx_scan_from_first p r _ _ x); [reflexivity|lia|exact H2|]. intros y Hy. apply H3. lia.
  - rewrite enx_scan_from_all_false; [reflexivity|]. intros y Hy. apply (enx_scan_from_none p r _ _ E). lia.
Qed.

Lemma enx_starts p r q : enp_starts Z enx_index (enx_scan p) r q -> p r q = true /\ (q <= length r)%nat.
Proof.
  intros [m [H Hm]]. unfold enx_scan in H. rewrite Nat2Z.id in H. unfold enx_index in Hm. subst m.
  destruct (enx_scan_from p r (S (length r) - q) q) as [x|] eqn:E; [|discriminate H].
  cbn [option_map] in H. assert (x = q) by (injection H; lia). subst x.
  destruct (enx_scan_from_some p r _ _ _ E) as (H1 & H2 & _). split; [exact H2|lia].
Qed.

(* ---------- the pattern abc ---------- *)

Definition enx_abc : list Z := [97; 98; 99].
Definition enx_p_abc (r : list Z) (q : nat) : bool := en_has_prefix (skipn q r) enx_abc.

(* Lazybranch 5; Multi 0; Stop  — a program without a Start instruction *)
Definition enx_code_abc : en_code :=
  {| cd_rtl := false; cd_codes := [23; 5; 12; 0; 40];
     cd_opts := Some {| fo_mode := MODE_LeadingString_LeftToRight; fo_min := 3; fo_prefix := enx_abc;
                        fo_prefixes := []; fo_lit_s := []; fo_lit_c := 0; fo_lit_dist := 0; fo_sets := [];
                        fo_lal := None |} |}.

Definition enx_flt_abc : option en_filter := Some (FPrefix enx_abc false 3).

Lemma enx_new_filter_abc : en_new_filter enx_code_abc = Ok enx_flt_abc.
Proof. vm_compute. reflexivity. Qed.

Lemma enx_abc_lit_fact r q : en_has_prefix (skipn q r) enx_abc = true ->
  enf_min_fact 3 r q /\ enf_lit_fact enx_abc r q.
Proof.
  intros H. pose proof (enb_has_prefix_length _ _ H) as L. rewrite skipn_length in L. cbn [enx_abc length] in L.
  split; [unfold enf_min_fact; lia|].
  apply enb_has_prefix_iff in H. destruct H as [rest H]. exists (encode_string rest). rewrite H. reflexivity.
Qed.

Lemma enx_abc_facts o f :
  cd_opts enx_code_abc = Some o -> enx_flt_abc = Some f ->
  forall b q, enp_starts Z enx_index (enx_scan enx_p_abc) (runes_of b) q -> enp_code_fact o (runes_of b) q.
Proof.
  intros Ho _ b q Hst. injection Ho as <-. destruct (enx_starts _ _ _ Hst) as [Hp _].
  destruct (enx_abc_lit_fact _ _ Hp) as [HM HL].
  unfold enp_code_fact. cbn [fo_mode fo_min fo_prefix].
  split; [exact HM|]. split; [intros _; exact HL|].
  repeat split; intros E; discriminate E.
Qed.

Definition enx_quick (p : list Z -> nat -> bool) (r : list Z) (s : Z) : bool :=
  match enx_scan p r s with Some _ => true | None => false end.

(* every hypothesis of the headline theorem holds for this engine and this program data ... *)
Lemma enx_abc_hypotheses :
  en_new_filter enx_code_abc = Ok enx_flt_abc /\
  enp_in_range Z enx_index (enx_scan enx_p_abc) /\
  enp_quick_agrees Z (enx_scan enx_p_abc) (enx_quick enx_p_abc) /\
  (en_has_opcode (S (length (cd_codes enx_code_abc))) (cd_codes enx_code_abc) G_Start = Ok false ->
   enp_start_indep Z enx_index (enx_scan enx_p_abc)) /\
  (forall o f, cd_opts enx_code_abc = Some o -> enx_flt_abc = Some f ->
     forall b q, enp_starts Z enx_index (enx_scan enx_p_abc) (runes_of b) q -> enp_code_fact o (runes_of b) q).
Proof.
  split; [exact enx_new_filter_abc|]. split; [apply enx_in_range|]. split; [intros r s; reflexivity|].
  split; [intros _; apply enx_start_indep|]. exact enx_abc_facts.
Qed.

(* ... and on "xéabc" the filter answers byte 3, the engine is started at rune 2 and finds the match
   the rune entry point finds from rune 0 *)
Lemma enx_abc_instance :
  let b := [120; 195; 169; 97; 98; 99] in
  en_run_filter (FPrefix enx_abc false 3) b 0 = Ok (3, true) /\
  en_find_string_match Z (enx_scan enx_p_abc) false enx_flt_abc b = Ok (Some 2) /\
  en_find_runes_match Z (enx_scan enx_p_abc) false (runes_of b) = Ok (Some 2) /\
  en_match_string (enx_quick enx_p_abc) false enx_flt_abc b = Ok true /\
  en_find_string_match_starting_at Z (enx_scan enx_p_abc) false enx_flt_abc b 2 = Err ERR_START_NOT_BOUNDARY /\
  en_find_string_match_starting_at Z (enx_scan enx_p_abc) false enx_flt_abc b 4 = Ok None.
Proof. vm_compute. repeat split; reflexivity. Qed.

(* ---------- \G: dropping enp_start_indep ---------- *)

(* the engine of (?=\G)abc: a match only AT the scan start *)
Definition enx_search_G (r : list Z) (s : Z) : option Z :=
  if en_has_prefix (skipn (Z.to_nat s) r) enx_abc then Some s else None.

Lemma enx_G_in_range : enp_in_range Z enx_index enx_search_G.
Proof.
  intros r s m Hs H. unfold enx_search_G in H. destruct (en_has_prefix (skipn (Z.to_nat s) r) enx_abc); [|discriminate H].
  injection H as <-. unfold enx_index. lia.
Qed.

Lemma enx_G_facts b q : enp_starts Z enx_index enx_search_G (runes_of b) q ->
  enf_fact (FPrefix enx_abc false 3) (runes_of b) q.
Proof.
  intros [m [H _]]. unfold enx_search_G in H. rewrite Nat2Z.id in H.
  destruct (en_has_prefix (skipn q (runes_of b)) enx_abc) eqn:E; [|discriminate H].
  cbn [enf_fact enf_str_fact]. apply enx_abc_lit_fact. exact E.
Qed.

Lemma enx_G_ok : enf_ok (FPrefix enx_abc false 3).
Proof. vm_compute. reflexivity. Qed.

(* all hypotheses of the glue theorem except start independence hold, and the conclusion fails on "xabc" *)
Lemma enx_start_indep_needed :
  enp_in_range Z enx_index enx_search_G /\
  enf_ok (FPrefix enx_abc false 3) /\
  (forall b q, enp_starts Z enx_index enx_search_G (runes_of b) q -> enf_fact (FPrefix enx_abc false 3) (runes_of b) q) /\
  ~ enp_start_indep Z enx_index enx_search_G /\
  let b := [120; 97; 98; 99] in
  en_find_string_match Z enx_search_G false enx_flt_abc b = Ok (Some 1) /\
  en_find_runes_match Z enx_search_G false (runes_of b) = Ok None.
Proof.
  split; [exact enx_G_in_range|]. split; [exact enx_G_ok|]. split; [exact enx_G_facts|]. split.
  - intros H. specialize (H [120; 97; 98; 99] 0 1 ltac:(lia) ltac:(vm_compute; discriminate)).
    vm_compute in H. assert (X : Some 1 = @None Z); [apply H; intros m Hm; discriminate Hm|discriminate X].
  - vm_compute. split; reflexivity.
Qed.

(* ---------- U+FFFD: dropping the constructor's guard ---------- *)

Definition enx_p_fffd (r : list Z) (q : nat) : bool :=
  match nth_error r q with Some c => c =? rune_error | None => false end.
Definition enx_fffd_bytes : list Z := [239; 191; 189].

Lemma enx_fffd_facts b q : enp_starts Z enx_index (enx_scan enx_p_fffd) (runes_of b) q ->
  enf_fact (FPrefix enx_fffd_bytes false 1) (runes_of b) q.
Proof.
  intros Hst. destruct (enx_starts _ _ _ Hst) as [Hp _]. unfold enx_p_fffd in Hp.
  destruct (nth_error (runes_of b) q) as [c|] eqn:En; [|discriminate Hp].
  assert (c = rune_error) by lia. subst c.
  cbn [enf_fact enf_str_fact]. split.
  - unfold enf_min_fact. assert (q < length (runes_of b))%nat by (apply nth_error_Some; congruence). lia.
  - unfold enf_lit_fact. rewrite (enb_skipn_nth _ _ _ En). exists (encode_string (skipn (S q) (runes_of b))). reflexivity.
Qed.

(* every engine hypothesis and the fact hold, the needle contains U+FFFD (enf_ok fails), and on the
   single invalid byte 0xff the string entry point misses the match the rune entry point finds *)
Lemma enx_fffd_guard_needed :
  enp_in_range Z enx_index (enx_scan enx_p_fffd) /\
  enp_start_indep Z enx_index (enx_scan enx_p_fffd) /\
  (forall b q, enp_starts Z enx_index (enx_scan enx_p_fffd) (runes_of b) q ->
               enf_fact (FPrefix enx_fffd_bytes false 1) (runes_of b) q) /\
  ~ enf_ok (FPrefix enx_fffd_bytes false 1) /\
  let b := [255] in
  en_find_string_match Z (enx_scan enx_p_fffd) false (Some (FPrefix enx_fffd_bytes false 1)) b = Ok None /\
  en_find_runes_match Z (enx_scan enx_p_fffd) false (runes_of b) = Ok (Some 0).
Proof.
  split; [apply enx_in_range|]. split; [apply enx_start_indep|]. split; [exact enx_fffd_facts|]. split.
  - vm_compute. discriminate.
  - vm_compute. split; reflexivity.
Qed.

(* the constructor does refuse both: a program with a Start instruction, a literal with U+FFFD *)
Lemma enx_constructor_declines :
  en_new_filter {| cd_rtl := false; cd_codes := [23; 6; 19; 12; 0; 40]; cd_opts := cd_opts enx_code_abc |} = Ok None /\
  en_new_filter {| cd_rtl := false; cd_codes := [23; 5; 12; 0; 40];
                   cd_opts := Some {| fo_mode := MODE_LeadingString_LeftToRight; fo_min := 2; fo_prefix := 97 :: enx_fffd_bytes;
                                      fo_prefixes := []; fo_lit_s := []; fo_lit_c := 0; fo_lit_dist := 0; fo_sets := [];
                                      fo_lal := None |} |} = Ok None /\
  en_new_filter {| cd_rtl := true; cd_codes := cd_codes enx_code_abc; cd_opts := cd_opts enx_code_abc |} = Ok None.
Proof. vm_compute. repeat split; reflexivity. Qed.
