(* [caps_rel2 / leadsg2 / ok_node2] version of Proofs/CompileStage4.v for compile_correct2 (balancing captures,
   see Proofs/CompileBal.v): the same lemmas and proofs over the marker-aware capture relation of
   Proofs/CompileBalDen.v.  Lemma names: cc_X -> c2_X. *)
(* compile_correct, stage 4a: NAtomic, NPosLook, NNegLook (Setjump / Forejump / Backjump = cut). *)
From Verif Require Import Base.Prelude Model.Tree Model.Spec Model.VM Model.Writer Gen.RunnerGen
  Proofs.SpecProofs Proofs.SpecBoundsProofs Proofs.MaskProofs
  Proofs.VMU Proofs.VMUOps Proofs.VMUOps2 Proofs.VMUOps6 Proofs.CompileBase Proofs.CompileDefs Proofs.CompileBalDen Proofs.CompileBalBase Proofs.CompileBalDefs.
From Coq Require Import Relations ZifyBool.

Section CC.
Variable e : env.
Variable p : program.
Hypothesis tc_nonneg : 0 <= trackcount p.

Notation rsteps := (VMUOps2.rsteps e p).
Notation leadsg2 := (CompileBalBase.leadsg2 e p).
Notation has_code := (CompileBase.has_code p).
Notation track_ok := (CompileBase.track_ok p).
Notation caps_rel2 := (CompileBalDen.caps_rel2 p).
Notation code_ex := (CompileDefs.code_ex p).
Notation tbl_ok := (CompileDefs.tbl_ok p).
Notation ok_node2 := (CompileBalDefs.ok_node2 e p).

(* the frame [pcF; zlen C] a Forejump leaves: re-entering it undoes the captures and fails *)
Lemma c2_forejump_result b pcF T Sk C C' M M' s q :
  code_at p pcF = Some Forejump -> track_ok T -> caps_rel2 (caps q) M' -> unwind C' M' = Some M ->
  rsteps s (mkr b 0 (pos q) (pcF :: zlen C :: T) Sk (C' ++ C) M') ->
  leadsg2 b T Sk Sk C M s [q].
Proof.
  intros HF Hk Hcq Hu Hs. pose proof (code_at_nonneg p _ _ HF) as HpF.
  exists [pcF; zlen C], C', M'. cbn [app].
  split; [exact Hcq|]. split; [exact Hu|].
  split. { eapply track_ok_cons. rewrite Z.abs_eq by lia. exact HF. }
  split; [exact Hs|].
  intros np T'' t HT. injection HT as <- <-. rewrite bkr_pos by lia.
  destruct Hk as (np' & T3 & -> & w3 & Hw3).
  eapply leadsg2_fail; [reflexivity|].
  eapply rs_forejump_back; try exact tc_nonneg; eassumption.
Qed.

Lemma c2_atomic f r : ok_node2 f r -> ok_node2 (S f) (NAtomic r).
Proof.
  intros Hokr s res Hsem Hst a tbl T S0 C M Hc Hex Hk Hr Htb.
  cbn [sem] in Hsem. apply sp_first_only_ok in Hsem. destruct Hsem as (l0 & Hl0 & ->).
  cbn [emit csize] in Hc, Hex, Htb |- *.
  pose proof (emit_length cfg0 r (a + 1) tbl) as Lr.
  destruct (emit cfg0 r (a + 1) tbl) as [cr t1] eqn:Er. cbn [fst snd] in Lr, Hc, Htb.
  apply has_code_cons in Hc. destruct Hc as [H0 Hc].
  apply has_code_app in Hc. destruct Hc as [Hcr Hc]. rewrite Lr in Hc.
  apply has_code_cons in Hc. destruct Hc as [HF _].
  set (m := a + 1 + csize cfg0 r) in *.
  replace (a + (1 + csize cfg0 r + 1)) with (m + 1) in * by (unfold m; lia).
  pose proof (code_at_nonneg p _ _ H0) as Ha.
  destruct Hex as [wx Hwx].
  assert (Hex1 : code_ex (a + 1)).
  { eapply cc_code_ex_start; [exact Hcr|]. rewrite Lr. exists Forejump. exact HF. }
  destruct Hex1 as [w1 Hw1].
  set (S1 := zlen C :: zlen T + 1 :: S0).
  assert (G : leadsg2 m (a :: T) S1 S1 C M (mkr (a + 1) 0 (pos s) (a :: T) S1 C M) l0).
  { apply (Hokr s l0 Hl0 Hst (a + 1) tbl (a :: T) S1 C M).
    - rewrite Er. exact Hcr.
    - exists Forejump. exact HF.
    - eapply track_ok_cons. rewrite Z.abs_eq by lia. exact H0.
    - exact Hr.
    - rewrite Er. exact Htb. }
  eapply leadsg2_pre. { eapply rs_setjump; try exact tc_nonneg; eassumption. }
  fold S1. destruct l0 as [|q l0].
  - cbn [leadsg2] in G. destruct G as (np & T' & t & HT & Hs). injection HT as <- <-.
    rewrite bkr_pos in Hs by lia. destruct Hk as (np' & T3 & -> & w3 & Hw3).
    eapply leadsg2_fail; [reflexivity|].
    eapply rsteps_trans; [exact Hs|]. eapply rs_setjump_back; try exact tc_nonneg; eassumption.
  - cbn [leadsg2] in G. destruct G as (T' & C' & M' & Hcq & Hu & Hkq & Hs & _).
    eapply c2_forejump_result with (pcF := m) (C' := C') (M' := M'); try eassumption.
    eapply rsteps_trans; [exact Hs|].
    replace (T' ++ a :: T) with ((T' ++ [a]) ++ T) by (rewrite <- app_assoc; reflexivity).
    eapply rs_forejump; try exact tc_nonneg; eassumption.
Qed.

Lemma c2_poslook f o r : ok_node2 f r -> ok_node2 (S f) (NPosLook o r).
Proof.
  intros Hokr s res Hsem Hst a tbl T S0 C M Hc Hex Hk Hr Htb.
  cbn [sem] in Hsem. apply sp_bind_ok in Hsem. destruct Hsem as (l1 & Hl1 & Hres). injection Hres as <-.
  apply sp_first_only_ok in Hl1. destruct Hl1 as (l0 & Hl0 & ->).
  cbn [emit csize] in Hc, Hex, Htb |- *.
  pose proof (emit_length cfg0 r (a + 2) tbl) as Lr.
  destruct (emit cfg0 r (a + 2) tbl) as [cr t1] eqn:Er. cbn [fst snd] in Lr, Hc, Htb.
  apply has_code_cons in Hc. destruct Hc as [H0 Hc]. apply has_code_cons in Hc. destruct Hc as [H1 Hc].
  replace (a + 1 + 1) with (a + 2) in Hc by lia.
  apply has_code_app in Hc. destruct Hc as [Hcr Hc]. rewrite Lr in Hc.
  apply has_code_cons in Hc. destruct Hc as [HG Hc]. apply has_code_cons in Hc. destruct Hc as [HF _].
  set (m := a + 2 + csize cfg0 r) in *.
  replace (a + (2 + csize cfg0 r + 2)) with (m + 2) in * by (unfold m; lia).
  replace (m + 1 + 1) with (m + 2) in * by lia.
  pose proof (code_at_nonneg p _ _ H0) as Ha.
  destruct Hex as [wx Hwx].
  assert (Hex1 : code_ex (a + 2)).
  { eapply cc_code_ex_start; [exact Hcr|]. rewrite Lr. exists Getmark. exact HG. }
  destruct Hex1 as [w1 Hw1].
  set (S1 := zlen C :: zlen T + 1 :: S0).
  assert (G : leadsg2 m (a + 1 :: a :: T) (pos s :: S1) (pos s :: S1) C M
                     (mkr (a + 2) 0 (pos s) (a + 1 :: a :: T) (pos s :: S1) C M) l0).
  { apply (Hokr s l0 Hl0 Hst (a + 2) tbl (a + 1 :: a :: T) (pos s :: S1) C M).
    - rewrite Er. exact Hcr.
    - exists Getmark. exact HG.
    - eapply track_ok_cons. rewrite Z.abs_eq by lia. exact H1.
    - exact Hr.
    - rewrite Er. exact Htb. }
  eapply leadsg2_pre.
  { eapply rsteps_trans; [eapply rs_setjump; try exact tc_nonneg; eassumption|].
    replace (a + 2) with (a + 1 + 1) by lia. eapply rs_setmark; try exact tc_nonneg; try eassumption.
    replace (a + 1 + 1) with (a + 2) by lia. exact Hw1. }
  replace (a + 1 + 1) with (a + 2) by lia. fold S1. destruct l0 as [|q l0]; cbn [map].
  - cbn [leadsg2] in G. destruct G as (np & T' & t & HT & Hs). injection HT as <- <-.
    rewrite bkr_pos in Hs by lia. pose proof Hk as (np' & T3 & HT3 & w3 & Hw3).
    eapply leadsg2_fail; [exact HT3|].
    eapply rsteps_trans; [exact Hs|].
    eapply rsteps_trans.
    { eapply rs_mark_back with (w := Setmark); try exact tc_nonneg; try eassumption.
      - left. reflexivity.
      - rewrite Z.abs_eq by lia. exact H0. }
    rewrite bkr_pos by lia. rewrite HT3. eapply rs_setjump_back; try exact tc_nonneg; eassumption.
  - cbn [leadsg2] in G. destruct G as (T' & C' & M' & Hcq & Hu & Hkq & Hs & _).
    eapply c2_forejump_result with (pcF := m + 1) (C' := C') (M' := M') (q := with_pos q (pos s)); try eassumption.
    cbn [pos with_pos].
    eapply rsteps_trans; [exact Hs|].
    eapply rsteps_trans; [eapply rs_getmark; try exact tc_nonneg; eassumption|].
    replace (m :: pos s :: T' ++ a + 1 :: a :: T) with ((m :: pos s :: T' ++ [a + 1; a]) ++ T)
      by (cbn [app]; rewrite <- app_assoc; reflexivity).
    replace (m + 2) with (m + 1 + 1) by lia.
    eapply rs_forejump; try exact tc_nonneg; try eassumption.
    replace (m + 1 + 1) with (m + 2) by lia. exact Hwx.
Qed.

Lemma c2_neglook f o r : ok_node2 f r -> ok_node2 (S f) (NNegLook o r).
Proof.
  intros Hokr s res Hsem Hst a tbl T S0 C M Hc Hex Hk Hr Htb.
  cbn [sem] in Hsem. apply sp_bind_ok in Hsem. destruct Hsem as (l0 & Hl0 & Hres). injection Hres as <-.
  cbn [emit csize] in Hc, Hex, Htb |- *.
  pose proof (emit_length cfg0 r (a + 3) tbl) as Lr.
  destruct (emit cfg0 r (a + 3) tbl) as [cr t1] eqn:Er. cbn [fst snd] in Lr, Hc, Htb. rewrite Lr in Hc.
  apply has_code_cons in Hc. destruct Hc as [H0 Hc]. apply has_code_cons in Hc. destruct Hc as [H1 Hc].
  apply has_code_cons in Hc. destruct Hc as [H2 Hc].
  replace (a + 1 + 1 + 1) with (a + 3) in Hc by lia. replace (a + 1 + 1) with (a + 1 + 1) in H2 by lia.
  apply has_code_app in Hc. destruct Hc as [Hcr Hc]. rewrite Lr in Hc.
  apply has_code_cons in Hc. destruct Hc as [HB Hc]. apply has_code_cons in Hc. destruct Hc as [HF _].
  set (m := a + 3 + csize cfg0 r) in *.
  replace (a + (3 + csize cfg0 r + 2)) with (m + 2) in * by (unfold m; lia).
  pose proof (code_at_nonneg p _ _ H0) as Ha.
  destruct Hex as [wx Hwx].
  assert (Hex1 : code_ex (a + 3)).
  { eapply cc_code_ex_start; [exact Hcr|]. rewrite Lr. exists Backjump. exact HB. }
  destruct Hex1 as [w1 Hw1].
  set (S1 := zlen C :: zlen T + 1 :: S0).
  pose proof Hk as (np' & T3 & HT3 & w3 & Hw3).
  assert (G : leadsg2 m (a + 1 :: pos s :: a :: T) S1 S1 C M
                     (mkr (a + 3) 0 (pos s) (a + 1 :: pos s :: a :: T) S1 C M) l0).
  { apply (Hokr s l0 Hl0 Hst (a + 3) tbl (a + 1 :: pos s :: a :: T) S1 C M).
    - rewrite Er. exact Hcr.
    - exists Backjump. exact HB.
    - eapply track_ok_cons. rewrite Z.abs_eq by lia. exact H1.
    - exact Hr.
    - rewrite Er. exact Htb. }
  eapply leadsg2_pre.
  { eapply rsteps_trans; [eapply rs_setjump; try exact tc_nonneg; eassumption|].
    replace (a + 3) with (a + 1 + 2) by lia. eapply rs_lazybranch; try exact tc_nonneg; try eassumption.
    replace (a + 1 + 2) with (a + 3) by lia. exact Hw1. }
  replace (a + 1 + 2) with (a + 3) by lia. fold S1. destruct l0 as [|q l0].
  - cbn [leadsg2] in G. destruct G as (np & T' & t & HT & Hs). injection HT as <- <-.
    rewrite bkr_pos in Hs by lia.
    eapply c2_forejump_result with (pcF := m + 1) (C' := []) (M' := M) (q := s); try eassumption; try reflexivity.
    eapply rsteps_trans; [exact Hs|].
    eapply rsteps_trans.
    { eapply rs_lazybranch_back; try exact tc_nonneg; eassumption. }
    replace (a + 3 + csize cfg0 r + 1) with (m + 1) by (unfold m; lia).
    replace (m + 2) with (m + 1 + 1) by lia.
    change (a :: T) with ([a] ++ T).
    eapply rs_forejump; try exact tc_nonneg; try eassumption.
    replace (m + 1 + 1) with (m + 2) by lia. exact Hwx.
  - cbn [leadsg2] in G. destruct G as (T' & C' & M' & Hcq & Hu & Hkq & Hs & _).
    eapply leadsg2_fail; [exact HT3|].
    eapply rsteps_trans; [exact Hs|].
    rewrite HT3.
    replace (T' ++ a + 1 :: pos s :: a :: np' :: T3) with ((T' ++ [a + 1; pos s; a]) ++ np' :: T3)
      by (rewrite <- app_assoc; reflexivity).
    unfold S1. rewrite HT3.
    eapply rs_backjump; try exact tc_nonneg; eassumption.
Qed.

(* results delivered over a Forejump frame [pcF; zlen C] (possibly with captures C' made before the
   cut): when they are exhausted the frame undoes C' and fails into the base *)
Lemma c2_over_forejump b pcF T Sk C C' M M' s res :
  code_at p pcF = Some Forejump -> track_ok T -> unwind C' M' = Some M ->
  leadsg2 b (pcF :: zlen C :: T) Sk Sk (C' ++ C) M' s res ->
  leadsg2 b T Sk Sk C M s res.
Proof.
  intros HF Hk Hu G. pose proof (code_at_nonneg p _ _ HF) as HpF.
  rewrite <- (app_nil_r res).
  eapply leadsg2_app with (T1 := [pcF; zlen C]) (Cx := C') (Sf1 := Sk) (M1 := M'); [exact G|exact Hu|].
  intros np T' t HT. cbn [app] in HT. injection HT as <- <-. rewrite bkr_pos by lia.
  destruct Hk as (np' & T3 & -> & w3 & Hw3).
  eapply leadsg2_fail; [reflexivity|].
  eapply rs_forejump_back; try exact tc_nonneg; eassumption.
Qed.

End CC.
