(* case_equiv_closed: the closed checks of CharClassFold.v unfolded into a statement. *)
From Coq Require Import FMapPositive.
From Verif Require Import Base.Prelude Model.CharClass Model.FoldD Proofs.CharClassRanges Proofs.CharClassFold.

Lemma zmem_In x l : zmem x l = true <-> In x l.
Proof.
  unfold zmem. rewrite existsb_exists. split.
  - intros [y [Hy E]]. apply Z.eqb_eq in E. subst. exact Hy.
  - intros H. exists x. split; [exact H|apply Z.eqb_refl].
Qed.

Lemma ci_range_ok_on_spec dom a b ch : ci_range_ok_on dom a b = true -> In ch dom ->
  exists c, ci_class a b = Ok c /\ neg c = false /\ cats c = [] /\
            mem (ranges c) ch = existsb (fun x => (a <=? x) && (x <=? b)) (orbit fold_t orbit_fuel ch) /\
            (mem (ranges c) ch = true -> mem (ranges c) (fold_t ch) = true).
Proof.
  intros Hok Hch. unfold ci_range_ok_on in Hok. destruct (ci_class a b) as [c| | |]; try discriminate.
  exists c. split; [reflexivity|].
  apply andb_prop in Hok. destruct Hok as [Hok Hc]. apply andb_prop in Hok. destruct Hok as [Hok Hn].
  rewrite forallb_forall in Hok. specialize (Hok ch Hch). apply andb_prop in Hok. destruct Hok as [H1 H2].
  split; [destruct (neg c); [discriminate|reflexivity]|].
  split; [destruct (cats c); [reflexivity|discriminate]|].
  split.
  - apply Bool.eqb_prop in H1. exact H1.
  - intros Hm. rewrite Hm in H2. exact H2.
Qed.

Lemma ascii_related_unfold ch : ascii_related ch = existsb (fun x => x <? 128) (orbit fold_t orbit_fuel ch).
Proof. reflexivity. Qed.

Lemma small_dom_In ch : In ch small_dom <-> In ch dom_t /\ ascii_related ch = true.
Proof. unfold small_dom. apply filter_In. Qed.

Lemma zero_in_small_dom : In 0 small_dom.
Proof. apply zmem_In. vm_compute. reflexivity. Qed.

Lemma orbit_self_small (f : Z -> Z) fuel ch : ch < 128 ->
  existsb (fun x => x <? 128) (orbit f fuel ch) = true.
Proof. intros H. unfold orbit. cbn [existsb]. apply orb_true_iff. left. lia. Qed.

(* keep the kernel from unfolding the tables during conversion *)
Strategy opaque [fold_map dom_t small_dom fold_t lower_t ascii_related ci_class].

(* case_equiv_closed, unfolded: single members of the table (but U+0130) and ranges with ASCII endpoints *)
Theorem case_equiv_closed_range a b ch :
  (0 <= a <= b /\ b < 128) \/ (a = b /\ In a dom_t /\ a <> 304) -> In ch dom_t ->
  exists c, ci_class a b = Ok c /\ neg c = false /\ cats c = [] /\
            mem (ranges c) ch = existsb (fun x => (a <=? x) && (x <=? b)) (orbit fold_t orbit_fuel ch) /\
            (mem (ranges c) ch = true -> mem (ranges c) (fold_t ch) = true).
Proof.
  intros Hab Hch. destruct Hab as [H|[-> [H H304]]].
  - pose proof ci_ascii_ranges_ok as G. rewrite forallb_forall in G.
    specialize (G a (in_ascii_dom a ltac:(lia))). rewrite forallb_forall in G.
    specialize (G b (in_ascii_dom b ltac:(lia))). apply orb_prop in G. destruct G as [G|G]; [lia|].
    unfold ci_ascii_ok in G. apply andb_prop in G. destruct G as [G1 G2].
    destruct (ascii_related ch) eqn:Er.
    + apply (ci_range_ok_on_spec small_dom); [exact G1|]. apply small_dom_In. auto.
    + (* ch is not related to ASCII: it is neither in the class nor has an orbit member in [a, b] *)
      assert (Hin : In 0 small_dom) by exact zero_in_small_dom.
      destruct (ci_range_ok_on_spec small_dom a b 0 G1 Hin) as (c & Hc & Hn & Hk & _).
      rewrite Hc in G2. exists c. split; [exact Hc|]. split; [exact Hn|]. split; [exact Hk|].
      assert (Hch128 : 128 <= ch).
      { destruct (ch <? 128) eqn:E; [|lia]. exfalso.
        pose proof (orbit_self_small fold_t orbit_fuel ch ltac:(lia)) as Hs.
        rewrite <- ascii_related_unfold in Hs. congruence. }
      assert (Hm : mem (ranges c) ch = false).
      { unfold stays_small in G2. rewrite forallb_forall in G2.
        destruct (mem (ranges c) ch) eqn:Em; [|reflexivity]. exfalso.
        apply mem_true_iff in Em. destruct Em as [r [Hr Hrc]]. specialize (G2 r Hr).
        apply orb_prop in G2. destruct G2 as [G2|G2]; [lia|].
        apply andb_prop in G2. destruct G2 as [G2 G3]. assert (fst r = ch) by lia.
        apply zmem_In in G3. apply small_dom_In in G3. destruct G3 as [_ G3].
        rewrite H0 in G3. congruence. }
      split.
      * rewrite Hm. symmetry. rewrite ascii_related_unfold in Er.
        apply Bool.not_true_is_false. intros Hex. apply existsb_exists in Hex. destruct Hex as [x [Hx1 Hx2]].
        assert (existsb (fun x0 => x0 <? 128) (orbit fold_t orbit_fuel ch) = true).
        { apply existsb_exists. exists x. split; [exact Hx1|lia]. }
        congruence.
      * rewrite Hm. discriminate.
  - pose proof ci_singles_ok as G. rewrite forallb_forall in G. specialize (G b H).
    apply orb_prop in G. destruct G as [G|G]; [lia|].
    apply (ci_range_ok_on_spec dom_t); auto.
Qed.
