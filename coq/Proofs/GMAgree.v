(* The pre-scan produces a well-formed table, and the main pass numbers every group as the
   pre-scan reserved it (C17: prescan_agrees_with_parse, numbering_rule). *)
From Verif Require Import Base.Prelude Model.GroupMap Proofs.GMBase Proofs.OptionsProofs Proofs.GMLookups Proofs.GMPrescan.
From Coq Require Import Sorting.Sorted.

(* ---------- the hypotheses on a token list, bundled ----------
   lexical: a TNamed name does not start with a digit (the scanner reads such a name as a number), an
            explicit number is not negative (it is read off a digit string; canonical spelling, see tok_lex);
   small:   explicit numbers stay below [lim], and [lim] and the pattern length stay away from 2^31-1,
            where noteCaptureSlot saturates.
   These two make [ts_ok_unguarded].  [ts_ok] adds the
   guard:   with MaintainCaptureOrder (outside ECMAScript, where "(?<2>" is an error) no explicit
            numbers — the known finding mco_digit_names.  Since /repo 2b27550 only the statements about
            the NAME of an unnamed group need it (wf_tree's name list, hence the name <-> number round trips). *)
Definition ts_ok_unguarded (lim : Z) (ts : list gtok) : Prop :=
  Forall tok_lex ts /\ Forall (tok_small lim) ts /\ lim <= maxint32
  /\ Z.max lim (1 + Z.of_nat (length ts)) + Z.of_nat (length ts) + 1 < maxint32.

Definition ts_ok (lim : Z) (mco ecma : bool) (ts : list gtok) : Prop :=
  Forall tok_lex ts /\ Forall (tok_small lim) ts
  /\ (mco = true -> ecma = false -> Forall tok_unnumbered ts)
  /\ lim <= maxint32
  /\ Z.max lim (1 + Z.of_nat (length ts)) + Z.of_nat (length ts) + 1 < maxint32.

Lemma ts_ok_weaken : forall lim mco ecma ts, ts_ok lim mco ecma ts -> ts_ok_unguarded lim ts.
Proof. intros lim mco ecma ts [H1 [H2 [_ [H3 H4]]]]. repeat split; assumption. Qed.

(* ---------- at most one new name per token ---------- *)

Lemma note_name_len : forall mco ecma s c c', note_name mco ecma s c = Ok c' ->
  (length (c_capnamelist c') <= length (c_capnamelist c) + 1)%nat.
Proof.
  intros mco ecma s c c' H. unfold note_name in H.
  destruct (aget s (names_of c)).
  - destruct ecma; [discriminate|]. injection H as <-. cbn. lia.
  - destruct mco; injection H as <-; cbn [c_capnamelist]; rewrite app_length; cbn.
    + destruct (note_slot_fields (c_autocap c)
        (mkC (c_autocap c + 1) (c_caps c) (c_capcount c) (c_captop c) (Some (aset s (c_autocap c) (names_of c))) (c_capnamelist c))) as [_ [_ ->]].
      cbn. lia.
    + lia.
Qed.

Lemma pstep_len : forall mco ecma st t st' mk, pstep mco ecma st t = Ok (st', mk) ->
  (length (c_capnamelist (p_c st')) <= length (c_capnamelist (p_c st)) + 1)%nat.
Proof.
  intros mco ecma st t st' mk H. unfold pstep in H.
  destruct (ostep PreScan (p_o st) t) as [o'| | |]; try discriminate. cbn [bind] in H.
  destruct (o_skip (p_o st)); [injection H as <- _; cbn; lia|].
  destruct t; try (injection H as <- _; cbn; lia).
  - destruct (negb (has (o_opts (p_o st)) opt_n) && negb (p_ign st)); injection H as <- _; cbn [p_c]; [|lia].
    destruct (note_slot_fields (c_autocap (p_c st))
      (mkC (c_autocap (p_c st) + 1) (c_caps (p_c st)) (c_capcount (p_c st)) (c_captop (p_c st)) (c_capnames (p_c st)) (c_capnamelist (p_c st)))) as [_ [_ ->]].
    cbn. lia.
  - destruct (note_name mco ecma s (p_c st)) as [c'| | |] eqn:E; try discriminate. cbn [bind] in H.
    injection H as <- _. cbn [p_c]. eapply note_name_len; eauto.
  - destruct ecma; [injection H as <- _; cbn; lia|].
    destruct (n <=? 0); [injection H as <- _; cbn; lia|].
    destruct (maxint32 <? n); [discriminate|].
    destruct mco.
    + destruct (note_name true false (itoa n) (p_c st)) as [c'| | |] eqn:E; try discriminate. cbn [bind] in H.
      injection H as <- _. cbn [p_c]. eapply note_name_len; eauto.
    + injection H as <- _. cbn [p_c]. destruct (note_slot_fields n (p_c st)) as [_ [_ ->]]. lia.
Qed.

Lemma prun_len : forall mco ecma ts st st' mks, prun mco ecma st ts = Ok (st', mks) ->
  (length (c_capnamelist (p_c st')) <= length (c_capnamelist (p_c st)) + length ts)%nat.
Proof.
  intros mco ecma ts. induction ts as [|t ts IH]; intros st st' mks H; cbn [prun] in H.
  - injection H as <- _. cbn. lia.
  - destruct (pstep mco ecma st t) as [[st1 mk]| | |] eqn:E1; try discriminate. cbn [bind] in H.
    destruct (prun mco ecma st1 ts) as [[st2 mks2]| | |] eqn:E2; try discriminate. cbn [bind] in H.
    injection H as <- _. pose proof (pstep_len _ _ _ _ _ _ E1). pose proof (IH _ _ _ E2). cbn [length]. lia.
Qed.

(* ---------- countCaptures yields a well-formed table ---------- *)

Theorem prescan_wf : forall lim mco ecma o ts t mks,
  (ecma = true -> mco = true) -> ts_ok lim mco ecma ts ->
  prescan mco ecma o ts = Ok (t, mks) -> wf_tree ecma t /\ length mks = length ts.
Proof.
  intros lim mco ecma o ts t mks Hem [Hlex [Hsmall [Hun [Hlim Hb]]]] H.
  unfold prescan in H.
  destruct (prun mco ecma (p_init o) ts) as [[st mks']| | |] eqn:Ep; try discriminate. cbn [bind] in H.
  pose proof (prun_len _ _ _ _ _ _ Ep) as Hnl. cbn in Hnl.
  destruct (prun_inv lim Hlim mco ecma ts (p_init o) st mks' (pinv_init lim mco) Hlex Hsmall ltac:(cbn [p_init p_c c_init c_autocap]; lia) Ep)
    as [Hinv [Hauto [_ [_ Hmk]]]].
  cbn [p_init p_c c_init c_autocap] in Hauto.
  destruct mco.
  - destruct (assign_ordered ecma (p_c st)) as [t'| | |] eqn:Ea; try discriminate. cbn [bind] in H.
    injection H as <- <-. split; [|assumption].
    pose proof (prun_lexnames true ecma ts (p_init o) st mks' Hlex Hun ltac:(cbn; constructor) Ep) as Hln.
    apply (assign_ordered_wf lim ecma (p_c st) t' Hinv Hln Ea).
  - destruct (assign_default (p_c st)) as [t'| | |] eqn:Ea; try discriminate. cbn [bind] in H.
    injection H as <- <-. split; [|assumption].
    assert (ecma = false) by (destruct ecma; [specialize (Hem eq_refl); discriminate|reflexivity]). subst ecma.
    apply (assign_default_wf lim (p_c st) t' Hinv); [|assumption].
    pose proof (pi_topb _ _ _ Hinv). lia.
Qed.

(* without the guard: the numbers are well formed, every group has its entry in the name list, and that
   entry is a key of Capnames ([wf_weak]: it need not lead back to the group when it is a numeral) *)
Theorem prescan_wf_weak : forall lim mco ecma o ts t mks,
  (ecma = true -> mco = true) -> ts_ok_unguarded lim ts ->
  prescan mco ecma o ts = Ok (t, mks) -> wf_weak ecma t /\ length mks = length ts.
Proof.
  intros lim mco ecma o ts t mks Hem [Hlex [Hsmall [Hlim Hb]]] H.
  unfold prescan in H.
  destruct (prun mco ecma (p_init o) ts) as [[st mks']| | |] eqn:Ep; try discriminate. cbn [bind] in H.
  pose proof (prun_len _ _ _ _ _ _ Ep) as Hnl. cbn in Hnl.
  destruct (prun_inv lim Hlim mco ecma ts (p_init o) st mks' (pinv_init lim mco) Hlex Hsmall ltac:(cbn [p_init p_c c_init c_autocap]; lia) Ep)
    as [Hinv [Hauto [_ [_ Hmk]]]].
  cbn [p_init p_c c_init c_autocap] in Hauto.
  destruct mco.
  - destruct (assign_ordered ecma (p_c st)) as [t'| | |] eqn:Ea; try discriminate. cbn [bind] in H.
    injection H as <- <-. split; [|assumption].
    apply (assign_ordered_weak lim ecma (p_c st) t' Hinv Ea).
  - destruct (assign_default (p_c st)) as [t'| | |] eqn:Ea; try discriminate. cbn [bind] in H.
    injection H as <- <-. split; [|assumption].
    assert (ecma = false) by (destruct ecma; [specialize (Hem eq_refl); discriminate|reflexivity]). subst ecma.
    apply wf_tree_weak.
    apply (assign_default_wf lim (p_c st) t' Hinv); [|assumption].
    pose proof (pi_topb _ _ _ Hinv). lia.
Qed.

(* ================= the main pass agrees with the pre-scan ================= *)

(* what the pre-scan decided for a token vs. the node the main pass creates for it *)
Definition agrees (t : ptree) (mk : pmark) (it : item) : Prop :=
  match mk with
  | PAuto k => it = ICapture k
  | PNum n => it = ICapture n
  | PName s => exists k, it = ICapture k /\ exists m, t_capnames t = Some m /\ aget s m = Some k
  | PNone => match it with ICapture _ => False | _ => True end
  end.

(* the part of the two parser states that must coincide *)
Definition sim (ps : pstate) (ms : mstate) : Prop :=
  m_o ms = p_o ps /\ m_ign ms = p_ign ps /\ m_autocap ms = c_autocap (p_c ps).

Lemma ostep_noop : forall p st t, o_skip st = false ->
  match t with TLit _ | TBackNum _ _ | TBackName _ | TComment | TNewline => True | _ => False end ->
  ostep p st t = Ok st.
Proof. intros p st t Hk Ht. unfold ostep. rewrite Hk. destruct t; try contradiction; reflexivity. Qed.

Lemma is_name_get : forall t s, is_name t s = true ->
  exists m, t_capnames t = Some m /\ aget s m = Some (slot_from_name t s).
Proof.
  intros t s H. unfold is_name, slot_from_name in *. destruct (t_capnames t) as [m|]; [|discriminate].
  exists m. split; [reflexivity|]. apply amem_aget in H. destruct H as [v Hv]. now rewrite (aget0_some _ _ _ Hv).
Qed.

(* a group filed under a NAME: "(?<s>", and under MaintainCaptureOrder also "(?<2>" with s = "2" *)
Lemma sim_named : forall lim mco ecma t s c c' a,
  lim <= maxint32 -> a = c_autocap c ->
  pinv lim mco c -> name_ok mco s -> c_autocap c < maxint32 ->
  note_name mco ecma s c = Ok c' ->
  is_name t s = true ->
  (mco = true -> forall v, aget s (names_of c') = Some v -> exists m, t_capnames t = Some m /\ aget s m = Some v) ->
  forall o' cur gs,
  sim (mkP o' false c') (mkM o' false (cur :: gs) false (consume_slot mco (slot_from_name t s) a))
  /\ agrees t (PName s) (ICapture (slot_from_name t s)).
Proof.
  intros lim mco ecma t s c c' a Hlim Sa Hinv Hok Hlt En Hn Hfin o' cur gs.
  destruct (is_name_get t s Hn) as [m [Hm1 Hm2]].
  destruct (note_name_inv lim mco ecma s c c' Hinv Hok Hlt En) as [_ [_ [_ [[v Hv] [Hpers [Hnew [Hold Hdef]]]]]]].
  split.
  - repeat split; cbn [m_o m_ign m_autocap p_o p_ign p_c]; auto.
    unfold consume_slot. rewrite Sa. destruct mco; cbn [andb].
    + destruct (Hfin eq_refl v Hv) as [m2 [Hm3 Hm4]]. rewrite Hm1 in Hm3. injection Hm3 as <-.
      rewrite Hm2 in Hm4. injection Hm4 as Hk. rewrite Hk.
      destruct (aget s (names_of c)) as [v0|] eqn:Eg.
      * rewrite (Hold eq_refl ltac:(congruence)).
        pose proof (Hpers eq_refl s v0 Eg) as Hp2. rewrite Hv in Hp2. injection Hp2 as ->.
        destruct (pi_mco _ _ _ Hinv eq_refl) as [_ [_ Hslots]]. specialize (Hslots _ _ Eg).
        destruct (v0 =? c_autocap c) eqn:E; [apply Z.eqb_eq in E; lia|reflexivity].
      * destruct (Hnew eq_refl eq_refl) as [Hv2 Ha2]. rewrite Hv in Hv2. injection Hv2 as ->.
        rewrite Z.eqb_refl. now rewrite Ha2.
    + destruct (Hdef eq_refl) as [-> _]. reflexivity.
  - cbn. exists (slot_from_name t s). split; [reflexivity|]. eauto.
Qed.

Lemma sim_step : forall lim mco ecma t ps ms tok ps' mk ms' it,
  lim <= maxint32 ->
  sim ps ms -> pinv lim mco (p_c ps) -> tok_lex tok -> tok_small lim tok ->
  c_autocap (p_c ps) < maxint32 ->
  (forall k, is_slot t k = true -> 0 <= k) ->
  (mco = true -> forall s v, aget s (names_of (p_c ps')) = Some v -> exists m, t_capnames t = Some m /\ aget s m = Some v) ->
  pstep mco ecma ps tok = Ok (ps', mk) ->
  mstep mco ecma t ms tok = Ok (ms', it) ->
  sim ps' ms' /\ agrees t mk it.
Proof.
  intros lim mco ecma t ps ms tok ps' mk ms' it Hlim [So [Si Sa]] Hinv Hlex Hsmall Hlt Hneg Hfin Hp Hm.
  unfold pstep in Hp. unfold mstep in Hm. rewrite So in Hm.
  destruct (ostep_prescan_ok (p_o ps) tok) as [o' Ho]. rewrite Ho in Hp. cbn [bind] in Hp.
  destruct (o_skip (p_o ps)) eqn:Hskip.
  { (* inside an x-mode comment *)
    injection Hp as <- <-.
    destruct (ostep MainPass (p_o ps) tok) as [o2| | |] eqn:Eo; try discriminate. cbn [bind] in Hm.
    injection Hm as <- <-. apply ostep_pre_of_main in Eo. rewrite Eo in Ho. injection Ho as ->.
    split; [|exact I]. repeat split; cbn; auto. }
  assert (Hmo : forall o2, ostep MainPass (p_o ps) tok = Ok o2 -> o2 = o').
  { intros o2 Eo. apply ostep_pre_of_main in Eo. congruence. }
  destruct tok.
  - (* TLit *)
    injection Hp as <- <-.
    destruct (ostep MainPass (p_o ps) (TLit c)) as [o2| | |] eqn:Eo; try discriminate. cbn [bind] in Hm.
    injection Hm as <- <-. rewrite (Hmo _ eq_refl). split; [|exact I]. repeat split; cbn; auto.
  - (* TOpen *)
    destruct (ostep MainPass (p_o ps) TOpen) as [o2| | |] eqn:Eo; try discriminate. cbn [bind] in Hm.
    rewrite (Hmo _ eq_refl) in Hm. rewrite Si, Sa in Hm.
    destruct (has (o_opts (p_o ps)) opt_n); cbn [negb andb orb] in *.
    + injection Hp as <- <-. injection Hm as <- <-. split; [|exact I]. repeat split; cbn; auto.
    + destruct (p_ign ps); cbn [negb] in *.
      * injection Hp as <- <-. injection Hm as <- <-. split; [|exact I]. repeat split; cbn; auto.
      * injection Hp as <- <-. injection Hm as <- <-.
        destruct (auto_slot_inv lim mco (p_c ps) Hinv Hlt) as [_ [H2 _]].
        split; [|reflexivity]. repeat split; cbn [m_o m_ign m_autocap p_o p_ign p_c gopen]; auto.
  - (* TNamed *)
    destruct (note_name mco ecma s (p_c ps)) as [c'| | |] eqn:En; try discriminate. cbn [bind] in Hp.
    injection Hp as <- <-.
    rewrite Si in Hm. destruct (p_ign ps) eqn:Ei; [discriminate|].
    destruct (ostep MainPass (p_o ps) (TNamed s)) as [o2| | |] eqn:Eo; try discriminate. cbn [bind] in Hm.
    rewrite (Hmo _ eq_refl) in Hm.
    destruct (is_name t s) eqn:Hn; [|discriminate]. injection Hm as <- <-.
    apply (sim_named lim mco ecma t s (p_c ps) c' (m_autocap ms) Hlim Sa Hinv (name_ok_lex mco s Hlex) Hlt En Hn).
    intros Hmco v Hv. apply (Hfin Hmco). exact Hv.
  - (* TNumbered *)
    rewrite Si in Hm. destruct (p_ign ps) eqn:Ei; [discriminate|].
    destruct ecma; [discriminate|].
    destruct (ostep MainPass (p_o ps) (TNumbered n)) as [o2| | |] eqn:Eo; try discriminate. cbn [bind] in Hm.
    rewrite (Hmo _ eq_refl) in Hm.
    destruct mco.
    { (* numbers kept in pattern order: the digits are a NAME, in both passes *)
      cbn [andb] in Hm. cbn in Hlex.
      destruct (n =? 0) eqn:E0.
      - (* "(?<0>": rejected *)
        apply Z.eqb_eq in E0. subst n. cbn [negb] in Hm.
        destruct (is_slot t 0); discriminate.
      - cbn [negb] in Hm. apply Z.eqb_neq in E0.
        destruct (n <=? 0) eqn:E1; [apply Z.leb_le in E1; lia|]. apply Z.leb_gt in E1.
        destruct (maxint32 <? n); [discriminate|].
        destruct (note_name true false (itoa n) (p_c ps)) as [c'| | |] eqn:En; try discriminate. cbn [bind] in Hp.
        injection Hp as <- <-.
        destruct (is_name t (itoa n)) eqn:Hn; [|discriminate]. injection Hm as <- <-.
        assert (Hok : name_ok true (itoa n)) by (right; split; [reflexivity|exists n; split; [lia|reflexivity]]).
        apply (sim_named lim true false t (itoa n) (p_c ps) c' (m_autocap ms) Hlim Sa Hinv Hok Hlt En Hn).
        intros Hmco v Hv. apply (Hfin Hmco). exact Hv. }
    cbn [andb] in Hm.
    destruct (is_slot t n) eqn:Hs; [|discriminate].
    destruct (n =? 0) eqn:E0; [discriminate|]. injection Hm as <- <-.
    apply Z.eqb_neq in E0. specialize (Hneg _ Hs).
    destruct (n <=? 0) eqn:E1; [apply Z.leb_le in E1; lia|].
    destruct (maxint32 <? n); [discriminate|].
    injection Hp as <- <-.
    destruct (note_slot_fields n (p_c ps)) as [Fa _].
    split; [|reflexivity]. repeat split; cbn [m_o m_ign m_autocap p_o p_ign p_c gopen consume_slot andb]; auto.
    now rewrite Fa.
  - (* TGroup *)
    injection Hp as <- <-.
    destruct (ostep MainPass (p_o ps) (TGroup k)) as [o2| | |] eqn:Eo; try discriminate. cbn [bind] in Hm.
    injection Hm as <- <-. rewrite (Hmo _ eq_refl). split; [|exact I]. repeat split; cbn; auto.
  - (* TOptGroup *)
    injection Hp as <- <-.
    destruct cs as [|c0 cs].
    + destruct (ostep MainPass (p_o ps) (TOptGroup [])) as [o2| | |] eqn:Eo; try discriminate. cbn [bind] in Hm.
      injection Hm as <- <-. rewrite (Hmo _ eq_refl). split; [|exact I]. repeat split; cbn; auto.
    + destruct (m_cur ms); [discriminate|].
      destruct (ostep MainPass (p_o ps) (TOptGroup (c0 :: cs))) as [o2| | |] eqn:Eo; try discriminate. cbn [bind] in Hm.
      injection Hm as <- <-. rewrite (Hmo _ eq_refl). split; [|exact I]. repeat split; cbn; auto.
  - (* TOptSet *)
    injection Hp as <- <-.
    destruct cs as [|c0 cs]; [discriminate|].
    destruct (m_cur ms); [discriminate|].
    destruct (ostep MainPass (p_o ps) (TOptSet (c0 :: cs))) as [o2| | |] eqn:Eo; try discriminate. cbn [bind] in Hm.
    injection Hm as <- <-. rewrite (Hmo _ eq_refl). split; [|exact I]. repeat split; cbn; auto.
  - (* TClose *)
    injection Hp as <- <-.
    destruct (m_gstack ms) as [|g gs]; [discriminate|].
    destruct (ostep MainPass (p_o ps) TClose) as [o2| | |] eqn:Eo; try discriminate. cbn [bind] in Hm.
    injection Hm as <- <-. rewrite (Hmo _ eq_refl). split; [|exact I]. repeat split; cbn; auto.
  - (* TCondHead *)
    injection Hp as <- <-.
    destruct (ostep MainPass (p_o ps) TCondHead) as [o2| | |] eqn:Eo; try discriminate. cbn [bind] in Hm.
    injection Hm as <- <-. rewrite (Hmo _ eq_refl). split; [|exact I]. repeat split; cbn; auto.
  - (* TCondNum *)
    injection Hp as <- <-.
    destruct (is_slot t n); [|discriminate].
    destruct (ostep MainPass (p_o ps) (TCondNum n)) as [o2| | |] eqn:Eo; try discriminate. cbn [bind] in Hm.
    injection Hm as <- <-. rewrite (Hmo _ eq_refl). split; [|exact I]. repeat split; cbn; auto.
  - (* TCondName *)
    injection Hp as <- <-.
    destruct (ostep MainPass (p_o ps) (TCondName s)) as [o2| | |] eqn:Eo; try discriminate. cbn [bind] in Hm.
    rewrite (Hmo _ eq_refl) in Hm.
    destruct (is_name t s); injection Hm as <- <-; (split; [|exact I]); repeat split; cbn; auto.
  - (* TBackNum *)
    injection Hp as <- <-.
    rewrite (ostep_noop PreScan (p_o ps) (TBackNum angled n) Hskip I) in Ho. injection Ho as <-.
    assert (Hms : ms' = ms /\ match it with ICapture _ => False | _ => True end).
    { destruct (ecma && angled && no_names t); [injection Hm as <- <-; auto|].
      destruct (is_slot t n); [injection Hm as <- <-; auto|].
      destruct angled; [discriminate|].
      destruct ((n <=? 9) && negb ecma); [discriminate|]. injection Hm as <- <-; auto. }
    destruct Hms as [-> Hit]. split; [|exact Hit]. repeat split; cbn; auto.
  - (* TBackName *)
    injection Hp as <- <-.
    rewrite (ostep_noop PreScan (p_o ps) (TBackName s) Hskip I) in Ho. injection Ho as <-.
    assert (Hms : ms' = ms /\ match it with ICapture _ => False | _ => True end).
    { destruct (ecma && no_names t); [injection Hm as <- <-; auto|].
      destruct (is_name t s); [injection Hm as <- <-; auto|discriminate]. }
    destruct Hms as [-> Hit]. split; [|exact Hit]. repeat split; cbn; auto.
  - (* TComment *)
    injection Hp as <- <-.
    rewrite Si in Hm. destruct (p_ign ps) eqn:Ei; [discriminate|].
    destruct (ostep MainPass (p_o ps) TComment) as [o2| | |] eqn:Eo; try discriminate. cbn [bind] in Hm.
    injection Hm as <- <-. rewrite (Hmo _ eq_refl). split; [|exact I]. repeat split; cbn; auto.
  - (* THash *)
    injection Hp as <- <-.
    destruct (ostep MainPass (p_o ps) THash) as [o2| | |] eqn:Eo; try discriminate. cbn [bind] in Hm.
    injection Hm as <- <-. rewrite (Hmo _ eq_refl). split; [|exact I]. repeat split; cbn; auto.
  - (* TNewline *)
    injection Hp as <- <-.
    destruct (ostep MainPass (p_o ps) TNewline) as [o2| | |] eqn:Eo; try discriminate. cbn [bind] in Hm.
    injection Hm as <- <-. rewrite (Hmo _ eq_refl). split; [|exact I]. repeat split; cbn; auto.
Qed.

Lemma sim_run : forall lim mco ecma t ts ps ms ps' mks ms' its,
  lim <= maxint32 -> sim ps ms -> pinv lim mco (p_c ps) ->
  Forall tok_lex ts -> Forall (tok_small lim) ts ->
  c_autocap (p_c ps) + Z.of_nat (length ts) < maxint32 ->
  (forall k, is_slot t k = true -> 0 <= k) ->
  (mco = true -> forall s v, aget s (names_of (p_c ps')) = Some v -> exists m, t_capnames t = Some m /\ aget s m = Some v) ->
  prun mco ecma ps ts = Ok (ps', mks) ->
  mrun mco ecma t ms ts = Ok (ms', its) ->
  Forall2 (agrees t) mks its /\ sim ps' ms'.
Proof.
  intros lim mco ecma t ts. induction ts as [|tok ts IH];
    intros ps ms ps' mks ms' its Hlim Hsim Hinv Hlex Hsmall Hlt Hneg Hfin Hp Hm.
  - cbn in Hp, Hm. injection Hp as <- <-. injection Hm as <- <-. split; [constructor|assumption].
  - cbn [prun] in Hp. cbn [mrun] in Hm.
    destruct (pstep mco ecma ps tok) as [[ps1 mk]| | |] eqn:E1; try discriminate. cbn [bind] in Hp.
    destruct (prun mco ecma ps1 ts) as [[ps2 mks2]| | |] eqn:E2; try discriminate. cbn [bind] in Hp.
    injection Hp as <- <-.
    destruct (mstep mco ecma t ms tok) as [[ms1 it]| | |] eqn:F1; try discriminate. cbn [bind] in Hm.
    destruct (mrun mco ecma t ms1 ts) as [[ms2 its2]| | |] eqn:F2; try discriminate. cbn [bind] in Hm.
    injection Hm as <- <-.
    inversion Hlex as [|? ? Hl1 Hl2]; subst. inversion Hsmall as [|? ? Hs1 Hs2]; subst.
    cbn [length] in Hlt.
    destruct (pstep_inv lim Hlim mco ecma ps tok ps1 mk Hinv Hl1 Hs1 ltac:(lia) E1) as [P1 [P2 _]].
    destruct (prun_inv lim Hlim mco ecma ts ps1 ps2 mks2 P1 Hl2 Hs2 ltac:(lia) E2) as [_ [_ [_ [Q4 _]]]].
    destruct (sim_step lim mco ecma t ps ms tok ps1 mk ms1 it Hlim Hsim Hinv Hl1 Hs1 ltac:(lia) Hneg) as [S1 A1]; try assumption.
    { intros Hmco s v Hv. apply (Hfin Hmco). now apply Q4. }
    destruct (IH ps1 ms1 ps2 mks2 ms2 its2 Hlim S1 P1 Hl2 Hs2 ltac:(lia) Hneg Hfin E2 F2) as [A2 S2].
    split; [constructor; assumption|assumption].
Qed.

(* prescan_agrees_with_parse: token by token, the main pass captures exactly where the pre-scan
   reserved a number, and with that number *)
Theorem prescan_agrees : forall lim mco ecma o ts t mks ms its,
  (ecma = true -> mco = true) -> ts_ok_unguarded lim ts ->
  prescan mco ecma o ts = Ok (t, mks) ->
  mrun mco ecma t (m_init o) ts = Ok (ms, its) ->
  Forall2 (agrees t) mks its.
Proof.
  intros lim mco ecma o ts t mks ms its Hem Hok Hpre Hm.
  destruct (prescan_wf_weak lim mco ecma o ts t mks Hem Hok Hpre) as [[WF _] _].
  destruct Hok as [Hlex [Hsmall [Hlim Hb]]].
  unfold prescan in Hpre.
  destruct (prun mco ecma (p_init o) ts) as [[st mks']| | |] eqn:Ep; try discriminate. cbn [bind] in Hpre.
  destruct (prun_inv lim Hlim mco ecma ts (p_init o) st mks' (pinv_init lim mco) Hlex Hsmall
              ltac:(cbn [p_init p_c c_init c_autocap]; lia) Ep) as [Hinv _].
  assert (Hneg : forall k, is_slot t k = true -> 0 <= k).
  { intros k Hk. unfold is_slot in Hk. apply zmem_In in Hk. eapply caps_nonneg; eauto. }
  assert (Hfin : mco = true -> forall s v, aget s (names_of (p_c st)) = Some v ->
                 exists m, t_capnames t = Some m /\ aget s m = Some v /\ mks' = mks).
  { intros -> s v Hv.
    destruct (assign_ordered ecma (p_c st)) as [t'| | |] eqn:Ea; try discriminate. cbn [bind] in Hpre.
    injection Hpre as <- <-.
    destruct (assign_ordered_weak lim ecma (p_c st) t' Hinv Ea) as [_ [_ H3]].
    destruct (H3 s v Hv) as [m [Hm1 Hm2]]. eauto. }
  assert (Hmks : mks' = mks).
  { destruct (if mco then assign_ordered ecma (p_c st) else assign_default (p_c st)); try discriminate.
    cbn [bind] in Hpre. now injection Hpre as _ <-. }
  subst mks'.
  eapply (sim_run lim mco ecma t ts (p_init o) (m_init o) st mks ms its Hlim); eauto.
  - repeat split.
  - apply pinv_init.
  - cbn [p_init p_c c_init c_autocap]. lia.
  - intros Hmco s v Hv. destruct (Hfin Hmco s v Hv) as [m [H1 [H2 _]]]. eauto.
Qed.

(* every number held by Capnames is a group number *)
Theorem prescan_vals : forall lim mco ecma o ts t mks,
  (ecma = true -> mco = true) -> ts_ok_unguarded lim ts ->
  prescan mco ecma o ts = Ok (t, mks) -> vals_ok t.
Proof.
  intros lim mco ecma o ts t mks Hem [Hlex [Hsmall [Hlim Hb]]] H.
  unfold prescan in H.
  destruct (prun mco ecma (p_init o) ts) as [[st mks']| | |] eqn:Ep; try discriminate. cbn [bind] in H.
  pose proof (prun_len _ _ _ _ _ _ Ep) as Hnl. cbn in Hnl.
  destruct (prun_inv lim Hlim mco ecma ts (p_init o) st mks' (pinv_init lim mco) Hlex Hsmall
              ltac:(cbn [p_init p_c c_init c_autocap]; lia) Ep) as [Hinv [Hauto _]].
  cbn [p_init p_c c_init c_autocap] in Hauto.
  destruct mco.
  - destruct (assign_ordered ecma (p_c st)) as [t'| | |] eqn:Ea; try discriminate. cbn [bind] in H.
    injection H as <- _. apply (assign_ordered_vals lim ecma (p_c st) t' Hinv Ea).
  - destruct (assign_default (p_c st)) as [t'| | |] eqn:Ea; try discriminate. cbn [bind] in H.
    injection H as <- _. apply (assign_default_vals lim (p_c st) t' Hinv); [|assumption].
    pose proof (pi_topb _ _ _ Hinv). lia.
Qed.
