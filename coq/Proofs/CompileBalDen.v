(* compile_correct with balancing captures, part 0: what an interpreter capture array DENOTES.

   match.go keeps, per slot, a flat array of pairs.  A pair (i, n) with i >= 0 is a recorded capture.
   A balancing capture (?<g-u>...) does not delete the newest capture of u: balanceMatch APPENDS a
   marker pair (-3-t, -4-t) meaning "the newest live capture is now the pair at word index t"
   (t = -2: none).  isMatched / matchIndex / matchLength follow one marker; Match.tidy compacts later.

   [Den ps stk]: the array  flat (rev ps)  (ps = its pairs, newest first) is well formed and denotes the
   stack [stk] of live captures (newest first) -- the reference semantics' per-group capture stack.
   Facts proved here, all by computation on VM.v's own functions:
     bd_is_matched     vm_is_matched      = (stack non-empty)
     bd_index_length   vm_match_index/len = newest live capture
     bd_balance        balance_match appends a marker whose denotation is the POPPED stack
   [caps_rel2] is CompileBase.caps_rel with "= flat (rev stack)" replaced by "denotes stack";
   without markers the two coincide (bd_caps_rel_of_plain). *)
From Verif Require Import Base.Prelude Model.Tree Model.Spec Model.VM Model.Writer
  Proofs.SpecProofs Proofs.SpecBoundsProofs Proofs.VMU Proofs.VMUOps Proofs.VMUOps2 Proofs.VMUOps6
  Proofs.CompileBase Proofs.CompileDefs Proofs.CapFacts.
From Coq Require Import ZifyBool.

Inductive Den : list (Z * Z) -> list (Z * Z) -> Prop :=
| Den_nil : Den [] []
| Den_push ps stk i n : Den ps stk -> 0 <= i -> 0 <= n -> Den ((i, n) :: ps) ((i, n) :: stk)
| Den_bal0 ps m1 m2 : m1 = -1 -> m2 = -2 -> Den ((m1, m2) :: ps) []
| Den_bal ps k i n ps' stk' m1 m2 :
    m1 = -3 - 2 * Z.of_nat k -> m2 = -4 - 2 * Z.of_nat k ->
    (k < length ps)%nat -> skipn (length ps - S k) ps = (i, n) :: ps' -> 0 <= i ->
    Den ((i, n) :: ps') stk' ->
    Den ((m1, m2) :: ps) stk'.

(* ---------- list / array bookkeeping ---------- *)
Lemma bd_zlen_flat l : zlen (flat l) = 2 * zlen l.
Proof.
  induction l as [|[i n] l IH]; cbn [flat]; [reflexivity|]. rewrite !zlen_cons, IH. lia.
Qed.

Lemma bd_flat_rev_cons x ps : flat (rev (x :: ps)) = flat (rev ps) ++ [fst x; snd x].
Proof. cbn [rev]. rewrite cc_flat_app. destruct x as [i n]. reflexivity. Qed.

Lemma bd_znth_app_l {A} (a b : list A) i : i < zlen a -> znth (a ++ b) i = znth a i.
Proof.
  intros H. unfold znth. destruct (i <? 0) eqn:E; [reflexivity|].
  apply nth_error_app1. unfold zlen in H. lia.
Qed.

Lemma bd_znth_app_r {A} (a b : list A) i : 0 <= i -> znth (a ++ b) (zlen a + i) = znth b i.
Proof.
  intros H. unfold znth. pose proof (zlen_nonneg a) as Ha.
  replace (zlen a + i <? 0) with false by lia. replace (i <? 0) with false by lia.
  unfold zlen in *. rewrite nth_error_app2 by lia. f_equal. lia.
Qed.

Lemma bd_skipn_plus {A} (l1 l2 : list A) j : skipn (length l1 + j) (l1 ++ l2) = skipn j l2.
Proof. induction l1 as [|x l1 IH]; cbn [length app plus skipn]; [reflexivity|exact IH]. Qed.

Lemma bd_skipn_suffix {A} (ps pre suf : list A) m : ps = pre ++ suf -> (m <= length suf)%nat ->
  skipn (length ps - m) ps = skipn (length suf - m) suf.
Proof.
  intros -> Hm. rewrite app_length.
  replace (length pre + length suf - m)%nat with (length pre + (length suf - m))%nat by lia.
  apply bd_skipn_plus.
Qed.

Lemma bd_suffix {A} (ps pre suf : list A) : ps = pre ++ suf -> skipn (length ps - length suf) ps = suf.
Proof.
  intros H. rewrite (bd_skipn_suffix ps pre suf (length suf) H) by lia.
  rewrite Nat.sub_diag. reflexivity.
Qed.

(* the pair with index k (counted from the oldest) of the array of [ps] *)
Lemma bd_pair_at ps k x rest : (k < length ps)%nat -> skipn (length ps - S k) ps = x :: rest ->
  znth (flat (rev ps)) (2 * Z.of_nat k) = Some (fst x) /\
  znth (flat (rev ps)) (2 * Z.of_nat k + 1) = Some (snd x).
Proof.
  intros Hk Hs.
  assert (Hl : length rest = k).
  { pose proof (skipn_length (length ps - S k) ps) as L. rewrite Hs in L. cbn [length] in L. lia. }
  rewrite <- (firstn_skipn (length ps - S k) ps), Hs.
  rewrite rev_app_distr. cbn [rev]. rewrite <- app_assoc, !cc_flat_app. destruct x as [i n]. cbn [flat app fst snd].
  assert (Hz : zlen (flat (rev rest)) = 2 * Z.of_nat k).
  { rewrite bd_zlen_flat. unfold zlen. rewrite rev_length, Hl. reflexivity. }
  split.
  - replace (2 * Z.of_nat k) with (zlen (flat (rev rest)) + 0) by lia. rewrite bd_znth_app_r by lia. reflexivity.
  - replace (2 * Z.of_nat k + 1) with (zlen (flat (rev rest)) + 1) by lia. rewrite bd_znth_app_r by lia. reflexivity.
Qed.

(* ---------- match.go's readers as functions of one array ---------- *)
Definition arr_is_matched (a : list Z) : option bool :=
  if zlen a =? 0 then Some false
  else match znth a (zlen a - 1) with Some w => Some (negb (w =? -2)) | None => None end.
Definition arr_index (a : list Z) : option Z :=
  match znth a (zlen a - 2) with
  | None => None
  | Some i => if 0 <=? i then Some i else znth a (-3 - i)
  end.
Definition arr_length (a : list Z) : option Z :=
  match znth a (zlen a - 1) with
  | None => None
  | Some i => if 0 <=? i then Some i else znth a (-3 - i)
  end.
Definition arr_marker (a : list Z) : option (Z * Z) :=
  let target0 := zlen a - 2 in
  match znth a target0 with
  | None => None
  | Some w =>
      let target1 := if w <? 0 then -3 - w else target0 in
      let target := target1 - 2 in
      if 0 <=? target then
        match znth a target, znth a (target + 1) with
        | Some x, Some y => if x <? 0 then Some (x, y) else Some (-3 - target, -4 - target)
        | _, _ => None
        end
      else Some (-3 - target, -4 - target)
  end.

Lemma bd_vm_is_matched c M a : 0 <= c -> mc_get c M = Some a -> vm_is_matched c M = arr_is_matched a.
Proof. intros Hc H. unfold vm_is_matched. replace (c <? 0) with false by lia. rewrite H. reflexivity. Qed.
Lemma bd_vm_index c M a : mc_get c M = Some a -> vm_match_index c M = arr_index a.
Proof. intros H. unfold vm_match_index. rewrite H. reflexivity. Qed.
Lemma bd_vm_length c M a : mc_get c M = Some a -> vm_match_length c M = arr_length a.
Proof. intros H. unfold vm_match_length. rewrite H. reflexivity. Qed.
Lemma bd_vm_balance c M a x y : mc_get c M = Some a -> arr_marker a = Some (x, y) ->
  balance_match c M = Some (mc_set c (a ++ [x; y]) M).
Proof.
  intros H Hm. unfold balance_match, arr_marker in *. rewrite H. cbv zeta in Hm.
  destruct (znth a (zlen a - 2)) as [w|]; [|discriminate].
  destruct (0 <=? (if w <? 0 then -3 - w else zlen a - 2) - 2).
  - destruct (znth a ((if w <? 0 then -3 - w else zlen a - 2) - 2)) as [x0|]; [|discriminate].
    destruct (znth a ((if w <? 0 then -3 - w else zlen a - 2) - 2 + 1)) as [y0|]; [|discriminate].
    destruct (x0 <? 0); injection Hm as <- <-; unfold add_match; rewrite H; reflexivity.
  - injection Hm as <- <-. unfold add_match. rewrite H. reflexivity.
Qed.

(* ---------- what a denoting array answers ---------- *)
Lemma bd_den_nil_inv stk : Den [] stk -> stk = [].
Proof. intros H. inversion H. reflexivity. Qed.

Lemma bd_den_pos_inv i n ps stk : 0 <= i -> Den ((i, n) :: ps) stk ->
  exists stk', stk = (i, n) :: stk' /\ Den ps stk' /\ 0 <= n.
Proof.
  intros Hi H. inversion H; subst; try (exfalso; lia).
  eexists. repeat split; eassumption.
Qed.

Lemma bd_last2 ps x : let a := flat (rev (x :: ps)) in
  znth a (zlen a - 1) = Some (snd x) /\ znth a (zlen a - 2) = Some (fst x) /\ zlen a = 2 * zlen ps + 2.
Proof.
  cbv zeta. rewrite bd_flat_rev_cons.
  destruct (cf_znth_last2 (flat (rev ps)) (fst x) (snd x)) as [H1 H2]. split; [exact H1|]. split; [exact H2|].
  rewrite zlen_app, bd_zlen_flat. unfold zlen. rewrite rev_length. cbn [length]. lia.
Qed.

Lemma bd_is_matched ps stk : Den ps stk ->
  arr_is_matched (flat (rev ps)) = Some (match stk with [] => false | _ => true end).
Proof.
  intros H. unfold arr_is_matched. inversion H; subst.
  - reflexivity.
  - destruct (bd_last2 ps0 (i, n)) as (L1 & _ & Lz). cbn [snd] in L1. rewrite L1, Lz.
    pose proof (zlen_nonneg ps0). replace (2 * zlen ps0 + 2 =? 0) with false by lia.
    replace (n =? -2) with false by lia. reflexivity.
  - destruct (bd_last2 ps0 (-1, -2)) as (L1 & _ & Lz). cbn [snd] in L1. rewrite L1, Lz.
    pose proof (zlen_nonneg ps0). replace (2 * zlen ps0 + 2 =? 0) with false by lia. reflexivity.
  - destruct (bd_last2 ps0 (-3 - 2 * Z.of_nat k, -4 - 2 * Z.of_nat k)) as (L1 & _ & Lz). cbn [snd] in L1. rewrite L1, Lz.
    pose proof (zlen_nonneg ps0). replace (2 * zlen ps0 + 2 =? 0) with false by lia.
    replace (-4 - 2 * Z.of_nat k =? -2) with false by lia. cbn [negb].
    match goal with Hd : Den ((i, n) :: ps') stk |- _ => apply bd_den_pos_inv in Hd; [|assumption] end.
    match goal with Hd : exists _, _ |- _ => destruct Hd as (stk1 & -> & _) end. reflexivity.
Qed.

Lemma bd_index_length ps i n stk : Den ps ((i, n) :: stk) ->
  arr_index (flat (rev ps)) = Some i /\ arr_length (flat (rev ps)) = Some n /\ 0 <= i /\ 0 <= n.
Proof.
  intros H. unfold arr_index, arr_length. inversion H; subst.
  - destruct (bd_last2 ps0 (i, n)) as (L1 & L2 & _). cbn [fst snd] in L1, L2. rewrite L1, L2.
    replace (0 <=? i) with true by lia. replace (0 <=? n) with true by lia. repeat split; try reflexivity; assumption.
  - destruct (bd_last2 ps0 (-3 - 2 * Z.of_nat k, -4 - 2 * Z.of_nat k)) as (L1 & L2 & Lz). cbn [fst snd] in L1, L2.
    rewrite L1, L2.
    replace (0 <=? -3 - 2 * Z.of_nat k) with false by lia. replace (0 <=? -4 - 2 * Z.of_nat k) with false by lia.
    replace (-3 - (-3 - 2 * Z.of_nat k)) with (2 * Z.of_nat k) by lia.
    replace (-3 - (-4 - 2 * Z.of_nat k)) with (2 * Z.of_nat k + 1) by lia.
    rewrite bd_flat_rev_cons.
    match goal with Hs : skipn _ ps0 = _ |- _ => destruct (bd_pair_at ps0 k _ _ ltac:(assumption) Hs) as [P1 P2] end.
    assert (Hlt : 2 * Z.of_nat k + 1 < zlen (flat (rev ps0))).
    { rewrite bd_zlen_flat. unfold zlen. rewrite rev_length. lia. }
    rewrite !bd_znth_app_l by lia. rewrite P1, P2. cbn [fst snd].
    match goal with Hd : Den ((?i0, ?n0) :: ps') _ |- _ => apply bd_den_pos_inv in Hd; [|assumption];
      destruct Hd as (stk1 & E & _ & Hn); injection E as <- <- _ end.
    repeat split; try reflexivity; assumption.
Qed.

(* the marker balanceMatch computes when the newest live capture is the pair just above [ps1] *)
Lemma bd_marker_below ps pre x ps1 stk : ps = pre ++ x :: ps1 -> Den ps1 stk ->
  let a := flat (rev ps) in
  let target := 2 * zlen ps1 - 2 in
  exists mk,
    (if 0 <=? target then
       match znth a target, znth a (target + 1) with
       | Some x, Some y => if x <? 0 then Some (x, y) else Some (-3 - target, -4 - target)
       | _, _ => None
       end
     else Some (-3 - target, -4 - target)) = Some mk /\ Den (mk :: ps) stk.
Proof.
  intros Hps Hd. cbv zeta.
  destruct ps1 as [|[x1 y1] ps2].
  - change (2 * zlen (@nil (Z * Z)) - 2) with (-2). change (0 <=? -2) with false. cbv iota.
    eexists. split; [reflexivity|].
    apply bd_den_nil_inv in Hd. subst stk. apply Den_bal0; reflexivity.
  - rewrite zlen_cons. pose proof (zlen_nonneg ps2) as Hz2.
    replace (0 <=? 2 * (1 + zlen ps2) - 2) with true by lia.
    replace (2 * (1 + zlen ps2) - 2) with (2 * Z.of_nat (length ps2)) by (unfold zlen; lia).
    assert (Hpre : ps = (pre ++ [x]) ++ (x1, y1) :: ps2) by (rewrite <- app_assoc; exact Hps).
    assert (Hk : (length ps2 < length ps)%nat).
    { rewrite Hpre, app_length. cbn [length]. lia. }
    assert (Hs : skipn (length ps - S (length ps2)) ps = (x1, y1) :: ps2).
    { apply (bd_suffix ps (pre ++ [x]) ((x1, y1) :: ps2) Hpre). }
    destruct (bd_pair_at ps (length ps2) _ _ Hk Hs) as [P1 P2]. cbn [fst snd] in P1, P2. rewrite P1, P2.
    destruct (x1 <? 0) eqn:Ex.
    + eexists. split; [reflexivity|].
      inversion Hd; subst; try lia.
      * apply Den_bal0; reflexivity.
      * match goal with Hs' : skipn (length ps2 - S ?k0) ps2 = _ |- _ =>
          eapply Den_bal with (k := k0); [reflexivity|reflexivity| | |eassumption|eassumption];
          [rewrite app_length; cbn [length]; lia|];
          match goal with |- skipn _ (?pr ++ ?a :: ?b :: ps2) = _ =>
            rewrite (bd_skipn_suffix (pr ++ a :: b :: ps2) (pr ++ [a; b]) ps2 (S k0));
              [exact Hs'|rewrite <- app_assoc; reflexivity|lia]
          end
        end.
    + eexists. split; [reflexivity|].
      eapply Den_bal with (k := length ps2); [reflexivity|reflexivity|exact Hk|exact Hs|lia|exact Hd].
Qed.

Lemma bd_balance ps top stk : Den ps (top :: stk) ->
  exists mk, arr_marker (flat (rev ps)) = Some mk /\ Den (mk :: ps) stk.
Proof.
  intros H. unfold arr_marker. cbv zeta. inversion H; subst.
  - destruct (bd_last2 ps0 (i, n)) as (_ & L2 & Lz). cbn [fst] in L2. rewrite L2, Lz.
    replace (i <? 0) with false by lia.
    replace (2 * zlen ps0 + 2 - 2 - 2) with (2 * zlen ps0 - 2) by lia.
    apply (bd_marker_below ((i, n) :: ps0) [] (i, n) ps0 stk); [reflexivity|assumption].
  - destruct (bd_last2 ps0 (-3 - 2 * Z.of_nat k, -4 - 2 * Z.of_nat k)) as (_ & L2 & Lz). cbn [fst] in L2. rewrite L2.
    replace (-3 - 2 * Z.of_nat k <? 0) with true by lia.
    match goal with Hd : Den ((?i0, ?n0) :: ps') _ |- _ => apply bd_den_pos_inv in Hd; [|assumption];
      destruct Hd as (stk1 & E & Hd & _); injection E as -> <- end.
    assert (Hl : length ps' = k).
    { match goal with Hs : skipn _ ps0 = _ |- _ =>
        pose proof (skipn_length (length ps0 - S k) ps0) as L; rewrite Hs in L; cbn [length] in L end. lia. }
    replace (-3 - (-3 - 2 * Z.of_nat k) - 2) with (2 * zlen ps' - 2) by (unfold zlen; lia).
    match goal with Hs : skipn _ ps0 = _ |- _ =>
      apply (bd_marker_below _ ((-3 - 2 * Z.of_nat k, -4 - 2 * Z.of_nat k) :: firstn (length ps0 - S k) ps0) (i, n) ps' stk);
        [|assumption];
      cbn [app]; f_equal; rewrite <- Hs; symmetry; apply firstn_skipn
    end.
Qed.

(* transferCapture's interval arithmetic is Spec.balance_span *)
Lemma bd_transfer_span x t s2 l2 :
  (let '(a0, b0) := if t <? x then (t, x) else (x, t) in
   let e2 := s2 + l2 in
   let '(a, b) := if e2 <=? a0 then (e2, a0) else if b0 <=? s2 then (b0, s2) else (Z.max a0 s2, Z.min b0 e2) in
   (a, b - a)) = balance_span x t (s2, l2).
Proof.
  unfold balance_span, span. cbn [fst snd].
  destruct (t <? x) eqn:E.
  - replace (Z.min x t) with t by lia. replace (Z.abs (t - x)) with (x - t) by lia.
    replace (t + (x - t)) with x by lia.
    destruct (s2 + l2 <=? t); [reflexivity|]. destruct (x <=? s2); reflexivity.
  - replace (Z.min x t) with x by lia. replace (Z.abs (t - x)) with (t - x) by lia.
    replace (x + (t - x)) with t by lia.
    destruct (s2 + l2 <=? x); [reflexivity|]. destruct (t <=? s2); reflexivity.
Qed.

(* ---------- the capture relation ---------- *)
Section CR.
Variable e : env.
Variable p : program.

Definition caps_rel2 (c : caps_t) (M : list (list Z)) : Prop :=
  zlen M = capsize p /\
  forall g, 0 <= g < capsize p -> exists ps, nth (Z.to_nat g) M [] = flat (rev ps) /\ Den ps (cap_get g c).

Lemma bd_den_plain stk : Forall (sb_iv_ok e) stk -> Den stk stk.
Proof.
  induction 1 as [|[i n] stk Hiv _ IH]; [constructor|].
  destruct Hiv as (Hi & Hn & _). cbn [fst snd] in *. constructor; assumption.
Qed.

(* without balancing markers the relation is the plain one *)
Lemma bd_caps_rel_of_plain c M : sb_caps_ok e c -> caps_rel p c M -> caps_rel2 c M.
Proof.
  intros Hok [Hl Hc]. split; [exact Hl|]. intros g Hg. exists (cap_get g c). split; [apply Hc; exact Hg|].
  apply bd_den_plain. apply sb_caps_ok_get. exact Hok.
Qed.

Lemma bd_caps_rel_init : 0 <= capsize p -> caps_rel2 [] (repeat [] (Z.to_nat (capsize p))).
Proof.
  intros H. split.
  - unfold zlen. rewrite repeat_length. lia.
  - intros g Hg. exists []. split; [|constructor]. cbn [rev flat].
    destruct (nth_in_or_default (Z.to_nat g) (repeat (@nil Z) (Z.to_nat (capsize p))) []) as [Hin|Hd]; [|exact Hd].
    apply repeat_spec in Hin. exact Hin.
Qed.

Lemma bd_mc_get M g : zlen M = capsize p -> 0 <= g < capsize p -> mc_get g M = Some (nth (Z.to_nat g) M []).
Proof. intros Hl Hg. unfold mc_get. apply cc_znth_nth. lia. Qed.

Lemma bd_caps_rel_push c M g iv : caps_rel2 c M -> 0 <= g < capsize p -> 0 <= fst iv -> 0 <= snd iv ->
  caps_rel2 (cap_push g iv c) (mc_set g (nth (Z.to_nat g) M [] ++ [fst iv; snd iv]) M).
Proof.
  intros [Hl Hc] Hg Hi Hn. split.
  - unfold mc_set, zlen. rewrite cc_list_set_length. exact Hl.
  - intros g' Hg'. unfold mc_set, cap_push. destruct (Z.eq_dec g' g) as [->|Hne].
    + rewrite cc_nth_list_set_same by (unfold zlen in Hl; lia).
      rewrite sb_cap_get_set_same. destruct (Hc g Hg) as (ps & Ea & Hd). exists (iv :: ps). split.
      * rewrite bd_flat_rev_cons, Ea. reflexivity.
      * destruct iv as [i n]. apply Den_push; assumption.
    + rewrite cc_nth_list_set_other by lia. rewrite sb_cap_get_set_other by exact Hne. apply Hc. exact Hg'.
Qed.

Lemma bd_matched c M g : caps_rel2 c M -> 0 <= g < capsize p -> vm_is_matched g M = Some (is_matched g c).
Proof.
  intros [Hl Hc] Hg. destruct (Hc g Hg) as (ps & Ea & Hd).
  rewrite (bd_vm_is_matched g M _ ltac:(lia) (bd_mc_get M g Hl Hg)), Ea.
  rewrite (bd_is_matched ps _ Hd). reflexivity.
Qed.

Lemma bd_caps_index_length c M g i len rest : caps_rel2 c M -> 0 <= g < capsize p -> sb_caps_ok e c ->
  cap_get g c = (i, len) :: rest ->
  vm_match_index g M = Some i /\ vm_match_length g M = Some len /\ 0 <= i /\ 0 <= len /\ i + len <= tlen e.
Proof.
  intros [Hl Hc] Hg Hok Hget. destruct (Hc g Hg) as (ps & Ea & Hd). rewrite Hget in Hd.
  rewrite (bd_vm_index g M _ (bd_mc_get M g Hl Hg)), (bd_vm_length g M _ (bd_mc_get M g Hl Hg)), Ea.
  destruct (bd_index_length ps i len rest Hd) as (H1 & H2 & Hi & Hn).
  pose proof (sb_caps_ok_get e g c Hok) as F. rewrite Hget in F. inversion F as [|? ? Hiv _]; subst.
  destruct Hiv as (_ & _ & Hsum). cbn [fst snd] in Hsum.
  repeat split; assumption.
Qed.

Lemma bd_caps_rel_reads c M g : caps_rel2 c M -> 0 <= g < capsize p -> sb_caps_ok e c ->
  vm_is_matched g M = Some (is_matched g c) /\
  forall i len rest, cap_get g c = (i, len) :: rest ->
    vm_match_index g M = Some i /\ vm_match_length g M = Some len.
Proof.
  intros H Hg Hok. split; [exact (bd_matched c M g H Hg)|].
  intros i len rest Hget. destruct (bd_caps_index_length c M g i len rest H Hg Hok Hget) as (H1 & H2 & _).
  split; assumption.
Qed.

(* balanceMatch on a slot whose stack is non-empty: the marked array denotes the popped stack *)
Lemma bd_caps_rel_balance c M u top rest : caps_rel2 c M -> 0 <= u < capsize p -> cap_get u c = top :: rest ->
  exists x y, let M1 := mc_set u (nth (Z.to_nat u) M [] ++ [x; y]) M in
    balance_match u M = Some M1 /\ caps_rel2 (cap_pop u c) M1.
Proof.
  intros [Hl Hc] Hu Hget. destruct (Hc u Hu) as (ps & Ea & Hd). rewrite Hget in Hd.
  destruct (bd_balance ps top rest Hd) as ([x y] & Hm & Hd'). exists x, y. cbv zeta. split.
  - apply bd_vm_balance; [apply bd_mc_get; assumption|]. rewrite Ea. exact Hm.
  - split.
    + unfold mc_set, zlen. rewrite cc_list_set_length. exact Hl.
    + intros g Hg. unfold mc_set, cap_pop. destruct (Z.eq_dec g u) as [->|Hne].
      * rewrite cc_nth_list_set_same by (unfold zlen in Hl; lia). rewrite sb_cap_get_set_same, Hget. cbn [tl].
        exists ((x, y) :: ps). split; [|exact Hd']. rewrite bd_flat_rev_cons, Ea. reflexivity.
      * rewrite cc_nth_list_set_other by lia. rewrite sb_cap_get_set_other by exact Hne. apply Hc. exact Hg.
Qed.

End CR.
