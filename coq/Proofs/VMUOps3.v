(* Per-opcode lemmas for the general loop opcodes: Branchmark / Lazybranchmark,
   Setcount / Nullcount, Branchcount / Lazybranchcount (forward, Back and Back2 entries),
   by symbolic evaluation of VM.step; then their root-slot liftings. *)
From Verif Require Import Base.Prelude Model.Tree Model.Spec Model.VM Model.Writer Gen.RunnerGen
  Proofs.VMU Proofs.VMUOps Proofs.VMUOps2.
From Coq Require Import Relations ZifyBool.

Section Ops3.
Variable e : env.
Variable p : program.
Hypothesis tc_nonneg : 0 <= trackcount p.

Notation ustep := (VMU.ustep e p).
Notation mk := VMU.mk.

Ltac start H0 :=
  unfold VMU.ustep, step; cbn [repad VMU.mk pc mode tp track stack crawl mcaps tcap scap]; rewrite H0.
Ltac fin := cbn [bind cont norm VMU.mk repad set_pc set_tp set_track set_stack set_caps set_tcap set_scap pc mode tp track stack crawl mcaps tcap scap app];
            try reflexivity.
Ltac pcs := cbn [repad VMU.mk set_pc set_tp set_track set_stack set_caps pc]; lia.
Ltac adv n H := erewrite (advance_at p _ _ n) by (first [exact H | pcs]).
Ltac opn a H := erewrite (opnd_at p _ _ a) by (first [exact H | pcs]).
Ltac gto H := erewrite goto_ok by (first [exact H | room]).
Ltac tpu := rewrite tpush_ok by room; cbn [bind].
Ltac spu := rewrite spush_ok by room; cbn [bind].
Ltac fail_to H3 := (erewrite brk_ok; [| cbn [repad VMU.mk set_pc set_tp set_track set_stack set_caps track]; reflexivity | exact H3 | room | room]).

(* ---------- Branchmark ---------- *)
Lemma ustep_branchmark_loop pc0 t x T S C M L w2 :
  code_at p pc0 = Some Branchmark -> code_at p (pc0 + 1) = Some L -> code_at p L = Some w2 -> t <> x ->
  ustep (mk pc0 0 t T (x :: S) C M) = Ok (Next (mk L 0 t (pc0 :: t :: x :: T) (t :: S) C M)).
Proof.
  intros H0 H1 H2 Hne. start H0. change (Z.land Branchmark 63) with 24. cbn -[opnd tpush spush goto advance Z.sub].
  opn (pc0 + 1) H1. cbn [bind]. replace (t - x =? 0) with false by lia. cbn [negb].
  tpu. spu. gto H2. fin.
Qed.

Lemma ustep_branchmark_empty pc0 t T S C M L w2 :
  code_at p pc0 = Some Branchmark -> code_at p (pc0 + 1) = Some L -> code_at p (pc0 + 2) = Some w2 ->
  ustep (mk pc0 0 t T (t :: S) C M) = Ok (Next (mk (pc0 + 2) 0 t (- pc0 :: t :: T) S C M)).
Proof.
  intros H0 H1 H2. start H0. change (Z.land Branchmark 63) with 24. cbn -[opnd tpush spush goto advance Z.sub].
  opn (pc0 + 1) H1. cbn [bind]. replace (t - t =? 0) with true by lia. cbn [negb].
  tpu. adv (pc0 + 2) H2. fin.
Qed.

Lemma ustep_branchmark_back pc0 t t2 t1 T y S C M w2 :
  code_at p pc0 = Some Branchmark -> code_at p (pc0 + 2) = Some w2 ->
  ustep (mk pc0 BackBit t (t2 :: t1 :: T) (y :: S) C M) = Ok (Next (mk (pc0 + 2) 0 t2 (- pc0 :: t1 :: T) S C M)).
Proof.
  intros H0 H2. start H0. change (Z.land Branchmark 63) with 24. cbn -[opnd tpush spush goto advance].
  tpu. adv (pc0 + 2) H2. fin.
Qed.

Lemma ustep_branchmark_back2 pc0 t x np T S C M w3 :
  code_at p pc0 = Some Branchmark -> code_at p (Z.abs np) = Some w3 ->
  ustep (mk pc0 Back2Bit t (x :: np :: T) S C M) = Ok (Next (bk np t T (x :: S) C M)).
Proof.
  intros H0 H3. start H0. change (Z.land Branchmark 63) with 24. cbn -[opnd tpush spush goto advance brk].
  spu. fail_to H3; fin.
Qed.

(* ---------- Lazybranchmark ---------- *)
Lemma ustep_lazybranchmark_fwd pc0 t x T S C M L w2 :
  code_at p pc0 = Some Lazybranchmark -> code_at p (pc0 + 1) = Some L -> code_at p (pc0 + 2) = Some w2 -> t <> x ->
  ustep (mk pc0 0 t T (x :: S) C M) =
  Ok (Next (mk (pc0 + 2) 0 t (pc0 :: t :: (if x =? -1 then t else x) :: T) S C M)).
Proof.
  intros H0 H1 H2 Hne. start H0. change (Z.land Lazybranchmark 63) with 25. cbn -[opnd tpush spush goto advance].
  replace (t =? x) with false by lia. cbn [negb].
  destruct (x =? -1); cbn [negb]; tpu; adv (pc0 + 2) H2; fin.
Qed.

Lemma ustep_lazybranchmark_empty pc0 t T S C M L w2 :
  code_at p pc0 = Some Lazybranchmark -> code_at p (pc0 + 1) = Some L -> code_at p (pc0 + 2) = Some w2 ->
  ustep (mk pc0 0 t T (t :: S) C M) = Ok (Next (mk (pc0 + 2) 0 t (- pc0 :: 0 :: t :: T) S C M)).
Proof.
  intros H0 H1 H2. start H0. change (Z.land Lazybranchmark 63) with 25. cbn -[opnd tpush spush goto advance].
  replace (t =? t) with true by lia. cbn [negb].
  tpu. adv (pc0 + 2) H2. fin.
Qed.

Lemma ustep_lazybranchmark_back pc0 t t2 t1 T S C M L w2 :
  code_at p pc0 = Some Lazybranchmark -> code_at p (pc0 + 1) = Some L -> code_at p L = Some w2 ->
  ustep (mk pc0 BackBit t (t2 :: t1 :: T) S C M) = Ok (Next (mk L 0 t2 (- pc0 :: 1 :: t1 :: T) (t2 :: S) C M)).
Proof.
  intros H0 H1 H2. start H0. change (Z.land Lazybranchmark 63) with 25. cbn -[opnd tpush spush goto advance].
  opn (pc0 + 1) H1. cbn [bind]. tpu. spu. gto H2. fin.
Qed.

Lemma ustep_lazybranchmark_back2_pop pc0 t t1 np T y S C M w3 :
  code_at p pc0 = Some Lazybranchmark -> code_at p (Z.abs np) = Some w3 ->
  ustep (mk pc0 Back2Bit t (1 :: t1 :: np :: T) (y :: S) C M) = Ok (Next (bk np t T (t1 :: S) C M)).
Proof.
  intros H0 H3. start H0. change (Z.land Lazybranchmark 63) with 25. cbn -[opnd tpush spush goto advance brk].
  spu. fail_to H3; fin.
Qed.

Lemma ustep_lazybranchmark_back2_keep pc0 t t1 np T S C M w3 :
  code_at p pc0 = Some Lazybranchmark -> code_at p (Z.abs np) = Some w3 ->
  ustep (mk pc0 Back2Bit t (0 :: t1 :: np :: T) S C M) = Ok (Next (bk np t T (t1 :: S) C M)).
Proof.
  intros H0 H3. start H0. change (Z.land Lazybranchmark 63) with 25. cbn -[opnd tpush spush goto advance brk].
  spu. fail_to H3; fin.
Qed.

(* ---------- Setcount / Nullcount ---------- *)
Lemma ustep_setcount pc0 t T S C M v w2 :
  code_at p pc0 = Some Setcount -> code_at p (pc0 + 1) = Some v -> code_at p (pc0 + 2) = Some w2 ->
  ustep (mk pc0 0 t T S C M) = Ok (Next (mk (pc0 + 2) 0 t (pc0 :: T) (v :: t :: S) C M)).
Proof.
  intros H0 H1 H2. start H0. change (Z.land Setcount 63) with 27. cbn -[opnd tpush spush goto advance].
  opn (pc0 + 1) H1. cbn [bind]. spu. tpu. adv (pc0 + 2) H2. fin.
Qed.

Lemma ustep_nullcount pc0 t T S C M v w2 :
  code_at p pc0 = Some Nullcount -> code_at p (pc0 + 1) = Some v -> code_at p (pc0 + 2) = Some w2 ->
  ustep (mk pc0 0 t T S C M) = Ok (Next (mk (pc0 + 2) 0 t (pc0 :: T) (v :: -1 :: S) C M)).
Proof.
  intros H0 H1 H2. start H0. change (Z.land Nullcount 63) with 26. cbn -[opnd tpush spush goto advance].
  opn (pc0 + 1) H1. cbn [bind]. spu. tpu. adv (pc0 + 2) H2. fin.
Qed.

Lemma ustep_count_back pc0 w t np T x y S C M w3 :
  code_at p pc0 = Some w -> (w = Setcount \/ w = Nullcount) -> code_at p (Z.abs np) = Some w3 ->
  ustep (mk pc0 BackBit t (np :: T) (x :: y :: S) C M) = Ok (Next (bk np t T S C M)).
Proof.
  intros H0 Hw H3. start H0.
  destruct Hw as [-> | ->]; [change (Z.land Setcount 63) with 27 | change (Z.land Nullcount 63) with 26]; cbn -[brk];
    fail_to H3; fin.
Qed.

(* ---------- Branchcount ---------- *)
Lemma ustep_branchcount_exit pc0 t cnt mark T S C M L lim w2 :
  code_at p pc0 = Some Branchcount -> code_at p (pc0 + 1) = Some L -> code_at p (pc0 + 2) = Some lim ->
  code_at p (pc0 + 3) = Some w2 ->
  (lim <=? cnt) || ((t =? mark) && (0 <=? cnt)) = true ->
  ustep (mk pc0 0 t T (cnt :: mark :: S) C M) = Ok (Next (mk (pc0 + 3) 0 t (- pc0 :: cnt :: mark :: T) S C M)).
Proof.
  intros H0 H1 H2 H3 Hc. start H0. change (Z.land Branchcount 63) with 28.
  cbn -[opnd tpush spush goto advance Z.sub Z.leb].
  opn (pc0 + 1) H1. cbn [bind]. opn (pc0 + 2) H2. cbn [bind].
  replace ((lim <=? cnt) || ((t - mark =? 0) && (0 <=? cnt))) with true by (rewrite <- Hc; f_equal; f_equal; lia).
  tpu. adv (pc0 + 3) H3. fin.
Qed.

Lemma ustep_branchcount_loop pc0 t cnt mark T S C M L lim w2 :
  code_at p pc0 = Some Branchcount -> code_at p (pc0 + 1) = Some L -> code_at p (pc0 + 2) = Some lim ->
  code_at p L = Some w2 ->
  (lim <=? cnt) || ((t =? mark) && (0 <=? cnt)) = false ->
  ustep (mk pc0 0 t T (cnt :: mark :: S) C M) = Ok (Next (mk L 0 t (pc0 :: mark :: T) (cnt + 1 :: t :: S) C M)).
Proof.
  intros H0 H1 H2 H3 Hc. start H0. change (Z.land Branchcount 63) with 28.
  cbn -[opnd tpush spush goto advance Z.sub Z.leb].
  opn (pc0 + 1) H1. cbn [bind]. opn (pc0 + 2) H2. cbn [bind].
  replace ((lim <=? cnt) || ((t - mark =? 0) && (0 <=? cnt))) with false by (rewrite <- Hc; f_equal; f_equal; lia).
  tpu. spu. gto H3. fin.
Qed.

Lemma ustep_branchcount_back_pos pc0 t t1 T cnt mark S C M w2 :
  code_at p pc0 = Some Branchcount -> code_at p (pc0 + 3) = Some w2 -> 0 < cnt ->
  ustep (mk pc0 BackBit t (t1 :: T) (cnt :: mark :: S) C M) =
  Ok (Next (mk (pc0 + 3) 0 mark (- pc0 :: cnt - 1 :: t1 :: T) S C M)).
Proof.
  intros H0 H3 Hc. start H0. change (Z.land Branchcount 63) with 28.
  cbn -[opnd tpush spush goto advance Z.sub Z.ltb brk].
  replace (0 <? cnt) with true by lia. tpu. adv (pc0 + 3) H3. fin.
Qed.

Lemma ustep_branchcount_back_neg pc0 t t1 np T cnt mark S C M w3 :
  code_at p pc0 = Some Branchcount -> code_at p (Z.abs np) = Some w3 -> cnt <= 0 ->
  ustep (mk pc0 BackBit t (t1 :: np :: T) (cnt :: mark :: S) C M) =
  Ok (Next (bk np t T (cnt - 1 :: t1 :: S) C M)).
Proof.
  intros H0 H3 Hc. start H0. change (Z.land Branchcount 63) with 28.
  cbn -[opnd tpush spush goto advance Z.sub Z.ltb brk].
  replace (0 <? cnt) with false by lia. spu. fail_to H3; fin.
Qed.

Lemma ustep_branchcount_back2 pc0 t t2 t1 np T S C M w3 :
  code_at p pc0 = Some Branchcount -> code_at p (Z.abs np) = Some w3 ->
  ustep (mk pc0 Back2Bit t (t2 :: t1 :: np :: T) S C M) = Ok (Next (bk np t T (t2 :: t1 :: S) C M)).
Proof.
  intros H0 H3. start H0. change (Z.land Branchcount 63) with 28.
  cbn -[opnd tpush spush goto advance Z.sub Z.ltb brk].
  spu. fail_to H3; fin.
Qed.

(* ---------- Lazybranchcount ---------- *)
Lemma ustep_lazybranchcount_loop pc0 t cnt mark T S C M L w2 :
  code_at p pc0 = Some Lazybranchcount -> code_at p (pc0 + 1) = Some L -> code_at p L = Some w2 -> cnt < 0 ->
  ustep (mk pc0 0 t T (cnt :: mark :: S) C M) = Ok (Next (mk L 0 t (- pc0 :: mark :: T) (cnt + 1 :: t :: S) C M)).
Proof.
  intros H0 H1 H3 Hc. start H0. change (Z.land Lazybranchcount 63) with 29.
  cbn -[opnd tpush spush goto advance Z.sub Z.ltb brk].
  opn (pc0 + 1) H1. cbn [bind]. replace (cnt <? 0) with true by lia. tpu. spu. gto H3. fin.
Qed.

Lemma ustep_lazybranchcount_exit pc0 t cnt mark T S C M L w2 :
  code_at p pc0 = Some Lazybranchcount -> code_at p (pc0 + 1) = Some L -> code_at p (pc0 + 3) = Some w2 -> 0 <= cnt ->
  ustep (mk pc0 0 t T (cnt :: mark :: S) C M) = Ok (Next (mk (pc0 + 3) 0 t (pc0 :: t :: cnt :: mark :: T) S C M)).
Proof.
  intros H0 H1 H3 Hc. start H0. change (Z.land Lazybranchcount 63) with 29.
  cbn -[opnd tpush spush goto advance Z.sub Z.ltb brk].
  opn (pc0 + 1) H1. cbn [bind]. replace (cnt <? 0) with false by lia. tpu. adv (pc0 + 3) H3. fin.
Qed.

Lemma ustep_lazybranchcount_back_again pc0 t t3 t2 t1 T S C M L lim w2 :
  code_at p pc0 = Some Lazybranchcount -> code_at p (pc0 + 1) = Some L -> code_at p (pc0 + 2) = Some lim ->
  code_at p L = Some w2 -> (t2 <? lim) && negb (t3 =? t1) = true ->
  ustep (mk pc0 BackBit t (t3 :: t2 :: t1 :: T) S C M) =
  Ok (Next (mk L 0 t3 (- pc0 :: t1 :: T) (t2 + 1 :: t3 :: S) C M)).
Proof.
  intros H0 H1 H2 H3 Hc. start H0. change (Z.land Lazybranchcount 63) with 29.
  cbn -[opnd tpush spush goto advance Z.sub Z.ltb brk].
  opn (pc0 + 1) H1. cbn [bind]. opn (pc0 + 2) H2. cbn [bind]. rewrite Hc. spu. tpu. gto H3. fin.
Qed.

Lemma ustep_lazybranchcount_back_fail pc0 t t3 t2 t1 np T S C M L lim w3 :
  code_at p pc0 = Some Lazybranchcount -> code_at p (pc0 + 1) = Some L -> code_at p (pc0 + 2) = Some lim ->
  code_at p (Z.abs np) = Some w3 -> (t2 <? lim) && negb (t3 =? t1) = false ->
  ustep (mk pc0 BackBit t (t3 :: t2 :: t1 :: np :: T) S C M) = Ok (Next (bk np t T (t2 :: t1 :: S) C M)).
Proof.
  intros H0 H1 H2 H3 Hc. start H0. change (Z.land Lazybranchcount 63) with 29.
  cbn -[opnd tpush spush goto advance Z.sub Z.ltb brk].
  opn (pc0 + 1) H1. cbn [bind]. opn (pc0 + 2) H2. cbn [bind]. rewrite Hc. spu. fail_to H3; fin.
Qed.

Lemma ustep_lazybranchcount_back2 pc0 t t1 np T cnt y S C M w3 :
  code_at p pc0 = Some Lazybranchcount -> code_at p (Z.abs np) = Some w3 ->
  ustep (mk pc0 Back2Bit t (t1 :: np :: T) (cnt :: y :: S) C M) = Ok (Next (bk np t T (cnt - 1 :: t1 :: S) C M)).
Proof.
  intros H0 H3. start H0. change (Z.land Lazybranchcount 63) with 29.
  cbn -[opnd tpush spush goto advance Z.sub Z.ltb brk].
  spu. fail_to H3; fin.
Qed.

End Ops3.

Section Root3.
Variable e : env.
Variable p : program.
Hypothesis tc_nonneg : 0 <= trackcount p.
Notation rsteps := (VMUOps2.rsteps e p).

Ltac lift L := intros; apply rsteps_one; intro r; unfold bkr, mkr; cbn [app]; eapply L; eassumption.

Lemma rs_branchmark_loop pc0 t x T S C M L w2 :
  code_at p pc0 = Some Branchmark -> code_at p (pc0 + 1) = Some L -> code_at p L = Some w2 -> t <> x ->
  rsteps (mkr pc0 0 t T (x :: S) C M) (mkr L 0 t (pc0 :: t :: x :: T) (t :: S) C M).
Proof. lift ustep_branchmark_loop. Qed.
Lemma rs_branchmark_empty pc0 t T S C M L w2 :
  code_at p pc0 = Some Branchmark -> code_at p (pc0 + 1) = Some L -> code_at p (pc0 + 2) = Some w2 ->
  rsteps (mkr pc0 0 t T (t :: S) C M) (mkr (pc0 + 2) 0 t (- pc0 :: t :: T) S C M).
Proof. lift ustep_branchmark_empty. Qed.
Lemma rs_branchmark_back pc0 t t2 t1 T y S C M w2 :
  code_at p pc0 = Some Branchmark -> code_at p (pc0 + 2) = Some w2 ->
  rsteps (mkr pc0 BackBit t (t2 :: t1 :: T) (y :: S) C M) (mkr (pc0 + 2) 0 t2 (- pc0 :: t1 :: T) S C M).
Proof. lift ustep_branchmark_back. Qed.
Lemma rs_branchmark_back2 pc0 t x np T S C M w3 :
  code_at p pc0 = Some Branchmark -> code_at p (Z.abs np) = Some w3 ->
  rsteps (mkr pc0 Back2Bit t (x :: np :: T) S C M) (bkr np t T (x :: S) C M).
Proof. lift ustep_branchmark_back2. Qed.

Lemma rs_lazybranchmark_fwd pc0 t x T S C M L w2 :
  code_at p pc0 = Some Lazybranchmark -> code_at p (pc0 + 1) = Some L -> code_at p (pc0 + 2) = Some w2 -> t <> x ->
  rsteps (mkr pc0 0 t T (x :: S) C M) (mkr (pc0 + 2) 0 t (pc0 :: t :: (if x =? -1 then t else x) :: T) S C M).
Proof. lift ustep_lazybranchmark_fwd. Qed.
Lemma rs_lazybranchmark_empty pc0 t T S C M L w2 :
  code_at p pc0 = Some Lazybranchmark -> code_at p (pc0 + 1) = Some L -> code_at p (pc0 + 2) = Some w2 ->
  rsteps (mkr pc0 0 t T (t :: S) C M) (mkr (pc0 + 2) 0 t (- pc0 :: 0 :: t :: T) S C M).
Proof. lift ustep_lazybranchmark_empty. Qed.
Lemma rs_lazybranchmark_back pc0 t t2 t1 T S C M L w2 :
  code_at p pc0 = Some Lazybranchmark -> code_at p (pc0 + 1) = Some L -> code_at p L = Some w2 ->
  rsteps (mkr pc0 BackBit t (t2 :: t1 :: T) S C M) (mkr L 0 t2 (- pc0 :: 1 :: t1 :: T) (t2 :: S) C M).
Proof. lift ustep_lazybranchmark_back. Qed.
Lemma rs_lazybranchmark_back2_pop pc0 t t1 np T y S C M w3 :
  code_at p pc0 = Some Lazybranchmark -> code_at p (Z.abs np) = Some w3 ->
  rsteps (mkr pc0 Back2Bit t (1 :: t1 :: np :: T) (y :: S) C M) (bkr np t T (t1 :: S) C M).
Proof. lift ustep_lazybranchmark_back2_pop. Qed.
Lemma rs_lazybranchmark_back2_keep pc0 t t1 np T S C M w3 :
  code_at p pc0 = Some Lazybranchmark -> code_at p (Z.abs np) = Some w3 ->
  rsteps (mkr pc0 Back2Bit t (0 :: t1 :: np :: T) S C M) (bkr np t T (t1 :: S) C M).
Proof. lift ustep_lazybranchmark_back2_keep. Qed.

Lemma rs_setcount pc0 t T S C M v w2 :
  code_at p pc0 = Some Setcount -> code_at p (pc0 + 1) = Some v -> code_at p (pc0 + 2) = Some w2 ->
  rsteps (mkr pc0 0 t T S C M) (mkr (pc0 + 2) 0 t (pc0 :: T) (v :: t :: S) C M).
Proof. lift ustep_setcount. Qed.
Lemma rs_nullcount pc0 t T S C M v w2 :
  code_at p pc0 = Some Nullcount -> code_at p (pc0 + 1) = Some v -> code_at p (pc0 + 2) = Some w2 ->
  rsteps (mkr pc0 0 t T S C M) (mkr (pc0 + 2) 0 t (pc0 :: T) (v :: -1 :: S) C M).
Proof. lift ustep_nullcount. Qed.
Lemma rs_count_back pc0 w t np T x y S C M w3 :
  code_at p pc0 = Some w -> (w = Setcount \/ w = Nullcount) -> code_at p (Z.abs np) = Some w3 ->
  rsteps (mkr pc0 BackBit t (np :: T) (x :: y :: S) C M) (bkr np t T S C M).
Proof. lift ustep_count_back. Qed.

Lemma rs_branchcount_exit pc0 t cnt mark T S C M L lim w2 :
  code_at p pc0 = Some Branchcount -> code_at p (pc0 + 1) = Some L -> code_at p (pc0 + 2) = Some lim ->
  code_at p (pc0 + 3) = Some w2 ->
  (lim <=? cnt) || ((t =? mark) && (0 <=? cnt)) = true ->
  rsteps (mkr pc0 0 t T (cnt :: mark :: S) C M) (mkr (pc0 + 3) 0 t (- pc0 :: cnt :: mark :: T) S C M).
Proof. lift ustep_branchcount_exit. Qed.
Lemma rs_branchcount_loop pc0 t cnt mark T S C M L lim w2 :
  code_at p pc0 = Some Branchcount -> code_at p (pc0 + 1) = Some L -> code_at p (pc0 + 2) = Some lim ->
  code_at p L = Some w2 ->
  (lim <=? cnt) || ((t =? mark) && (0 <=? cnt)) = false ->
  rsteps (mkr pc0 0 t T (cnt :: mark :: S) C M) (mkr L 0 t (pc0 :: mark :: T) (cnt + 1 :: t :: S) C M).
Proof. lift ustep_branchcount_loop. Qed.
Lemma rs_branchcount_back_pos pc0 t t1 T cnt mark S C M w2 :
  code_at p pc0 = Some Branchcount -> code_at p (pc0 + 3) = Some w2 -> 0 < cnt ->
  rsteps (mkr pc0 BackBit t (t1 :: T) (cnt :: mark :: S) C M)
         (mkr (pc0 + 3) 0 mark (- pc0 :: cnt - 1 :: t1 :: T) S C M).
Proof. lift ustep_branchcount_back_pos. Qed.
Lemma rs_branchcount_back_neg pc0 t t1 np T cnt mark S C M w3 :
  code_at p pc0 = Some Branchcount -> code_at p (Z.abs np) = Some w3 -> cnt <= 0 ->
  rsteps (mkr pc0 BackBit t (t1 :: np :: T) (cnt :: mark :: S) C M) (bkr np t T (cnt - 1 :: t1 :: S) C M).
Proof. lift ustep_branchcount_back_neg. Qed.
Lemma rs_branchcount_back2 pc0 t t2 t1 np T S C M w3 :
  code_at p pc0 = Some Branchcount -> code_at p (Z.abs np) = Some w3 ->
  rsteps (mkr pc0 Back2Bit t (t2 :: t1 :: np :: T) S C M) (bkr np t T (t2 :: t1 :: S) C M).
Proof. lift ustep_branchcount_back2. Qed.

Lemma rs_lazybranchcount_loop pc0 t cnt mark T S C M L w2 :
  code_at p pc0 = Some Lazybranchcount -> code_at p (pc0 + 1) = Some L -> code_at p L = Some w2 -> cnt < 0 ->
  rsteps (mkr pc0 0 t T (cnt :: mark :: S) C M) (mkr L 0 t (- pc0 :: mark :: T) (cnt + 1 :: t :: S) C M).
Proof. lift ustep_lazybranchcount_loop. Qed.
Lemma rs_lazybranchcount_exit pc0 t cnt mark T S C M L w2 :
  code_at p pc0 = Some Lazybranchcount -> code_at p (pc0 + 1) = Some L -> code_at p (pc0 + 3) = Some w2 -> 0 <= cnt ->
  rsteps (mkr pc0 0 t T (cnt :: mark :: S) C M) (mkr (pc0 + 3) 0 t (pc0 :: t :: cnt :: mark :: T) S C M).
Proof. lift ustep_lazybranchcount_exit. Qed.
Lemma rs_lazybranchcount_back_again pc0 t t3 t2 t1 T S C M L lim w2 :
  code_at p pc0 = Some Lazybranchcount -> code_at p (pc0 + 1) = Some L -> code_at p (pc0 + 2) = Some lim ->
  code_at p L = Some w2 -> (t2 <? lim) && negb (t3 =? t1) = true ->
  rsteps (mkr pc0 BackBit t (t3 :: t2 :: t1 :: T) S C M) (mkr L 0 t3 (- pc0 :: t1 :: T) (t2 + 1 :: t3 :: S) C M).
Proof. lift ustep_lazybranchcount_back_again. Qed.
Lemma rs_lazybranchcount_back_fail pc0 t t3 t2 t1 np T S C M L lim w3 :
  code_at p pc0 = Some Lazybranchcount -> code_at p (pc0 + 1) = Some L -> code_at p (pc0 + 2) = Some lim ->
  code_at p (Z.abs np) = Some w3 -> (t2 <? lim) && negb (t3 =? t1) = false ->
  rsteps (mkr pc0 BackBit t (t3 :: t2 :: t1 :: np :: T) S C M) (bkr np t T (t2 :: t1 :: S) C M).
Proof. lift ustep_lazybranchcount_back_fail. Qed.
Lemma rs_lazybranchcount_back2 pc0 t t1 np T cnt y S C M w3 :
  code_at p pc0 = Some Lazybranchcount -> code_at p (Z.abs np) = Some w3 ->
  rsteps (mkr pc0 Back2Bit t (t1 :: np :: T) (cnt :: y :: S) C M) (bkr np t T (cnt - 1 :: t1 :: S) C M).
Proof. lift ustep_lazybranchcount_back2. Qed.

End Root3.
