(* Composition: the termination theorem of the reference search (Proofs/SpecTermProofs.v) discharges the
   hypothesis "Spec.attempt e fuel root t0 = Ok r, Z.of_nat fuel <= INF" that the interpreter-level theorems
   carry.  No new model, no new induction: existing theorems chained.

   The reference fuel is now the explicit  term_fuel e root  (1 + nesting depth, loops add their minimum count
   + text length + 2); the two hypotheses that replace the old one are both DECIDABLE on the instance:
     term_ok root = true                       every loop body is one-directional (leg c01-frag: every exported tree)
     Z.of_nat (term_fuel e root) <= INF        that fuel is inside the engine's counter range 2^31-1

   ct_exec_total_terminating      compile_exec_total o compile_correct2_exec_partial: for every stack limit there is
                                  an interpreter fuel from which on execute() returns Spec.attempt's answer or
                                  ErrBacktrackingStackLimit -- never Crash, never Fuel
   ct_vm_forward, ct_iteration_*, ct_next_*   the C07 theorems for compiled programs
   ct_exec_captures_in_bounds, ct_exec_group0_is_match_span   the C08 theorems at the interpreter level
   ct_search_never_hangs          C10 *)
From Verif Require Import Base.Prelude Model.Iter Proofs.IterProofs.
From Verif Require Import Model.Tree Model.Spec Model.VM Model.Writer Model.Analysis
  Proofs.SpecProofs Proofs.SpecBoundsProofs Proofs.SpecTermProofs
  Proofs.CompileBase Proofs.CompileDefs Proofs.CompileProofs
  Proofs.CompileBalDen Proofs.CompileBalBase Proofs.CompileBalDefs Proofs.CompileBal
  Proofs.CompileSafe Proofs.ComposeExec.
From Coq Require Import ZifyBool.

(* the bound reads the environment through the text length only *)
Lemma ct_term_fuel_env_at e ts root : term_fuel (cx_env_at e ts) root = term_fuel e root.
Proof. reflexivity. Qed.

(* the residual hypothesis of cx_vm_forward and of the C07 theorems for compiled programs *)
Lemma ct_attempt_terminates_in_range (e : env) (root : node) :
  term_ok root = true -> Z.of_nat (term_fuel e root) <= INF ->
  forall ts t0, 0 <= t0 <= tlen e ->
    exists fuel r, Z.of_nat fuel <= INF /\ Spec.attempt (cx_env_at e ts) fuel root t0 = Ok r.
Proof.
  intros Hok Hf ts t0 Ht0. exists (term_fuel e root).
  destruct (spec_attempt_total (cx_env_at e ts) root t0 Hok Ht0 (term_fuel e root)) as (r & Hr & _).
  { rewrite ct_term_fuel_env_at. apply Nat.le_refl. }
  exists r. split; [exact Hf|exact Hr].
Qed.

(* ============================ C01: one execute() call returns ============================ *)
Theorem ct_exec_total_terminating :
  forall (e : env) (p : program), 0 <= trackcount p -> track_count (codes p) <= trackcount p -> tlen e <= INF ->
  forall o body t0,
  let root := NCapture o 0 (-1) body in
  let M0 := repeat [] (Z.to_nat (capsize p)) in
  let stop := 2 + csize cfg0 root in
  codes p = fst (compile cfg0 root) -> strings p = snd (compile cfg0 root) ->
  supported2 root = true -> groups_ok2 (capsize p) root -> 0 <= t0 <= tlen e ->
  term_ok root = true -> Z.of_nat (term_fuel e root) <= INF ->
  exists r, Spec.attempt e (term_fuel e root) root t0 = Ok r /\
  exists vfuel0 : nat, forall L vfuel, (vfuel0 <= vfuel)%nat ->
    let x := exec_at e p L vfuel t0 in
    ((x = Err E_StackLimit /\ 0 <= L) \/
     (exists s', x = Ok s' /\ pc s' = stop /\ mode s' = 0 /\
        match r with
        | Some q => tp s' = pos q /\ caps_rel2 p (caps q) (mcaps s') /\ matched0 s' = true
        | None => mcaps s' = M0 /\ matched0 s' = false
        end)) /\
    (L < 0 -> exists s', x = Ok s').
Proof.
  intros e p Htc Htk Htl o body t0 root M0 stop Hcodes Hstr Hs Hg Ht0 Hok Hf.
  destruct (spec_attempt_total e root t0 Hok Ht0 (term_fuel e root) (Nat.le_refl _)) as (r & Hatt & _).
  exists r. split; [exact Hatt|].
  destruct (compile_exec_total e p Htc Htk Htl (term_fuel e root) o body t0 r Hcodes Hstr Hs Hg Ht0 Hf Hatt)
    as [n Hn].
  exists (S n). intros L vfuel Hv x.
  destruct (Hn L vfuel) as [Htri Hunl]. cbv zeta in Htri, Hunl. fold x in Htri, Hunl.
  assert (Hlt : (n < 1000 * vfuel)%nat) by lia.
  split; [|intros HL; exact (Hunl HL Hlt)].
  destruct Htri as [Hlim|[[_ [s' Hx]]|[Hge _]]]; [left; exact Hlim| |lia].
  right. exists s'. split; [exact Hx|].
  exact (compile_correct2_exec_partial e p Htc Htl L (term_fuel e root) vfuel o body t0 r s'
           Hcodes Hstr Hs Hg Ht0 Hf Hatt Hx).
Qed.

(* ============================ C07: iteration over a compiled program ============================ *)
Theorem ct_vm_forward :
  forall (e : env) (p : program) (rtl : bool), 0 <= trackcount p -> tlen e <= INF ->
  forall L vfuel o body,
  let root := NCapture o 0 (-1) body in
  codes p = fst (compile cfg0 root) -> strings p = snd (compile cfg0 root) ->
  supported2 root = true -> groups_ok2 (capsize p) root ->
  shape_ok rtl root = true -> no_group0 body ->
  term_ok root = true -> Z.of_nat (term_fuel e root) <= INF ->
  forward rtl (tlen e) (cx_vm_matcher e p L vfuel).
Proof.
  intros e p rtl Htc Htl L vfuel o body root Hcodes Hstr Hs Hg Hsh Hn0 Hok Hf.
  exact (cx_vm_forward e p rtl Htc Htl L vfuel o body Hcodes Hstr Hs Hg Hsh Hn0
           (ct_attempt_terminates_in_range e root Hok Hf)).
Qed.

Theorem ct_iteration_for_compiled_programs :
  forall (e : env) (p : program) (rtl : bool), 0 <= trackcount p -> tlen e <= INF ->
  forall L vfuel o body,
  let root := NCapture o 0 (-1) body in
  codes p = fst (compile cfg0 root) -> strings p = snd (compile cfg0 root) ->
  supported2 root = true -> groups_ok2 (capsize p) root ->
  shape_ok rtl root = true -> no_group0 body ->
  term_ok root = true -> Z.of_nat (term_fuel e root) <= INF ->
  forall start, 0 <= start <= tlen e ->
  exists ms, Iter.iteration rtl (tlen e) (cx_vm_matcher e p L vfuel)
               (Iter.dflt_fuel (tlen e)) (Iter.dflt_fuel (tlen e)) start = Ok ms /\
             Z.of_nat (length ms) <= tlen e + 1 /\
             Forall (wfm rtl (tlen e)) ms /\
             forall a b, consecutive ms a b -> follows rtl a b.
Proof.
  intros e p rtl Htc Htl L vfuel o body root Hcodes Hstr Hs Hg Hsh Hn0 Hok Hf.
  exact (cx_iteration_for_compiled_programs e p rtl Htc Htl L vfuel o body Hcodes Hstr Hs Hg Hsh Hn0
           (ct_attempt_terminates_in_range e root Hok Hf)).
Qed.

Theorem ct_next_advances_for_compiled_programs :
  forall (e : env) (p : program) (rtl : bool), 0 <= trackcount p -> tlen e <= INF ->
  forall L vfuel o body,
  let root := NCapture o 0 (-1) body in
  codes p = fst (compile cfg0 root) -> strings p = snd (compile cfg0 root) ->
  supported2 root = true -> groups_ok2 (capsize p) root ->
  shape_ok rtl root = true -> no_group0 body ->
  term_ok root = true -> Z.of_nat (term_fuel e root) <= INF ->
  forall m, wfm rtl (tlen e) m ->
  exists r, Iter.find_next_match rtl (tlen e) (cx_vm_matcher e p L vfuel) (Iter.dflt_fuel (tlen e)) m = Ok r /\
            forall m', r = Some m' -> wfm rtl (tlen e) m' /\ follows rtl m m'.
Proof.
  intros e p rtl Htc Htl L vfuel o body root Hcodes Hstr Hs Hg Hsh Hn0 Hok Hf.
  exact (cx_next_advances_for_compiled_programs e p rtl Htc Htl L vfuel o body Hcodes Hstr Hs Hg Hsh Hn0
           (ct_attempt_terminates_in_range e root Hok Hf)).
Qed.

(* ============================ C08: captures of the interpreter stay inside the text ============================ *)
Theorem ct_exec_captures_in_bounds :
  forall (e : env) (p : program), 0 <= trackcount p -> tlen e <= INF ->
  forall L vfuel o body t0 s',
  let root := NCapture o 0 (-1) body in
  codes p = fst (compile cfg0 root) -> strings p = snd (compile cfg0 root) ->
  supported2 root = true -> groups_ok2 (capsize p) root -> 0 <= t0 <= tlen e ->
  term_ok root = true -> Z.of_nat (term_fuel e root) <= INF ->
  exec_at e p L vfuel t0 = Ok s' -> matched0 s' = true ->
  0 <= tp s' <= tlen e /\
  forall g, 0 <= g < capsize p ->
    exists ps stk,
      nth (Z.to_nat g) (mcaps s') [] = flat (rev ps) /\ Den ps stk /\
      (forall i len, In (i, len) stk -> 0 <= i /\ 0 <= len /\ i + len <= tlen e) /\
      vm_is_matched g (mcaps s') = Some (match stk with [] => false | _ => true end) /\
      (forall i len rest, stk = (i, len) :: rest ->
         vm_match_index g (mcaps s') = Some i /\ vm_match_length g (mcaps s') = Some len).
Proof.
  intros e p Htc Htl L vfuel o body t0 s' root Hcodes Hstr Hs Hg Ht0 Hok Hf Hex Hm.
  destruct (spec_attempt_total e root t0 Hok Ht0 (term_fuel e root) (Nat.le_refl _)) as (r & Hatt & _).
  exact (cx_exec_captures_in_bounds e p Htc Htl L (term_fuel e root) vfuel o body t0 r s'
           Hcodes Hstr Hs Hg Ht0 Hf Hatt Hex Hm).
Qed.

Theorem ct_exec_group0_is_match_span :
  forall (e : env) (p : program), 0 <= trackcount p -> tlen e <= INF ->
  forall L vfuel o body t0 s',
  let root := NCapture o 0 (-1) body in
  codes p = fst (compile cfg0 root) -> strings p = snd (compile cfg0 root) ->
  supported2 root = true -> groups_ok2 (capsize p) root -> 0 <= t0 <= tlen e ->
  term_ok root = true -> Z.of_nat (term_fuel e root) <= INF ->
  no_group0 body ->
  exec_at e p L vfuel t0 = Ok s' -> matched0 s' = true ->
  0 < capsize p /\
  (exists ps, nth 0 (mcaps s') [] = flat (rev ps) /\
              Den ps [(Z.min t0 (tp s'), Z.abs (tp s' - t0))]) /\
  vm_is_matched 0 (mcaps s') = Some true /\
  vm_match_index 0 (mcaps s') = Some (Z.min t0 (tp s')) /\
  vm_match_length 0 (mcaps s') = Some (Z.abs (tp s' - t0)).
Proof.
  intros e p Htc Htl L vfuel o body t0 s' root Hcodes Hstr Hs Hg Ht0 Hok Hf Hn0 Hex Hm.
  destruct (spec_attempt_total e root t0 Hok Ht0 (term_fuel e root) (Nat.le_refl _)) as (r & Hatt & _).
  exact (cx_exec_group0_is_match_span e p Htc Htl L (term_fuel e root) vfuel o body t0 r s'
           Hcodes Hstr Hs Hg Ht0 Hf Hatt Hn0 Hex Hm).
Qed.

(* ============================ C10: nothing hangs ============================ *)
(* (1) the reference search, list-valued and continuation-passing, answers on EVERY tree, text, direction and
       start offset (fuel term_fuel_any root: the loop counters alone end every loop);
   (2) on trees with one-directional loop bodies it answers within the small fuel term_fuel e root;
   (3) the interpreter on the program of such a supported2 tree: from some interpreter fuel on, every execute()
       call returns a state or ErrBacktrackingStackLimit, and does return when there is no limit. *)
Theorem ct_search_never_hangs :
  (forall (e : env) root (rtl : bool) start prevlen fuel, (term_fuel_any root <= fuel)%nat ->
     exists r, Spec.find e fuel root rtl start prevlen = Ok r /\ Spec.findk e fuel root rtl start prevlen = Ok r)
  /\
  (forall (e : env) root (rtl : bool) start prevlen, term_ok root = true -> 0 <= start <= tlen e ->
     forall fuel, (term_fuel e root <= fuel)%nat ->
     exists r, Spec.find e fuel root rtl start prevlen = Ok r /\ Spec.findk e fuel root rtl start prevlen = Ok r)
  /\
  (forall (e : env) (p : program), 0 <= trackcount p -> track_count (codes p) <= trackcount p -> tlen e <= INF ->
   forall o body t0,
   let root := NCapture o 0 (-1) body in
   codes p = fst (compile cfg0 root) -> strings p = snd (compile cfg0 root) ->
   supported2 root = true -> groups_ok2 (capsize p) root -> 0 <= t0 <= tlen e ->
   term_ok root = true -> Z.of_nat (term_fuel e root) <= INF ->
   exists vfuel0 : nat, forall L vfuel, (vfuel0 <= vfuel)%nat ->
     ((exec_at e p L vfuel t0 = Err E_StackLimit /\ 0 <= L) \/ exists s', exec_at e p L vfuel t0 = Ok s') /\
     (L < 0 -> exists s', exec_at e p L vfuel t0 = Ok s')).
Proof.
  split; [exact spec_find_total_any|]. split; [exact spec_find_total|].
  intros e p Htc Htk Htl o body t0 root Hcodes Hstr Hs Hg Ht0 Hok Hf.
  destruct (ct_exec_total_terminating e p Htc Htk Htl o body t0 Hcodes Hstr Hs Hg Ht0 Hok Hf)
    as (r & _ & vfuel0 & Hv).
  exists vfuel0. intros L vfuel Hle. destruct (Hv L vfuel Hle) as [H1 H2]. cbv zeta in H1, H2.
  split; [|exact H2]. destruct H1 as [H1|(s' & Hx & _)]; [left; exact H1|right; exists s'; exact Hx].
Qed.

(* ---------- non-vacuity: the a^n b^n program with balancing groups (CompileBal.c2_demo) ---------- *)
Example ct_demo :
  let e := cc_demo_env2 [97;97;98;98] in
  let root := NCapture 0 0 (-1) c2_demo_body in
  term_ok root = true /\ term_fuel e root = 10%nat /\ Z.of_nat (term_fuel e root) <= INF /\
  (exists q, Spec.attempt e (term_fuel e root) root 0 = Ok (Some q) /\ pos q = 4) /\
  Spec.attempt e (term_fuel e root) root 1 = Ok None.
Proof.
  cbv zeta. split; [reflexivity|]. split; [vm_compute; reflexivity|]. split; [vm_compute; congruence|].
  split; [eexists; split; vm_compute; reflexivity|vm_compute; reflexivity].
Qed.
