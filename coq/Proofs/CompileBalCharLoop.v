(* [caps_rel2 / leadsg2 / ok_node2] version of Proofs/CompileCharLoop.v for compile_correct2 (balancing captures,
   see Proofs/CompileBal.v): the same lemmas and proofs over the marker-aware capture relation of
   Proofs/CompileBalDen.v.  Lemma names: cc_X -> c2_X. *)
(* compile_correct, stage 3a: single-character loops NCharLoop (X-rep, then X-loop / X-lazy /
   X-loopatomic).  Needs tlen e <= INF (the interpreter caps an unbounded loop at MaxInt32). *)
From Verif Require Import Base.Prelude Model.Tree Model.Spec Model.VM Model.Writer Gen.RunnerGen
  Proofs.SpecProofs Proofs.SpecBoundsProofs Proofs.MaskProofs
  Proofs.VMU Proofs.VMUOps Proofs.VMUOps2 Proofs.VMUOps6 Proofs.VMUOps3 Proofs.VMUOps4 Proofs.CharLoopFacts
  Proofs.CompileBase Proofs.CompileDefs Proofs.CompileCharLoop Proofs.CompileBalDen Proofs.CompileBalBase Proofs.CompileBalDefs.
From Coq Require Import Relations ZifyBool.


Section CC.
Variable e : env.
Variable p : program.
Hypothesis tc_nonneg : 0 <= trackcount p.
Hypothesis Htlen : tlen e <= INF.

Notation rsteps := (VMUOps2.rsteps e p).
Notation leadsg2 := (CompileBalBase.leadsg2 e p).
Notation has_code := (CompileBase.has_code p).
Notation track_ok := (CompileBase.track_ok p).
Notation caps_rel2 := (CompileBalDen.caps_rel2 p).

Notation code_ex := (CompileDefs.code_ex p).
Notation ok_node2 := (CompileBalDefs.ok_node2 e p).
Notation ok_at2 := (CompileBalDefs.ok_at2 e p).

Section Tail.
Variables (k : ckind) (o c c0 a1 : Z) (s1 : st) (T Sk C : list Z) (M : list (list Z)).
Hypothesis Hk : track_ok T.
Hypothesis Hr : caps_rel2 (caps s1) M.
Hypothesis Hp1 : 0 <= pos s1 <= tlen e.
Hypothesis H1 : code_at p (a1 + 1) = Some c.
Hypothesis H2 : code_at p (a1 + 2) = Some c0.
Hypothesis Hex : code_ex (a1 + 3).
Hypothesis Hc0 : 0 <= c0.

Let mkp := fun i => with_pos s1 (pos s1 + dir o * i).

Lemma c2_greedy_tail :
  code_at p a1 = Some (loop_op k LGreedy + bits_of o) ->
  forall jn t1 T1, t1 = pos s1 + dir o * Z.of_nat jn ->
    T1 = (if 0 <? Z.of_nat jn then a1 :: t1 - dir o :: Z.of_nat jn - 1 :: T else T) ->
    leadsg2 (a1 + 3) T Sk Sk C M (mkr (a1 + 3) 0 t1 T1 Sk C M) (map mkp (count_down (Z.of_nat jn) 0)).
Proof.
  intros H0. destruct Hex as [w2 Hw2]. pose proof (code_at_nonneg p _ _ H0) as Ha1.
  induction jn as [|jn IH]; intros t1 T1 Ht1 HT1.
  - change (Z.of_nat 0) with 0 in *. cbn in HT1. subst T1.
    change (count_down 0 0) with [0]. cbn [map]. subst t1.
    apply leadsg2_leaf; [exact Hk|exact Hr|apply rsteps_refl].
  - assert (Hz : Z.of_nat (S jn) = Z.of_nat jn + 1) by lia. rewrite Hz in *. clear Hz.
    rewrite cc_count_down_cons by lia. cbn [map].
    replace (0 <? Z.of_nat jn + 1) with true in HT1 by lia. subst T1.
    exists [a1; t1 - dir o; Z.of_nat jn + 1 - 1], [], M. cbn [app unwind].
    split; [exact Hr|]. split; [reflexivity|].
    split. { eapply track_ok_cons. rewrite Z.abs_eq by lia. exact H0. }
    split. { unfold mkp. cbn [pos with_pos]. rewrite <- Ht1. apply rsteps_refl. }
    intros np T'' t HT. injection HT as <- <-. rewrite bkr_pos by lia.
    eapply leadsg2_pre. { eapply rs_loop_back; try exact tc_nonneg; eassumption. }
    replace (Z.of_nat jn + 1 - 1) with (Z.of_nat jn) by lia.
    apply IH; [lia|reflexivity].
Qed.

Lemma c2_lazy_tail :
  code_at p a1 = Some (loop_op k LLazy + bits_of o) ->
  forall N j, N = Z.min c0 (avail e o (pos s1)) -> j = run_len e k c o (Z.to_nat N) (pos s1) ->
  forall rn i t1 T1, rn = Z.to_nat (N - i) -> 0 <= i <= j ->
    t1 = pos s1 + dir o * i ->
    T1 = (if 0 <? N - i then a1 :: t1 :: N - i - 1 :: T else T) ->
    leadsg2 (a1 + 3) T Sk Sk C M (mkr (a1 + 3) 0 t1 T1 Sk C M) (map mkp (count_up i j)).
Proof.
  intros H0 N j HN Hj. destruct Hex as [w2 Hw2]. pose proof (code_at_nonneg p _ _ H0) as Ha1.
  pose proof (clf_avail_nonneg e o (pos s1) Hp1) as HA.
  assert (HjN : 0 <= j <= N).
  { rewrite Hj. pose proof (clf_rl_bounds e k c o (Z.to_nat N) (pos s1)). lia. }
  induction rn as [|rn IH]; intros i t1 T1 Hrn Hi Ht1 HT1.
  - assert (i = j) by lia. subst i. replace (0 <? N - j) with false in HT1 by lia. subst T1.
    rewrite cc_count_up_cons by lia. unfold count_up at 1. replace (j <? j + 1) with true by lia. cbn [map].
    apply leadsg2_leaf; [exact Hk|exact Hr|]. unfold mkp. cbn [pos with_pos]. rewrite <- Ht1. apply rsteps_refl.
  - replace (0 <? N - i) with true in HT1 by lia. subst T1.
    rewrite cc_count_up_cons by lia. cbn [map].
    exists [a1; t1; N - i - 1], [], M. cbn [app unwind].
    split; [exact Hr|]. split; [reflexivity|].
    split. { eapply track_ok_cons. rewrite Z.abs_eq by lia. exact H0. }
    split. { unfold mkp. cbn [pos with_pos]. rewrite <- Ht1. apply rsteps_refl. }
    intros np T'' t HT. injection HT as <- <-. rewrite bkr_pos by lia.
    destruct (clf_avail_shift e o (pos s1) i Hp1 ltac:(lia)) as [HAi Hpi]. rewrite <- Ht1 in HAi, Hpi.
    destruct (Z.eq_dec i j) as [->|Hne].
    + (* the character after the run does not match *)
      unfold count_up. replace (j <? j + 1) with true by lia. cbn [map].
      assert (Hbad : good e k c o t1 = false).
      { rewrite Ht1, Hj. apply clf_rl_bad. lia. }
      unfold good in Hbad. replace (0 <? avail e o t1) with true in Hbad by lia. cbn [andb] in Hbad.
      destruct Hk as (np' & T3 & -> & w3 & Hw3).
      eapply leadsg2_fail; [reflexivity|].
      eapply rs_lazy_back_fail; try exact tc_nonneg; try eassumption. lia.
    + assert (Hgood : good e k c o t1 = true).
      { rewrite Ht1. apply (clf_rl_good e k c o (Z.to_nat N)). lia. }
      unfold good in Hgood. replace (0 <? avail e o t1) with true in Hgood by lia. cbn [andb] in Hgood.
      eapply leadsg2_pre. { eapply rs_lazy_back_ok; try exact tc_nonneg; try eassumption. lia. }
      apply IH; [lia|lia|lia|].
      replace (N - (i + 1)) with (N - i - 1) by lia. reflexivity.
Qed.

Lemma c2_loop_res l :
  code_at p a1 = Some (loop_op k l + bits_of o) ->
  leadsg2 (a1 + 3) T Sk Sk C M (mkr a1 0 (pos s1) T Sk C M) (loop_res e k l o c s1 c0).
Proof.
  intros H0. pose proof Hex as [w2 Hw2].
  pose proof (clf_avail_nonneg e o (pos s1) Hp1) as HA.
  unfold loop_res. cbv zeta.
  set (N := Z.min c0 (avail e o (pos s1))).
  pose proof (clf_rl_bounds e k c o (Z.to_nat N) (pos s1)) as Hb.
  set (j := run_len e k c o (Z.to_nat N) (pos s1)) in *.
  destruct l.
  - eapply leadsg2_pre.
    { eapply rs_loop_fwd with (l := LGreedy) (j := j) (c := c) (c0 := c0); try exact tc_nonneg; try eassumption; [discriminate|reflexivity]. }
    rewrite andb_true_r.
    replace j with (Z.of_nat (Z.to_nat j)) by lia.
    apply c2_greedy_tail; [exact H0|reflexivity|].
    rewrite !Z2Nat.id by lia. reflexivity.
  - eapply leadsg2_pre.
    { eapply rs_lazy_fwd with (N := N) (c := c) (c0 := c0); try exact tc_nonneg; try eassumption. reflexivity. }
    eapply c2_lazy_tail with (N := N) (i := 0); try reflexivity; try exact H0; try lia.
    rewrite Z.sub_0_r. reflexivity.
  - eapply leadsg2_pre.
    { eapply rs_loop_fwd with (l := LAtomic) (j := j) (c := c) (c0 := c0); try exact tc_nonneg; try eassumption; [discriminate|reflexivity]. }
    rewrite andb_false_r.
    apply leadsg2_leaf; [exact Hk|exact Hr|]. cbn [pos with_pos]. apply rsteps_refl.
Qed.

End Tail.

Lemma c2_charloop f k l o c m n : 0 <= m <= n -> n <= INF -> ok_node2 (S f) (NCharLoop k l o c m n).
Proof.
  intros Hm Hn s res Hsem Hst a tbl T S C M Hc Hex Hk Hr Htb.
  cbn [sem] in Hsem. injection Hsem as <-.
  destruct Hst as [Hp Hcs].
  rewrite clf_charloop_split by assumption.
  cbn [emit fst csize] in Hc, Hex |- *.
  pose proof (clf_avail_nonneg e o (pos s) Hp) as HA.
  (* the rep part *)
  assert (Hrep : forall a1, a1 = a + (if 0 <? m then 3 else 0) -> code_ex a1 ->
     (if 0 <? m then has_code a [rep_op k + bits_of o; c; m] else True) ->
     if (m <=? avail e o (pos s)) && (run_len e k c o (Z.to_nat m) (pos s) =? m)
     then rsteps (mkr a 0 (pos s) T S C M) (mkr a1 0 (pos s + dir o * m) T S C M)
     else exists np T' t, T = np :: T' /\ rsteps (mkr a 0 (pos s) T S C M) (bkr np t T' S C M)).
  { intros a1 Ha1 [w1 Hw1] Hcr. destruct (0 <? m) eqn:E0.
    - apply has_code_cons in Hcr. destruct Hcr as [H0 Hcr]. apply has_code_cons in Hcr. destruct Hcr as [H1 Hcr].
      apply has_code_cons in Hcr. destruct Hcr as [H2 _].
      replace (a + 1 + 1) with (a + 2) in H2 by lia. subst a1.
      destruct ((m <=? avail e o (pos s)) && (run_len e k c o (Z.to_nat m) (pos s) =? m)) eqn:Ec.
      + eapply rs_rep_ok with (m := m) (c := c); try exact tc_nonneg; try eassumption. lia.
      + destruct Hk as (np & T' & -> & w3 & Hw3). exists np, T', (pos s). split; [reflexivity|].
        eapply rs_rep_fail with (m := m) (c := c); try exact tc_nonneg; try eassumption. lia.
    - assert (m = 0) by lia. subst m. change (Z.to_nat 0) with 0%nat. cbn [run_len].
      replace (0 <=? avail e o (pos s)) with true by lia. cbn [andb Z.eqb].
      rewrite Z.mul_0_r, !Z.add_0_r in *. subst a1. apply rsteps_refl. }
  set (a1 := a + (if 0 <? m then 3 else 0)) in *.
  assert (Hsplit : (if 0 <? m then has_code a [rep_op k + bits_of o; c; m] else True) /\
                   has_code a1 (if m <? n then [loop_op k l + bits_of o; c; if n =? INF then INF else n - m] else [])).
  { apply has_code_app in Hc. destruct Hc as [Hc1 Hc2]. split.
    - destruct (0 <? m); [exact Hc1|exact I].
    - unfold a1. destruct (0 <? m); [exact Hc2|]. rewrite zlen_nil in Hc2. exact Hc2. }
  destruct Hsplit as [Hc1 Hc2].
  replace (a + ((if 0 <? m then 3 else 0) + (if m <? n then 3 else 0))) with (a1 + (if m <? n then 3 else 0)) in *
    by (unfold a1; lia).
  assert (Hex1 : code_ex a1).
  { eapply cc_code_ex_start; [exact Hc2|]. destruct (m <? n); [exact Hex|]. rewrite zlen_nil. exact Hex. }
  specialize (Hrep a1 eq_refl Hex1 Hc1).
  destruct ((m <=? avail e o (pos s)) && (run_len e k c o (Z.to_nat m) (pos s) =? m)) eqn:Ec.
  2:{ destruct Hrep as (np & T' & t & HT & Hs). eapply leadsg2_fail; eassumption. }
  apply andb_prop in Ec. destruct Ec as [EcA EcR].
  eapply leadsg2_pre; [exact Hrep|].
  destruct (clf_avail_shift e o (pos s) m Hp ltac:(lia)) as [HA1 Hp1].
  destruct (m <? n) eqn:Emn.
  - apply has_code_cons in Hc2. destruct Hc2 as [H0 Hc2]. apply has_code_cons in Hc2. destruct Hc2 as [H1 Hc2].
    apply has_code_cons in Hc2. destruct Hc2 as [H2 _]. replace (a1 + 1 + 1) with (a1 + 2) in H2 by lia.
    apply (c2_loop_res k o c (if n =? INF then INF else n - m) a1 (with_pos s (pos s + dir o * m)) T S C M);
      try assumption.
    destruct (n =? INF) eqn:E; unfold INF in *; lia.
  - rewrite Z.add_0_r. apply leadsg2_leaf; [exact Hk|exact Hr|]. cbn [pos with_pos]. apply rsteps_refl.
Qed.

End CC.
