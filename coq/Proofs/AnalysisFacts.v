(* C04, part 4: the leading-positive-lookahead wrapper (optimizations.go:344-361), the published record
   [Analysis.facts] as a whole, and the legacy facts getAnchors / getPrefix. *)
From Coq Require Import ZifyBool.
From Verif Require Import Base.Prelude Base.Utf8 Model.Tree Model.Spec Model.Analysis
     Proofs.SpecProofs Proofs.MaskProofs Proofs.AnalysisReach Proofs.AnalysisProofs Proofs.AnalysisPrefix.

Section Facts.
Variable e : env.

(* ------------------------------------------------------------------------------------------ *)
(* findLeadingPositiveLookahead: the lookahead it returns is evaluated at the attempt position *)

Lemma an_reach_poslook_inv o r s y : Reach e (NPosLook o r) s y -> exists s1, Reach e r s s1 /\ pos y = pos s.
Proof. inversion 1; subst. eexists. split; [eassumption|reflexivity]. Qed.

Lemma an_reach_loop_inv lazy o m n r s y :
  Reach e (NLoop lazy o m n r) s y -> m = 0 \/ exists s1, Reach e r s s1.
Proof. inversion 1; subst; [left; reflexivity|right; eexists; eassumption]. Qed.

Definition look_found (t : node) : Prop :=
  forall c, fst (lead_pos_look t) = Some c ->
  forall s y, Reach e t s y -> caps_nonneg (caps s) ->
  exists s1 y1, pos s1 = pos s /\ caps_nonneg (caps s1) /\ Reach e c s1 y1.

Definition look_keep (t : node) : Prop :=
  snd (lead_pos_look t) = true ->
  fst (lead_pos_look t) = None /\ forall s y, Reach e t s y -> pos y = pos s.

Lemma an_look_first_seq : forall l,
  Forall (fun t => look_found t /\ look_keep t) l ->
  (forall c, fst (look_first (map lead_pos_look l)) = Some c ->
   forall s y, ReachSeq e l s y -> caps_nonneg (caps s) ->
   exists s1 y1, pos s1 = pos s /\ caps_nonneg (caps s1) /\ Reach e c s1 y1) /\
  (snd (look_first (map lead_pos_look l)) = true ->
   fst (look_first (map lead_pos_look l)) = None /\ forall s y, ReachSeq e l s y -> pos y = pos s).
Proof.
  induction 1 as [|x l [Hfx Hkx] Hl [IHf IHk]]; cbn [map look_first].
  - split; [intros c Hc; discriminate Hc|]. intros _. split; [reflexivity|].
    intros s y Hr. apply an_reachseq_nil_inv in Hr. subst. reflexivity.
  - unfold look_found, look_keep in Hfx, Hkx.
    destruct (lead_pos_look x) as [la keep] eqn:Ex. cbn [fst snd] in *.
    destruct la as [c0|].
    + split; [|intros Hd; discriminate Hd].
      intros c Hc s y Hr Hcn. cbn [fst] in Hc. apply an_reachseq_cons_inv in Hr. destruct Hr as [s1 [Hx _]].
      exact (Hfx c Hc s s1 Hx Hcn).
    + destruct keep; [|split; [intros c Hc; discriminate Hc|intros Hd; discriminate Hd]].
      destruct (Hkx eq_refl) as [_ Hzw].
      split.
      * intros c Hc s y Hr Hcn. apply an_reachseq_cons_inv in Hr. destruct Hr as [s1 [Hx Hrest]].
        pose proof (an_reach_caps e _ _ _ Hx Hcn) as Hcn1.
        destruct (IHf c Hc s1 y Hrest Hcn1) as [s2 [y2 [Hp [Hc2 Hr2]]]].
        exists s2, y2. split; [rewrite Hp; apply Hzw; exact Hx|]. split; assumption.
      * intros Hk. destruct (IHk Hk) as [Hnone Hz]. split; [exact Hnone|].
        intros s y Hr. apply an_reachseq_cons_inv in Hr. destruct Hr as [s1 [Hx Hrest]].
        rewrite (Hz _ _ Hrest). apply Hzw. exact Hx.
Qed.

Lemma an_lead_pos_look_all : forall t, look_found t /\ look_keep t.
Proof.
  induction t using node_ind'; unfold look_found, look_keep; cbn [lead_pos_look fst snd];
    try (split; [intros c0 Hc; discriminate Hc|intros Hd; discriminate Hd]).
  - (* NAnchor *)
    split; [intros c0 Hc; discriminate Hc|]. intros _. split; [reflexivity|].
    intros s0 y Hr. apply an_reach_anchor_inv in Hr. destruct Hr as [-> _]. reflexivity.
  - (* NEmpty *)
    split; [intros c0 Hc; discriminate Hc|]. intros _. split; [reflexivity|].
    intros s0 y Hr. inversion Hr; subst. reflexivity.
  - (* NConcat *)
    destruct (is_rtl o); [split; [intros c0 Hc; discriminate Hc|intros Hd; discriminate Hd]|].
    destruct (an_look_first_seq l H) as [Hf Hk]. split.
    + intros c0 Hc s0 y Hr Hcn. apply an_reach_concat_inv in Hr. exact (Hf c0 Hc s0 y Hr Hcn).
    + intros Hd. destruct (Hk Hd) as [Hnone Hz]. split; [exact Hnone|].
      intros s0 y Hr. apply an_reach_concat_inv in Hr. exact (Hz _ _ Hr).
  - (* NLoop *)
    destruct IHt as [Hf _]. unfold look_found in Hf.
    destruct (is_rtl o); [split; [intros c0 Hc; discriminate Hc|intros Hd; discriminate Hd]|].
    destruct (m <? 1) eqn:Em; [split; [intros c0 Hc; discriminate Hc|intros Hd; discriminate Hd]|].
    cbn [fst snd]. split; [|intros Hd; discriminate Hd].
    intros c0 Hc s0 y Hr Hcn. apply an_reach_loop_inv in Hr. destruct Hr as [Hm|[s1 Hr1]]; [lia|].
    exact (Hf c0 Hc s0 s1 Hr1 Hcn).
  - (* NCapture *)
    destruct IHt as [Hf Hk]. unfold look_found, look_keep in Hf, Hk.
    destruct (is_rtl o); [split; [intros c0 Hc; discriminate Hc|intros Hd; discriminate Hd]|].
    split.
    + intros c0 Hc s0 y Hr Hcn. apply an_reach_capture_inv in Hr. destruct Hr as [s1 [Hr1 _]].
      exact (Hf c0 Hc s0 s1 Hr1 Hcn).
    + intros Hd. destruct (Hk Hd) as [Hnone Hz]. split; [exact Hnone|].
      intros s0 y Hr. apply an_reach_capture_inv in Hr. destruct Hr as [s1 [Hr1 Hp]].
      rewrite Hp. apply Hz. exact Hr1.
  - (* NPosLook *)
    destruct (is_rtl o); [split; [intros c0 Hc; discriminate Hc|intros Hd; discriminate Hd]|].
    cbn [fst snd]. split; [|intros Hd; discriminate Hd].
    intros c0 Hc s0 y Hr Hcn. injection Hc as <-.
    apply an_reach_poslook_inv in Hr. destruct Hr as [s1 [Hr1 _]].
    exists s0, s1. split; [reflexivity|]. split; assumption.
  - (* NNegLook *)
    destruct (is_rtl o); [split; [intros c0 Hc; discriminate Hc|intros Hd; discriminate Hd]|].
    cbn [fst snd]. split; [intros c0 Hc; discriminate Hc|]. intros _. split; [reflexivity|].
    intros s0 y Hr. inversion Hr; subst. reflexivity.
  - (* NAtomic *)
    destruct IHt as [Hf Hk]. unfold look_found, look_keep in Hf, Hk. split.
    + intros c0 Hc s0 y Hr Hcn. apply an_reach_atomic_inv in Hr. exact (Hf c0 Hc s0 y Hr Hcn).
    + intros Hd. destruct (Hk Hd) as [Hnone Hz]. split; [exact Hnone|].
      intros s0 y Hr. apply an_reach_atomic_inv in Hr. exact (Hz _ _ Hr).
Qed.

(* the lookahead found at the head of the pattern matches at the attempt position *)
Lemma an_attempt_look fuel root p s' c :
  fst (lead_pos_look root) = Some c -> attempt e fuel root p = Ok (Some s') ->
  exists s1 y1, pos s1 = p /\ caps_nonneg (caps s1) /\ Reach e c s1 y1.
Proof.
  intros Hc Ha. pose proof (attempt_reach e _ _ _ _ Ha) as Hr.
  destruct (proj1 (an_lead_pos_look_all root) c Hc _ _ Hr an_caps_nonneg_nil) as [s1 [y1 [Hp [Hcn Hr1]]]].
  exists s1, y1. split; [exact Hp|]. split; assumption.
Qed.

(* ------------------------------------------------------------------------------------------ *)
(* the published record                                                                        *)

Lemma an_anchor_of_code_code a : anchor_of_code (anchor_code a) = Some a.
Proof. destruct a; reflexivity. Qed.

Lemma an_oanchor_code_inv la a : anchor_of_code (oanchor_code la) = Some a -> la = Some a.
Proof.
  destruct la as [x|]; cbn [oanchor_code]; [rewrite an_anchor_of_code_code; exact (fun H => H)|].
  intros H. discriminate H.
Qed.

Ltac an_ffn_cases t :=
  unfold facts_for_node;
  destruct (lead_anchor true t) as [[]|];
  repeat match goal with |- context [if ?b then _ else _] => destruct b end;
  cbn [f_min f_max f_lead f_trail f_mode f_prefix].

Lemma an_ffn_min rtl partial t : f_min (facts_for_node rtl partial t) = min_len t.
Proof. an_ffn_cases t; reflexivity. Qed.

Lemma an_ffn_max rtl partial t :
  f_max (facts_for_node rtl partial t) = -1 \/ f_max (facts_for_node rtl partial t) = max_len t.
Proof. an_ffn_cases t; auto. Qed.

Lemma an_ffn_lead rtl partial t a :
  anchor_of_code (f_lead (facts_for_node rtl partial t)) = Some a -> lead_anchor true t = Some a.
Proof.
  unfold facts_for_node. destruct (lead_anchor true t) as [x|] eqn:El.
  - destruct x;
      repeat match goal with |- context [if ?b then _ else _] => destruct b end;
      cbn [f_lead]; intros H; try (apply an_oanchor_code_inv in H; exact H); try discriminate H.
  - repeat match goal with |- context [if ?b then _ else _] => destruct b end;
      cbn [f_lead]; intros H; discriminate H.
Qed.

Lemma an_ffn_trail rtl partial t a :
  anchor_of_code (f_trail (facts_for_node rtl partial t)) = Some a -> lead_anchor false t = Some a.
Proof.
  an_ffn_cases t; intros H; try discriminate H; try (apply an_oanchor_code_inv in H; exact H).
Qed.

Lemma an_ffn_trail_partial rtl t : anchor_of_code (f_trail (facts_for_node rtl true t)) = None.
Proof.
  unfold facts_for_node. rewrite andb_false_r.
  destruct (lead_anchor true t) as [[]|];
  repeat match goal with |- context [if ?b then _ else _] => destruct b end;
  cbn [f_trail]; reflexivity.
Qed.

Lemma an_ffn_prefix rtl partial t :
  f_prefix (facts_for_node rtl partial t) = [] \/ f_prefix (facts_for_node rtl partial t) = find_prefix t.
Proof. an_ffn_cases t; auto. Qed.

Definition bytes_from (p : Z) : list Z := encode_string (skipn (Z.to_nat p) (txt e)).

(* what the scan loop and the candidate finders assume of the record, at an attempt at p ending in s' *)
Definition facts_hold (rtl : bool) (p : Z) (s' : st) (f : facts_t) : Prop :=
  f_min f <= (if rtl then p else tlen e - p) /\
  (0 <= f_max f -> Z.abs (pos s' - p) <= f_max f) /\
  (forall a, anchor_of_code (f_lead f) = Some a -> anchor_ok e a p = true) /\
  (forall a, anchor_of_code (f_trail f) = Some a -> anchor_ok e a (pos s') = true) /\
  (rtl = false -> an_prefix (f_prefix f) (bytes_from p)).

Lemma an_bytes_from_slice p q : an_prefix (encode_string (slice e p q)) (bytes_from p).
Proof. unfold bytes_from. apply an_encode_string_prefix. apply an_slice_prefix_from. Qed.

Lemma an_ffn_hold rtl partial t s y :
  Reach e t s y -> shape_ok rtl t = true -> no_ci_lit t = true -> inb e s -> caps_nonneg (caps s) ->
  facts_hold rtl (pos s) y (facts_for_node rtl partial t).
Proof.
  intros Hr Hs Hn Hb Hcn.
  destruct (proj1 (an_shape_all e rtl) _ _ _ Hr Hs Hb Hcn) as [Hy [H0 [Hmin Hmax]]].
  unfold inb in Hb, Hy. unfold facts_hold. rewrite an_ffn_min.
  split; [unfold disp in *; destruct rtl; lia|].
  split.
  { destruct (an_ffn_max rtl partial t) as [->| ->]; [lia|]. intros Hm. specialize (Hmax Hm).
    unfold disp in *. destruct rtl; lia. }
  split.
  { intros a Ha. apply an_ffn_lead in Ha. exact (an_lead_anchor_reach e true _ _ Ha _ _ Hr). }
  split.
  { intros a Ha. apply an_ffn_trail in Ha. exact (an_lead_anchor_reach e false _ _ Ha _ _ Hr). }
  intros ->. destruct (an_ffn_prefix false partial t) as [->| ->]; [apply an_prefix_nil|].
  destruct (proj1 (an_prefix_all e) _ _ _ Hr Hs Hn Hb Hcn) as [Hpre _].
  eapply an_prefix_trans; [exact Hpre|]. apply an_bytes_from_slice.
Qed.

Theorem an_facts_sound rtl later_useful fuel root p s' :
  shape_ok rtl root = true -> no_ci_lit root = true -> look_ok root = true -> 0 <= p <= tlen e ->
  attempt e fuel root p = Ok (Some s') ->
  facts_hold rtl p s' (facts rtl later_useful root).
Proof.
  intros Hs Hn Hlk Hp Ha. pose proof (attempt_reach e _ _ _ _ Ha) as Hr.
  pose proof (an_ffn_hold rtl false root _ _ Hr Hs Hn Hp an_caps_nonneg_nil) as Hf. cbn [pos] in Hf.
  unfold facts.
  destruct (negb rtl && negb (if f_mode (facts_for_node rtl false root) =? MODE_LATER
                              then later_useful || (f_lead (facts_for_node rtl false root) =? 14) else true)) eqn:Ew;
    [|exact Hf].
  unfold look_ok in Hlk.
  destruct (fst (lead_pos_look root)) as [c|] eqn:Ec; [|exact Hf].
  apply andb_true_iff in Hlk. destruct Hlk as [Hsc Hnc].
  assert (Hrtl : rtl = false) by (destruct rtl; [discriminate Ew|reflexivity]). subst rtl.
  destruct (an_attempt_look fuel root p s' c Ec Ha) as [s1 [y1 [Hp1 [Hcn1 Hr1]]]].
  assert (Hb1 : inb e s1) by (unfold inb; rewrite Hp1; exact Hp).
  pose proof (an_ffn_hold false true c _ _ Hr1 Hsc Hnc Hb1 Hcn1) as Hg. rewrite Hp1 in Hg.
  destruct Hf as [Hf1 [Hf2 [Hf3 [Hf4 Hf5]]]]. destruct Hg as [Hg1 [Hg2 [Hg3 [Hg4 Hg5]]]].
  unfold facts_hold. cbn [f_min f_max f_lead f_trail f_prefix].
  split; [lia|]. split; [exact Hf2|]. split; [exact Hg3|]. split; [|exact Hg5].
  intros a Hta. rewrite an_ffn_trail_partial in Hta. discriminate Hta.
Qed.

End Facts.

(* ------------------------------------------------------------------------------------------ *)
(* the legacy facts: Code.Anchors (getAnchors) and the Boyer-Moore prefix (getPrefix)          *)

Section Legacy.
Variable e : env.

Lemma an_anchor_bit_inj a b :
  anchor_findable a = true -> anchor_findable b = true -> anchor_bit a = anchor_bit b -> a = b.
Proof. destruct a, b; cbn; intros Ha Hb H; try reflexivity; try discriminate Ha; try discriminate Hb; lia. Qed.

Lemma an_anchor_bit_nz a : anchor_findable a = true -> anchor_bit a <> 0.
Proof. destruct a; cbn; intros H; try discriminate H; lia. Qed.

Lemma an_zw_skip t s y :
  match t with NEmpty | NPosLook _ _ | NNegLook _ _ => True | _ => False end -> Reach e t s y -> pos y = pos s.
Proof. destruct t; intros Hk Hr; try destruct Hk; inversion Hr; subst; reflexivity. Qed.

Definition ga_ok (t : node) : Prop :=
  match get_anchors_walk t with
  | WSkip => forall s y, Reach e t s y -> pos y = pos s
  | WDone z => forall a, anchor_findable a = true -> z = anchor_bit a ->
               forall s y, Reach e t s y -> anchor_ok e a (pos s) = true
  end.

Lemma an_ga_seq : forall l, Forall ga_ok l -> forall a, anchor_findable a = true ->
  first_done (map get_anchors_walk l) 0 = anchor_bit a ->
  forall s y, ReachSeq e l s y -> anchor_ok e a (pos s) = true.
Proof.
  induction 1 as [|x l Hx Hl IH]; intros a Hfa Hfd s y Hr; cbn [map first_done] in Hfd.
  - exfalso. apply (an_anchor_bit_nz a Hfa). symmetry. exact Hfd.
  - apply an_reachseq_cons_inv in Hr. destruct Hr as [s1 [Hr1 Hrest]].
    unfold ga_ok in Hx. destruct (get_anchors_walk x) as [z|].
    + exact (Hx a Hfa Hfd s s1 Hr1).
    + rewrite <- (Hx s s1 Hr1). exact (IH a Hfa Hfd s1 y Hrest).
Qed.

Lemma an_ga_all : forall t, ga_ok t.
Proof.
  induction t using node_ind'; unfold ga_ok; cbn [get_anchors_walk];
    try (intros a0 Hfa Hz; exfalso; apply (an_anchor_bit_nz a0 Hfa); symmetry; exact Hz);
    try (intros s0 y Hr; inversion Hr; subst; reflexivity).
  - (* NAnchor *)
    destruct (anchor_findable a) eqn:Ea.
    + intros a0 Hfa Hz s0 y Hr. apply an_anchor_bit_inj in Hz; [|assumption|assumption]. subst a0.
      apply an_reach_anchor_inv in Hr. destruct Hr as [_ Hok]. exact Hok.
    + intros a0 Hfa Hz. exfalso. apply (an_anchor_bit_nz a0 Hfa). symmetry. exact Hz.
  - (* NConcat *)
    destruct l as [|x l].
    + intros s0 y Hr. apply an_reach_concat_inv in Hr. apply an_reachseq_nil_inv in Hr. subst. reflexivity.
    + intros a0 Hfa Hz s0 y Hr. apply an_reach_concat_inv in Hr.
      exact (an_ga_seq (x :: l) H a0 Hfa Hz s0 y Hr).
  - (* NCapture *)
    intros a0 Hfa Hz s0 y Hr. apply an_reach_capture_inv in Hr. destruct Hr as [s1 [Hr1 _]].
    unfold ga_ok in IHt. destruct (get_anchors_walk t) as [z|].
    + exact (IHt a0 Hfa Hz s0 s1 Hr1).
    + exfalso. apply (an_anchor_bit_nz a0 Hfa). symmetry. exact Hz.
  - (* NAtomic *)
    intros a0 Hfa Hz s0 y Hr. apply an_reach_atomic_inv in Hr.
    unfold ga_ok in IHt. destruct (get_anchors_walk t) as [z|].
    + exact (IHt a0 Hfa Hz s0 y Hr).
    + exfalso. apply (an_anchor_bit_nz a0 Hfa). symmetry. exact Hz.
Qed.

Theorem an_get_anchors_sound fuel root p s' a :
  anchor_findable a = true -> get_anchors root = anchor_bit a ->
  attempt e fuel root p = Ok (Some s') -> anchor_ok e a p = true.
Proof.
  intros Hfa Hg Ha. pose proof (attempt_reach e _ _ _ _ Ha) as Hr.
  pose proof (an_ga_all root) as Hok. unfold ga_ok, get_anchors in *.
  destruct (get_anchors_walk root) as [z|].
  - exact (Hok a Hfa Hg _ _ Hr).
  - exfalso. apply (an_anchor_bit_nz a Hfa). symmetry. exact Hg.
Qed.

(* ---- getPrefix ---- *)

Definition txt_from (p : Z) : list Z := skipn (Z.to_nat p) (txt e).

Definition gp_ok (t : node) : Prop :=
  match get_prefix_walk t with
  | WSkip => forall s y, Reach e t s y -> pos y = pos s
  | WDone None => True
  | WDone (Some (str, ci)) =>
      ci = false -> shape_ok false t = true ->
      forall s y, Reach e t s y -> inb e s -> caps_nonneg (caps s) -> an_prefix str (txt_from (pos s))
  end.

Lemma an_gp_seq : forall l, Forall gp_ok l -> forallb (shape_ok false) l = true ->
  forall str, first_done (map get_prefix_walk l) None = Some (str, false) ->
  forall s y, ReachSeq e l s y -> inb e s -> caps_nonneg (caps s) -> an_prefix str (txt_from (pos s)).
Proof.
  induction 1 as [|x l Hx Hl IH]; intros Hs str Hfd s y Hr Hb Hcn; cbn [map first_done] in Hfd; [discriminate Hfd|].
  cbn [forallb] in Hs. apply andb_true_iff in Hs. destruct Hs as [Hsx Hsl].
  apply an_reachseq_cons_inv in Hr. destruct Hr as [s1 [Hr1 Hrest]].
  unfold gp_ok in Hx. destruct (get_prefix_walk x) as [z|].
  - subst z. exact (Hx eq_refl Hsx s s1 Hr1 Hb Hcn).
  - pose proof (Hx s s1 Hr1) as Hp. rewrite <- Hp.
    apply (IH Hsl str Hfd s1 y Hrest); [unfold inb in *; rewrite Hp; exact Hb|].
    exact (an_reach_caps e _ _ _ Hr1 Hcn).
Qed.

Lemma an_repeat_prefix (c : Z) i j : (i <= j)%nat -> an_prefix (repeat c i) (repeat c j).
Proof.
  intros Hij. replace j with (i + (j - i))%nat by lia. rewrite repeat_app.
  exists (repeat c (j - i)). reflexivity.
Qed.

Lemma an_reach_char_inv k o c s y : Reach e (NChar k o c) s y ->
  (0 <? avail e o (pos s)) && char_test e k c (next_char e o (pos s)) = true.
Proof. inversion 1; subst. assumption. Qed.

Lemma an_reach_charloop_inv k l o c m n s y : Reach e (NCharLoop k l o c m n) s y -> In y (sem_charloop e k l o c m n s).
Proof. inversion 1; subst. assumption. Qed.

Lemma an_reach_multi_inv o str s y : Reach e (NMulti o str) s y -> In y (sem_multi e o str s).
Proof. inversion 1; subst. assumption. Qed.

Lemma an_gp_all : forall t, gp_ok t.
Proof.
  induction t using node_ind'; unfold gp_ok; cbn [get_prefix_walk]; try exact I;
    try (intros s0 y Hr; inversion Hr; subst; reflexivity).
  - (* NChar *)
    destruct k; try exact I.
    intros Hci Hs s0 y Hr Hb Hcn. cbn [shape_ok] in Hs. apply eqb_prop in Hs.
    apply an_reach_char_inv in Hr. apply andb_true_iff in Hr. destruct Hr as [Hav Hch].
    unfold avail, next_char in *. rewrite Hs in *. cbn [char_test] in Hch.
    unfold inb in Hb. assert (Hc : char_at e (pos s0) = c) by lia. rewrite <- Hc.
    rewrite <- (an_slice_one e (pos s0)) by lia. apply an_slice_prefix_from.
  - (* NCharLoop *)
    destruct k; try exact I. destruct l; try exact I.
    + destruct (0 <? m) eqn:Em; [|exact I].
      intros Hci Hs s0 y Hr Hb Hcn. cbn [shape_ok] in Hs.
      apply andb_true_iff in Hs. destruct Hs as [Hs _]. apply andb_true_iff in Hs. destruct Hs as [Hs _].
      apply eqb_prop in Hs. apply an_reach_charloop_inv in Hr.
      apply an_charloop_in2 in Hr. destruct Hr as [j [maxn [_ [Hj _]]]].
      unfold inb in Hb.
      pose proof (an_run_slice e c o Hs maxn (pos s0) j ltac:(lia) ltac:(lia)) as Hsl.
      apply (an_prefix_trans _ (repeat c (Z.to_nat j))); [|rewrite <- Hsl; apply an_slice_prefix_from].
      apply an_repeat_prefix. unfold MAX_PREFIX_SIZE. destruct (50 <? m) eqn:E50; lia.
    + destruct (0 <? m) eqn:Em; [|exact I].
      intros Hci Hs s0 y Hr Hb Hcn. cbn [shape_ok] in Hs.
      apply andb_true_iff in Hs. destruct Hs as [Hs _]. apply andb_true_iff in Hs. destruct Hs as [Hs _].
      apply eqb_prop in Hs. apply an_reach_charloop_inv in Hr.
      apply an_charloop_in2 in Hr. destruct Hr as [j [maxn [_ [Hj _]]]].
      unfold inb in Hb.
      pose proof (an_run_slice e c o Hs maxn (pos s0) j ltac:(lia) ltac:(lia)) as Hsl.
      apply (an_prefix_trans _ (repeat c (Z.to_nat j))); [|rewrite <- Hsl; apply an_slice_prefix_from].
      apply an_repeat_prefix. unfold MAX_PREFIX_SIZE. destruct (50 <? m) eqn:E50; lia.
  - (* NMulti *)
    intros Hci Hs s0 y Hr Hb Hcn. cbn [shape_ok] in Hs. apply eqb_prop in Hs.
    apply an_reach_multi_inv in Hr. apply an_multi_in in Hr. destruct Hr as [_ [Hav Hm]].
    unfold avail in Hav. rewrite Hs, Hci in *. unfold inb in Hb.
    rewrite <- (an_str_match_slice e s (pos s0)) at 1 by (try assumption; lia).
    apply an_slice_prefix_from.
  - (* NAnchor *)
    destruct (anchor_findable a); [|exact I].
    intros s0 y Hr. apply an_reach_anchor_inv in Hr. destruct Hr as [-> _]. reflexivity.
  - (* NConcat *)
    destruct l as [|x l].
    + intros s0 y Hr. apply an_reach_concat_inv in Hr. apply an_reachseq_nil_inv in Hr. subst. reflexivity.
    + destruct (first_done (map get_prefix_walk (x :: l)) None) as [[str ci]|] eqn:Efd; [|exact I].
      intros Hci Hs s0 y Hr Hb Hcn. subst ci. cbn [shape_ok] in Hs. apply an_reach_concat_inv in Hr.
      exact (an_gp_seq (x :: l) H Hs str Efd s0 y Hr Hb Hcn).
  - (* NCapture *)
    unfold gp_ok in IHt. destruct (get_prefix_walk t) as [[[str ci]|]|]; try exact I.
    intros Hci Hs s0 y Hr Hb Hcn. cbn [shape_ok] in Hs.
    apply an_reach_capture_inv in Hr. destruct Hr as [s1 [Hr1 _]].
    exact (IHt Hci Hs s0 s1 Hr1 Hb Hcn).
  - (* NAtomic *)
    unfold gp_ok in IHt. destruct (get_prefix_walk t) as [[[str ci]|]|]; try exact I.
    intros Hci Hs s0 y Hr Hb Hcn. cbn [shape_ok] in Hs.
    apply an_reach_atomic_inv in Hr. exact (IHt Hci Hs s0 y Hr Hb Hcn).
Qed.

Lemma an_bm_prefix_inv t str ci :
  bm_prefix t = Some (str, ci) ->
  exists s0 k, get_prefix_walk t = WDone (Some (s0, ci)) /\ str = firstn k s0.
Proof.
  unfold bm_prefix, bm_prefix_dir. cbv zeta. remember (Z.to_nat MAX_PREFIX_SIZE) as k eqn:Ek. clear Ek.
  destruct (get_prefix_walk t) as [[[s0 ci0]|]|]; try (intros H; discriminate H).
  destruct s0 as [|c0 s0]; [intros H; discriminate H|].
  destruct (existsb (fun c => 65535 <? c) (firstn k (c0 :: s0))); [intros H; discriminate H|].
  intros H. injection H as <- <-. exists (c0 :: s0), k. split; reflexivity.
Qed.

(* left-to-right pattern, case-sensitive prefix: the text at the attempt position starts with it *)
Theorem an_bm_prefix_sound fuel root p s' str :
  bm_prefix root = Some (str, false) -> shape_ok false root = true -> 0 <= p <= tlen e ->
  attempt e fuel root p = Ok (Some s') -> an_prefix str (txt_from p).
Proof.
  intros Hbm Hs Hp Ha. pose proof (attempt_reach e _ _ _ _ Ha) as Hr.
  destruct (an_bm_prefix_inv _ _ _ Hbm) as [s0 [k [Hw ->]]].
  pose proof (an_gp_all root) as Hok. unfold gp_ok in Hok. rewrite Hw in Hok.
  eapply an_prefix_trans; [apply an_prefix_firstn|].
  exact (Hok eq_refl Hs _ _ Hr Hp an_caps_nonneg_nil).
Qed.

End Legacy.
