(* Facts about Base/Utf8.v: totality, widths, decode/encode round trips, slicing at rune
   boundaries.  Everything holds for arbitrary [list Z] (no byte-range hypothesis needed:
   the decoder treats a non-byte as an invalid byte). *)
From Verif Require Import Base.Prelude Base.Utf8.
From Coq Require Import ZifyBool.
Ltac Zify.zify_post_hook ::= Z.div_mod_to_equations.

Definition zsum (l : list Z) : Z := fold_right Z.add 0 l.

Lemma zsum_app a b : zsum (a ++ b) = zsum a + zsum b.
Proof. unfold zsum. induction a as [|x a IH]; cbn [fold_right app] in *; lia. Qed.

Lemma skipn_add {A} (l : list A) : forall a b, skipn (a + b) l = skipn b (skipn a l).
Proof.
  induction l as [|x l IH]; intros a b.
  - rewrite !skipn_nil. reflexivity.
  - destruct a as [|a]; [reflexivity|]. cbn [Nat.add skipn]. apply IH.
Qed.

(* ---------- one rune ---------- *)

Ltac break_if :=
  match goal with
  | |- context [if ?c then _ else _] => let E := fresh "E" in destruct c eqn:E
  | H : context [if ?c then _ else _] |- _ => let E := fresh "E" in destruct c eqn:E
  end.

Lemma decode_rune_nil : decode_rune [] = (rune_error, 0%nat).
Proof. reflexivity. Qed.

(* the width is between 1 and 4 and never exceeds what is there *)
Lemma decode_rune_width b t :
  (1 <= snd (decode_rune (b :: t)) <= 4)%nat /\
  (snd (decode_rune (b :: t)) <= length (b :: t))%nat.
Proof.
  unfold decode_rune, invalid1.
  destruct t as [|b1 [|b2 [|b3 t]]]; repeat break_if; cbn [snd length]; lia.
Qed.

(* classification of every result: the error pair, or a valid scalar in shortest form whose
   width is RuneLen and whose bytes are exactly its encoding *)
Lemma decode_rune_cases b t :
  decode_rune (b :: t) = invalid1 \/
  (let (r, w) := decode_rune (b :: t) in
   valid_rune r = true /\ Z.of_nat w = rune_len r /\ firstn w (b :: t) = encode r).
Proof.
  unfold decode_rune, invalid1, is_cont.
  destruct t as [|b1 [|b2 [|b3 t]]]; repeat break_if; try (left; reflexivity); right;
    unfold valid_rune, rune_len, encode, is_surrogate, max_rune in *;
    (split; [lia|]); (split; [repeat break_if; lia|]);
    repeat break_if; try lia; cbn [firstn]; repeat f_equal; lia.
Qed.

Lemma decode_rune_valid_width b t r w :
  decode_rune (b :: t) = (r, w) -> (r, w) <> invalid1 ->
  valid_rune r = true /\ Z.of_nat w = rune_len r /\ firstn w (b :: t) = encode r.
Proof.
  intros H Hne. destruct (decode_rune_cases b t) as [C|C]; [congruence|].
  rewrite H in C. exact C.
Qed.

(* cutting the input anywhere at or after the end of the first rune does not change it *)
Lemma decode_rune_firstn p n :
  (snd (decode_rune p) <= n)%nat -> decode_rune (firstn n p) = decode_rune p.
Proof.
  destruct p as [|b0 t]; [destruct n; reflexivity|].
  destruct n as [|n]; [pose proof (decode_rune_width b0 t); lia|].
  cbn [firstn]. unfold decode_rune, invalid1.
  destruct t as [|b1 [|b2 [|b3 t]]]; destruct n as [|[|[|n]]]; cbn [firstn snd];
    repeat break_if; cbn [snd]; intros; try reflexivity; try lia; try congruence.
Qed.

(* the first rune only depends on the first four bytes, so anything may follow a complete one *)
Lemma decode_rune_encode r t :
  valid_rune r = true -> decode_rune (encode r ++ t) = (r, Z.to_nat (rune_len r)).
Proof.
  unfold valid_rune, encode, rune_len, is_surrogate, max_rune. intros Hv.
  repeat break_if; try lia; cbn [app]; unfold decode_rune, invalid1, is_cont, is_surrogate, max_rune;
    repeat break_if; try lia; f_equal; lia.
Qed.

Lemma decode_rune_encode_error t : decode_rune (encode_error ++ t) = (rune_error, 3%nat).
Proof. reflexivity. Qed.

Lemma encode_invalid r : valid_rune r = false -> encode r = encode_error.
Proof.
  unfold valid_rune, encode, is_surrogate, max_rune. intros H. repeat break_if; try reflexivity; lia.
Qed.

Lemma rune_len_invalid r : valid_rune r = false -> rune_len r = -1.
Proof.
  unfold valid_rune, rune_len, is_surrogate, max_rune. intros H. repeat break_if; try reflexivity; lia.
Qed.

Lemma rune_len_valid r : valid_rune r = true -> 1 <= rune_len r <= 4.
Proof.
  unfold valid_rune, rune_len, is_surrogate, max_rune. intros H. repeat break_if; lia.
Qed.

Lemma encode_length r : zlen (encode r) = encode_len r.
Proof.
  unfold encode, encode_len, rune_len, encode_error, zlen, is_surrogate, max_rune.
  repeat break_if; cbn [length]; lia.
Qed.

Lemma encode_len_range r : 1 <= encode_len r <= 4.
Proof.
  unfold encode_len, rune_len, is_surrogate, max_rune. repeat break_if; lia.
Qed.

(* whatever the rune, its written form reads back as (sanitize r, encode_len r) *)
Lemma decode_rune_encode_any r t :
  decode_rune (encode r ++ t) = (sanitize r, Z.to_nat (encode_len r)).
Proof.
  unfold sanitize, encode_len. destruct (valid_rune r) eqn:V.
  - rewrite decode_rune_encode by exact V. pose proof (rune_len_valid r V).
    replace (rune_len r <? 0) with false by lia. reflexivity.
  - rewrite encode_invalid, rune_len_invalid by exact V. reflexivity.
Qed.

(* ---------- whole strings ---------- *)

Lemma decode_aux_skip : forall s k, decode_aux k s = decode (skipn k s).
Proof.
  induction s as [|b t IH]; intros k.
  - destruct k; reflexivity.
  - destruct k as [|k]; [reflexivity|]. cbn [decode_aux skipn]. apply IH.
Qed.

Lemma decode_nil : decode [] = [].
Proof. reflexivity. Qed.

(* the loop [for i, r := range s] one step at a time *)
Lemma decode_unfold b t :
  decode (b :: t) =
  decode_rune (b :: t) :: decode (skipn (snd (decode_rune (b :: t))) (b :: t)).
Proof.
  unfold decode at 1. cbn [decode_aux]. f_equal. rewrite decode_aux_skip.
  pose proof (decode_rune_width b t) as [Hw _].
  destruct (snd (decode_rune (b :: t))) as [|w]; [lia|]. reflexivity.
Qed.

Lemma decode_unfold' s :
  s <> [] -> decode s = decode_rune s :: decode (skipn (snd (decode_rune s)) s).
Proof. destruct s as [|b t]; [congruence|]. intros _. apply decode_unfold. Qed.

Lemma decode_ind (P : list Z -> Prop) :
  P [] ->
  (forall b t, P (skipn (snd (decode_rune (b :: t))) (b :: t)) -> P (b :: t)) ->
  forall s, P s.
Proof.
  intros H0 HS s.
  remember (length s) as n eqn:Hn. revert s Hn.
  induction n as [n IH] using lt_wf_ind. intros s Hn.
  destruct s as [|b t]; [exact H0|]. apply HS.
  pose proof (decode_rune_width b t) as [Hw Hl].
  eapply IH; [|reflexivity]. rewrite skipn_length. subst n. cbn [length] in *. lia.
Qed.

(* decode_total: the widths tile the string exactly; every width is 1..4 *)
Lemma decode_total s : zsum (widths_of s) = zlen s.
Proof.
  unfold widths_of, zlen. induction s as [|b t IH] using decode_ind; [reflexivity|].
  rewrite decode_unfold. cbn [map zsum fold_right]. fold (zsum (map (fun p => Z.of_nat (snd p))
    (decode (skipn (snd (decode_rune (b :: t))) (b :: t))))).
  rewrite IH. rewrite skipn_length.
  pose proof (decode_rune_width b t) as [Hw Hl]. lia.
Qed.

Lemma decode_widths_range s : Forall (fun w => 1 <= w <= 4) (widths_of s).
Proof.
  unfold widths_of. induction s as [|b t IH] using decode_ind; [constructor|].
  rewrite decode_unfold. cbn [map]. constructor; [|exact IH].
  pose proof (decode_rune_width b t) as [Hw Hl]. cbn [snd]. lia.
Qed.

Lemma decode_length_le s : (length (decode s) <= length s)%nat.
Proof.
  induction s as [|b t IH] using decode_ind; [cbn; lia|].
  rewrite decode_unfold. cbn [length]. rewrite skipn_length in IH.
  pose proof (decode_rune_width b t) as [Hw Hl]. cbn [length] in *. lia.
Qed.

(* every element of the decoded list is the error pair or a valid scalar with its RuneLen width *)
Lemma decode_elements s :
  Forall (fun p => p = invalid1 \/ (valid_rune (fst p) = true /\ Z.of_nat (snd p) = rune_len (fst p)))
         (decode s).
Proof.
  induction s as [|b t IH] using decode_ind; [constructor|].
  rewrite decode_unfold. constructor; [|exact IH].
  destruct (decode_rune_cases b t) as [C|C]; [left; exact C|right].
  destruct (decode_rune (b :: t)) as [r w]. cbn [fst snd]. tauto.
Qed.

(* a complete encoded rune in front of anything *)
Lemma decode_encode_app r t :
  decode (encode r ++ t) = (sanitize r, Z.to_nat (encode_len r)) :: decode t.
Proof.
  pose proof (encode_length r) as HL. pose proof (encode_len_range r) as HR.
  destruct (encode r ++ t) as [|b u] eqn:E.
  - apply (f_equal (@length Z)) in E. rewrite app_length in E. unfold zlen in HL. cbn in E. lia.
  - rewrite decode_unfold. rewrite <- E. rewrite decode_rune_encode_any. cbn [snd]. f_equal.
    f_equal. unfold zlen in HL.
    replace (Z.to_nat (encode_len r)) with (length (encode r)) by lia.
    rewrite skipn_app, skipn_all, Nat.sub_diag. reflexivity.
Qed.

(* decode . encode: string([]rune) read back.  For valid scalars this is the identity on runes
   with width RuneLen; an invalid rune comes back as U+FFFD of width 3. *)
Lemma decode_encode_string rs :
  decode (encode_string rs) = map (fun r => (sanitize r, Z.to_nat (encode_len r))) rs.
Proof.
  induction rs as [|r rs IH]; [reflexivity|].
  unfold encode_string in *. cbn [flat_map map]. rewrite decode_encode_app, IH. reflexivity.
Qed.

Lemma decode_encode_valid rs :
  forallb valid_rune rs = true ->
  decode (encode_string rs) = map (fun r => (r, Z.to_nat (rune_len r))) rs.
Proof.
  intros H. rewrite decode_encode_string. apply map_ext_in. intros r Hin.
  rewrite forallb_forall in H. specialize (H r Hin).
  unfold sanitize, encode_len. rewrite H. pose proof (rune_len_valid r H).
  replace (rune_len r <? 0) with false by lia. reflexivity.
Qed.

(* encode . decode on valid UTF-8 *)
Lemma encode_decode s : valid_utf8 s = true -> encode_string (runes_of s) = s.
Proof.
  unfold valid_utf8, runes_of, encode_string.
  induction s as [|b t IH] using decode_ind; [reflexivity|].
  rewrite decode_unfold. cbn [forallb map flat_map]. intros H.
  apply andb_true_iff in H. destruct H as [Hp Hrest].
  rewrite (IH Hrest).
  destruct (decode_rune_cases b t) as [C|C].
  - rewrite C in Hp. discriminate Hp.
  - destruct (decode_rune (b :: t)) as [r w]. cbn [fst snd] in *. destruct C as (_ & _ & Hf).
    rewrite <- Hf. apply firstn_skipn.
Qed.

(* valid UTF-8, the other way round: an encoded rune string is valid *)
Lemma encode_string_valid rs : valid_utf8 (encode_string rs) = true.
Proof.
  unfold valid_utf8. rewrite decode_encode_string. rewrite forallb_forall. intros p Hin.
  apply in_map_iff in Hin. destruct Hin as (r & <- & _).
  unfold valid_pair, sanitize, encode_len. cbn [fst snd].
  destruct (valid_rune r) eqn:V.
  - pose proof (rune_len_valid r V). replace (rune_len r <? 0) with false by lia. lia.
  - rewrite (rune_len_invalid r V). reflexivity.
Qed.

(* ---------- slicing at rune boundaries ---------- *)

(* byte position where rune number k starts = sum of the first k widths *)
Definition nsum (l : list nat) : nat := fold_right Nat.add 0%nat l.

Lemma nsum_app a b : nsum (a ++ b) = (nsum a + nsum b)%nat.
Proof. unfold nsum. induction a as [|x a IH]; cbn [fold_right app] in *; lia. Qed.

Definition boundary (s : list Z) (k : nat) : nat := nsum (firstn k (map snd (decode s))).

Lemma boundary_0 s : boundary s 0 = 0%nat.
Proof. reflexivity. Qed.

Lemma boundary_S b t k :
  boundary (b :: t) (S k) =
  (snd (decode_rune (b :: t)) + boundary (skipn (snd (decode_rune (b :: t))) (b :: t)) k)%nat.
Proof. unfold boundary. rewrite decode_unfold. reflexivity. Qed.

Lemma boundary_nil k : boundary [] k = 0%nat.
Proof. unfold boundary. destruct k; reflexivity. Qed.

Lemma boundary_le s : forall k, (boundary s k <= length s)%nat.
Proof.
  induction s as [|b t IH] using decode_ind; intros k; [rewrite boundary_nil; cbn; lia|].
  destruct k as [|k]; [rewrite boundary_0; lia|].
  rewrite boundary_S. specialize (IH k). rewrite skipn_length in IH.
  pose proof (decode_rune_width b t) as [Hw Hl]. lia.
Qed.

(* suffix from a boundary: the remaining runes *)
Lemma decode_skipn_boundary s : forall k,
  decode (skipn (boundary s k) s) = skipn k (decode s).
Proof.
  induction s as [|b t IH] using decode_ind; intros k.
  - rewrite boundary_nil. destruct k; reflexivity.
  - destruct k as [|k]; [reflexivity|].
    rewrite boundary_S. rewrite (decode_unfold b t). cbn [skipn].
    rewrite <- IH. f_equal. apply skipn_add.
Qed.

(* prefix up to a boundary: the first runes (a truncated tail never merges into them) *)
Lemma decode_firstn_boundary s : forall k,
  decode (firstn (boundary s k) s) = firstn k (decode s).
Proof.
  induction s as [|b t IH] using decode_ind; intros k.
  - rewrite boundary_nil. destruct k; reflexivity.
  - destruct k as [|k]; [reflexivity|].
    rewrite boundary_S. rewrite (decode_unfold b t). cbn [firstn].
    set (w := snd (decode_rune (b :: t))) in *.
    set (u := skipn w (b :: t)) in *.
    pose proof (decode_rune_width b t) as [Hw Hl]. fold w in Hw, Hl.
    assert (Hfirst : firstn (w + boundary u k) (b :: t) = firstn w (b :: t) ++ firstn (boundary u k) u).
    { rewrite <- (firstn_skipn w (b :: t)) at 1. fold u.
      rewrite firstn_app. rewrite firstn_length, Nat.min_l by lia.
      rewrite firstn_all2 by (rewrite firstn_length; lia).
      replace (w + boundary u k - w)%nat with (boundary u k) by lia. reflexivity. }
    assert (Hdr : decode_rune (firstn w (b :: t) ++ firstn (boundary u k) u) = decode_rune (b :: t)).
    { rewrite <- Hfirst. apply decode_rune_firstn. fold w. lia. }
    rewrite Hfirst.
    rewrite decode_unfold' by (destruct w; [lia|]; discriminate).
    rewrite Hdr. fold w. f_equal.
    rewrite skipn_app, firstn_length, Nat.min_l by lia.
    rewrite skipn_all2 by (rewrite firstn_length; lia). rewrite Nat.sub_diag. cbn [app skipn].
    apply IH.
Qed.

Lemma nsum_firstn_add (ws : list nat) : forall i l,
  nsum (firstn (i + l) ws) = (nsum (firstn i ws) + nsum (firstn l (skipn i ws)))%nat.
Proof.
  unfold nsum. induction ws as [|x ws IH]; intros i l.
  - rewrite skipn_nil, !firstn_nil. reflexivity.
  - destruct i as [|i]; [reflexivity|]. cbn [Nat.add firstn skipn fold_right]. rewrite IH. lia.
Qed.

Lemma boundary_add s i l :
  boundary s (i + l) = (boundary s i + boundary (skipn (boundary s i) s) l)%nat.
Proof.
  unfold boundary at 1 2 3. rewrite decode_skipn_boundary, <- skipn_map. apply nsum_firstn_add.
Qed.

(* the slice between two boundaries decodes to exactly the runes between them *)
Lemma decode_slice s i l :
  decode (firstn (boundary s (i + l) - boundary s i) (skipn (boundary s i) s)) =
  firstn l (skipn i (decode s)).
Proof.
  rewrite <- decode_skipn_boundary. rewrite boundary_add.
  replace (boundary s i + boundary (skipn (boundary s i) s) l - boundary s i)%nat
    with (boundary (skipn (boundary s i) s) l) by lia.
  apply decode_firstn_boundary.
Qed.
