(* Proofs about Model/Clock.v (property C14).  All theorems are by induction over the action list
   of an arbitrary schedule; the invariant [Inv] is the heart. *)
From Coq Require Import ZifyBool.
From Verif Require Import Base.Prelude Model.Clock.
Ltac Zify.zify_post_hook ::= Z.div_mod_to_equations.

(* ---------- arithmetic ---------- *)
Lemma ticks_div x : ticks x = x / 1048576.
Proof.
  unfold ticks, tick_shift. rewrite Z.shiftr_div_pow2 by lia.
  change (2 ^ 20) with 1048576. reflexivity.
Qed.

Lemma slop_val : slop_ticks = 953.
Proof. reflexivity. Qed.

Lemma wrap64_id z : 0 <= z <= max_dur -> wrap64 z = z.
Proof. unfold wrap64, max_dur. intros H. lia. Qed.

Global Opaque ticks slop_ticks wrap64.

Ltac tk := rewrite ?ticks_div, ?slop_val in *; unfold tick_ns in *; lia.

(* ---------- lists ---------- *)
Lemma nth_error_upd_eq {A} (l : list A) i x y :
  nth_error l i = Some y -> nth_error (upd i x l) i = Some x.
Proof.
  revert i. induction l as [|a l IH]; intros [|i] H; cbn in *; try discriminate; auto.
Qed.

Lemma nth_error_upd_neq {A} (l : list A) i j x :
  i <> j -> nth_error (upd i x l) j = nth_error l j.
Proof.
  revert i j. induction l as [|a l IH]; intros [|i] [|j] H; cbn; auto; try congruence.
Qed.

Lemma length_upd {A} (l : list A) i x : length (upd i x l) = length l.
Proof. revert i. induction l as [|a l IH]; intros [|i]; cbn; auto. Qed.

Lemma nth_error_lt {A} (l : list A) i x : nth_error l i = Some x -> (i < length l)%nat.
Proof. intros H. apply nth_error_Some. congruence. Qed.

(* the thread list after a step of thread i that spawns sp *)
Lemma nth_new {A} (l sp : list A) i x y j z :
  nth_error l i = Some y ->
  nth_error (upd i x l ++ sp) j = Some z ->
  (j = i /\ z = x) \/ (j <> i /\ nth_error l j = Some z) \/
  (exists k, j = (length l + k)%nat /\ nth_error sp k = Some z).
Proof.
  intros Hi Hj.
  destruct (Nat.lt_ge_cases j (length l)) as [Hlt|Hge].
  - rewrite nth_error_app1 in Hj by (rewrite length_upd; exact Hlt).
    destruct (Nat.eq_dec j i) as [->|Hne].
    + rewrite (nth_error_upd_eq _ _ _ _ Hi) in Hj. left. split; congruence.
    + rewrite nth_error_upd_neq in Hj by congruence. right. left. auto.
  - rewrite nth_error_app2 in Hj by (rewrite length_upd; exact Hge).
    rewrite length_upd in Hj. right. right. exists (j - length l)%nat. split; [lia | exact Hj].
Qed.

Lemma nth_old {A} (l sp : list A) i x y j z :
  nth_error l i = Some y -> j <> i -> nth_error l j = Some z ->
  nth_error (upd i x l ++ sp) j = Some z.
Proof.
  intros Hi Hne Hj. rewrite nth_error_app1 by (rewrite length_upd; eapply nth_error_lt; eauto).
  rewrite nth_error_upd_neq by congruence. exact Hj.
Qed.

Lemma nth_self {A} (l sp : list A) i x y :
  nth_error l i = Some y -> nth_error (upd i x l ++ sp) i = Some x.
Proof.
  intros Hi. rewrite nth_error_app1 by (rewrite length_upd; eapply nth_error_lt; eauto).
  eapply nth_error_upd_eq; eauto.
Qed.

Lemma nth_spawn {A} (l : list A) i x z :
  nth_error (upd i x l ++ [z]) (length l) = Some z.
Proof.
  rewrite nth_error_app2 by (rewrite length_upd; lia). rewrite length_upd, Nat.sub_diag. reflexivity.
Qed.

(* ---------- the invariant (patched code, fx = true) ---------- *)
Section Inv.
Variables period lag : Z.
Hypothesis Hper : 0 <= period.
Hypothesis Hlag : 0 <= lag.

Notation kd := (kd period).

(* current is at least as recent as real time x *)
Definition fresh (G : gst) (x : Z) : Prop :=
  match start G with Some s => ticks (x - s) <= cur G | None => True end.

(* goroutine holds fast.mu at this program counter *)
Definition holds (t : thr) : bool :=
  match t with
  | MChk _ _ _ | MWr _ _ _ _ | E1 _ _ _ | E2 _ _ _ | E3 _ _ _ | E4 _ _ _
  | R1 _ | R2 _ | R5 _ | R6 _ _ | R7 _ | R8 _ | S1 | S2 | S4 | S5 _ => true
  | _ => false
  end.

Definition bnd (G : gst) (t0 : Z) : Prop := t0 <= now G <= t0 + lag.

(* the deadline is not too small / not too large relative to the call time t0 *)
Definition elow (G : gst) (d t0 e : Z) : Prop :=
  match start G with
  | Some s => ticks (t0 - (period + 2 * lag) - s) + kd d <= e
  | None => kd d <= e
  end.
Definition eupL (G : gst) (d t0 e : Z) : Prop :=
  match start G with
  | Some s => s <= t0 + lag /\ e <= ticks (t0 + lag - s) + kd d
  | None => e <= kd d
  end.
Definition eup (G : gst) (d t0 e : Z) : Prop :=
  exists s, start G = Some s /\ s <= t0 + lag /\ e <= ticks (t0 + lag - s) + kd d.

Definition no_early_ok (d t0 tm : Z) : Prop :=
  0 <= d -> d + period <= max_dur -> t0 + d - early_slack lag <= tm.

Definition cinv (G : gst) (last : Z) : Prop :=
  last <= now G <= last + period + lag /\ fresh G (last - lag) /\ start G <> None.

Definition wr_ok (G : gst) (tr : Z) : Prop :=
  exists s, start G = Some s /\ cur G <= ticks (tr - s).

Definition pinv (G : gst) (t : thr) : Prop :=
  match t with
  | MStart d t0 => bnd G t0
  | MRead2 d t0 ce =>
      bnd G t0 /\ (ce <= cur G \/ fresh G (t0 - (period + 2 * lag))) /\ (start G = None -> ce = 0)
  | MLock d t0 e => bnd G t0
  | MChk d t0 e => bnd G t0
  | MWr d t0 e tr => bnd G t0 /\ t0 <= tr <= now G /\ running G = false /\ wr_ok G tr
  | MUnl _ _ _ | ELock _ _ _ => False
  | E1 d t0 e => bnd G t0 /\ elow G d t0 e /\ eupL G d t0 e /\ (running G = false -> fresh G t0)
  | E2 d t0 e => bnd G t0 /\ elow G d t0 e /\ eupL G d t0 e /\ (running G = false -> fresh G t0)
                 /\ start G <> None
  | E3 d t0 e => bnd G t0 /\ elow G d t0 e /\ eupL G d t0 e /\ (running G = false -> fresh G t0)
                 /\ start G <> None /\ e + slop_ticks <= cend G
  | E4 d t0 e => bnd G t0 /\ elow G d t0 e /\ eupL G d t0 e /\ start G <> None
                 /\ e + slop_ticks <= cend G
  | MRet d t0 e => t0 <= now G /\ (1 <= kd d -> elow G d t0 e) /\ (e <= 0 \/ eup G d t0 e)
  | MTimedOut d t0 e tm => no_early_ok d t0 tm
  | MDone _ _ _ => True
  | R0 last | R1 last | R2 last | R3 last _ | R4 last | R5 last => cinv G last
  | R6 last tr => cinv G last /\ last <= tr <= now G /\ wr_ok G tr
  | R7 last => cinv G last /\ cend G < cur G
  | R8 last => last <= now G <= last + period + lag
  | RDone | S0 | S1 | S2 | S3 | S4 | S5 _ | SDone => True
  end.

Definition tinv (G : gst) (j : nat) (t : thr) : Prop :=
  (holds t = true <-> mu G = Some j) /\ pinv G t.

Definition upper (G : gst) : Prop :=
  match start G with
  | Some s => s <= now G /\ cur G <= ticks (now G - s)
  | None => cur G = 0 /\ cend G = 0 /\ running G = false
  end.

Record Inv (s : st) : Prop := {
  i_thr : forall j t, nth_error (ths s) j = Some t -> tinv (gs s) j t;
  i_up : upper (gs s);
  i_cur0 : 0 <= cur (gs s);
  i_mu : forall j, mu (gs s) = Some j -> (j < length (ths s))%nat;
  i_run : running (gs s) = true ->
          exists j t, nth_error (ths s) j = Some t /\ active t = true;
  i_stop : running (gs s) = false ->
           (exists j d t0 e, nth_error (ths s) j = Some (E3 d t0 e)) \/ cend (gs s) <= cur (gs s)
}.

(* what one step of goroutine i may change in the shared state *)
Definition gchg (i : nat) (G G' : gst) : Prop :=
  now G' = now G /\
  cur G <= cur G' /\
  (cur G' <> cur G \/ cend G' <> cend G \/ running G' <> running G \/ start G' <> start G ->
   mu G = Some i) /\
  (start G' = start G \/ (start G = None /\ start G' = Some (now G) /\ cur G' = cur G)) /\
  (mu G' = mu G \/ (mu G = None /\ mu G' = Some i) \/ (mu G = Some i /\ mu G' = None)).

Lemma pinv_ext G G' t :
  cur G' = cur G -> cend G' = cend G -> running G' = running G -> start G' = start G ->
  now G' = now G -> pinv G t -> pinv G' t.
Proof.
  intros H1 H2 H3 H4 H5.
  destruct t; cbn [pinv]; unfold bnd, elow, eupL, eup, fresh, cinv, wr_ok, fresh;
    rewrite ?H1, ?H2, ?H3, ?H4, ?H5; auto.
Qed.

Lemma frame i j G G' t :
  gchg i G G' -> 0 <= cur G -> j <> i -> tinv G j t -> tinv G' j t.
Proof.
  intros (Hn & Hc & Hw & Hs & Hm) H0 Hne [Hh Hp].
  destruct (holds t) eqn:Eh.
  - (* t holds the lock, so i does not: nothing it reads changed *)
    assert (Hmu : mu G = Some j) by (apply Hh; reflexivity).
    assert (Hni : mu G <> Some i) by (rewrite Hmu; congruence).
    assert (cur G' = cur G) by (destruct (Z.eq_dec (cur G') (cur G)); auto; exfalso; apply Hni, Hw; auto).
    assert (cend G' = cend G) by (destruct (Z.eq_dec (cend G') (cend G)); auto; exfalso; apply Hni, Hw; auto).
    assert (running G' = running G) by (destruct (Bool.bool_dec (running G') (running G)); auto; exfalso; apply Hni, Hw; auto).
    assert (start G' = start G).
    { destruct Hs as [Hs|(Hs & Hs' & _)]; auto. exfalso. apply Hni, Hw. right. right. right.
      congruence. }
    assert (mu G' = mu G).
    { destruct Hm as [Hm|[(Hm & _)|(Hm & _)]]; auto; congruence. }
    split; [rewrite H4, Eh; exact Hh | eapply pinv_ext; eauto].
  - assert (Hmu : mu G <> Some j) by (intro X; apply Hh in X; discriminate).
    assert (Hmu' : mu G' <> Some j).
    { destruct Hm as [Hm|[(_ & Hm)|(_ & Hm)]]; rewrite Hm; congruence. }
    split; [rewrite Eh; split; [discriminate | intro X; contradiction] |].
    destruct t; cbn [holds] in Eh; try discriminate; cbn [pinv] in *;
      unfold bnd, cinv, fresh, elow, eup in *; rewrite ?Hn; auto.
    + (* MRead2 *)
      destruct Hp as (Hb & Hf & Hz). split; [exact Hb|].
      destruct Hs as [Hs|(Hs & Hs' & Hcc)].
      * rewrite Hs. split; [|exact Hz]. destruct Hf as [Hf|Hf]; [left; lia|right].
        destruct (start G); auto; lia.
      * rewrite Hs'. split; [|discriminate]. right. rewrite Hcc. tk.
    + (* MRet *)
      destruct Hp as (Hb & Hl & Hu). split; [exact Hb|].
      destruct Hs as [Hs|(Hs & Hs' & Hcc)].
      * rewrite Hs. split; [exact Hl | exact Hu].
      * rewrite Hs' . rewrite Hs in Hl. split.
        -- intro K. specialize (Hl K). tk.
        -- destruct Hu as [Hu|(s & Hu & _)]; [left; exact Hu | congruence].
    + (* R0 *) destruct Hp as (Hb & Hf & Hst). destruct Hs as [Hs|(Hs & _)]; [|contradiction].
      rewrite Hs. repeat split; try tauto. destruct (start G); auto; lia.
    + destruct Hp as (Hb & Hf & Hst). destruct Hs as [Hs|(Hs & _)]; [|contradiction].
      rewrite Hs. repeat split; try tauto. destruct (start G); auto; lia.
    + destruct Hp as (Hb & Hf & Hst). destruct Hs as [Hs|(Hs & _)]; [|contradiction].
      rewrite Hs. repeat split; try tauto. destruct (start G); auto; lia.
Qed.

Notation tstepF := (tstep true period).
Notation stepF := (step true period lag).

Lemma inv_step_gen s i t G' t' sp :
  Inv s -> nth_error (ths s) i = Some t ->
  gchg i (gs s) G' ->
  tinv G' i t' ->
  (forall k x, nth_error sp k = Some x -> tinv G' (length (ths s) + k) x) ->
  upper G' ->
  (running G' = true ->
   (running (gs s) = true /\ (active t = true -> active t' = true)) \/
   exists k x, nth_error sp k = Some x /\ active x = true) ->
  (running G' = false ->
   (exists d t0 e, t' = E3 d t0 e) \/ cend G' <= cur G' \/
   (running (gs s) = false /\ cend G' = cend (gs s) /\ forall d t0 e, t <> E3 d t0 e)) ->
  Inv (mkSt G' (upd i t' (ths s) ++ sp)).
Proof.
  intros HI Hi Hg Ht' Hsp Hup Hrun Hstop.
  pose proof Hg as (Hn & Hc & Hw & Hs & Hm).
  constructor; cbn [gs ths].
  - intros j x Hj. destruct (nth_new _ _ _ _ _ _ _ Hi Hj) as [(-> & ->)|[(Hne & Hj')|(k & -> & Hk)]].
    + exact Ht'.
    + eapply frame; eauto using i_cur0, i_thr.
    + eauto.
  - exact Hup.
  - pose proof (i_cur0 _ HI). lia.
  - intros j Hj. rewrite app_length, length_upd.
    assert (i < length (ths s))%nat by (eapply nth_error_lt; eauto).
    destruct Hm as [Hm|[(_ & Hm)|(_ & Hm)]]; rewrite Hm in Hj.
    + apply (i_mu _ HI) in Hj. lia.
    + inversion Hj. lia.
    + discriminate.
  - intros Hr. destruct (Hrun Hr) as [(Hr0 & Hact)|(k & x & Hk & Hx)].
    + destruct (i_run _ HI Hr0) as (j & x & Hj & Hx).
      destruct (Nat.eq_dec j i) as [->|Hne].
      * exists i, t'. split; [eapply nth_self; eauto|]. apply Hact. congruence.
      * exists j, x. split; [eapply nth_old; eauto | exact Hx].
    + exists (length (ths s) + k)%nat, x. split; [|exact Hx].
      rewrite nth_error_app2 by (rewrite length_upd; lia). rewrite length_upd.
      replace (length (ths s) + k - length (ths s))%nat with k by lia. exact Hk.
  - intros Hr. destruct (Hstop Hr) as [(d & t0 & e & ->)|[Hle|(Hr0 & Hce & Hne3)]].
    + left. exists i, d, t0, e. eapply nth_self; eauto.
    + right. exact Hle.
    + destruct (i_stop _ HI Hr0) as [(j & d & t0 & e & Hj)|Hle].
      * left. exists j, d, t0, e. eapply nth_old; eauto. intros ->. rewrite Hi in Hj. inversion Hj.
        eapply Hne3; eauto.
      * right. lia.
Qed.

End Inv.

(* ---------- every atomic action preserves the invariant ---------- *)
Section Steps.
Variables period lag : Z.
Hypothesis Hper : 0 <= period.
Hypothesis Hlag : 0 <= lag.
Notation tstepF := (tstep true period).
Notation stepF := (step true period lag).
Notation runF := (run true period lag).

Lemma active_cinv G x : active x = true -> pinv period lag G x -> exists last, cinv period lag G last.
Proof.
  destruct x; cbn [active pinv]; try discriminate; intros _ H; eauto; destruct H; eauto.
Qed.

(* while the clock is running (or about to be started by a goroutine at E3) current is recent *)
Lemma live_fresh s t0 :
  Inv period lag s -> t0 <= now (gs s) ->
  cend (gs s) <= cur (gs s) \/ fresh (gs s) (t0 - (period + 2 * lag)).
Proof.
  intros HI Ht.
  destruct (running (gs s)) eqn:Er.
  - destruct (i_run _ _ _ HI Er) as (j & x & Hj & Hx).
    destruct (i_thr _ _ _ HI _ _ Hj) as [_ Hpx].
    destruct (active_cinv _ _ Hx Hpx) as (last & Hb & Hf & _).
    right. unfold fresh in *. destruct (start (gs s)); auto. tk.
  - destruct (i_stop _ _ _ HI Er) as [(j & d' & t0' & e' & Hj)|Hle]; [|left; exact Hle].
    destruct (i_thr _ _ _ HI _ _ Hj) as [_ Hpx]. cbn [pinv] in Hpx.
    destruct Hpx as (Hb & _ & _ & Hf & _). specialize (Hf Er). unfold bnd in Hb.
    right. unfold fresh in *. destruct (start (gs s)); auto. tk.
Qed.

Ltac sg := cbn [cur cend start running mu now gs ths set_cur set_cend set_start set_running set_mu set_now unlock dur_since].
Ltac gch Hmu :=
  unfold gchg; sg;
  repeat split; auto; try lia;
  try (intros [X|[X|[X|X]]]; try congruence; try exact Hmu);
  try solve [right; right; split; auto].
Ltac nosp := let k := fresh "k" in let y := fresh "y" in let Hy := fresh "Hy" in
  intros k y Hy; destruct k; discriminate Hy.
Ltac run_same := let Hr := fresh "Hr" in
  intros Hr; left; split; [exact Hr | cbn; intros; auto; try discriminate].
Ltac stop_same := let Hr := fresh "Hr" in
  intros Hr; right; right; repeat split; auto; discriminate.
Ltac lockinv Hst :=
  unfold lock in Hst;
  match type of Hst with context [mu ?G] => destruct (mu G) eqn:Emu end; [discriminate|];
  inversion Hst; subst; clear Hst.
Ltac iff_lock := split; [intros _; reflexivity | intros _; reflexivity].
Ltac iff_unlock := split; [discriminate | discriminate].
Ltac gen HI Hi := eapply (inv_step_gen period lag Hper Hlag _ _ _ _ _ _ HI Hi).

Lemma inv_tstep s i t G' t' sp :
  Inv period lag s -> nth_error (ths s) i = Some t ->
  tstepF i (gs s) t = Some (G', t', sp) ->
  Inv period lag (mkSt G' (upd i t' (ths s) ++ sp)).
Proof.
  intros HI Hi Hst.
  destruct (i_thr _ _ _ HI _ _ Hi) as [Hh Hp].
  pose proof (i_up _ _ _ HI) as Hup. pose proof (i_cur0 _ _ _ HI) as H0.
  destruct t; cbn [tstep] in Hst; cbn [holds pinv] in Hh, Hp.
  - (* MStart *) inversion Hst; subst; clear Hst.
    gen HI Hi; [gch I| |nosp|exact Hup|run_same|stop_same].
    split; [exact Hh|]. cbn [pinv]. split; [exact Hp|]. split.
    + apply live_fresh; auto. unfold bnd in Hp; lia.
    + intros Hs. unfold upper in Hup. rewrite Hs in Hup. tauto.
  - (* MRead2 *)
    assert (G' = gs s /\ sp = [] /\ t' = (if cur (gs s) + kd period d >? x then MLock d t0 (cur (gs s) + kd period d) else MRet d t0 (cur (gs s) + kd period d))) as (-> & -> & ->)
      by (inversion Hst; auto). clear Hst.
    destruct Hp as (Hb & Hf & Hz). unfold bnd in Hb.
    gen HI Hi; [gch I| |nosp|exact Hup| |].
    + destruct (_ >? _) eqn:E; (split; [exact Hh|]); cbn [pinv]; [exact Hb|].
      split; [lia|]. split.
      * intros K. unfold elow. destruct Hf as [Hf|Hf]; [lia|]. unfold fresh in Hf.
        unfold upper in Hup. destruct (start (gs s)) eqn:Es; lia.
      * unfold eup. unfold upper in Hup. destruct (start (gs s)) eqn:Es.
        -- right. exists z. split; [reflexivity|]. split; [lia|tk].
        -- left. specialize (Hz eq_refl). lia.
    + run_same.
    + stop_same.
  - (* MLock *) lockinv Hst.
    gen HI Hi; [gch I| |nosp|exact Hup|run_same|stop_same].
    split; [iff_lock|]. exact Hp.
  - (* MChk *)
    assert (Hmu : mu (gs s) = Some i) by (apply Hh; reflexivity). unfold bnd in Hp.
    destruct (negb (running (gs s)) && _) eqn:Ec.
    + inversion Hst; subst; clear Hst.
      apply andb_prop in Ec. destruct Ec as [Er Es]. apply negb_true_iff in Er.
      destruct (start (gs s)) as [s0|] eqn:Es0; [|discriminate].
      gen HI Hi; [gch I| |nosp|exact Hup|run_same|stop_same].
      split; [exact Hh|]. cbn [pinv]. unfold bnd, wr_ok. repeat split; try lia; auto.
      exists s0. unfold upper in Hup. rewrite Es0 in *. tauto.
    + inversion Hst; subst; clear Hst.
      gen HI Hi; [gch I| |nosp|exact Hup|run_same|stop_same].
      split; [exact Hh|]. cbn [pinv]. unfold bnd, elow, eupL, fresh. unfold upper in Hup.
      destruct (start (gs s)) as [s0|] eqn:Es0.
      * destruct (running (gs s)) eqn:Er; [|discriminate].
        destruct (live_fresh s t0 HI ltac:(lia)) as [Hle|Hf].
        -- (* running, so the E3/stopped alternative of live_fresh is not what we got; redo *)
           destruct (i_run _ _ _ HI Er) as (j & y & Hj & Hy).
           destruct (i_thr _ _ _ HI _ _ Hj) as [_ Hpy].
           destruct (active_cinv _ _ Hy Hpy) as (last & Hb' & Hf' & _).
           unfold fresh in Hf'. rewrite Es0 in Hf'. repeat split; try lia; try tk; try discriminate.
        -- unfold fresh in Hf. rewrite Es0 in Hf. repeat split; try lia; try tk; try discriminate.
      * repeat split; try lia; auto.

  - (* MWr *)
    assert (Hmu : mu (gs s) = Some i) by (apply Hh; reflexivity).
    destruct Hp as (Hb & Htr & Hr & s0 & Hs0 & Hc). unfold bnd in Hb.
    inversion Hst; subst; clear Hst. unfold upper in Hup. rewrite Hs0 in *. cbn [dur_since].
    gen HI Hi; [gch Hmu| |nosp| |run_same|stop_same].
    + split; [exact Hh|]. cbn [pinv]. unfold bnd, elow, eupL, fresh, set_cur; sg. rewrite Hs0.
      repeat split; try lia; try tk.
    + unfold upper, set_cur; sg. rewrite Hs0. split; [lia|tk].
  - (* MUnl *) contradiction.
  - (* ELock *) contradiction.
  - (* E1 *)
    assert (Hmu : mu (gs s) = Some i) by (apply Hh; reflexivity).
    destruct Hp as (Hb & Hl & Hu & Hf). unfold bnd in Hb. unfold upper in Hup.
    unfold elow, eupL, fresh in *.
    destruct (start (gs s)) as [s0|] eqn:Es0; inversion Hst; subst; clear Hst.
    + gen HI Hi; [gch Hmu| |nosp| |run_same|stop_same].
      * split; [exact Hh|]. cbn [pinv]. unfold bnd, elow, eupL, fresh. rewrite Es0.
        repeat split; try lia; auto. discriminate.
      * unfold upper. rewrite Es0. exact Hup.
    + gen HI Hi; [| |nosp| |run_same|stop_same].
      * unfold gchg, set_start; sg. repeat split; auto; try lia.
      * split; [exact Hh|]. cbn [pinv]. unfold bnd, elow, eupL, fresh, set_start; sg.
        repeat split; try lia; try tk. discriminate.
      * unfold upper, set_start; sg. split; [lia|tk].
  - (* E2 *)
    assert (Hmu : mu (gs s) = Some i) by (apply Hh; reflexivity).
    destruct Hp as (Hb & Hl & Hu & Hf & Hs).
    assert (Hup' : forall c, upper (set_cend (gs s) c)).
    { intros c. unfold upper, set_cend in *; sg. destruct (start (gs s)); [exact Hup|congruence]. }
    destruct (e + slop_ticks >? cend (gs s)) eqn:E; inversion Hst; subst; clear Hst.
    + gen HI Hi; [gch Hmu| |nosp|apply Hup'|run_same|].
      * split; [exact Hh|]. cbn [pinv]. unfold bnd, elow, eupL, fresh, set_cend in *; sg.
        repeat split; try tauto; lia.
      * intros _. left. eauto.
    + gen HI Hi; [gch Hmu| |nosp|exact Hup|run_same|].
      * split; [exact Hh|]. cbn [pinv]. unfold bnd in *. repeat split; try tauto; lia.
      * intros _. left. eauto.
  - (* E3 *)
    assert (Hmu : mu (gs s) = Some i) by (apply Hh; reflexivity).
    destruct Hp as (Hb & Hl & Hu & Hf & Hs & Hce).
    destruct (running (gs s)) eqn:Er; inversion Hst; subst; clear Hst.
    + gen HI Hi; [gch Hmu| |nosp|exact Hup|run_same|].
      * split; [exact Hh|]. cbn [pinv]. tauto.
      * intros Hr. congruence.
    + gen HI Hi; [gch Hmu| | | | |].
      * split; [exact Hh|]. cbn [pinv]. unfold bnd, elow, eupL, fresh, set_running in *; sg. tauto.
      * intros k y Hy. destruct k as [|k]; [|destruct k; discriminate Hy]. inversion Hy; subst; clear Hy.
        split.
        -- cbn [holds]; sg. split; [discriminate|]. rewrite Hmu. intros X. inversion X.
           apply nth_error_lt in Hi. lia.
        -- cbn [pinv]. unfold cinv, bnd, fresh, set_running in *; sg. specialize (Hf eq_refl).
           repeat split; try lia; auto. destruct (start (gs s)); auto. tk.
      * unfold upper, set_running in *; sg. destruct (start (gs s)); [exact Hup|congruence].
      * intros _. right. exists 0%nat, (R0 (now (gs s))). split; reflexivity.
      * cbn. discriminate.
  - (* E4 *)
    assert (Hmu : mu (gs s) = Some i) by (apply Hh; reflexivity).
    destruct Hp as (Hb & Hl & Hu & Hs & Hce). inversion Hst; subst; clear Hst.
    gen HI Hi; [gch Hmu| |nosp|exact Hup|run_same|stop_same].
    + split; [iff_unlock|]. cbn [pinv]. unfold bnd, elow, eupL, eup, unlock, set_mu in *; sg.
      split; [lia|]. split; [auto|]. right. destruct (start (gs s)) as [s0|]; [|congruence].
      exists s0. tauto.
  - (* MRet *)
    assert (G' = gs s /\ sp = [] /\ t' = (if cur (gs s) >=? e then MTimedOut d t0 e (now (gs s)) else MRet d t0 e)) as (-> & -> & ->)
      by (inversion Hst; auto). clear Hst.
    gen HI Hi; [gch I| |nosp|exact Hup|run_same|stop_same].
    destruct (_ >=? _) eqn:E; (split; [exact Hh|]); cbn [pinv]; [|exact Hp].
    destruct Hp as (Hb & Hl & Hu). intros Hd Hdp. unfold early_slack.
    assert (Hk : kd period d = ticks (d + period)) by (unfold kd; rewrite wrap64_id; auto; lia).
    destruct (Z_lt_ge_dec (kd period d) 1) as [Hk1|Hk1].
    + rewrite Hk in Hk1. tk.
    + specialize (Hl ltac:(lia)). unfold elow in Hl. unfold upper in Hup.
      destruct (start (gs s)); [rewrite Hk in Hl; tk | lia].
  - discriminate.
  - discriminate.
  - (* R0 *) lockinv Hst.
    gen HI Hi; [gch I| |nosp|exact Hup|run_same|stop_same].
    split; [iff_lock|]. exact Hp.
  - (* R1 *)
    assert (G' = gs s /\ sp = [] /\ t' = (if cur (gs s) <=? cend (gs s) then R2 last else R7 last)) as (-> & -> & ->)
      by (inversion Hst; auto). clear Hst.
    gen HI Hi; [gch I| |nosp|exact Hup| |stop_same].
    + destruct (_ <=? _) eqn:E; (split; [exact Hh|]); cbn [pinv]; [exact Hp|]. split; [exact Hp|lia].
    + intros Hr; left; split; [exact Hr|]. intros _. destruct (_ <=? _); reflexivity.
  - (* R2 *)
    assert (Hmu : mu (gs s) = Some i) by (apply Hh; reflexivity).
    inversion Hst; subst; clear Hst.
    gen HI Hi; [gch Hmu| |nosp|exact Hup|run_same|stop_same].
    + split; [iff_unlock|]. exact Hp.
  - (* R3 *)
    destruct (_ >=? _); inversion Hst; subst; clear Hst.
    gen HI Hi; [gch I| |nosp|exact Hup|run_same|stop_same].
    split; [exact Hh|]. exact Hp.
  - (* R4 *) lockinv Hst.
    gen HI Hi; [gch I| |nosp|exact Hup|run_same|stop_same].
    split; [iff_lock|]. exact Hp.
  - (* R5 *) inversion Hst; subst; clear Hst.
    gen HI Hi; [gch I| |nosp|exact Hup|run_same|stop_same].
    split; [exact Hh|]. cbn [pinv]. split; [exact Hp|]. destruct Hp as (Hb & Hf & Hs).
    split; [lia|]. unfold wr_ok, upper in *. destruct (start (gs s)) as [s0|]; [|congruence].
    exists s0. tauto.
  - (* R6 *)
    assert (Hmu : mu (gs s) = Some i) by (apply Hh; reflexivity).
    destruct Hp as ((Hb & Hf & Hs) & Htr & s0 & Hs0 & Hc).
    inversion Hst; subst; clear Hst. unfold upper in Hup. rewrite Hs0 in *. cbn [dur_since].
    gen HI Hi; [gch Hmu| |nosp| |run_same|stop_same].
    + split; [exact Hh|]. cbn [pinv]. unfold cinv, fresh, set_cur; sg. rewrite Hs0.
      repeat split; try lia; try tk. discriminate.
    + unfold upper, set_cur; sg. rewrite Hs0. split; [lia|tk].
  - (* R7 *)
    assert (Hmu : mu (gs s) = Some i) by (apply Hh; reflexivity).
    destruct Hp as ((Hb & Hf & Hs) & Hlt).
    inversion Hst; subst; clear Hst.
    gen HI Hi; [gch Hmu| |nosp| | |].
    + split; [exact Hh|]. cbn [pinv]; sg. exact Hb.
    + unfold upper, set_running in *; sg. destruct (start (gs s)); [exact Hup|congruence].
    + cbn. discriminate.
    + intros _. right. left. cbn. lia.
  - (* R8 *)
    assert (Hmu : mu (gs s) = Some i) by (apply Hh; reflexivity).
    inversion Hst; subst; clear Hst.
    gen HI Hi; [gch Hmu| |nosp|exact Hup|run_same|stop_same].
    + split; [iff_unlock|]. exact I.
  - discriminate.
  - (* S0 *) lockinv Hst.
    gen HI Hi; [gch I| |nosp|exact Hup|run_same|stop_same].
    split; [iff_lock|]. exact I.
  - (* S1 *)
    assert (Hmu : mu (gs s) = Some i) by (apply Hh; reflexivity).
    destruct (running (gs s)) eqn:Er; inversion Hst; subst; clear Hst.
    + gen HI Hi; [gch Hmu| |nosp| |run_same|].
      * split; [exact Hh|]. exact I.
      * unfold upper, set_cend in *; sg. destruct (start (gs s)); [exact Hup|]. destruct Hup as (_ & _ & X). congruence.
      * cbn. intros X. congruence.
    + gen HI Hi; [gch Hmu| |nosp|exact Hup|run_same|stop_same].
      split; [exact Hh|]. exact I.
  - (* S2 *)
    assert (Hmu : mu (gs s) = Some i) by (apply Hh; reflexivity).
    inversion Hst; subst; clear Hst.
    gen HI Hi; [gch Hmu| |nosp|exact Hup|run_same|stop_same].
    + split; [iff_unlock|]. exact I.
  - (* S3 *) lockinv Hst.
    gen HI Hi; [gch I| |nosp|exact Hup|run_same|stop_same].
    split; [iff_lock|]. exact I.
  - (* S4 *) inversion Hst; subst; clear Hst.
    gen HI Hi; [gch I| |nosp|exact Hup|run_same|stop_same].
    split; [exact Hh|]. exact I.
  - (* S5 *)
    assert (Hmu : mu (gs s) = Some i) by (apply Hh; reflexivity).
    inversion Hst; subst; clear Hst.
    gen HI Hi; [gch Hmu| |nosp|exact Hup|run_same|stop_same].
    + split; [|destruct b; exact I]. destruct b; iff_unlock.
  - discriminate.
Qed.

Lemma pinv_tick G t dt :
  pinv period lag G t -> 0 <= dt -> may_pass period lag (now G + dt) t = true ->
  pinv period lag (set_now G (now G + dt)) t.
Proof.
  intros Hp Hd Hm. unfold may_pass in Hm.
  destruct t; cbn [pinv due] in *;
    unfold bnd, cinv, fresh, elow, eupL, eup, wr_ok in *; sg; try tauto;
    repeat match goal with H : _ /\ _ |- _ => destruct H end; repeat split; auto; try lia.
Qed.

Lemma inv_tick s dt :
  Inv period lag s -> 0 <= dt ->
  forallb (may_pass period lag (now (gs s) + dt)) (ths s) = true ->
  Inv period lag (mkSt (set_now (gs s) (now (gs s) + dt)) (ths s)).
Proof.
  intros HI Hd Hall. rewrite forallb_forall in Hall.
  constructor; sg.
  - intros j t Hj. destruct (i_thr _ _ _ HI _ _ Hj) as [Hh Hp]. split; [exact Hh|].
    apply pinv_tick; auto. apply Hall. eapply nth_error_In; eauto.
  - pose proof (i_up _ _ _ HI) as Hup. unfold upper in *; sg.
    destruct (start (gs s)); [|exact Hup]. split; [lia|tk].
  - apply (i_cur0 _ _ _ HI).
  - apply (i_mu _ _ _ HI).
  - apply (i_run _ _ _ HI).
  - apply (i_stop _ _ _ HI).
Qed.

(* a new goroutine that does not hold the lock and whose pc invariant holds *)
Lemma inv_spawn s t :
  Inv period lag s -> holds t = false -> pinv period lag (gs s) t ->
  Inv period lag (mkSt (gs s) (ths s ++ [t])).
Proof.
  intros HI Hh Hp. constructor; sg.
  - intros j x Hj. destruct (Nat.lt_ge_cases j (length (ths s))) as [Hlt|Hge].
    + rewrite nth_error_app1 in Hj by exact Hlt. apply (i_thr _ _ _ HI _ _ Hj).
    + rewrite nth_error_app2 in Hj by exact Hge.
      destruct (j - length (ths s))%nat as [|k] eqn:Ek; [|destruct k; discriminate Hj].
      inversion Hj; subst; clear Hj. split; [|exact Hp]. rewrite Hh. split; [discriminate|].
      intros Hm. apply (i_mu _ _ _ HI) in Hm. lia.
  - apply (i_up _ _ _ HI).
  - apply (i_cur0 _ _ _ HI).
  - intros j Hj. apply (i_mu _ _ _ HI) in Hj. rewrite app_length. lia.
  - intros Hr. destruct (i_run _ _ _ HI Hr) as (j & x & Hj & Hx). exists j, x. split; [|exact Hx].
    rewrite nth_error_app1 by (eapply nth_error_lt; eauto). exact Hj.
  - intros Hr. destruct (i_stop _ _ _ HI Hr) as [(j & d & t0 & e & Hj)|Hle]; [left|right; exact Hle].
    exists j, d, t0, e. rewrite nth_error_app1 by (eapply nth_error_lt; eauto). exact Hj.
Qed.

Lemma gchg_refl i G : gchg i G G.
Proof. unfold gchg. repeat split; auto; try lia. intros [X|[X|[X|X]]]; congruence. Qed.

Lemma inv_step s a s' : Inv period lag s -> stepF s a = Some s' -> Inv period lag s'.
Proof.
  intros HI Hst. destruct a; cbn [step] in Hst.
  - destruct (0 <=? dt) eqn:Ed; [|discriminate]. cbn [andb] in Hst.
    destruct (forallb _ _) eqn:Ef; [|discriminate]. inversion Hst; subst; clear Hst.
    apply inv_tick; auto. lia.
  - inversion Hst; subst; clear Hst. apply inv_spawn; auto. cbn [pinv]. unfold bnd. lia.
  - inversion Hst; subst; clear Hst. apply inv_spawn; auto. exact I.
  - destruct (nth_error (ths s) i) as [t|] eqn:Hi; [|discriminate].
    destruct (tstepF i (gs s) t) as [[[G' t'] sp]|] eqn:Ht; [|discriminate].
    inversion Hst; subst; clear Hst. eapply inv_tstep; eauto.
  - destruct (nth_error (ths s) i) as [t|] eqn:Hi; [|discriminate].
    destruct t; try discriminate. inversion Hst; subst; clear Hst.
    destruct (i_thr _ _ _ HI _ _ Hi) as [Hh Hp].
    rewrite <- (app_nil_r (upd _ _ _)).
    eapply (inv_step_gen period lag Hper Hlag _ _ _ _ _ _ HI Hi).
    + apply gchg_refl.
    + split; [exact Hh | exact I].
    + intros k y Hy; destruct k; discriminate Hy.
    + apply (i_up _ _ _ HI).
    + intros Hr; left; split; [exact Hr | cbn; intros; discriminate].
    + intros Hr; right; right; repeat split; auto; discriminate.
Qed.

Lemma inv_init : Inv period lag init.
Proof.
  constructor; cbn.
  - intros j t Hj. destruct j; discriminate.
  - repeat split.
  - lia.
  - discriminate.
  - discriminate.
  - intros _. right. lia.
Qed.

Lemma run_with_inv ok s l s' :
  Inv period lag s -> run_with true period lag ok s l = Some s' -> Inv period lag s'.
Proof.
  revert s. induction l as [|a l IH]; intros s HI Hr; cbn [run_with] in Hr.
  - inversion Hr; subst; exact HI.
  - destruct (ok s a); [|discriminate]. destruct (stepF s a) as [s1|] eqn:E; [|discriminate].
    eapply IH; [|exact Hr]. eapply inv_step; eauto.
Qed.

Lemma reach_inv l s : runF init l = Some s -> Inv period lag s.
Proof. apply run_with_inv, inv_init. Qed.

End Steps.

Section Timeouts.
Variables period lag : Z.
Hypothesis Hper : 0 <= period.
Hypothesis Hlag : 0 <= lag.
Notation tstepF := (tstep true period).
Notation stepF := (step true period lag).
Notation runF := (run true period lag).
Ltac sg := cbn [cur cend start running mu now gs ths set_cur set_cend set_start set_running set_mu set_now unlock dur_since].

(* ---------- no early timeout ---------- *)
Lemma kd_plain d : 0 <= d -> d + period <= max_dur -> kd period d = ticks (d + period).
Proof. intros. unfold kd. rewrite wrap64_id; auto. lia. Qed.

Lemma reached_not_early s i d t0 e :
  Inv period lag s -> nth_error (ths s) i = Some (MRet d t0 e) ->
  0 <= d -> d + period <= max_dur -> e <= cur (gs s) ->
  t0 + d - early_slack lag <= now (gs s).
Proof.
  intros HI Hi Hd Hdp He.
  destruct (i_thr _ _ _ HI _ _ Hi) as [_ (Hb & Hl & Hu)].
  pose proof (i_up _ _ _ HI) as Hup. pose proof (kd_plain d Hd Hdp) as Hk. unfold early_slack.
  destruct (Z_lt_ge_dec (kd period d) 1) as [Hk1|Hk1].
  - rewrite Hk in Hk1. tk.
  - specialize (Hl ltac:(lia)). unfold elow in Hl. unfold upper in Hup.
    destruct (start (gs s)); [rewrite Hk in Hl; tk | lia].
Qed.

Lemma no_early_timeout l s i d t0 e tm :
  runF init l = Some s -> nth_error (ths s) i = Some (MTimedOut d t0 e tm) ->
  0 <= d -> d + period <= max_dur -> t0 + d - early_slack lag <= tm.
Proof.
  intros Hr Hi Hd Hdp. apply reach_inv in Hr; auto.
  destruct (i_thr _ _ _ Hr _ _ Hi) as [_ Hp]. cbn [pinv] in Hp. apply Hp; auto.
Qed.

(* a poll made earlier than d - early_slack after the call reports "not reached";
   the match can therefore finish without a timeout error *)
Lemma finished_in_time l s i d t0 e :
  runF init l = Some s -> nth_error (ths s) i = Some (MRet d t0 e) ->
  0 <= d -> d + period <= max_dur -> now (gs s) < t0 + d - early_slack lag ->
  cur (gs s) < e /\
  stepF s (Step i) = Some (mkSt (gs s) (upd i (MRet d t0 e) (ths s) ++ [])) /\
  stepF s (Finish i) = Some (mkSt (gs s) (upd i (MDone d t0 (now (gs s))) (ths s))).
Proof.
  intros Hr Hi Hd Hdp Hn. apply reach_inv in Hr; auto.
  assert (Hc : cur (gs s) < e).
  { destruct (Z_lt_ge_dec (cur (gs s)) e) as [H|H]; auto.
    pose proof (reached_not_early s i d t0 e Hr Hi Hd Hdp ltac:(lia)). lia. }
  split; [exact Hc|]. cbn [step]. rewrite Hi. cbn [tstep].
  destruct (cur (gs s) >=? e) eqn:E; [lia|]. auto.
Qed.

(* ---------- timeouts fire ---------- *)
(* while no StopTimeoutClock reset happens, the clock is kept covering the deadline of goroutine i *)
Definition cover (s : st) (i : nat) : Prop :=
  match nth_error (ths s) i with
  | Some (MRead2 d t0 ce) => ce <= cend (gs s)
  | Some (MRet d t0 e) => e <= cur (gs s) \/ e <= cend (gs s)
  | _ => True
  end.

Lemma tstep_mono s j t G' t' sp :
  Inv period lag s -> nth_error (ths s) j = Some t -> tstepF j (gs s) t = Some (G', t', sp) ->
  cur (gs s) <= cur G' /\
  (no_stop_write s (Step j) = true -> cend (gs s) <= cend G').
Proof.
  intros HI Hj Hst. destruct (i_thr _ _ _ HI _ _ Hj) as [_ Hp].
  unfold no_stop_write. rewrite Hj.
  destruct t; cbn [tstep pinv] in *; unfold lock in *; try match type of Hst with context [match mu ?g with _ => _ end] => destruct (mu g) eqn:Emu end;
    repeat match type of Hst with
           | context [match ?c with _ => _ end] => destruct c eqn:?
           end; try discriminate; inversion Hst; subst; clear Hst; sg; try (split; [lia|intros; lia]).
  - destruct Hp as (_ & _ & _ & s0 & Hs0 & Hc). rewrite Hs0. sg. split; [lia|intros;lia].
  - destruct Hp as (_ & _ & s0 & Hs0 & Hc). rewrite Hs0. sg. split; [lia|intros;lia].
Qed.

Lemma cover_step s a s' i :
  Inv period lag s -> cover s i -> no_stop_write s a = true -> stepF s a = Some s' -> cover s' i.
Proof.
  intros HI Hc Hns Hst. unfold cover in *.
  destruct a; cbn [step] in Hst.
  - destruct (_ && _); [|discriminate]. inversion Hst; subst; clear Hst. sg. exact Hc.
  - inversion Hst; subst; clear Hst. sg.
    destruct (Nat.lt_ge_cases i (length (ths s))) as [Hlt|Hge].
    + rewrite nth_error_app1 by exact Hlt. exact Hc.
    + rewrite nth_error_app2 by exact Hge. destruct (i - length (ths s))%nat as [|k]; cbn; auto.
      destruct k; cbn; auto.
  - inversion Hst; subst; clear Hst. sg.
    destruct (Nat.lt_ge_cases i (length (ths s))) as [Hlt|Hge].
    + rewrite nth_error_app1 by exact Hlt. exact Hc.
    + rewrite nth_error_app2 by exact Hge. destruct (i - length (ths s))%nat as [|k]; cbn; auto.
      destruct k; cbn; auto.
  - destruct (nth_error (ths s) i0) as [t|] eqn:Hj; [|discriminate].
    destruct (tstepF i0 (gs s) t) as [[[G' t'] sp]|] eqn:Ht; [|discriminate].
    inversion Hst; subst; clear Hst. sg.
    destruct (tstep_mono _ _ _ _ _ _ HI Hj Ht) as [Hcur Hce]. specialize (Hce Hns).
    destruct (nth_error (upd i0 t' (ths s) ++ sp) i) as [x|] eqn:Hx; [|exact I].
    destruct (nth_new _ _ _ _ _ _ _ Hj Hx) as [(-> & ->)|[(Hne & Hx')|(k & -> & Hk)]].
    + (* goroutine i itself steps *)
      rewrite Hj in Hc. destruct (i_thr _ _ _ HI _ _ Hj) as [_ Hp].
      destruct t; cbn [tstep pinv] in *; unfold lock in *; try match type of Ht with context [match mu ?g with _ => _ end] => destruct (mu g) eqn:Emu end;
        repeat match type of Ht with
               | context [match ?c with _ => _ end] => destruct c eqn:?
               end; try discriminate; inversion Ht; subst; clear Ht; sg; auto; try lia.
      destruct Hp as (_ & _ & _ & _ & Hp). rewrite slop_val in Hp. right. lia.
    + rewrite Hx' in Hc. destruct x; auto; lia.
    + (* a spawned goroutine is a clock goroutine *)
      destruct t; cbn [tstep] in Ht; unfold lock in Ht; try match type of Ht with context [match mu ?g with _ => _ end] => destruct (mu g) eqn:Emu end;
        repeat match type of Ht with
               | context [match ?c with _ => _ end] => destruct c eqn:?
               end; try discriminate; inversion Ht; subst; clear Ht;
        destruct k as [|[|k]]; try discriminate Hk. inversion Hk. exact I.
  - destruct (nth_error (ths s) i0) as [t|] eqn:Hj; [|discriminate].
    destruct t; try discriminate. inversion Hst; subst; clear Hst. sg.
    destruct (Nat.eq_dec i i0) as [->|Hne].
    + rewrite (nth_error_upd_eq _ _ _ _ Hj). exact I.
    + rewrite nth_error_upd_neq by congruence. exact Hc.
Qed.

Lemma cover_run s l s' i :
  Inv period lag s -> cover s i ->
  run_with true period lag no_stop_write s l = Some s' -> cover s' i.
Proof.
  revert s. induction l as [|a l IH]; intros s HI Hc Hr; cbn [run_with] in Hr.
  - inversion Hr; subst; exact Hc.
  - destruct (no_stop_write s a) eqn:En; [|discriminate].
    destruct (stepF s a) as [s1|] eqn:E; [|discriminate].
    eapply IH; [| |exact Hr]; [eapply inv_step; eauto | eapply cover_step; eauto].
Qed.

Lemma fires_state s i d t0 e :
  Inv period lag s -> cover s i -> nth_error (ths s) i = Some (MRet d t0 e) ->
  0 <= d -> d + period <= max_dur ->
  t0 + d + late_slack period lag <= now (gs s) -> e <= cur (gs s).
Proof.
  intros HI Hc Hi Hd Hdp Hn. unfold cover in Hc. rewrite Hi in Hc.
  destruct (Z_lt_ge_dec (cur (gs s)) e) as [Hlt|Hge]; [exfalso|lia].
  destruct Hc as [Hc|Hc]; [lia|].
  destruct (i_thr _ _ _ HI _ _ Hi) as [_ (Hb & _ & Hu)].
  pose proof (i_cur0 _ _ _ HI) as H0. pose proof (kd_plain d Hd Hdp) as Hk.
  destruct Hu as [Hu|(s0 & Hs0 & Hs0' & Hu)]; [lia|]. rewrite Hk in Hu.
  unfold late_slack in Hn.
  destruct (live_fresh period lag Hper Hlag s (now (gs s)) HI ltac:(lia)) as [Hle|Hf]; [lia|].
  unfold fresh in Hf. rewrite Hs0 in Hf. tk.
Qed.

Lemma timeout_fires l1 s1 l2 s2 i d t0 e :
  runF init l1 = Some s1 -> nth_error (ths s1) i = Some (MStart d t0) ->
  run_with true period lag no_stop_write s1 l2 = Some s2 ->
  nth_error (ths s2) i = Some (MRet d t0 e) ->
  0 <= d -> d + period <= max_dur ->
  t0 + d + late_slack period lag <= now (gs s2) -> e <= cur (gs s2).
Proof.
  intros H1 Hi H2 Hi2 Hd Hdp Hn. apply reach_inv in H1; auto.
  eapply fires_state; eauto.
  - eapply run_with_inv; eauto.
  - eapply cover_run; eauto. unfold cover. rewrite Hi. exact I.
Qed.

End Timeouts.

Section Exit.
Variables period lag : Z.
Hypothesis Hper : 0 <= period.
Hypothesis Hlag : 0 <= lag.
Notation tstepF := (tstep true period).
Notation stepF := (step true period lag).
Notation runF := (run true period lag).
Ltac sg := cbn [cur cend start running mu now gs ths set_cur set_cend set_start set_running set_mu set_now unlock dur_since].

(* ---------- the clock goroutine exits ---------- *)
Lemma quiet_spec s : quiet s = true <-> forall j t, nth_error (ths s) j = Some t -> inflight t = false.
Proof.
  unfold quiet. rewrite forallb_forall. split.
  - intros H j t Hj. apply nth_error_In in Hj. apply H in Hj. destruct (inflight t); auto; discriminate.
  - intros H t Ht. apply In_nth_error in Ht. destruct Ht as [j Hj]. rewrite (H _ _ Hj). reflexivity.
Qed.

Definition qthr (H : Z) (G : gst) (t : thr) : Prop :=
  match t with
  | R0 last => last <= H
  | R1 last => last <= H \/
               (exists s0, start G = Some s0 /\ cur G = ticks (last - s0) /\ last <= H + period + lag)
  | R2 last | R3 last _ | R4 last | R5 last | R6 last _ => last <= H
  | R7 last | R8 last => last <= H + period + lag
  | _ => True
  end.

Definition qinv (H C : Z) (s : st) : Prop :=
  quiet s = true /\ cend (gs s) <= C /\
  (forall s0, start (gs s) = Some s0 -> real_of s0 C <= H) /\
  forall j t, nth_error (ths s) j = Some t -> qthr H (gs s) t.

Lemma tstep_quiet j G t G' t' sp :
  inflight t = false -> tstepF j G t = Some (G', t', sp) ->
  inflight t' = false /\ sp = [] /\ start G' = start G /\ now G' = now G /\
  (cur G' = cur G \/ exists last tr, t = R6 last tr) /\
  (cend G' = cend G \/ (t = S1 /\ cend G' = 0)).
Proof.
  intros Hq Hst.
  destruct t; cbn [inflight] in Hq; try discriminate; cbn [tstep] in Hst; unfold lock in Hst;
    try match type of Hst with context [match mu ?g with _ => _ end] => destruct (mu g) eqn:Emu end;
    repeat match type of Hst with
           | context [match ?c with _ => _ end] => destruct c eqn:?
           end; try discriminate; inversion Hst; subst; clear Hst; sg; repeat split; eauto.
Qed.

Lemma qinv_step H C s a s' :
  Inv period lag s -> qinv H C s -> 0 <= C -> no_call s a = true -> stepF s a = Some s' ->
  qinv H C s'.
Proof.
  intros HI (Hq & Hc & Hh & Ht) HC Hnc Hst. rewrite quiet_spec in Hq.
  destruct a; cbn [step no_call] in *; try discriminate.
  - destruct (_ && _); [|discriminate]. inversion Hst; subst; clear Hst.
    split; [rewrite quiet_spec; exact Hq|]. split; [exact Hc|]. split; [exact Hh|]. sg.
    intros j t Hj. specialize (Ht _ _ Hj). destruct t; exact Ht.
  - inversion Hst; subst; clear Hst.
    assert (Hnew : forall j t, nth_error (ths s ++ [S0]) j = Some t -> nth_error (ths s) j = Some t \/ t = S0).
    { intros j t Hj. destruct (Nat.lt_ge_cases j (length (ths s))) as [Hlt|Hge].
      - rewrite nth_error_app1 in Hj by exact Hlt. auto.
      - rewrite nth_error_app2 in Hj by exact Hge. destruct (j - length (ths s))%nat as [|[|k]]; try discriminate Hj.
        inversion Hj. auto. }
    split; [|split; [exact Hc|split; [exact Hh|]]]; sg.
    + rewrite quiet_spec. sg. intros j t Hj. destruct (Hnew _ _ Hj) as [Hj'| ->]; eauto.
    + intros j t Hj. destruct (Hnew _ _ Hj) as [Hj'| ->]; [eauto|exact I].
  - destruct (nth_error (ths s) i) as [t|] eqn:Hi; [|discriminate].
    destruct (tstepF i (gs s) t) as [[[G' t'] sp]|] eqn:Hts; [|discriminate].
    inversion Hst; subst; clear Hst.
    destruct (tstep_quiet _ _ _ _ _ _ (Hq _ _ Hi) Hts) as (Hq' & -> & Hs & Hn & Hcur & Hce).
    destruct (i_thr _ _ _ HI _ _ Hi) as [Hhi Hpi].
    split; [|split; [|split]]; sg.
    + rewrite quiet_spec. sg. intros j x Hj.
      destruct (nth_new _ _ _ _ _ _ _ Hi Hj) as [(-> & ->)|[(Hne & Hj')|(k & -> & Hk)]]; eauto.
      destruct k; discriminate Hk.
    + destruct Hce as [->|(_ & ->)]; lia.
    + rewrite Hs. exact Hh.
    + intros j x Hj.
      destruct (nth_new _ _ _ _ _ _ _ Hi Hj) as [(-> & ->)|[(Hne & Hj')|(k & -> & Hk)]].
      * (* the stepping goroutine *)
        specialize (Ht _ _ Hi).
        destruct t; cbn [tstep] in Hts; unfold lock in Hts;
          try match type of Hts with context [match mu ?g with _ => _ end] => destruct (mu g) eqn:Emu end;
          repeat match type of Hts with
                 | context [match ?c with _ => _ end] => destruct c eqn:?
                 end; try discriminate; inversion Hts; subst; clear Hts; cbn [qthr pinv] in *; sg; auto; try lia.
        -- (* R1: test true, continue *)
           destruct Ht as [Ht|(s0 & Hs0 & Hcu & Hl)]; [exact Ht|].
           specialize (Hh _ Hs0). unfold real_of in Hh. tk.
        -- (* R1: test false, exit *)
           destruct Ht as [Ht|(s0 & Hs0 & Hcu & Hl)]; lia.
        -- (* R6: write *)
           destruct Hpi as ((Hb & _ & _) & Htr & s0 & Hs0 & _). right. exists s0. rewrite Hs0. sg.
           repeat split; auto. lia.
      * (* another goroutine: only R1 looks at shared state, and it holds the lock *)
        specialize (Ht _ _ Hj'). destruct x; cbn [qthr] in *; auto.
        destruct Ht as [Ht|(s0 & Hs0 & Hcu & Hl)]; [left; exact Ht|].
        destruct Hcur as [Hcur|(l0 & tr & ->)].
        -- right. exists s0. rewrite Hs, Hcur. auto.
        -- exfalso. destruct (i_thr _ _ _ HI _ _ Hj') as [Hhj _]. cbn [holds] in Hhi, Hhj.
           assert (mu (gs s) = Some i) by (apply Hhi; reflexivity).
           assert (mu (gs s) = Some j) by (apply Hhj; reflexivity). congruence.
      * destruct k; discriminate Hk.
  - destruct (nth_error (ths s) i) as [t|] eqn:Hi; [|discriminate].
    destruct t; try discriminate. inversion Hst; subst; clear Hst.
    split; [|split; [exact Hc|split; [exact Hh|]]]; sg.
    + rewrite quiet_spec. sg. intros j x Hj.
      destruct (Nat.eq_dec i j) as [->|Hne].
      * rewrite (nth_error_upd_eq _ _ _ _ Hi) in Hj. inversion Hj. reflexivity.
      * rewrite nth_error_upd_neq in Hj by exact Hne. eauto.
    + intros j x Hj. destruct (Nat.eq_dec i j) as [->|Hne].
      * rewrite (nth_error_upd_eq _ _ _ _ Hi) in Hj. inversion Hj. exact I.
      * rewrite nth_error_upd_neq in Hj by exact Hne. eauto.
Qed.

Lemma qinv_run H C s l s' :
  Inv period lag s -> qinv H C s -> 0 <= C ->
  run_with true period lag no_call s l = Some s' -> qinv H C s'.
Proof.
  revert s. induction l as [|a l IH]; intros s HI Hq HC Hr; cbn [run_with] in Hr.
  - inversion Hr; subst; exact Hq.
  - destruct (no_call s a) eqn:En; [|discriminate].
    destruct (stepF s a) as [s1|] eqn:E; [|discriminate].
    eapply IH; [| |exact HC|exact Hr]; [eapply inv_step; eauto | eapply qinv_step; eauto].
Qed.

Lemma qinv_start s :
  Inv period lag s -> quiet s = true -> qinv (horizon s) (Z.max 0 (cend (gs s))) s.
Proof.
  intros HI Hq. unfold horizon. split; [exact Hq|]. split; [lia|]. split.
  - intros s0 Hs0. rewrite Hs0. lia.
  - intros j t Hj. destruct (i_thr _ _ _ HI _ _ Hj) as [_ Hp].
    assert (Hn : now (gs s) <= match start (gs s) with
                              | Some s0 => Z.max (now (gs s)) (real_of s0 (Z.max 0 (cend (gs s))))
                              | None => now (gs s) end) by (destruct (start (gs s)); lia).
    destruct t; cbn [qthr pinv] in *; auto; unfold cinv in *; try lia.
Qed.

Lemma qinv_gone H C s :
  Inv period lag s -> qinv H C s -> H + exit_slack period lag < now (gs s) ->
  running (gs s) = false /\ forall j t, nth_error (ths s) j = Some t -> clock_alive t = false.
Proof.
  intros HI (_ & _ & _ & Ht) Hn. unfold exit_slack in Hn.
  assert (Hall : forall j t, nth_error (ths s) j = Some t -> clock_alive t = false).
  { intros j t Hj. specialize (Ht _ _ Hj). destruct (i_thr _ _ _ HI _ _ Hj) as [_ Hp].
    destruct t; cbn [clock_alive qthr pinv] in *; auto; exfalso; unfold cinv in *; try lia.
    destruct Ht as [Ht|(s0 & _ & _ & Ht)]; lia. }
  split; [|exact Hall].
  destruct (running (gs s)) eqn:Er; auto.
  destruct (i_run _ _ _ HI Er) as (j & t & Hj & Ha). specialize (Hall _ _ Hj).
  destruct t; cbn in *; discriminate.
Qed.

Lemma clock_exits l1 s1 l2 s2 :
  runF init l1 = Some s1 -> quiet s1 = true ->
  run_with true period lag no_call s1 l2 = Some s2 ->
  horizon s1 + exit_slack period lag < now (gs s2) ->
  running (gs s2) = false /\ forall j t, nth_error (ths s2) j = Some t -> clock_alive t = false.
Proof.
  intros H1 Hq H2 Hn. apply reach_inv in H1; auto.
  eapply qinv_gone; [eapply run_with_inv; eauto| |exact Hn].
  eapply qinv_run; [exact H1|apply qinv_start; auto|lia|exact H2].
Qed.

End Exit.

Section Restart.
Variables period lag : Z.
Hypothesis Hper : 0 <= period.
Hypothesis Hlag : 0 <= lag.
Notation tstepF := (tstep true period).
Notation stepF := (step true period lag).
Notation runF := (run true period lag).
Ltac sg := cbn [cur cend start running mu now gs ths set_cur set_cend set_start set_running set_mu set_now unlock dur_since].

(* ---------- and is restarted on demand ---------- *)
Lemma upd_at {A} (l : list A) x y r : upd (length l) y (l ++ x :: r) = l ++ y :: r.
Proof. induction l as [|a l IH]; cbn; [reflexivity|]. rewrite IH. reflexivity. Qed.

Lemma step_at G l x r :
  stepF (mkSt G (l ++ x :: r)) (Step (length l)) =
  match tstepF (length l) G x with
  | Some (G1, t1, sp) => Some (mkSt G1 (l ++ t1 :: (r ++ sp)))
  | None => None
  end.
Proof.
  cbn [step gs ths]. rewrite nth_error_app2 by lia. rewrite Nat.sub_diag. cbn [nth_error].
  destruct (tstepF (length l) G x) as [[[G1 t1] sp]|]; [|reflexivity].
  rewrite upd_at, <- app_assoc. reflexivity.
Qed.

Lemma run_cons s a l :
  runF s (a :: l) = match stepF s a with Some s' => runF s' l | None => None end.
Proof. reflexivity. Qed.

Lemma clock_restarts l s d s0 :
  runF init l = Some s ->
  running (gs s) = false -> mu (gs s) = None -> quiet s = true ->
  start (gs s) = Some s0 -> 1 <= kd period d ->
  let n := length (ths s) in
  let t := now (gs s) in
  let e := ticks (t - s0) + kd period d in
  exists s', runF s (Call d :: repeat (Step n) 9) = Some s' /\
             running (gs s') = true /\ mu (gs s') = None /\ now (gs s') = t /\
             cur (gs s') = ticks (t - s0) /\ cend (gs s') = e + slop_ticks /\
             ths s' = ths s ++ [MRet d t e; R0 t].
Proof.
  intros Hr Hrun Hmu Hq Hs0 Hk n t e. apply reach_inv in Hr; auto.
  pose proof (i_up _ _ _ Hr) as Hup. unfold upper in Hup. rewrite Hs0 in Hup.
  assert (Hce : cend (gs s) <= cur (gs s)).
  { destruct (i_stop _ _ _ Hr Hrun) as [(j & d' & t0' & e' & Hj)|H]; [|exact H].
    rewrite quiet_spec in Hq. apply Hq in Hj. discriminate. }
  destruct s as [G ths0]. cbn [gs ths] in *. subst n t e.
  set (n := length ths0). set (t := now G) in *. set (k := kd period d) in *.
  cbn [repeat]. rewrite run_cons. cbn [step gs ths].
  (* 1: load clockEnd *)
  rewrite run_cons, step_at. cbn [tstep app].
  (* 2: load current, compare *)
  rewrite run_cons, step_at. cbn [tstep app]. fold k.
  assert (E1 : (cur G + k >? cend G) = true) by lia. rewrite E1.
  (* 3: lock *)
  rewrite run_cons, step_at. cbn [tstep app]. unfold lock. rewrite Hmu.
  (* 4: stale-clock test *)
  rewrite run_cons, step_at. cbn [tstep app]. sg. rewrite Hrun, Hs0. cbn [negb andb].
  (* 5: refresh *)
  rewrite run_cons, step_at. cbn [tstep app]. sg. rewrite Hs0. sg. fold k. fold t.
  (* 6: start already set *)
  rewrite run_cons, step_at. cbn [tstep app]. sg. rewrite Hs0.
  (* 7: extend *)
  rewrite run_cons, step_at. cbn [tstep app]. sg.
  assert (E2 : (ticks (t - s0) + k + slop_ticks >? cend G) = true) by (rewrite slop_val; lia). rewrite E2.
  (* 8: start the clock goroutine *)
  rewrite run_cons, step_at. cbn [tstep app]. sg. rewrite Hrun.
  (* 9: unlock *)
  rewrite run_cons, step_at. cbn [tstep app]. sg.
  eexists. split; [reflexivity|]. sg. repeat split; reflexivity.
Qed.

End Restart.

(* ---------- statements parametric in the code variant, and the refutation for the pinned code ---------- *)
Definition no_early_timeout_stmt (fx : bool) (period lag : Z) : Prop :=
  forall l s i d t0 e tm,
    run fx period lag init l = Some s ->
    nth_error (ths s) i = Some (MTimedOut d t0 e tm) ->
    0 <= d -> d + period <= max_dur ->
    t0 + d - early_slack lag <= tm.

Lemma no_early_timeout_fixed period lag :
  0 <= period -> 0 <= lag -> no_early_timeout_stmt true period lag.
Proof. intros Hp Hl l s i d t0 e tm. apply no_early_timeout; auto. Qed.

(* schedule building blocks *)
Definition ms : Z := 1000000.
Definition rep {A} (n : nat) (l : list A) : list A := concat (repeat l n).
(* clock goroutine j asleep at R3: the period passes; wake, lock, read time, write, test, unlock+sleep *)
Definition clock_iter (p : Z) (j : nat) : list act := Tick p :: rep 6 [Step j].
(* same, but the loop test fails: running = false, unlock, goroutine gone *)
Definition clock_last_iter (p : Z) (j : nat) : list act := Tick p :: rep 7 [Step j].
(* a whole makeDeadline call of goroutine i, uninterrupted: number of atomic actions *)
Definition md_steps (fx refresh : bool) : nat :=
  match fx, refresh with
  | true, true => 9 | true, false => 8 | false, true => 11 | false, false => 10
  end%nat.

(* First use: one match with a 500 ms timeout finishes at once; the clock goroutine (goroutine 1)
   ticks every 100 ms until current > clockEnd (17 iterations), exits; then 1.3 s of silence. *)
Definition sched_idle (fx : bool) : list act :=
  Call (500 * ms) :: rep (md_steps fx false) [Step 0%nat] ++ [Finish 0%nat] ++ rep 3 [Step 1%nat]
  ++ rep 16 (clock_iter (100 * ms) 1) ++ clock_last_iter (100 * ms) 1 ++ [Tick (1300 * ms)].

(* Two matches A (goroutine 2) and B (goroutine 3), both with a 500 ms timeout, start at the same
   instant t = 3.0 s after that idle period.  A performs its two atomic loads, B then runs
   makeDeadline to completion (refreshes current, extends and starts the clock, goroutine 4),
   then A continues.  100 ms later the clock ticks once and A polls. *)
Definition sched_race (fx : bool) : list act :=
  sched_idle fx ++ [Call (500 * ms); Call (500 * ms); Step 2%nat; Step 2%nat]
  ++ rep (md_steps fx true) [Step 3%nat]
  ++ rep (if fx then 6 else 8) [Step 2%nat]
  ++ rep 3 [Step 4%nat] ++ [Tick (100 * ms)] ++ rep 4 [Step 4%nat] ++ [Step 2%nat].

Definition final (fx : bool) (period lag : Z) (l : list act) : st :=
  match run fx period lag init l with Some s => s | None => init end.

(* pinned code: A's deadline was computed from the stale current (2193 ticks = 2.3 s) although the
   call happened at 3.0 s, so the first tick of the restarted clock reports a timeout after 100 ms
   of a 500 ms budget; every goroutine was lag-timely (lag = 1 ms). *)
Lemma race_orig_run :
  run false (100 * ms) (1 * ms) init (sched_race false) = Some (final false (100 * ms) (1 * ms) (sched_race false)).
Proof. vm_compute. reflexivity. Qed.

Lemma race_orig_timed_out :
  nth_error (ths (final false (100 * ms) (1 * ms) (sched_race false))) 2
  = Some (MTimedOut (500 * ms) (3000 * ms) 2193 (3100 * ms)).
Proof. vm_compute. reflexivity. Qed.

Lemma no_early_timeout_orig_refuted : ~ no_early_timeout_stmt false (100 * ms) (1 * ms).
Proof.
  intros H.
  specialize (H _ _ _ _ _ _ _ race_orig_run race_orig_timed_out).
  specialize (H ltac:(vm_compute; discriminate) ltac:(vm_compute; discriminate)).
  vm_compute in H. apply H. reflexivity.
Qed.

(* further concrete schedules used as non-vacuity witnesses in Properties/C14.v *)
(* one catastrophic match with a 500 ms timeout polls after every clock tick *)
Definition sched_fires : list act :=
  Call (500 * ms) :: rep 8 [Step 0%nat] ++ rep 3 [Step 1%nat]
  ++ rep 6 (clock_iter (100 * ms) 1 ++ [Step 0%nat]).
(* StopTimeoutClock (goroutine 2) while that match is pending: the clock exits, nothing fires *)
Definition sched_stop_pending : list act :=
  Call (500 * ms) :: rep 8 [Step 0%nat] ++ rep 3 [Step 1%nat]
  ++ [CallStop; Step 2%nat; Step 2%nat; Step 2%nat]
  ++ clock_last_iter (100 * ms) 1 ++ rep 3 [Step 2%nat] ++ [Tick (2000 * ms); Step 0%nat].
(* MatchTimeout = MaxInt64 - 1: d + clockPeriod wraps around in int64 *)
Definition sched_overflow : list act :=
  Call (max_dur - 1) :: rep 3 [Step 0%nat].
(* prefix of sched_idle up to the end of the first match, and the quiet remainder *)
Definition sched_idle_head : list act :=
  Call (500 * ms) :: rep 8 [Step 0%nat] ++ [Finish 0%nat].
Definition sched_idle_tail : list act :=
  rep 3 [Step 1%nat] ++ rep 16 (clock_iter (100 * ms) 1) ++ clock_last_iter (100 * ms) 1 ++ [Tick (1300 * ms)].
