(* Proofs for C09: the replace drivers and Split compute the fold of the match sequence. *)
From Verif Require Import Base.Prelude Gen.ReplaceGen Model.Escape Model.Replace.
From Coq Require Import ZifyBool.

(* ------------------------------------------------------------------------------------------ *)
(** * The two copies of the special rule numbers agree (replace.go vs syntax/replacerdata.go)   *)

Lemma consts_agree :
  r_replaceSpecials = s_replaceSpecials /\ r_replaceLeftPortion = s_replaceLeftPortion /\
  r_replaceRightPortion = s_replaceRightPortion /\ r_replaceLastGroup = s_replaceLastGroup /\
  r_replaceWholeString = s_replaceWholeString.
Proof. repeat split; reflexivity. Qed.

(* ------------------------------------------------------------------------------------------ *)
(** * Lists                                                                                     *)

Lemma zlen_nonneg {A} (l : list A) : 0 <= zlen l.
Proof. unfold zlen. lia. Qed.

Lemma zlen_app {A} (a b : list A) : zlen (a ++ b) = zlen a + zlen b.
Proof. unfold zlen. rewrite app_length. lia. Qed.

Lemma zlen_cons {A} (x : A) (l : list A) : zlen (x :: l) = 1 + zlen l.
Proof. unfold zlen. cbn [length]. lia. Qed.

Lemma zslice_empty {A} (l : list A) (a b : Z) : b <= a -> zslice l a b = [].
Proof. intros H. unfold zslice. replace (Z.to_nat (b - a)) with O by lia. reflexivity. Qed.

Lemma zslice_full {A} (l : list A) : zslice l 0 (zlen l) = l.
Proof.
  unfold zslice, zlen. cbn [Z.to_nat skipn]. rewrite Z.sub_0_r, Nat2Z.id. apply firstn_all.
Qed.

Lemma zslice_to_end {A} (l : list A) (a : Z) : zslice l a (zlen l) = skipn (Z.to_nat a) l.
Proof.
  unfold zslice, zlen. apply firstn_all2. rewrite skipn_length. lia.
Qed.

Lemma zslice_from_0 {A} (l : list A) (b : Z) : zslice l 0 b = firstn (Z.to_nat b) l.
Proof. unfold zslice. cbn [Z.to_nat skipn]. rewrite Z.sub_0_r. reflexivity. Qed.

Lemma firstn_add {A} (n m : nat) (l : list A) : firstn (n + m) l = firstn n l ++ firstn m (skipn n l).
Proof.
  revert l. induction n as [|n IH]; intros l; cbn [Nat.add firstn skipn app]; [reflexivity|].
  destruct l as [|x l]; cbn [firstn skipn app].
  - rewrite firstn_nil. reflexivity.
  - rewrite IH. reflexivity.
Qed.

Lemma skipn_skipn' {A} (n m : nat) (l : list A) : skipn n (skipn m l) = skipn (n + m) l.
Proof.
  revert l. induction m as [|m IH]; intros l.
  - rewrite Nat.add_0_r. reflexivity.
  - destruct l as [|x l]; [rewrite !skipn_nil; reflexivity|].
    rewrite Nat.add_succ_r. cbn [skipn]. apply IH.
Qed.

Lemma zslice_app {A} (l : list A) (a b c : Z) :
  0 <= a -> a <= b -> b <= c -> zslice l a b ++ zslice l b c = zslice l a c.
Proof.
  intros Ha Hab Hbc. unfold zslice.
  replace (Z.to_nat (c - a)) with (Z.to_nat (b - a) + Z.to_nat (c - b))%nat by lia.
  rewrite firstn_add. f_equal. rewrite skipn_skipn'.
  replace (Z.to_nat (b - a) + Z.to_nat a)%nat with (Z.to_nat b) by lia. reflexivity.
Qed.

Lemma last_opt_app {A} (l : list A) (x : A) : last_opt (l ++ [x]) = Some x.
Proof.
  induction l as [|y l IH]; [reflexivity|].
  cbn [app last_opt]. destruct (l ++ [x]) eqn:E; [destruct l; discriminate|]. exact IH.
Qed.

Lemma znth_last {A} (l : list A) : l <> [] -> znth l (zlen l - 1) = last_opt l.
Proof.
  intros Hne. destruct (exists_last Hne) as (l' & x & ->).
  rewrite last_opt_app. unfold znth. rewrite zlen_app.
  change (zlen [x]) with 1. pose proof (zlen_nonneg l').
  destruct (zlen l' + 1 - 1 <? 0) eqn:E; [lia|].
  replace (Z.to_nat (zlen l' + 1 - 1)) with (length l') by (unfold zlen; lia).
  rewrite nth_error_app2 by lia. rewrite Nat.sub_diag. reflexivity.
Qed.

Lemma znth_some_lt {A} (l : list A) (i : Z) : 0 <= i -> i < zlen l -> exists x, znth l i = Some x /\ In x l.
Proof.
  intros H0 H1. unfold znth. destruct (i <? 0) eqn:E; [lia|].
  destruct (nth_error l (Z.to_nat i)) eqn:N.
  - eexists; split; [reflexivity|]. eapply nth_error_In; eauto.
  - apply nth_error_None in N. unfold zlen in H1. lia.
Qed.

Lemma znth_app_l {A} (l l' : list A) (i : Z) : i < zlen l -> znth (l ++ l') i = znth l i.
Proof.
  intros H. unfold znth. destruct (i <? 0) eqn:E; [reflexivity|].
  apply nth_error_app1. unfold zlen in H. lia.
Qed.

Lemma znth_app_r0 {A} (l : list A) (x : A) : znth (l ++ [x]) (zlen l) = Some x.
Proof.
  unfold znth. pose proof (zlen_nonneg l). destruct (zlen l <? 0) eqn:E; [lia|].
  unfold zlen. rewrite Nat2Z.id, nth_error_app2 by lia. rewrite Nat.sub_diag. reflexivity.
Qed.

Lemma zfirstn_nonpos {A} (n : Z) (l : list A) : n <= 0 -> zfirstn n l = [].
Proof. intros H. destruct l; cbn [zfirstn]; [reflexivity|]. destruct (n <=? 0) eqn:E; [reflexivity|lia]. Qed.

Lemma zfirstn_cons {A} (n : Z) (x : A) (l : list A) : 0 < n -> zfirstn n (x :: l) = x :: zfirstn (n - 1) l.
Proof. intros H. cbn [zfirstn]. destruct (n <=? 0) eqn:E; [lia|reflexivity]. Qed.

Lemma zfirstn_all {A} (n : Z) (l : list A) : zlen l <= n -> zfirstn n l = l.
Proof.
  revert n. induction l as [|x l IH]; intros n H; [reflexivity|].
  rewrite zlen_cons in H. pose proof (zlen_nonneg l).
  rewrite zfirstn_cons by lia. rewrite IH by lia. reflexivity.
Qed.

Lemma zfirstn_firstn {A} (n : Z) (l : list A) : zfirstn n l = firstn (Z.to_nat n) l.
Proof.
  revert n. induction l as [|x l IH]; intros n.
  - rewrite firstn_nil. reflexivity.
  - destruct (Z_le_gt_dec n 0).
    + rewrite zfirstn_nonpos by lia. replace (Z.to_nat n) with O by lia. reflexivity.
    + rewrite zfirstn_cons by lia. replace (Z.to_nat n) with (S (Z.to_nat (n - 1))) by lia.
      cbn [firstn]. rewrite IH. reflexivity.
Qed.

Lemma Forall_zfirstn {A} (P : A -> Prop) (n : Z) (l : list A) : Forall P l -> Forall P (zfirstn n l).
Proof.
  intros H. revert n. induction H as [|x l Hx Hl IH]; intros n; [constructor|].
  cbn [zfirstn]. destruct (n <=? 0); [constructor|]. constructor; [exact Hx|apply IH].
Qed.

(* ------------------------------------------------------------------------------------------ *)
(** * Copy primitives                                                                           *)

Lemma write_range_ok (text : list Z) (lo hi : Z) :
  0 <= lo -> hi <= zlen text -> write_range text lo hi = Ok (zslice text lo hi).
Proof.
  intros H0 H1. unfold write_range. destruct (hi <=? lo) eqn:E.
  - rewrite zslice_empty by lia. reflexivity.
  - destruct ((lo <? 0) || (zlen text <? hi)) eqn:E2; [lia|reflexivity].
Qed.

Lemma slice_expr_ok (text : list Z) (lo hi : Z) :
  0 <= lo -> lo <= hi -> hi <= zlen text -> slice_expr text lo hi = Ok (zslice text lo hi).
Proof.
  intros H0 H1 H2. unfold slice_expr.
  destruct ((0 <=? lo) && (lo <=? hi) && (hi <=? zlen text)) eqn:E; [reflexivity|lia].
Qed.

(* ------------------------------------------------------------------------------------------ *)
(** * One match: replacementImpl computes [expand]                                              *)

Lemma cap_in_bounds_last (len : Z) (caps : list (Z * Z)) (i l : Z) :
  Forall (cap_in_bounds len) caps -> last_opt caps = Some (i, l) -> 0 <= i /\ 0 <= l /\ i + l <= len.
Proof.
  intros HF HL. assert (In (i, l) caps) as HI.
  { clear HF. induction caps as [|c caps IH]; [discriminate|].
    cbn [last_opt] in HL. destruct caps as [|c' caps'].
    - inversion HL; subst. left; reflexivity.
    - right. apply IH. exact HL. }
  rewrite Forall_forall in HF. apply (HF _ HI).
Qed.

Lemma group_value_ok (text : list Z) (m : mtch) (k : Z) (caps : list (Z * Z)) :
  wf_match (zlen text) m -> znth (m_groups m) k = Some caps ->
  In caps (m_groups m) ->
  group_value text m k = Ok (cap_text text caps).
Proof.
  intros (_ & _ & _ & _ & HF) Hk HI. unfold group_value, cap_text. rewrite Hk.
  destruct (last_opt caps) as [[i l]|] eqn:HL; [|reflexivity].
  rewrite Forall_forall in HF. specialize (HF _ HI).
  destruct (cap_in_bounds_last _ _ _ _ HF HL) as (? & ? & ?).
  apply write_range_ok; lia.
Qed.

Lemma last_opt_In {A} (l : list A) (x : A) : last_opt l = Some x -> In x l.
Proof.
  induction l as [|y l IH]; [discriminate|]. cbn [last_opt]. destruct l as [|z l'].
  - intros H; inversion H; left; reflexivity.
  - intros H. right. apply IH. exact H.
Qed.

Lemma last_opt_nonempty {A} (l : list A) : l <> [] -> exists x, last_opt l = Some x.
Proof.
  intros H. destruct (exists_last H) as (l' & x & ->). exists x. apply last_opt_app.
Qed.

Lemma rule_piece_ok (d : rdata) (text : list Z) (m : mtch) (r : Z) (t : rtok) :
  wf_match (zlen text) m ->
  rule_ok (zlen (rd_strings d)) (group_count m) r ->
  tok_of_rule (rd_strings d) r = Some t ->
  rule_piece d text m r = Ok (tok_text m text t).
Proof.
  intros Hwf (Hs & Hg) Ht. pose proof Hwf as (Hi & Hl & Hb & Hne & HF).
  pose proof (zlen_nonneg text) as HL0.
  unfold rule_piece, tok_of_rule in *.
  unfold r_replaceSpecials, r_replaceLeftPortion, r_replaceRightPortion, r_replaceLastGroup, r_replaceWholeString.
  change (Z.opp 4) with (-4).
  destruct (0 <=? r) eqn:E0.
  - destruct (znth (rd_strings d) r) eqn:N; [|discriminate]. inversion Ht; subst. reflexivity.
  - destruct (r <? -4) eqn:E4.
    + destruct (r =? -1) eqn:E1; [lia|]. destruct (r =? -2) eqn:E2; [lia|].
      destruct (r =? -3) eqn:E3; [lia|]. destruct (r =? -4) eqn:E5; [lia|].
      assert (t = TGroup (-5 - r)) as -> by congruence. cbv beta iota delta [tok_text].
      replace (-4 - 1 - r) with (-5 - r) by lia.
      destruct (znth_some_lt (m_groups m) (-5 - r)) as (caps & Hk & HI); [lia|unfold group_count in Hg; lia|].
      rewrite Hk. apply group_value_ok; assumption.
    + assert (r = -1 \/ r = -2 \/ r = -3 \/ r = -4) as Hr by lia.
      destruct Hr as [-> | [-> | [-> | ->]]]; cbn in Ht; inversion Ht; subst t; cbv beta iota delta [tok_text].
      * change (-4 - 1 - -1) with (-4). change (-4 =? -1) with false. change (-4 =? -2) with false.
        change (-4 =? -3) with false. change (-4 =? -4) with true. cbv beta iota.
        rewrite write_range_ok by lia. rewrite zslice_full. reflexivity.
      * change (-4 - 1 - -2) with (-3). change (-3 =? -1) with false. change (-3 =? -2) with false.
        change (-3 =? -3) with true. cbv beta iota.
        unfold group_count, group_value. rewrite znth_last by assumption.
        destruct (last_opt_nonempty _ Hne) as (caps & HL). rewrite HL.
        unfold cap_text. destruct (last_opt caps) as [[i l]|] eqn:HL2; [|reflexivity].
        rewrite Forall_forall in HF. specialize (HF _ (last_opt_In _ _ HL)).
        destruct (cap_in_bounds_last _ _ _ _ HF HL2) as (? & ? & ?). apply write_range_ok; lia.
      * change (-4 - 1 - -3) with (-2). change (-2 =? -1) with false. change (-2 =? -2) with true. cbv beta iota.
        rewrite write_range_ok by lia. rewrite zslice_to_end. reflexivity.
      * change (-4 - 1 - -4) with (-1). change (-1 =? -1) with true. cbv beta iota.
        rewrite write_range_ok by lia. rewrite zslice_from_0. reflexivity.
Qed.

(* toks_of_rules as a relation on lists *)
Lemma toks_of_rules_app (strings : list (list Z)) (r1 r2 : list Z) (t1 t2 : list rtok) :
  toks_of_rules strings r1 = Some t1 -> toks_of_rules strings r2 = Some t2 ->
  toks_of_rules strings (r1 ++ r2) = Some (t1 ++ t2).
Proof.
  revert t1. induction r1 as [|r r1 IH]; intros t1 H1 H2.
  - inversion H1; subst. exact H2.
  - cbn [toks_of_rules app] in *. destruct (tok_of_rule strings r); [|discriminate].
    destruct (toks_of_rules strings r1) eqn:E; [|discriminate]. inversion H1; subst.
    rewrite (IH _ eq_refl H2). reflexivity.
Qed.

Lemma toks_of_rules_rev (strings : list (list Z)) (rules : list Z) (toks : list rtok) :
  toks_of_rules strings rules = Some toks -> toks_of_rules strings (rev rules) = Some (rev toks).
Proof.
  revert toks. induction rules as [|r rules IH]; intros toks H.
  - inversion H; subst. reflexivity.
  - cbn [toks_of_rules] in H. destruct (tok_of_rule strings r) eqn:Er; [|discriminate].
    destruct (toks_of_rules strings rules) eqn:E; [|discriminate]. inversion H; subst.
    cbn [rev]. apply toks_of_rules_app; [apply IH; reflexivity|].
    cbn [toks_of_rules]. rewrite Er. reflexivity.
Qed.

Lemma replacement_impl_go_ok (d : rdata) (text : list Z) (m : mtch) (rules : list Z) (toks : list rtok) (buf : list Z) :
  wf_match (zlen text) m ->
  Forall (rule_ok (zlen (rd_strings d)) (group_count m)) rules ->
  toks_of_rules (rd_strings d) rules = Some toks ->
  replacement_impl_go d text m rules buf = Ok (buf ++ expand toks m text).
Proof.
  intros Hwf. revert toks buf. induction rules as [|r rules IH]; intros toks buf HF Ht.
  - inversion Ht; subst. unfold expand. cbn. rewrite app_nil_r. reflexivity.
  - cbn [toks_of_rules] in Ht. destruct (tok_of_rule (rd_strings d) r) eqn:Er; [|discriminate].
    destruct (toks_of_rules (rd_strings d) rules) eqn:E; [|discriminate]. inversion Ht; subst.
    inversion HF; subst. cbn [replacement_impl_go].
    rewrite (rule_piece_ok _ _ _ _ _ Hwf H1 Er). cbn [bind].
    rewrite (IH _ _ H2 eq_refl). unfold expand. cbn [map concat]. rewrite app_assoc. reflexivity.
Qed.

Lemma replacement_impl_rtl_go_ok (d : rdata) (text : list Z) (m : mtch) (rules : list Z) (toks : list rtok) (al : list (list Z)) :
  wf_match (zlen text) m ->
  Forall (rule_ok (zlen (rd_strings d)) (group_count m)) rules ->
  toks_of_rules (rd_strings d) rules = Some toks ->
  replacement_impl_rtl_go d text m rules al = Ok (al ++ map (tok_text m text) toks).
Proof.
  intros Hwf. revert toks al. induction rules as [|r rules IH]; intros toks al HF Ht.
  - inversion Ht; subst. cbn. rewrite app_nil_r. reflexivity.
  - cbn [toks_of_rules] in Ht. destruct (tok_of_rule (rd_strings d) r) eqn:Er; [|discriminate].
    destruct (toks_of_rules (rd_strings d) rules) eqn:E; [|discriminate]. inversion Ht; subst.
    inversion HF; subst. cbn [replacement_impl_rtl_go].
    rewrite (rule_piece_ok _ _ _ _ _ Hwf H1 Er). cbn [bind].
    rewrite (IH _ _ H2 eq_refl). cbn [map]. rewrite <- app_assoc. reflexivity.
Qed.

(* data_ok for a match with n slots *)
Lemma data_ok_rules (d : rdata) (n : Z) (m : mtch) :
  data_ok d n -> group_count m = n -> Forall (rule_ok (zlen (rd_strings d)) (group_count m)) (rd_rules d).
Proof. intros H <-. exact H. Qed.

Lemma replacement_impl_ok (d : rdata) (toks : list rtok) (text : list Z) (m : mtch) (buf : list Z) :
  wf_match (zlen text) m -> data_ok d (group_count m) -> toks_of d = Some toks ->
  replacement_impl d text m buf = Ok (buf ++ expand toks m text).
Proof. intros. apply replacement_impl_go_ok; assumption. Qed.

Lemma Forall_rev' {A} (P : A -> Prop) (l : list A) : Forall P l -> Forall P (rev l).
Proof.
  intros H. apply Forall_forall. intros x Hx. rewrite <- in_rev in Hx.
  rewrite Forall_forall in H. auto.
Qed.

Lemma replacement_impl_rtl_ok (d : rdata) (toks : list rtok) (text : list Z) (m : mtch) (al : list (list Z)) :
  wf_match (zlen text) m -> data_ok d (group_count m) -> toks_of d = Some toks ->
  replacement_impl_rtl d text m al = Ok (al ++ rev (map (tok_text m text) toks)).
Proof.
  intros Hwf Hd Ht. unfold replacement_impl_rtl.
  rewrite (replacement_impl_rtl_go_ok d text m (rev (rd_rules d)) (rev toks) al Hwf).
  - rewrite map_rev. reflexivity.
  - apply Forall_rev'. exact Hd.
  - apply toks_of_rules_rev. exact Ht.
Qed.

(* ------------------------------------------------------------------------------------------ *)
(** * The fold over a region of the text                                                        *)

(* [fold_between f text lo hi ms]: the region [lo,hi) with the (ascending) matches ms replaced *)
Fixpoint fold_between (f : mtch -> list Z) (text : list Z) (lo hi : Z) (ms : list mtch) : list Z :=
  match ms with
  | [] => zslice text lo hi
  | m :: ms' => zslice text lo (m_index m) ++ f m ++ fold_between f text (m_index m + m_length m) hi ms'
  end.

Lemma fold_matches_between (f : mtch -> list Z) (text : list Z) (lo : Z) (ms : list mtch) :
  fold_matches f text lo ms = fold_between f text lo (zlen text) ms.
Proof.
  revert lo. induction ms as [|m ms IH]; intros lo; cbn [fold_matches fold_between].
  - rewrite zslice_to_end. reflexivity.
  - rewrite IH. reflexivity.
Qed.

Lemma fold_between_snoc (f : mtch -> list Z) (text : list Z) (lo hi : Z) (ms : list mtch) (m : mtch) :
  fold_between f text lo hi (ms ++ [m]) =
  fold_between f text lo (m_index m) ms ++ f m ++ zslice text (m_index m + m_length m) hi.
Proof.
  revert lo. induction ms as [|a ms IH]; intros lo; cbn [app fold_between].
  - reflexivity.
  - rewrite IH. rewrite <- !app_assoc. reflexivity.
Qed.

(* ascending, disjoint, inside [lo,hi] *)
Fixpoint ord_asc (lo hi : Z) (ms : list mtch) : Prop :=
  match ms with
  | [] => lo <= hi
  | m :: ms' => lo <= m_index m /\ 0 <= m_length m /\ ord_asc (m_index m + m_length m) hi ms'
  end.

Lemma ord_asc_le (lo hi : Z) (ms : list mtch) : ord_asc lo hi ms -> lo <= hi.
Proof.
  revert lo. induction ms as [|m ms IH]; intros lo H; [exact H|].
  destruct H as (H1 & H2 & H3). specialize (IH _ H3). lia.
Qed.

Lemma ord_asc_snoc (lo hi : Z) (ms : list mtch) (m : mtch) :
  ord_asc lo (m_index m) ms -> 0 <= m_length m -> m_index m + m_length m <= hi -> ord_asc lo hi (ms ++ [m]).
Proof.
  revert lo. induction ms as [|a ms IH]; intros lo H Hl Hh; cbn [app ord_asc] in *.
  - repeat split; lia.
  - destruct H as (H1 & H2 & H3). repeat split; try assumption. apply IH; assumption.
Qed.

Lemma ordered_ltr_asc (len prev : Z) (ms : list mtch) :
  prev <= len -> Forall (wf_match len) ms -> ordered_ltr prev ms -> ord_asc prev len ms.
Proof.
  revert prev. induction ms as [|m ms IH]; intros prev Hp HF Ho; cbn [ord_asc ordered_ltr] in *; [exact Hp|].
  inversion HF as [|? ? Hm HF']; subst. destruct Hm as (Hi & Hl & Hb & _). destruct Ho as (Ho1 & Ho2).
  repeat split; try assumption. apply IH; assumption.
Qed.

Lemma ordered_rtl_asc (prev : Z) (len : Z) (ms : list mtch) :
  Forall (wf_match len) ms -> ordered_rtl prev ms -> 0 <= prev -> ord_asc 0 prev (rev ms).
Proof.
  revert prev. induction ms as [|m ms IH]; intros prev HF Ho Hp; cbn [rev ord_asc ordered_rtl] in *; [exact Hp|].
  inversion HF as [|? ? Hm HF']; subst. destruct Hm as (Hi & Hl & Hb & _). destruct Ho as (Ho1 & Ho2).
  apply ord_asc_snoc; try assumption. apply IH; assumption.
Qed.

(* replacing every match by its own text changes nothing *)
Lemma fold_between_matched (text : list Z) (lo hi : Z) (ms : list mtch) :
  0 <= lo -> ord_asc lo hi ms -> fold_between (matched_text text) text lo hi ms = zslice text lo hi.
Proof.
  revert lo. induction ms as [|m ms IH]; intros lo H0 Ho; cbn [fold_between ord_asc] in *; [reflexivity|].
  destruct Ho as (H1 & H2 & H3). pose proof (ord_asc_le _ _ _ H3).
  rewrite IH by (try assumption; lia). unfold matched_text.
  rewrite zslice_app by lia. rewrite zslice_app by lia. reflexivity.
Qed.

(* prefixes of ordered sequences are ordered *)
Lemma ordered_ltr_zfirstn (prev n : Z) (ms : list mtch) : ordered_ltr prev ms -> ordered_ltr prev (zfirstn n ms).
Proof.
  revert prev n. induction ms as [|m ms IH]; intros prev n H; [exact H|].
  cbn [zfirstn]. destruct (n <=? 0); [exact I|]. destruct H as (H1 & H2). split; [exact H1|apply IH; exact H2].
Qed.
Lemma ordered_rtl_zfirstn (prev n : Z) (ms : list mtch) : ordered_rtl prev ms -> ordered_rtl prev (zfirstn n ms).
Proof.
  revert prev n. induction ms as [|m ms IH]; intros prev n H; [exact H|].
  cbn [zfirstn]. destruct (n <=? 0); [exact I|]. destruct H as (H1 & H2). split; [exact H1|apply IH; exact H2].
Qed.

Lemma wf_matches_take (rtl : bool) (text : list Z) (count : Z) (ms : list mtch) :
  wf_matches rtl text ms -> wf_matches rtl text (take_count count ms).
Proof.
  intros (HF & Ho). unfold take_count. destruct (count <? 0); [split; assumption|].
  split; [apply Forall_zfirstn; exact HF|].
  destruct rtl; [apply ordered_rtl_zfirstn|apply ordered_ltr_zfirstn]; exact Ho.
Qed.

(* the processed matches, in text order, are ascending inside the text *)
Lemma wf_matches_asc (rtl : bool) (text : list Z) (ms : list mtch) :
  wf_matches rtl text ms -> ord_asc 0 (zlen text) (text_order rtl ms).
Proof.
  intros (HF & Ho). pose proof (zlen_nonneg text). destruct rtl; cbn [text_order].
  - eapply ordered_rtl_asc; eauto.
  - eapply ordered_ltr_asc; eauto.
Qed.

(* ------------------------------------------------------------------------------------------ *)
(** * The driver loops                                                                          *)

Lemma take_count_nil (count : Z) : take_count count [] = [].
Proof. unfold take_count. destruct (count <? 0); reflexivity. Qed.

Lemma take_count_cons (count : Z) (m : mtch) (ms : list mtch) :
  count <> 0 -> take_count count (m :: ms) = m :: take_count (count - 1) ms.
Proof.
  intros H. unfold take_count. destruct (count <? 0) eqn:E.
  - destruct (count - 1 <? 0) eqn:E2; [reflexivity|lia].
  - destruct (count - 1 <? 0) eqn:E2; [lia|]. apply zfirstn_cons. lia.
Qed.

Lemma take_count_zero (ms : list mtch) : take_count 0 ms = [].
Proof. unfold take_count. cbn. apply zfirstn_nonpos. lia. Qed.

Lemma ltr_loop_ok (between : list Z -> Z -> Z -> res (list Z)) (emit : mtch -> list Z -> res (list Z))
      (f : mtch -> list Z) (text : list Z) :
  (forall lo hi, 0 <= lo -> lo <= hi -> hi <= zlen text -> between text lo hi = Ok (zslice text lo hi)) ->
  forall (ms : list mtch) (prevat count : Z) (buf : list Z),
    (forall m b, In m ms -> emit m b = Ok (b ++ f m)) ->
    count <> 0 -> 0 <= prevat -> ord_asc prevat (zlen text) ms ->
    exists X prevat',
      ltr_loop between emit text ms prevat count buf = Ok (buf ++ X, prevat') /\
      prevat <= prevat' /\ prevat' <= zlen text /\
      X ++ zslice text prevat' (zlen text) = fold_between f text prevat (zlen text) (take_count count ms).
Proof.
  intros Hbet ms. induction ms as [|m ms IH]; intros prevat count buf Hemit Hc Hp Ho.
  - exists [], prevat. cbn [ltr_loop ord_asc] in *. rewrite app_nil_r, take_count_nil.
    repeat split; try lia; try reflexivity.
  - cbn [ord_asc] in Ho. destruct Ho as (Ho1 & Ho2 & Ho3). pose proof (ord_asc_le _ _ _ Ho3) as Hle.
    cbn [ltr_loop].
    assert ((if m_index m =? prevat then Ok buf
             else do b <- between text prevat (m_index m); Ok (buf ++ b)) = Ok (buf ++ zslice text prevat (m_index m))) as ->.
    { destruct (m_index m =? prevat) eqn:E.
      - rewrite zslice_empty by lia. rewrite app_nil_r. reflexivity.
      - rewrite Hbet by lia. reflexivity. }
    cbn [bind]. rewrite Hemit by (left; reflexivity). cbn [bind].
    rewrite take_count_cons by assumption.
    destruct (count - 1 =? 0) eqn:Ec.
    + exists (zslice text prevat (m_index m) ++ f m), (m_index m + m_length m).
      replace (count - 1) with 0 by lia. rewrite take_count_zero. cbn [fold_between].
      rewrite <- !app_assoc. repeat split; try lia; try reflexivity.
    + destruct (IH (m_index m + m_length m) (count - 1) ((buf ++ zslice text prevat (m_index m)) ++ f m))
        as (X & p' & HX & Hp1 & Hp2 & HE); try assumption; try lia.
      { intros; apply Hemit; right; assumption. }
      exists (zslice text prevat (m_index m) ++ f m ++ X), p'. rewrite HX.
      cbn [fold_between]. rewrite <- HE. rewrite <- !app_assoc. repeat split; try lia; try reflexivity.
Qed.

Lemma concat_rev_snoc (al : list (list Z)) (b : list Z) : concat (rev (al ++ [b])) = b ++ concat (rev al).
Proof. rewrite rev_app_distr. reflexivity. Qed.

Lemma rtl_loop_ok (emit : mtch -> list (list Z) -> res (list (list Z))) (f : mtch -> list Z) (text : list Z) :
  forall (ms : list mtch) (prevat count : Z) (al : list (list Z)),
    (forall m a, In m ms -> exists E, emit m a = Ok (a ++ E) /\ concat (rev E) = f m) ->
    count <> 0 -> 0 <= prevat -> prevat <= zlen text ->
    Forall (wf_match (zlen text)) ms -> ordered_rtl prevat ms ->
    exists al' p',
      rtl_loop emit text ms prevat count al = Ok (al', p') /\ 0 <= p' /\ p' <= prevat /\
      zslice text 0 p' ++ concat (rev al') =
      fold_between f text 0 prevat (rev (take_count count ms)) ++ concat (rev al).
Proof.
  induction ms as [|m ms IH]; intros prevat count al Hemit Hc Hp0 Hp HF Ho.
  - exists al, prevat. cbn [rtl_loop]. rewrite take_count_nil. cbn [rev fold_between].
    repeat split; try lia.
  - inversion HF as [|? ? Hm HF']; subst. destruct Hm as (Hi & Hl & Hb & _).
    cbn [ordered_rtl] in Ho. destruct Ho as (Ho1 & Ho2).
    cbn [rtl_loop].
    assert (exists al1, (if m_index m + m_length m =? prevat then Ok al
             else do b <- slice_expr text (m_index m + m_length m) prevat; Ok (al ++ [b])) = Ok al1 /\
            concat (rev al1) = zslice text (m_index m + m_length m) prevat ++ concat (rev al)) as (al1 & -> & H1).
    { destruct (m_index m + m_length m =? prevat) eqn:E.
      - exists al. split; [reflexivity|]. rewrite zslice_empty by lia. reflexivity.
      - rewrite slice_expr_ok by lia. eexists. split; [reflexivity|]. apply concat_rev_snoc. }
    cbn [bind]. destruct (Hemit m al1 (or_introl eq_refl)) as (E & -> & HE). cbn [bind].
    assert (concat (rev (al1 ++ E)) = f m ++ zslice text (m_index m + m_length m) prevat ++ concat (rev al)) as H2.
    { rewrite rev_app_distr, concat_app, HE, H1. reflexivity. }
    rewrite take_count_cons by assumption.
    destruct (count - 1 =? 0) eqn:Ec.
    + exists (al1 ++ E), (m_index m). replace (count - 1) with 0 by lia. rewrite take_count_zero.
      cbn [rev app fold_between]. rewrite H2. rewrite <- !app_assoc. repeat split; try lia.
    + destruct (IH (m_index m) (count - 1) (al1 ++ E)) as (al' & p' & HX & Hp1 & Hp2 & HEq); try assumption; try lia.
      { intros; apply Hemit; right; assumption. }
      exists al', p'. rewrite HX. repeat split; try lia.
      rewrite HEq. cbn [rev]. rewrite fold_between_snoc. rewrite H2. rewrite <- !app_assoc. reflexivity.
Qed.

Lemma run_ltr_ok (between : list Z -> Z -> Z -> res (list Z)) (emit : mtch -> list Z -> res (list Z))
      (f : mtch -> list Z) (text : list Z) (ms : list mtch) (count : Z) :
  (forall lo hi, 0 <= lo -> lo <= hi -> hi <= zlen text -> between text lo hi = Ok (zslice text lo hi)) ->
  (forall m b, In m ms -> emit m b = Ok (b ++ f m)) ->
  count <> 0 -> wf_matches false text ms ->
  run_ltr between emit text ms count = Ok (fold_matches f text 0 (take_count count ms)).
Proof.
  intros Hbet Hemit Hc Hwf. pose proof (wf_matches_asc _ _ _ Hwf) as Ho. cbn [text_order] in Ho.
  rewrite fold_matches_between. unfold run_ltr. destruct ms as [|m ms].
  - rewrite take_count_nil. cbn [fold_between]. rewrite zslice_full. reflexivity.
  - destruct (ltr_loop_ok between emit f text Hbet (m :: ms) 0 count [] Hemit Hc (Z.le_refl 0) Ho)
      as (X & p' & -> & Hp1 & Hp2 & HE).
    cbn [bind app]. rewrite <- HE. destruct (p' <? zlen text) eqn:E.
    + rewrite Hbet by lia. reflexivity.
    + rewrite zslice_empty by lia. rewrite app_nil_r. reflexivity.
Qed.

Lemma run_rtl_ok (head : list Z -> Z -> res (list Z)) (emit : mtch -> list (list Z) -> res (list (list Z)))
      (f : mtch -> list Z) (text : list Z) (ms : list mtch) (count : Z) :
  (forall p, 0 < p -> p <= zlen text -> head text p = Ok (zslice text 0 p)) ->
  (forall m a, In m ms -> exists E, emit m a = Ok (a ++ E) /\ concat (rev E) = f m) ->
  count <> 0 -> wf_matches true text ms ->
  run_rtl head emit text ms count = Ok (fold_matches f text 0 (rev (take_count count ms))).
Proof.
  intros Hhead Hemit Hc (HF & Ho). pose proof (zlen_nonneg text) as HL.
  rewrite fold_matches_between. unfold run_rtl. destruct ms as [|m ms].
  - rewrite take_count_nil. cbn [rev fold_between]. rewrite zslice_full. reflexivity.
  - destruct (rtl_loop_ok emit f text (m :: ms) (zlen text) count [] Hemit Hc HL (Z.le_refl _) HF Ho)
      as (al' & p' & -> & Hp1 & Hp2 & HE).
    cbn [bind]. cbn [rev concat] in HE. rewrite app_nil_r in HE. rewrite <- HE.
    destruct (0 <? p') eqn:E.
    + rewrite Hhead by lia. reflexivity.
    + rewrite zslice_empty by lia. reflexivity.
Qed.

(* ------------------------------------------------------------------------------------------ *)
(** * Replace / ReplaceFunc = the fold                                                          *)

Lemma replace_spec_count0 (rtl : bool) (ms : list mtch) (f : mtch -> list Z) (text : list Z) :
  replace_spec_f rtl ms f 0 text = text.
Proof. unfold replace_spec_f. rewrite take_count_zero. destruct rtl; reflexivity. Qed.

Lemma Forall_In {A} (P : A -> Prop) (l : list A) (x : A) : Forall P l -> In x l -> P x.
Proof. intros H. rewrite Forall_forall in H. auto. Qed.

Lemma replace_func_fold (rtl : bool) (f : mtch -> list Z) (tw : list (Z * Z)) (startAt count : Z) (ms : list mtch) :
  -1 <= count -> check_start tw startAt = Ok tt ->
  wf_matches rtl (runes_of tw) ms ->
  replace rtl (ByEval f) tw startAt count ms = Ok (replace_spec_f rtl ms f count (runes_of tw)).
Proof.
  intros Hc Hs Hwf. unfold replace. destruct (count <? -1) eqn:E1; [lia|].
  destruct (count =? 0) eqn:E0.
  { replace count with 0 by lia. rewrite replace_spec_count0. reflexivity. }
  rewrite Hs. cbn [bind]. unfold replace_spec_f. destruct rtl; cbn [text_order].
  - apply run_rtl_ok; try assumption; try lia.
    + intros p H1 H2. apply slice_expr_ok; lia.
    + intros m a _. exists [f m]. split; [reflexivity|]. cbn. apply app_nil_r.
  - apply run_ltr_ok; try assumption; try lia.
    + intros; apply slice_expr_ok; assumption.
    + intros; reflexivity.
Qed.

Lemma replace_data_fold (rtl : bool) (d : rdata) (toks : list rtok) (n : Z) (tw : list (Z * Z)) (startAt count : Z) (ms : list mtch) :
  -1 <= count -> check_start tw startAt = Ok tt ->
  wf_matches rtl (runes_of tw) ms -> Forall (fun m => group_count m = n) ms ->
  data_ok d n -> toks_of d = Some toks ->
  replace rtl (ByData d) tw startAt count ms = Ok (replace_spec rtl ms toks count (runes_of tw)).
Proof.
  intros Hc Hs Hwf Hn Hd Ht. unfold replace. destruct (count <? -1) eqn:E1; [lia|].
  destruct (count =? 0) eqn:E0.
  { replace count with 0 by lia. unfold replace_spec. rewrite replace_spec_count0. reflexivity. }
  rewrite Hs. cbn [bind]. unfold replace_spec, replace_spec_f. pose proof Hwf as (HF & _).
  destruct rtl; cbn [text_order].
  - apply run_rtl_ok; try assumption; try lia.
    + intros p H1 H2. apply write_range_ok; lia.
    + intros m a Hin. pose proof (Forall_In _ _ _ HF Hin) as Hm. pose proof (Forall_In _ _ _ Hn Hin) as Hg.
      cbv beta in Hg. exists (rev (map (tok_text m (runes_of tw)) toks)). split.
      * apply replacement_impl_rtl_ok; try assumption. rewrite Hg. exact Hd.
      * rewrite rev_involutive. reflexivity.
  - apply run_ltr_ok; try assumption; try lia.
    + intros; apply write_range_ok; lia.
    + intros m b Hin. pose proof (Forall_In _ _ _ HF Hin) as Hm. pose proof (Forall_In _ _ _ Hn Hin) as Hg.
      cbv beta in Hg. apply replacement_impl_ok; try assumption. rewrite Hg. exact Hd.
Qed.

(* ReplaceFunc with an evaluator that computes the expansion = Replace *)
Lemma fold_between_ext (f g : mtch -> list Z) (text : list Z) (lo hi : Z) (ms : list mtch) :
  (forall m, In m ms -> f m = g m) -> fold_between f text lo hi ms = fold_between g text lo hi ms.
Proof.
  revert lo. induction ms as [|m ms IH]; intros lo H; cbn [fold_between]; [reflexivity|].
  rewrite (H m (or_introl eq_refl)). rewrite IH; [reflexivity|]. intros; apply H; right; assumption.
Qed.

Lemma In_zfirstn {A} (n : Z) (l : list A) (x : A) : In x (zfirstn n l) -> In x l.
Proof.
  revert n. induction l as [|a l IH]; intros n H; [exact H|].
  cbn [zfirstn] in H. destruct (n <=? 0); [contradiction|].
  destruct H as [->|H]; [left; reflexivity|right; eapply IH; exact H].
Qed.

Lemma take_count_incl (count : Z) (ms : list mtch) (m : mtch) : In m (take_count count ms) -> In m ms.
Proof.
  unfold take_count. destruct (count <? 0); [auto|]. generalize count. clear count.
  induction ms as [|a ms IH]; intros count H; [exact H|].
  cbn [zfirstn] in H. destruct (count <=? 0); [contradiction|].
  destruct H as [->|H]; [left; reflexivity|right; eapply IH; exact H].
Qed.

Lemma in_text_order (rtl : bool) (ms : list mtch) (m : mtch) : In m (text_order rtl ms) -> In m ms.
Proof. destruct rtl; cbn [text_order]; [rewrite <- in_rev|]; auto. Qed.

Lemma replace_spec_f_ext (rtl : bool) (ms : list mtch) (f g : mtch -> list Z) (count : Z) (text : list Z) :
  (forall m, In m ms -> f m = g m) -> replace_spec_f rtl ms f count text = replace_spec_f rtl ms g count text.
Proof.
  intros H. unfold replace_spec_f. rewrite !fold_matches_between. apply fold_between_ext.
  intros m Hm. apply H. eapply take_count_incl. eapply in_text_order. exact Hm.
Qed.

Lemma replace_func_eq_replace (rtl : bool) (d : rdata) (toks : list rtok) (n : Z) (f : mtch -> list Z)
      (tw : list (Z * Z)) (startAt count : Z) (ms : list mtch) :
  -1 <= count -> check_start tw startAt = Ok tt ->
  wf_matches rtl (runes_of tw) ms -> Forall (fun m => group_count m = n) ms ->
  data_ok d n -> toks_of d = Some toks ->
  (forall m, In m ms -> f m = expand toks m (runes_of tw)) ->
  replace rtl (ByEval f) tw startAt count ms = replace rtl (ByData d) tw startAt count ms.
Proof.
  intros. rewrite replace_func_fold by assumption.
  erewrite replace_data_fold by eassumption. unfold replace_spec. f_equal.
  apply replace_spec_f_ext. assumption.
Qed.

(* $& : the rule list [-5] *)
Definition amp_data : rdata := mkRD [] [-5].

Lemma expand_amp (text : list Z) (m : mtch) :
  group0_ok m -> expand [TGroup 0] m text = matched_text text m.
Proof.
  intros (caps & rest & Hg & HL). unfold expand. cbn [map concat tok_text]. rewrite Hg.
  cbn [znth Z.ltb Z.compare Z.to_nat nth_error]. unfold cap_text. rewrite HL. rewrite app_nil_r. reflexivity.
Qed.

Lemma replace_amp_identity (rtl : bool) (tw : list (Z * Z)) (startAt count : Z) (ms : list mtch) :
  -1 <= count -> check_start tw startAt = Ok tt ->
  wf_matches rtl (runes_of tw) ms -> Forall group0_ok ms ->
  replace rtl (ByData amp_data) tw startAt count ms = Ok (runes_of tw).
Proof.
  intros Hc Hs Hwf Hg0. unfold replace. destruct (count <? -1) eqn:E1; [lia|].
  destruct (count =? 0) eqn:E0; [reflexivity|]. rewrite Hs. cbn [bind].
  pose proof Hwf as (HF & _).
  assert (forall m, In m ms -> wf_match (zlen (runes_of tw)) m /\ data_ok amp_data (group_count m)) as Hm.
  { intros m Hin. pose proof (Forall_In _ _ _ HF Hin) as Hw. split; [exact Hw|].
    destruct Hw as (_ & _ & _ & Hne & _). constructor; [|constructor].
    split; [lia|]. intros _. unfold group_count. destruct (m_groups m) as [|g0 gs]; [contradiction|].
    rewrite zlen_cons. pose proof (zlen_nonneg gs). lia. }
  assert (fold_matches (fun m => expand [TGroup 0] m (runes_of tw)) (runes_of tw) 0
                       (text_order rtl (take_count count ms)) = runes_of tw) as Hfold.
  { rewrite fold_matches_between.
    rewrite (fold_between_ext _ (matched_text (runes_of tw))).
    - rewrite fold_between_matched; [apply zslice_full|lia|].
      apply wf_matches_asc. apply wf_matches_take. exact Hwf.
    - intros m Hin. apply expand_amp. eapply Forall_In; [exact Hg0|].
      eapply take_count_incl. eapply in_text_order. exact Hin. }
  destruct rtl; cbn [text_order] in Hfold.
  - erewrite run_rtl_ok with (f := fun m => expand [TGroup 0] m (runes_of tw)); try assumption; try lia.
    + rewrite Hfold. reflexivity.
    + intros p H1 H2. apply write_range_ok; lia.
    + intros m a Hin. destruct (Hm m Hin) as (Hw & Hd).
      exists (rev (map (tok_text m (runes_of tw)) [TGroup 0])). split.
      * apply replacement_impl_rtl_ok; try assumption. reflexivity.
      * rewrite rev_involutive. reflexivity.
  - erewrite run_ltr_ok with (f := fun m => expand [TGroup 0] m (runes_of tw)); try assumption; try lia.
    + rewrite Hfold. reflexivity.
    + intros; apply write_range_ok; lia.
    + intros m b Hin. destruct (Hm m Hin) as (Hw & Hd). apply replacement_impl_ok; try assumption. reflexivity.
Qed.

(* ------------------------------------------------------------------------------------------ *)
(** * count and startAt                                                                         *)

(* b is the byte offset of a rune of the string, or its length *)
Definition is_boundary (tw : list (Z * Z)) (b : Z) : Prop :=
  exists k, (k <= length tw)%nat /\ b = byte_len (firstn k tw).

Lemma byte_len_cons (p : Z * Z) (tw : list (Z * Z)) : byte_len (p :: tw) = snd p + byte_len tw.
Proof. reflexivity. Qed.

Lemma rune_start_go_spec (tw : list (Z * Z)) (startAt strIdx n acc : Z) :
  0 <= n -> -1 <= acc ->
  (0 <= rune_start_go tw startAt strIdx n acc <->
   0 <= acc \/ (0 <= startAt /\ exists k, (k < length tw)%nat /\ startAt = strIdx + byte_len (firstn k tw))).
Proof.
  revert strIdx n acc. induction tw as [|[r w] tw IH]; intros strIdx n acc Hn Hacc; cbn [rune_start_go].
  - split; [intros H; left; exact H|]. intros [H|(_ & k & Hk & _)]; [exact H|cbn in Hk; lia].
  - rewrite IH by (try lia; destruct ((0 <=? startAt) && (strIdx =? startAt)); lia).
    split.
    + intros [H|(H0 & k & Hk & He)].
      * destruct ((0 <=? startAt) && (strIdx =? startAt)) eqn:E; [|left; exact H].
        right. split; [lia|]. exists O. split; [cbn [length]; lia|]. cbn [firstn]. change (byte_len []) with 0. lia.
      * right. split; [exact H0|]. exists (S k). split; [cbn [length]; lia|]. cbn [firstn].
        rewrite byte_len_cons. cbn [snd]. lia.
    + intros [H|(H0 & k & Hk & He)].
      * left. destruct ((0 <=? startAt) && (strIdx =? startAt)); lia.
      * destruct k as [|k].
        -- left. cbn [firstn] in He. change (byte_len []) with 0 in He.
           destruct ((0 <=? startAt) && (strIdx =? startAt)) eqn:E; lia.
        -- right. split; [exact H0|]. exists k. split; [cbn [length] in Hk; lia|].
           cbn [firstn] in He. rewrite byte_len_cons in He. cbn [snd] in He. lia.
Qed.

Lemma firstn_all_len {A} (l : list A) : firstn (length l) l = l.
Proof. apply firstn_all. Qed.

Lemma rune_start_spec (tw : list (Z * Z)) (startAt : Z) :
  0 <= startAt -> (0 <= rune_start tw startAt <-> is_boundary tw startAt).
Proof.
  intros H0. unfold rune_start, is_boundary.
  destruct ((0 <=? startAt) && (startAt =? byte_len tw)) eqn:E.
  - split; [|intros _; apply zlen_nonneg]. intros _. exists (length tw). split; [lia|].
    rewrite firstn_all_len. lia.
  - rewrite rune_start_go_spec by lia. split.
    + intros [H|(_ & k & Hk & He)]; [lia|]. exists k. split; [lia|lia].
    + intros (k & Hk & He). right. split; [exact H0|]. exists k. split; [|lia].
      destruct (Nat.eq_dec k (length tw)) as [->|]; [|lia]. rewrite firstn_all_len in He. lia.
Qed.

Lemma check_start_ok (tw : list (Z * Z)) (startAt : Z) :
  startAt <= byte_len tw -> (0 <= startAt -> is_boundary tw startAt) -> check_start tw startAt = Ok tt.
Proof.
  intros H1 H2. unfold check_start. destruct (byte_len tw <? startAt) eqn:E; [lia|].
  destruct ((0 <=? startAt) && (rune_start tw startAt <? 0)) eqn:E2; [|reflexivity].
  assert (0 <= startAt) as H0 by lia. apply H2 in H0 as Hb. apply rune_start_spec in Hb; lia.
Qed.

Lemma check_start_too_large (tw : list (Z * Z)) (startAt : Z) :
  byte_len tw < startAt -> check_start tw startAt = Err E_StartTooLarge.
Proof. intros H. unfold check_start. destruct (byte_len tw <? startAt) eqn:E; [reflexivity|lia]. Qed.

Lemma check_start_not_boundary (tw : list (Z * Z)) (startAt : Z) :
  0 <= startAt -> startAt <= byte_len tw -> ~ is_boundary tw startAt ->
  check_start tw startAt = Err E_StartNotBoundary.
Proof.
  intros H0 H1 Hnb. unfold check_start. destruct (byte_len tw <? startAt) eqn:E; [lia|].
  destruct ((0 <=? startAt) && (rune_start tw startAt <? 0)) eqn:E2; [reflexivity|].
  exfalso. apply Hnb. apply rune_start_spec; lia.
Qed.

Lemma replace_count_startat (rtl : bool) (r : replacer) (tw : list (Z * Z)) (startAt count : Z) (ms : list mtch) :
  (count < -1 -> replace rtl r tw startAt count ms = Err E_CountTooSmall) /\
  (count = 0 -> replace rtl r tw startAt count ms = Ok (runes_of tw)) /\
  (-1 <= count -> count <> 0 -> byte_len tw < startAt ->
     replace rtl r tw startAt count ms = Err E_StartTooLarge) /\
  (-1 <= count -> count <> 0 -> 0 <= startAt -> startAt <= byte_len tw -> ~ is_boundary tw startAt ->
     replace rtl r tw startAt count ms = Err E_StartNotBoundary) /\
  (-1 <= count -> startAt <= byte_len tw -> (0 <= startAt -> is_boundary tw startAt) -> ms = [] ->
     replace rtl r tw startAt count ms = Ok (runes_of tw)).
Proof.
  unfold replace. repeat split.
  - intros H. destruct (count <? -1) eqn:E; [reflexivity|lia].
  - intros ->. reflexivity.
  - intros H1 H2 H3. destruct (count <? -1) eqn:E; [lia|]. destruct (count =? 0) eqn:E0; [lia|].
    rewrite check_start_too_large by assumption. reflexivity.
  - intros H1 H2 H3 H4 H5. destruct (count <? -1) eqn:E; [lia|]. destruct (count =? 0) eqn:E0; [lia|].
    rewrite check_start_not_boundary by assumption. reflexivity.
  - intros H1 H2 H3 ->. destruct (count <? -1) eqn:E; [lia|]. destruct (count =? 0) eqn:E0; [reflexivity|].
    rewrite check_start_ok by assumption. cbn [bind]. destruct r, rtl; reflexivity.
Qed.

(* ------------------------------------------------------------------------------------------ *)
(** * Split                                                                                     *)

Lemma group_string_ok (text : list Z) (caps : list (Z * Z)) :
  Forall (cap_in_bounds (zlen text)) caps -> group_string text caps = Ok (cap_text text caps).
Proof.
  intros HF. unfold group_string, cap_text. pose proof (zlen_nonneg text).
  destruct (last_opt caps) as [[i l]|] eqn:HL.
  - destruct (cap_in_bounds_last _ _ _ _ HF HL) as (? & ? & ?). apply slice_expr_ok; lia.
  - rewrite slice_expr_ok by lia. rewrite zslice_empty by lia. reflexivity.
Qed.

Lemma strings_of_groups_ok (text : list Z) (gs : list (list (Z * Z))) :
  Forall (Forall (cap_in_bounds (zlen text))) gs ->
  strings_of_groups text gs = Ok (map (cap_text text) gs).
Proof.
  induction gs as [|g gs IH]; intros HF; [reflexivity|]. inversion HF; subst.
  cbn [strings_of_groups map]. rewrite group_string_ok by assumption. cbn [bind].
  rewrite IH by assumption. reflexivity.
Qed.

Lemma group_strings_ok (text : list Z) (m : mtch) :
  wf_match (zlen text) m -> group_strings text m = Ok (group_texts text m).
Proof.
  intros (_ & _ & _ & Hne & HF). unfold group_strings, group_texts.
  destruct (m_groups m) as [|g gs]; [contradiction|]. inversion HF; subst.
  cbn [tl]. apply strings_of_groups_ok. assumption.
Qed.

(* the pieces for the region [lo,hi) with ascending matches; gt m = what a match contributes *)
Fixpoint sfb (gt : mtch -> list (list Z)) (text : list Z) (lo hi : Z) (ms : list mtch) : list (list Z) :=
  match ms with
  | [] => [zslice text lo hi]
  | m :: ms' => zslice text lo (m_index m) :: gt m ++ sfb gt text (m_index m + m_length m) hi ms'
  end.

Lemma split_fold_sfb (text : list Z) (lo : Z) (ms : list mtch) :
  split_fold text lo ms = sfb (group_texts text) text lo (zlen text) ms.
Proof.
  revert lo. induction ms as [|m ms IH]; intros lo; cbn [split_fold sfb].
  - rewrite zslice_to_end. reflexivity.
  - rewrite IH. reflexivity.
Qed.

Lemma sfb_snoc (gt : mtch -> list (list Z)) (text : list Z) (lo hi : Z) (ms : list mtch) (m : mtch) :
  sfb gt text lo hi (ms ++ [m]) =
  sfb gt text lo (m_index m) ms ++ gt m ++ [zslice text (m_index m + m_length m) hi].
Proof.
  revert lo. induction ms as [|a ms IH]; intros lo; cbn [app sfb]; [reflexivity|].
  rewrite IH. rewrite <- !app_assoc. reflexivity.
Qed.

Lemma split_fold_rtl_rev (text : list Z) (hi : Z) (ms : list mtch) :
  rev (split_fold_rtl text hi ms) = sfb (fun m => rev (group_texts text m)) text 0 hi (rev ms).
Proof.
  revert hi. induction ms as [|m ms IH]; intros hi; cbn [split_fold_rtl rev sfb].
  - rewrite zslice_from_0. reflexivity.
  - rewrite sfb_snoc. rewrite <- IH. rewrite rev_app_distr. rewrite <- app_assoc. reflexivity.
Qed.

Definition isnil {A} (l : list A) : bool := match l with [] => true | _ => false end.

Lemma split_loop_ltr (text : list Z) :
  forall (ms : list mtch) (count prior : Z) (first : bool) (ret : list (list Z)),
    0 <= prior -> ord_asc prior (zlen text) ms -> Forall (wf_match (zlen text)) ms ->
    exists body prior',
      split_loop false text ms count prior first ret = Ok (ret ++ body, prior', first && isnil (zfirstn count ms)) /\
      prior <= prior' /\ prior' <= zlen text /\
      body ++ [zslice text prior' (zlen text)] = sfb (group_texts text) text prior (zlen text) (zfirstn count ms).
Proof.
  induction ms as [|m ms IH]; intros count prior first ret Hp Ho HF.
  - exists [], prior. cbn [split_loop zfirstn isnil sfb ord_asc] in *. rewrite app_nil_r, andb_true_r.
    repeat split; try lia; try reflexivity.
  - cbn [split_loop]. destruct (count <=? 0) eqn:Ec.
    + exists [], prior. rewrite zfirstn_nonpos by lia. cbn [isnil sfb]. rewrite app_nil_r, andb_true_r.
      pose proof (ord_asc_le _ _ _ Ho). repeat split; try lia; try reflexivity.
    + inversion HF as [|? ? Hm HF']; subst. cbn [ord_asc] in Ho. destruct Ho as (Ho1 & Ho2 & Ho3).
      pose proof (ord_asc_le _ _ _ Ho3) as Hle.
      cbn [andb]. rewrite slice_expr_ok by lia. cbn [bind].
      rewrite group_strings_ok by assumption. cbn [bind].
      destruct (IH (count - 1) (m_index m + m_length m) false
                   (ret ++ zslice text prior (m_index m) :: group_texts text m)) as (body & p' & HX & H1 & H2 & HE);
        try assumption; try lia.
      exists (zslice text prior (m_index m) :: group_texts text m ++ body), p'.
      rewrite HX. rewrite zfirstn_cons by lia. cbn [isnil sfb andb]. rewrite andb_false_r.
      rewrite <- HE. rewrite <- !app_assoc. cbn [app]. rewrite <- !app_assoc. repeat split; try lia; try reflexivity.
Qed.

Lemma split_loop_rtl (text : list Z) :
  forall (ms : list mtch) (count prior : Z) (first : bool) (ret : list (list Z)),
    let eff := if first then zlen text else prior in
    0 <= eff -> eff <= zlen text -> ordered_rtl eff ms -> Forall (wf_match (zlen text)) ms ->
    exists body prior' first',
      split_loop true text ms count prior first ret = Ok (ret ++ body, prior', first') /\
      first' = first && isnil (zfirstn count ms) /\
      let eff' := if first' then zlen text else prior' in
      0 <= eff' /\ eff' <= eff /\
      body ++ [zslice text 0 eff'] = split_fold_rtl text eff (zfirstn count ms).
Proof.
  induction ms as [|m ms IH]; intros count prior first ret eff H0 Hp Ho HF.
  - exists [], prior, first. cbn [split_loop zfirstn isnil split_fold_rtl]. rewrite app_nil_r, andb_true_r.
    fold eff. rewrite zslice_from_0. repeat split; try lia; try reflexivity.
  - cbn [split_loop]. destruct (count <=? 0) eqn:Ec.
    + exists [], prior, first. rewrite zfirstn_nonpos by lia. cbn [isnil split_fold_rtl]. rewrite app_nil_r, andb_true_r.
      fold eff. rewrite zslice_from_0. repeat split; try lia; try reflexivity.
    + inversion HF as [|? ? Hm HF']; subst. pose proof Hm as (Hi & Hl & Hb & _).
      cbn [ordered_rtl] in Ho. destruct Ho as (Ho1 & Ho2).
      cbn [andb]. fold eff. rewrite slice_expr_ok by lia. cbn [bind].
      rewrite group_strings_ok by assumption. cbn [bind].
      destruct (IH (count - 1) (m_index m) false
                   (ret ++ zslice text (m_index m + m_length m) eff :: group_texts text m))
        as (body & p' & f' & HX & Hf & H1 & H2 & HE); try assumption; try lia.
      rewrite Hf in *. cbn [andb] in *.
      exists (zslice text (m_index m + m_length m) eff :: group_texts text m ++ body), p', false.
      rewrite HX. rewrite zfirstn_cons by lia. cbn [isnil split_fold_rtl]. rewrite andb_false_r.
      rewrite <- HE. rewrite <- !app_assoc. cbn [app]. rewrite <- !app_assoc. repeat split; try lia; try reflexivity.
Qed.

Lemma split_processed_eq (count : Z) (ms : list mtch) :
  -1 <= count -> count <> 0 -> count <> 1 ->
  split_processed count ms = zfirstn (if count =? -1 then maxint else count) ms.
Proof.
  intros. unfold split_processed. destruct (count =? -1) eqn:E; [reflexivity|].
  destruct (count <=? 1) eqn:E1; [lia|reflexivity].
Qed.

Lemma split_processed_wf (rtl : bool) (text : list Z) (count : Z) (ms : list mtch) :
  wf_matches rtl text ms -> wf_matches rtl text (split_processed count ms).
Proof.
  intros (HF & Ho). unfold split_processed.
  assert (forall n, wf_matches rtl text (zfirstn n ms)) as Hz.
  { intros n. split; [apply Forall_zfirstn; exact HF|].
    destruct rtl; [apply ordered_rtl_zfirstn|apply ordered_ltr_zfirstn]; exact Ho. }
  destruct (count =? -1); [apply Hz|]. destruct (count <=? 1); [|apply Hz].
  split; [constructor|]. destruct rtl; cbn; [|lia]. exact I.
Qed.

Lemma isnil_zfirstn_pos {A} (n : Z) (l : list A) : 0 < n -> isnil (zfirstn n l) = isnil l.
Proof. intros H. destruct l; [reflexivity|]. rewrite zfirstn_cons by lia. reflexivity. Qed.

Lemma split_spec_eq (rtl : bool) (tw : list (Z * Z)) (count : Z) (ms : list mtch) :
  -1 <= count -> wf_matches rtl (runes_of tw) ms ->
  split rtl tw count ms = Ok (split_spec rtl ms count (runes_of tw)).
Proof.
  intros Hc Hwf. set (text := runes_of tw) in *. pose proof (zlen_nonneg text) as HL.
  unfold split, split_spec. fold text.
  destruct (count <? -1) eqn:E1; [lia|]. destruct (count =? 0) eqn:E0; [reflexivity|].
  destruct (count =? 1) eqn:E2.
  { replace count with 1 by lia. unfold split_processed. cbn [Z.eqb Z.leb Z.compare Pos.compare Pos.compare_cont].
    destruct rtl; cbn [split_fold split_fold_rtl rev app].
    - unfold zlen. rewrite Nat2Z.id, firstn_all. reflexivity.
    - reflexivity. }
  rewrite split_processed_eq by lia.
  set (cnt := if count =? -1 then maxint else count).
  assert (0 < cnt) as Hcnt by (subst cnt; destruct (count =? -1) eqn:E; [reflexivity|lia]).
  destruct Hwf as (HF & Ho). destruct rtl.
  - destruct (split_loop_rtl text ms cnt 0 true [] HL (Z.le_refl _) Ho HF)
      as (body & p' & f' & -> & Hf & H1 & H2 & HE).
    cbn [bind app]. cbn [andb] in Hf. rewrite isnil_zfirstn_pos in Hf by assumption. subst f'.
    destruct ms as [|m ms]; cbn [isnil] in *.
    + cbn [zfirstn split_fold_rtl rev app]. unfold zlen. rewrite Nat2Z.id, firstn_all. reflexivity.
    + rewrite slice_expr_ok by lia. cbn [bind]. rewrite HE. reflexivity.
  - assert (ord_asc 0 (zlen text) ms) as Ha by (eapply ordered_ltr_asc; eauto).
    destruct (split_loop_ltr text ms cnt 0 true [] (Z.le_refl 0) Ha HF) as (body & p' & -> & H1 & H2 & HE).
    cbn [bind app andb]. rewrite isnil_zfirstn_pos by assumption. rewrite split_fold_sfb.
    destruct ms as [|m ms]; cbn [isnil].
    + cbn [zfirstn sfb]. rewrite zslice_full. reflexivity.
    + rewrite slice_expr_ok by lia. cbn [bind]. rewrite HE. reflexivity.
Qed.

(* Split's count < -1 *)
Lemma split_count_too_small (rtl : bool) (tw : list (Z * Z)) (count : Z) (ms : list mtch) :
  count < -1 -> split rtl tw count ms = Err E_CountTooSmall.
Proof. intros H. unfold split. destruct (count <? -1) eqn:E; [reflexivity|lia]. Qed.

(* count = -1 processes every match (a slice cannot hold more than MaxInt elements) *)
Lemma split_processed_all (ms : list mtch) : zlen ms <= maxint -> split_processed (-1) ms = ms.
Proof. intros H. unfold split_processed. cbn [Z.eqb Pos.eqb]. apply zfirstn_all. exact H. Qed.

(* --- re-joining --- *)
Lemma every_kth_go_skip {A} (k j : nat) (l1 l2 : list A) :
  length l1 = j -> every_kth_go k j (l1 ++ l2) = every_kth_go k 0 l2.
Proof.
  revert j. induction l1 as [|x l1 IH]; intros j H; cbn [length] in H; subst j; [reflexivity|].
  cbn [app every_kth_go]. apply IH. reflexivity.
Qed.

Lemma sfb_rejoin (gt : mtch -> list (list Z)) (text : list Z) (k : nat) :
  forall (ms : list mtch) (lo hi : Z),
    (forall m, In m ms -> length (gt m) = k) -> 0 <= lo -> ord_asc lo hi ms ->
    interleave (every_kth k (sfb gt text lo hi ms)) (map (matched_text text) ms) = zslice text lo hi.
Proof.
  induction ms as [|m ms IH]; intros lo hi Hk H0 Ho; cbn [sfb map ord_asc] in *.
  - cbn. rewrite app_nil_r. reflexivity.
  - destruct Ho as (H1 & H2 & H3). pose proof (ord_asc_le _ _ _ H3) as Hle.
    unfold every_kth. cbn [every_kth_go]. rewrite every_kth_go_skip by (apply Hk; left; reflexivity).
    cbn [interleave]. fold (every_kth k (sfb gt text (m_index m + m_length m) hi ms)).
    rewrite IH; try assumption; try lia.
    + unfold matched_text. rewrite zslice_app by lia. rewrite zslice_app by lia. reflexivity.
    + intros; apply Hk; right; assumption.
Qed.

Lemma split_rejoin (rtl : bool) (ms : list mtch) (count : Z) (text : list Z) (k : nat) :
  count <> 0 -> wf_matches rtl text ms ->
  Forall (fun m => length (m_groups m) = S k) ms ->
  interleave (every_kth k (split_spec rtl ms count text))
             (map (matched_text text) (text_order rtl (split_processed count ms))) = text.
Proof.
  intros Hc Hwf Hk. unfold split_spec. destruct (count =? 0) eqn:E0; [lia|].
  pose proof (split_processed_wf rtl text count ms Hwf) as Hp.
  pose proof (wf_matches_asc _ _ _ Hp) as Ha.
  assert (forall m, In m (split_processed count ms) -> length (tl (m_groups m)) = k) as Hlen.
  { intros m Hin. assert (In m ms) as Hin'.
    { revert Hin. unfold split_processed. destruct (count =? -1); [apply In_zfirstn|].
      destruct (count <=? 1); [intros []|apply In_zfirstn]. }
    pose proof (Forall_In _ _ _ Hk Hin') as Hl. cbv beta in Hl.
    destruct (m_groups m); cbn [length tl] in *; lia. }
  destruct rtl; cbn [text_order] in *.
  - rewrite split_fold_rtl_rev. rewrite sfb_rejoin; try assumption; try lia.
    + apply zslice_full.
    + intros m Hin. rewrite <- in_rev in Hin. rewrite rev_length. unfold group_texts. rewrite map_length.
      apply Hlen. exact Hin.
  - rewrite split_fold_sfb. rewrite sfb_rejoin; try assumption; try lia.
    + apply zslice_full.
    + intros m Hin. unfold group_texts. rewrite map_length. apply Hlen. exact Hin.
Qed.
