(* C04, part 5: what the analyses of Model/Analysis2.v need from the character-class model (C16):
   membership of the classes they build (addChar / addRanges / addSet on a mergeable accumulator, Copy)
   in terms of CharIn. *)
From Coq Require Import ZifyBool.
From Verif Require Import Base.Prelude Model.Tree Model.CharClass Model.Analysis2
     Proofs.CharClassRanges Proofs.CharClassProofs.

Section Cls.
Variable cat_in : Z -> Z -> bool.

(* a class on which CharIn is plain set algebra: canonical ranges at every level, bitmaps (if any) are the
   computed ones, the anything flag only together with [0, MaxRune], ranges inside 0..MaxRune *)
Definition gcls (c : cls) : Prop :=
  canonical c /\ bitmaps_ok cat_in c /\ any_inv c /\ wf_ranges (ranges c).

(* an accumulator built by the analyses: never carries a bitmap of its own *)
Definition acc_ok (c : cls) : Prop := gcls c /\ ascii c = None.

Definition cmem (c : cls) (x : Z) : bool := char_in cat_in c x.

Lemma a2_cmem_plain c x : gcls c -> cmem c x = plain_in cat_in c x.
Proof. intros (Hc & Hb & _). unfold cmem. apply (lookup_paths_agree cat_in c x Hc Hb). Qed.

Lemma a2_mergeable_inv c : is_mergeable c = true -> neg c = false /\ sub c = None.
Proof.
  unfold is_mergeable, no_sub. intros H. apply andb_true_iff in H. destruct H as [H1 H2].
  split; [destruct (neg c); [discriminate|reflexivity]|destruct (sub c); [discriminate|reflexivity]].
Qed.

Lemma a2_mergeable_plain c x : is_mergeable c = true -> plain_in cat_in c x = body cat_in c x.
Proof.
  intros H. destruct (a2_mergeable_inv c H) as [Hn Hs].
  rewrite plain_in_top, top_in_body. unfold sub_in. rewrite Hn, Hs. destruct (body cat_in c x); reflexivity.
Qed.

Lemma a2_empty_acc : acc_ok empty_cls.
Proof.
  unfold acc_ok, gcls, empty_cls. cbn. repeat split; auto.
  - intros H. discriminate H.
  - constructor.
Qed.

Lemma a2_empty_mem x : cmem empty_cls x = false.
Proof. reflexivity. Qed.

(* a canonicalising mutator keeps the accumulator invariant *)
Lemma a2_mut_acc c c' : acc_ok c -> mut_ok c c' -> acc_ok c'.
Proof.
  intros [(Hc & Hb & Hi & Hw) Ha] (M1 & M2 & M3 & M4 & M5).
  destruct c as [rs cs sb ng an asc], c' as [rs' cs' sb' ng' an' asc'].
  cbn [sub ascii ranges] in *. subst sb' asc' asc.
  unfold acc_ok, gcls. cbn [canonical bitmaps_ok ranges ascii] in *.
  repeat split; try tauto.
Qed.

Lemma a2_mut_refl c : gcls c -> mut_ok c c.
Proof.
  intros (Hc & _ & Hi & Hw). unfold mut_ok. repeat split; auto.
  destruct c; cbn in Hc |- *. tauto.
Qed.

(* ---- addChar / addRange ---- *)
Lemma a2_add_range c lo hi :
  acc_ok c -> is_mergeable c = true -> 0 <= lo -> lo <= hi -> hi <= max_rune ->
  acc_ok (add_range cat_in c lo hi) /\
  forall x, valid_rune x -> cmem (add_range cat_in c lo hi) x = cmem c x || ((lo <=? x) && (x <=? hi)).
Proof.
  intros Ha Hm H0 H1 H2. pose proof Ha as [Hg Hasc]. pose proof Hg as (Hc & Hb & Hi & Hw).
  destruct (a2_mergeable_inv c Hm) as [Hn Hs].
  assert (Hok : acc_ok (add_range cat_in c lo hi)) by (eapply a2_mut_acc; [exact Ha|apply add_range_ok; auto]).
  split; [exact Hok|]. intros x Hx.
  rewrite (a2_cmem_plain _ x (proj1 Hok)), (a2_cmem_plain c x Hg).
  rewrite add_range_union by auto. rewrite (a2_mergeable_plain c x Hm).
  unfold sub_in. rewrite Hs. rewrite andb_true_r. reflexivity.
Qed.

Lemma a2_add_char c ch :
  acc_ok c -> is_mergeable c = true -> 0 <= ch <= max_rune ->
  acc_ok (add_char cat_in c ch) /\
  forall x, valid_rune x -> cmem (add_char cat_in c ch) x = cmem c x || (x =? ch).
Proof.
  intros Ha Hm Hch. unfold add_char. destruct (a2_add_range c ch ch Ha Hm) as [Hok Hmem]; try lia.
  split; [exact Hok|]. intros x Hx. rewrite Hmem by exact Hx. f_equal. lia.
Qed.

(* ---- addRanges ---- *)
Lemma a2_add_ranges c rs :
  acc_ok c -> is_mergeable c = true -> wf_ranges rs ->
  acc_ok (add_ranges cat_in c rs) /\
  forall x, valid_rune x -> cmem (add_ranges cat_in c rs) x = cmem c x || mem rs x.
Proof.
  intros Ha Hm Hr. pose proof Ha as [Hg Hasc]. pose proof Hg as (Hc & Hb & Hi & Hw).
  destruct (a2_mergeable_inv c Hm) as [Hn Hs].
  assert (Hcr : canonical_ranges (ranges c)) by (destruct c; cbn in Hc |- *; tauto).
  pose proof (add_ranges_ok cat_in c rs Hi Hw Hcr Hr) as Hmut.
  assert (Hok : acc_ok (add_ranges cat_in c rs)) by (eapply a2_mut_acc; eassumption).
  split; [exact Hok|]. intros x Hx.
  rewrite (a2_cmem_plain _ x (proj1 Hok)), (a2_cmem_plain c x Hg).
  rewrite plain_in_top, add_ranges_top by auto. rewrite (a2_mergeable_plain c x Hm).
  destruct Hmut as (M1 & _). unfold sub_in. rewrite M1, Hs, Hn. rewrite andb_true_r. apply xorb_false_l.
Qed.

(* ---- addSet ---- *)
Lemma a2_add_set_mut c s : gcls c -> wf_ranges (ranges s) -> mut_ok c (add_set cat_in c s).
Proof.
  intros Hg Hws. pose proof Hg as (Hc & Hb & Hi & Hw). unfold add_set.
  destruct (anything c) eqn:Ea; [apply a2_mut_refl; exact Hg|].
  destruct (anything s) eqn:Eas.
  - destruct (make_anything_shape c) as (A & B & C & D). unfold mut_ok.
    split; [exact A|]. split; [exact B|]. split; [exact C|]. split; [exact D|].
    intros _. reflexivity.
  - set (c1 := set_ranges c (ranges c ++ ranges s)).
    destruct (add_categories_shape cat_in c1 (cats s)) as (A & B & C & D & E).
    assert (Hw1 : wf_ranges (ranges c1)) by (cbn [ranges set_ranges c1]; apply wf_ranges_app; auto).
    assert (Hi1 : any_inv c1) by (intros Hx; cbn in Hx; congruence).
    destruct (canonicalize_mut_ok cat_in (add_categories c1 (cats s)) (D Hw1) (any_inv_sem cat_in _ (E Hi1)))
      as (M1 & M2 & M3 & M4 & M5).
    unfold mut_ok. rewrite M1, M2, A, B. cbn [sub ascii set_ranges c1].
    split; [reflexivity|]. split; [reflexivity|]. split; [exact M3|]. split; [exact M4|exact M5].
Qed.

Lemma a2_add_set c s :
  acc_ok c -> is_mergeable c = true -> gcls s -> is_mergeable s = true ->
  acc_ok (add_set cat_in c s) /\
  forall x, valid_rune x -> cmem (add_set cat_in c s) x = cmem c x || cmem s x.
Proof.
  intros Ha Hm Hgs Hms. pose proof Ha as [Hg Hasc]. pose proof Hg as (Hc & Hb & Hi & Hw).
  pose proof Hgs as (Hcs & Hbs & His & Hws).
  destruct (a2_mergeable_inv c Hm) as [Hn Hs].
  assert (Hok : acc_ok (add_set cat_in c s)) by (eapply a2_mut_acc; [exact Ha|apply a2_add_set_mut; auto]).
  split; [exact Hok|]. intros x Hx.
  rewrite (a2_cmem_plain _ x (proj1 Hok)), (a2_cmem_plain c x Hg), (a2_cmem_plain s x Hgs).
  rewrite add_set_union by auto.
  rewrite (a2_mergeable_plain c x Hm), (a2_mergeable_plain s x Hms).
  unfold sub_in. rewrite Hs. rewrite andb_true_r. reflexivity.
Qed.

(* ---- Copy ---- *)
Lemma a2_copy_plain : forall c x, plain_in cat_in (cls_copy c) x = plain_in cat_in c x.
Proof.
  induction c using cls_induction; intros x; cbn [cls_copy plain_in]; [reflexivity|].
  rewrite IHc. reflexivity.
Qed.

Lemma a2_copy_canonical : forall c, canonical c -> canonical (cls_copy c).
Proof.
  induction c using cls_induction; cbn [cls_copy canonical]; [tauto|].
  intros [H1 H2]. split; [exact H1|apply IHc; exact H2].
Qed.

Lemma a2_copy_bitmaps : forall c, bitmaps_ok cat_in (cls_copy c).
Proof.
  induction c using cls_induction; cbn [cls_copy bitmaps_ok]; [tauto|]. split; [exact I|exact IHc].
Qed.

Lemma a2_copy_acc c : gcls c -> acc_ok (cls_copy c).
Proof.
  intros (Hc & Hb & Hi & Hw). unfold acc_ok, gcls. split; [|destruct c; reflexivity].
  split; [apply a2_copy_canonical; exact Hc|]. split; [apply a2_copy_bitmaps|].
  destruct c as [rs cs sb ng an asc]. cbn [cls_copy ranges] in *. split; [|exact Hw].
  unfold any_inv in *. cbn [anything ranges] in *. exact Hi.
Qed.

Lemma a2_copy_mem c x : gcls c -> cmem (cls_copy c) x = cmem c x.
Proof.
  intros Hg. rewrite (a2_cmem_plain _ x (proj1 (a2_copy_acc c Hg))), (a2_cmem_plain c x Hg).
  apply a2_copy_plain.
Qed.

Lemma a2_copy_mergeable c : is_mergeable (cls_copy c) = is_mergeable c.
Proof. destruct c as [rs cs [s|] ng an asc]; reflexivity. Qed.

Lemma a2_copy_anything c : anything (cls_copy c) = anything c.
Proof. destruct c; reflexivity. Qed.

Lemma a2_sorted_b p rs : sorted_b p rs = true -> sorted_from p rs.
Proof.
  revert p. induction rs as [|[a b] t IH]; intros p H; cbn [sorted_b sorted_from] in *; [exact I|].
  apply andb_true_iff in H. destruct H as [H H3]. apply andb_true_iff in H. destruct H as [H1 H2].
  split; [lia|]. split; [lia|]. apply IH. exact H3.
Qed.

Lemma a2_canon_b : forall c, canon_b c = true -> canonical c /\ bitmaps_ok cat_in c.
Proof.
  induction c using cls_induction; cbn [canon_b canonical bitmaps_ok]; intros H.
  - apply andb_true_iff in H. destruct H as [H _]. apply andb_true_iff in H. destruct H as [H1 H2].
    destruct asc; [discriminate H2|]. split; [|tauto]. split; [|exact I].
    destruct rs as [|[a b] t]; cbn [canon_ranges_b canonical_ranges] in *; [exact I|].
    apply andb_true_iff in H1. destruct H1 as [Ha Hb]. split; [lia|apply a2_sorted_b; exact Hb].
  - apply andb_true_iff in H. destruct H as [H H3]. apply andb_true_iff in H. destruct H as [H1 H2].
    destruct asc; [discriminate H2|]. destruct (IHc H3) as [I1 I2]. split; [|tauto]. split; [|exact I1].
    destruct rs as [|[a b] t]; cbn [canon_ranges_b canonical_ranges] in *; [exact I|].
    apply andb_true_iff in H1. destruct H1 as [Ha Hb]. split; [lia|apply a2_sorted_b; exact Hb].
Qed.

Lemma a2_cls_good_b c : cls_good_b c = true -> gcls c.
Proof.
  unfold cls_good_b. intros H. apply andb_true_iff in H. destruct H as [H H3].
  apply andb_true_iff in H. destruct H as [H1 H2]. destruct (a2_canon_b c H1) as [Hc Hb].
  split; [exact Hc|]. split; [exact Hb|]. split.
  - intros Ha. rewrite Ha in H2. destruct (ranges c) as [|[a b] [|r t]]; try discriminate H2.
    unfold MAXR in H2. unfold max_rune. f_equal. f_equal; lia.
  - unfold wf_ranges. rewrite Forall_forall. rewrite forallb_forall in H3. intros r Hr. specialize (H3 r Hr).
    unfold wf_range, MAXR, max_rune in *. lia.
Qed.

End Cls.
