(* C12, part A: the outcome of a match computation does not depend on the (stale) lengths of the track and
   grouping stacks of the runner it happens to run on (ensureStorage / growTrack, runner.go:982-1088). *)
From Verif Require Import Base.Prelude Model.Pool.

Ltac bdestr1 :=
  match goal with
  | |- context [?a <? ?b] => destruct (Z.ltb_spec a b)
  | |- context [?a <=? ?b] => destruct (Z.leb_spec a b)
  | |- context [?a =? ?b] => destruct (Z.eqb_spec a b)
  | H : context [?a <? ?b] |- _ => destruct (Z.ltb_spec a b)
  | H : context [?a <=? ?b] |- _ => destruct (Z.leb_spec a b)
  | H : context [?a =? ?b] |- _ => destruct (Z.eqb_spec a b)
  end.
Ltac bdestr := repeat (bdestr1; cbn [andb orb negb] in * ).

(* lengths a track / grouping stack can have in any runner of a Regexp with this limit and TrackCount *)
Definition track_len_ok (limit tc tl : Z) : Prop := init_tracksize limit tc <= tl /\ (limit < 0 \/ tl <= limit).
Definition stack_len_ok (tc sl : Z) : Prop := init_stacksize tc <= sl.

Lemma init_track_ok : forall limit tc, track_len_ok limit tc (init_tracksize limit tc).
Proof. intros; unfold track_len_ok, init_tracksize; cbn zeta; bdestr; lia. Qed.
Lemma init_stack_ok : forall tc, stack_len_ok tc (init_stacksize tc).
Proof. intros; unfold stack_len_ok; lia. Qed.
Lemma init_stack_pos : forall tc, 32 <= init_stacksize tc /\ tc * 8 <= init_stacksize tc.
Proof. intros; unfold init_stacksize; bdestr; lia. Qed.

Lemma grow_track_ok : forall limit tc tl tl1, track_len_ok limit tc tl -> grow_track limit tl = Some tl1 ->
  track_len_ok limit tc tl1 /\ tl < tl1.
Proof.
  unfold track_len_ok, grow_track, init_tracksize; intros limit tc tl tl1 [H1 H2] H.
  cbn zeta in *; bdestr; inversion H; subst; lia.
Qed.

(* the capacity conditions interpreter traces satisfy (C13's capacity lemma, assumed here): a check happens at a
   depth reached before, and at most 4*TrackCount slots are pushed before the next check *)
Fixpoint segs_wf (tc d0 s0 : Z) (segs : list seg) : Prop :=
  match segs with
  | [] => True
  | s :: rest =>
    0 <= sg_td s <= d0 /\ sg_td s <= sg_tmax s <= sg_td s + tc * 4 /\
    0 <= sg_sd s <= s0 /\ sg_sd s <= sg_smax s <= sg_sd s + tc * 4 /\
    segs_wf tc (sg_tmax s) (sg_smax s) rest
  end.

(* what the stacks' capacity does to a computation, stated without any capacity: refuse at the first check
   deeper than limit - 4*tc *)
Fixpoint ideal_status (limit tc : Z) (segs : list seg) : seg_status :=
  match segs with
  | [] => SegOk
  | s :: rest => if (0 <=? limit) && (limit - tc * 4 <? sg_td s) then SegErr else ideal_status limit tc rest
  end.

Lemma ensure_storage_spec : forall limit tc tl sl d sd,
  0 <= tc -> track_len_ok limit tc tl -> stack_len_ok tc sl -> 0 <= d <= tl -> 0 <= sd <= sl ->
  match ensure_storage limit tc tl sl d sd with
  | (tl1, sl1, ok) =>
    track_len_ok limit tc tl1 /\ stack_len_ok tc sl1 /\ tl <= tl1 /\ sl <= sl1 /\
    ok = negb ((0 <=? limit) && (limit - tc * 4 <? d)) /\
    (ok = true -> tc * 4 <= tl1 - d /\ tc * 4 <= sl1 - sd)
  end.
Proof.
  intros limit tc tl sl d sd Htc [Ht1 Ht2] Hs Hd Hsd.
  pose proof (init_stack_pos tc) as [Hp1 Hp2].
  unfold stack_len_ok in Hs.
  unfold ensure_storage, grow_track, track_len_ok, stack_len_ok, init_tracksize in *.
  cbn zeta in *. bdestr; repeat split; try lia; try discriminate; intros; try lia.
Qed.

(* lengths stay legal whatever the trace does (needed even when the hypothesis on traces fails) *)
Lemma ensure_storage_lens : forall limit tc tl sl d sd,
  track_len_ok limit tc tl -> stack_len_ok tc sl ->
  match ensure_storage limit tc tl sl d sd with
  | (tl1, sl1, _) => track_len_ok limit tc tl1 /\ stack_len_ok tc sl1
  end.
Proof.
  intros limit tc tl sl d sd Ht Hs.
  pose proof (init_stack_pos tc) as [Hp1 Hp2].
  unfold ensure_storage.
  assert (Hs1 : stack_len_ok tc (if sl - sd <? tc * 4 then sl * 2 else sl)).
  { unfold stack_len_ok in *. bdestr; lia. }
  destruct (tl - d <? tc * 4); [|auto].
  destruct (grow_track limit tl) as [tl1|] eqn:G; [|auto].
  destruct (grow_track_ok _ _ _ _ Ht G) as [Hok _].
  destruct (tl1 - d <? tc * 4); auto.
Qed.

Lemma run_segs_lens : forall limit tc segs tl sl,
  track_len_ok limit tc tl -> stack_len_ok tc sl ->
  match run_segs limit tc tl sl segs with
  | (tl1, sl1, _) => track_len_ok limit tc tl1 /\ stack_len_ok tc sl1
  end.
Proof.
  induction segs as [|s rest IH]; intros tl sl Ht Hs; cbn [run_segs]; [auto|].
  pose proof (ensure_storage_lens limit tc tl sl (sg_td s) (sg_sd s) Ht Hs) as H.
  destruct (ensure_storage limit tc tl sl (sg_td s) (sg_sd s)) as [[tl1 sl1] ok].
  destruct H as [H1 H2].
  destruct (negb ok); [auto|].
  destruct ((tl1 <? sg_tmax s) || (sl1 <? sg_smax s)); [auto|].
  apply IH; auto.
Qed.

(* main lemma: on well-formed traces the status is the capacity-free one, for EVERY legal pair of lengths *)
Lemma run_segs_ideal : forall limit tc segs tl sl d0 s0,
  0 <= tc -> track_len_ok limit tc tl -> stack_len_ok tc sl -> d0 <= tl -> s0 <= sl ->
  segs_wf tc d0 s0 segs ->
  snd (run_segs limit tc tl sl segs) = ideal_status limit tc segs.
Proof.
  induction segs as [|s rest IH]; intros tl sl d0 s0 Htc Ht Hs Hd Hs0 Hwf; cbn [run_segs ideal_status]; [reflexivity|].
  destruct Hwf as (W1 & W2 & W3 & W4 & W5).
  pose proof (ensure_storage_spec limit tc tl sl (sg_td s) (sg_sd s) Htc Ht Hs ltac:(lia) ltac:(lia)) as H.
  destruct (ensure_storage limit tc tl sl (sg_td s) (sg_sd s)) as [[tl1 sl1] ok].
  destruct H as (H1 & H2 & H3 & H4 & H5 & H6).
  rewrite H5. rewrite Bool.negb_involutive.
  destruct ((0 <=? limit) && (limit - tc * 4 <? sg_td s)) eqn:B; [reflexivity|].
  subst ok. specialize (H6 eq_refl). destruct H6 as [H6 H7].
  replace ((tl1 <? sg_tmax s) || (sl1 <? sg_smax s)) with false.
  2:{ symmetry. apply Bool.orb_false_iff. split; apply Z.ltb_ge; lia. }
  apply (IH tl1 sl1 (sg_tmax s) (sg_smax s)); auto; lia.
Qed.

Corollary run_segs_independent : forall limit tc segs tl1 sl1 tl2 sl2,
  0 <= tc -> track_len_ok limit tc tl1 -> stack_len_ok tc sl1 -> track_len_ok limit tc tl2 -> stack_len_ok tc sl2 ->
  segs_wf tc 0 0 segs ->
  snd (run_segs limit tc tl1 sl1 segs) = snd (run_segs limit tc tl2 sl2 segs).
Proof.
  intros limit tc segs tl1 sl1 tl2 sl2 Htc A1 A2 B1 B2 W.
  assert (P : forall tl, track_len_ok limit tc tl -> 0 <= tl).
  { unfold track_len_ok, init_tracksize. cbn zeta. intros tl [X Y]. bdestr; lia. }
  assert (Q : forall sl, stack_len_ok tc sl -> 0 <= sl).
  { unfold stack_len_ok. intros sl X. pose proof (init_stack_pos tc). lia. }
  rewrite (run_segs_ideal limit tc segs tl1 sl1 0 0); auto.
  rewrite (run_segs_ideal limit tc segs tl2 sl2 0 0); auto.
Qed.

(* the repaired defect (runner.go before 0ad14dc accepted a capped growth that left < 4*tc free): with the
   old ensureStorage the same trace gave Ok on a fresh runner and Err on a runner whose track had already
   reached the limit.  Kept as an executable witness that [run_segs_independent] is not vacuous. *)
Definition ensure_storage_old (limit tc tl sl d sd : Z) : Z * Z * bool :=
  let sl1 := if sl - sd <? tc * 4 then sl * 2 else sl in
  if tl - d <? tc * 4 then
    match grow_track limit tl with
    | None => (tl, sl1, false)
    | Some tl1 => (tl1, sl1, true)
    end
  else (tl, sl1, true).

Example old_ensure_storage_was_history_dependent :
  let limit := 65 in let tc := 2 in
  snd (ensure_storage_old limit tc 64 32 60 0) = true /\      (* fresh runner: 64 -> 65, accepted with 5 free *)
  snd (ensure_storage_old limit tc 65 32 60 0) = false /\     (* recycled runner already at the limit *)
  snd (ensure_storage limit tc 64 32 60 0) = false /\
  snd (ensure_storage limit tc 65 32 60 0) = false.
Proof. vm_compute. repeat split. Qed.
