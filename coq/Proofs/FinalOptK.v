(* C05, proofs part 2: "same first result under a continuation".
   K : st -> list st stands for what follows a node up to the end of the enclosing atomic scope (the results
   of the rest from a state).  [HK K t t'] : from every state, t followed by K and t' followed by K have the
   same FIRST result.  HK is a congruence for every constructor, with the continuation of a child written
   out (kseq, kcap, identity inside Atomic / lookarounds / conditions, any continuation inside a loop). *)
From Verif Require Import Base.Prelude Model.Tree Model.Spec Model.Rewrite
  Proofs.SpecProofs Proofs.SpecBoundsProofs Proofs.SpecTermProofs Proofs.RewriteProofs Proofs.FinalOptDen.
From Coq Require Import ZifyBool.

Definition hq {A} (a b : list A) : Prop := hd_list a = hd_list b.

Lemma hq_refl {A} (a : list A) : hq a a.
Proof. reflexivity. Qed.
Lemma hq_sym {A} (a b : list A) : hq a b -> hq b a.
Proof. unfold hq. congruence. Qed.
Lemma hq_trans {A} (a b c : list A) : hq a b -> hq b c -> hq a c.
Proof. unfold hq. congruence. Qed.
Lemma hq_nil {A} (a b : list A) : hq a b -> a = [] -> b = [].
Proof. unfold hq. intros H ->. destruct b; [reflexivity|discriminate]. Qed.
Lemma hq_nil_iff {A} (a b : list A) : hq a b -> (a = [] <-> b = []).
Proof. intros H. split; [apply hq_nil; exact H | apply hq_nil, hq_sym; exact H]. Qed.

Lemma hq_app {A} (a a' b b' : list A) : hq a a' -> hq b b' -> hq (a ++ b) (a' ++ b').
Proof.
  unfold hq. intros Ha Hb. destruct a as [|x a], a' as [|x' a']; cbn in *; try discriminate; auto.
Qed.

Lemma hq_flat_map {A B} (F F' : A -> list B) (l : list A) :
  (forall a, hq (F a) (F' a)) -> hq (flat_map F l) (flat_map F' l).
Proof.
  intros H. induction l as [|a l IH]; cbn [flat_map]; [reflexivity|]. apply hq_app; [apply H | exact IH].
Qed.

Lemma hq_flat_map_in {A B} (F F' : A -> list B) (l : list A) :
  (forall a, In a l -> hq (F a) (F' a)) -> hq (flat_map F l) (flat_map F' l).
Proof.
  intros H. induction l as [|a l IH]; cbn [flat_map]; [reflexivity|].
  apply hq_app; [apply H; left; reflexivity | apply IH; intros b Hb; apply H; right; exact Hb].
Qed.

Lemma flat_map_single {A} (l : list A) : flat_map (fun a => [a]) l = l.
Proof. induction l as [|a l IH]; cbn; [reflexivity|]. rewrite IH. reflexivity. Qed.

Section K.
Variable e : env.
Notation den := (den e).
Notation den_seq := (den_seq e).
Notation sok := (st_ok e).

(* states stay inside the text: every statement below is about such states *)
Definition okl (l : list st) : Prop := Forall sok l.
Definition okp (t : node) : Prop := forall s, sok s -> okl (den t s).
Definition okps (l : list node) : Prop := forall s, sok s -> okl (den_seq l s).

Lemma okp_lmo t : loops_min_ok t -> okp t.
Proof.
  intros H s Hs. destruct (fd_den_evals e t s) as [f Hf]. exact (sb_sem_in_bounds e f t s _ H Hf Hs).
Qed.

Lemma okl_flat_map (F : st -> list st) l : okl l -> (forall a, sok a -> okl (F a)) -> okl (flat_map F l).
Proof.
  intros Hl HF. induction Hl as [|a l Ha Hl IH]; cbn [flat_map]; [constructor|].
  apply Forall_app. split; [apply HF; exact Ha | exact IH].
Qed.

Lemma okps_nil : okps [].
Proof. intros s Hs. constructor; [exact Hs|constructor]. Qed.
Lemma okps_cons x l : okp x -> okps l -> okps (x :: l).
Proof. intros Hx Hl s Hs. cbn [FinalOptDen.den_seq]. apply okl_flat_map; [apply Hx; exact Hs | exact Hl]. Qed.
Lemma okps_all l : Forall okp l -> okps l.
Proof. induction 1; [apply okps_nil | apply okps_cons; assumption]. Qed.

Definition kont := st -> list st.
Definition kid : kont := fun s => [s].
(* what follows a child of a concatenation: its right siblings, then K *)
Definition kseq (l : list node) (K : kont) : kont := fun a => flat_map K (den_seq l a).
(* what follows the child of a capture that was entered at s0 *)
Definition kcap (g u : Z) (s0 : st) (K : kont) : kont := fun a => flat_map K (capture_close g u s0 a).
(* a node, then K *)
Definition kb (x : node) (K : kont) : kont := fun a => flat_map K (den x a).

Definition HKs (K : kont) (t t' : node) (s : st) : Prop := hq (flat_map K (den t s)) (flat_map K (den t' s)).
Definition HK (K : kont) (t t' : node) : Prop := forall s, sok s -> HKs K t t' s.

Lemma HK_refl K t : HK K t t.
Proof. intros s _. apply hq_refl. Qed.
Lemma HK_trans K a b c : HK K a b -> HK K b c -> HK K a c.
Proof. intros H1 H2 s Hs. eapply hq_trans; [apply H1|apply H2]; exact Hs. Qed.

Lemma HK_kid_den t t' : HK kid t t' -> forall s, sok s -> hd_list (den t s) = hd_list (den t' s).
Proof. intros H s Hs. specialize (H s Hs). unfold HKs, kid in H. rewrite !flat_map_single in H. exact H. Qed.

Lemma kseq_nil K a : kseq [] K a = K a.
Proof. unfold kseq. cbn. apply app_nil_r. Qed.
Lemma kseq_cons x l K a : kseq (x :: l) K a = kb x (kseq l K) a.
Proof. unfold kseq, kb. cbn [FinalOptDen.den_seq]. apply fd_flat_map_flat_map. Qed.

(* ---- congruences *)
Lemma HK_concat_at K o pre x x' post :
  okps pre -> HK (kseq post K) x x' -> HK K (NConcat o (pre ++ x :: post)) (NConcat o (pre ++ x' :: post)).
Proof.
  intros Hpre H s Hs. unfold HKs. rewrite !fd_den_concat, !fd_den_seq_app. cbn [FinalOptDen.den_seq].
  rewrite !fd_flat_map_flat_map. apply hq_flat_map_in. intros a Ha.
  rewrite !fd_flat_map_flat_map. apply H.
  specialize (Hpre s Hs). unfold okl in Hpre. rewrite Forall_forall in Hpre. apply Hpre. exact Ha.
Qed.

Lemma HK_alt_at K o pre x x' post :
  HK K x x' -> HK K (NAlternate o (pre ++ x :: post)) (NAlternate o (pre ++ x' :: post)).
Proof.
  intros H s Hs. unfold HKs. rewrite !fd_den_alt, !flat_map_app. cbn [flat_map]. rewrite !flat_map_app.
  apply hq_app; [apply hq_refl|]. apply hq_app; [apply H; exact Hs | apply hq_refl].
Qed.

Lemma HK_capture K o g u r r' :
  (forall s, sok s -> HKs (kcap g u s K) r r' s) -> HK K (NCapture o g u r) (NCapture o g u r').
Proof.
  intros H s Hs. unfold HKs. rewrite !fd_den_capture, !fd_flat_map_flat_map. exact (H s Hs).
Qed.

Lemma HK_group K r r' : HK K r r' -> HK K (NGroup r) (NGroup r').
Proof. intros H s Hs. unfold HKs. rewrite !fd_den_group. apply H. exact Hs. Qed.

Lemma HK_atomic K r r' : HK kid r r' -> HK K (NAtomic r) (NAtomic r').
Proof. intros H s Hs. unfold HKs. rewrite !fd_den_atomic, (HK_kid_den _ _ H s Hs). apply hq_refl. Qed.
Lemma HK_poslook K o r r' : HK kid r r' -> HK K (NPosLook o r) (NPosLook o r').
Proof. intros H s Hs. unfold HKs. rewrite !fd_den_poslook, (HK_kid_den _ _ H s Hs). apply hq_refl. Qed.
Lemma HK_neglook K o r r' : HK kid r r' -> HK K (NNegLook o r) (NNegLook o r').
Proof. intros H s Hs. unfold HKs. rewrite !fd_den_neglook, (HK_kid_den _ _ H s Hs). apply hq_refl. Qed.

Definition HK_opt (K : kont) (n n' : option node) : Prop :=
  match n, n' with
  | Some a, Some b => HK K a b
  | None, None => True
  | _, _ => False
  end.

Lemma HK_backref_cond K o g y y' n n' :
  HK K y y' -> HK_opt K n n' -> HK K (NBackRefCond o g y n) (NBackRefCond o g y' n').
Proof.
  intros Hy Hn s Hs. unfold HKs. rewrite !fd_den_backref_cond. destruct (is_matched g (caps s)); [apply Hy; exact Hs|].
  destruct n, n'; cbn in Hn; try contradiction; cbn [den_opt]; [apply Hn; exact Hs | apply hq_refl].
Qed.

Lemma sok_with_pos s s' : sok s -> sok s' -> sok (with_pos s' (pos s)).
Proof. intros [Hp _] [_ Hc]. split; cbn [with_pos pos caps]; assumption. Qed.

Lemma HK_expr_cond K o c c' y y' n n' :
  okp c -> HK kid c c' -> HK K y y' -> HK_opt K n n' -> HK K (NExprCond o c y n) (NExprCond o c' y' n').
Proof.
  intros Hok Hc Hy Hn s Hs. unfold HKs. rewrite !fd_den_expr_cond.
  pose proof (HK_kid_den _ _ Hc s Hs) as Hh. pose proof (Hok s Hs) as Hokc.
  destruct (den c s) as [|s1 l1], (den c' s) as [|s2 l2]; cbn in Hh; try discriminate.
  - destruct n, n'; cbn in Hn; try contradiction; cbn [den_opt]; [apply Hn; exact Hs | apply hq_refl].
  - injection Hh as ->. apply Hy. apply sok_with_pos; [exact Hs|]. inversion Hokc; assumption.
Qed.

(* ---- loops: the body is followed by "iterate again or leave", which is not one of the continuations above,
   so the body must be interchangeable under EVERY continuation *)
(* what follows one iteration of a loop whose later iterations run B': iterate again or leave, then K *)
Definition kiter (K : kont) (B' : st -> list st) (lazy : bool) (limit mark count : Z) : kont :=
  fun a => flat_map K (iterD B' lazy limit a mark count).

Lemma HK_iter (K : kont) (B B' : st -> list st) lazy limit :
  (forall s, sok s -> okl (B s)) ->
  (forall mark count s, sok s -> hq (flat_map (kiter K B' lazy limit mark count) (B s)) (flat_map (kiter K B' lazy limit mark count) (B' s))) ->
  forall n s mark count, iter_fuel limit count = n -> sok s ->
    hq (flat_map K (iterD B lazy limit s mark count)) (flat_map K (iterD B' lazy limit s mark count)).
Proof.
  intros HBok HB. induction n as [n IH] using lt_wf_ind. intros s mark count Hn Hs.
  rewrite !fd_iterD_eq.
  assert (Hag : (count < 0 \/ count < limit) ->
            hq (flat_map K (iter_again B lazy limit s count)) (flat_map K (iter_again B' lazy limit s count))).
  { intros Hc. unfold iter_again. rewrite !fd_flat_map_flat_map.
    eapply hq_trans.
    - apply hq_flat_map_in. intros a Ha. apply (IH (iter_fuel limit (count + 1))); [|reflexivity|].
      + subst n. unfold iter_fuel. lia.
      + specialize (HBok s Hs). unfold okl in HBok. rewrite Forall_forall in HBok. apply HBok. exact Ha.
    - apply (HB (pos s) (count + 1) s Hs). }
  destruct lazy.
  - destruct (count <? 0) eqn:Ec; [apply Hag; lia|].
    cbn [flat_map]. apply hq_app; [apply hq_refl|].
    destruct ((count <? limit) && negb (pos s =? mark)) eqn:E2; [apply Hag; lia | apply hq_refl].
  - destruct ((limit <=? count) || (pos s =? mark) && (0 <=? count)) eqn:E1; [apply hq_refl|].
    rewrite !flat_map_app. apply hq_app; [apply Hag; lia | apply hq_refl].
Qed.

(* the body may be replaced if it is interchangeable under the loop's own continuations *)
Lemma HK_loop_iter (K : kont) lazy o m n r r' :
  okp r ->
  (forall mark count, HK (kiter K (den r') lazy (loop_limit m n) mark count) r r') ->
  HK K (NLoop lazy o m n r) (NLoop lazy o m n r').
Proof.
  intros Hok H s Hs. unfold HKs. rewrite !fd_den_loop.
  assert (HB : forall mark count a, sok a ->
            hq (flat_map (kiter K (den r') lazy (loop_limit m n) mark count) (den r a))
               (flat_map (kiter K (den r') lazy (loop_limit m n) mark count) (den r' a))) by (intros mark count a Ha; apply H; exact Ha).
  destruct (m =? 0).
  - apply (HK_iter K _ _ lazy _ Hok HB _ _ _ _ eq_refl Hs).
  - rewrite !fd_flat_map_flat_map. eapply hq_trans.
    + apply hq_flat_map_in. intros a Ha. apply (HK_iter K _ _ lazy _ Hok HB _ _ _ _ eq_refl).
      specialize (Hok s Hs). unfold okl in Hok. rewrite Forall_forall in Hok. apply Hok. exact Ha.
    + apply (HB (pos s) (1 - m) s Hs).
Qed.

Lemma HK_loop (K : kont) lazy o m n r r' :
  okp r -> (forall F : kont, HK F r r') -> HK K (NLoop lazy o m n r) (NLoop lazy o m n r').
Proof. intros Hok H. apply HK_loop_iter; [exact Hok|]. intros mark count. apply H. Qed.

(* ---- properties of continuations *)
(* dead on a set of states / never failing *)
Definition KD (P : st -> Prop) (K : kont) : Prop := forall s, sok s -> P s -> K s = [].
Definition KT (K : kont) : Prop := forall s, sok s -> K s <> [].

Lemma KT_kid : KT kid.
Proof. intros s _. discriminate. Qed.

End K.
