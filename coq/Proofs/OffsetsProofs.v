(* Proofs about Model/Offsets.v: every rune->byte map of /repo denotes the prefix sums of the
   decode widths, for all byte strings / rune slices; slicing; group materialisation. *)
From Verif Require Import Base.Prelude Base.Utf8 Model.Offsets Proofs.Utf8Proofs.
From Coq Require Import ZifyBool.
Ltac Zify.zify_post_hook ::= Z.div_mod_to_equations.

(* ---------- specification vocabulary ---------- *)

(* byte position of every rune boundary: [a; a+w0; a+w0+w1; ...], one more entry than widths *)
Fixpoint psums (a : Z) (ws : list Z) : list Z :=
  a :: match ws with [] => [] | w :: ws' => psums (a + w) ws' end.

(* the same without the final entry: where each rune starts *)
Fixpoint starts (a : Z) (ws : list Z) : list Z :=
  match ws with [] => [] | w :: ws' => a :: starts (a + w) ws' end.

Definition all_one (ws : list Z) : bool := forallb (fun w => w =? 1) ws.

(* what every table-building function must return: nil when rune index = byte index everywhere *)
Definition offsets_tbl (ws : list Z) : option (list Z) :=
  if all_one ws then None else Some (psums 0 ws).

(* the prefix-sum function itself *)
Definition byte_pos (ws : list Z) (q : nat) : Z := zsum (firstn q ws).

Lemma psums_starts a ws : psums a ws = starts a ws ++ [a + zsum ws].
Proof.
  revert a. induction ws as [|w ws IH]; intros a; cbn [psums starts zsum fold_right app].
  - f_equal. lia.
  - fold (zsum ws). rewrite IH. cbn [app]. do 3 f_equal. lia.
Qed.

Lemma starts_length a ws : length (starts a ws) = length ws.
Proof. revert a. induction ws as [|w ws IH]; intros a; cbn [starts length]; [|rewrite IH]; reflexivity. Qed.

Lemma psums_length a ws : length (psums a ws) = S (length ws).
Proof. rewrite psums_starts, app_length, starts_length. cbn. lia. Qed.

Lemma psums_nth a ws : forall q, (q <= length ws)%nat ->
  nth_error (psums a ws) q = Some (a + byte_pos ws q).
Proof.
  revert a. induction ws as [|w ws IH]; intros a q Hq.
  - cbn [length] in Hq. replace q with 0%nat by lia. cbn. f_equal. lia.
  - destruct q as [|q]; [cbn; f_equal; lia|].
    cbn [psums nth_error]. rewrite IH by (cbn [length] in Hq; lia).
    unfold byte_pos. cbn [firstn zsum fold_right]. f_equal. fold (zsum (firstn q ws)). lia.
Qed.

Lemma all_one_psums ws : all_one ws = true -> psums 0 ws = iota (S (length ws)).
Proof.
  unfold iota.
  assert (G : forall a, all_one ws = true -> psums (Z.of_nat a) ws = map Z.of_nat (seq a (S (length ws)))).
  { induction ws as [|w ws IH]; intros a H; [reflexivity|].
    cbn [all_one forallb] in H. apply andb_true_iff in H. destruct H as [H1 H2].
    cbn [psums length seq map]. f_equal.
    replace (Z.of_nat a + w) with (Z.of_nat (S a)) by lia. apply IH. exact H2. }
  apply (G 0%nat).
Qed.

Lemma all_one_byte_pos ws q : all_one ws = true -> (q <= length ws)%nat -> byte_pos ws q = Z.of_nat q.
Proof.
  revert q. induction ws as [|w ws IH]; intros q H Hq.
  - cbn [length] in Hq. replace q with 0%nat by lia. reflexivity.
  - cbn [all_one forallb] in H. apply andb_true_iff in H. destruct H as [H1 H2].
    destruct q as [|q]; [reflexivity|]. unfold byte_pos in *. cbn [firstn zsum fold_right].
    fold (zsum (firstn q ws)). rewrite IH by (cbn [length] in Hq; try assumption; lia). lia.
Qed.

(* ---------- Go slices ---------- *)

Lemma zlen_app {A} (a b : list A) : zlen (a ++ b) = zlen a + zlen b.
Proof. unfold zlen. rewrite app_length. lia. Qed.

Lemma zlen_nonneg {A} (a : list A) : 0 <= zlen a.
Proof. unfold zlen. lia. Qed.

Lemma aset_middle pre x post v :
  aset (pre ++ x :: post) (zlen pre) v = Ok (pre ++ v :: post).
Proof.
  unfold aset. pose proof (zlen_nonneg pre). rewrite zlen_app. unfold zlen in *. cbn [length].
  replace ((0 <=? Z.of_nat (length pre)) && (Z.of_nat (length pre) <? Z.of_nat (length pre) + Z.of_nat (S (length post))))
    with true by lia.
  rewrite Nat2Z.id. f_equal.
  rewrite firstn_app, firstn_all, Nat.sub_diag. cbn [firstn]. rewrite app_nil_r. f_equal.
  replace (S (length pre)) with (length pre + 1)%nat by lia.
  rewrite skipn_app. rewrite skipn_all2 by lia.
  replace (length pre + 1 - length pre)%nat with 1%nat by lia. reflexivity.
Qed.

Lemma iota_S k : iota (S k) = iota k ++ [Z.of_nat k].
Proof. unfold iota. rewrite seq_S, map_app. reflexivity. Qed.

Lemma iota_length k : length (iota k) = k.
Proof. unfold iota. rewrite map_length, seq_length. reflexivity. Qed.

Lemma zlen_iota k : zlen (iota k) = Z.of_nat k.
Proof. unfold zlen. rewrite iota_length. reflexivity. Qed.

Lemma fill_identity_spec : forall n k m, (n <= m)%nat ->
  fill_identity (iota k ++ repeat 0 m) (Z.of_nat k) n = Ok (iota (k + n) ++ repeat 0 (m - n)).
Proof.
  induction n as [|n IH]; intros k m Hm.
  - cbn [fill_identity]. rewrite Nat.add_0_r, Nat.sub_0_r. reflexivity.
  - cbn [fill_identity]. destruct m as [|m]; [lia|]. cbn [repeat].
    pose proof (aset_middle (iota k) 0 (repeat 0 m) (Z.of_nat k)) as HA.
    rewrite zlen_iota in HA. rewrite HA. cbn [bind].
    replace (iota k ++ Z.of_nat k :: repeat 0 m) with (iota (S k) ++ repeat 0 m)
      by (rewrite iota_S, <- app_assoc; reflexivity).
    replace (Z.of_nat k + 1) with (Z.of_nat (S k)) by lia.
    rewrite IH by lia. replace (S k + n)%nat with (k + S n)%nat by lia.
    replace (S m - S n)%nat with (m - n)%nat by lia. reflexivity.
Qed.

Lemma fill_identity_zero n m : (n <= m)%nat ->
  fill_identity (repeat 0 m) 0 n = Ok (iota n ++ repeat 0 (m - n)).
Proof. intros H. apply (fill_identity_spec n 0 m H). Qed.

Lemma aget_nth {A} (a : list A) (q : nat) v : nth_error a q = Some v -> aget a (Z.of_nat q) = Ok v.
Proof.
  intros H. unfold aget, znth. replace (Z.of_nat q <? 0) with false by lia.
  rewrite Nat2Z.id, H. reflexivity.
Qed.

(* ---------- the range loop ---------- *)

Local Opaque decode_rune.

Definition ws_of (d : list (Z * nat)) : list Z := map (fun p => Z.of_nat (snd p)) d.

(* suffix view: the decoding of s from byte p on *)
Lemma decode_suffix_cons s p r w d' :
  decode (skipn p s) = (r, w) :: d' ->
  decode_rune (skipn p s) = (r, w) /\ d' = decode (skipn (p + w) s) /\
  (1 <= w)%nat /\ (p + w <= length s)%nat.
Proof.
  intros H. destruct (skipn p s) as [|b t] eqn:E; [discriminate H|].
  rewrite decode_unfold in H. injection H as H1 H2.
  pose proof (decode_rune_width b t) as [Hw Hl]. rewrite H1 in Hw, Hl. cbn [snd] in Hw, Hl.
  rewrite H1 in H2. cbn [snd] in H2.
  assert (Hlen : length (b :: t) = (length s - p)%nat) by (rewrite <- E; apply skipn_length).
  repeat split; try lia; try assumption.
  rewrite skipn_add, E. symmetry. exact H2.
Qed.

(* the runeLen the loops compute is the decode width *)
Lemma range_rune_len_width s p r w :
  decode_rune (skipn p s) = (r, w) -> (1 <= w)%nat ->
  range_rune_len s (Z.of_nat p) r = Z.of_nat w.
Proof.
  intros H Hw. unfold range_rune_len. rewrite Nat2Z.id, H. cbn [snd].
  destruct (r =? rune_error) eqn:E; [reflexivity|].
  destruct (skipn p s) as [|b t] eqn:Es; [rewrite decode_rune_nil in H; injection H as _ H; lia|].
  destruct (decode_rune_valid_width b t r w H) as (_ & Hl & _).
  - unfold invalid1. intros C. injection C as C1 C2. lia.
  - symmetry. exact Hl.
Qed.

Lemma decode_suffix_length s p : (length (decode (skipn p s)) <= length s - p)%nat.
Proof. pose proof (decode_length_le (skipn p s)) as H. rewrite skipn_length in H. exact H. Qed.

(* ---------- match.go stringByteOffsets ---------- *)

Lemma range_items_cons p r w d :
  range_items p ((r, w) :: d) = (p, r) :: range_items (p + Z.of_nat w) d.
Proof. reflexivity. Qed.

(* once the table exists every iteration just records strIdx *)
Lemma sbo_some s : forall d p pre m,
  (length d <= m)%nat ->
  foldM (sbo_step s) (range_items p d) (Some (pre ++ repeat 0 m), zlen pre) =
  Ok (Some (pre ++ starts p (ws_of d) ++ repeat 0 (m - length d)), zlen pre + zlen d).
Proof.
  induction d as [|[r w] d IH]; intros p pre m Hm.
  - cbn [range_items foldM ws_of map starts app length]. rewrite Nat.sub_0_r. unfold zlen at 3.
    cbn [length]. do 2 f_equal. lia.
  - rewrite range_items_cons. cbn [foldM sbo_step].
    destruct m as [|m]; [cbn [length] in Hm; lia|]. cbn [repeat].
    rewrite aset_middle. cbn [bind].
    replace (pre ++ p :: repeat 0 m) with ((pre ++ [p]) ++ repeat 0 m)
      by (rewrite <- app_assoc; reflexivity).
    replace (zlen pre + 1) with (zlen (pre ++ [p])) by (rewrite zlen_app; reflexivity).
    rewrite IH by (cbn [length] in Hm; lia).
    cbn [ws_of map starts snd length]. rewrite <- app_assoc. cbn [app].
    replace (S m - S (length d))%nat with (m - length d)%nat by lia.
    do 2 f_equal. rewrite zlen_app. unfold zlen. cbn [length]. lia.
Qed.

(* before the table exists: strIdx = runeIndex = p, every width so far was 1 *)
Lemma sbo_none s : forall d p,
  d = decode (skipn p s) ->
  foldM (sbo_step s) (range_items (Z.of_nat p) d) (None, Z.of_nat p) =
  Ok (if all_one (ws_of d) then None
      else Some (iota p ++ starts (Z.of_nat p) (ws_of d) ++ repeat 0 (S (length s) - p - length d)),
      Z.of_nat p + zlen d).
Proof.
  induction d as [|[r w] d IH]; intros p Hd.
  - cbn [range_items foldM ws_of map all_one forallb]. unfold zlen. cbn [length]. do 2 f_equal. lia.
  - symmetry in Hd. destruct (decode_suffix_cons s p r w d Hd) as (Hdr & Hd' & Hw & Hlen).
    pose proof (decode_suffix_length s (p + w)) as Hdl. rewrite <- Hd' in Hdl.
    rewrite range_items_cons. cbn [foldM sbo_step bind].
    rewrite (range_rune_len_width s p r w Hdr Hw).
    replace (Z.of_nat p =? Z.of_nat p) with true by lia. cbn [negb orb].
    cbn [ws_of map snd all_one forallb]. fold (ws_of d). fold (all_one (ws_of d)).
    destruct (Z.of_nat w =? 1) eqn:E1; cbn [negb andb].
    + (* width 1: still no table *)
      cbn [bind]. replace (Z.of_nat p + Z.of_nat w) with (Z.of_nat (S p)) by lia.
      replace (Z.of_nat p + 1) with (Z.of_nat (S p)) by lia.
      assert (Hd1 : d = decode (skipn (S p) s)) by (rewrite Hd'; f_equal; f_equal; lia).
      rewrite (IH (S p) Hd1). f_equal.
      destruct (all_one (ws_of d)).
      * f_equal. unfold zlen. cbn [length]. lia.
      * f_equal; [|unfold zlen; cbn [length]; lia]. f_equal.
        rewrite iota_S, <- app_assoc. cbn [starts app length].
        replace (Z.of_nat p + Z.of_nat w) with (Z.of_nat (S p)) by lia.
        replace (S (length s) - p - S (length d))%nat with (S (length s) - S p - length d)%nat by lia.
        reflexivity.
    + (* first multi-byte or invalid-with-offset rune: build the table *)
      rewrite Nat2Z.id.
      rewrite fill_identity_zero by lia. cbn [bind].
      replace (S (length s) - p)%nat with (S (length s - p)) by lia. cbn [repeat].
      pose proof (aset_middle (iota p) 0 (repeat 0 (length s - p)) (Z.of_nat p)) as HA.
      rewrite zlen_iota in HA. rewrite HA. cbn [bind].
      replace (iota p ++ Z.of_nat p :: repeat 0 (length s - p))
        with ((iota p ++ [Z.of_nat p]) ++ repeat 0 (length s - p))
        by (rewrite <- app_assoc; reflexivity).
      replace (Z.of_nat p + 1) with (zlen (iota p ++ [Z.of_nat p]))
        by (rewrite zlen_app, zlen_iota; reflexivity).
      rewrite sbo_some by lia.
      rewrite zlen_app, zlen_iota. f_equal. f_equal.
      * f_equal. rewrite <- app_assoc. cbn [starts app length].
        replace (S (length s - p) - S (length d))%nat with (length s - p - length d)%nat by lia.
        reflexivity.
      * unfold zlen. cbn [length]. lia.
Qed.

Lemma ws_of_widths s : ws_of (decode s) = widths_of s.
Proof. reflexivity. Qed.

Lemma ws_of_length d : length (ws_of d) = length d.
Proof. apply map_length. Qed.

(* match.go:110-135 returns the prefix sums of the decode widths, or nil when they are all 1 *)
Lemma string_byte_offsets_spec s :
  string_byte_offsets s = Ok (offsets_tbl (widths_of s)).
Proof.
  unfold string_byte_offsets, go_range, offsets_tbl.
  pose proof (sbo_none s (decode s) 0 eq_refl) as H. cbn [Z.of_nat] in H. rewrite H. cbn [bind].
  rewrite ws_of_widths. destruct (all_one (widths_of s)) eqn:A; [reflexivity|].
  pose proof (decode_length_le s) as Hle. pose proof (decode_total s) as Htot.
  cbn [iota seq map app]. rewrite Z.add_0_l.
  set (n := length (decode s)) in *.
  replace (S (length s) - 0 - n)%nat with (S (length s - n)) by lia. cbn [repeat].
  assert (Hn : zlen (decode s) = zlen (starts 0 (widths_of s))).
  { unfold zlen. rewrite starts_length. unfold widths_of. rewrite map_length. reflexivity. }
  rewrite Hn. rewrite aset_middle. cbn [bind].
  unfold go_slice. rewrite zlen_app. unfold zlen. cbn [length]. rewrite starts_length.
  unfold widths_of at 1 2 3. rewrite map_length. fold n.
  replace ((0 <=? 0) && (0 <=? Z.of_nat n + 1) &&
           (Z.of_nat n + 1 <=? Z.of_nat n + Z.of_nat (S (length (repeat 0 (length s - n))))))
    with true by lia.
  cbn [bind skipn Z.to_nat]. do 2 f_equal.
  match goal with |- firstn ?k _ = _ =>
    replace k with (length (starts 0 (widths_of s)) + 1)%nat by (rewrite starts_length; lia) end.
  rewrite firstn_app_2. cbn [firstn]. rewrite psums_starts. f_equal. f_equal.
  unfold zlen in Htot. lia.
Qed.

(* ---------- match.go runeByteOffsets ---------- *)

Lemma rbo_rune_len_encode_len r : rbo_rune_len r = encode_len r.
Proof. reflexivity. Qed.

Definition elens (rs : list Z) : list Z := map encode_len rs.

Lemma rbo_some n : forall rs bp pre m,
  (length rs <= m)%nat ->
  foldM (rbo_step n) rs (Some (pre ++ repeat 0 m), zlen pre, bp) =
  Ok (Some (pre ++ starts bp (elens rs) ++ repeat 0 (m - length rs)), zlen pre + zlen rs,
      bp + zsum (elens rs)).
Proof.
  induction rs as [|r rs IH]; intros bp pre m Hm.
  - cbn [foldM elens map starts app length zsum fold_right]. rewrite Nat.sub_0_r. unfold zlen at 3.
    cbn [length]. do 2 f_equal; [f_equal|]; lia.
  - cbn [foldM rbo_step].
    destruct m as [|m]; [cbn [length] in Hm; lia|]. cbn [repeat].
    rewrite aset_middle. cbn [bind].
    replace (pre ++ bp :: repeat 0 m) with ((pre ++ [bp]) ++ repeat 0 m)
      by (rewrite <- app_assoc; reflexivity).
    replace (zlen pre + 1) with (zlen (pre ++ [bp])) by (rewrite zlen_app; reflexivity).
    rewrite rbo_rune_len_encode_len.
    rewrite IH by (cbn [length] in Hm; lia).
    cbn [elens map starts length zsum fold_right]. fold (elens rs). fold (zsum (elens rs)).
    rewrite <- app_assoc. cbn [app].
    replace (S m - S (length rs))%nat with (m - length rs)%nat by lia.
    do 2 f_equal; [f_equal|]; try lia. rewrite zlen_app. unfold zlen. cbn [length]. lia.
Qed.

Lemma rbo_none n : forall rs k,
  (k + length rs <= n)%nat ->
  foldM (rbo_step n) rs (None, Z.of_nat k, Z.of_nat k) =
  Ok (if all_one (elens rs) then None
      else Some (iota k ++ starts (Z.of_nat k) (elens rs) ++ repeat 0 (S n - k - length rs)),
      Z.of_nat k + zlen rs, Z.of_nat k + zsum (elens rs)).
Proof.
  induction rs as [|r rs IH]; intros k Hk.
  - cbn [foldM elens map all_one forallb zsum fold_right]. unfold zlen. cbn [length].
    do 2 f_equal; [f_equal|]; lia.
  - cbn [foldM rbo_step bind]. rewrite rbo_rune_len_encode_len.
    cbn [elens map all_one forallb zsum fold_right]. fold (elens rs). fold (all_one (elens rs)).
    fold (zsum (elens rs)). cbn [length] in Hk.
    destruct (encode_len r =? 1) eqn:E1; cbn [negb andb].
    + cbn [bind]. replace (Z.of_nat k + encode_len r) with (Z.of_nat (S k)) by lia.
      replace (Z.of_nat k + 1) with (Z.of_nat (S k)) by lia.
      rewrite (IH (S k)) by lia. f_equal.
      destruct (all_one (elens rs)).
      * f_equal; [f_equal|]; try (unfold zlen; cbn [length]); lia.
      * f_equal; [f_equal|]; try (unfold zlen; cbn [length]; lia).
        f_equal. rewrite iota_S, <- app_assoc. cbn [starts app length].
        replace (Z.of_nat k + encode_len r) with (Z.of_nat (S k)) by lia.
        replace (S n - k - S (length rs))%nat with (S n - S k - length rs)%nat by lia.
        reflexivity.
    + rewrite Nat2Z.id. rewrite fill_identity_zero by lia. cbn [bind].
      replace (S n - k)%nat with (S (n - k)) by lia. cbn [repeat].
      pose proof (aset_middle (iota k) 0 (repeat 0 (n - k)) (Z.of_nat k)) as HA.
      rewrite zlen_iota in HA. rewrite HA. cbn [bind].
      replace (iota k ++ Z.of_nat k :: repeat 0 (n - k))
        with ((iota k ++ [Z.of_nat k]) ++ repeat 0 (n - k))
        by (rewrite <- app_assoc; reflexivity).
      replace (Z.of_nat k + 1) with (zlen (iota k ++ [Z.of_nat k]))
        by (rewrite zlen_app, zlen_iota; reflexivity).
      rewrite rbo_some by lia.
      rewrite zlen_app, zlen_iota. f_equal. f_equal; [f_equal|].
      * f_equal. rewrite <- app_assoc. cbn [starts app length].
        replace (S (n - k) - S (length rs))%nat with (n - k - length rs)%nat by lia.
        reflexivity.
      * unfold zlen. cbn [length]. lia.
      * lia.
Qed.

(* match.go:137-161 returns the prefix sums of the encoded lengths (invalid runes count 3), or nil *)
Lemma rune_byte_offsets_spec rs :
  rune_byte_offsets rs = Ok (offsets_tbl (elens rs)).
Proof.
  unfold rune_byte_offsets, offsets_tbl.
  pose proof (rbo_none (length rs) rs 0 ltac:(lia)) as H. cbn [Z.of_nat] in H. rewrite H. cbn [bind].
  destruct (all_one (elens rs)) eqn:A; [reflexivity|].
  cbn [iota seq map app]. rewrite !Z.add_0_l.
  replace (S (length rs) - 0 - length rs)%nat with 1%nat by lia. cbn [repeat].
  assert (Hn : zlen rs = zlen (starts 0 (elens rs))).
  { unfold zlen. rewrite starts_length. unfold elens. rewrite map_length. reflexivity. }
  rewrite Hn, aset_middle. cbn [bind]. rewrite psums_starts. reflexivity.
Qed.

(* ---------- compat bytesToRunesAndOffsets ---------- *)

Lemma skipn_ge_nil {A} (l : list A) p : (length l <= p)%nat -> skipn p l = [].
Proof. intros H. apply skipn_all2. exact H. Qed.

Lemma b2r_some b : forall fuel p a runes,
  (p <= length b)%nat -> (length b - p < fuel)%nat ->
  b2r_loop fuel b (Z.of_nat p) runes (Some a) =
  Ok (runes ++ map fst (decode (skipn p b)),
      Some (a ++ starts (Z.of_nat p) (ws_of (decode (skipn p b))) ++ [zlen b])).
Proof.
  induction fuel as [|fuel IH]; intros p a runes Hp Hf; [lia|].
  cbn [b2r_loop]. unfold zlen at 1.
  destruct (Z.of_nat p <? Z.of_nat (length b)) eqn:E.
  - rewrite Nat2Z.id.
    destruct (decode (skipn p b)) as [|[r w] d] eqn:Hd.
    { destruct (skipn p b) as [|x t] eqn:Es; [|rewrite decode_unfold in Hd; discriminate Hd].
      pose proof (skipn_length p b) as HL. rewrite Es in HL. cbn [length] in HL. lia. }
    destruct (decode_suffix_cons b p r w d Hd) as (Hdr & Hd' & Hw & Hlen).
    rewrite Hdr.
    replace (Z.of_nat p + Z.of_nat w) with (Z.of_nat (p + w)) by lia.
    rewrite IH by lia. rewrite <- Hd'.
    cbn [map fst ws_of snd starts]. fold (ws_of d).
    rewrite <- !app_assoc. cbn [app].
    replace (Z.of_nat p + Z.of_nat w) with (Z.of_nat (p + w)) by lia. reflexivity.
  - assert (p = length b) by lia. subst p. rewrite skipn_all. cbn [decode decode_aux map ws_of starts app].
    rewrite app_nil_r. reflexivity.
Qed.

Lemma b2r_none b : forall fuel p runes,
  (p <= length b)%nat -> (length b - p < fuel)%nat -> length runes = p ->
  b2r_loop fuel b (Z.of_nat p) runes None =
  Ok (runes ++ map fst (decode (skipn p b)),
      if all_one (ws_of (decode (skipn p b))) then None
      else Some (iota p ++ starts (Z.of_nat p) (ws_of (decode (skipn p b))) ++ [zlen b])).
Proof.
  induction fuel as [|fuel IH]; intros p runes Hp Hf Hr; [lia|].
  cbn [b2r_loop]. unfold zlen at 1.
  destruct (Z.of_nat p <? Z.of_nat (length b)) eqn:E.
  - rewrite Nat2Z.id.
    destruct (decode (skipn p b)) as [|[r w] d] eqn:Hd.
    { destruct (skipn p b) as [|x t] eqn:Es; [|rewrite decode_unfold in Hd; discriminate Hd].
      pose proof (skipn_length p b) as HL. rewrite Es in HL. cbn [length] in HL. lia. }
    destruct (decode_suffix_cons b p r w d Hd) as (Hdr & Hd' & Hw & Hlen).
    rewrite Hdr. unfold zlen at 1. rewrite Hr.
    replace (Z.of_nat p =? Z.of_nat p) with true by lia. cbn [negb orb].
    cbn [ws_of map snd all_one forallb]. fold (ws_of d). fold (all_one (ws_of d)).
    destruct (Z.of_nat w =? 1) eqn:E1; cbn [negb andb].
    + replace (Z.of_nat p + Z.of_nat w) with (Z.of_nat (S p)) by lia.
      assert (Hd1 : d = decode (skipn (S p) b)) by (rewrite Hd'; f_equal; f_equal; lia).
      rewrite IH by (rewrite ?app_length; cbn [length]; lia). rewrite <- Hd1.
      cbn [map fst]. rewrite <- app_assoc. cbn [app]. f_equal. f_equal.
      destruct (all_one (ws_of d)); [reflexivity|].
      f_equal. rewrite iota_S, <- app_assoc. cbn [starts app].
      replace (Z.of_nat p + Z.of_nat w) with (Z.of_nat (S p)) by lia. reflexivity.
    + replace (Z.of_nat p + Z.of_nat w) with (Z.of_nat (p + w)) by lia.
      rewrite b2r_some by lia. rewrite <- Hd'.
      cbn [map fst starts]. rewrite <- !app_assoc. cbn [app].
      replace (Z.of_nat p + Z.of_nat w) with (Z.of_nat (p + w)) by lia. reflexivity.
  - rewrite (skipn_ge_nil b p) by lia.
    cbn [decode decode_aux map ws_of starts app all_one forallb]. rewrite app_nil_r. reflexivity.
Qed.

(* compat/regexp.go:377-399: the runes of the string and the prefix sums of their widths *)
Lemma bytes_to_runes_and_offsets_spec fuel b :
  (length b < fuel)%nat ->
  bytes_to_runes_and_offsets fuel b = Ok (runes_of b, offsets_tbl (widths_of b)).
Proof.
  intros Hf. unfold bytes_to_runes_and_offsets.
  pose proof (b2r_none b fuel 0 [] ltac:(lia) ltac:(lia) eq_refl) as H. cbn [Z.of_nat skipn app] in H.
  rewrite H. unfold runes_of, offsets_tbl. rewrite ws_of_widths.
  destruct (all_one (widths_of b)); [reflexivity|].
  cbn [iota seq map app]. rewrite psums_starts. pose proof (decode_total b) as Ht.
  rewrite Ht. reflexivity.
Qed.

(* compat readRunes: offsets are the prefix sums of whatever sizes the reader reported *)
Lemma read_runes_spec items :
  read_runes items = (map fst items, psums 0 (map snd items)).
Proof.
  unfold read_runes.
  assert (G : forall (items : list (Z * Z)) (text pre : list Z) (a : Z),
    fold_left (fun st it => let '(text, offs) := st in
                            (text ++ [fst it], offs ++ [last offs 0 + snd it]))
              items (text, pre ++ [a]) =
    (text ++ map fst items, pre ++ psums a (map snd items))).
  { clear. induction items as [|[r sz] items IH]; intros text pre a.
    - cbn [fold_left map psums]. rewrite app_nil_r. reflexivity.
    - cbn [fold_left map psums fst snd]. rewrite last_last.
      rewrite <- (app_assoc pre [a]). cbn [app].
      replace (pre ++ [a; a + sz]) with ((pre ++ [a]) ++ [a + sz]) by (rewrite <- app_assoc; reflexivity).
      rewrite IH. rewrite <- !app_assoc. reflexivity. }
  apply (G items [] [] 0).
Qed.

(* ---------- regexp.go stringByteMapper / byteIndex ---------- *)

(* the sparse table in closed form: one entry (k+1, cumulated extra bytes) per rune k of width <> 1 *)
Fixpoint entries (k D : Z) (ws : list Z) : list (Z * Z) :=
  match ws with
  | [] => []
  | w :: ws' =>
    if w =? 1 then entries (k + 1) D ws'
    else (k + 1, D + (w - 1)) :: entries (k + 1) (D + (w - 1)) ws'
  end.

Definition mapper_of (m : option mapper) : mapper :=
  match m with Some m0 => m0 | None => {| m_idx := []; m_delta := [] |} end.

Definition mapper_add (m : option mapper) (E : list (Z * Z)) : option mapper :=
  match E with
  | [] => m
  | _ => Some {| m_idx := m_idx (mapper_of m) ++ map fst E;
                 m_delta := m_delta (mapper_of m) ++ map snd E |}
  end.

Lemma mapper_add_cons m x y E :
  mapper_add (Some {| m_idx := m_idx (mapper_of m) ++ [x]; m_delta := m_delta (mapper_of m) ++ [y] |}) E =
  mapper_add m ((x, y) :: E).
Proof.
  destruct E as [|e E]; cbn [mapper_add mapper_of m_idx m_delta map fst snd]; [reflexivity|].
  rewrite <- !app_assoc. reflexivity.
Qed.

Definition extras (ws : list Z) : list Z := map (fun w => w - 1) ws.

Lemma bm_fold s : forall d p m k D,
  d = decode (skipn p s) ->
  fold_left (bm_step s) (range_items (Z.of_nat p) d) (m, k, D) =
  (mapper_add m (entries k D (ws_of d)), k + zlen d, D + zsum (extras (ws_of d))).
Proof.
  induction d as [|[r w] d IH]; intros p m k D Hd.
  - cbn [range_items fold_left ws_of map entries mapper_add extras zsum fold_right]. unfold zlen.
    cbn [length]. f_equal; [f_equal|]; lia.
  - symmetry in Hd. destruct (decode_suffix_cons s p r w d Hd) as (Hdr & Hd' & Hw & Hlen).
    rewrite range_items_cons. cbn [fold_left bm_step].
    rewrite (range_rune_len_width s p r w Hdr Hw).
    cbn [ws_of map snd entries extras zsum fold_right]. fold (ws_of d). fold (extras (ws_of d)).
    fold (zsum (extras (ws_of d))).
    replace (Z.of_nat p + Z.of_nat w) with (Z.of_nat (p + w)) by lia.
    destruct (Z.of_nat w =? 1) eqn:E1; cbn [negb].
    + rewrite (IH (p + w)%nat m (k + 1) D Hd'). f_equal; [f_equal|]; try lia.
      unfold zlen. cbn [length]. lia.
    + fold (mapper_of m).
      rewrite (IH (p + w)%nat _ (k + 1) (D + (Z.of_nat w - 1)) Hd').
      rewrite mapper_add_cons. f_equal; [f_equal|]; try lia.
      unfold zlen. cbn [length]. lia.
Qed.

Lemma new_byte_mapper_spec s :
  new_byte_mapper s = mapper_add None (entries 0 0 (widths_of s)).
Proof.
  unfold new_byte_mapper, go_range.
  pose proof (bm_fold s (decode s) 0 None 0 0 eq_refl) as H. cbn [Z.of_nat] in H. rewrite H.
  reflexivity.
Qed.

(* strictly increasing, everything above k *)
Fixpoint sorted_from (k : Z) (l : list Z) : Prop :=
  match l with [] => True | x :: l' => k < x /\ sorted_from x l' end.

Lemma sorted_from_weaken l : forall k k', k' <= k -> sorted_from k l -> sorted_from k' l.
Proof. destruct l as [|x l]; intros k k' Hk H; cbn [sorted_from] in *; [exact I|]. split; [lia|tauto]. Qed.

Lemma entries_sorted ws : forall k D, sorted_from k (map fst (entries k D ws)).
Proof.
  induction ws as [|w ws IH]; intros k D; cbn [entries]; [exact I|].
  destruct (w =? 1).
  - apply (sorted_from_weaken _ (k + 1)); [lia|apply IH].
  - cbn [map fst sorted_from]. split; [lia|apply IH].
Qed.

Lemma sorted_from_nth l : forall k h, sorted_from k l -> (h < length l)%nat -> k < nth h l 0.
Proof.
  induction l as [|x l IH]; intros k h Hs Hh; [cbn [length] in Hh; lia|].
  cbn [sorted_from] in Hs. destruct Hs as [Hx Hs]. destruct h as [|h]; [exact Hx|].
  cbn [nth]. cbn [length] in Hh. specialize (IH x h Hs ltac:(lia)). lia.
Qed.

(* how many leading entries are <= q (for a sorted list: how many entries are <= q) *)
Fixpoint count_le (q : Z) (l : list Z) : nat :=
  match l with
  | [] => 0%nat
  | x :: l' => if x <=? q then S (count_le q l') else 0%nat
  end.

Lemma count_le_length q l : (count_le q l <= length l)%nat.
Proof. induction l as [|x l IH]; cbn [count_le length]; [lia|]. destruct (x <=? q); lia. Qed.

Lemma count_le_spec q l : forall k h,
  sorted_from k l -> (h < length l)%nat ->
  (q <? nth h l 0) = (count_le q l <=? h)%nat.
Proof.
  induction l as [|x l IH]; intros k h Hs Hh; [cbn [length] in Hh; lia|].
  cbn [count_le]. destruct (x <=? q) eqn:E.
  - destruct h as [|h]; [cbn [nth]; lia|]. cbn [nth].
    cbn [sorted_from] in Hs. destruct Hs as [_ Hs]. cbn [length] in Hh.
    rewrite (IH x h Hs ltac:(lia)). reflexivity.
  - pose proof (sorted_from_nth (x :: l) k h Hs Hh) as Hn.
    cbn [sorted_from] in Hs. destruct Hs as [Hx Hs].
    assert (x <= nth h (x :: l) 0).
    { destruct h as [|h]; [cbn [nth]; lia|]. cbn [nth]. cbn [length] in Hh.
      pose proof (sorted_from_nth l x h Hs ltac:(lia)). lia. }
    replace (0 <=? h)%nat with true by lia. lia.
Qed.

(* linear reading of the table: extra bytes accumulated before rune index q *)
Fixpoint lookup (D0 q : Z) (E : list (Z * Z)) : Z :=
  match E with
  | [] => D0
  | (i, d) :: E' => if i <=? q then lookup d q E' else D0
  end.

Lemma lookup_count E : forall D0 q,
  lookup D0 q E =
  match count_le q (map fst E) with O => D0 | S c => nth c (map snd E) 0 end.
Proof.
  induction E as [|[i d] E IH]; intros D0 q; [reflexivity|].
  cbn [lookup map fst snd count_le]. destruct (i <=? q); [|reflexivity].
  rewrite IH. destruct (count_le q (map fst E)); reflexivity.
Qed.

Lemma lookup_above E : forall k D0 q, sorted_from k (map fst E) -> q <= k -> lookup D0 q E = D0.
Proof.
  destruct E as [|[i d] E]; intros k D0 q Hs Hq; [reflexivity|].
  cbn [map fst sorted_from] in Hs. cbn [lookup]. replace (i <=? q) with false by lia. reflexivity.
Qed.

Lemma lookup_entries ws : forall k D m,
  lookup D (k + Z.of_nat m) (entries k D ws) = D + zsum (firstn m (extras ws)).
Proof.
  induction ws as [|w ws IH]; intros k D m.
  - cbn [entries lookup extras map]. rewrite firstn_nil. cbn. lia.
  - cbn [entries extras map]. fold (extras ws). destruct m as [|m].
    + cbn [firstn zsum fold_right]. replace (k + Z.of_nat 0) with k by lia.
      replace (D + 0) with D by lia.
      destruct (w =? 1).
      * apply (lookup_above _ (k + 1)); [apply entries_sorted|lia].
      * cbn [lookup]. replace (k + 1 <=? k) with false by lia. reflexivity.
    + cbn [firstn zsum fold_right]. fold (zsum (firstn m (extras ws))).
      replace (k + Z.of_nat (S m)) with ((k + 1) + Z.of_nat m) by lia.
      destruct (w =? 1) eqn:E.
      * rewrite IH. lia.
      * cbn [lookup]. replace (k + 1 <=? k + 1 + Z.of_nat m) with true by lia. rewrite IH. lia.
Qed.

Lemma byte_pos_extras ws : forall q, (q <= length ws)%nat ->
  byte_pos ws q = Z.of_nat q + zsum (firstn q (extras ws)).
Proof.
  unfold byte_pos. induction ws as [|w ws IH]; intros q Hq.
  - cbn [length] in Hq. replace q with 0%nat by lia. reflexivity.
  - destruct q as [|q]; [reflexivity|]. cbn [extras map firstn zsum fold_right]. fold (extras ws).
    fold (zsum (firstn q ws)). fold (zsum (firstn q (extras ws))).
    cbn [length] in Hq. rewrite IH by lia. lia.
Qed.

(* sort.Search finds the boundary of a monotone predicate *)
Lemma go_search_spec (f : Z -> res bool) n c :
  (forall h, 0 <= h < n -> f h = Ok (c <=? h)) ->
  forall fuel i j, 0 <= i <= c -> c <= j <= n -> (Z.to_nat (j - i) < fuel)%nat ->
  go_search fuel f i j = Ok c.
Proof.
  intros Hf. induction fuel as [|fuel IH]; intros i j Hi Hj Hfu; [lia|].
  cbn [go_search]. destruct (i <? j) eqn:E.
  - rewrite Hf by lia. cbn [bind].
    destruct (c <=? (i + j) / 2) eqn:Ec; cbn [negb].
    + apply IH; lia.
    + apply IH; lia.
  - f_equal. lia.
Qed.

Lemma aget_nth_default (a : list Z) h : (h < length a)%nat -> aget a (Z.of_nat h) = Ok (nth h a 0).
Proof. intros H. apply aget_nth. apply nth_error_nth'. exact H. Qed.

Lemma entries_length_le ws : forall k D, (length (entries k D ws) <= length ws)%nat.
Proof.
  induction ws as [|w ws IH]; intros k D; cbn [entries length]; [lia|].
  destruct (w =? 1); cbn [length]; specialize (IH (k + 1)); [specialize (IH D)|specialize (IH (D + (w - 1)))]; lia.
Qed.

(* regexp.go:412-420 on the table of regexp.go:390-410 = the prefix-sum function *)
Lemma byte_index_entries ws fuel q :
  let E := entries 0 0 ws in
  (q <= length ws)%nat -> (length E < fuel)%nat ->
  byte_index fuel {| m_idx := map fst E; m_delta := map snd E |} (Z.of_nat q) =
  Ok (byte_pos ws q).
Proof.
  intros E Hq Hfu. unfold byte_index. cbn [m_idx m_delta].
  set (idx := map fst E). set (c := count_le (Z.of_nat q) idx).
  assert (Hs : sorted_from 0 idx) by apply entries_sorted.
  assert (Hlen : length idx = length E) by apply map_length.
  pose proof (count_le_length (Z.of_nat q) idx) as Hc. fold c in Hc.
  rewrite (go_search_spec _ (zlen idx) (Z.of_nat c)).
  - cbn [bind].
    pose proof (lookup_entries ws 0 0 q) as HL. rewrite Z.add_0_l in HL.
    rewrite lookup_count in HL. fold E idx c in HL.
    rewrite (byte_pos_extras ws q Hq).
    destruct c as [|c'] eqn:Ec.
    + replace (Z.of_nat 0 - 1 <? 0) with true by lia. f_equal. lia.
    + replace (Z.of_nat (S c') - 1 <? 0) with false by lia.
      replace (Z.of_nat (S c') - 1) with (Z.of_nat c') by lia.
      rewrite aget_nth_default by (rewrite map_length; lia). cbn [bind]. f_equal. lia.
  - intros h Hh. unfold zlen in Hh.
    replace h with (Z.of_nat (Z.to_nat h)) by lia.
    rewrite aget_nth_default by lia. cbn [bind]. f_equal.
    rewrite (count_le_spec _ idx 0 (Z.to_nat h) Hs ltac:(lia)). fold c. lia.
  - lia.
  - unfold zlen. lia.
  - unfold zlen. lia.
Qed.

Lemma entries_nil_all_one ws : forall k D, entries k D ws = [] <-> all_one ws = true.
Proof.
  induction ws as [|w ws IH]; intros k D; cbn [entries all_one forallb]; [tauto|].
  destruct (w =? 1); cbn [andb]; [apply IH|]. split; discriminate.
Qed.

(* byte_index_spec: for every string, at every rune index 0..n *)
Lemma byte_index_spec s fuel q :
  (q <= length (decode s))%nat -> (length s < fuel)%nat ->
  match new_byte_mapper s with
  | Some m => byte_index fuel m (Z.of_nat q) = Ok (byte_pos (widths_of s) q)
  | None => byte_pos (widths_of s) q = Z.of_nat q /\ all_one (widths_of s) = true
  end.
Proof.
  intros Hq Hfu. rewrite new_byte_mapper_spec.
  assert (Hwl : length (widths_of s) = length (decode s)) by apply map_length.
  destruct (entries 0 0 (widths_of s)) as [|e E] eqn:HE.
  - cbn [mapper_add]. apply entries_nil_all_one in HE. split; [|exact HE].
    apply all_one_byte_pos; [exact HE|lia].
  - cbn [mapper_add mapper_of m_idx m_delta app]. rewrite <- HE.
    apply byte_index_entries; [lia|].
    pose proof (entries_length_le (widths_of s) 0 0). pose proof (decode_length_le s). lia.
Qed.

Lemma new_byte_mapper_none s : new_byte_mapper s = None <-> all_one (widths_of s) = true.
Proof.
  rewrite new_byte_mapper_spec, <- (entries_nil_all_one (widths_of s) 0 0).
  destruct (entries 0 0 (widths_of s)); cbn [mapper_add]; split; intros H; congruence.
Qed.

(* ---------- ByteRange, Runes, String ---------- *)

Lemma byte_pos_boundary s q : byte_pos (widths_of s) q = Z.of_nat (boundary s q).
Proof.
  unfold byte_pos, boundary, widths_of. generalize (decode s) as d. intros d. revert q.
  induction d as [|[r w] d IH]; intros q; [destruct q; reflexivity|].
  destruct q as [|q]; [reflexivity|]. cbn [map firstn zsum nsum fold_right snd].
  fold (zsum (firstn q (map (fun p => Z.of_nat (snd p)) d))). fold (nsum (firstn q (map snd d))).
  rewrite IH. lia.
Qed.

Lemma byte_pos_mono ws q q' :
  Forall (fun w => 1 <= w <= 4) ws -> (q <= q')%nat -> byte_pos ws q <= byte_pos ws q'.
Proof.
  unfold byte_pos. intros Hw. revert q q'. induction Hw as [|w ws Hw1 Hw IH]; intros q q' Hq.
  - rewrite !firstn_nil. lia.
  - destruct q as [|q]; destruct q' as [|q']; cbn [firstn zsum fold_right]; try lia.
    + fold (zsum (firstn q' ws)). specialize (IH 0%nat q' ltac:(lia)). cbn [firstn zsum fold_right] in IH. lia.
    + fold (zsum (firstn q' ws)). fold (zsum (firstn q ws)). specialize (IH q q' ltac:(lia)). lia.
Qed.

(* table lookup of the lazily built offsets: the prefix-sum function, whatever the representation *)
Lemma tbl_byte_range ws (i l : nat) :
  (i + l <= length ws)%nat ->
  match offsets_tbl ws with
  | None => Ok (Z.of_nat i, Z.of_nat l)
  | Some a =>
    do bi <- aget a (Z.of_nat i) ;
    do e <- aget a (Z.of_nat i + Z.of_nat l) ;
    Ok (bi, e - bi)
  end = Ok (byte_pos ws i, byte_pos ws (i + l) - byte_pos ws i).
Proof.
  intros H. unfold offsets_tbl. destruct (all_one ws) eqn:A.
  - rewrite !all_one_byte_pos by (try assumption; lia). f_equal. f_equal. lia.
  - rewrite (aget_nth _ i _ (psums_nth 0 ws i ltac:(lia))). cbn [bind].
    replace (Z.of_nat i + Z.of_nat l) with (Z.of_nat (i + l)) by lia.
    rewrite (aget_nth _ (i + l) _ (psums_nth 0 ws (i + l)%nat ltac:(lia))). cbn [bind].
    rewrite !Z.add_0_l. reflexivity.
Qed.

(* Capture.ByteRange on a string input *)
Lemma byte_range_string s (i l : nat) :
  (i + l <= length (decode s))%nat ->
  byte_range (new_string_match_text s (runes_of s)) (Z.of_nat i) (Z.of_nat l) =
  Ok (byte_pos (widths_of s) i, byte_pos (widths_of s) (i + l) - byte_pos (widths_of s) i).
Proof.
  intros H. unfold byte_range, build_byte_offsets. cbn [mt_has_string new_string_match_text mt_input].
  rewrite string_byte_offsets_spec. cbn [bind]. apply tbl_byte_range.
  unfold widths_of. rewrite map_length. exact H.
Qed.

(* Capture.ByteRange on a []rune input: positions in string(runes) *)
Lemma byte_range_runes rs (i l : nat) :
  (i + l <= length rs)%nat ->
  byte_range (new_match_text rs) (Z.of_nat i) (Z.of_nat l) =
  Ok (byte_pos (elens rs) i, byte_pos (elens rs) (i + l) - byte_pos (elens rs) i).
Proof.
  intros H. unfold byte_range, build_byte_offsets. cbn [mt_has_string new_match_text mt_runes].
  rewrite rune_byte_offsets_spec. cbn [bind]. apply tbl_byte_range.
  unfold elens. rewrite map_length. exact H.
Qed.

Lemma go_slice_nat {A} (a : list A) (i l : nat) :
  (i + l <= length a)%nat ->
  go_slice a (Z.of_nat i) (Z.of_nat i + Z.of_nat l) = Ok (firstn l (skipn i a)).
Proof.
  intros H. unfold go_slice, zlen.
  replace ((0 <=? Z.of_nat i) && (Z.of_nat i <=? Z.of_nat i + Z.of_nat l) &&
           (Z.of_nat i + Z.of_nat l <=? Z.of_nat (length a))) with true by lia.
  replace (Z.to_nat (Z.of_nat i + Z.of_nat l - Z.of_nat i)) with l by lia.
  rewrite Nat2Z.id. reflexivity.
Qed.

(* Capture.Runes() *)
Lemma capture_runes_spec t (i l : nat) :
  (i + l <= length (mt_runes t))%nat ->
  capture_runes t (Z.of_nat i) (Z.of_nat l) = Ok (firstn l (skipn i (mt_runes t))).
Proof. intros H. apply go_slice_nat. exact H. Qed.

(* byte_range_slices: the bytes addressed by ByteRange decode to exactly the captured runes *)
Lemma byte_range_slices s (i l : nat) :
  (i + l <= length (decode s))%nat ->
  let t := new_string_match_text s (runes_of s) in
  exists bi bl sl,
    byte_range t (Z.of_nat i) (Z.of_nat l) = Ok (bi, bl) /\
    0 <= bi /\ 0 <= bl /\ bi + bl <= zlen s /\
    go_slice s bi (bi + bl) = Ok sl /\
    decode sl = firstn l (skipn i (decode s)) /\
    capture_runes t (Z.of_nat i) (Z.of_nat l) = Ok (runes_of sl) /\
    (valid_utf8 sl = true -> capture_string t (Z.of_nat i) (Z.of_nat l) = Ok sl).
Proof.
  intros H t.
  set (bi := boundary s i). set (be := boundary s (i + l)).
  assert (Hle : (bi <= be)%nat).
  { unfold bi, be. rewrite boundary_add. lia. }
  assert (Hbe : (be <= length s)%nat) by apply boundary_le.
  set (sl := firstn (be - bi) (skipn bi s)).
  exists (Z.of_nat bi), (Z.of_nat (be - bi)), sl.
  assert (Hdec : decode sl = firstn l (skipn i (decode s))) by apply decode_slice.
  assert (Hrunes : capture_runes t (Z.of_nat i) (Z.of_nat l) = Ok (runes_of sl)).
  { unfold t. rewrite capture_runes_spec
      by (cbn [mt_runes new_string_match_text]; unfold runes_of; rewrite map_length; exact H).
    cbn [mt_runes new_string_match_text]. unfold runes_of. rewrite Hdec.
    rewrite skipn_map, firstn_map. reflexivity. }
  split; [|split; [lia|split; [lia|split; [unfold zlen; lia|split; [|split; [exact Hdec|split; [exact Hrunes|]]]]]]].
  - unfold t. rewrite byte_range_string by exact H. rewrite !byte_pos_boundary. fold bi be.
    f_equal. f_equal. lia.
  - apply go_slice_nat. lia.
  - intros Hv. unfold capture_string. rewrite Hrunes. cbn [bind]. f_equal. apply encode_decode. exact Hv.
Qed.

(* ---------- agreement of the routes ---------- *)

Lemma valid_utf8_elens s : valid_utf8 s = true -> elens (runes_of s) = widths_of s.
Proof.
  unfold valid_utf8, elens, runes_of, widths_of. generalize (decode s) as d. intros d.
  induction d as [|[r w] d IH]; intros H; [reflexivity|].
  cbn [forallb] in H. apply andb_true_iff in H. destruct H as [Hp Hd].
  cbn [map fst snd]. rewrite IH by exact Hd. f_equal.
  unfold valid_pair in Hp. cbn [fst snd] in Hp. unfold encode_len.
  destruct (rune_len r <? 0) eqn:E; lia.
Qed.

(* ... so for valid UTF-8 both ByteRange tables are the same object *)
Lemma rune_string_offsets_coincide s :
  valid_utf8 s = true -> rune_byte_offsets (runes_of s) = string_byte_offsets s.
Proof.
  intros H. rewrite rune_byte_offsets_spec, string_byte_offsets_spec, valid_utf8_elens by exact H.
  reflexivity.
Qed.

(* ... and in general the []rune table is the string table of string(runes) *)
Lemma widths_of_encode_string rs : widths_of (encode_string rs) = elens rs.
Proof.
  unfold widths_of, elens. rewrite decode_encode_string, map_map. apply map_ext. intros r.
  cbn [snd]. pose proof (encode_len_range r). lia.
Qed.

Lemma rune_offsets_are_string_offsets rs :
  rune_byte_offsets rs = string_byte_offsets (encode_string rs).
Proof. rewrite rune_byte_offsets_spec, string_byte_offsets_spec, widths_of_encode_string. reflexivity. Qed.

(* the pair FindAllStringIndex reports *)
Lemma find_all_pair_spec s fuel (i l : nat) :
  (i + l <= length (decode s))%nat -> (length s < fuel)%nat ->
  find_all_pair fuel (new_byte_mapper s) (Z.of_nat i) (Z.of_nat l) =
  Ok (byte_pos (widths_of s) i, byte_pos (widths_of s) (i + l)).
Proof.
  intros H Hf. unfold find_all_pair.
  pose proof (byte_index_spec s fuel i ltac:(lia) Hf) as H1.
  pose proof (byte_index_spec s fuel (i + l) H Hf) as H2.
  destruct (new_byte_mapper s) as [m|].
  - rewrite H1. cbn [bind]. replace (Z.of_nat i + Z.of_nat l) with (Z.of_nat (i + l)) by lia.
    rewrite H2. reflexivity.
  - destruct H1 as [H1 _]. destruct H2 as [H2 _]. rewrite H1, H2. f_equal. f_equal. lia.
Qed.

Lemma tbl_compat_pair ws (i l : nat) :
  (i + l <= length ws)%nat ->
  compat_pair (offsets_tbl ws) (Z.of_nat i) (Z.of_nat l) = Ok (byte_pos ws i, byte_pos ws (i + l)).
Proof.
  intros H. unfold compat_pair, offsets_tbl. destruct (all_one ws) eqn:A.
  - rewrite !all_one_byte_pos by (try assumption; lia). f_equal. f_equal. lia.
  - rewrite (aget_nth _ i _ (psums_nth 0 ws i ltac:(lia))). cbn [bind].
    replace (Z.of_nat i + Z.of_nat l) with (Z.of_nat (i + l)) by lia.
    rewrite (aget_nth _ (i + l) _ (psums_nth 0 ws (i + l)%nat ltac:(lia))). cbn [bind].
    rewrite !Z.add_0_l. reflexivity.
Qed.

(* the pair the adapter reports for []byte input *)
Lemma compat_bytes_pair_spec s fuel (i l : nat) :
  (i + l <= length (decode s))%nat -> (length s < fuel)%nat ->
  (do ro <- bytes_to_runes_and_offsets fuel s ; compat_pair (snd ro) (Z.of_nat i) (Z.of_nat l)) =
  Ok (byte_pos (widths_of s) i, byte_pos (widths_of s) (i + l)).
Proof.
  intros H Hf. rewrite bytes_to_runes_and_offsets_spec by exact Hf. cbn [bind snd].
  apply tbl_compat_pair. unfold widths_of. rewrite map_length. exact H.
Qed.

(* the pair the adapter reports for a rune reader that hands out the decode pairs of s *)
Lemma compat_reader_pair_spec s (i l : nat) :
  (i + l <= length (decode s))%nat ->
  let rd := read_runes (map (fun p => (fst p, Z.of_nat (snd p))) (decode s)) in
  fst rd = runes_of s /\
  compat_pair (Some (snd rd)) (Z.of_nat i) (Z.of_nat l) =
  Ok (byte_pos (widths_of s) i, byte_pos (widths_of s) (i + l)).
Proof.
  intros H rd. unfold rd. rewrite read_runes_spec. cbn [fst snd]. rewrite !map_map. cbn [fst snd].
  split; [reflexivity|]. fold (widths_of s).
  assert (Hl : length (widths_of s) = length (decode s)) by apply map_length.
  unfold compat_pair.
  rewrite (aget_nth _ i _ (psums_nth 0 (widths_of s) i ltac:(lia))). cbn [bind].
  replace (Z.of_nat i + Z.of_nat l) with (Z.of_nat (i + l)) by lia.
  rewrite (aget_nth _ (i + l) _ (psums_nth 0 (widths_of s) (i + l)%nat ltac:(lia))). cbn [bind].
  rewrite !Z.add_0_l. reflexivity.
Qed.

(* ---------- newGroup / Groups() ---------- *)

Lemma skipn_nth_cons {A} (l : list A) : forall i x,
  nth_error l i = Some x -> skipn i l = x :: skipn (S i) l.
Proof.
  induction l as [|y l IH]; intros i x H; [destruct i; discriminate H|].
  destruct i as [|i]; [cbn in H; injection H as ->; reflexivity|].
  cbn [nth_error] in H. cbn [skipn]. rewrite (IH i x H). reflexivity.
Qed.

Lemma firstn_S_last {A} (l : list A) : forall n x,
  nth_error l n = Some x -> firstn (S n) l = firstn n l ++ [x].
Proof.
  induction l as [|y l IH]; intros n x H; [destruct n; discriminate H|].
  destruct n as [|n]; [cbn in H; injection H as ->; reflexivity|].
  cbn [nth_error] in H. cbn [firstn app]. rewrite <- (IH n x H). reflexivity.
Qed.

(* the capture words read as (index, length) pairs *)
Fixpoint cap_pairs (caps : list Z) : list (Z * Z) :=
  match caps with
  | a :: b :: rest => (a, b) :: cap_pairs rest
  | _ => []
  end.

Lemma cap_pairs_nth caps : forall j a b,
  nth_error (cap_pairs caps) j = Some (a, b) ->
  aget caps (Z.of_nat j * 2) = Ok a /\ aget caps (Z.of_nat j * 2 + 1) = Ok b.
Proof.
  induction caps as [caps IH] using (well_founded_induction (Wf_nat.well_founded_ltof _ (@length Z))).
  intros j a b H. destruct caps as [|x [|y rest]]; try (destruct j; discriminate H).
  cbn [cap_pairs] in H. destruct j as [|j].
  - cbn [nth_error] in H. injection H as -> ->. split; reflexivity.
  - cbn [nth_error] in H.
    destruct (IH rest ltac:(unfold ltof; cbn [length]; lia) j a b H) as [H1 H2].
    unfold aget, znth in *.
    replace (Z.of_nat (S j) * 2 <? 0) with false by lia.
    replace (Z.of_nat (S j) * 2 + 1 <? 0) with false by lia.
    replace (Z.of_nat j * 2 <? 0) with false in H1 by lia.
    replace (Z.of_nat j * 2 + 1 <? 0) with false in H2 by lia.
    replace (Z.to_nat (Z.of_nat (S j) * 2)) with (S (S (Z.to_nat (Z.of_nat j * 2)))) by lia.
    replace (Z.to_nat (Z.of_nat (S j) * 2 + 1)) with (S (S (Z.to_nat (Z.of_nat j * 2 + 1)))) by lia.
    cbn [nth_error]. split; assumption.
Qed.

Lemma cap_pairs_length caps : length (cap_pairs caps) = Nat.div2 (length caps).
Proof.
  induction caps as [caps IH] using (well_founded_induction (Wf_nat.well_founded_ltof _ (@length Z))).
  destruct caps as [|x [|y rest]]; try reflexivity.
  cbn [cap_pairs length Nat.div2]. rewrite IH by (unfold ltof; cbn [length]; lia). reflexivity.
Qed.

Lemma new_group_caps_spec caps : forall n i,
  (i + n <= length (cap_pairs caps))%nat ->
  new_group_caps caps (Z.of_nat i) n = Ok (firstn n (skipn i (cap_pairs caps))).
Proof.
  induction n as [|n IH]; intros i H; [reflexivity|].
  cbn [new_group_caps].
  destruct (nth_error (cap_pairs caps) i) as [[a b]|] eqn:E;
    [|apply nth_error_None in E; lia].
  destruct (cap_pairs_nth caps i a b E) as [H1 H2]. rewrite H1, H2. cbn [bind].
  replace (Z.of_nat i + 1) with (Z.of_nat (S i)) by lia.
  rewrite IH by lia. cbn [bind]. f_equal.
  rewrite (skipn_nth_cons _ i (a, b) E). reflexivity.
Qed.

Definition group_embedded (g : group) : Z * Z := (g_index g, g_length g).

(* newGroup: the captures are the first capcount pairs, the embedded capture is the last one
   (or the zero capture when there is none) *)
Lemma new_group_spec caps (n : nat) :
  (n <= length (cap_pairs caps))%nat ->
  exists g, new_group caps (Z.of_nat n) = Ok g /\
            g_caps g = firstn n (cap_pairs caps) /\
            group_embedded g = last (g_caps g) (0, 0).
Proof.
  intros H. unfold new_group.
  replace (Z.of_nat n <? 0) with false by lia. rewrite Nat2Z.id.
  pose proof (new_group_caps_spec caps n 0 ltac:(lia)) as HC. cbn [Z.of_nat skipn] in HC.
  destruct n as [|n].
  - cbn [Z.of_nat]. cbn [Z.ltb Z.compare bind]. rewrite HC. cbn [bind firstn].
    eexists. split; [reflexivity|]. split; reflexivity.
  - replace (0 <? Z.of_nat (S n)) with true by lia.
    destruct (nth_error (cap_pairs caps) n) as [[a b]|] eqn:E;
      [|apply nth_error_None in E; lia].
    destruct (cap_pairs_nth caps n a b E) as [H1 H2].
    replace ((Z.of_nat (S n) - 1) * 2) with (Z.of_nat n * 2) by lia.
    replace (Z.of_nat (S n) * 2 - 1) with (Z.of_nat n * 2 + 1) by lia.
    rewrite H1, H2. cbn [bind]. rewrite HC. cbn [bind].
    eexists. split; [reflexivity|]. cbn [g_caps group_embedded g_index g_length fst snd].
    split; [reflexivity|].
    rewrite (firstn_S_last _ n (a, b) E). rewrite last_last. reflexivity.
Qed.

Definition in_bounds (n : Z) (c : Z * Z) : Prop := 0 <= fst c /\ 0 <= snd c /\ fst c + snd c <= n.

(* what the interpreter + tidy must establish for one group's storage (the lead's caps_in_bounds):
   capcount pairs are stored, each an in-range (index, length) *)
Definition stored_ok (n : Z) (caps : list Z) (cnt : Z) : Prop :=
  0 <= cnt /\ (Z.to_nat cnt <= length (cap_pairs caps))%nat /\
  Forall (in_bounds n) (firstn (Z.to_nat cnt) (cap_pairs caps)).

Definition group_wf (n : Z) (g : group) : Prop :=
  Forall (in_bounds n) (g_caps g) /\ group_embedded g = last (g_caps g) (0, 0).

Lemma populate_spec n matches matchcount : forall k i,
  (i + k <= length matchcount)%nat -> length matches = length matchcount ->
  (forall j caps cnt, (i <= j < i + k)%nat -> nth_error matches j = Some caps ->
                      nth_error matchcount j = Some cnt -> stored_ok n caps cnt) ->
  exists gs, populate matches matchcount (Z.of_nat i) k = Ok gs /\ length gs = k /\
             Forall (group_wf n) gs /\
             (forall j caps cnt g, (j < k)%nat -> nth_error matches (i + j) = Some caps ->
                nth_error matchcount (i + j) = Some cnt -> nth_error gs j = Some g ->
                g_caps g = firstn (Z.to_nat cnt) (cap_pairs caps)).
Proof.
  induction k as [|k IH]; intros i Hi Hlen Hok.
  - exists []. cbn [populate]. repeat split; try constructor. intros; lia.
  - cbn [populate].
    destruct (nth_error matches i) as [caps|] eqn:Em; [|apply nth_error_None in Em; lia].
    destruct (nth_error matchcount i) as [cnt|] eqn:Ec; [|apply nth_error_None in Ec; lia].
    rewrite (aget_nth _ i _ Em), (aget_nth _ i _ Ec). cbn [bind].
    destruct (Hok i caps cnt ltac:(lia) Em Ec) as (Hc0 & Hcl & Hcb).
    destruct (new_group_spec caps (Z.to_nat cnt) Hcl) as (g & Hg & Hgc & Hge).
    rewrite Z2Nat.id in Hg by lia. rewrite Hg. cbn [bind].
    replace (Z.of_nat i + 1) with (Z.of_nat (S i)) by lia.
    destruct (IH (S i) ltac:(lia) Hlen) as (gs & Hgs & Hgl & Hgw & Hgn).
    { intros j c2 n2 Hj. apply Hok. lia. }
    rewrite Hgs. cbn [bind]. exists (g :: gs). split; [reflexivity|]. split; [cbn [length]; lia|].
    split.
    + constructor; [|exact Hgw]. split; [rewrite Hgc; exact Hcb|exact Hge].
    + intros j c2 n2 g2 Hj Hm2 Hc2 Hg2. destruct j as [|j].
      * rewrite Nat.add_0_r in Hm2, Hc2. cbn [nth_error] in Hg2.
        assert (c2 = caps) by congruence. assert (n2 = cnt) by congruence. assert (g2 = g) by congruence.
        subst. exact Hgc.
      * cbn [nth_error] in Hg2. apply (Hgn j c2 n2 g2); try lia; try assumption.
        -- replace (S i + j)%nat with (i + S j)%nat by lia. exact Hm2.
        -- replace (S i + j)%nat with (i + S j)%nat by lia. exact Hc2.
Qed.

(* Groups(): group 0 as tidy leaves it plus the materialised others; if the stored words of every
   group are in range (caps_in_bounds) then every capture of every group is inside the input,
   group 0 has exactly one capture equal to the match, and each embedded capture is the last one *)
Lemma groups_of_wf n idx len matches matchcount :
  in_bounds n (idx, len) ->
  (1 <= length matchcount)%nat -> length matches = length matchcount ->
  (forall j caps cnt, (1 <= j)%nat -> nth_error matches j = Some caps ->
                      nth_error matchcount j = Some cnt -> stored_ok n caps cnt) ->
  exists gs, groups_of (group0 idx len) matches matchcount = Ok gs /\
             length gs = length matchcount /\
             Forall (group_wf n) gs /\
             (exists others, gs = group0 idx len :: others) /\
             g_caps (group0 idx len) = [(idx, len)] /\
             group_embedded (group0 idx len) = (idx, len).
Proof.
  intros Hb H1 Hlen Hok. unfold groups_of, zlen.
  replace (Z.of_nat (length matchcount) <? 1) with false by lia.
  destruct (populate_spec n matches matchcount (length matchcount - 1) 1 ltac:(lia) Hlen)
    as (gs & Hgs & Hgl & Hgw & _).
  { intros j caps cnt Hj. apply Hok. lia. }
  cbn [Z.of_nat Pos.of_succ_nat] in Hgs. rewrite Hgs. cbn [bind].
  exists (group0 idx len :: gs). split; [reflexivity|]. split; [cbn [length]; lia|].
  split; [|split; [eexists; reflexivity|split; reflexivity]].
  constructor; [|exact Hgw]. split; [cbn [group0 g_caps]; constructor; [exact Hb|constructor]|reflexivity].
Qed.

(* ---------- packaged statements used by Properties/C08.v ---------- *)

Lemma decode_total_full s :
  zsum (widths_of s) = zlen s /\ Forall (fun w => 1 <= w <= 4) (widths_of s).
Proof. split; [apply decode_total|apply decode_widths_range]. Qed.

Lemma decode_encode_full rs :
  decode (encode_string rs) = map (fun r => (sanitize r, Z.to_nat (encode_len r))) rs /\
  (forallb valid_rune rs = true ->
   decode (encode_string rs) = map (fun r => (r, Z.to_nat (rune_len r))) rs) /\
  valid_utf8 (encode_string rs) = true.
Proof.
  split; [apply decode_encode_string|split; [apply decode_encode_valid|apply encode_string_valid]].
Qed.

Lemma offsets_spec_full :
  (forall s, string_byte_offsets s = Ok (offsets_tbl (widths_of s))) /\
  (forall s, new_byte_mapper s = None <-> all_one (widths_of s) = true) /\
  (forall s fuel, (length s < fuel)%nat ->
     bytes_to_runes_and_offsets fuel s = Ok (runes_of s, offsets_tbl (widths_of s))) /\
  (forall items, read_runes items = (map fst items, psums 0 (map snd items))) /\
  (forall rs, rune_byte_offsets rs = Ok (offsets_tbl (map encode_len rs))) /\
  (forall rs, rune_byte_offsets rs = string_byte_offsets (encode_string rs)) /\
  (forall s, valid_utf8 s = true -> rune_byte_offsets (runes_of s) = string_byte_offsets s).
Proof.
  split; [exact string_byte_offsets_spec|].
  split; [exact new_byte_mapper_none|].
  split; [intros s fuel H; apply bytes_to_runes_and_offsets_spec; exact H|].
  split; [exact read_runes_spec|].
  split; [exact rune_byte_offsets_spec|].
  split; [exact rune_offsets_are_string_offsets|exact rune_string_offsets_coincide].
Qed.

Lemma routes_agree s fuel (i l : nat) :
  (i + l <= length (decode s))%nat -> (length s < fuel)%nat ->
  let bi := byte_pos (widths_of s) i in
  let be := byte_pos (widths_of s) (i + l) in
  byte_range (new_string_match_text s (runes_of s)) (Z.of_nat i) (Z.of_nat l) = Ok (bi, be - bi) /\
  find_all_pair fuel (new_byte_mapper s) (Z.of_nat i) (Z.of_nat l) = Ok (bi, be) /\
  (do ro <- bytes_to_runes_and_offsets fuel s ; compat_pair (snd ro) (Z.of_nat i) (Z.of_nat l)) = Ok (bi, be) /\
  compat_pair (Some (snd (read_runes (map (fun p => (fst p, Z.of_nat (snd p))) (decode s)))))
              (Z.of_nat i) (Z.of_nat l) = Ok (bi, be) /\
  0 <= bi <= be /\ be <= zlen s.
Proof.
  intros H Hf bi be.
  split; [apply byte_range_string; exact H|].
  split; [apply find_all_pair_spec; assumption|].
  split; [apply compat_bytes_pair_spec; assumption|].
  split; [apply (compat_reader_pair_spec s i l H)|].
  unfold bi, be. rewrite !byte_pos_boundary. pose proof (boundary_le s (i + l)).
  rewrite boundary_add. unfold zlen. rewrite boundary_add in H0. lia.
Qed.

Lemma rune_input_byte_range rs (i l : nat) :
  (i + l <= length rs)%nat ->
  byte_range (new_match_text rs) (Z.of_nat i) (Z.of_nat l) =
    Ok (zlen (encode_string (firstn i rs)), zlen (encode_string (firstn l (skipn i rs)))) /\
  capture_string (new_match_text rs) (Z.of_nat i) (Z.of_nat l) =
    Ok (encode_string (firstn l (skipn i rs))).
Proof.
  intros H. split.
  - rewrite byte_range_runes by exact H. f_equal.
    assert (G : forall q, byte_pos (elens rs) q = zlen (encode_string (firstn q rs))).
    { clear. intros q. unfold byte_pos, elens, encode_string. revert q.
      induction rs as [|r rs IH]; intros q; [destruct q; reflexivity|].
      destruct q as [|q]; [reflexivity|]. cbn [map firstn zsum fold_right flat_map].
      fold (zsum (firstn q (map encode_len rs))). rewrite IH, zlen_app, encode_length. reflexivity. }
    rewrite !G. f_equal.
    rewrite <- (firstn_skipn i (firstn (i + l) rs)).
    rewrite firstn_firstn, Nat.min_l by lia.
    unfold encode_string. rewrite flat_map_app, zlen_app.
    rewrite skipn_firstn_comm. replace (i + l - i)%nat with l by lia. lia.
  - unfold capture_string. rewrite capture_runes_spec by (cbn [mt_runes new_match_text]; exact H).
    reflexivity.
Qed.
