(* Composition D: the engine hypotheses of the C02 headline (EntryProofs.enp_string_entry_equals_rune_entry)
   discharged for the engine BUILT FROM THE REFERENCE SEMANTICS (Model/Spec.v), left-to-right.

   1. ce_no_start / ce_sem_start_indep : a tree without \G is evaluated without reading [tstart]
      (anchor_ok e AStart is the only reader), so sem / attempt / find do not depend on it.
   2. ce_search : FindRunesMatchStartingAt as Spec.find with \G bound to the start (tstart = s,
      prevlen = -1, left-to-right); ce_index : Match.RuneIndex = start of group 0.
   3. ce_in_range, ce_start_indep, ce_quick_agrees : the three abstract-engine hypotheses.
      The only residual hypothesis is termination of Spec.attempt with the supplied fuel
      (ce_terminates), needed for start independence alone.
   4. ce_has_opcode_start : Code.HasOpcode(Start) on the compiled program = "the tree contains \G",
      for every writer configuration.
   5. ce_string_entry_for_trees : the headline for trees. *)
From Verif Require Import Base.Prelude Base.Utf8 Model.Tree Model.Spec Model.VM Model.Writer Gen.CodeGen
  Model.Analysis Model.Offsets Model.Entry
  Proofs.MaskProofs Proofs.SpecProofs Proofs.SpecBoundsProofs Proofs.AnalysisProofs
  Proofs.EraseProofs Proofs.EraseLinkProofs
  Proofs.Utf8Proofs Proofs.EntryBase Proofs.EntryFilter Proofs.EntryProofs.
From Coq Require Import ZifyBool.
Ltac Zify.zify_post_hook ::= Z.div_mod_to_equations.

(* ================================================================================================
   1. trees without \G do not read the scan start
   ================================================================================================ *)

Fixpoint ce_no_start (t : node) : bool :=
  match t with
  | NAnchor AStart => false
  | NConcat _ l => forallb ce_no_start l
  | NAlternate _ l => forallb ce_no_start l
  | NLoop _ _ _ _ r => ce_no_start r
  | NCapture _ _ _ r => ce_no_start r
  | NGroup r => ce_no_start r
  | NPosLook _ r => ce_no_start r
  | NNegLook _ r => ce_no_start r
  | NAtomic r => ce_no_start r
  | NBackRefCond _ _ yes no => ce_no_start yes && match no with Some n => ce_no_start n | None => true end
  | NExprCond _ c yes no =>
      ce_no_start c && ce_no_start yes && match no with Some n => ce_no_start n | None => true end
  | _ => true
  end.

Lemma ce_no_start_concat o l : ce_no_start (NConcat o l) = forallb ce_no_start l.
Proof. reflexivity. Qed.
Lemma ce_no_start_alternate o l : ce_no_start (NAlternate o l) = forallb ce_no_start l.
Proof. reflexivity. Qed.

(* the environment with only the start changed *)
Definition ce_env_at (e : env) (ts : Z) : env :=
  {| txt := txt e; tstart := ts; ecma := ecma e; endz_strict := endz_strict e; set_in := set_in e;
     lower := lower e; is_word := is_word e; is_eword := is_eword e |}.

Lemma ce_run_len_at e ts k c o : forall maxn p,
  run_len (ce_env_at e ts) k c o maxn p = run_len e k c o maxn p.
Proof. induction maxn as [|m IH]; intros p; cbn [run_len]; [reflexivity|]. rewrite IH. reflexivity. Qed.

Lemma ce_sem_charloop_at e ts k l o c m n s :
  sem_charloop (ce_env_at e ts) k l o c m n s = sem_charloop e k l o c m n s.
Proof. unfold sem_charloop. rewrite ce_run_len_at. reflexivity. Qed.

Lemma ce_str_match_at_at e ts ci : forall str p,
  str_match_at (ce_env_at e ts) ci str p = str_match_at e ci str p.
Proof. induction str as [|c str IH]; intros p; cbn [str_match_at]; [reflexivity|]. rewrite IH. reflexivity. Qed.

Lemma ce_sem_multi_at e ts o str s : sem_multi (ce_env_at e ts) o str s = sem_multi e o str s.
Proof. unfold sem_multi. rewrite ce_str_match_at_at. reflexivity. Qed.

Lemma ce_ref_match_at_at e ts ci : forall len i p,
  ref_match_at (ce_env_at e ts) ci len i p = ref_match_at e ci len i p.
Proof. induction len as [|l IH]; intros i p; cbn [ref_match_at]; [reflexivity|]. rewrite IH. reflexivity. Qed.

Lemma ce_sem_ref_at e ts o g s : sem_ref (ce_env_at e ts) o g s = sem_ref e o g s.
Proof.
  unfold sem_ref. destruct (cap_get g (caps s)) as [|[i len] rest]; [reflexivity|].
  rewrite ce_ref_match_at_at. reflexivity.
Qed.

Theorem ce_sem_at e ts : forall fuel t s,
  ce_no_start t = true -> sem (ce_env_at e ts) fuel t s = sem e fuel t s.
Proof.
  induction fuel as [|f IH]; intros t s Hn; [reflexivity|].
  destruct t as [kd o c|kd lk o c m n|o str|o g|a| | | |o cl|o cl|lazy o m n r|o g u r|r|o r|o r|r
                |o g yes no|o c yes no];
    cbn [sem].
  - reflexivity.
  - rewrite ce_sem_charloop_at. reflexivity.
  - rewrite ce_sem_multi_at. reflexivity.
  - rewrite ce_sem_ref_at. reflexivity.
  - destruct a; try reflexivity. discriminate Hn.
  - reflexivity.
  - reflexivity.
  - reflexivity.
  - (* NConcat *)
    rewrite ce_no_start_concat in Hn. revert s. induction cl as [|x l' IHl]; intros s; [reflexivity|].
    cbn [forallb] in Hn. apply andb_prop in Hn. destruct Hn as [Hx Hl].
    apply mask_bindr_ext; [apply IH; exact Hx|]. intros a. apply IHl. exact Hl.
  - (* NAlternate *)
    rewrite ce_no_start_alternate in Hn. induction cl as [|x l' IHl]; [reflexivity|].
    cbn [forallb] in Hn. apply andb_prop in Hn. destruct Hn as [Hx Hl].
    exact (f_equal2 appr (IH x s Hx) (IHl Hl)).
  - (* NLoop *)
    cbn [ce_no_start] in Hn.
    rewrite (mask_iter_ext (sem (ce_env_at e ts) f r) (sem e f r) (fun s0 => IH r s0 Hn)).
    destruct (m =? 0); [reflexivity|].
    apply mask_bindr_ext; [apply IH; exact Hn|]. intros a.
    apply (mask_iter_ext (sem (ce_env_at e ts) f r) (sem e f r) (fun s0 => IH r s0 Hn)).
  - (* NCapture *) cbn [ce_no_start] in Hn. rewrite (IH r s Hn). reflexivity.
  - cbn [ce_no_start] in Hn. apply IH. exact Hn.
  - cbn [ce_no_start] in Hn. rewrite (IH r s Hn). reflexivity.
  - cbn [ce_no_start] in Hn. rewrite (IH r s Hn). reflexivity.
  - cbn [ce_no_start] in Hn. rewrite (IH r s Hn). reflexivity.
  - (* NBackRefCond *)
    cbn [ce_no_start] in Hn. apply andb_prop in Hn. destruct Hn as [Hy Hno].
    rewrite (IH yes s Hy). destruct no as [n|]; [rewrite (IH n s Hno)|]; reflexivity.
  - (* NExprCond *)
    cbn [ce_no_start] in Hn. apply andb_prop in Hn. destruct Hn as [Hn Hno].
    apply andb_prop in Hn. destruct Hn as [Hc Hy].
    rewrite (IH c s Hc). destruct (first_only (sem e f c s)) as [l| | |]; cbn [bind]; try reflexivity.
    destruct l as [|s' l].
    + destruct no as [n|]; [apply IH; exact Hno|reflexivity].
    + apply IH. exact Hy.
Qed.

Corollary ce_attempt_at e ts fuel root p :
  ce_no_start root = true -> attempt (ce_env_at e ts) fuel root p = attempt e fuel root p.
Proof. intros Hn. unfold attempt. rewrite (ce_sem_at e ts fuel root _ Hn). reflexivity. Qed.

Lemma ce_scan_from_at e ts fuel root rtl : ce_no_start root = true -> forall n p,
  scan_from (ce_env_at e ts) fuel n root rtl p = scan_from e fuel n root rtl p.
Proof.
  intros Hn. induction n as [|n IH]; intros p; [reflexivity|].
  cbn [scan_from]. rewrite (ce_attempt_at e ts fuel root p Hn).
  destruct (attempt e fuel root p) as [[s|]| | |]; cbn [bind]; try reflexivity.
  change (tlen (ce_env_at e ts)) with (tlen e).
  destruct (if rtl then p <=? 0 else tlen e <=? p); [reflexivity|]. apply IH.
Qed.

Corollary ce_find_at e ts fuel root rtl start prevlen :
  ce_no_start root = true ->
  find (ce_env_at e ts) fuel root rtl start prevlen = find e fuel root rtl start prevlen.
Proof.
  intros Hn. unfold find. change (tlen (ce_env_at e ts)) with (tlen e).
  destruct ((prevlen =? 0) && (start =? (if rtl then 0 else tlen e))); [reflexivity|].
  apply ce_scan_from_at. exact Hn.
Qed.

(* two environments that agree on every field except the start *)
Definition ce_same_but_start (e e' : env) : Prop :=
  txt e' = txt e /\ ecma e' = ecma e /\ endz_strict e' = endz_strict e /\ set_in e' = set_in e /\
  lower e' = lower e /\ is_word e' = is_word e /\ is_eword e' = is_eword e.

Lemma ce_same_but_start_at e e' : ce_same_but_start e e' -> e' = ce_env_at e (tstart e').
Proof.
  intros (H1 & H2 & H3 & H4 & H5 & H6 & H7). destruct e, e'. unfold ce_env_at. cbn in *. subst. reflexivity.
Qed.

Theorem ce_sem_start_indep e e' t :
  ce_same_but_start e e' -> ce_no_start t = true ->
  forall fuel,
    (forall s, sem e' fuel t s = sem e fuel t s) /\
    (forall p, attempt e' fuel t p = attempt e fuel t p) /\
    (forall rtl start prevlen, find e' fuel t rtl start prevlen = find e fuel t rtl start prevlen).
Proof.
  intros Hs Hn fuel. rewrite (ce_same_but_start_at e e' Hs). split; [|split].
  - intros s. apply ce_sem_at. exact Hn.
  - intros p. apply ce_attempt_at. exact Hn.
  - intros rtl start prevlen. apply ce_find_at. exact Hn.
Qed.

(* ================================================================================================
   2. the engine built from the reference semantics
   ================================================================================================ *)

(* the oracles of e0 on the text r, \G at ts *)
Definition ce_env (e0 : env) (r : list Z) (ts : Z) : env :=
  {| txt := r; tstart := ts; ecma := ecma e0; endz_strict := endz_strict e0; set_in := set_in e0;
     lower := lower e0; is_word := is_word e0; is_eword := is_eword e0 |}.

(* FindRunesMatchStartingAt(r, s): fresh scan (prevlen = -1), \G = s, left-to-right; an attempt that
   runs out of fuel is "no answer" *)
Definition ce_search (e0 : env) (fuel_of : list Z -> nat) (root : node) (r : list Z) (s : Z) : option st :=
  match find (ce_env e0 r s) (fuel_of r) root false s (-1) with
  | Ok (Some m) => Some m
  | _ => None
  end.

(* Match.RuneIndex: start of the (single) capture of group 0 *)
Definition ce_index (m : st) : Z :=
  match cap_get 0 (caps m) with (i, _) :: _ => i | [] => -1 end.

(* the bool-only search runs the tree of the quick program *)
Definition ce_search_quick (e0 : env) (fuel_of : list Z -> nat) (keep : Z -> bool) (root : node)
           (r : list Z) (s : Z) : bool :=
  match find (ce_env e0 r s) (fuel_of r) (erase keep root) false s (-1) with
  | Ok (Some _) => true
  | _ => false
  end.

(* residual hypothesis: with the fuel supplied for a text, every attempt inside it terminates *)
Definition ce_terminates (e0 : env) (fuel_of : list Z -> nat) (root : node) : Prop :=
  forall r ts x, 0 <= x <= zlen r -> exists res, attempt (ce_env e0 r ts) (fuel_of r) root x = Ok res.

Lemma ce_search_some e0 fuel_of root r s m :
  ce_search e0 fuel_of root r s = Some m ->
  find (ce_env e0 r s) (fuel_of r) root false s (-1) = Ok (Some m).
Proof.
  unfold ce_search. destruct (find (ce_env e0 r s) (fuel_of r) root false s (-1)) as [[m'|]| | |];
    intros H; try discriminate H. injection H as ->. reflexivity.
Qed.

(* ---- the left-to-right scan, characterised ---- *)

Lemma ce_find_scan e fuel root s :
  find e fuel root false s (-1) = scan_from e fuel (S (Z.to_nat (tlen e))) root false s.
Proof. reflexivity. Qed.

Lemma ce_scan_from_first e fuel root : forall n p x m,
  p <= x <= tlen e -> (Z.to_nat (x - p) < n)%nat ->
  (forall q, p <= q < x -> attempt e fuel root q = Ok None) ->
  attempt e fuel root x = Ok (Some m) ->
  scan_from e fuel n root false p = Ok (Some m).
Proof.
  induction n as [|n IH]; intros p x m Hx Hn Hnone Hat; [lia|].
  cbn [scan_from]. destruct (Z.eq_dec p x) as [->|Hne].
  - rewrite Hat. reflexivity.
  - rewrite (Hnone p) by lia. cbn [bind]. replace (tlen e <=? p) with false by lia.
    apply (IH (p + 1) x m); [lia|lia| |exact Hat]. intros q Hq. apply Hnone. lia.
Qed.

Lemma ce_scan_from_none e fuel root : forall n p,
  p <= tlen e -> (Z.to_nat (tlen e - p) < n)%nat ->
  (forall q, p <= q <= tlen e -> attempt e fuel root q = Ok None) ->
  scan_from e fuel n root false p = Ok None.
Proof.
  induction n as [|n IH]; intros p Hp Hn Hnone; [lia|].
  cbn [scan_from]. rewrite (Hnone p) by lia. cbn [bind].
  destruct (tlen e <=? p) eqn:E; [reflexivity|].
  apply IH; [lia|lia|]. intros q Hq. apply Hnone. lia.
Qed.

Lemma ce_scan_from_ok e fuel root : forall n p,
  p <= tlen e -> (forall q, p <= q <= tlen e -> exists res, attempt e fuel root q = Ok res) ->
  exists res, scan_from e fuel n root false p = Ok res.
Proof.
  induction n as [|n IH]; intros p Hp Hok; [exists None; reflexivity|].
  cbn [scan_from]. destruct (Hok p ltac:(lia)) as [res Hres]. rewrite Hres. cbn [bind].
  destruct res as [s|]; [exists (Some s); reflexivity|].
  destruct (tlen e <=? p) eqn:E; [exists None; reflexivity|].
  apply IH; [lia|]. intros q Hq. apply Hok. lia.
Qed.

(* ================================================================================================
   3. the abstract-engine hypotheses hold for it
   ================================================================================================ *)

(* a successful attempt of a well-shaped left-to-right pattern at p reports index p *)
Lemma ce_attempt_index e fuel o body p m :
  shape_ok false (NCapture o 0 (-1) body) = true -> no_group0 body -> 0 <= p <= tlen e ->
  attempt e fuel (NCapture o 0 (-1) body) p = Ok (Some m) -> ce_index m = p.
Proof.
  intros Hsh Hg0 Hp Hat.
  pose proof (an_attempt_len_sound e false fuel _ p m Hsh Hp Hat) as (_ & Hmin & _).
  pose proof (an_min_len_nonneg false _ Hsh) as Hnn. cbv iota in Hmin.
  unfold ce_index. rewrite (sb_group0_single e fuel o body p m Hg0 Hat). lia.
Qed.

Section Engine.
Variable e0 : env.
Variable fuel_of : list Z -> nat.
Variable o : Z.
Variable body : node.
Let root := NCapture o 0 (-1) body.
Hypothesis Hshape : shape_ok false root = true.
Hypothesis Hg0 : no_group0 body.

Theorem ce_in_range : enp_in_range st ce_index (ce_search e0 fuel_of root).
Proof.
  intros r s m Hs H. apply ce_search_some in H.
  pose proof (spec_find_leftmost_some _ _ _ _ _ _ _ H) as X. cbv zeta in X.
  destruct X as [_ (p & Hp & Hat & _)].
  change (first_cand false s (-1)) with s in Hp. change (tlen (ce_env e0 r s)) with (zlen r) in Hp.
  assert (Hpr : 0 <= p <= tlen (ce_env e0 r s)) by (change (tlen (ce_env e0 r s)) with (zlen r); lia).
  rewrite (ce_attempt_index _ _ o body p m Hshape Hg0 Hpr Hat). lia.
Qed.

Theorem ce_start_indep :
  ce_no_start root = true -> ce_terminates e0 fuel_of root ->
  enp_start_indep st ce_index (ce_search e0 fuel_of root).
Proof.
  intros Hns Hterm r s s' Hs Hs' Hm. unfold ce_search in *.
  (* both scans in the environment of the first *)
  change (ce_env e0 r s') with (ce_env_at (ce_env e0 r s) s').
  rewrite (ce_find_at (ce_env e0 r s) s' (fuel_of r) root false s' (-1) Hns).
  set (e := ce_env e0 r s) in *. set (fuel := fuel_of r) in *.
  assert (Hlen : tlen e = zlen r) by reflexivity.
  destruct (find e fuel root false s (-1)) as [[m|]| | |] eqn:E.
  - (* found m: it is the attempt at p >= s', nothing before *)
    pose proof (spec_find_leftmost_some _ _ _ _ _ _ _ E) as X. cbv zeta in X.
    destruct X as [_ (p & Hp & Hat & Hbefore)].
    change (first_cand false s (-1)) with s in Hp, Hbefore.
    assert (Hpr : 0 <= p <= tlen e) by lia.
    pose proof (ce_attempt_index e fuel o body p m Hshape Hg0 Hpr Hat) as Hidx.
    specialize (Hm m eq_refl). rewrite Hidx in Hm.
    rewrite ce_find_scan.
    rewrite (ce_scan_from_first e fuel root _ s' p m); [reflexivity|lia|lia| |exact Hat].
    intros q Hq. apply Hbefore. lia.
  - (* nothing from s: nothing from s' *)
    pose proof (spec_find_leftmost_none e fuel root false s (-1) ltac:(lia) E) as X. cbv zeta in X.
    change (first_cand false s (-1)) with s in X.
    rewrite ce_find_scan. rewrite (ce_scan_from_none e fuel root _ s'); [reflexivity|lia|lia|].
    intros q Hq. apply X. lia.
  - exfalso. rewrite ce_find_scan in E.
    destruct (ce_scan_from_ok e fuel root (S (Z.to_nat (tlen e))) s ltac:(lia)) as [res Hres]; [|congruence].
    intros q Hq. apply (Hterm r s q). lia.
  - exfalso. rewrite ce_find_scan in E.
    destruct (ce_scan_from_ok e fuel root (S (Z.to_nat (tlen e))) s ltac:(lia)) as [res Hres]; [|congruence].
    intros q Hq. apply (Hterm r s q). lia.
  - exfalso. rewrite ce_find_scan in E.
    destruct (ce_scan_from_ok e fuel root (S (Z.to_nat (tlen e))) s ltac:(lia)) as [res Hres]; [|congruence].
    intros q Hq. apply (Hterm r s q). lia.
Qed.

End Engine.

(* the quick search agrees, for any tree, whenever the erased groups are unobserved ... *)
Theorem ce_quick_agrees_of_keep e0 fuel_of keep root :
  (forall g, keep g = false -> observed g root = false) ->
  enp_quick_agrees st (ce_search e0 fuel_of root) (ce_search_quick e0 fuel_of keep root).
Proof.
  intros Hk r s. unfold ce_search, ce_search_quick.
  pose proof (erase_find (ce_env e0 r s) keep (fuel_of r) root false s (-1) Hk) as X. cbv zeta in X.
  destruct X as (H12 & H21 & _ & _).
  destruct (find (ce_env e0 r s) (fuel_of r) root false s (-1)) as [[m|]| | |] eqn:E1.
  - destruct (H12 m eq_refl) as (s2 & -> & _). reflexivity.
  - destruct (find (ce_env e0 r s) (fuel_of r) (erase keep root) false s (-1)) as [[m2|]| | |] eqn:E2; try reflexivity.
    destruct (H21 m2 eq_refl) as (s1 & Hs1 & _). discriminate Hs1.
  - destruct (find (ce_env e0 r s) (fuel_of r) (erase keep root) false s (-1)) as [[m2|]| | |] eqn:E2; try reflexivity.
    destruct (H21 m2 eq_refl) as (s1 & Hs1 & _). discriminate Hs1.
  - destruct (find (ce_env e0 r s) (fuel_of r) (erase keep root) false s (-1)) as [[m2|]| | |] eqn:E2; try reflexivity.
    destruct (H21 m2 eq_refl) as (s1 & Hs1 & _). discriminate Hs1.
  - destruct (find (ce_env e0 r s) (fuel_of r) (erase keep root) false s (-1)) as [[m2|]| | |] eqn:E2; try reflexivity.
    destruct (H21 m2 eq_refl) as (s1 & Hs1 & _). discriminate Hs1.
Qed.

(* ... in particular for the quick program syntax.Write produces *)
Theorem ce_quick_agrees e0 fuel_of cm capsize root prog :
  bal_ok cm root = true ->
  (forall g, reads g root = true -> 0 <= map_capnum {| capmap := cm; quick := None |} g) ->
  write_quick cm capsize root = Some prog ->
  exists keep,
    prog = fst (write_full cm (erase keep root)) /\
    (forall g, map_capnum {| capmap := cm; quick := None |} g = 0 -> keep g = true) /\
    enp_quick_agrees st (ce_search e0 fuel_of root) (ce_search_quick e0 fuel_of keep root).
Proof.
  intros Hb Hr Hw. destruct (write_quick_sound_spelled cm capsize root prog Hb Hr Hw) as (keep & Hp & Hk0 & Hf).
  exists keep. split; [exact Hp|]. split; [exact Hk0|].
  intros r s. unfold ce_search, ce_search_quick.
  pose proof (Hf (ce_env e0 r s) (fuel_of r) false s (-1)) as X. cbv zeta in X.
  destruct X as (H12 & H21 & _ & _).
  destruct (find (ce_env e0 r s) (fuel_of r) root false s (-1)) as [[m|]| | |] eqn:E1.
  - destruct (H12 m eq_refl) as (s2 & -> & _). reflexivity.
  - destruct (find (ce_env e0 r s) (fuel_of r) (erase keep root) false s (-1)) as [[m2|]| | |] eqn:E2; try reflexivity.
    destruct (H21 m2 eq_refl) as (s1 & Hs1 & _). discriminate Hs1.
  - destruct (find (ce_env e0 r s) (fuel_of r) (erase keep root) false s (-1)) as [[m2|]| | |] eqn:E2; try reflexivity.
    destruct (H21 m2 eq_refl) as (s1 & Hs1 & _). discriminate Hs1.
  - destruct (find (ce_env e0 r s) (fuel_of r) (erase keep root) false s (-1)) as [[m2|]| | |] eqn:E2; try reflexivity.
    destruct (H21 m2 eq_refl) as (s1 & Hs1 & _). discriminate Hs1.
  - destruct (find (ce_env e0 r s) (fuel_of r) (erase keep root) false s (-1)) as [[m2|]| | |] eqn:E2; try reflexivity.
    destruct (H21 m2 eq_refl) as (s1 & Hs1 & _). discriminate Hs1.
Qed.

(* ================================================================================================
   4. HasOpcode(Start) on the compiled program  =  the tree contains \G
   ================================================================================================ *)

(* a code fragment that decodes instruction by instruction; the boolean: some instruction is Start *)
Inductive ce_frag : list Z -> bool -> Prop :=
| ce_frag_nil : ce_frag [] false
| ce_frag_ins op args rest b :
    opcode_size op = 1 + zlen args -> ce_frag rest b ->
    ce_frag (op :: args ++ rest) ((Z.land op G_Mask =? G_Start) || b).

Lemma ce_frag_app a : forall b1, ce_frag a b1 -> forall c b2, ce_frag c b2 -> ce_frag (a ++ c) (b1 || b2).
Proof.
  induction 1 as [|op args rest b Hsz Hr IH]; intros c b2 Hc; cbn [app orb].
  - exact Hc.
  - rewrite <- app_assoc. rewrite <- Bool.orb_assoc. apply ce_frag_ins; [exact Hsz|]. apply IH. exact Hc.
Qed.

Lemma ce_frag_i0 op rest k b :
  opcode_size op = 1 -> (Z.land op G_Mask =? G_Start) = k -> ce_frag rest b -> ce_frag (op :: rest) (k || b).
Proof. intros Hs <- H. apply (ce_frag_ins op [] rest); [exact Hs|exact H]. Qed.
Lemma ce_frag_i1 op a rest k b :
  opcode_size op = 2 -> (Z.land op G_Mask =? G_Start) = k -> ce_frag rest b -> ce_frag (op :: a :: rest) (k || b).
Proof. intros Hs <- H. apply (ce_frag_ins op [a] rest); [exact Hs|exact H]. Qed.
Lemma ce_frag_i2 op a a2 rest k b :
  opcode_size op = 3 -> (Z.land op G_Mask =? G_Start) = k -> ce_frag rest b ->
  ce_frag (op :: a :: a2 :: rest) (k || b).
Proof. intros Hs <- H. apply (ce_frag_ins op [a; a2] rest); [exact Hs|exact H]. Qed.

Lemma ce_land_bits base o : 0 <= base < 64 -> Z.land (base + bits_of o) 63 = base.
Proof.
  intros Hb. change 63 with (Z.ones 6). rewrite Z.land_ones by lia. change (2 ^ 6) with 64.
  unfold bits_of, RtlBit, CiBit. destruct (is_rtl o), (is_ci o); lia.
Qed.

(* Code.HasOpcode(Start) walks exactly the instruction boundaries *)
Lemma ce_frag_has_opcode code b : ce_frag code b ->
  forall fuel, (length code < fuel)%nat -> en_has_opcode fuel code G_Start = Ok b.
Proof.
  induction 1 as [|op args rest b Hsz Hr IH]; intros fuel Hf.
  - destruct fuel; [cbn [length] in Hf; lia|]. reflexivity.
  - destruct fuel as [|f]; [cbn [length] in Hf; lia|]. cbn [en_has_opcode].
    destruct (Z.land op G_Mask =? G_Start) eqn:E; [reflexivity|]. cbn [orb].
    change (zassoc (Z.land op G_Mask) opcode_size_tbl 0) with (opcode_size op). cbv zeta.
    assert (Hz : 0 <= zlen args) by (unfold zlen; lia).
    replace (opcode_size op <=? 0) with false by lia.
    assert (Hsk : skipn (Z.to_nat (opcode_size op)) (op :: args ++ rest) = rest).
    { rewrite Hsz. unfold zlen. replace (Z.to_nat (1 + Z.of_nat (length args))) with (S (length args)) by lia.
      cbn [skipn]. rewrite skipn_app, skipn_all, Nat.sub_diag. reflexivity. }
    rewrite Hsk. apply IH. cbn [length] in Hf. rewrite app_length in Hf. lia.
Qed.

Ltac ce_side :=
  unfold opcode_size, G_Mask, G_Start;
  rewrite ?ce_land_bits by (cbv; split; congruence);
  vm_compute; reflexivity.

Ltac ce_build :=
  cbn [app];
  repeat first
    [ apply ce_frag_nil
    | eassumption
    | eapply ce_frag_i2; [solve [ce_side]|solve [ce_side]|]
    | eapply ce_frag_i1; [solve [ce_side]|solve [ce_side]|]
    | eapply ce_frag_i0; [solve [ce_side]|solve [ce_side]|]
    | eapply ce_frag_app; [eassumption|] ].

(* the fragment decodes, and contains Start iff b *)
Definition ce_good (code : list Z) (b : bool) : Prop := exists b', ce_frag code b' /\ b' = b.

Ltac ce_bools :=
  subst; cbn [orb andb negb];
  repeat match goal with |- context [ce_no_start ?t] => destruct (ce_no_start t) end;
  repeat match goal with |- context [forallb ce_no_start ?l] => destruct (forallb ce_no_start l) end;
  reflexivity.

Ltac ce_finish := unfold ce_good; eexists; split; [ce_build|ce_bools].

Lemma ce_emit_good c : forall t a tbl, ce_good (fst (emit c t a tbl)) (negb (ce_no_start t)).
Proof.
  induction t as [kd o ch|kd lk o ch m n|o str|o g|an| | | |o l HF|o l HF|lazy o m n r IHr|o g u r IHr
                 |r IHr|o r IHr|o r IHr|r IHr|o g yes no IHy IHn|o cnd yes no IHc IHy IHn]
    using node_ind'; intros a tbl.
  - cbn [emit fst ce_no_start]. destruct kd; cbn [char_op]; ce_finish.
  - cbn [emit fst ce_no_start]. destruct kd, lk, (0 <? m), (m <? n); cbn [rep_op loop_op app]; ce_finish.
  - cbn [emit ce_no_start]. destruct (string_code str tbl) as [i tbl']. cbn [fst]. ce_finish.
  - cbn [emit fst ce_no_start]. ce_finish.
  - cbn [emit fst]. destruct an; cbn [anchor_code ce_no_start]; ce_finish.
  - cbn [emit fst ce_no_start]. ce_finish.
  - cbn [emit fst ce_no_start]. ce_finish.
  - cbn [emit fst ce_no_start]. ce_finish.
  - (* NConcat *)
    rewrite wr_emit_concat_eq, ce_no_start_concat. revert a tbl.
    induction HF as [|x l Hx HF IH]; intros a tbl; cbn [emit_seq forallb].
    + cbn [fst]. ce_finish.
    + destruct (Hx a tbl) as (b1 & F1 & L1). destruct (emit c x a tbl) as [cx tb1]. cbn [fst] in F1.
      destruct (IH (a + zlen cx) tb1) as (b2 & F2 & L2).
      destruct (emit_seq c l (a + zlen cx) tb1) as [cr tb2]. cbn [fst] in F2 |- *. ce_finish.
  - (* NAlternate *)
    rewrite wr_emit_alternate_eq, ce_no_start_alternate.
    generalize (a + csize c (NAlternate o l)) as lend. intros lend. revert a tbl.
    induction HF as [|x l Hx HF IH]; intros a tbl.
    + cbn [emit_alt fst forallb]. ce_finish.
    + destruct l as [|y l].
      * cbn [emit_alt forallb]. rewrite Bool.andb_true_r. apply Hx.
      * rewrite wr_emit_alt_cons2.
        destruct (Hx (a + 2) tbl) as (b1 & F1 & L1). destruct (emit c x (a + 2) tbl) as [cx tb1].
        cbn [fst] in F1. cbv zeta.
        destruct (IH (a + 2 + zlen cx + 2) tb1) as (b2 & F2 & L2).
        destruct (emit_alt c lend (y :: l) (a + 2 + zlen cx + 2) tb1) as [cr tb2]. cbn [fst] in F2 |- *.
        change (forallb ce_no_start (x :: y :: l)) with (ce_no_start x && forallb ce_no_start (y :: l)).
        ce_finish.
  - (* NLoop *)
    cbn [emit ce_no_start]. cbv zeta.
    match goal with |- context [emit c r ?x tbl] => destruct (IHr x tbl) as (b1 & F1 & L1);
                                                     destruct (emit c r x tbl) as [cr tb1] end.
    cbn [fst] in F1 |- *.
    destruct lazy, (counted m n), (m =? 0); cbn [app]; ce_finish.
  - (* NCapture *)
    cbn [emit ce_no_start]. destruct (emit_capture c g u).
    + destruct (IHr (a + 1) tbl) as (b1 & F1 & L1). destruct (emit c r (a + 1) tbl) as [cr tb1].
      cbn [fst] in F1 |- *. ce_finish.
    + apply IHr.
  - cbn [emit ce_no_start]. apply IHr.
  - (* NPosLook *)
    cbn [emit ce_no_start]. destruct (IHr (a + 2) tbl) as (b1 & F1 & L1). destruct (emit c r (a + 2) tbl) as [cr tb1].
    cbn [fst] in F1 |- *. ce_finish.
  - (* NNegLook *)
    cbn [emit ce_no_start]. destruct (IHr (a + 3) tbl) as (b1 & F1 & L1). destruct (emit c r (a + 3) tbl) as [cr tb1].
    cbn [fst] in F1 |- *. ce_finish.
  - (* NAtomic *)
    cbn [emit ce_no_start]. destruct (IHr (a + 1) tbl) as (b1 & F1 & L1). destruct (emit c r (a + 1) tbl) as [cr tb1].
    cbn [fst] in F1 |- *. ce_finish.
  - (* NBackRefCond *)
    cbn [emit ce_no_start]. destruct (IHy (a + 6) tbl) as (b1 & F1 & L1). destruct (emit c yes (a + 6) tbl) as [cy tb1].
    cbn [fst] in F1. cbv zeta.
    destruct no as [x|]; cbn [opt_all] in IHn.
    + match goal with |- context [emit c x ?p tb1] => destruct (IHn p tb1) as (b2 & F2 & L2);
                                                       destruct (emit c x p tb1) as [cn tb2] end.
      cbn [fst] in F2 |- *. ce_finish.
    + cbn [fst]. ce_finish.
  - (* NExprCond *)
    cbn [emit ce_no_start]. destruct (IHc (a + 4) tbl) as (b0 & F0 & L0). destruct (emit c cnd (a + 4) tbl) as [cc tb0].
    cbn [fst] in F0. cbv zeta.
    match goal with |- context [emit c yes ?p tb0] => destruct (IHy p tb0) as (b1 & F1 & L1);
                                                      destruct (emit c yes p tb0) as [cy tb1] end.
    cbn [fst] in F1.
    destruct no as [x|]; cbn [opt_all] in IHn.
    + match goal with |- context [emit c x ?p tb1] => destruct (IHn p tb1) as (b2 & F2 & L2);
                                                       destruct (emit c x p tb1) as [cn tb2] end.
      cbn [fst] in F2 |- *. ce_finish.
    + cbn [fst]. ce_finish.
Qed.

Theorem ce_has_opcode_start c root :
  en_has_opcode (S (length (fst (compile c root)))) (fst (compile c root)) G_Start =
  Ok (negb (ce_no_start root)).
Proof.
  unfold compile.
  destruct (ce_emit_good c root 2 []) as (b1 & F1 & L1). destruct (emit c root 2 []) as [cr tbl].
  cbn [fst] in F1 |- *.
  assert (G : ce_good ([Lazybranch; 2 + zlen cr] ++ cr ++ [Stop]) (negb (ce_no_start root))) by ce_finish.
  destruct G as (b & F & <-). apply (ce_frag_has_opcode _ _ F). lia.
Qed.

Corollary ce_no_opcode_start_no_anchor c root :
  en_has_opcode (S (length (fst (compile c root)))) (fst (compile c root)) G_Start = Ok false ->
  ce_no_start root = true.
Proof.
  rewrite ce_has_opcode_start. intros H. injection H as H. destruct (ce_no_start root); [reflexivity|discriminate H].
Qed.

(* ================================================================================================
   5. the headline for trees
   ================================================================================================ *)

Theorem ce_string_entry_for_trees
  (e0 : env) (fuel_of : list Z -> nat) (search_quick : list Z -> Z -> bool)
  (c : en_code) (flt : option en_filter) (cfg : wcfg) (o : Z) (body : node) :
  let root := NCapture o 0 (-1) body in
  let search := ce_search e0 fuel_of root in
  cd_rtl c = false ->
  cd_codes c = fst (compile cfg root) ->
  en_new_filter c = Ok flt ->
  shape_ok false root = true ->
  no_group0 body ->
  ce_terminates e0 fuel_of root ->
  enp_quick_agrees st search search_quick ->
  (forall o' f, cd_opts c = Some o' -> flt = Some f ->
     forall b q, enp_starts st ce_index search (runes_of b) q -> enp_code_fact o' (runes_of b) q) ->
  forall b : list Z,
    let r := runes_of b in
    en_find_string_match st search false flt b = en_find_runes_match st search false r /\
    (forall k, (k <= length r)%nat ->
       en_find_string_match_starting_at st search false flt b (Z.of_nat (boundary b k)) =
       en_find_runes_match_starting_at st search false r (Z.of_nat k)) /\
    (forall i, i < 0 ->
       en_find_string_match_starting_at st search false flt b i = en_find_runes_match_starting_at st search false r i) /\
    (forall i, zlen b < i -> en_find_string_match_starting_at st search false flt b i = Err ERR_START_TOO_LARGE) /\
    (forall i, 0 <= i <= zlen b -> en_is_boundary b i = false ->
       en_find_string_match_starting_at st search false flt b i = Err ERR_START_NOT_BOUNDARY) /\
    en_match_string search_quick false flt b = en_match_runes search_quick false r.
Proof.
  intros root search Hrtl Hcodes Hflt Hshape Hg0 Hterm Hq Hfacts b.
  pose proof (enp_string_entry_equals_rune_entry st ce_index search search_quick c flt Hflt
                (ce_in_range e0 fuel_of o body Hshape Hg0) Hq) as X.
  rewrite Hrtl in X. apply X.
  - rewrite Hcodes. intros Hop. apply (ce_start_indep e0 fuel_of o body Hshape Hg0); [|exact Hterm].
    apply (ce_no_opcode_start_no_anchor cfg). exact Hop.
  - exact Hfacts.
Qed.

(* ... with the bool-only search instantiated by the tree of the quick program syntax.Write built *)
Theorem ce_string_entry_for_trees_quick
  (e0 : env) (fuel_of : list Z -> nat)
  (c : en_code) (flt : option en_filter) (cfg : wcfg) (o : Z) (body : node)
  (cm : option (list (Z * Z))) (capsize : Z) (prog : list Z) :
  let root := NCapture o 0 (-1) body in
  let search := ce_search e0 fuel_of root in
  cd_rtl c = false ->
  cd_codes c = fst (compile cfg root) ->
  en_new_filter c = Ok flt ->
  shape_ok false root = true ->
  no_group0 body ->
  ce_terminates e0 fuel_of root ->
  bal_ok cm root = true ->
  (forall g, reads g root = true -> 0 <= map_capnum {| capmap := cm; quick := None |} g) ->
  write_quick cm capsize root = Some prog ->
  (forall o' f, cd_opts c = Some o' -> flt = Some f ->
     forall b q, enp_starts st ce_index search (runes_of b) q -> enp_code_fact o' (runes_of b) q) ->
  exists keep,
    prog = fst (write_full cm (erase keep root)) /\
    forall b : list Z,
      let r := runes_of b in
      let search_quick := ce_search_quick e0 fuel_of keep root in
      en_find_string_match st search false flt b = en_find_runes_match st search false r /\
      (forall k, (k <= length r)%nat ->
         en_find_string_match_starting_at st search false flt b (Z.of_nat (boundary b k)) =
         en_find_runes_match_starting_at st search false r (Z.of_nat k)) /\
      (forall i, i < 0 ->
         en_find_string_match_starting_at st search false flt b i = en_find_runes_match_starting_at st search false r i) /\
      (forall i, zlen b < i -> en_find_string_match_starting_at st search false flt b i = Err ERR_START_TOO_LARGE) /\
      (forall i, 0 <= i <= zlen b -> en_is_boundary b i = false ->
         en_find_string_match_starting_at st search false flt b i = Err ERR_START_NOT_BOUNDARY) /\
      en_match_string search_quick false flt b = en_match_runes search_quick false r.
Proof.
  intros root search Hrtl Hcodes Hflt Hshape Hg0 Hterm Hbal Hreads Hw Hfacts.
  destruct (ce_quick_agrees e0 fuel_of cm capsize root prog Hbal Hreads Hw) as (keep & Hp & _ & Hq).
  exists keep. split; [exact Hp|]. intros b.
  exact (ce_string_entry_for_trees e0 fuel_of (ce_search_quick e0 fuel_of keep root) c flt cfg o body
           Hrtl Hcodes Hflt Hshape Hg0 Hterm Hq Hfacts b).
Qed.

(* ================================================================================================
   6. non-vacuity
   ================================================================================================ *)
From Verif Require Import Proofs.EntryExamples.

Definition ce_x_env : env :=
  {| txt := []; tstart := 0; ecma := false; endz_strict := false; set_in := fun _ _ => false;
     lower := fun x => x; is_word := fun _ => false; is_eword := fun _ => false |}.
(* abc  and  \Gabc  under the root capture *)
Definition ce_x_abc_body : node := NMulti 0 [97; 98; 99].
Definition ce_x_abc : node := NCapture 0 0 (-1) ce_x_abc_body.
Definition ce_x_G_body : node := NConcat 0 [NAnchor AStart; NMulti 0 [97; 98; 99]].
Definition ce_x_G : node := NCapture 0 0 (-1) ce_x_G_body.
Definition ce_x_fuel (_ : list Z) : nat := 4%nat.
Definition ce_x_cfg : wcfg := {| capmap := None; quick := None |}.
(* the program data of abc: compiled codes, the FindOptimizations record of EntryExamples.enx_code_abc *)
Definition ce_x_code_abc : en_code :=
  {| cd_rtl := false; cd_codes := fst (compile ce_x_cfg ce_x_abc); cd_opts := cd_opts enx_code_abc |}.

Lemma ce_x_abc_terminates : ce_terminates ce_x_env ce_x_fuel ce_x_abc.
Proof.
  intros r ts x Hx. unfold attempt, ce_x_fuel, ce_x_abc, ce_x_abc_body. cbn [sem Z.eqb].
  unfold sem_multi. cbn [bindr bind].
  repeat match goal with |- context [if ?c then _ else _] => destruct c end; cbn [bindl bind app];
    eexists; reflexivity.
Qed.

Lemma ce_x_G_terminates : ce_terminates ce_x_env ce_x_fuel ce_x_G.
Proof.
  intros r ts x Hx. unfold attempt, ce_x_fuel, ce_x_G, ce_x_G_body. cbn [sem Z.eqb].
  unfold sem_multi. cbn [bindr bind].
  repeat match goal with |- context [if ?c then _ else _] => destruct c end; cbn [bindr bindl bind app];
  repeat match goal with |- context [if ?c then _ else _] => destruct c end; cbn [bindr bindl bind app];
    eexists; reflexivity.
Qed.

Lemma ce_x_G_no_group0 : no_group0 ce_x_G_body.
Proof. unfold no_group0. cbn. tauto. Qed.
Lemma ce_x_abc_no_group0 : no_group0 ce_x_abc_body.
Proof. unfold no_group0. cbn. tauto. Qed.

(* \Gabc: every hypothesis of ce_start_indep except "no \G" holds (shape, group 0, termination), the
   compiled program has a Start instruction, and start independence fails: on "xabc" nothing is found
   from 0, a match at 1 is found from 1. *)
Example ce_x_G_start_indep_fails :
  shape_ok false ce_x_G = true /\ no_group0 ce_x_G_body /\ ce_terminates ce_x_env ce_x_fuel ce_x_G /\
  ce_no_start ce_x_G = false /\
  fst (compile ce_x_cfg ce_x_G) = [23; 9; 31; 19; 12; 0; 32; 0; -1; 40] /\
  en_has_opcode (S (length (fst (compile ce_x_cfg ce_x_G)))) (fst (compile ce_x_cfg ce_x_G)) G_Start = Ok true /\
  ce_search ce_x_env ce_x_fuel ce_x_G [120; 97; 98; 99] 0 = None /\
  ce_search ce_x_env ce_x_fuel ce_x_G [120; 97; 98; 99] 1 = Some {| pos := 4; caps := [(0, [(1, 3)])] |} /\
  ~ enp_start_indep st ce_index (ce_search ce_x_env ce_x_fuel ce_x_G).
Proof.
  split; [reflexivity|]. split; [exact ce_x_G_no_group0|]. split; [exact ce_x_G_terminates|].
  split; [reflexivity|]. split; [vm_compute; reflexivity|]. split; [vm_compute; reflexivity|].
  split; [vm_compute; reflexivity|]. split; [vm_compute; reflexivity|].
  intros H. specialize (H [120; 97; 98; 99] 0 1 ltac:(lia) ltac:(cbv; congruence)).
  assert (X : forall m, ce_search ce_x_env ce_x_fuel ce_x_G [120; 97; 98; 99] 0 = Some m -> 1 <= ce_index m).
  { intros m Hm. vm_compute in Hm. discriminate Hm. }
  specialize (H X). vm_compute in H. discriminate H.
Qed.

(* abc: what a successful attempt says about the text *)
Lemma ce_x_skipn_nth {A} (d : A) : forall n l, (n < length l)%nat -> skipn n l = nth n l d :: skipn (S n) l.
Proof.
  induction n as [|n IH]; intros l Hn; destruct l as [|a l]; cbn [length] in Hn; try lia; [reflexivity|].
  cbn [skipn nth]. rewrite (IH l) by lia. reflexivity.
Qed.

Lemma ce_x_str_match_prefix e : forall str p,
  0 <= p -> p + zlen str <= tlen e -> str_match_at e false str p = true ->
  en_has_prefix (skipn (Z.to_nat p) (txt e)) str = true.
Proof.
  induction str as [|c str IH]; intros p Hp Hlen H; [destruct (skipn (Z.to_nat p) (txt e)); reflexivity|].
  cbn [str_match_at] in H. apply andb_prop in H. destruct H as [Hc Hr].
  unfold tlen, zlen in *. cbn [length] in Hlen.
  rewrite (ce_x_skipn_nth 0) by lia. cbn [en_has_prefix]. unfold char_at in Hc. rewrite Hc. cbn [andb].
  replace (S (Z.to_nat p)) with (Z.to_nat (p + 1)) by lia. apply IH; [lia|lia|exact Hr].
Qed.

Lemma ce_x_abc_attempt r ts q m : 0 <= q ->
  attempt (ce_env ce_x_env r ts) 4 ce_x_abc q = Ok (Some m) ->
  en_has_prefix (skipn (Z.to_nat q) r) enx_abc = true.
Proof.
  intros Hq H. unfold attempt, ce_x_abc, ce_x_abc_body in H. cbn [sem Z.eqb] in H.
  unfold sem_multi in H. cbn [bindr bind pos] in H.
  change (is_rtl 0) with false in H. change (is_ci 0) with false in H. unfold avail in H.
  change (is_rtl 0) with false in H. cbv iota in H.
  destruct (tlen (ce_env ce_x_env r ts) - q <? zlen [97; 98; 99]) eqn:E1; [discriminate H|].
  destruct (str_match_at (ce_env ce_x_env r ts) false [97; 98; 99] q) eqn:E2; [|discriminate H].
  apply (ce_x_str_match_prefix (ce_env ce_x_env r ts) [97; 98; 99] q Hq); [lia|exact E2].
Qed.

(* every hypothesis of ce_string_entry_for_trees holds together for the pattern abc (filter: prefix
   "abc"), including the published facts at every match start ... *)
Lemma ce_x_abc_hypotheses :
  let search := ce_search ce_x_env ce_x_fuel ce_x_abc in
  cd_rtl ce_x_code_abc = false /\
  cd_codes ce_x_code_abc = fst (compile ce_x_cfg ce_x_abc) /\
  en_new_filter ce_x_code_abc = Ok enx_flt_abc /\
  shape_ok false ce_x_abc = true /\
  no_group0 ce_x_abc_body /\
  ce_terminates ce_x_env ce_x_fuel ce_x_abc /\
  enp_quick_agrees st search (ce_search_quick ce_x_env ce_x_fuel (fun _ => true) ce_x_abc) /\
  (forall o' f, cd_opts ce_x_code_abc = Some o' -> enx_flt_abc = Some f ->
     forall b q, enp_starts st ce_index search (runes_of b) q -> enp_code_fact o' (runes_of b) q).
Proof.
  cbv zeta. split; [reflexivity|]. split; [reflexivity|]. split; [vm_compute; reflexivity|].
  split; [reflexivity|]. split; [exact ce_x_abc_no_group0|]. split; [exact ce_x_abc_terminates|].
  split; [apply ce_quick_agrees_of_keep; intros g Hg; discriminate Hg|].
  intros o' f Ho _ b q (m & Hm & Hidx). injection Ho as <-.
  apply ce_search_some in Hm.
  pose proof (spec_find_leftmost_some _ _ _ _ _ _ _ Hm) as X. cbv zeta in X.
  destruct X as [_ (p & Hp & Hat & _)].
  change (first_cand false (Z.of_nat q) (-1)) with (Z.of_nat q) in Hp.
  assert (Hlen : tlen (ce_env ce_x_env (runes_of b) (Z.of_nat q)) = zlen (runes_of b)) by reflexivity.
  assert (Hq : Z.of_nat q <= zlen (runes_of b)).
  { destruct Hp as [Hp1 [->|Hp2]].
    - unfold ce_x_fuel in Hat. pose proof (ce_x_abc_attempt (runes_of b) (Z.of_nat q) (Z.of_nat q) m ltac:(lia) Hat) as Hpre.
      apply enb_has_prefix_length in Hpre. rewrite skipn_length in Hpre. cbn [enx_abc length] in Hpre.
      unfold zlen. lia.
    - lia. }
  assert (Hpr : 0 <= p <= tlen (ce_env ce_x_env (runes_of b) (Z.of_nat q))) by lia.
  pose proof (ce_attempt_index _ _ 0 ce_x_abc_body p m eq_refl ce_x_abc_no_group0 Hpr Hat) as Hip.
  assert (Epq : p = Z.of_nat q) by lia. clear Hip. rewrite Epq in Hat.
  unfold ce_x_fuel in Hat. pose proof (ce_x_abc_attempt (runes_of b) (Z.of_nat q) (Z.of_nat q) m ltac:(lia) Hat) as Hpre.
  rewrite Nat2Z.id in Hpre.
  destruct (enx_abc_lit_fact _ _ Hpre) as [HM HL].
  unfold enp_code_fact. cbn [enx_code_abc cd_opts fo_mode fo_min fo_prefix].
  split; [exact HM|]. split; [intros _; exact HL|].
  repeat split; intros E; discriminate E.
Qed.

(* ... and on "xéabc" both entry points report the match at rune 2 (bytes 3..6) *)
Example ce_x_abc_witness :
  let b := [120; 195; 169; 97; 98; 99] in
  let search := ce_search ce_x_env ce_x_fuel ce_x_abc in
  ce_no_start ce_x_abc = true /\
  cd_codes ce_x_code_abc = [23; 8; 31; 12; 0; 32; 0; -1; 40] /\
  en_has_opcode (S (length (cd_codes ce_x_code_abc))) (cd_codes ce_x_code_abc) G_Start = Ok false /\
  en_find_string_match st search false enx_flt_abc b =
    Ok (Some {| pos := 5; caps := [(0, [(2, 3)])] |}) /\
  en_find_runes_match st search false (runes_of b) = Ok (Some {| pos := 5; caps := [(0, [(2, 3)])] |}) /\
  en_match_string (ce_search_quick ce_x_env ce_x_fuel (fun _ => true) ce_x_abc) false enx_flt_abc b = Ok true.
Proof. vm_compute. repeat split; reflexivity. Qed.
