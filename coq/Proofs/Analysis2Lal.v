(* C04, part 8: soundness of findLiteralFollowingLeadingLoop (Analysis2.find_lit_after_loop), with
   findPrefixOrdinalCaseInsensitive (ci_prefix) and the completeness of GetSetChars it needs:
   every match of a left-to-right pattern starts with a run of loop-set characters followed by the literal. *)
From Coq Require Import ZifyBool.
From Verif Require Import Base.Prelude Model.CharClass Base.Utf8 Model.Tree Model.Spec Model.Analysis Model.Analysis2
     Proofs.SpecProofs Proofs.Utf8Proofs Proofs.CharClassRanges Proofs.CharClassProofs
     Proofs.AnalysisReach Proofs.AnalysisProofs Proofs.AnalysisPrefix Proofs.Analysis2Cls.

(* ------------------------------------------------------------------------------------------ *)
(* UTF-8: a byte prefix that is the encoding of valid scalars is a rune prefix                  *)

Lemma lal_valid_encode_len r : Utf8.valid_rune r = true -> Z.to_nat (rune_len r) = length (encode r).
Proof.
  intros H. pose proof (encode_length r) as HL. unfold encode_len in HL. pose proof (rune_len_valid r H).
  replace (rune_len r <? 0) with false in HL by lia. unfold zlen in HL. lia.
Qed.

Lemma lal_utf8_prefix : forall R T rest,
  forallb Utf8.valid_rune R = true -> forallb Utf8.valid_rune T = true ->
  encode_string T = encode_string R ++ rest -> exists T', T = R ++ T'.
Proof.
  induction R as [|r R IH]; intros T rest HR HT E; [exists T; reflexivity|].
  cbn [forallb] in HR. apply andb_true_iff in HR. destruct HR as [Hr HR].
  unfold encode_string in E. cbn [flat_map] in E. fold (encode_string R) in E.
  destruct T as [|c T].
  - cbn [flat_map] in E. pose proof (encode_length r) as HL. pose proof (encode_len_range r).
    apply (f_equal (@length Z)) in E. rewrite !app_length in E. cbn [length] in E. unfold zlen in HL. lia.
  - cbn [flat_map] in E. fold (encode_string T) in E.
    cbn [forallb] in HT. apply andb_true_iff in HT. destruct HT as [Hc HT].
    pose proof (decode_rune_encode c (encode_string T) Hc) as D1.
    rewrite E, <- app_assoc in D1. rewrite (decode_rune_encode r _ Hr) in D1.
    injection D1 as Hcr _. subst c.
    rewrite <- app_assoc in E. apply app_inv_head in E.
    destruct (IH T rest HR HT E) as [T' ->]. exists T'. reflexivity.
Qed.

Ltac Zify.zify_post_hook ::= Z.div_mod_to_equations.

Lemma lal_encode_first r : match encode r with b :: _ => 0 <= b | [] => False end.
Proof.
  unfold encode, encode_error. repeat break_if; cbv iota beta; lia.
Qed.

Lemma lal_first_byte_nonneg b q T : an_prefix (b :: q) (encode_string T) -> 0 <= b.
Proof.
  intros [rest H]. destruct T as [|c T]; [discriminate H|].
  unfold encode_string in H. cbn [flat_map] in H. pose proof (lal_encode_first c) as Hf.
  destruct (encode c) as [|b0 t]; [destruct Hf|]. cbn [app] in H. injection H as <- _. exact Hf.
Qed.

(* the runes of a valid UTF-8 string are valid scalars *)
Lemma lal_runes_valid s : valid_utf8 s = true -> forallb Utf8.valid_rune (runes_of s) = true.
Proof.
  unfold valid_utf8, runes_of. intros H. rewrite forallb_forall in *. intros r Hin.
  apply in_map_iff in Hin. destruct Hin as [[r' w] [<- Hin]]. specialize (H _ Hin).
  unfold valid_pair in H. cbn [fst snd] in *.
  destruct (Utf8.valid_rune r') eqn:V; [reflexivity|]. pose proof (rune_len_invalid r' V). lia.
Qed.

(* ------------------------------------------------------------------------------------------ *)
(* inversion of Reach on the node kinds the analysis walks through                              *)

Section Inv.
Variable e : env.

Lemma lal_inv_char k o c s y : Reach e (NChar k o c) s y ->
  y = with_pos s (pos s + dir o) /\ (0 <? avail e o (pos s)) && char_test e k c (next_char e o (pos s)) = true.
Proof. intros H. inversion H; subst. split; [reflexivity|assumption]. Qed.

Lemma lal_inv_charloop k l o c m n s y : Reach e (NCharLoop k l o c m n) s y -> In y (sem_charloop e k l o c m n s).
Proof. intros H. inversion H; subst. assumption. Qed.

Lemma lal_inv_multi o str s y : Reach e (NMulti o str) s y -> In y (sem_multi e o str s).
Proof. intros H. inversion H; subst. assumption. Qed.

Lemma lal_inv_empty s y : Reach e NEmpty s y -> y = s.
Proof. intros H. inversion H; subst. reflexivity. Qed.

Lemma lal_inv_bump s y : Reach e NBump s y -> y = s.
Proof. intros H. inversion H; subst. reflexivity. Qed.

Lemma lal_inv_group r s y : Reach e (NGroup r) s y -> Reach e r s y.
Proof. intros H. inversion H; subst. assumption. Qed.

Lemma lal_inv_poslook o r s y : Reach e (NPosLook o r) s y -> pos y = pos s.
Proof. intros H. inversion H; subst. reflexivity. Qed.

Lemma lal_inv_neglook o r s y : Reach e (NNegLook o r) s y -> y = s.
Proof. intros H. inversion H; subst. reflexivity. Qed.

(* a loop with a positive minimum starts with one iteration of its body *)
Lemma lal_inv_loop lz o m n r s y : Reach e (NLoop lz o m n r) s y -> 0 < m ->
  exists s1, Reach e r s s1 /\ ReachIter e r (loop_limit m n) s1 (1 - m) y.
Proof. intros H Hm. inversion H; subst; [lia|]. eexists. split; eassumption. Qed.

Lemma lal_run_nth k c o : is_rtl o = false -> forall maxn p i,
  0 <= i < run_len e k c o maxn p -> char_test e k c (char_at e (p + i)) = true /\ p + i < tlen e.
Proof.
  intros Ho. induction maxn as [|m IH]; intros p i Hi; cbn [run_len] in Hi; [lia|].
  unfold avail, next_char, dir in Hi. rewrite Ho in Hi.
  destruct ((0 <? tlen e - p) && char_test e k c (char_at e p)) eqn:E; [|lia].
  apply andb_true_iff in E. destruct E as [Hav Hc].
  destruct (Z.eq_dec i 0) as [->|Hn]; [replace (p + 0) with p by lia; split; [exact Hc|lia]|].
  replace (p + i) with (p + 1 + (i - 1)) by lia. apply IH. lia.
Qed.

(* the Atomic / Capture wrappers do not change where a node starts and ends *)
Lemma lal_unwrap_ac : forall t sa sb, Reach e t sa sb -> exists sb', Reach e (unwrap_ac t) sa sb' /\ pos sb' = pos sb.
Proof.
  induction t; intros sa sb H; cbn [unwrap_ac]; try (exists sb; split; [exact H|reflexivity]).
  - destruct (an_reach_capture_inv e _ _ _ _ _ _ H) as [s1 [H1 Hp]].
    destruct (IHt _ _ H1) as [y' [H2 Hp2]]. exists y'. split; [exact H2|lia].
  - apply an_reach_atomic_inv in H. exact (IHt _ _ H).
Qed.

(* unwrapImmediateLiteralAfterLoopNode: the node found starts where the wrapped one does *)
Lemma lal_unwrap_imm : forall t nc sa sb, unwrap_imm t = Some nc -> Reach e t sa sb -> exists sb', Reach e nc sa sb'.
Proof.
  induction t using MaskProofs.node_ind'; intros nc sa sb Hu Hr; cbn [unwrap_imm] in Hu;
    try (injection Hu as <-; exists sb; exact Hr).
  - (* NConcat *)
    destruct l as [|x l']; [discriminate Hu|]. apply an_reach_concat_inv in Hr.
    destruct (an_reachseq_cons_inv e _ _ _ _ Hr) as [s1 [H1 _]].
    inversion H as [|? ? Px _]; subst. exact (Px nc sa s1 Hu H1).
  - (* NCapture *)
    destruct (an_reach_capture_inv e _ _ _ _ _ _ Hr) as [s1 [H1 _]]. exact (IHt nc sa s1 Hu H1).
  - apply lal_inv_group in Hr. exact (IHt nc sa sb Hu Hr).
  - apply an_reach_atomic_inv in Hr. exact (IHt nc sa sb Hu Hr).
Qed.

End Inv.

(* shape / case flags are inherited by what the unwrappers return *)
Lemma lal_unwrap_ac_shape d : forall t, shape_ok d t = true -> shape_ok d (unwrap_ac t) = true.
Proof. induction t; cbn [unwrap_ac shape_ok]; auto. Qed.
Lemma lal_unwrap_ac_noci : forall t, no_ci_lit t = true -> no_ci_lit (unwrap_ac t) = true.
Proof. induction t; cbn [unwrap_ac no_ci_lit]; auto. Qed.

Lemma lal_unwrap_imm_shape d : forall t nc, unwrap_imm t = Some nc -> shape_ok d t = true -> shape_ok d nc = true.
Proof.
  induction t using MaskProofs.node_ind'; intros nc Hu Hs; cbn [unwrap_imm] in Hu; try (injection Hu as <-; exact Hs).
  - destruct l as [|x l']; [discriminate Hu|]. cbn [shape_ok forallb] in Hs. apply andb_true_iff in Hs.
    inversion H as [|? ? Px _]; subst. apply Px; tauto.
  - cbn [shape_ok] in Hs. auto.
  - cbn [shape_ok] in Hs. auto.
  - cbn [shape_ok] in Hs. auto.
Qed.
Lemma lal_unwrap_imm_noci : forall t nc, unwrap_imm t = Some nc -> no_ci_lit t = true -> no_ci_lit nc = true.
Proof.
  induction t using MaskProofs.node_ind'; intros nc Hu Hs; cbn [unwrap_imm] in Hu; try (injection Hu as <-; exact Hs).
  - destruct l as [|x l']; [discriminate Hu|]. cbn [no_ci_lit forallb] in Hs. apply andb_true_iff in Hs.
    inversion H as [|? ? Px _]; subst. apply Px; tauto.
  - cbn [no_ci_lit] in Hs. auto.
  - cbn [no_ci_lit] in Hs. auto.
  - cbn [no_ci_lit] in Hs. auto.
Qed.

(* ------------------------------------------------------------------------------------------ *)
(* GetSetChars enumerates exactly the characters of the ranges (that CharIn accepts, when the    *)
(* class has a subtraction)                                                                     *)

Lemma gsc_range_spec (keep : Z -> bool) : forall n budget ch b' l,
  gsc_range keep budget n ch = Some (b', l) ->
  (n <= budget)%nat /\ forall x, In x l <-> (ch <= x < ch + Z.of_nat n /\ keep x = true).
Proof.
  induction n as [|n IH]; intros budget ch b' l H; cbn [gsc_range] in H.
  - injection H as <- <-. split; [lia|]. intros x. split; [intros []|intros [Hx _]; lia].
  - destruct budget as [|b]; [discriminate H|].
    destruct (gsc_range keep b n (ch + 1)) as [[b1 l1]|] eqn:E; [|discriminate H].
    injection H as <- <-. destruct (IH _ _ _ _ E) as [Hle Hiff]. split; [lia|].
    intros x. destruct (keep ch) eqn:Ek.
    + split.
      * intros [<-|Hin]; [split; [lia|exact Ek]|]. apply Hiff in Hin. destruct Hin. split; [lia|assumption].
      * intros [Hx Hk]. destruct (Z.eq_dec x ch) as [->|Hne]; [left; reflexivity|]. right. apply Hiff. split; [lia|exact Hk].
    + split.
      * intros Hin. apply Hiff in Hin. destruct Hin. split; [lia|assumption].
      * intros [Hx Hk]. destruct (Z.eq_dec x ch) as [->|Hne]; [congruence|]. apply Hiff. split; [lia|exact Hk].
Qed.

Lemma gsc_ranges_spec (keep : Z -> bool) : forall rs budget l,
  gsc_ranges keep budget rs = Some l ->
  forall x, In x l <-> (mem rs x = true /\ keep x = true).
Proof.
  induction rs as [|[a b] rs IH]; intros budget l H; cbn [gsc_ranges] in H.
  - injection H as <-. intros x. split; [intros []|intros [Hm _]; discriminate Hm].
  - set (n := if b <? a then 0%nat else Z.to_nat (Z.min (b - a + 1) (Z.of_nat budget + 1))) in H.
    destruct (gsc_range keep budget n a) as [[b1 l1]|] eqn:E1; [|discriminate H].
    destruct (gsc_ranges keep b1 rs) as [l2|] eqn:E2; [|discriminate H]. injection H as <-.
    destruct (gsc_range_spec keep n budget a b1 l1 E1) as [Hle Hiff]. specialize (IH _ _ E2).
    assert (Hn : Z.of_nat n = Z.max 0 (b - a + 1)).
    { subst n. destruct (b <? a) eqn:Eb; [lia|]. destruct (b <? a); lia. }
    intros x. rewrite mem_cons. unfold in_range. cbn [fst snd]. split.
    + intros Hin. apply in_app_or in Hin. destruct Hin as [Hin|Hin].
      * apply Hiff in Hin. destruct Hin as [Hx Hk]. split; [|exact Hk]. apply orb_true_iff. left. lia.
      * apply IH in Hin. destruct Hin as [Hm Hk]. split; [|exact Hk]. rewrite Hm. apply orb_true_r.
    + intros [Hm Hk]. apply in_or_app. apply orb_true_iff in Hm. destruct Hm as [Hm|Hm].
      * left. apply Hiff. split; [lia|exact Hk].
      * right. apply IH. split; assumption.
Qed.

Section GSC.
Variable cat_in : Z -> Z -> bool.

Lemma get_set_chars_spec c maxc x0 l0 :
  get_set_chars cat_in c maxc = x0 :: l0 ->
  cats c = [] /\ (neg c = true -> sub c = None) /\
  forall x, In x (x0 :: l0) <-> (mem (ranges c) x = true /\ (sub c = None \/ char_in cat_in c x = true)).
Proof.
  unfold get_set_chars. destruct (cats c) eqn:Ec; [|discriminate].
  destruct (maxc <? zlen (ranges c)); [discriminate|].
  destruct (neg c && negb (no_sub c)) eqn:En; [discriminate|].
  destruct (gsc_ranges _ (Z.to_nat maxc) (ranges c)) as [l|] eqn:E; [|discriminate].
  intros ->. split; [reflexivity|]. split.
  - intros Hn. rewrite Hn in En. unfold no_sub in En. destruct (sub c); [discriminate En|reflexivity].
  - intros x. rewrite (gsc_ranges_spec _ _ _ _ E x). unfold no_sub. destruct (sub c) as [sb|].
    + split; [intros [A B]; split; [exact A|right; exact B]|intros [A [B|B]]; [discriminate B|split; assumption]].
    + split; [intros [A _]; split; [exact A|left; reflexivity]|intros [A _]; split; [exact A|reflexivity]].
Qed.

(* for a non-negated class in normal form: the characters listed are exactly the members *)
Lemma get_set_chars_complete c maxc x0 l0 :
  gcls cat_in c -> neg c = false -> get_set_chars cat_in c maxc = x0 :: l0 ->
  forall x, cmem cat_in c x = true <-> In x (x0 :: l0).
Proof.
  intros Hg Hn H. destruct (get_set_chars_spec c maxc x0 l0 H) as (Hc & _ & Hiff).
  intros x. rewrite (Hiff x). pose proof (a2_cmem_plain cat_in c x Hg) as Hp. unfold cmem in *. rewrite Hp.
  assert (Hpl : plain_in cat_in c x = mem (ranges c) x && negb (sub_in cat_in c x)).
  { rewrite plain_in_top. unfold top_in. rewrite Hn, Hc. cbn [cats_in existsb].
    destruct (mem (ranges c) x); reflexivity. }
  rewrite Hpl. unfold sub_in. destruct (sub c) as [sb|] eqn:Es.
  - split.
    + intros H1. apply andb_true_iff in H1. destruct H1 as [H1 H2]. split; [exact H1|]. right.
      rewrite H1, H2. reflexivity.
    + intros [H1 [H2|H2]]; [discriminate H2|exact H2].
  - rewrite andb_true_r. split; [intros H1; split; [exact H1|left; reflexivity]|intros [H1 _]; exact H1].
Qed.

End GSC.

(* ------------------------------------------------------------------------------------------ *)
(* findPrefixOrdinalCaseInsensitive                                                            *)

(* how a published lower-case ASCII string matches the text: the character itself, or the upper-case
   form of a published lower-case letter *)
Definition ci_match (c x : Z) : bool := (x =? c) || ((97 <=? c) && (c <=? 122) && (x =? c - 32)).

Lemma lal_lor32_tab :
  forallb (fun n => let a := Z.of_nat n in
                    negb (is_ascii_letter a) || (Z.lor a 32 =? (if a <=? 90 then a + 32 else a))) (seq 0 128) = true.
Proof. vm_compute. reflexivity. Qed.

Lemma lal_lor32 a : is_ascii_letter a = true -> Z.lor a 32 = if a <=? 90 then a + 32 else a.
Proof.
  intros H. pose proof lal_lor32_tab as T. rewrite forallb_forall in T.
  assert (Hr : 0 <= a < 128) by (unfold is_ascii_letter in H; lia).
  specialize (T (Z.to_nat a)). cbv zeta in T. rewrite Z2Nat.id in T by lia. rewrite H in T. cbn [negb orb] in T.
  assert (Hin : In (Z.to_nat a) (seq 0 128)) by (apply in_seq; lia). specialize (T Hin). lia.
Qed.

Section CiPrefix.
Variable e : env.
Variable cat_in : Z -> Z -> bool.
Variable part_cc : Z -> bool.
Variable sets : list cls.
Hypothesis Hgood : forall id, gcls cat_in (set_cls sets id).
Hypothesis Hagree : forall id x, set_in e id x = char_in cat_in (set_cls sets id) x.
Hypothesis Hshort : tlen e < INF.

Definition ci_ok (cp : list Z) (p : Z) : Prop :=
  forall i, 0 <= i < zlen cp -> p + i < tlen e /\ ci_match (nth (Z.to_nat i) cp 0) (char_at e (p + i)) = true.

Lemma ci_ok_nil p : ci_ok [] p.
Proof. intros i Hi. unfold zlen in Hi. cbn [length] in Hi. lia. Qed.

Lemma ci_ok_app a b p : ci_ok a p -> ci_ok b (p + zlen a) -> ci_ok (a ++ b) p.
Proof.
  unfold ci_ok, zlen. intros Ha Hb i Hi. rewrite app_length in Hi.
  destruct (Z_lt_ge_dec i (Z.of_nat (length a))) as [Hl|Hl].
  - rewrite app_nth1 by lia. apply Ha. lia.
  - rewrite app_nth2 by lia. specialize (Hb (i - Z.of_nat (length a)) ltac:(lia)).
    replace (p + Z.of_nat (length a) + (i - Z.of_nat (length a))) with (p + i) in Hb by lia.
    replace (Z.to_nat i - length a)%nat with (Z.to_nat (i - Z.of_nat (length a))) by lia. exact Hb.
Qed.

Lemma ci_match_refl c : ci_match c c = true.
Proof. unfold ci_match. rewrite Z.eqb_refl. reflexivity. Qed.

(* the two members of a set accepted by containsAsciiIgnoreCaseCharacter *)
Lemma contains_ascii_ic_sound id a b x :
  contains_ascii_ic cat_in (set_cls sets id) = Some (a, b) -> char_in cat_in (set_cls sets id) x = true ->
  ci_match (Z.lor a 32) x = true.
Proof.
  unfold contains_ascii_ic. destruct (neg (set_cls sets id)) eqn:En; [discriminate|].
  destruct (get_set_chars cat_in (set_cls sets id) 3) as [|a0 [|b0 [|c0 l0]]] eqn:Eg; try discriminate.
  destruct ((a0 <? 127) && (b0 <? 127) && (Z.lor a0 32 =? Z.lor b0 32) && is_ascii_letter a0 && is_ascii_letter b0) eqn:Et;
    [|discriminate].
  intros H. injection H as <- <-. intros Hin.
  apply andb_true_iff in Et. destruct Et as [Et Lb]. apply andb_true_iff in Et. destruct Et as [Et La].
  apply andb_true_iff in Et. destruct Et as [_ Eq].
  pose proof (proj1 (get_set_chars_complete cat_in _ 3 a0 [b0] (Hgood id) En Eg x) Hin) as Hx.
  rewrite (lal_lor32 a0 La) in *. rewrite (lal_lor32 b0 Lb) in Eq.
  unfold is_ascii_letter in La, Lb. unfold ci_match.
  destruct Hx as [<-|[<-|[]]]; destruct (a0 <=? 90) eqn:E1; destruct (b0 <=? 90) eqn:E2; lia.
Qed.

Lemma ci_repeat_ok c : forall k p,
  (forall i, 0 <= i < Z.of_nat k -> p + i < tlen e /\ ci_match c (char_at e (p + i)) = true) -> ci_ok (repeat c k) p.
Proof.
  intros k p H i Hi. unfold zlen in Hi. rewrite repeat_length in Hi.
  assert (Hn : nth (Z.to_nat i) (repeat c k) 0 = c).
  { apply (repeat_spec k c). apply nth_In. rewrite repeat_length. lia. }
  rewrite Hn. apply H. lia.
Qed.


Lemma lal_str_match_nth : forall str p i, str_match_at e false str p = true -> (i < length str)%nat ->
  nth i str 0 = char_at e (p + Z.of_nat i).
Proof.
  induction str as [|c str IH]; intros p i Hm Hi; cbn [length] in Hi; [lia|].
  cbn [str_match_at] in Hm. apply andb_true_iff in Hm. destruct Hm as [Hc Hr].
  destruct i as [|i]; cbn [nth].
  - replace (p + Z.of_nat 0) with p by lia. lia.
  - rewrite (IH (p + 1) i Hr) by lia. f_equal. lia.
Qed.

(* TryGetOrdinalCaseInsensitiveString: the collected string matches, case-insensitively, the text read by the
   children it was collected from *)
Lemma ci_string_sound : forall l s y,
  ReachSeq e l s y -> forallb (shape_ok false) l = true -> forallb no_ci_lit l = true -> inb e s ->
  ci_ok (ci_string cat_in part_cc sets l) (pos s).
Proof.
  induction l as [|x l IH]; intros s y Hr Hs Hn Hb; cbn [ci_string]; [apply ci_ok_nil|].
  destruct (an_reachseq_cons_inv e _ _ _ _ Hr) as [s1 [H1 H2]].
  cbn [forallb] in Hs, Hn. apply andb_true_iff in Hs. destruct Hs as [Hsx Hsl].
  apply andb_true_iff in Hn. destruct Hn as [Hnx Hnl].
  assert (Hzw : pos s1 = pos s -> inb e s1) by (intros Hp; unfold inb in *; rewrite Hp; exact Hb).
  destruct x; try apply ci_ok_nil.
  - (* NChar *)
    destruct k; try apply ci_ok_nil.
    + destruct ((127 <=? c) || part_cc c); [apply ci_ok_nil|].
      apply lal_inv_char in H1. destruct H1 as [-> Hc]. cbn [shape_ok] in Hsx. apply eqb_prop in Hsx.
      apply andb_true_iff in Hc. destruct Hc as [Hav Hc]. unfold avail, next_char, dir in *. rewrite Hsx in *.
      cbn [char_test] in Hc. change (c :: ci_string cat_in part_cc sets l) with ([c] ++ ci_string cat_in part_cc sets l).
      apply ci_ok_app.
      * intros i Hi. unfold zlen in Hi. cbn [length] in Hi. assert (i = 0) by lia. subst i.
        replace (pos s + 0) with (pos s) by lia. cbn [nth Z.to_nat]. split; [lia|].
        assert (char_at e (pos s) = c) as -> by lia. apply ci_match_refl.
      * apply (IH _ y H2 Hsl Hnl). unfold inb in *. cbn [pos with_pos]. unfold zlen. cbn [length]. lia.
    + destruct (contains_ascii_ic cat_in (set_cls sets c)) as [[a b]|] eqn:Ec; [|apply ci_ok_nil].
      apply lal_inv_char in H1. destruct H1 as [-> Hc]. cbn [shape_ok] in Hsx. apply eqb_prop in Hsx.
      apply andb_true_iff in Hc. destruct Hc as [Hav Hc]. unfold avail, next_char, dir in *. rewrite Hsx in *.
      cbn [char_test] in Hc. rewrite Hagree in Hc.
      change (Z.lor a 32 :: ci_string cat_in part_cc sets l) with ([Z.lor a 32] ++ ci_string cat_in part_cc sets l).
      apply ci_ok_app.
      * intros i Hi. unfold zlen in Hi. cbn [length] in Hi. assert (i = 0) by lia. subst i.
        replace (pos s + 0) with (pos s) by lia. cbn [nth Z.to_nat]. split; [lia|].
        exact (contains_ascii_ic_sound c a b _ Ec Hc).
      * apply (IH _ y H2 Hsl Hnl). unfold inb in *. cbn [pos with_pos]. unfold zlen. cbn [length]. lia.
  - (* NCharLoop *)
    destruct k; try apply ci_ok_nil.
    destruct (m =? n) eqn:Emn; [|apply ci_ok_nil].
    destruct (contains_ascii_ic cat_in (set_cls sets c)) as [[a b]|] eqn:Ec; [|apply ci_ok_nil].
    apply lal_inv_charloop in H1. cbn [shape_ok] in Hsx. apply andb_true_iff in Hsx. destruct Hsx as [Hsx Hmn].
    apply andb_true_iff in Hsx. destruct Hsx as [Hsx Hm0]. apply eqb_prop in Hsx.
    pose proof (an_charloop_in e _ _ _ _ _ _ _ _ H1) as [j0 [Hy0 [_ [Hav0 _]]]].
    apply an_charloop_in2 in H1. destruct H1 as [j [maxn [Hy [Hj Hjn]]]].
    assert (j0 = j).
    { rewrite Hy in Hy0. unfold with_pos in Hy0. injection Hy0. unfold dir. rewrite Hsx. lia. }
    subst j0 s1. unfold avail, dir in *. rewrite Hsx in *. unfold inb in Hb.
    assert (Hjm : j = m).
    { destruct (Z.eq_dec n INF) as [Hinf|Hn2]; [lia|]. specialize (Hjn Hn2). lia. }
    subst j. apply ci_ok_app.
    + apply ci_repeat_ok. intros i Hi.
      destruct (lal_run_nth e CSet c o Hsx maxn (pos s) i ltac:(lia)) as [Hc Hlt]. split; [exact Hlt|].
      cbn [char_test] in Hc. rewrite Hagree in Hc. exact (contains_ascii_ic_sound c a b _ Ec Hc).
    + replace (pos s + zlen (repeat (Z.lor a 32) (Z.to_nat m))) with (pos (with_pos s (pos s + 1 * m)))
        by (cbn [pos with_pos]; unfold zlen; rewrite repeat_length; lia).
      apply (IH _ y H2 Hsl Hnl). unfold inb. cbn [pos with_pos]. lia.
  - (* NMulti *)
    destruct (existsb (fun ch => 127 <? ch) s0 || existsb part_cc s0); [apply ci_ok_nil|].
    apply lal_inv_multi in H1. apply an_multi_in in H1. destruct H1 as [-> [Hav Hm]].
    cbn [shape_ok no_ci_lit] in Hsx, Hnx. apply eqb_prop in Hsx. apply negb_true_iff in Hnx.
    rewrite Hnx, Hsx in Hm. unfold avail, dir in *. rewrite Hsx in *. unfold inb in Hb.
    apply ci_ok_app.
    + intros i Hi. split; [lia|].
      rewrite (lal_str_match_nth s0 (pos s) (Z.to_nat i) Hm) by (unfold zlen in Hi; lia).
      replace (pos s + Z.of_nat (Z.to_nat i)) with (pos s + i) by lia. apply ci_match_refl.
    + replace (pos s + zlen s0) with (pos (with_pos s (pos s + 1 * zlen s0))) by (cbn [pos with_pos]; lia).
      apply (IH _ y H2 Hsl Hnl). unfold inb. cbn [pos with_pos]. unfold zlen in *. lia.
  - (* NAnchor *)
    destruct a; cbn [ci_zero_width]; try apply ci_ok_nil;
      (apply an_reach_anchor_inv in H1; destruct H1 as [-> _]; exact (IH _ y H2 Hsl Hnl Hb)).
  - (* NEmpty *) apply lal_inv_empty in H1. subst s1. exact (IH _ y H2 Hsl Hnl Hb).
  - (* NBump *) cbn [ci_zero_width]. apply lal_inv_bump in H1. subst s1. exact (IH _ y H2 Hsl Hnl Hb).
  - (* NPosLook *)
    cbn [ci_zero_width]. apply lal_inv_poslook in H1. rewrite <- H1. apply (IH _ y H2 Hsl Hnl). apply Hzw. exact H1.
  - (* NNegLook *) cbn [ci_zero_width]. apply lal_inv_neglook in H1. subst s1. exact (IH _ y H2 Hsl Hnl Hb).
Qed.

Lemma ci_prefix_sound : forall t s y,
  Reach e t s y -> shape_ok false t = true -> no_ci_lit t = true -> inb e s ->
  ci_ok (ci_prefix cat_in part_cc sets t) (pos s).
Proof.
  induction t; intros sa sb Hr Hs Hn Hb; cbn [ci_prefix]; try apply ci_ok_nil.
  - (* NConcat *)
    apply an_reach_concat_inv in Hr. cbn [shape_ok no_ci_lit] in Hs, Hn.
    destruct (2 <=? zlen (ci_string cat_in part_cc sets l)); [|apply ci_ok_nil].
    exact (ci_string_sound l sa sb Hr Hs Hn Hb).
  - (* NLoop *)
    destruct (m <=? 0) eqn:Em; [apply ci_ok_nil|].
    destruct (lal_inv_loop e _ _ _ _ _ _ _ Hr ltac:(lia)) as [s1 [H1 _]].
    cbn [shape_ok no_ci_lit] in Hs, Hn. apply andb_true_iff in Hs. destruct Hs as [_ Hs].
    exact (IHt sa s1 H1 Hs Hn Hb).
  - (* NCapture *)
    destruct (an_reach_capture_inv e _ _ _ _ _ _ Hr) as [s1 [H1 _]]. cbn [shape_ok no_ci_lit] in Hs, Hn.
    exact (IHt sa s1 H1 Hs Hn Hb).
  - (* NAtomic *)
    apply an_reach_atomic_inv in Hr. cbn [shape_ok no_ci_lit] in Hs, Hn. exact (IHt sa sb Hr Hs Hn Hb).
Qed.

(* ------------------------------------------------------------------------------------------ *)
(* findLiteralFollowingLeadingLoop                                                             *)

Hypothesis Hscalar : forallb Utf8.valid_rune (txt e) = true.

Lemma lal_removelast_prefix (q : list Z) : an_prefix (removelast q) q.
Proof.
  destruct q as [|a q]; [apply an_prefix_nil|].
  assert (Hne : a :: q <> []) by discriminate. destruct (exists_last Hne) as [q' [z Hz]].
  rewrite Hz. rewrite removelast_last. exists [z]. reflexivity.
Qed.

Lemma lal_trim_prefix : forall f q, an_prefix (trim_partial f q) q.
Proof.
  induction f as [|f IH]; intros q; cbn [trim_partial]; [apply an_prefix_refl|].
  destruct (last_rune_bad q); [|apply an_prefix_refl].
  eapply an_prefix_trans; [apply IH|apply lal_removelast_prefix].
Qed.

Lemma lal_removelast_length (q : list Z) : q <> [] -> length (removelast q) = (length q - 1)%nat.
Proof.
  intros Hne. destruct (exists_last Hne) as [q' [z ->]]. rewrite removelast_last, app_length. cbn [length]. lia.
Qed.

Lemma lal_trim_not_bad : forall f q, (length q <= f)%nat ->
  trim_partial f q = [] \/ last_rune_bad (trim_partial f q) = false.
Proof.
  induction f as [|f IH]; intros q Hl; cbn [trim_partial].
  - left. destruct q; [reflexivity|cbn [length] in Hl; lia].
  - destruct (last_rune_bad q) eqn:Eb; [|right; exact Eb].
    destruct q as [|a q']; [left; destruct f; reflexivity|].
    apply IH. rewrite lal_removelast_length by discriminate. cbn [length] in *. lia.
Qed.

Lemma lal_skipn_valid k : forallb Utf8.valid_rune (skipn k (txt e)) = true.
Proof.
  rewrite forallb_forall in *. intros x Hx. apply Hscalar.
  rewrite <- (firstn_skipn k (txt e)). apply in_or_app. right. exact Hx.
Qed.

Lemma lal_skipn_hd k c T : 0 <= k -> skipn (Z.to_nat k) (txt e) = c :: T -> k < tlen e /\ char_at e k = c.
Proof.
  intros Hk H. unfold char_at, tlen, zlen. split.
  - destruct (Z_lt_ge_dec k (Z.of_nat (length (txt e)))) as [Hl|Hl]; [exact Hl|].
    rewrite skipn_all2 in H by lia. discriminate H.
  - rewrite <- (firstn_skipn (Z.to_nat k) (txt e)) at 1. rewrite H.
    assert (Hlen : length (firstn (Z.to_nat k) (txt e)) = Z.to_nat k).
    { apply firstn_length_le. destruct (Z_lt_ge_dec k (Z.of_nat (length (txt e)))) as [Hl|Hl]; [lia|].
      rewrite skipn_all2 in H by lia. discriminate H. }
    rewrite app_nth2 by lia. rewrite Hlen, Nat.sub_diag. reflexivity.
Qed.

(* what the published literal says about position k *)
Definition lal_lit_at (w : lal_lit) (k : Z) : Prop :=
  match w with
  | LalChar c => k < tlen e /\ char_at e k = c
  | LalChars cs => k < tlen e /\ In (char_at e k) cs
  | LalString b false => valid_utf8 b = true -> an_prefix (runes_of b) (skipn (Z.to_nat k) (txt e))
  | LalString cp true => ci_ok cp k
  end.

(* the bytes found by findPrefix on a node that starts at k *)
Lemma lal_prefix_bytes nc s y :
  Reach e nc s y -> shape_ok false nc = true -> no_ci_lit nc = true -> inb e s -> caps_nonneg (caps s) ->
  an_prefix (find_prefix nc) (encode_string (skipn (Z.to_nat (pos s)) (txt e))).
Proof.
  intros Hr Hs Hn Hb Hcn. destruct (proj1 (an_prefix_all e) _ _ _ Hr Hs Hn Hb Hcn) as [Hp _].
  unfold find_prefix, try_find_prefix. eapply an_prefix_trans; [exact Hp|].
  unfold enc_slice. apply an_encode_string_prefix. apply an_slice_prefix_from.
Qed.

Lemma lal_decode_single b : decode_rune [b] = invalid1 \/ (0 <= b < 128 /\ decode_rune [b] = (b, 1%nat)).
Proof.
  unfold decode_rune, invalid1. repeat break_if; try (left; reflexivity); right; split; try lia; reflexivity.
Qed.

Lemma lal_bad_single b : 128 <= b -> last_rune_bad [b] = true.
Proof.
  intros Hb. unfold last_rune_bad, zlen. cbn [length]. change (Z.of_nat 1) with 1.
  change (1 =? 0) with false. change (nth (Z.to_nat (1 - 1)) [b] 0) with b.
  replace (b <? 128) with false by lia. cbv zeta.
  change (Z.max 0 (1 - 4)) with 0. change (0 <=? 1 - 2) with false. change (0 <=? 1 - 3) with false.
  change (0 <=? 1 - 4) with false. cbn [andb]. change (Z.max 0 (0 - 1)) with 0.
  change (skipn (Z.to_nat 0) [b]) with [b].
  destruct (lal_decode_single b) as [Hd|[Hb1 _]]; [|lia]. rewrite Hd. reflexivity.
Qed.

(* the literal part of findLiteralFollowingLeadingLoop, for a node nc that is matched from position k *)
Lemma lal_literal_sound nc s y loopset loop L :
  Reach e nc s y -> shape_ok false nc = true -> no_ci_lit nc = true -> inb e s -> caps_nonneg (caps s) ->
  (let p0 := find_prefix nc in
   let p1 := trim_partial (length p0) p0 in
   let p := if existsb (fun r => r =? rune_error) (runes_of p1) then [] else p1 in
   match p with
   | _ :: _ =>
       let '(fr, w) := decode_rune p in
       if char_in cat_in loopset fr then Ok None
       else if zlen p =? Z.of_nat w then Ok (Some {| lal_loop := loop; lal_what := LalChar fr |})
       else Ok (Some {| lal_loop := loop; lal_what := LalString p false |})
   | [] =>
       let cp := ci_prefix cat_in part_cc sets nc in
       if 2 <=? zlen cp then
         let ch := hd 0 cp in
         if (if part_cc ch
             then char_in cat_in loopset (Z.lor ch 32) || char_in cat_in loopset (Z.land ch (Z.lnot 32))
             else char_in cat_in loopset ch)
         then Ok None
         else Ok (Some {| lal_loop := loop; lal_what := LalString cp true |})
       else
         match nc with
         | NChar CSet _ id =>
             if neg (set_cls sets id) then Ok None
             else match get_set_chars cat_in (set_cls sets id) 5 with
                  | [] => Ok None
                  | cs => if existsb (char_in cat_in loopset) cs then Ok None
                          else Ok (Some {| lal_loop := loop; lal_what := LalChars cs |})
                  end
         | NCharLoop CSet _ _ id m _ =>
             if neg (set_cls sets id) || negb (1 <=? m) then Ok None
             else match get_set_chars cat_in (set_cls sets id) 5 with
                  | [] => Ok None
                  | cs => if existsb (char_in cat_in loopset) cs then Ok None
                          else Ok (Some {| lal_loop := loop; lal_what := LalChars cs |})
                  end
         | _ => Ok None
         end
   end) = Ok (Some L) ->
  lal_loop L = loop /\ lal_lit_at (lal_what L) (pos s).
Proof.
  intros Hr Hs Hn Hb Hcn. cbv zeta.
  pose proof (lal_prefix_bytes nc s y Hr Hs Hn Hb Hcn) as Hbytes.
  pose proof (lal_trim_prefix (length (find_prefix nc)) (find_prefix nc)) as Htp.
  pose proof (lal_trim_not_bad (length (find_prefix nc)) (find_prefix nc) (le_n _)) as Htb.
  set (pt1 := trim_partial (length (find_prefix nc)) (find_prefix nc)) in *.
  assert (Hpt1 : an_prefix pt1 (encode_string (skipn (Z.to_nat (pos s)) (txt e)))) by (eapply an_prefix_trans; eassumption).
  pose proof (lal_skipn_valid (Z.to_nat (pos s))) as HT.
  set (pt := if existsb (fun r => r =? rune_error) (runes_of pt1) then [] else pt1).
  assert (Hpt : an_prefix pt (encode_string (skipn (Z.to_nat (pos s)) (txt e)))).
  { subst pt. destruct (existsb _ _); [apply an_prefix_nil|exact Hpt1]. }
  assert (Htb' : pt = [] \/ last_rune_bad pt = false).
  { subst pt. destruct (existsb _ _); [left; reflexivity|exact Htb]. }
  clear Htb. rename Htb' into Htb. clearbody pt.
  destruct pt as [|b pt'] eqn:Ept.
  - (* no case-sensitive literal *)
    destruct (2 <=? zlen (ci_prefix cat_in part_cc sets nc)) eqn:E2.
    + destruct (if part_cc (hd 0 (ci_prefix cat_in part_cc sets nc)) then _ else _); [discriminate|].
      intros H. injection H as <-. cbn [lal_loop lal_what lal_lit_at]. split; [reflexivity|].
      exact (ci_prefix_sound nc s y Hr Hs Hn Hb).
    + destruct nc; try discriminate.
      * destruct k; try discriminate.
        destruct (neg (set_cls sets c)) eqn:En; [discriminate|].
        destruct (get_set_chars cat_in (set_cls sets c) 5) as [|c0 cs] eqn:Eg; [discriminate|].
        destruct (existsb (char_in cat_in loopset) (c0 :: cs)); [discriminate|].
        intros H. injection H as <-. cbn [lal_loop lal_what lal_lit_at]. split; [reflexivity|].
        apply lal_inv_char in Hr. destruct Hr as [_ Hc]. cbn [shape_ok] in Hs. apply eqb_prop in Hs.
        apply andb_true_iff in Hc. destruct Hc as [Hav Hc]. unfold avail, next_char in *. rewrite Hs in *.
        cbn [char_test] in Hc. rewrite Hagree in Hc. split; [lia|].
        exact (proj1 (get_set_chars_complete cat_in _ 5 c0 cs (Hgood c) En Eg _) Hc).
      * destruct k; try discriminate.
        destruct (neg (set_cls sets c) || negb (1 <=? m)) eqn:En; [discriminate|].
        apply orb_false_iff in En. destruct En as [En Em].
        destruct (get_set_chars cat_in (set_cls sets c) 5) as [|c0 cs] eqn:Eg; [discriminate|].
        destruct (existsb (char_in cat_in loopset) (c0 :: cs)); [discriminate|].
        intros H. injection H as <-. cbn [lal_loop lal_what lal_lit_at]. split; [reflexivity|].
        apply lal_inv_charloop in Hr. cbn [shape_ok] in Hs. apply andb_true_iff in Hs. destruct Hs as [Hs _].
        apply andb_true_iff in Hs. destruct Hs as [Hs _]. apply eqb_prop in Hs.
        apply an_charloop_in2 in Hr. destruct Hr as [j [maxn [_ [Hj _]]]].
        destruct (lal_run_nth e CSet c o Hs maxn (pos s) 0 ltac:(lia)) as [Hc Hlt].
        replace (pos s + 0) with (pos s) in * by lia. cbn [char_test] in Hc. rewrite Hagree in Hc.
        split; [exact Hlt|]. exact (proj1 (get_set_chars_complete cat_in _ 5 c0 cs (Hgood c) En Eg _) Hc).
  - (* a case-sensitive literal: bytes b :: pt' *)
    destruct (decode_rune (b :: pt')) as [fr w] eqn:Ed.
    destruct (char_in cat_in loopset fr); [discriminate|].
    destruct (zlen (b :: pt') =? Z.of_nat w) eqn:Ew.
    + (* a single rune *)
      intros H. injection H as <-. cbn [lal_loop lal_what lal_lit_at]. split; [reflexivity|].
      assert (Hb0 : 0 <= b) by exact (lal_first_byte_nonneg b pt' _ Hpt).
      assert (Hval : (fr, w) <> invalid1).
      { intros Hinv. unfold invalid1 in Hinv. injection Hinv as Hfr Hw1. subst fr w. unfold zlen in Ew. cbn [length] in Ew.
        assert (pt' = []) by (destruct pt'; [reflexivity|cbn [length] in Ew; lia]). subst pt'.
        destruct (b <? 128) eqn:Eb.
        - unfold decode_rune in Ed. replace (b <? 0) with false in Ed by lia. rewrite Eb in Ed.
          injection Ed as Hf. unfold rune_error in Hf. lia.
        - destruct Htb as [Htb|Htb]; [discriminate Htb|]. rewrite lal_bad_single in Htb by lia. discriminate Htb. }
      destruct (decode_rune_valid_width b pt' fr w Ed Hval) as (Vf & Hw & Hf).
      assert (Hpe : b :: pt' = encode fr).
      { rewrite <- Hf. symmetry. apply firstn_all2. unfold zlen in Ew. lia. }
      rewrite Hpe in Hpt. destruct Hpt as [rest Hrest].
      assert (HR : forallb Utf8.valid_rune [fr] = true) by (cbn [forallb]; rewrite Vf; reflexivity).
      assert (He : encode_string (skipn (Z.to_nat (pos s)) (txt e)) = encode_string [fr] ++ rest).
      { unfold encode_string at 2. cbn [flat_map]. rewrite app_nil_r. exact Hrest. }
      destruct (lal_utf8_prefix [fr] _ rest HR HT He) as [T' HT'].
      unfold inb in Hb. exact (lal_skipn_hd (pos s) fr T' ltac:(lia) HT').
    + (* a string *)
      intros H. injection H as <-. cbn [lal_loop lal_what lal_lit_at]. split; [reflexivity|].
      intros Hvu. destruct Hpt as [rest Hrest].
      rewrite <- (encode_decode _ Hvu) in Hrest.
      destruct (lal_utf8_prefix _ _ rest (lal_runes_valid _ Hvu) HT Hrest) as [T' HT']. exists T'. exact HT'.
Qed.

(* findLiteralFollowingLeadingLoop found (loop set, literal): every successful attempt at p reads a run of
   loop-set characters p .. k-1 and the literal occurs at k *)
Theorem a2_lit_after_loop_sound fuel root p s' L :
  shape_ok false root = true -> no_ci_lit root = true -> 0 <= p <= tlen e ->
  find_lit_after_loop cat_in part_cc sets root = Ok (Some L) ->
  attempt e fuel root p = Ok (Some s') ->
  exists k, p <= k <= tlen e /\
    (forall i, p <= i < k -> set_in e (lal_loop L) (char_at e i) = true) /\
    lal_lit_at (lal_what L) k.
Proof.
  intros Hs Hn Hp Hf Ha. pose proof (attempt_reach e _ _ _ _ Ha) as Hr.
  set (s0 := {| pos := p; caps := [] |}) in *.
  assert (Hb0 : inb e s0) by exact Hp.
  unfold find_lit_after_loop in Hf.
  destruct (match root with NCapture o _ _ _ | NConcat o _ => is_rtl o | _ => false end); [discriminate Hf|].
  destruct (lal_unwrap_ac e root s0 s' Hr) as [y1 [Hr1 _]].
  pose proof (lal_unwrap_ac_shape false root Hs) as Hs1. pose proof (lal_unwrap_ac_noci root Hn) as Hn1.
  destruct (unwrap_ac root) as [| | | | | | | |o l| | | | | | | | |] eqn:Eu; try discriminate Hf.
  destruct l as [|first rest]; [discriminate Hf|].
  apply an_reach_concat_inv in Hr1. destruct (an_reachseq_cons_inv e _ _ _ _ Hr1) as [s1 [Hf1 Hrest]].
  cbn [shape_ok no_ci_lit forallb] in Hs1, Hn1.
  apply andb_true_iff in Hs1. destruct Hs1 as [Hsf Hsr]. apply andb_true_iff in Hn1. destruct Hn1 as [Hnf Hnr].
  (* the leading loop *)
  destruct (lal_unwrap_ac e first s0 s1 Hf1) as [s1' [Hl1 Hp1]].
  pose proof (lal_unwrap_ac_shape false first Hsf) as Hsl.
  destruct (is_set_loop_inf (unwrap_ac first)) as [loop|] eqn:El; [|discriminate Hf].
  destruct (unwrap_ac first) as [|k lk o' c m n| | | | | | | | | | | | | | | |] eqn:Euf; try discriminate El.
  destruct k; try discriminate El. cbn [is_set_loop_inf] in El.
  destruct (n =? INF); [|discriminate El]. injection El as ->.
  apply lal_inv_charloop in Hl1. cbn [shape_ok] in Hsl. apply andb_true_iff in Hsl. destruct Hsl as [Hsl _].
  apply andb_true_iff in Hsl. destruct Hsl as [Hsl Hm0]. apply eqb_prop in Hsl.
  pose proof (an_charloop_in e _ _ _ _ _ _ _ _ Hl1) as [j0 [Hy0 [_ [Hav0 _]]]].
  apply an_charloop_in2 in Hl1. destruct Hl1 as [j [maxn [Hy [Hj _]]]].
  assert (j0 = j).
  { rewrite Hy in Hy0. unfold with_pos in Hy0. injection Hy0. unfold dir. rewrite Hsl. lia. }
  subst j0. unfold avail, dir in *. rewrite Hsl in *.
  assert (Hj0 : 0 <= j) by lia.
  assert (Hk : pos s1 = p + j) by (rewrite <- Hp1, Hy; cbn [pos with_pos s0]; lia).
  assert (Hrun : forall i, p <= i < p + j -> set_in e loop (char_at e i) = true).
  { intros i Hi. destruct (lal_run_nth e CSet loop o' Hsl maxn p (i - p)) as [Hc _]; [cbn [pos s0] in Hj; lia|].
    replace (p + (i - p)) with i in Hc by lia. exact Hc. }
  assert (Hb1 : inb e s1).
  { unfold inb. rewrite Hk. cbn [pos s0] in Hav0. lia. }
  assert (Hcn1 : caps_nonneg (caps s1)) by exact (an_reach_caps e _ _ _ Hf1 an_caps_nonneg_nil).
  (* the node after the loop *)
  destruct rest as [|nx rest']; [discriminate Hf|].
  destruct (an_reachseq_cons_inv e _ _ _ _ Hrest) as [s2 [Hnx Hrest2]].
  cbn [forallb] in Hsr, Hnr.
  apply andb_true_iff in Hsr. destruct Hsr as [Hsnx Hsr']. apply andb_true_iff in Hnr. destruct Hnr as [Hnnx Hnr'].
  set (nxt := match nx with NBump => match rest' with [] => None | n2 :: _ => Some n2 end | _ => Some nx end) in Hf.
  assert (Hnxt : forall n0, nxt = Some n0 ->
            exists y0, Reach e n0 s1 y0 /\ shape_ok false n0 = true /\ no_ci_lit n0 = true).
  { intros n0 E0. subst nxt. destruct nx; try (injection E0 as <-; exists s2; auto).
    destruct rest' as [|n2 rest'']; [discriminate E0|]. injection E0 as <-.
    apply lal_inv_bump in Hnx. subst s2. destruct (an_reachseq_cons_inv e _ _ _ _ Hrest2) as [s3 [Hn2 _]].
    cbn [forallb] in Hsr', Hnr'. apply andb_true_iff in Hsr'. apply andb_true_iff in Hnr'. exists s3. tauto. }
  destruct nxt as [n0|]; [|discriminate Hf].
  destruct (Hnxt n0 eq_refl) as [y0 [Hr0 [Hs0 Hn0]]].
  destruct (unwrap_imm n0) as [nc|] eqn:Eim; [|discriminate Hf].
  destruct (lal_unwrap_imm e n0 nc s1 y0 Eim Hr0) as [y2 Hrc].
  pose proof (lal_unwrap_imm_shape false n0 nc Eim Hs0) as Hsc.
  pose proof (lal_unwrap_imm_noci n0 nc Eim Hn0) as Hnc.
  destruct (lal_literal_sound nc s1 y2 (set_cls sets loop) loop L Hrc Hsc Hnc Hb1 Hcn1 Hf) as [Hloop Hlit].
  exists (pos s1). rewrite Hloop. unfold inb in Hb1. split; [lia|]. split; [|exact Hlit].
  intros i Hi. apply Hrun. lia.
Qed.

End CiPrefix.
