(* Driver entry points for C06 (compat adapter vs Go's allMatches). *)
From Verif Require Import Base.Prelude Base.Wire Model.Iter Extract.Drv07.

Definition d_mentry : dec (Z * option (list Z)) :=
  dlet p <- d_z ; dlet has <- d_z ; dlet a <- d_zlist ; d_ret (p, if has =? 0 then None else Some a).
Fixpoint lookup_m (tbl : list (Z * option (list Z))) (p : Z) : option (list Z) :=
  match tbl with
  | [] => None
  | (q, r) :: tbl' => if p =? q then r else lookup_m tbl' p
  end.

(* 0601: end num_subexp n Mtable widthtable -> Go.find_all_submatch_index ; Go.find_all_index ;
         Go.find_submatch_index ; Go.find_index *)
Definition run_go (args : list Z) : list Z :=
  match (dlet en <- d_z ; dlet ns <- d_z ; dlet n <- d_z ; dlet mt_ <- d_list d_mentry ;
         dlet wt <- d_list (d_pair d_z d_z) ; d_ret (en, ns, n, mt_, wt)) args with
  | Some ((en, ns, n, mt_, wt), []) =>
      let M := lookup_m mt_ in
      let width := fun p => zassoc p wt 0 in
      let f := Go.dflt_fuel en in
      e_res (e_slice e_zlist) (Go.find_all_submatch_index M width en ns f n)
      ++ e_res (e_slice e_pair) (Go.find_all_index M width en ns f n)
      ++ e_slice (fun x => [x]) (Go.find_submatch_index M ns)
      ++ e_slice (fun x => [x]) (Go.find_index M)
  | _ => bad_case
  end.

(* 0602: len n offtable attempttable -> the adapter's FindAllStringSubmatchIndex ; FindAllIndex ;
         FindAllStringIndex ; FindStringSubmatchIndex ; FindStringIndex   (candidate = rune 0) *)
Definition run_compat (args : list Z) : list Z :=
  match (dlet len <- d_z ; dlet n <- d_z ; dlet ot <- d_zlist ; dlet t <- d_attempts ;
         d_ret (len, n, ot, t)) args with
  | Some ((len, n, ot, t), []) =>
      let a := tbl_attempt t in
      let off := fun i => match znth ot i with Some x => x | None => -7 end in
      let f := dflt_fuel len in
      e_res (e_slice e_zlist) (compat_find_all_string_submatch_index false len a off f f (Some 0) n)
      ++ e_res (e_slice e_pair) (compat_find_all_index false len a off f f n)
      ++ e_res (e_slice e_pair) (compat_find_all_string_index false len a f f (Some 0) off n)
      ++ e_res (e_slice (fun x => [x])) (compat_find_string_submatch_index false len a off f (Some 0))
      ++ e_res (e_slice (fun x => [x])) (compat_find_string_index false len a off f (Some 0))
  | _ => bad_case
  end.

Definition run06 (leg : Z) (args : list Z) : list Z :=
  if leg =? 601 then run_go args
  else if leg =? 602 then run_compat args
  else bad_case.
