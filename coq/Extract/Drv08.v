(* Driver entry points for C08 (UTF-8 view, rune->byte maps, group materialisation). *)
From Verif Require Import Base.Prelude Base.Wire Base.Utf8 Model.Offsets.

Definition e_pairs (d : list (Z * nat)) : list Z :=
  e_list (fun p => [fst p; Z.of_nat (snd p)]) d.

(* 801: bytes -> [n; r1; w1; ...; valid] *)
Definition run_decode (args : list Z) : list Z :=
  match d_zlist args with
  | Some (s, []) => e_pairs (decode s) ++ e_bool (valid_utf8 s)
  | _ => bad_case
  end.

(* 802: runes -> per rune: RuneLen, ValidRune, encoding *)
Definition run_encode (args : list Z) : list Z :=
  match d_zlist args with
  | Some (rs, []) =>
    flat_map (fun r => rune_len r :: e_bool (valid_rune r) ++ e_zlist (encode r)) rs
  | _ => bad_case
  end.

(* 803: prefix -> decode (prefix ++ [b]) for every byte b, concatenated *)
Definition run_decode_ext (args : list Z) : list Z :=
  match d_zlist args with
  | Some (p, []) => flat_map (fun b => e_pairs (decode (p ++ [Z.of_nat b]))) (seq 0 256)
  | _ => bad_case
  end.

(* all spans (i, l) with 0 <= i <= i+l <= n, in lexicographic order *)
Definition spans (n : nat) : list (Z * Z) :=
  flat_map (fun i => map (fun l => (Z.of_nat i, Z.of_nat l)) (seq 0 (S n - i))) (seq 0 (S n)).

Definition e_pair_res (r : res (Z * Z)) : list Z :=
  match r with
  | Ok (a, b) => [a; b]
  | Crash _ => [-1; -1]
  | Err _ => [-2; -2]
  | Fuel => [-3; -3]
  end.

Definition to_end (p : res (Z * Z)) : res (Z * Z) :=
  do ab <- p ; Ok (fst ab, fst ab + snd ab).

(* 804: a string (bytes): for every span of its runes, the byte pair each route reports *)
Definition run_offsets (args : list Z) : list Z :=
  match d_zlist args with
  | Some (s, []) =>
    let runes := runes_of s in
    let n := length runes in
    let fuel := S (length s) in
    let sp := spans n in
    let t_str := new_string_match_text s runes in
    let t_run := new_match_text runes in
    let mp := new_byte_mapper s in
    let b2r := bytes_to_runes_and_offsets fuel s in
    let rd := read_runes (map (fun p => (fst p, Z.of_nat (snd p))) (decode s)) in
    Z.of_nat n ::
    (* R1 Capture.ByteRange, string input (index, index+length) *)
    flat_map (fun il => e_pair_res (to_end (byte_range t_str (fst il) (snd il)))) sp ++
    (* R2 FindAllStringIndex *)
    flat_map (fun il => e_pair_res (find_all_pair fuel mp (fst il) (snd il))) sp ++
    (* R3 compat FindAllIndex([]byte) *)
    flat_map (fun il => e_pair_res (do ro <- b2r ; compat_pair (snd ro) (fst il) (snd il))) sp ++
    (* R4 Capture.ByteRange, []rune(s) input *)
    flat_map (fun il => e_pair_res (to_end (byte_range t_run (fst il) (snd il)))) sp ++
    (* R5 compat reader offsets *)
    flat_map (fun il => e_pair_res (compat_pair (Some (snd rd)) (fst il) (snd il))) sp
  | _ => bad_case
  end.

(* 805: a rune slice (any int32 values) and a mode: ByteRange of every span (mode 1) or of every
   empty span only (mode 0: the slice holds runes no pattern can consume), and String() of the whole *)
Definition run_rune_offsets (args : list Z) : list Z :=
  match (dlet rs <- d_zlist ; dlet mode <- d_z ; d_ret (rs, mode)) args with
  | Some ((rs, mode), []) =>
    let t := new_match_text rs in
    let sp := filter (fun il => (mode =? 1) || (snd il =? 0)) (spans (length rs)) in
    flat_map (fun il => e_pair_res (to_end (byte_range t (fst il) (snd il)))) sp
    ++ e_res e_zlist (capture_string t 0 (zlen rs))
  | _ => bad_case
  end.

(* 806: newGroup: caps words, capcount -> embedded (index, length), captures *)
Definition run_new_group (args : list Z) : list Z :=
  match (dlet caps <- d_zlist ; dlet n <- d_z ; d_ret (caps, n)) args with
  | Some ((caps, n), []) =>
    e_res (fun g => g_index g :: g_length g :: e_list (fun c => [fst c; snd c]) (g_caps g))
          (new_group caps n)
  | _ => bad_case
  end.

Definition run08 (leg : Z) (args : list Z) : list Z :=
  if leg =? 801 then run_decode args
  else if leg =? 802 then run_encode args
  else if leg =? 803 then run_decode_ext args
  else if leg =? 804 then run_offsets args
  else if leg =? 805 then run_rune_offsets args
  else if leg =? 806 then run_new_group args
  else bad_case.
