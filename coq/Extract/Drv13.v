(* Driver entry points for the interpreter model (L-vm legs of C01, C10, C13). *)
From Verif Require Import Base.Prelude Base.Wire Model.Tree Model.Spec Model.VM Extract.Drv01.

Definition d_program : dec program :=
  dlet c <- d_zlist ; dlet s <- d_list d_zlist ; dlet tc <- d_z ; dlet cs <- d_z ;
  d_ret {| codes := c; strings := s; trackcount := tc; capsize := cs |}.


Definition e_vm_caps (m : list (list Z)) : list Z :=
  Z.of_nat (length m) :: flat_map (fun a => let t := tidy_slot a in (zlen t / 2) :: t) m.

Definition e_vm_match (r : res (option vm)) : list Z :=
  e_res (fun o => match o with
                  | None => [0]
                  | Some s => 1 :: tp s :: e_vm_caps (mcaps s) ++ [tcap s]
                  end) r.

(* 1301: env, program, limit, rtl, start, prevlen, fuel -> match found by the accelerator-free scan *)
Definition run_vm_find (args : list Z) : list Z :=
  match (dlet ce <- d_env ; dlet p <- d_program ; dlet lim <- d_z ; dlet rtl <- d_bool ; dlet start <- d_z ;
         dlet prev <- d_z ; dlet fuel <- d_nat ; d_ret (ce, p, lim, rtl, start, prev, fuel)) args with
  | Some ((ce, p, lim, rtl, start, prev, fuel), []) =>
      e_vm_match (vm_find (ce_env ce) p lim fuel rtl start prev)
  | _ => bad_case
  end.

Definition run13 (leg : Z) (args : list Z) : list Z :=
  if leg =? 1301 then run_vm_find args
  else bad_case.
