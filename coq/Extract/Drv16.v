(* Driver entry points for C16 (character classes). *)
From Coq Require Import FMapPositive.
From Verif Require Import Base.Prelude Base.Wire Model.CharClass.

(* ---- oracle tables shipped with each case.
   categories: list of category ids, then (rune, mask) pairs: bit j of mask = unicode.Is(table of ids[j], rune)
   case:       (rune, SimpleFold, ToLower) triples
   A rune missing from a table answers "in no category" / -7 (never a rune), which shows up as a
   disagreement or as Fuel; the harness ships every rune the model can ask about. *)
Definition rkey (r : Z) : positive := Z.to_pos (r + 2).

Definition build_map (l : list (Z * Z)) : PositiveMap.t Z :=
  fold_left (fun m p => PositiveMap.add (rkey (fst p)) (snd p) m) l (PositiveMap.empty Z).

Fixpoint index_of (x : Z) (l : list Z) (i : Z) : option Z :=
  match l with
  | [] => None
  | h :: t => if h =? x then Some i else index_of x t (i + 1)
  end.

Definition cat_in_tbl (dflt : bool) (ids : list Z) (m : PositiveMap.t Z) (name r : Z) : bool :=
  match index_of name ids 0 with
  | Some j => match PositiveMap.find (rkey r) m with Some mask => Z.testbit mask j | None => dflt end
  | None => dflt
  end.

Definition fun_tbl (m : PositiveMap.t Z) (r : Z) : Z :=
  match PositiveMap.find (rkey r) m with Some v => v | None => -7 end.

Record oracle : Type := Oracle { or_cat : Z -> Z -> bool; or_fold : Z -> Z; or_lower : Z -> Z }.

Definition d_oracle_d (dflt : bool) : dec oracle :=
  dlet ids <- d_zlist ;
  dlet ct <- d_list (d_pair d_z d_z) ;
  dlet cs <- d_list (d_pair d_z (d_pair d_z d_z)) ;
  let cm := build_map ct in
  let fm := build_map (map (fun t => (fst t, fst (snd t))) cs) in
  let lm := build_map (map (fun t => (fst t, snd (snd t))) cs) in
  d_ret (Oracle (cat_in_tbl dflt ids cm) (fun_tbl fm) (fun_tbl lm)).
Definition d_oracle : dec oracle := d_oracle_d false.

(* sparse case table (legs 1608, 1609: IgnoreCase with complement-shaped ranges, where the model asks for
   SimpleFold of every code point of [b-\x{10FFFF}]): the harness ships (rune, SimpleFold, ToLower) for EVERY code
   point on which one of the two is not the identity; a code point missing from the table is a fixed point of
   both, anything else is -7 as before *)
Definition fun_tbl_id (m : PositiveMap.t Z) (r : Z) : Z :=
  match PositiveMap.find (rkey r) m with
  | Some v => v
  | None => if (0 <=? r) && (r <=? max_rune) then r else -7
  end.
Definition d_oracle_sp (dflt : bool) : dec oracle :=
  dlet ids <- d_zlist ;
  dlet ct <- d_list (d_pair d_z d_z) ;
  dlet cs <- d_list (d_pair d_z (d_pair d_z d_z)) ;
  let cm := build_map ct in
  let fm := build_map (map (fun t => (fst t, fst (snd t))) cs) in
  let lm := build_map (map (fun t => (fst t, snd (snd t))) cs) in
  d_ret (Oracle (cat_in_tbl dflt ids cm) (fun_tbl_id fm) (fun_tbl_id lm)).

(* the oracle tables did not cover a question the model asked *)
Definition oracle_incomplete : list Z := [-998].

Definition e_bits (l : list bool) : list Z := map (fun b : bool => if b then 1 else 0) l.

Definition orbit_fuel : nat := 8.

(* ---- syntax decoders *)
Definition d_item : dec item :=
  dlet k <- d_z ; dlet a <- d_z ; dlet b <- d_z ;
  d_ret (if k =? 0 then IRange a b
         else if k =? 1 then IDigit (negb (a =? 0))
         else if k =? 2 then ISpace (negb (a =? 0))
         else if k =? 3 then IWord (negb (a =? 0))
         else if k =? 4 then IProp (negb (a =? 0)) b
         else IPosix (negb (a =? 0)) b).

Fixpoint d_csyn_f (fuel : nat) : dec csyn :=
  match fuel with
  | O => fun _ => None
  | S f =>
    dlet ng <- d_bool ;
    dlet items <- d_list d_item ;
    dlet hs <- d_bool ;
    dlet sb <- (if hs then dlet s <- d_csyn_f f ; d_ret (Some s) else d_ret None) ;
    d_ret (CSyn ng items sb)
  end.
Definition d_csyn : dec csyn := fun l => d_csyn_f (S (length l)) l.

Definition d_opts : dec opts :=
  dlet x <- d_z ; d_ret (Opts (Z.testbit x 0) (Z.testbit x 1) (Z.testbit x 2)).

(* clear every bitmap *)
Fixpoint strip_ascii (c : cls) : cls :=
  match c with
  | Cls rs cs sb ng an _ =>
    Cls rs cs (match sb with Some s => Some (strip_ascii s) | None => None end) ng an None
  end.

(* 1601: oracle, exported class, runes -> CharIn bit per rune, CharIn-without-bitmap bit per rune,
   then 1 iff the exported bitmaps are exactly what prepare_ascii_bitmap builds (or there are none) *)
Definition run_char_in (args : list Z) : list Z :=
  match (dlet o <- d_oracle ; dlet c <- d_cls ; dlet rs <- d_zlist ; d_ret (o, c, rs)) args with
  | Some ((o, c, rs), []) =>
    let c0 := strip_ascii c in
    let bm_ok := match ascii c with
                 | Some _ => cls_equals false c (prepare_ascii_bitmap (or_cat o) c0) &&
                             zlist_eqb (e_cls c) (e_cls (prepare_ascii_bitmap (or_cat o) c0))
                 | None => true
                 end in
    e_bits (map (char_in (or_cat o) c) rs) ++ e_bits (map (char_in (or_cat o) c0) rs) ++ e_bits [bm_ok]
  | _ => bad_case
  end.

(* 1602: oracle, options, bracket expression -> the class the parser builds (wire encoding) *)
Definition run_elab_d (dflt : bool) (args : list Z) : list Z :=
  match (dlet o <- d_oracle_d dflt ; dlet op <- d_opts ; dlet s <- d_csyn ; d_ret (o, op, s)) args with
  | Some ((o, op, s), []) =>
    e_res e_cls (elab (or_cat o) (or_fold o) (or_lower o) orbit_fuel s op)
  | _ => bad_case
  end.
(* evaluated with both defaults for category questions outside the shipped table: the answers
   must not depend on it *)
Definition run_elab (args : list Z) : list Z :=
  let a := run_elab_d false args in
  if zlist_eqb a (run_elab_d true args) then a else oracle_incomplete.

(* 1608: as 1602 with the sparse case table *)
Definition run_elab_sp_d (dflt : bool) (args : list Z) : list Z :=
  match (dlet o <- d_oracle_sp dflt ; dlet op <- d_opts ; dlet s <- d_csyn ; d_ret (o, op, s)) args with
  | Some ((o, op, s), []) =>
    e_res e_cls (elab (or_cat o) (or_fold o) (or_lower o) orbit_fuel s op)
  | _ => bad_case
  end.
Definition run_elab_sp (args : list Z) : list Z :=
  let a := run_elab_sp_d false args in
  if zlist_eqb a (run_elab_sp_d true args) then a else oracle_incomplete.

(* 1609: as 1603 with the sparse case table *)
Definition run_denote_sp (args : list Z) : list Z :=
  match (dlet o <- d_oracle_sp false ; dlet op <- d_opts ; dlet s <- d_csyn ; dlet rs <- d_zlist ; d_ret (o, op, s, rs)) args with
  | Some ((o, op, s, rs), []) =>
    let e := sem op s in
    e_bits (map (denote (or_cat o) (or_fold o) orbit_fuel e) rs)
  | _ => bad_case
  end.

(* 1603: oracle, options, bracket expression, runes -> membership according to set algebra *)
Definition run_denote (args : list Z) : list Z :=
  match (dlet o <- d_oracle ; dlet op <- d_opts ; dlet s <- d_csyn ; dlet rs <- d_zlist ; d_ret (o, op, s, rs)) args with
  | Some ((o, op, s, rs), []) =>
    let e := sem op s in
    e_bits (map (denote (or_cat o) (or_fold o) orbit_fuel e) rs)
  | _ => bad_case
  end.

(* 1604: oracle, operation, operands -> result of one CharSet method on raw (not normalised) classes
   1 canonicalize c | 2 addRange c lo hi | 3 addRanges c rs | 4 addNegativeRanges c rs | 5 addSet c s
   6 addCategories c l | 7 addLowercase c | 8 addCaseEquivalences c | 9 MayOverlap a b
   10 IsSingleton, IsSingletonInverse, reduceSet c | 11 prepareASCIIBitmap c *)
Definition e_reduced (r : reduced) : list Z :=
  match r with ROne x => [1; x] | RNotone x => [2; x] | RSet _ => [0; 0] end.

Definition run_ops_d (dflt : bool) (args : list Z) : list Z :=
  match (dlet o <- d_oracle_d dflt ; dlet op <- d_z ; dlet c <- d_cls ; d_ret (o, op, c)) args with
  | Some ((o, op, c), rest) =>
    let cat := or_cat o in
    if op =? 1 then match rest with [] => e_cls (canonicalize cat c) | _ => bad_case end
    else if op =? 2 then match rest with [lo; hi] => e_cls (add_range cat c lo hi) | _ => bad_case end
    else if op =? 3 then match d_list (d_pair d_z d_z) rest with Some (rs, []) => e_cls (add_ranges cat c rs) | _ => bad_case end
    else if op =? 4 then match d_list (d_pair d_z d_z) rest with Some (rs, []) => e_cls (add_negative_ranges cat c rs) | _ => bad_case end
    else if op =? 5 then match d_cls rest with Some (s, []) => e_cls (add_set cat c s) | _ => bad_case end
    else if op =? 6 then match d_list (d_pair d_bool d_z) rest with Some (l, []) => e_cls (add_categories c l) | _ => bad_case end
    else if op =? 7 then match rest with [] => e_cls (add_lowercase cat (or_lower o) c) | _ => bad_case end
    else if op =? 8 then match rest with [] => e_res e_cls (add_case_equivalences cat (or_fold o) orbit_fuel c) | _ => bad_case end
    else if op =? 9 then match d_cls rest with Some (s, []) => e_bits [may_overlap cat c s] | _ => bad_case end
    else if op =? 10 then match rest with [] => e_bits [is_singleton c; is_singleton_inverse c] ++ e_res e_reduced (reduce_set c) | _ => bad_case end
    else if op =? 11 then match rest with [] => e_cls (prepare_ascii_bitmap cat c) | _ => bad_case end
    else bad_case
  | _ => bad_case
  end.
Definition run_ops (args : list Z) : list Z :=
  let a := run_ops_d false args in
  if zlist_eqb a (run_ops_d true args) then a else oracle_incomplete.

(* ---- exhaustive sweeps (thorough tier): categories as sorted range lists in a balanced tree,
   SimpleFold as the table of its non-identity points *)
Inductive rtree : Type := RLeaf | RNode (l : rtree) (lo hi : Z) (r : rtree).

Fixpoint rt_build (fuel n : nat) (l : list (Z * Z)) : rtree * list (Z * Z) :=
  match fuel with
  | O => (RLeaf, l)
  | S f =>
    match n with
    | O => (RLeaf, l)
    | _ =>
      let n1 := Nat.div2 n in
      let '(t1, l1) := rt_build f n1 l in
      match l1 with
      | (lo, hi) :: l2 =>
        let '(t2, l3) := rt_build f (n - n1 - 1) l2 in
        (RNode t1 lo hi t2, l3)
      | [] => (t1, [])
      end
    end
  end.

Fixpoint rt_mem (t : rtree) (ch : Z) : bool :=
  match t with
  | RLeaf => false
  | RNode l lo hi r => if ch <? lo then rt_mem l ch else if ch <=? hi then true else rt_mem r ch
  end.

Fixpoint assoc_tree (name : Z) (l : list (Z * rtree)) : rtree :=
  match l with
  | [] => RLeaf
  | (n, t) :: l' => if n =? name then t else assoc_tree name l'
  end.

(* categories: list of (id, sorted ranges); fold: (rune, SimpleFold rune) where it is not the identity *)
Definition d_oracle_rt : dec oracle :=
  dlet cs <- d_list (d_pair d_z (d_list (d_pair d_z d_z))) ;
  dlet fs <- d_list (d_pair d_z d_z) ;
  let trees := map (fun p => (fst p, fst (rt_build (S (length (snd p))) (length (snd p)) (snd p)))) cs in
  let fm := build_map fs in
  d_ret (Oracle (fun name ch => rt_mem (assoc_tree name trees) ch)
                (fun r => if r <? -1 then r else match PositiveMap.find (rkey r) fm with Some v => v | None => r end)
                (fun r => r)).

(* run-length encoding of a predicate over the intervals of a sweep: the value at the first rune, then
   every rune at which the value differs from the one before *)
Fixpoint sweep_span (p : Z -> bool) (lo : Z) (n : nat) (cur : bool) (acc : list Z) : bool * list Z :=
  match n with
  | O => (cur, acc)
  | S n' =>
    let v := p lo in
    sweep_span p (lo + 1) n' v (if Bool.eqb v cur then acc else lo :: acc)
  end.

Fixpoint sweep (p : Z -> bool) (spans : list (Z * Z)) (cur : bool) (acc : list Z) : list Z :=
  match spans with
  | [] => rev acc
  | (a, b) :: t =>
    let '(cur', acc') := sweep_span p a (Z.to_nat (b - a + 1)) cur acc in
    sweep p t cur' acc'
  end.

Definition rle (p : Z -> bool) (spans : list (Z * Z)) : list Z :=
  match spans with
  | [] => []
  | (a, _) :: _ => let v := p a in (if v then 1 else 0) :: sweep p spans v []
  end.

(* 1606: range oracle, exported class, sweep -> RLE of CharIn *)
Definition run_sweep_char_in (args : list Z) : list Z :=
  match (dlet o <- d_oracle_rt ; dlet c <- d_cls ; dlet sp <- d_list (d_pair d_z d_z) ; d_ret (o, c, sp)) args with
  | Some ((o, c, sp), []) => rle (char_in (or_cat o) c) sp
  | _ => bad_case
  end.

(* 1607: range oracle, options, bracket expression, sweep -> RLE of set algebra *)
Definition run_sweep_denote (args : list Z) : list Z :=
  match (dlet o <- d_oracle_rt ; dlet op <- d_opts ; dlet s <- d_csyn ; dlet sp <- d_list (d_pair d_z d_z) ; d_ret (o, op, s, sp)) args with
  | Some ((o, op, s, sp), []) => rle (denote (or_cat o) (or_fold o) orbit_fuel (sem op s)) sp
  | _ => bad_case
  end.

Definition run16 (leg : Z) (args : list Z) : list Z :=
  if leg =? 1601 then run_char_in args
  else if leg =? 1602 then run_elab args
  else if leg =? 1603 then run_denote args
  else if leg =? 1604 then run_ops args
  else if leg =? 1606 then run_sweep_char_in args
  else if leg =? 1607 then run_sweep_denote args
  else if leg =? 1608 then run_elab_sp args
  else if leg =? 1609 then run_denote_sp args
  else bad_case.
