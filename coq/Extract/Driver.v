(* Single entry point of the extracted model: leg number and flat integer arguments in,
   flat integer result out.  Extraction uses ExtrOcamlBasic only (DESIGN §5). *)
From Verif Require Import Base.Prelude Base.Wire.
From Verif Require Import Extract.Drv19.
Require Extraction.
Require Import ExtrOcamlBasic.

Definition run (leg : Z) (args : list Z) : list Z :=
  let p := leg / 100 in
  if p =? 19 then run19 leg args
  else bad_case.

Extraction "model.ml" run.
