(* Driver entry points for C14 (timeout clock).
   1401: replay a recorded history of the real clock on the model and compare.
         The harness records, with wall-clock stamps (ns since the history began): starts and ends of
         timed matches (possibly concurrent), StopTimeoutClock calls, and snapshots of the real clock
         state.  The driver builds the canonical schedule for these stamps (every makeDeadline call
         runs to completion at its start stamp; the clock goroutine wakes exactly when its sleep ends)
         and executes it with Model.Clock.step — the very function the theorems are about.  Because
         the real goroutines are only lag-timely, values are compared with the tolerances the theorems
         give; outcomes (timed out or not, latency) must lie inside the proved interval.
         Output: a list of failed checks (empty = agreement).
   1402: deadline arithmetic of makeDeadline on a clock that needs no extension:
         current + durationToTicks(d + clockPeriod) with int64 wrap-around.
   1403: durationToTicks and the one-second slop of extendClock. *)
From Verif Require Import Base.Prelude Base.Wire Model.Clock.

Section Replay.
Variable fx : bool.
Variables period lag margin : Z.

Definition stepE (s : st) (a : act) : res st :=
  match step fx period lag s a with Some s' => Ok s' | None => Err 1 end.

Definition tick_to (T : Z) (s : st) : res st :=
  if T <=? now (gs s) then Ok s else stepE s (Tick (T - now (gs s))).

Fixpoint find_clock (l : list thr) (i : nat) : option nat :=
  match l with
  | [] => None
  | t :: l' => if clock_alive t then Some i else find_clock l' (S i)
  end.

(* let real time advance to T; the clock goroutine runs ideally (wakes when its sleep ends) *)
Fixpoint advance (fuel : nat) (T : Z) (s : st) : res st :=
  match fuel with
  | O => Fuel
  | S f =>
      match find_clock (ths s) O with
      | None => tick_to T s
      | Some j =>
          match nth_error (ths s) j with
          | Some (R3 _ wake) =>
              if wake <=? T then
                do s1 <- tick_to wake s ; do s2 <- stepE s1 (Step j) ; advance f T s2
              else tick_to T s
          | Some _ => do s1 <- stepE s (Step j) ; advance f T s1
          | None => Err 3
          end
      end
  end.

(* run goroutine i until its makeDeadline call has returned *)
Fixpoint finish_call (fuel : nat) (i : nat) (s : st) : res st :=
  match fuel with
  | O => Fuel
  | S f =>
      match nth_error (ths s) i with
      | Some t => if inflight t then do s1 <- stepE s (Step i) ; finish_call f i s1 else Ok s
      | None => Err 2
      end
  end.

(* run goroutine i (a stopClock call) for n atomic actions *)
Fixpoint nsteps (n : nat) (i : nat) (s : st) : res st :=
  match n with
  | O => Ok s
  | S n' => do s1 <- stepE s (Step i) ; nsteps n' i s1
  end.

(* let the clock goroutine run until it has exited (used after stopClock reset clockEnd) *)
Fixpoint drain (fuel : nat) (s : st) : res st :=
  match fuel with
  | O => Fuel
  | S f =>
      match find_clock (ths s) O with
      | None => Ok s
      | Some j =>
          match nth_error (ths s) j with
          | Some (R3 _ wake) => do s1 <- advance f wake s ; drain f s1
          | Some _ => do s1 <- stepE s (Step j) ; drain f s1
          | None => Err 3
          end
      end
  end.

(* tolerance (in ticks) for current / clockEnd: both sides track real time within period+2*lag,
   and a stopped clock froze at an exit tick that itself depends on a clockEnd within that tolerance *)
Definition tol_ticks (xl : Z) : Z := 2 * ticks (period + 2 * xl) + 4.
(* half-width of the window around the predicted exit in which running/goroutine presence may differ *)
Definition amb_window (xl : Z) : Z := (tol_ticks xl + 2) * tick_ns + 2 * (period + xl).

Definition zabs_le (a b tol : Z) : bool := (a - b <=? tol) && (b - a <=? tol).
Definition b2z (b : bool) : Z := if b then 1 else 0.

(* one recorded event, already decoded *)
Inductive ev :=
| EvCall (id d b : Z)                                   (* a timed match starts at stamp b *)
| EvEnd (id d b f outcome stall : Z)                    (* it returned at f; outcome 1 = timeout error; stall = lag excess witnessed by the harness during this and the previous step *)
| EvStop (b : Z)                                        (* StopTimeoutClock called at b (it returned before the next event) *)
| EvSnap (p c ce r st0 since present stall : Z).              (* snapshot at p: current clockEnd running started since-start goroutine-present *)

Fixpoint lookup (id : Z) (m : list (Z * nat)) : option nat :=
  match m with
  | [] => None
  | (k, v) :: m' => if k =? id then Some v else lookup id m'
  end.

(* failed check: [event index; code; model value; implementation value] *)
Definition fail (idx code mv iv : Z) : list Z := [idx; code; mv; iv].

Definition check_end (idx d b f outcome stall : Z) : list Z :=
  let L := f - b in
  let hi := d + late_slack period (lag + stall) + margin in
  if outcome =? 1 then
    (if L <? d - early_slack (lag + stall) then fail idx 11 (d - early_slack (lag + stall)) L else []) ++
    (if L >? hi then fail idx 12 hi L else [])
  else
    (if L >? hi then fail idx 13 hi L else []).

Definition check_snap (idx : Z) (s : st) (p c ce r st0 since present hstall : Z) : list Z :=
  let G := gs s in
  let xl := lag + hstall in
  let m_started := match start G with Some _ => 1 | None => 0 end in
  let m_running := b2z (running G) in
  let m_alive := b2z (existsb clock_alive (ths s)) in
  let amb := match start G with
             | Some s0 => (0 <? cend G) && zabs_le p (real_of s0 (cend G)) (amb_window xl)
             | None => false
             end in
  (if m_started =? st0 then [] else fail idx 1 m_started st0) ++
  (if (m_running =? r) || amb then [] else fail idx 2 m_running r) ++
  (if (m_alive =? present) || amb then [] else fail idx 3 m_alive present) ++
  (if zabs_le (cur G) c (tol_ticks xl) || (amb && negb (m_running =? r)) then [] else fail idx 4 (cur G) c) ++
  (if zabs_le (cend G) ce (tol_ticks xl) then [] else fail idx 5 (cend G) ce) ++
  (* invariants of the proof, checked on the implementation's own snapshot *)
  (if (st0 =? 0) || (c <=? ticks since) then [] else fail idx 6 (ticks since) c) ++
  (if (r =? 0) || (ticks (since - (period + 2 * xl)) <=? c) then [] else fail idx 7 (ticks (since - (period + 2 * xl))) c).

Fixpoint replay (fuel : nat) (idx hst : Z) (evs : list ev) (m : list (Z * nat)) (s : st) (acc : list Z)
  : res (list Z) :=
  match evs with
  | [] => Ok acc
  | e :: evs' =>
      match e with
      | EvCall id d b =>
          do s1 <- advance fuel b s ;
          let i := length (ths s1) in
          do s2 <- stepE s1 (Call d) ;
          do s3 <- finish_call 16 i s2 ;
          replay fuel (idx + 1) hst evs' ((id, i) :: m) s3 acc
      | EvEnd id d b f outcome stall =>
          let hst' := Z.max hst stall in
          do s1 <- advance fuel f s ;
          match lookup id m with
          | None => Err 4
          | Some i =>
              do s2 <- stepE s1 (Step i) ;
              let s3 := match step fx period lag s2 (Finish i) with Some x => x | None => s2 end in
              replay fuel (idx + 1) hst' evs' m s3 (acc ++ check_end idx d b f outcome stall)
          end
      | EvStop b =>
          do s1 <- advance fuel b s ;
          let i := length (ths s1) in
          do s2 <- stepE s1 CallStop ;
          do s3 <- nsteps 3 i s2 ;
          do s4 <- drain fuel s3 ;
          do s5 <- nsteps 3 i s4 ;
          replay fuel (idx + 1) hst evs' m s5 acc
      | EvSnap p c ce r st0 since present stall =>
          let hst' := Z.max hst stall in
          do s1 <- advance fuel p s ;
          replay fuel (idx + 1) hst' evs' m s1 (acc ++ check_snap idx s1 p c ce r st0 since present hst')
      end
  end.

End Replay.

Definition d_ev : dec ev :=
  dlet k <- d_z ;
  if k =? 1 then dlet id <- d_z ; dlet d <- d_z ; dlet b <- d_z ; d_ret (EvCall id d b)
  else if k =? 2 then
    dlet id <- d_z ; dlet d <- d_z ; dlet b <- d_z ; dlet f <- d_z ; dlet o <- d_z ; dlet sl <- d_z ; d_ret (EvEnd id d b f o sl)
  else if k =? 3 then dlet b <- d_z ; d_ret (EvStop b)
  else if k =? 4 then
    dlet p <- d_z ; dlet c <- d_z ; dlet ce <- d_z ; dlet r <- d_z ; dlet st0 <- d_z ;
    dlet since <- d_z ; dlet pr <- d_z ; dlet sl <- d_z ; d_ret (EvSnap p c ce r st0 since pr sl)
  else fun _ => None.

(* 1401: fx period lag margin fuel n events...  (n = number of events) *)
Definition run_replay (args : list Z) : list Z :=
  match (dlet fx <- d_bool ; dlet period <- d_z ; dlet lag <- d_z ; dlet margin <- d_z ;
         dlet fuel <- d_nat ; dlet n <- d_nat ; dlet evs <- d_rep n d_ev ;
         d_ret (fx, period, lag, margin, fuel, evs)) args with
  | Some ((fx, period, lag, margin, fuel, evs), []) =>
      e_res e_zlist (replay fx period lag margin fuel 0 0 evs [] init [])
  | _ => bad_case
  end.

(* 1402: period cur dhi dlo -> deadline returned when no extension is needed
   (d = dhi * 2^32 + dlo: the OCaml glue reads 63-bit integers) *)
Definition run_deadline (args : list Z) : list Z :=
  match args with
  | [period; c; dhi; dlo] => [c + kd period (dhi * 4294967296 + dlo)]
  | _ => bad_case
  end.

(* 1403: x -> durationToTicks(x), durationToTicks(time.Second) (the constants the model hard-codes) *)
Definition run_ticks (args : list Z) : list Z :=
  match args with
  | [x] => [ticks x; slop_ticks]
  | _ => bad_case
  end.

Definition run14 (leg : Z) (args : list Z) : list Z :=
  if leg =? 1401 then run_replay args
  else if leg =? 1402 then run_deadline args
  else if leg =? 1403 then run_ticks args
  else bad_case.
