(* Driver entry points for C20 (link parser -> ci_closed, leg c20-closed). *)
From Verif Require Import Base.Prelude Base.Wire Model.Tree Model.Spec Model.CharClass Model.CaseLink
  Proofs.CaseProofs Extract.Drv01 Extract.Drv16.

(* 2001: env (the "text" is the finite rune universe U; oracle rows for every rune of U), exported
   tree, pair list -> [1] when the proved checker ci_closedb accepts the tree for these pairs,
   else 0 :: [preorder index; node type; payload] of the first rejected leaf *)
Definition run_closed (args : list Z) : list Z :=
  match (dlet ce <- d_env ; dlet t <- d_tree ; dlet ps <- d_list (d_pair d_z d_z) ; d_ret (ce, t, ps)) args with
  | Some ((ce, t, ps), []) =>
      if ci_closedb ps (ce_env ce) t then [1] else 0 :: ci_first_open ps (ce_env ce) t
  | _ => bad_case
  end.

(* 2002: oracle (SimpleFold rows for the orbit of ch), notone, option word, ch
   -> the leaf of the optimised tree for the one-letter unit: e_res (0|1 = One|Notone, o, ch) / (2, o, class) *)
Definition run_unit (args : list Z) : list Z :=
  match (dlet o <- d_oracle ; dlet notone <- d_bool ;
         dlet opts <- d_z ; dlet ch <- d_z ; d_ret (o, notone, opts, ch)) args with
  | Some ((o, notone, opts, ch), []) =>
      e_res e_uleaf (unit_leaf (or_cat o) (or_fold o) orbit_fuel notone opts ch)
  | _ => bad_case
  end.

Definition run20 (leg : Z) (args : list Z) : list Z :=
  if leg =? 2001 then run_closed args
  else if leg =? 2002 then run_unit args
  else bad_case.
