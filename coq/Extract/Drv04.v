(* Driver entry points for C04: the compile-time analyses of Model/Analysis.v on an exported tree. *)
From Verif Require Import Base.Prelude Base.Wire Model.Tree Model.Analysis.

Definition e_facts (f : facts_t) : list Z :=
  [f_min f; f_max f; f_lead f; f_trail f; f_mode f] ++ e_zlist (f_prefix f).

(* 401: tree, rtl, later_useful ->
        Ok [min; max; lead; trail; mode; prefix bytes]            final FindOptimizations (with the lookahead wrapper)
           [legacy Anchors; has Boyer-Moore prefix; its runes; its CaseInsensitive flag]
           [shape_ok for the pattern's direction; no_ci_lit; look_ok]
        Crash 1 when the tree is one the Go code would fault on *)
Definition run_facts (args : list Z) : list Z :=
  match (dlet t <- d_tree ; dlet rtl <- d_bool ; dlet lu <- d_bool ; d_ret (t, rtl, lu)) args with
  | Some ((t, rtl, lu), []) =>
      if may_fault t then e_res (fun x : list Z => x) (Crash 1)
      else
        0 :: e_facts (facts rtl lu t)
          ++ [get_anchors t]
          ++ (match bm_prefix t with
              | Some (s, ci) => 1 :: e_zlist s ++ e_bool ci
              | None => 0 :: e_zlist [] ++ e_bool false
              end)
          ++ e_bool (shape_ok rtl t) ++ e_bool (no_ci_lit t) ++ e_bool (look_ok t)
  | _ => bad_case
  end.

Definition run04 (leg : Z) (args : list Z) : list Z :=
  if leg =? 401 then run_facts args
  else bad_case.
