(* Driver entry points for C04: the compile-time analyses of Model/Analysis.v on an exported tree. *)
From Coq Require Import FMapPositive.
From Verif Require Import Base.Prelude Base.Wire Base.Utf8 Model.Tree Model.CharClass Model.Analysis Model.Analysis2
     Extract.Drv16.

Definition e_facts (f : facts_t) : list Z :=
  [f_min f; f_max f; f_lead f; f_trail f; f_mode f] ++ e_zlist (f_prefix f).

(* 401: tree, rtl, later_useful ->
        Ok [min; max; lead; trail; mode; prefix bytes]            final FindOptimizations (with the lookahead wrapper)
           [legacy Anchors; has Boyer-Moore prefix; its runes; its CaseInsensitive flag]
           [shape_ok for the pattern's direction; no_ci_lit; look_ok]
        Crash 1 when the tree is one the Go code would fault on *)
Definition run_facts (args : list Z) : list Z :=
  match (dlet t <- d_tree ; dlet rtl <- d_bool ; dlet lu <- d_bool ; d_ret (t, rtl, lu)) args with
  | Some ((t, rtl, lu), []) =>
      if may_fault t then e_res (fun x : list Z => x) (Crash 1)
      else
        0 :: e_facts (facts rtl lu t)
          ++ [get_anchors t]
          ++ (match bm_prefix_dir rtl t with
              | Some (s, ci) => 1 :: e_zlist s ++ e_bool ci
              | None => 0 :: e_zlist [] ++ e_bool false
              end)
          ++ e_bool (shape_ok rtl t) ++ e_bool (no_ci_lit t) ++ e_bool (look_ok t)
  | _ => bad_case
  end.

(* ---- legs 402-406: the analyses of Model/Analysis2.v -------------------------------------------------
   common input: oracle tables (Drv16 format: category ids, (rune, category mask) pairs, (rune, SimpleFold,
   ToLower) triples), (rune, participatesInCaseConversion) pairs, the classes of the set ids in id order,
   the tree.  Every leg is evaluated with both defaults for oracle questions outside the shipped tables:
   the answers must agree, otherwise the case is reported as oracle_incomplete. *)
Record a2_in := { a2_cat : Z -> Z -> bool; a2_part : Z -> bool; a2_lower : Z -> Z; a2_sets : list cls; a2_tree : node }.

Definition a2_part_tbl (dflt : bool) (m : PositiveMap.t Z) (r : Z) : bool :=
  match PositiveMap.find (rkey r) m with Some v => negb (v =? 0) | None => dflt end.

Definition d_a2 (dflt : bool) : dec a2_in :=
  dlet o <- d_oracle_d dflt ;
  dlet pc <- d_list (d_pair d_z d_z) ;
  dlet ss <- d_list d_cls ;
  dlet t <- d_tree ;
  d_ret {| a2_cat := or_cat o; a2_part := a2_part_tbl dflt (build_map pc); a2_lower := or_lower o; a2_sets := ss; a2_tree := t |}.

Definition e_opt {A} (e : A -> list Z) (o : option A) : list Z := match o with Some a => 1 :: e a | None => [0] end.
Definition e_cls0 (c : cls) : list Z := e_cls (strip_ascii c).

(* 402: -> find_first_char_class, then the theorem hypotheses lits_ok of the tree and cls_good_b of every exported class *)
Definition run_ffcc_d (dflt : bool) (args : list Z) : list Z :=
  match d_a2 dflt args with
  | Some (a, []) => e_opt e_cls0 (find_first_char_class (a2_cat a) (a2_sets a) (a2_tree a)) ++ e_bool (lits_ok (a2_tree a)) ++ e_bool (forallb cls_good_b (a2_sets a))
  | _ => bad_case
  end.

Definition e_fdset (s : fdset) : list Z :=
  e_cls0 (fs_set s) ++ e_zlist (fs_chars s) ++ e_bool (fs_neg s)
  ++ (match fs_range s with Some (a, b) => [1; a; b] | None => [0; 0; 0] end) ++ [fs_dist s].

(* 403: thorough -> find_fixed_distance_sets sorted by distance, then find_fixed_distance_string *)
Definition run_fds_d (dflt : bool) (args : list Z) : list Z :=
  match (dlet a <- d_a2 dflt ; dlet th <- d_bool ; d_ret (a, th)) args with
  | Some ((a, th), []) =>
      let l := find_fixed_distance_sets (a2_cat a) (a2_sets a) th (a2_tree a) in
      e_list e_fdset (fds_sort l)
      ++ e_opt (fun sd : list Z * Z => e_zlist (fst sd) ++ [snd sd]) (find_fixed_distance_string l)
  | _ => bad_case
  end.

(* 404: -> find_prefixes false, find_prefixes true (as UTF-8 byte strings), ci_prefix *)
Definition run_prefixes_d (dflt : bool) (args : list Z) : list Z :=
  match d_a2 dflt args with
  | Some (a, []) =>
      let fp := fun ic => e_opt (e_list (fun p => e_zlist (encode_string p)))
                                (find_prefixes (a2_cat a) (a2_part a) (a2_sets a) ic (a2_tree a)) in
      fp false ++ fp true ++ e_zlist (ci_prefix (a2_cat a) (a2_part a) (a2_sets a) (a2_tree a))
  | _ => bad_case
  end.

Definition e_lal (l : lal) : list Z :=
  lal_loop l :: match lal_what l with
                | LalChar c => [0; c]
                | LalString b ic => 1 :: e_zlist b ++ e_bool ic
                | LalChars cs => 2 :: e_zlist cs
                end.
Definition e_oz (o : option Z) : list Z := match o with Some i => [i + 1] | None => [0] end.
Definition e_lm_alt (a : lm_alt) : list Z :=
  e_zlist (la_lit a) ++ e_oz (la_set a) ++ e_oz (la_lead a) ++ e_oz (la_trail a) ++ [la_min a; la_max a]
  ++ e_bool (la_req_before a) ++ e_bool (la_req_after a).

(* 405: -> find_lit_after_loop, find_landmark_chain *)
Definition run_lal_d (dflt : bool) (args : list Z) : list Z :=
  match d_a2 dflt args with
  | Some (a, []) =>
      let lr := find_lit_after_loop (a2_cat a) (a2_part a) (a2_sets a) (a2_tree a) in
      e_res (e_opt e_lal) lr
      (* hypothesis of C04_literal_after_loop_sound: a published case-sensitive string is valid UTF-8 *)
      ++ e_bool (match lr with
                 | Ok (Some l) => match lal_what l with LalString b false => valid_utf8 b | _ => true end
                 | _ => true
                 end)
      ++ e_opt (fun c : Z * list (list lm_alt) => fst c :: e_list (e_list e_lm_alt) (snd c))
               (find_landmark_chain (a2_cat a) (a2_sets a) (a2_tree a))
  | _ => bad_case
  end.

(* 406: -> first_chars_prefix *)
Definition run_fc_d (dflt : bool) (args : list Z) : list Z :=
  match d_a2 dflt args with
  | Some (a, []) =>
      e_res (e_opt (fun p : cls * bool => e_cls0 (fst p) ++ e_bool (snd p)))
            (first_chars_prefix (a2_cat a) (a2_lower a) (a2_sets a) (a2_tree a))
  | _ => bad_case
  end.

Definition both (f : bool -> list Z -> list Z) (args : list Z) : list Z :=
  let a := f false args in if zlist_eqb a (f true args) then a else oracle_incomplete.

Definition run04 (leg : Z) (args : list Z) : list Z :=
  if leg =? 401 then run_facts args
  else if leg =? 402 then both run_ffcc_d args
  else if leg =? 403 then both run_fds_d args
  else if leg =? 404 then both run_prefixes_d args
  else if leg =? 405 then both run_lal_d args
  else if leg =? 406 then both run_fc_d args
  else bad_case.
