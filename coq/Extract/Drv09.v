(* Driver entry points for C09 (Replace / ReplaceFunc / Split and the replacement-string parser). *)
From Verif Require Import Base.Prelude Base.Wire Model.Replace.

(* ---- decoders ---- *)
Definition d_opt {A} (d : dec A) : dec (option A) :=
  dlet f <- d_z ; if f =? 0 then d_ret None else dlet a <- d ; d_ret (Some a).

Definition d_env : dec penv :=
  dlet o <- d_z ;
  dlet caps <- d_opt (d_list (d_pair d_z d_z)) ;
  dlet capsize <- d_z ;
  dlet names <- d_opt (d_list (d_pair d_zlist d_z)) ;
  d_ret (mkEnv o caps capsize names).

(* oracle table: rune -> bits (1 = IsWordChar, 2 = IsECMAIdentifierStartChar, 4 = IsECMAIdentifierChar) *)
Definition d_table : dec (list (Z * Z)) := d_list (d_pair d_z d_z).
Definition bit (t : list (Z * Z)) (k : Z) (r : Z) : bool := Z.odd (zassoc r t 0 / k).

Definition d_match : dec mtch :=
  dlet i <- d_z ; dlet l <- d_z ;
  dlet gs <- d_list (d_list (d_pair d_z d_z)) ;
  d_ret (mkM i l gs).

Definition d_tw : dec (list (Z * Z)) := d_list (d_pair d_z d_z).

(* ---- encoders ---- *)
Definition e_rdata (d : rdata) : list Z := e_list e_zlist (rd_strings d) ++ e_zlist (rd_rules d).
Definition e_pieces (l : list (list Z)) : list Z := e_list e_zlist l.

Definition parse (t : list (Z * Z)) (env : penv) (rep : list Z) : res rdata :=
  new_replacer_data (bit t 1) (bit t 2) (bit t 4) env rep.

(* 901: env, oracle table, replacement -> replacer data *)
Definition run_parse (args : list Z) : list Z :=
  match (dlet env <- d_env ; dlet t <- d_table ; dlet rep <- d_zlist ; d_ret (env, t, rep)) args with
  | Some ((env, t, rep), []) => e_res e_rdata (parse t env rep)
  | _ => bad_case
  end.

Definition d_replace_case :=
  dlet env <- d_env ; dlet t <- d_table ; dlet rep <- d_zlist ;
  dlet rtl <- d_bool ; dlet tw <- d_tw ; dlet startAt <- d_z ; dlet count <- d_z ;
  dlet ms <- d_list d_match ;
  d_ret (env, t, rep, rtl, tw, startAt, count, ms).

(* 902: Replace(input, replacement, startAt, count) on the given match sequence *)
Definition run_replace (args : list Z) : list Z :=
  match d_replace_case args with
  | Some ((env, t, rep, rtl, tw, startAt, count, ms), []) =>
      e_res e_zlist (replace_string (bit t 1) (bit t 2) (bit t 4) env rtl rep tw startAt count ms)
  | _ => bad_case
  end.

(* 903: ReplaceFunc with the evaluator m => expand (tokens of the parsed replacement) m text *)
Definition run_replace_func (args : list Z) : list Z :=
  match d_replace_case args with
  | Some ((env, t, rep, rtl, tw, startAt, count, ms), []) =>
      e_res e_zlist
        (do d <- parse t env rep ;
         match toks_of d with
         | Some toks => replace rtl (ByEval (fun m => expand toks m (runes_of tw))) tw startAt count ms
         | None => Crash 99
         end)
  | _ => bad_case
  end.

(* 904: Split(input, count) on the given match sequence *)
Definition run_split (args : list Z) : list Z :=
  match (dlet rtl <- d_bool ; dlet tw <- d_tw ; dlet count <- d_z ; dlet ms <- d_list d_match ;
         d_ret (rtl, tw, count, ms)) args with
  | Some ((rtl, tw, count, ms), []) => e_res e_pieces (split rtl tw count ms)
  | _ => bad_case
  end.

(* 905: the SPECIFICATION replace_spec evaluated directly (no driver): only for calls without error *)
Definition run_replace_spec (args : list Z) : list Z :=
  match d_replace_case args with
  | Some ((env, t, rep, rtl, tw, startAt, count, ms), []) =>
      e_res e_zlist
        (do d <- parse t env rep ;
         match toks_of d with
         | Some toks => Ok (replace_spec rtl ms toks count (runes_of tw))
         | None => Crash 99
         end)
  | _ => bad_case
  end.

(* 906: the SPECIFICATION split_spec evaluated directly *)
Definition run_split_spec (args : list Z) : list Z :=
  match (dlet rtl <- d_bool ; dlet tw <- d_tw ; dlet count <- d_z ; dlet ms <- d_list d_match ;
         d_ret (rtl, tw, count, ms)) args with
  | Some ((rtl, tw, count, ms), []) => e_res e_pieces (Ok (split_spec rtl ms count (runes_of tw)))
  | _ => bad_case
  end.

Definition run09 (leg : Z) (args : list Z) : list Z :=
  if leg =? 901 then run_parse args
  else if leg =? 902 then run_replace args
  else if leg =? 903 then run_replace_func args
  else if leg =? 904 then run_split args
  else if leg =? 905 then run_replace_spec args
  else if leg =? 906 then run_split_spec args
  else bad_case.
