(* Driver entry points for C19 (Escape / Unescape). *)
From Verif Require Import Base.Prelude Base.Wire Model.Escape.

Definition d_table : dec (list (Z * Z)) := d_list (d_pair d_z d_z).
Definition tbl_fun (t : list (Z * Z)) (r : Z) : bool := negb (zassoc r t 0 =? 0).

(* 1901: oracle table for is_print, string -> escaped string *)
Definition run_escape (args : list Z) : list Z :=
  match (dlet t <- d_table ; dlet s <- d_zlist ; d_ret (t, s)) args with
  | Some ((t, s), []) => e_zlist (escape (tbl_fun t) s)
  | _ => bad_case
  end.

(* 1902: oracle table for is_word_char, string -> result *)
Definition run_unescape (args : list Z) : list Z :=
  match (dlet t <- d_table ; dlet s <- d_zlist ; d_ret (t, s)) args with
  | Some ((t, s), []) => e_res e_zlist (unescape (tbl_fun t) s)
  | _ => bad_case
  end.

Definition run19 (leg : Z) (args : list Z) : list Z :=
  if leg =? 1901 then run_escape args
  else if leg =? 1902 then run_unescape args
  else bad_case.
