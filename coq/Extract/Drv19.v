(* Driver entry points for C19 (Escape / Unescape). *)
From Verif Require Import Base.Prelude Base.Wire Model.Escape Model.ParseLit.

Definition d_table : dec (list (Z * Z)) := d_list (d_pair d_z d_z).
Definition tbl_fun (t : list (Z * Z)) (r : Z) : bool := negb (zassoc r t 0 =? 0).

(* 1901: oracle table for is_print, string -> escaped string *)
Definition run_escape (args : list Z) : list Z :=
  match (dlet t <- d_table ; dlet s <- d_zlist ; d_ret (t, s)) args with
  | Some ((t, s), []) => e_zlist (escape (tbl_fun t) s)
  | _ => bad_case
  end.

(* 1902: oracle table for is_word_char, string -> result *)
Definition run_unescape (args : list Z) : list Z :=
  match (dlet t <- d_table ; dlet s <- d_zlist ; d_ret (t, s)) args with
  | Some ((t, s), []) => e_res e_zlist (unescape (tbl_fun t) s)
  | _ => bad_case
  end.

(* ---- the literal-fragment parser (Model/ParseLit.v) ---- *)
(* oracle row of a rune: is_word_char, to_lower, is_cased, participates, ci_single, ci_set_id *)
Record plrow := { pr_word : Z; pr_lower : Z; pr_cased : Z; pr_part : Z; pr_single : Z; pr_setid : Z }.
Definition d_plrow : dec (Z * plrow) :=
  dlet c <- d_z ; dlet a <- d_z ; dlet b <- d_z ; dlet d <- d_z ; dlet e <- d_z ; dlet f <- d_z ; dlet g <- d_z ;
  d_ret (c, {| pr_word := a; pr_lower := b; pr_cased := d; pr_part := e; pr_single := f; pr_setid := g |}).
(* a rune the harness did not foresee gets a row that cannot agree with the implementation by accident *)
Definition pl_miss : plrow := {| pr_word := 0; pr_lower := -7; pr_cased := 0; pr_part := 0; pr_single := 0; pr_setid := -7 |}.
Fixpoint pl_row (t : list (Z * plrow)) (c : Z) : plrow :=
  match t with
  | [] => pl_miss
  | (c', r) :: t' => if c =? c' then r else pl_row t' c
  end.

Definition e_pnode (n : pnode) : list Z :=
  match n with
  | PnOne o c => [9; o; c]
  | PnMulti o s => 12 :: o :: e_zlist s
  | PnSet o id => [11; o; id]
  | PnSetLoop o id k => [5; o; id; k]
  | PnType t o => [t; o]
  | PnRef o g => [13; o; g]
  end.
Definition e_pbody (b : pbody) : list Z :=
  match b with
  | BEmpty o => [0; o]
  | BSingle n => 1 :: e_pnode n
  | BConcat o l => 2 :: o :: e_list e_pnode l
  end.
Definition e_pres (r : pres) : list Z :=
  match r with
  | PTree (PRoot o b) => 0 :: o :: e_pbody b
  | POutside => [1]
  end.

(* 1903: options, oracle rows, pattern -> parse result *)
Definition run_parse_lit (args : list Z) : list Z :=
  match (dlet o <- d_z ; dlet t <- d_list d_plrow ; dlet p <- d_zlist ; d_ret (o, t, p)) args with
  | Some ((o, t, p), []) =>
      let nz := fun x => negb (x =? 0) in
      e_res e_pres
        (parse_lit (fun c => nz (pr_word (pl_row t c))) (fun c => pr_lower (pl_row t c))
                   (fun c => nz (pr_cased (pl_row t c))) (fun c => nz (pr_part (pl_row t c)))
                   (fun c => nz (pr_single (pl_row t c))) (fun c => pr_setid (pl_row t c)) o p)
  | _ => bad_case
  end.

Definition run19 (leg : Z) (args : list Z) : list Z :=
  if leg =? 1901 then run_escape args
  else if leg =? 1902 then run_unescape args
  else if leg =? 1903 then run_parse_lit args
  else bad_case.
