(* Driver entry points for the tree-level reference semantics (C01/C15 and friends). *)
From Verif Require Import Base.Prelude Base.Wire Model.Tree Model.Spec Model.VM Model.Writer.
From Verif Require Import Proofs.CompileFrag Proofs.CompileLimit Proofs.CompileCfSafe Proofs.SpecTermProofs.

(* oracle rows: rune, lower, is_word, is_eword, set-membership bits *)
Record orow := { o_lower : Z; o_word : bool; o_eword : bool; o_sets : list bool }.
Definition d_orow : dec (Z * orow) :=
  dlet r <- d_z ; dlet lo <- d_z ; dlet w <- d_bool ; dlet ew <- d_bool ; dlet bits <- d_list d_bool ;
  d_ret (r, {| o_lower := lo; o_word := w; o_eword := ew; o_sets := bits |}).

Fixpoint orow_get (r : Z) (t : list (Z * orow)) : option orow :=
  match t with
  | [] => None
  | (r', x) :: t' => if r =? r' then Some x else orow_get r t'
  end.

Record case_env := { ce_env : env; ce_slots : list Z }.

(* text, textstart, ecma, endz_strict, oracle table, slot->group-number list *)
Definition d_env : dec case_env :=
  dlet t <- d_zlist ; dlet ts <- d_z ; dlet ec <- d_bool ; dlet ez <- d_bool ;
  dlet tbl <- d_list d_orow ; dlet slots <- d_zlist ;
  d_ret {| ce_env := {| txt := t; tstart := ts; ecma := ec; endz_strict := ez;
             set_in := fun sid r => match orow_get r tbl with
                                    | Some x => nth (Z.to_nat sid) (o_sets x) false | None => false end;
             lower := fun r => match orow_get r tbl with Some x => o_lower x | None => r end;
             is_word := fun r => match orow_get r tbl with Some x => o_word x | None => false end;
             is_eword := fun r => match orow_get r tbl with Some x => o_eword x | None => false end |};
           ce_slots := slots |}.

Definition e_caps (slots : list Z) (c : caps_t) : list Z :=
  Z.of_nat (length slots) ::
  flat_map (fun g => let l := rev (cap_get g c) in
                     Z.of_nat (length l) :: flat_map (fun iv => [fst iv; snd iv]) l) slots.

Definition e_match (slots : list Z) (r : res (option st)) : list Z :=
  e_res (fun o => match o with
                  | None => [0]
                  | Some s => 1 :: pos s :: e_caps slots (caps s)
                  end) r.

(* 101: env, tree, rtl, start, prevlen, fuel -> match *)
Definition run_find (args : list Z) : list Z :=
  match (dlet ce <- d_env ; dlet t <- d_tree ; dlet rtl <- d_bool ; dlet start <- d_z ;
         dlet prev <- d_z ; dlet fuel <- d_nat ; d_ret (ce, t, rtl, start, prev, fuel)) args with
  | Some ((ce, t, rtl, start, prev, fuel), []) =>
      e_match (ce_slots ce) (find (ce_env ce) fuel t rtl start prev)
  | _ => bad_case
  end.

(* 103: same as 101, evaluated by the continuation-passing search *)
Definition run_findk (args : list Z) : list Z :=
  match (dlet ce <- d_env ; dlet t <- d_tree ; dlet rtl <- d_bool ; dlet start <- d_z ;
         dlet prev <- d_z ; dlet fuel <- d_nat ; d_ret (ce, t, rtl, start, prev, fuel)) args with
  | Some ((ce, t, rtl, start, prev, fuel), []) =>
      e_match (ce_slots ce) (findk (ce_env ce) fuel t rtl start prev)
  | _ => bad_case
  end.

(* 102: tree, has_capmap, capmap pairs, capsize -> codes, strings, trackcount, quick codes, slots in use *)
Definition run_write (args : list Z) : list Z :=
  match (dlet t <- d_tree ; dlet hm <- d_bool ; dlet m <- d_list (d_pair d_z d_z) ; dlet cs <- d_z ;
         d_ret (t, hm, m, cs)) args with
  | Some ((t, hm, m, cs), []) =>
      let cm := if hm then Some m else None in
      let '(code, tbl) := write_full cm t in
      e_zlist code ++ e_list e_zlist tbl ++ [track_count code] ++
      (match write_quick cm cs t with None => [0] | Some q => 1 :: e_zlist q end) ++
      e_list e_bool (slots_in_use code cs)
  | _ => bad_case
  end.

(* 104: tree, has_capmap, capmap pairs, capsize -> the decidable hypotheses of the compile_correct theorems
   (Proofs/CompileFrag.v: frag_flags), then in_thm1 .. in_thm4 *)
Definition run_frag (args : list Z) : list Z :=
  match (dlet t <- d_tree ; dlet hm <- d_bool ; dlet m <- d_list (d_pair d_z d_z) ; dlet cs <- d_z ;
         d_ret (t, hm, m, cs)) args with
  | Some ((t, hm, m, cs), []) =>
      let cm := if hm then Some m else None in
      e_list e_bool (frag_flags cm cs t) ++
      e_bool (in_thm1 cm cs t) ++ e_bool (in_thm2 cm cs t) ++ e_bool (in_thm3 cm cs t) ++ e_bool (in_thm4 cm cs t)
  | _ => bad_case
  end.

(* 105: env, tree, has_capmap, capmap pairs, capsize, start position, step budget ->
   the monitor of Proofs/CompileLimit.v on the full program: [1; steps] when every state of the unbounded run is at
   an instruction boundary with the grouping stack two words below its initial size, else [0] *)
Definition run_mon (args : list Z) : list Z :=
  match (dlet ce <- d_env ; dlet t <- d_tree ; dlet hm <- d_bool ; dlet m <- d_list (d_pair d_z d_z) ;
         dlet cs <- d_z ; dlet t0 <- d_z ; dlet k <- d_nat ; d_ret (ce, t, hm, m, cs, t0, k)) args with
  | Some ((ce, t, hm, m, cs, t0, k), []) =>
      let cm := if hm then Some m else None in
      let '(code, tbl) := write_full cm t in
      let p := {| codes := code; strings := tbl; trackcount := track_count code; capsize := cs |} in
      match mon_steps (ce_env ce) p k (a0 p t0) with
      | Some n => [1; Z.of_nat n]
      | None => [0]
      end
  | _ => bad_case
  end.

(* 106: tree, has_capmap, capmap pairs, capsize -> the static frame-shape verifier of Proofs/CompileCfSafe.v on the
   full program and on the quick program (when there is one): [tyck full; has quick; tyck quick] *)
Definition run_tyck (args : list Z) : list Z :=
  match (dlet t <- d_tree ; dlet hm <- d_bool ; dlet m <- d_list (d_pair d_z d_z) ; dlet cs <- d_z ;
         d_ret (t, hm, m, cs)) args with
  | Some ((t, hm, m, cs), []) =>
      let cm := if hm then Some m else None in
      let '(code, tbl) := write_full cm t in
      let mkp := fun c => {| codes := c; strings := tbl; trackcount := track_count c; capsize := cs |} in
      e_bool (tyck_auto (mkp code)) ++
      match write_quick cm cs t with
      | None => [0; 0]
      | Some q => 1 :: e_bool (tyck_auto (mkp q))
      end
  | _ => bad_case
  end.

(* 107: tree, has_capmap, capmap pairs, capsize (the input of 104) -> the side condition of the termination
   theorems (Proofs/SpecTermProofs.v): [term_ok; tm_look_free; term_fuel for the empty text]
   (term_fuel e t = that number + the text length whenever the tree has a loop) *)
Definition run_term (args : list Z) : list Z :=
  match (dlet t <- d_tree ; dlet hm <- d_bool ; dlet m <- d_list (d_pair d_z d_z) ; dlet cs <- d_z ;
         d_ret (t, hm, m, cs)) args with
  | Some ((t, _, _, _), []) =>
      e_bool (term_ok t) ++ e_bool (tm_look_free t) ++ [Z.of_nat (term_fuel_n 0 t)]
  | _ => bad_case
  end.

Definition run01 (leg : Z) (args : list Z) : list Z :=
  if leg =? 101 then run_find args
  else if leg =? 102 then run_write args
  else if leg =? 103 then run_findk args
  else if leg =? 104 then run_frag args
  else if leg =? 105 then run_mon args
  else if leg =? 106 then run_tyck args
  else if leg =? 107 then run_term args
  else bad_case.
